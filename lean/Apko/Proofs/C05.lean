/-
C05 — Installed package bytes are authenticated end to end.

Model: `Apko/Model/Authentic.lean` (ExpandApk/checkSums, cachedPackage, cachePackage, verifyExpanded,
expandPackage, tarfs.WriteHeader, lock/build operations over a cache root).  SHA-1, SHA-256, gunzip+untar are
parameters (`Lib`); nothing is assumed about them except `HexCanonical` (digests are printed by
`hex.EncodeToString`, so decoding and re-encoding one is the identity).  No injectivity anywhere.

Proved for ALL libraries, packages, caches, fetched streams:
* `files_checked`                 `expand = ok e` → e.files are the entries of the data section and every regular file that
                                  carries a record matches it (a missing record is skipped by checkSums: `checkSums_skips_missing_record`,
                                  but the tarfs installer refuses such a file: `installed_files_recorded`);
* `cache_lookup_keyed_by_expected` a cache hit is determined by the expected checksum and the cache alone: the control
                                  section is the entry named by the expected checksum, the data section the entry named by
                                  the datahash of that control section;
* `cachedPackage_authentic`       under the cache invariant a hit is authentic;
* `cache_inv_preserved`           the invariant (names are hashes of their content; cached data sections passed checkSums)
                                  holds for the empty cache and is preserved by expandPackage — with or without the
                                  verification step (the cache is content addressed, so it cannot be poisoned);
* `install_authentic`             `expandPackage exp cache fetched = ok e` (disabled, cold or warm cache satisfying the invariant)
                                  → sha1 of both control views = exp, the data section matches the datahash of the control
                                  section, the files are the entries of that data section and are checked.
                                  This is FALSE for the pinned algorithm (`pinned_accepts_swapped_control`,
                                  `pinned_accepts_swapped_data`: F05a/F05b, repaired by the `fix:` commit, witnesses replayed
                                  by corpus/authentic/F05*.json);
* `swapped_control_rejected`, `swapped_data_rejected`, `modified_file_rejected`, `missing_record_not_installed`
                                  the tamperings of the property text, as corollaries;
* `expandVia_spec` (round 2)      `(*APK).expandPackage` with the process-wide memo of expansions (`globalApkCache`, keyed by URL):
                                  invariant `MemoInv` — every memoised success is authentic for the checksum of the handle it was
                                  made for; an entry answers a handle only when it was made for the same checksum string, any other
                                  handle is expanded and verified directly — so a success is authentic for THIS handle's checksum.
                                  FALSE without the memo check (`memo_without_check_installs_other_checksum`: F05d, repaired by a
                                  `fix:` commit; `memo_with_check_installs_requested`), witnesses corpus/authentic/F05d_*.json;
* `installed_bytes_verified` (round 2) for ALL data sections that pass checkSums: after the (repaired) lazy installer every node
                                  that holds file content reads — by name through the lazy tar FS, last entry of a name wins, links
                                  followed inside the tar — exactly the body of the entry it was created from, and that body matches
                                  the node's per-file record.  FALSE for the pinned installer (`pinned_serves_unverified_bytes`: F05e,
                                  a same-name symlink with a copied record makes a regular file serve bytes that match no record;
                                  `repaired_refuses_repeated_name`), witnesses corpus/authentic/F05e_*.json;
* `ops_authentic`                 for every sequence of lock/build operations — each in a fresh process or in the process of the
                                  previous one — starting from an empty cache root: every package of every operation that is
                                  reported as done was expanded to bytes authentic for the checksum of its own handle, and (build)
                                  every file laid out is recorded, is read back as the body of its own entry and matches its record.
                                  `tie_impl_cfg`: that is the algorithm the code runs today.
* `spec_ok_sound`, `expVerdict_ok_sound` the oracles evaluated by the driver (`Spec.pkgVerdict` on the bytes on offer, memo-blind;
                                  `Spec.expVerdict` on what an operation actually expanded) answer `ok` only when the three
                                  relations hold in their strict form (a data hash IS recorded and matches).
Residual (finding F05c): the repair tolerates an EMPTY datahash (`DataMatches` has that disjunct); then the data section
is covered by per-file records only — `empty_datahash_unauthenticated`.
-/
import Apko.Model.Authentic
import Apko.Generated.Authentic
import Apko.Proofs.Lemmas.AuthenticInstall

namespace Apko.C05
open Apko Apko.Authentic

/-! ### ties to the regenerated facts (extract/authentic.go; `if c → return-error` is an `if` whose body ends in
returning a non-nil error, error texts are left out) -/

/-- `expandPackage` looks in the cache, fetches, expands, verifies, and only then advertises in the cache -/
theorem tie_expandPackage_calls : Generated.expandPackageCalls =
    ["cachedPackage", "FetchPackage", "ExpandApk", "verifyExpanded", "cachePackage"] := rfl

/-- the model's switch between the repaired and the pinned algorithm follows the code: a failing
`verifyExpanded(pkg, exp)` between `ExpandApk` and `cachePackage` returns `nil, err` -/
theorem tie_impl_verifies : Impl.verifies = Generated.expandPackageVerifies := rfl

/-- `verifyExpanded` = `Authentic.verifyExpanded`: lenient `Q1` prefix, control hash compared first, the datahash of the
control FILE read with `datahash`, empty tolerated, hex-decoded, compared with the data hash -/
theorem tie_verifyExpanded : Generated.stmts_verifyExpanded =
    ["chk := pkg.ChecksumString()",
     "want, err := base64.StdEncoding.DecodeString(strings.TrimPrefix(chk, \"Q1\"))",
     "if err != nil → return-error",
     "if !bytes.Equal(want, exp.ControlHash) → return-error",
     "f, err := os.Open(exp.ControlFile)",
     "if err != nil → return-error",
     "defer f.Close()",
     "datahash, err := a.datahash(f)",
     "if err != nil → return-error",
     "if datahash == \"\" → return-ok",
     "wantData, err := hex.DecodeString(datahash)",
     "if err != nil → return-error",
     "if !bytes.Equal(wantData, exp.PackageHash) → return-error",
     "return nil"] := rfl

/-- `datahash` = `Authentic.datahash`: exactly one value -/
theorem tie_datahash : Generated.stmts_datahash =
    ["values, err := a.controlValue(controlTarGz, \"datahash\")",
     "if err != nil → return-error",
     "if len(values) != 1 → return-error",
     "return values[0], nil"] := rfl

/-- the loop of `checkSums` = `Authentic.checkEntry`: non-regular entries and entries without a record are skipped,
an undecodable record and a mismatch are errors -/
theorem tie_checkSums_loop : Generated.stmts_checkSumsLoop =
    ["header, err := tr.Next()",
     "if errors.Is(err, io.EOF) → break",
     "if err != nil → return-error",
     "if header.Typeflag != tar.TypeReg → continue",
     "checksum, err := checksumFromHeader(header)",
     "if err != nil → return-error",
     "if checksum == nil → continue",
     "w := sha1.New()",
     "if _, err := io.Copy(w, tr); err != nil → return-error",
     "if want, got := checksum, w.Sum(nil); !bytes.Equal(want, got) → return-error"] := rfl

/-- tarfs `WriteHeader`, regular files and symlinks = `Authentic.writable`: no decodable record, no install -/
theorem tie_writeHeader_reg : Generated.stmts_writeHeaderReg =
    ["if hdr.Typeflag == tar.TypeSymlink → …",
     "checksum, err := checksumFromHeader(&hdr)",
     "if err != nil → return-error",
     "if checksum == nil → return-error"] := rfl

/-! #### round 2 -/

/-- `(*APK).expandPackage` = the two branches of `Authentic.expandVia`: no cache directory → the package-level
`expandPackage`, the memo is not touched; otherwise `globalApkCache.get` -/
theorem tie_expandPackageMethod : Generated.stmts_expandPackageMethod =
    ["if a.cache == nil → return expandPackage(ctx, a, pkg)",
     "return globalApkCache.get(ctx, a, pkg)"] := rfl

/-- `apkCache.get` = the cache branch of `Authentic.expandVia`: keyed by the URL, the once expands and stores the
result (error or not) together with the checksum string of the handle; a later handle whose checksum string differs
is expanded (and verified) directly, un-memoised; otherwise the stored result is the answer -/
theorem tie_apkCacheGet : Generated.stmts_apkCacheGet =
    ["u := pkg.URL()",
     "once, _ := c.onces.LoadOrStore(u, &sync.Once{})",
     "once.(*sync.Once).Do(func() { exp, err := expandPackage(ctx, a, pkg) c.resps.Store(u, apkResult{ exp: exp, err: err, checksum: pkg.ChecksumString(), }) })",
     "v, ok := c.resps.Load(u)",
     "if !ok → …",
     "result := v.(apkResult)",
     "if result.checksum != pkg.ChecksumString() → return expandPackage(ctx, a, pkg)",
     "return result.exp, result.err"] := rfl

theorem tie_apkResultStored : Generated.apkResultStored =
    ["exp: exp", "err: err", "checksum: pkg.ChecksumString()"] := rfl

/-- the model's switch for the memo check follows the code -/
theorem tie_impl_memoChecks : Impl.memoChecks = true ∧ Generated.stmts_apkCacheGet[6]? =
    some "if result.checksum != pkg.ChecksumString() → return expandPackage(ctx, a, pkg)" := ⟨rfl, rfl⟩

/-- the loop of `lazilyInstallAPKFiles` = `Authentic.install`: EVERY entry of the tar index (hidden leading ones
included) that is not a directory is entered into `seen` and a repeated name is an error, before the leading hidden
entries are skipped and the others handed to `WriteHeader` in order -/
theorem tie_lazyInstallLoop : Generated.stmts_lazyInstallLoop =
    ["for _, file := range entries",
     "if file.Header.Name == \"\" → return-error",
     "if file.Header.Typeflag != tar.TypeDir { if _, ok := seen[file.Header.Name]; ok → return-error; seen[file.Header.Name] = struct{}{} }",
     "if !startedDataSection && file.Header.Name[0] == '.' && !strings.Contains(file.Header.Name, \"/\") → continue",
     "startedDataSection = true",
     "installed, err := wh.WriteHeader(file.Header, tf, pkg)",
     "if err != nil → return-error",
     "if installed && file.Header.Typeflag == tar.TypeReg { a.installedFiles[file.Header.Name] = pkg }",
     "files = append(files, file.Header)"] := rfl

/-- the model's switch for the duplicate-name check follows the code -/
theorem tie_impl_rejectsDup : Impl.rejectsDup = true ∧ Generated.stmts_lazyInstallLoop[2]? =
    some "if file.Header.Typeflag != tar.TypeDir { if _, ok := seen[file.Header.Name]; ok → return-error; seen[file.Header.Name] = struct{}{} }" :=
  ⟨rfl, rfl⟩

/-- the lazy tar FS = `Authentic.tarLookup` / `tarOpen`: the index is assigned per entry in archive order (the last
entry of a name wins, whatever its type), `open` follows symlink and hard link entries inside the tar and fails
after `maxHops` hops, any other entry is served from its own offset and size -/
theorem tie_tarfsIndexAssign : Generated.tarfsIndexAssign = ["fsys.index[hdr.Name] = len(fsys.files)"] := rfl

theorem tie_tarfsOpen : Generated.stmts_tarfsOpen =
    ["if hops > maxHops → return-error",
     "i, ok := fsys.index[name]",
     "if !ok → return-error",
     "e := fsys.files[i]",
     "switch e.Header.Typeflag { case tar.TypeSymlink, tar.TypeLink: link := e.Header.Linkname if path.IsAbs(link) { return fsys.open(link, hops+1) } return fsys.open(path.Join(e.dir, link), hops+1) }",
     "f := &File{ fsys: fsys, Entry: e, }",
     "f.sr = io.NewSectionReader(fsys.ra, e.Offset, e.Header.Size)",
     "return f, nil"] := rfl

theorem tie_tarFuel : tarFuel = Generated.tarfsMaxHops + 1 := rfl

/-- a tarfs-backed memFS node reads its bytes BY NAME (`Authentic.served`) -/
theorem tie_memfsReadsTar : Generated.memfsReadsTar = ["anode.te.tfs.Open(anode.te.header.Name)"] := rfl

/-! ### association lists -/

theorem lookup_advertise_self {α : Type} (k : Text) (v : α) (l : List (Text × α)) :
    ∃ v', lookup k (advertise k v l) = some v' ∧ (lookup k l = some v' ∨ (lookup k l = none ∧ v' = v)) := by
  unfold advertise
  cases h : lookup k l with
  | some v' => exact ⟨v', h, Or.inl rfl⟩
  | none => exact ⟨v, by simp [lookup], Or.inr ⟨rfl, rfl⟩⟩

theorem lookup_advertise {α : Type} (k k' : Text) (v v' : α) (l : List (Text × α))
    (h : lookup k' (advertise k v l) = some v') : lookup k' l = some v' ∨ (k' = k ∧ v' = v) := by
  unfold advertise at h
  cases hl : lookup k l with
  | some w => rw [hl] at h; exact Or.inl h
  | none =>
    rw [hl] at h
    simp only [lookup] at h
    split at h
    · next hk => exact Or.inr ⟨hk.symm, by simpa using h.symm⟩
    · exact Or.inl h

/-! ### checkSums / ExpandApk -/

theorem checkSums_iff (L : Lib) (es : List Entry) :
    checkSums L es = true ↔ ∀ f ∈ es, checkEntry L f = true := by
  simp [checkSums, List.all_eq_true]

theorem filesChecked_of_checkSums (L : Lib) (es : List Entry) (h : checkSums L es = true) :
    FilesChecked L es := by
  intro f hf hk d hr
  have := (checkSums_iff L es).1 h f hf
  simp [checkEntry, hk, hr] at this
  exact this

/-- what happens with a missing record: `checkSums` does not look at the file at all -/
theorem checkSums_skips_missing_record (L : Lib) (f : Entry) (h : f.recorded = .absent) :
    checkEntry L f = true := by
  unfold checkEntry; rw [h]; cases f.kind <;> rfl

/-- an undecodable or wrong record on a regular file makes `checkSums` fail -/
theorem checkSums_rejects (L : Lib) (es : List Entry) (f : Entry) (hf : f ∈ es) (hk : f.kind = .reg)
    (hbad : f.recorded = .malformed ∨ ∃ d, f.recorded = .sum d ∧ L.sha1 f.body ≠ d) :
    checkSums L es = false := by
  cases hc : checkSums L es with
  | false => rfl
  | true =>
    have := (checkSums_iff L es).1 hc f hf
    rcases hbad with hm | ⟨d, hd, hne⟩
    · simp [checkEntry, hk, hm] at this
    · simp [checkEntry, hk, hd] at this; exact absurd this hne

/-- T `files_checked` -/
theorem files_checked (L : Lib) (a : Apk) (e : Expanded) (h : expand L a = .ok e) :
    L.untarData e.data = some e.files ∧ FilesChecked L e.files ∧ checkSums L e.files = true ∧
    e.control = a.control ∧ e.controlFile = a.control ∧ e.data = a.data ∧
    e.controlHash = L.sha1 a.control ∧ e.dataHash = L.sha256 a.data := by
  unfold expand at h
  split at h
  · cases h
  · next es hes =>
    split at h
    · next hc =>
      cases h
      exact ⟨hes, filesChecked_of_checkSums L es hc, hc, rfl, rfl, rfl, rfl, rfl⟩
    · cases h

/-- the tarfs installer refuses regular files without a (decodable) record, so together with `checkSums`
every installed regular file carries a record and matches it -/
theorem installed_files_recorded (L : Lib) (es : List Entry) (hc : checkSums L es = true)
    (hi : installFiles es = true) : FilesRecorded L es := by
  intro f hf hk
  have hmem : f ∈ es := (List.dropWhile_suffix hidden).subset hf
  have hw : writable f = true := by
    have := List.all_eq_true.1 hi f hf
    exact this
  cases hr : f.recorded with
  | absent => simp [writable, hk, hr] at hw
  | malformed => simp [writable, hk, hr] at hw
  | sum d => exact ⟨d, rfl, filesChecked_of_checkSums L es hc f hmem hk d hr⟩

theorem missing_record_not_installed (es : List Entry) (f : Entry) (hf : f ∈ installable es)
    (hk : f.kind = .reg) (hr : f.recorded = .absent) : installFiles es = false := by
  cases hi : installFiles es with
  | false => rfl
  | true =>
    have := List.all_eq_true.1 hi f hf
    simp [writable, hk, hr] at this

/-! ### cache lookups -/

/-- T `cache_lookup_keyed_by_expected`: a hit is a function of the expected checksum and the cache, nothing else
(not of the package name, its URL or what the repository serves) -/
theorem cache_lookup_keyed_by_expected (L : Lib) (key : Option Digest) (c : Cache) (e : Expanded)
    (h : cachedPackage L key c = some e) :
    ∃ hh info dh, key = some hh ∧ lookup hh c.ctl = some e.control ∧ e.controlFile = e.control ∧ e.controlHash = hh ∧
      L.pkginfo e.control = some info ∧ datahash info = some dh ∧ lookup dh c.dat = some e.data ∧
      decodeHex dh = some e.dataHash ∧ L.untarData e.data = some e.files ∧ e.sig = lookup hh c.sig := by
  unfold cachedPackage at h
  split at h
  · cases h
  · next hh =>
    split at h
    · cases h
    · next control hctl =>
      split at h
      · cases h
      · next info hinfo =>
        split at h
        · cases h
        · next dh hdh =>
          split at h
          · cases h
          · next data hdat =>
            split at h
            · cases h
            · next dhd hdec =>
              split at h
              · cases h
              · next files hfiles =>
                cases h
                exact ⟨hh, info, dh, rfl, hctl, rfl, rfl, hinfo, hdh, hdat, hdec, hfiles, rfl⟩

theorem cachedPackage_no_key (L : Lib) (c : Cache) : cachedPackage L none c = none := rfl

/-- a checksum string without the `Q1` prefix never hits the cache -/
theorem bare_checksum_never_hits (L : Lib) (w : Want) (c : Cache) (h : w.q1 = false) :
    cachedPackage L w.key c = none := by
  simp [Want.key, h, cachedPackage]

theorem key_digest (w : Want) (h : Digest) (hk : w.key = some h) : w.digest = some h := by
  unfold Want.key at hk
  split at hk
  · exact hk
  · cases hk

/-- under the cache invariant a hit is authentic -/
theorem cachedPackage_authentic (L : Lib) (hx : HexCanonical L) (key : Option Digest) (c : Cache) (e : Expanded)
    (hinv : CacheInv L c) (h : cachedPackage L key c = some e) :
    Authentic L key e ∧ checkSums L e.files = true := by
  obtain ⟨hh, info, dh, rfl, hctl, hcf, _, hinfo, hdh, hdat, _, hfiles, _⟩ :=
    cache_lookup_keyed_by_expected L key c e h
  have h1 := hinv.1 hh e.control hctl
  obtain ⟨h2, es, hes, hcs⟩ := hinv.2 dh e.data hdat
  have hfe : es = e.files := by rw [hes] at hfiles; exact Option.some.inj hfiles
  subst hfe
  refine ⟨⟨?_, ?_, ⟨info, dh, hinfo, hdh, Or.inr ?_⟩, hfiles, filesChecked_of_checkSums L _ hcs⟩, hcs⟩
  · simp [ControlMatches, h1]
  · simp [ControlMatches, hcf, h1]
  · rw [← h2]; exact hx e.data

/-! ### the cache invariant -/

theorem cacheInv_empty (L : Lib) : CacheInv L {} := by
  constructor <;> intro n b h <;> simp [lookup] at h

/-- `cachePackage` on a freshly expanded (checked) package keeps the invariant, and what the names now resolve
to has the hashes that were computed -/
theorem cachePackage_spec (L : Lib) (e e' : Expanded) (c c' : Cache) (hinv : CacheInv L c)
    (hc : e.controlHash = L.sha1 e.control) (hd : e.dataHash = L.sha256 e.data)
    (hfiles : L.untarData e.data = some e.files) (hcs : checkSums L e.files = true)
    (h : cachePackage L e c = .ok (e', c')) :
    CacheInv L c' ∧ e'.control = e.control ∧ L.sha1 e'.controlFile = e.controlHash ∧
    L.sha256 e'.data = e.dataHash ∧ L.untarData e'.data = some e'.files ∧ checkSums L e'.files = true := by
  unfold cachePackage at h
  simp only at h
  split at h
  · next control data hl1 hl2 =>
    split at h
    · next files hf =>
      cases h
      have inv' : CacheInv L { ctl := advertise e.controlHash e.control c.ctl,
                               sig := (match e.sig with
                                 | some s => advertise e.controlHash s c.sig
                                 | none => c.sig),
                               dat := advertise e.dataHash e.data c.dat } := by
        constructor
        · intro n b hb
          rcases lookup_advertise _ _ _ _ _ hb with hb | ⟨rfl, rfl⟩
          · exact hinv.1 n b hb
          · exact hc.symm
        · intro n d hdd
          rcases lookup_advertise _ _ _ _ _ hdd with hdd | ⟨rfl, rfl⟩
          · exact hinv.2 n d hdd
          · exact ⟨hd.symm, e.files, hfiles, hcs⟩
      obtain ⟨hs, es, hes, hces⟩ := inv'.2 _ _ hl2
      have : es = files := by rw [hes] at hf; exact Option.some.inj hf
      subst this
      exact ⟨inv', rfl, inv'.1 _ _ hl1, hs, hf, hces⟩
    · cases h
  · cases h

/-- T `cache_inv_preserved` — for the repaired AND the pinned algorithm: the cache is content addressed -/
theorem cache_inv_preserved (verify : Bool) (L : Lib) (w : Want) (c c' : Cache) (fetched : Option Apk)
    (e : Expanded) (hinv : CacheInv L c)
    (h : expandPackageWith verify L w (some c) fetched = .ok (e, some c')) : CacheInv L c' := by
  unfold expandPackageWith at h
  simp only [Option.bind_some] at h
  split at h
  · cases h; exact hinv
  · split at h
    · cases h
    · next a =>
      split at h
      · cases h
      · next e0 hexp =>
        split at h
        · cases h
        · split at h
          · cases h
          · next e1 c1 hcp =>
            cases h
            obtain ⟨hf, _, hcs, h1, _, h3, h4, h5⟩ := files_checked L a e0 hexp
            exact (cachePackage_spec L e0 e c c' hinv (by rw [h4, h1]) (by rw [h5, h3]) hf hcs hcp).1

theorem cache_presence_preserved (verify : Bool) (L : Lib) (w : Want) (cache cache' : Option Cache)
    (fetched : Option Apk) (e : Expanded)
    (h : expandPackageWith verify L w cache fetched = .ok (e, cache')) : cache'.isSome = cache.isSome := by
  unfold expandPackageWith at h
  split at h
  · cases h; rfl
  · split at h
    · cases h
    · split at h
      · cases h
      · split at h
        · cases h
        · split at h
          · cases h; rfl
          · split at h
            · cases h
            · cases h; rfl

/-! ### the verification step -/

theorem verifyExpanded_spec (L : Lib) (expected : Option Digest) (e : Expanded)
    (h : verifyExpanded L expected e = .ok ()) :
    expected = some e.controlHash ∧
    ∃ info dh, L.pkginfo e.control = some info ∧ datahash info = some dh ∧
      (dh = [] ∨ decodeHex dh = some e.dataHash) := by
  unfold verifyExpanded at h
  split at h
  · cases h
  · next hh =>
    split at h
    · cases h
    · next hne =>
      have hne : e.controlHash = hh := by simpa using hne
      split at h
      · cases h
      · next info hinfo =>
        split at h
        · cases h
        · next dh hdh =>
          split at h
          · next hempty => exact ⟨by rw [hne], info, dh, hinfo, hdh, Or.inl hempty⟩
          · split at h
            · cases h
            · next d hdec =>
              split at h
              · next hd => exact ⟨by rw [hne], info, dh, hinfo, hdh, Or.inr (by rw [hdec, hd])⟩
              · cases h

/-! ### T `install_authentic` -/

theorem install_authentic (L : Lib) (hx : HexCanonical L) (w : Want) (cache cache' : Option Cache)
    (fetched : Option Apk) (e : Expanded)
    (hinv : ∀ c, cache = some c → CacheInv L c)
    (h : expandPackageWith true L w cache fetched = .ok (e, cache')) :
    Authentic L w.digest e ∧ checkSums L e.files = true := by
  unfold expandPackageWith at h
  split at h
  · next e0 hhit =>
    cases h
    cases cache with
    | none => simp at hhit
    | some c =>
      simp only [Option.bind_some] at hhit
      have := cachedPackage_authentic L hx w.key c e (hinv c rfl) hhit
      obtain ⟨hh, _, _, hk, _⟩ := cache_lookup_keyed_by_expected L w.key c e hhit
      rw [hk] at this
      rw [key_digest w hh hk]
      exact this
  · split at h
    · cases h
    · next a =>
      split at h
      · cases h
      · next e0 hexp =>
        obtain ⟨hf, hfc, hcs, h1, h2, h3, h4, h5⟩ := files_checked L a e0 hexp
        simp only [if_true] at h
        split at h
        · cases h
        · next hver =>
          obtain ⟨hexpd, info, dh, hinfo, hdh, hdata⟩ := verifyExpanded_spec L w.digest e0 hver
          split at h
          · -- no cache configured
            cases h
            refine ⟨⟨?_, ?_, ⟨info, dh, hinfo, hdh, ?_⟩, hf, hfc⟩, hcs⟩
            · simp [ControlMatches, hexpd, h4, h1]
            · simp [ControlMatches, hexpd, h4, h2]
            · rw [h3, ← h5]; exact hdata
          · next c _ =>
            split at h
            · cases h
            · next e1 c1 hcp =>
              cases h
              obtain ⟨_, hctl, hcf, hdat, hfiles, hcs'⟩ :=
                cachePackage_spec L e0 e c c1 (hinv c rfl) (by rw [h4, h1]) (by rw [h5, h3]) hf hcs hcp
              refine ⟨⟨?_, ?_, ⟨info, dh, ?_, hdh, ?_⟩, hfiles, filesChecked_of_checkSums L _ hcs'⟩, hcs'⟩
              · simp [ControlMatches, hexpd, hctl, h4, h1]
              · simp [ControlMatches, hexpd, hcf]
              · rw [hctl]; exact hinfo
              · rw [hdat]; exact hdata

/-! ### the tamperings of the property text, as corollaries -/

def Rejected {α : Type} (r : Except Err α) : Prop := ∀ x, r ≠ .ok x

/-- a fetched package whose control section does not have the expected checksum is never accepted,
whatever the state of a (sound) cache -/
theorem swapped_control_rejected (L : Lib) (hx : HexCanonical L) (w : Want) (cache : Option Cache) (a : Apk)
    (hinv : ∀ c, cache = some c → CacheInv L c)
    (hmiss : cache.bind (cachedPackage L w.key) = none)
    (hbad : w.digest ≠ some (L.sha1 a.control)) :
    Rejected (expandPackageWith true L w cache (some a)) := by
  intro ⟨e, cache'⟩ h
  have hauth := (install_authentic L hx w cache cache' (some a) e hinv h).1
  unfold expandPackageWith at h
  rw [hmiss] at h
  simp only at h
  split at h
  · cases h
  · next e0 hexp =>
    obtain ⟨_, _, _, h1, _, _, _, _⟩ := files_checked L a e0 hexp
    simp only [if_true] at h
    split at h
    · cases h
    · next hver =>
      have := (verifyExpanded_spec L w.digest e0 hver).1
      obtain ⟨_, _, _, _, _, _, h4, _⟩ := files_checked L a e0 hexp
      rw [h4] at this
      exact hbad this

/-- … nor one whose data section does not have the (non-empty) datahash recorded by its control section -/
theorem swapped_data_rejected (L : Lib) (w : Want) (cache : Option Cache) (a : Apk) (info dh : Text)
    (hmiss : cache.bind (cachedPackage L w.key) = none)
    (hinfo : L.pkginfo a.control = some info) (hdh : datahash info = some dh) (hne : dh ≠ [])
    (hbad : decodeHex dh ≠ some (L.sha256 a.data)) :
    Rejected (expandPackageWith true L w cache (some a)) := by
  intro ⟨e, cache'⟩ h
  unfold expandPackageWith at h
  rw [hmiss] at h
  simp only at h
  split at h
  · cases h
  · next e0 hexp =>
    obtain ⟨_, _, _, h1, _, _, _, h5⟩ := files_checked L a e0 hexp
    simp only [if_true] at h
    split at h
    · cases h
    · next hver =>
      obtain ⟨_, info', dh', hinfo', hdh', hd⟩ := verifyExpanded_spec L w.digest e0 hver
      rw [h1, hinfo] at hinfo'
      cases hinfo'
      rw [hdh] at hdh'
      cases hdh'
      rcases hd with hd | hd
      · exact hne hd
      · rw [h5] at hd; exact hbad hd

/-- … nor one with a regular file that does not match its record (or whose record does not decode) -/
theorem modified_file_rejected (verify : Bool) (L : Lib) (w : Want) (cache : Option Cache) (a : Apk)
    (es : List Entry) (f : Entry)
    (hmiss : cache.bind (cachedPackage L w.key) = none)
    (hes : L.untarData a.data = some es) (hf : f ∈ es) (hk : f.kind = .reg)
    (hbad : f.recorded = .malformed ∨ ∃ d, f.recorded = .sum d ∧ L.sha1 f.body ≠ d) :
    Rejected (expandPackageWith verify L w cache (some a)) := by
  intro ⟨e, cache'⟩ h
  unfold expandPackageWith at h
  rw [hmiss] at h
  simp only at h
  have : expand L a = .error .fileSum := by
    unfold expand
    rw [hes]
    simp [checkSums_rejects L es f hf hk hbad]
  rw [this] at h
  cases h

/-! ### whole operation sequences from an empty cache root -/

def StoreInv (L : Lib) (s : Store) : Prop := ∀ k, CacheInv L (s.cacheOf k)

theorem storeInv_empty (L : Lib) : StoreInv L [] := by
  intro k; simp [Store.cacheOf, lookup]; exact cacheInv_empty L

theorem lookup_filter_ne (s : Store) (k k' : Text) (h : k' ≠ k) :
    lookup k' (s.filter (fun p => p.1 ≠ k)) = lookup k' s := by
  induction s with
  | nil => rfl
  | cons p r ih =>
    by_cases hp : p.1 = k
    · have hf : (p :: r).filter (fun p => p.1 ≠ k) = r.filter (fun p => p.1 ≠ k) := by
        simp [List.filter, hp]
      rw [hf, ih]
      obtain ⟨a, b⟩ := p
      simp only at hp
      simp only [lookup]
      rw [if_neg]
      rw [hp]; exact fun x => h x.symm
    · have hf : (p :: r).filter (fun p => p.1 ≠ k) = p :: r.filter (fun p => p.1 ≠ k) := by
        simp [List.filter, hp]
      rw [hf]
      obtain ⟨a, b⟩ := p
      simp only [lookup]
      rw [ih]

theorem lookup_put (s : Store) (k k' : Text) (c : Cache) :
    (s.put k c).cacheOf k' = if k' = k then c else s.cacheOf k' := by
  unfold Store.put Store.cacheOf
  by_cases h : k' = k
  · simp [h, lookup]
  · have h' : ¬ k = k' := fun x => h x.symm
    simp only [lookup, h, h', if_false]
    rw [lookup_filter_ne s k k' h]

/-- the package-level `expandPackage` against the store: the store invariant is kept (whatever `verify` is), and with
the verification step a success means authentic bytes for the checksum of the handle -/
theorem expandDirect_spec (verify : Bool) (L : Lib) (uc : Bool) (st : Store) (p : PkgReq) (hinv : StoreInv L st) :
    StoreInv L (expandDirect verify L uc st p).2 ∧
    (verify = true → HexCanonical L → ∀ e, (expandDirect verify L uc st p).1 = .ok e →
      Authentic L p.expected.digest e ∧ checkSums L e.files = true) := by
  unfold expandDirect
  simp only
  split
  · exact ⟨hinv, by intro _ _ e h; cases h⟩
  · next e c' hexp =>
    constructor
    · cases c' with
      | none => exact hinv
      | some c1 =>
        intro k
        simp only
        rw [lookup_put]
        split
        · cases uc with
          | false =>
            have := cache_presence_preserved verify L p.expected _ _ p.fetched e hexp
            simp at this
          | true =>
            simp only [if_true] at hexp
            exact cache_inv_preserved verify L p.expected _ c1 p.fetched e (hinv p.key) hexp
        · exact hinv k
    · intro hv hx e' he'
      subst hv
      cases he'
      have hcache : ∀ c, (if uc = true then some (st.cacheOf p.key) else none) = some c → CacheInv L c := by
        intro c hc
        split at hc
        · cases hc; exact hinv p.key
        · cases hc
      exact install_authentic L hx p.expected _ c' p.fetched e hcache hexp

/-! ### round 2: the memo of the process (`globalApkCache`) -/

/-- every memoised success is authentic for the checksum of the handle it was made for -/
def MemoInv (L : Lib) (m : Memo) : Prop :=
  ∀ u me e, lookup u m = some me → me.res = .ok e → Authentic L me.want.digest e ∧ checkSums L e.files = true

def StateInv (L : Lib) (s : State) : Prop := StoreInv L s.store ∧ MemoInv L s.memo

theorem memoInv_empty (L : Lib) : MemoInv L [] := by
  intro u me e h; simp [lookup] at h

theorem stateInv_empty (L : Lib) : StateInv L {} := ⟨storeInv_empty L, memoInv_empty L⟩

/-- a new process keeps the cache root and forgets the memo -/
theorem stateInv_enter (L : Lib) (s : State) (o : Op) (h : StateInv L s) : StateInv L (s.enter o) := by
  unfold State.enter
  split
  · exact ⟨h.1, memoInv_empty L⟩
  · exact h

/-- the store invariant does not depend on any of the repairs (content addressing) -/
theorem expandVia_store (verify cm : Bool) (L : Lib) (uc : Bool) (s : State) (p : PkgReq) (hinv : StoreInv L s.store) :
    StoreInv L (expandVia verify cm L uc s p).2.store := by
  unfold expandVia
  split
  · exact hinv
  · split
    · exact (expandDirect_spec verify L true s.store p hinv).1
    · split
      · exact hinv
      · exact (expandDirect_spec verify L true s.store p hinv).1

/-- `(*APK).expandPackage` with the verification step AND the memo check: the invariants are kept and a success
means authentic bytes for the checksum of THIS handle — a memo entry is used only when it was made for the same
checksum, anything else is expanded and verified directly -/
theorem expandVia_spec (L : Lib) (hx : HexCanonical L) (uc : Bool) (s : State) (p : PkgReq) (hinv : StateInv L s) :
    StateInv L (expandVia true true L uc s p).2 ∧
    ∀ e, (expandVia true true L uc s p).1 = .ok e → Authentic L p.expected.digest e ∧ checkSums L e.files = true := by
  unfold expandVia
  split
  · -- no cache directory: the memo is not used
    exact ⟨hinv, (expandDirect_spec true L false s.store p hinv.1).2 rfl hx⟩
  · split
    · -- first handle of the URL in this process: expand, memoise
      next hmiss =>
      obtain ⟨h1, h2⟩ := expandDirect_spec true L true s.store p hinv.1
      refine ⟨⟨h1, ?_⟩, h2 rfl hx⟩
      intro u me e hl hr
      simp only [lookup] at hl
      split at hl
      · cases hl; exact h2 rfl hx e hr
      · exact hinv.2 u me e hl hr
    · next m hhit =>
      split
      · -- answered from the memo: the entry was made for this very checksum
        next hans =>
        refine ⟨hinv, ?_⟩
        intro e hr
        have hw : m.want = p.expected := by
          simp only [memoAnswers, Bool.not_true, Bool.false_or, Bool.and_eq_true, decide_eq_true_eq] at hans
          exact hans.2
        have := hinv.2 p.key m e hhit hr
        rw [hw] at this
        exact this
      · -- made for another checksum: expanded and verified directly, the memo is left alone
        obtain ⟨h1, h2⟩ := expandDirect_spec true L true s.store p hinv.1
        exact ⟨⟨h1, hinv.2⟩, h2 rfl hx⟩

/-! ### round 2: what the lazily installed files serve -/

/-- T `installed_bytes_verified` (repaired installer): after `lazilyInstallAPKFiles` of a data section that passed
`checkSums`, every node that holds file content reads — by name, through the lazy tar FS — exactly the body of the
entry it was created from (no later entry of the data section has its name: a second file / link of that name is
refused up front, a directory of that name fails in `WriteHeader`), and that body matches the per-file record the
node carries.  For ALL data sections. -/
theorem installed_bytes_verified (L : Lib) (es : List Entry) (ns : List Node) (hc : checkSums L es = true)
    (h : install true es = some ns) :
    ∀ nd ∈ ns, nd.isLink = false → served es nd = some nd.own ∧ L.sha1 nd.own = nd.sum := by
  obtain ⟨_, hok⟩ := install_spec es ns h
  intro nd hmem hl
  obtain ⟨pre, e, post, hes, hk, hname, hbody, hrec, hpost, _⟩ := hok nd hmem hl
  have he : e ∈ es := by rw [hes]; simp
  constructor
  · unfold served tarFuel
    rw [← hname, ← hbody, hes]
    exact tarOpen_last pre post e (by rw [hname]; exact hpost) hk 64
  · rw [← hbody]
    exact filesChecked_of_checkSums L es hc e he hk nd.sum hrec

/-- … in the decidable form the driver evaluates -/
theorem servedOk_repaired (L : Lib) (es : List Entry) (ns : List Node) (hc : checkSums L es = true)
    (h : install true es = some ns) : Spec.servedOk es ns = true := by
  unfold Spec.servedOk
  rw [List.all_eq_true]
  intro nd hnd
  have hm := List.mem_filter.1 hnd
  have hl : nd.isLink = false := by
    have := hm.2
    simp only [Bool.and_eq_true, Bool.not_eq_true'] at this
    exact this.1
  simp [(installed_bytes_verified L es ns hc h nd hm.1 hl).1]

/-- a build of one expanded package: what `installPkg` returns is what `install` returned -/
theorem installPkg_install (rd : Bool) (es : List Entry) (ns : List Node) (h : installPkg rd es = some ns) :
    install rd es = some ns := by
  unfold installPkg at h
  split at h
  · cases h
  · next ns' hi =>
    split at h
    · cases h; exact hi
    · cases h

/-! ### whole operation sequences (any mix of fresh and same-process operations) from an empty cache root -/

/-- what the property demands of one package of an operation that was reported as done -/
def PkgGood (L : Lib) (kind : OpKind) (p : PkgReq) (o : PkgOut) : Prop :=
  o.ok = true →
    ∃ e, o.exp = some e ∧ Authentic L p.expected.digest e ∧
      (kind = .build → FilesRecorded L e.files ∧
        ∀ nd ∈ o.nodes, nd.isLink = false → served e.files nd = some nd.own ∧ L.sha1 nd.own = nd.sum)

theorem runPkg_store (cfg : Cfg) (L : Lib) (kind : OpKind) (uc : Bool) (prev : List (List Entry)) (s : State)
    (p : PkgReq) (hinv : StoreInv L s.store) : StoreInv L (runPkg cfg L kind uc prev s p).2.store := by
  have := expandVia_store cfg.verify cfg.checkMemo L uc s p hinv
  unfold runPkg
  split
  · next hv => rw [hv] at this; exact this
  · next hv =>
    rw [hv] at this
    split
    · exact this
    · split
      · exact this
      · split <;> exact this

theorem runPkg_spec (L : Lib) (hx : HexCanonical L) (kind : OpKind) (uc : Bool) (prev : List (List Entry)) (s : State)
    (p : PkgReq) (hinv : StateInv L s) :
    StateInv L (runPkg Cfg.repaired L kind uc prev s p).2 ∧
    PkgGood L kind p (runPkg Cfg.repaired L kind uc prev s p).1 := by
  obtain ⟨h1, h2⟩ := expandVia_spec L hx uc s p hinv
  unfold runPkg
  simp only [Cfg.repaired]
  split
  · next hv =>
    rw [hv] at h1
    exact ⟨h1, by intro h; cases h⟩
  · next e s' hv =>
    rw [hv] at h1 h2
    obtain ⟨hauth, hcs⟩ := h2 e rfl
    split
    · exact ⟨h1, fun _ => ⟨e, rfl, hauth, by intro hk; cases hk⟩⟩
    · split
      · exact ⟨h1, by intro h; cases h⟩
      · next ns hi =>
        have hins := installPkg_install true e.files ns hi
        have hrec := installed_files_recorded L e.files hcs (install_writable true e.files ns hins)
        split
        · -- the same data section again: nothing new is laid out
          exact ⟨h1, fun _ => ⟨e, rfl, hauth, fun _ => ⟨hrec, by intro nd hnd; cases hnd⟩⟩⟩
        · exact ⟨h1, fun _ => ⟨e, rfl, hauth, fun _ => ⟨hrec, installed_bytes_verified L e.files ns hcs hins⟩⟩⟩

theorem runPkgs_spec (L : Lib) (hx : HexCanonical L) (kind : OpKind) (uc : Bool) (ps : List PkgReq)
    (prev : List (List Entry)) (s : State) (hinv : StateInv L s) :
    StateInv L (runPkgsFrom Cfg.repaired L kind uc prev s ps).2 ∧
    Pointwise (PkgGood L kind) ps (runPkgsFrom Cfg.repaired L kind uc prev s ps).1 := by
  induction ps generalizing s prev with
  | nil => exact ⟨hinv, Pointwise.nil⟩
  | cons p ps ih =>
    simp only [runPkgsFrom]
    obtain ⟨h1, h2⟩ := runPkg_spec L hx kind uc prev s p hinv
    obtain ⟨h3, h4⟩ := ih _ (runPkg Cfg.repaired L kind uc prev s p).2 h1
    exact ⟨h3, Pointwise.cons h2 h4⟩

/-- T `ops_authentic`: whatever lock/build operations ran before over the same cache root — in earlier processes
or in THIS process, with whatever the repository served and whatever the index / lock file recorded at the time —
starting from an empty root, every package of every operation that was reported as done was expanded to bytes that
are authentic for the checksum of ITS handle, and (build) every file laid out is recorded, is read back as the body
of the entry it was created from, and matches that entry's per-file record. -/
theorem ops_authentic (L : Lib) (hx : HexCanonical L) (ops : List Op) (s : State) (hinv : StateInv L s) :
    StateInv L (runOps Cfg.repaired L s ops).2 ∧
    Pointwise (fun o outs => Pointwise (PkgGood L o.kind) o.pkgs outs) ops (runOps Cfg.repaired L s ops).1 := by
  induction ops generalizing s with
  | nil => exact ⟨hinv, Pointwise.nil⟩
  | cons o os ih =>
    simp only [runOps]
    obtain ⟨h1, h2⟩ := runPkgs_spec L hx o.kind o.useCache o.pkgs [] (s.enter o) (stateInv_enter L s o hinv)
    obtain ⟨h3, h4⟩ := ih (runOp Cfg.repaired L s o).2 h1
    exact ⟨h3, Pointwise.cons h2 h4⟩

/-- the statement is about the algorithm the code runs today -/
theorem tie_impl_cfg : Impl.cfg = Cfg.repaired := rfl

/-- the store invariant survives sequences of ANY of the algorithms (pinned or repaired): a tampered package that was
accepted before a repair sits in the cache under its own hashes and can never be returned for the authentic checksum -/
theorem ops_inv_any (cfg : Cfg) (L : Lib) (ops : List Op) (s : State) (hinv : StoreInv L s.store) :
    StoreInv L (runOps cfg L s ops).2.store := by
  induction ops generalizing s with
  | nil => exact hinv
  | cons o os ih =>
    simp only [runOps]
    apply ih
    unfold runOp
    have hent : StoreInv L (s.enter o).store := by
      unfold State.enter; split <;> exact hinv
    generalize s.enter o = s0 at hent
    unfold runPkgs
    generalize ([] : List (List Entry)) = prev
    induction o.pkgs generalizing s0 prev with
    | nil => exact hent
    | cons p ps ihp =>
      simp only [runPkgsFrom]
      exact ihp _ (runPkg_store cfg L o.kind o.useCache prev s0 p hent) _

/-! ### the oracle the driver evaluates (`Spec.pkgVerdict`) says `ok` only when the three relations hold -/

theorem dataClass_strict (L : Lib) (control data : Bytes)
    (h2 : Spec.dataClass L control data ≠ 2) (h1 : Spec.dataClass L control data ≠ 1) :
    DataMatchesStrict L control data := by
  unfold Spec.dataClass at h1 h2
  cases hinfo : L.pkginfo control with
  | none => simp [hinfo] at h2
  | some info =>
    cases hdh : datahash info with
    | none => simp [hinfo, hdh] at h2
    | some dh =>
      simp only [hinfo, hdh] at h1 h2
      by_cases hd : decodeHex dh = some (L.sha256 data)
      · exact ⟨info, dh, hinfo, hdh, hd⟩
      · by_cases he : dh = []
        · rw [if_neg hd, if_pos he] at h1; exact absurd rfl h1
        · rw [if_neg hd, if_neg he] at h2; exact absurd rfl h2

theorem spec_ok_sound (L : Lib) (kind : OpKind) (p : PkgReq) (cache : Option Cache)
    (h : Spec.pkgVerdict L kind p cache = "ok") :
    ∃ control data es, Spec.candidate L p cache = some (control, data) ∧
      ControlMatches L p.expected.digest control ∧ DataMatchesStrict L control data ∧
      L.untarData data = some es ∧ checkSums L es = true ∧ (kind = .build → installFiles es = true) := by
  unfold Spec.pkgVerdict at h
  split at h
  · exact absurd h (by decide)
  · next control data hc =>
    split at h
    · exact absurd h (by decide)
    · next hctl =>
      split at h
      · exact absurd h (by decide)
      · next hd2 =>
        split at h
        · exact absurd h (by decide)
        · next hfiles =>
          split at h
          · exact absurd h (by decide)
          · next hd1 =>
            have hctl' : ControlMatches L p.expected.digest control := by
              simpa [Spec.controlOk, ControlMatches] using hctl
            have hf : Spec.filesOk L data (decide (kind = .build)) = true := by simpa using hfiles
            unfold Spec.filesOk at hf
            split at hf
            · cases hf
            · next es hes =>
              simp only [Bool.and_eq_true, Bool.or_eq_true, Bool.not_eq_true', decide_eq_false_iff_not] at hf
              refine ⟨control, data, es, hc, hctl', dataClass_strict L control data hd2 hd1, hes, hf.1, ?_⟩
              intro hk
              rcases hf.2 with hn | hi
              · exact absurd hk hn
              · exact hi

/-! ### the pinned algorithm violates the property (F05a, F05b); the residual (F05c) -/

/-- a tiny library: byte string `[n]` hashes to a text depending on `n`; control `[1]`/`[2]` record the data hash of
data `[10]`/`[20]`; control `[3]` records an empty datahash -/
def toyLib : Lib :=
  { sha1 := fun b => if b = [1] then "aa".toList else if b = [2] then "bb".toList else "cc".toList,
    sha256 := fun b => if b = [10] then "10".toList else "20".toList,
    untarData := fun _ => some [],
    pkginfo := fun b =>
      if b = [1] then some "datahash = 10\n".toList
      else if b = [2] then some "datahash = 20\n".toList
      else some "datahash = \n".toList }

theorem toyLib_canonical : HexCanonical toyLib := by
  intro b
  simp only [toyLib]
  split <;> decide

/-- F05a: the index records `aa`, the repository serves control `[2]` (hash `bb`): accepted before the repair -/
theorem pinned_accepts_swapped_control :
    ∃ e c, expandPackageWith false toyLib ⟨some "aa".toList, true⟩ none (some ⟨none, [2], [20]⟩) = .ok (e, c) ∧
      ¬ ControlMatches toyLib (some "aa".toList) e.control := by
  refine ⟨_, _, rfl, ?_⟩
  show ¬ (some "aa".toList = some (toyLib.sha1 [2]))
  decide

/-- F05b: control `[1]` records data hash `10`, the data section served hashes to `20`: accepted before the repair -/
theorem pinned_accepts_swapped_data :
    ∃ e c, expandPackageWith false toyLib ⟨some "aa".toList, true⟩ none (some ⟨none, [1], [20]⟩) = .ok (e, c) ∧
      ControlMatches toyLib (some "aa".toList) e.control ∧ ¬ DataMatches toyLib e.control e.data := by
  refine ⟨_, _, rfl, (by show some "aa".toList = some (toyLib.sha1 [1]); decide), ?_⟩
  intro ⟨info, dh, h1, h2, h3⟩
  simp only [toyLib, if_true, Option.some.injEq] at h1
  subst h1
  have : dh = "10".toList := by
    have : datahash "datahash = 10\n".toList = some "10".toList := by decide
    rw [this] at h2; exact (Option.some.inj h2).symm
  subst this
  rcases h3 with h3 | h3
  · exact absurd h3 (by decide)
  · revert h3; decide

/-- both are rejected by the repaired algorithm -/
theorem repaired_rejects_witnesses :
    expandPackageWith true toyLib ⟨some "aa".toList, true⟩ none (some ⟨none, [2], [20]⟩) = .error .control ∧
    expandPackageWith true toyLib ⟨some "aa".toList, true⟩ none (some ⟨none, [1], [20]⟩) = .error .data ∧
    (∃ e, expandPackageWith true toyLib ⟨some "aa".toList, true⟩ none (some ⟨none, [1], [10]⟩) = .ok (e, none)) := by
  exact ⟨rfl, rfl, _, rfl⟩

/-- F05c (residual): a control section with an EMPTY datahash is accepted with any data section -/
theorem empty_datahash_unauthenticated :
    ∃ e c, expandPackageWith true toyLib ⟨some "cc".toList, true⟩ none (some ⟨none, [3], [20]⟩) = .ok (e, c) ∧
      ¬ DataMatchesStrict toyLib e.control e.data := by
  refine ⟨_, _, rfl, ?_⟩
  intro ⟨info, dh, h1, h2, h3⟩
  have hi : info = "datahash = \n".toList := by
    have : toyLib.pkginfo [3] = some "datahash = \n".toList := by decide
    rw [this] at h1; exact (Option.some.inj h1).symm
  subst hi
  have : dh = [] := by
    have : datahash "datahash = \n".toList = some [] := by decide
    rw [this] at h2; exact (Option.some.inj h2).symm
  subst this
  revert h3; decide

/-! ### round 2: the outcome oracle (`Spec.expVerdict`) says `ok` only when the three relations hold for what was expanded -/

theorem expVerdict_ok_sound (L : Lib) (kind : OpKind) (w : Want) (e : Expanded)
    (h : Spec.expVerdict L kind w e = "ok") :
    ControlMatches L w.digest e.control ∧ ControlMatches L w.digest e.controlFile ∧
    DataMatchesStrict L e.control e.data ∧ L.untarData e.data = some e.files ∧ checkSums L e.files = true ∧
    (kind = .build → installFiles e.files = true) := by
  unfold Spec.expVerdict at h
  split at h
  · exact absurd h (by decide)
  · next hctl =>
    split at h
    · exact absurd h (by decide)
    · next hd2 =>
      split at h
      · exact absurd h (by decide)
      · next hfiles =>
        split at h
        · exact absurd h (by decide)
        · next hd1 =>
          simp only [Bool.not_eq_true, Bool.not_eq_false', Bool.and_eq_true, decide_eq_true_eq] at hctl hfiles
          have hc1 : ControlMatches L w.digest e.control := by simpa [Spec.controlOk, ControlMatches] using hctl.1
          have hc2 : ControlMatches L w.digest e.controlFile := by simpa [Spec.controlOk, ControlMatches] using hctl.2
          obtain ⟨hf, hfe⟩ := hfiles
          unfold Spec.filesOk at hf
          rw [hfe] at hf
          simp only [Bool.and_eq_true, Bool.or_eq_true, Bool.not_eq_true', decide_eq_false_iff_not] at hf
          refine ⟨hc1, hc2, dataClass_strict L e.control e.data hd2 hd1, hfe, hf.1, ?_⟩
          intro hk
          rcases hf.2 with hn | hi
          · exact absurd hk hn
          · exact hi

/-! ### round 2: the pinned algorithms violate the property (F05d, F05e) -/

/-- the history of F05d: a build of URL `u` whose index records `aa` (served: control `[1]`, data `[10]`), then IN THE
SAME PROCESS a build of the same URL from a handle that records `bb` (served now: control `[2]`, data `[20]`) -/
def memoHistory : List Op :=
  [ { kind := .build, useCache := true, fresh := true,
      pkgs := [{ key := "u".toList, expected := ⟨some "aa".toList, true⟩, fetched := some ⟨none, [1], [10]⟩, raw := "Q1aa".toList }] },
    { kind := .build, useCache := true, fresh := false,
      pkgs := [{ key := "u".toList, expected := ⟨some "bb".toList, true⟩, fetched := some ⟨none, [2], [20]⟩, raw := "Q1bb".toList }] } ]

/-- F05d: WITHOUT the memo check (verification step in place) the second build is reported as done with control `[1]`,
whose checksum is `aa`, for a handle that records `bb` -/
theorem memo_without_check_installs_other_checksum :
    ∃ o e, (runOps { verify := true, checkMemo := false, rejectDup := true } toyLib {} memoHistory).1[1]? = some [o] ∧
      o.ok = true ∧ o.exp = some e ∧ e.control = [1] ∧ ¬ ControlMatches toyLib (some "bb".toList) e.control := by
  refine ⟨_, _, rfl, rfl, rfl, rfl, ?_⟩
  show ¬ (some "bb".toList = some (toyLib.sha1 [1]))
  decide

/-- … with it, the same history installs control `[2]` for the second handle (and a third handle that records `bb`
while `[1]` is served is refused) -/
theorem memo_with_check_installs_requested :
    (∃ o e, (runOps Cfg.repaired toyLib {} memoHistory).1[1]? = some [o] ∧ o.ok = true ∧ o.exp = some e ∧ e.control = [2]) ∧
    (∃ o, (runOps Cfg.repaired toyLib {} (memoHistory.take 1 ++
        [{ kind := .build, useCache := true, fresh := false,
           pkgs := [{ key := "u".toList, expected := ⟨some "bb".toList, true⟩, fetched := some ⟨none, [1], [10]⟩,
                      raw := "Q1bb".toList }] }])).1[1]? = some [o] ∧ o.ok = false) := by
  exact ⟨⟨_, _, rfl, rfl, rfl, rfl⟩, ⟨_, rfl, rfl⟩⟩

/-- the data section of F05e: a hidden leading entry `.x` of an unsupported, data-bearing type (body `[66]`, hashed
by nobody), a regular file `d/a` (body `[65]`, record `aa`), and a symlink entry of the same name that copies the
record and points at `.x` -/
def dupEntries : List Entry :=
  [ { name := ".x".toList, kind := .other, body := [66], recorded := .absent },
    { name := "d/a".toList, kind := .reg, body := [65], recorded := .sum "aa".toList },
    { name := "d/a".toList, kind := .symlink, body := [], recorded := .sum "aa".toList, link := "../.x".toList,
      tarTarget := ".x".toList } ]

def dupLib : Lib :=
  { sha1 := fun b => if b = [65] then "aa".toList else "ee".toList,
    sha256 := fun _ => "00".toList, untarData := fun _ => some dupEntries, pkginfo := fun _ => none }

/-- F05e: the PINNED installer accepts the data section (it passes `checkSums`), keeps the node of the regular file
(record `aa`) and serves the bytes of `.x` for it: they match neither the node's record nor the record of ANY entry -/
theorem pinned_serves_unverified_bytes :
    checkSums dupLib dupEntries = true ∧
    ∃ ns nd, install false dupEntries = some ns ∧ readable dupEntries ns = true ∧ nd ∈ fileNodes ns ∧
      nd.name = "d/a".toList ∧ nd.own = [65] ∧ served dupEntries nd = some [66] ∧ dupLib.sha1 [66] ≠ nd.sum ∧
      ∀ e ∈ dupEntries, e.recorded ≠ .sum (dupLib.sha1 [66]) := by
  refine ⟨by decide, _, _, rfl, by decide, List.mem_singleton.2 rfl, rfl, rfl, by decide, by decide, by decide⟩

/-- … the repaired one refuses it -/
theorem repaired_refuses_repeated_name : install true dupEntries = none := by decide

/-- the hypotheses of `installed_bytes_verified` are satisfiable by a non-trivial value: two files, a symlink and a
hard link, distinct names -/
example :
    let es : List Entry :=
      [ { name := "d/a".toList, kind := .reg, body := [65], recorded := .sum "aa".toList },
        { name := "d/l".toList, kind := .symlink, body := [], recorded := .sum "ee".toList, link := "a".toList, tarTarget := "d/a".toList },
        { name := "d/h".toList, kind := .hardlink, body := [], recorded := .absent, link := "d/a".toList, tarTarget := "d/d/a".toList } ]
    checkSums dupLib es = true ∧
      (install true es).map (fun ns => (ns.length, (fileNodes ns).length)) = some (3, 1) := by
  exact ⟨by decide, by decide⟩

/-- the hypotheses of `install_authentic` are satisfiable by a non-trivial value: a warm cache holding the
authentic package, hit by the expected checksum while the repository serves something else -/
example :
    let c : Cache := { ctl := [("aa".toList, [1])], dat := [("10".toList, [10])] }
    CacheInv toyLib c ∧
    ∃ e, expandPackageWith true toyLib ⟨some "aa".toList, true⟩ (some c) (some ⟨none, [2], [20]⟩) = .ok (e, some c) ∧
      e.control = [1] ∧ e.data = [10] := by
  refine ⟨⟨?_, ?_⟩, _, rfl, rfl, rfl⟩
  · intro n b h
    simp only [lookup] at h
    split at h
    · next hn => cases h; rw [← hn]; decide
    · cases h
  · intro n d h
    simp only [lookup] at h
    split at h
    · next hn => cases h; rw [← hn]; exact ⟨by decide, [], rfl, rfl⟩
    · cases h

end Apko.C05
