/-
Equality theorems for the path-vetting functions that the extractor translates to Lean on every run
(`Apko/Generated/TransConfine.lean`, written by extract/trans.go from pkg/apk/apk/common.go,
pkg/apk/fs/rwosfs.go and pkg/apk/apk/cache.go): the translated definitions equal the hand-written models in
`Model/Confine.lean` that C18's confinement theorems (`sanitize_within`, `archive_within`,
`etagfile_within`, …) are about.  A semantic change of a Go function changes the generated definition and
these proofs stop checking.
-/
import Apko.Generated.TransConfine
import Apko.Model.Confine

namespace Apko.TransConfine
open Apko Apko.Path Apko.Confine

-- T `trans_isWithinApk`: `isWithin` of pkg/apk/apk/common.go, translated, is the model's `isWithin`.
theorem trans_isWithinApk (base p : Text) : Generated.Trans.isWithinApk base p = isWithin base p := by
  unfold Generated.Trans.isWithinApk isWithin
  by_cases h : p = clean base
  · subst h; simp
  · have hs : ¬ clean base = p := fun e => h e.symm
    by_cases h2 : hasSuffix (clean base) slash = true <;> simp [h, hs, h2]

-- T `trans_isWithinFs`: `isWithin` of pkg/apk/fs/rwosfs.go (the same body), translated, is the model's.
theorem trans_isWithinFs (base p : Text) : Generated.Trans.isWithinFs base p = isWithin base p := by
  unfold Generated.Trans.isWithinFs isWithin
  by_cases h : p = clean base
  · subst h; simp
  · have hs : ¬ clean base = p := fun e => h e.symm
    by_cases h2 : hasSuffix (clean base) slash = true <;> simp [h, hs, h2]

-- T `trans_sanitizeArchivePath`: `sanitizeArchivePath(d, t)`, translated (`none` = the error), is the model's.
theorem trans_sanitizeArchivePath (d t : Text) :
    Generated.Trans.sanitizeArchivePath d t = sanitizeArchivePath d t := by
  unfold Generated.Trans.sanitizeArchivePath sanitizeArchivePath
  simp only [trans_isWithinApk]

-- T `trans_sanitizePath`: `sanitizePath(base, p)` of rwosfs.go, translated, is the model's.
theorem trans_sanitizePath (base p : Text) : Generated.Trans.sanitizePath base p = sanitizePath base p := by
  unfold Generated.Trans.sanitizePath sanitizePath
  simp only [trans_isWithinFs]

-- T `trans_cacheDirFromFile`
theorem trans_cacheDirFromFile (cacheFile : Text) :
    Generated.Trans.cacheDirFromFile cacheFile = cacheDirFromFile cacheFile := by
  unfold Generated.Trans.cacheDirFromFile cacheDirFromFile
  rfl

-- T `trans_cacheFileFromEtag`: `cacheFileFromEtag(cacheFile, etag)`, translated with `filepath.Abs` read as
-- `Clean` (an absolute cache file, as in the model), is the model's.
theorem trans_cacheFileFromEtag (cacheFile etag : Text) :
    Generated.Trans.cacheFileFromEtag cacheFile etag = cacheFileFromEtag cacheFile etag := by
  unfold Generated.Trans.cacheFileFromEtag cacheFileFromEtag
  have hT : ∀ s, T s = s.toList := fun _ => rfl
  rw [hT, hT, hT, hT]
  generalize "APKINDEX.tar.gz".toList = sfx
  generalize ".tar.gz".toList = e1
  generalize ".etag".toList = e2
  generalize "APKINDEX".toList = d
  by_cases h : hasSuffix cacheFile sfx = true <;> simp [h, Trans.absOfAbsolute]

-- the statements are about non-trivial values: the sibling `base ++ "2"` is rejected, a child accepted
example : Generated.Trans.sanitizeArchivePath "/a/b".toList "../b2/x".toList = none ∧
    Generated.Trans.sanitizeArchivePath "/a/b".toList "c/../d".toList = some "/a/b/d".toList := by decide

end Apko.TransConfine
