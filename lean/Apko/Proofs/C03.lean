/-
C03 — Version comparison is the apk total order and constraints follow it.

Property theorems only; the model is `Apko/Model/Version.lean`, the rank / operator tables and
the regex literals are `Apko/Generated/Version.lean` (rewritten from /repo on every run), so
every theorem here that mentions them is re-checked against what the code says now.

Parameters / trusted: Go's `regexp` (the recogniser is hand-written for the literals tied
below), `strconv.Atoi` (modelled as `digitsToNat` plus the 2^63 guard).
-/
import Apko.Model.Version
import Apko.Proofs.Lemmas.VersionRender
import Apko.Proofs.Lemmas.VersionConstraintIff
import Apko.Proofs.Lemmas.VersionRegex

namespace Apko.C03
open Apko

/-! ## ties to the regenerated facts -/

theorem tie_versionRegex : Generated.versionRegex =
    "^([0-9]+)((\\.[0-9]+)*)([a-z]?)((_alpha|_beta|_pre|_rc)([0-9]*))?((_cvs|_svn|_git|_hg|_p)([0-9]*))?((-r)([0-9]+))?$" := by
  decide

theorem tie_packageNameRegex : Generated.packageNameRegex =
    "^([^@=><~]+)(([=><~]+)([^@]+))?(@([a-zA-Z0-9]+))?$" := by decide

theorem tie_endsWithRelease : Generated.endsWithReleaseStr = "-r\\d+$" := by decide

/-- the tokens the switch maps are exactly the tokens the regex admits, none of them is a prefix
of another, and the values are pairwise distinct and below `preMax` -/
theorem tie_preSwitch_tokens :
    Generated.preSwitch.map (·.1) = ["_alpha", "_beta", "_pre", "_rc", ""] := by decide
theorem tie_postSwitch_tokens :
    Generated.postSwitch.map (·.1) = ["_cvs", "_svn", "_git", "_hg", "_p", ""] := by decide

/-- operator strings → constants, and the constants' numeric values, as the model's `Dep` has them -/
theorem tie_opSwitch : Generated.opSwitch.map (fun p => (p.1, (Dep.ofName p.2).map Dep.toNat)) =
    [("=", some 1), (">", some 2), ("<", some 3), (">=", some 4), ("<=", some 5), ("~", some 6)] := by
  decide
theorem tie_depConsts : Generated.depConsts.all
    (fun p => (Dep.ofName p.1).map Dep.toNat == some p.2) = true := by decide

def expected_CompareVersions : List String := [
  "for i := 0; i < len(actual.numbers) && i < len(required.numbers); i++ { if actual.numbers[i] > required.numbers[i] { return greater } if actual.numbers[i] < required.numbers[i] { return less } }",
  "if len(actual.numbers) > len(required.numbers) { return greater }",
  "if len(actual.numbers) < len(required.numbers) { return less }",
  "if actual.letter > required.letter { return greater }",
  "if actual.letter < required.letter { return less }",
  "actualPreSuffix, requiredPreSuffix := actual.preSuffix, required.preSuffix",
  "if actualPreSuffix == packageVersionPreModifierNone { actualPreSuffix = packageVersionPreModifierMax }",
  "if requiredPreSuffix == packageVersionPreModifierNone { requiredPreSuffix = packageVersionPreModifierMax }",
  "if actualPreSuffix > requiredPreSuffix { return greater }",
  "if actualPreSuffix < requiredPreSuffix { return less }",
  "if actual.preSuffixNumber > required.preSuffixNumber { return greater }",
  "if actual.preSuffixNumber < required.preSuffixNumber { return less }",
  "if actual.postSuffix > required.postSuffix { return greater }",
  "if actual.postSuffix < required.postSuffix { return less }",
  "if actual.postSuffixNumber > required.postSuffixNumber { return greater }",
  "if actual.postSuffixNumber < required.postSuffixNumber { return less }",
  "if actual.revision > required.revision { return greater }",
  "if actual.revision < required.revision { return less }",
  "return equal"]

/-- `compareVersions` in the model was written against exactly these statements -/
theorem tie_CompareVersions : Generated.stmts_CompareVersions = expected_CompareVersions := rfl

def expected_includesVersion : List String := [
  "if len(actual.numbers) < len(required.numbers) { return false }",
  "for i := 0; i < len(required.numbers); i++ { if actual.numbers[i] != required.numbers[i] { return false } }",
  "if len(actual.numbers) > len(required.numbers) { return true }",
  "if required.letter != 0 && actual.letter != required.letter { return false }",
  "if required.preSuffix != packageVersionPreModifierNone && actual.preSuffix != required.preSuffix { return false }",
  "if required.preSuffixNumber != 0 && actual.preSuffixNumber != required.preSuffixNumber { return false }",
  "if required.postSuffix != packageVersionPostModifierNone && actual.postSuffix != required.postSuffix { return false }",
  "if required.postSuffixNumber != 0 && actual.postSuffixNumber != required.postSuffixNumber { return false }",
  "if required.revision != 0 && actual.revision != required.revision { return false }",
  "return true"]

theorem tie_includesVersion : Generated.stmts_includesVersion = expected_includesVersion := rfl

def expected_satisfies : List String := [
  "if v == versionTilde { return includesVersion(actualVersion, requiredVersion) }",
  "c := CompareVersions(actualVersion, requiredVersion)",
  "switch v { case versionAny: return true case versionEqual: return c == equal case versionGreater: return c == greater case versionLess: return c == less case versionGreaterEqual: return c == greater || c == equal case versionLessEqual: return c == less || c == equal default: return false }"]

theorem tie_satisfies : Generated.stmts_satisfies = expected_satisfies := rfl

def expected_SatisfiedBy : List String := [
  "if p.version == \"\" { return true, nil }",
  "pv, err := cachedParseVersion(p.version)",
  "if err != nil { return false, err }",
  "return p.dep.satisfies(v, pv), nil"]

theorem tie_SatisfiedBy : Generated.stmts_SatisfiedBy = expected_SatisfiedBy := rfl

/-! ## the rank chains, over the generated tables -/

def preOf (tok : String) : Nat := preRank ((Generated.preSwitch.lookup tok).getD 999999)
def postOf (tok : String) : Nat := (Generated.postSwitch.lookup tok).getD 999999

/-- alpha < beta < pre < rc < none -/
theorem rank_chain_pre :
    preOf "_alpha" < preOf "_beta" ∧ preOf "_beta" < preOf "_pre" ∧ preOf "_pre" < preOf "_rc" ∧
    preOf "_rc" < preOf "" := by decide

/-- none < cvs < svn < git < hg < p -/
theorem rank_chain_post :
    postOf "" < postOf "_cvs" ∧ postOf "_cvs" < postOf "_svn" ∧ postOf "_svn" < postOf "_git" ∧
    postOf "_git" < postOf "_hg" ∧ postOf "_hg" < postOf "_p" := by decide

/-- the values a parsed version can carry in `pre` -/
def preValues : List Nat := Generated.preSwitch.map (·.2)

/-- `None → Max` is injective on the values the parser can produce -/
theorem preRank_inj_on_values : ∀ x ∈ preValues, ∀ y ∈ preValues, preRank x = preRank y → x = y := by
  decide

/-! ## the numeric-component order -/

theorem cmpNums_swap (x y : List Nat) : (cmpNums x y).swap = cmpNums y x := by
  induction x generalizing y with
  | nil => cases y <;> simp [cmpNums]
  | cons a as ih =>
    cases y with
    | nil => simp [cmpNums]
    | cons b bs => simp [cmpNums, Ordering.swap_then, Nat.compare_swap, ih]

theorem cmpNums_eq_iff (x y : List Nat) : cmpNums x y = .eq ↔ x = y := by
  induction x generalizing y with
  | nil => cases y <;> simp [cmpNums]
  | cons a as ih =>
    cases y with
    | nil => simp [cmpNums]
    | cons b bs => simp [cmpNums, Ordering.then_eq_eq, ih]

theorem cmpNums_lt_iff (x y : List Nat) : cmpNums x y = .lt ↔ x < y := by
  induction x generalizing y with
  | nil => cases y <;> simp [cmpNums]
  | cons a as ih =>
    cases y with
    | nil => simp [cmpNums]
    | cons b bs =>
      simp [cmpNums, Ordering.then_eq_lt, Nat.compare_eq_lt, ih, List.cons_lt_cons_iff]

theorem cmpNums_gt_iff (x y : List Nat) : cmpNums x y = .gt ↔ y < x := by
  rw [← cmpNums_lt_iff, ← cmpNums_swap y x]
  cases cmpNums y x <;> simp

theorem cmpNums_lt_trans {x y z : List Nat} (h1 : cmpNums x y = .lt) (h2 : cmpNums y z = .lt) :
    cmpNums x z = .lt := by
  rw [cmpNums_lt_iff] at *
  exact List.lt_trans h1 h2

/-! ## `CompareVersions` is the lexicographic order of the apk key -/

theorem cmpNums_map_append (xs ys : List Nat) (s t : List Nat) :
    cmpNums (xs.map (· + 1) ++ 0 :: s) (ys.map (· + 1) ++ 0 :: t) =
      (cmpNums xs ys).then (cmpNums s t) := by
  induction xs generalizing ys with
  | nil =>
    cases ys with
    | nil => simp [cmpNums]
    | cons b bs =>
      simp only [List.map_nil, List.nil_append, List.map_cons, List.cons_append, cmpNums]
      have : compare 0 (b + 1) = .lt := Nat.compare_eq_lt.mpr (by omega)
      simp [this]
  | cons a as ih =>
    cases ys with
    | nil =>
      simp only [List.map_nil, List.nil_append, List.map_cons, List.cons_append, cmpNums]
      have : compare (a + 1) 0 = .gt := Nat.compare_eq_gt.mpr (by omega)
      simp [this]
    | cons b bs =>
      simp only [List.map_cons, List.cons_append, cmpNums, ih]
      have : compare (a + 1) (b + 1) = compare a b := by
        rcases Nat.lt_trichotomy a b with h | h | h
        · rw [Nat.compare_eq_lt.mpr h, Nat.compare_eq_lt.mpr (by omega)]
        · subst h; simp
        · rw [Nat.compare_eq_gt.mpr h, Nat.compare_eq_gt.mpr (by omega)]
      rw [this, Ordering.then_assoc]

/-- T `cmp_is_apk_order` (first half): the code's field-by-field comparison equals the
lexicographic comparison of the key. -/
theorem compare_is_key (a b : Version) : compareVersions a b = cmpNums a.key b.key := by
  unfold compareVersions Version.key
  rw [cmpNums_map_append]
  simp [cmpNums]

/-- T `cmp_is_apk_order`: the code's comparison is the apk order (core `<` on the key lists) -/
theorem cmp_is_apk_order (a b : Version) : compareVersions a b = Spec.compareVersions a b := by
  unfold Spec.compareVersions
  rw [compare_is_key]
  by_cases h1 : a.key < b.key
  · simp [h1, (cmpNums_lt_iff _ _).mpr h1]
  · by_cases h2 : b.key < a.key
    · simp [h1, h2, (cmpNums_gt_iff _ _).mpr h2]
    · simp only [h1, h2, if_false]
      cases h : cmpNums a.key b.key
      · exact absurd ((cmpNums_lt_iff _ _).mp h) h1
      · rfl
      · exact absurd ((cmpNums_gt_iff _ _).mp h) h2

/-! ## order laws -/

theorem cmp_swap (a b : Version) : (compareVersions a b).swap = compareVersions b a := by
  rw [compare_is_key, compare_is_key, cmpNums_swap]

theorem cmp_refl (a : Version) : compareVersions a a = .eq := by
  rw [compare_is_key, cmpNums_eq_iff]

theorem cmp_lt_trans {a b c : Version} (h1 : compareVersions a b = .lt)
    (h2 : compareVersions b c = .lt) : compareVersions a c = .lt := by
  rw [compare_is_key] at *
  exact cmpNums_lt_trans h1 h2

theorem cmp_eq_trans {a b c : Version} (h1 : compareVersions a b = .eq)
    (h2 : compareVersions b c = .eq) : compareVersions a c = .eq := by
  rw [compare_is_key, cmpNums_eq_iff] at *
  exact h1.trans h2

theorem cmp_eq_lt_trans {a b c : Version} (h1 : compareVersions a b = .eq)
    (h2 : compareVersions b c = .lt) : compareVersions a c = .lt := by
  rw [compare_is_key] at *
  rw [cmpNums_eq_iff] at h1
  rw [h1]; exact h2

theorem cmp_lt_eq_trans {a b c : Version} (h1 : compareVersions a b = .lt)
    (h2 : compareVersions b c = .eq) : compareVersions a c = .lt := by
  rw [compare_is_key] at *
  rw [cmpNums_eq_iff] at h2
  rw [← h2]; exact h1

/-- totality: exactly one of `<`, `=`, `>` (an `Ordering` value), and `>` is `<` flipped -/
theorem cmp_gt_iff_lt (a b : Version) : compareVersions a b = .gt ↔ compareVersions b a = .lt := by
  rw [← cmp_swap b a]; cases compareVersions b a <;> simp

/-- well-formed: what the parser can produce (pre ∈ the switch values) -/
def WF (v : Version) : Prop := v.pre ∈ preValues

theorem map_succ_append_inj : ∀ (xs ys : List Nat) (s t : List Nat),
    xs.map (· + 1) ++ 0 :: s = ys.map (· + 1) ++ 0 :: t → xs = ys ∧ s = t
  | [], [], s, t, h => by simpa using h
  | [], b :: bs, s, t, h => by simp at h
  | a :: as, [], s, t, h => by simp at h
  | a :: as, b :: bs, s, t, h => by
    simp only [List.map_cons, List.cons_append, List.cons.injEq] at h
    have := map_succ_append_inj as bs s t h.2
    exact ⟨by rw [show a = b by omega, this.1], this.2⟩

theorem key_injective {a b : Version} (ha : WF a) (hb : WF b) (h : a.key = b.key) : a = b := by
  unfold Version.key at h
  have := map_succ_append_inj _ _ _ _ h
  obtain ⟨hn, ht⟩ := this
  simp only [List.cons.injEq, and_true] at ht
  obtain ⟨h1, h2, h3, h4, h5, h6⟩ := ht
  have hp : a.pre = b.pre := preRank_inj_on_values _ ha _ hb h2
  cases a; cases b; simp_all

/-- T `cmp_eq_iff`: on parsed versions, comparing equal means being the same version
(so the order is linear on versions, and a total preorder on their spellings: `1.0`/`1.00`) -/
theorem cmp_eq_iff {a b : Version} (ha : WF a) (hb : WF b) : compareVersions a b = .eq ↔ a = b := by
  rw [compare_is_key, cmpNums_eq_iff]
  exact ⟨key_injective ha hb, fun h => by rw [h]⟩

/-! ## operators -/

theorem numsPrefix_eq (r a : List Nat) : numsPrefix r a = r.isPrefixOf a := by
  induction r generalizing a with
  | nil => cases a <;> simp [numsPrefix]
  | cons x xs ih => cases a <;> simp [numsPrefix, List.isPrefixOf, ih]

theorem isPrefixOf_length {r a : List Nat} (h : r.isPrefixOf a = true) : r.length ≤ a.length := by
  rw [List.isPrefixOf_iff_prefix] at h
  exact h.length_le

theorem guard_eq (x c y : Nat) (X : Bool) :
    (if (x != c && y != x) = true then false else X) = ((decide (x = c) || decide (y = x)) && X) := by
  by_cases h1 : x = c <;> by_cases h2 : y = x <;> simp [h1, h2]

/-- T `op_*` and `tilde_iff`: every operator accepts exactly what the order dictates; `~`
accepts exactly the versions whose numeric components extend the required ones, every further
field the requirement spells out being equal when the component counts match. -/
theorem satisfies_is_spec (d : Dep) (a r : Version) : d.satisfies a r = Spec.satisfies d a r := by
  cases d
  case any => rfl
  case tilde =>
    simp only [Dep.satisfies, Spec.satisfies, includesVersion, numsPrefix_eq]
    by_cases hp : r.numbers.isPrefixOf a.numbers = true
    · have hl := isPrefixOf_length hp
      have h1 : ¬ a.numbers.length < r.numbers.length := by omega
      by_cases h2 : a.numbers.length > r.numbers.length
      · have : a.numbers.length ≠ r.numbers.length := by omega
        simp [hp, h1, h2, this]
      · have : a.numbers.length = r.numbers.length := by omega
        simp only [hp, h1, h2, this, guard_eq]
        simp [Bool.and_assoc]
    · have hp' : r.numbers.isPrefixOf a.numbers = false := by
        cases h : r.numbers.isPrefixOf a.numbers
        · rfl
        · exact absurd h hp
      simp only [hp']
      by_cases h1 : a.numbers.length < r.numbers.length <;> simp [h1]
  all_goals
    simp only [Dep.satisfies, Spec.satisfies, compare_is_key]
    cases h : cmpNums a.key r.key
    · have h' := (cmpNums_lt_iff _ _).mp h
      have hne : a.key ≠ r.key := fun e => by rw [e] at h'; exact List.lt_irrefl _ h'
      have hng : ¬ r.key < a.key := fun g => List.lt_irrefl _ (List.lt_trans h' g)
      simp [h', hne, hng]
    · have h' := (cmpNums_eq_iff _ _).mp h
      simp [h', List.lt_irrefl]
    · have h' := (cmpNums_gt_iff _ _).mp h
      have hne : a.key ≠ r.key := fun e => by rw [e] at h'; exact List.lt_irrefl _ h'
      have hng : ¬ a.key < r.key := fun g => List.lt_irrefl _ (List.lt_trans h' g)
      simp [h', hne, hng]

/-- `<=` is "not `>`", `>=` is "`>` or `=`" -/
theorem le_iff_not_gt (a r : Version) : Dep.le.satisfies a r = !Dep.gt.satisfies a r := by
  simp only [Dep.satisfies]; cases compareVersions a r <;> rfl
theorem ge_iff_gt_or_eq (a r : Version) :
    Dep.ge.satisfies a r = (Dep.gt.satisfies a r || Dep.eq.satisfies a r) := by
  simp only [Dep.satisfies]

/-! ## parsing: Impl against Spec -/

/-- T `parse_impl_partial`: the code's parser agrees with the grammar whenever every numeric
field is below 2^63 … -/
theorem parse_impl_partial (s : Text) (r : RawVersion) (h : recognise s = some r)
    (hsmall : r.fields.all (fun f => digitsToNat f ≤ maxInt) = true) :
    Impl.parseVersion s = Spec.parseVersion s := by
  simp [Impl.parseVersion, Spec.parseVersion, h, hsmall]

/-- … it never accepts what the grammar rejects, and whatever it accepts it reads as the grammar does -/
theorem parse_impl_sound (s : Text) (v : Version) (h : Impl.parseVersion s = some v) :
    Spec.parseVersion s = some v := by
  unfold Impl.parseVersion at h
  unfold Spec.parseVersion
  cases hr : recognise s with
  | none => simp [hr] at h
  | some r =>
    simp only [hr] at h
    split at h
    · simpa using h
    · simp at h

/-- F03a witness: a grammar-valid version the code rejects (the full statement
`Impl.parseVersion = Spec.parseVersion` is false). -/
theorem parse_impl_ne_spec_witness :
    Impl.parseVersion "9223372036854775808".toList = none ∧
    (Spec.parseVersion "9223372036854775808".toList).isSome = true := by
  decide

/-- non-vacuity of `parse_impl_partial`: a non-trivial string meets its hypotheses -/
example : ∃ r, recognise "1.2b_rc3_p4-r5".toList = some r ∧
    r.fields.all (fun f => digitsToNat f ≤ maxInt) = true := by
  refine ⟨_, rfl, ?_⟩; decide

/-- parsed versions are well-formed (so `cmp_eq_iff` applies to everything the parser returns) -/
theorem matchToken_mem {tbl : List (String × Nat)} {s : Text} {v : Nat} {r : Text}
    (h : matchToken tbl s = some (v, r)) : v ∈ tbl.map (·.2) := by
  induction tbl with
  | nil => simp [matchToken] at h
  | cons p rest ih =>
    obtain ⟨tok, val⟩ := p
    simp only [matchToken] at h
    split at h
    · simp [ih h]
    · split at h
      · simp only [Option.some.injEq, Prod.mk.injEq] at h
        simp [h.1]
      · simp [ih h]

theorem preNone_mem : Generated.preNone ∈ preValues := by decide

theorem recognise_wf {s : Text} {r : RawVersion} (h : recognise s = some r) : WF r.toVersion := by
  unfold recognise at h
  simp only at h
  split at h
  · simp at h
  · have key : ∀ (x : Option (Nat × Text)),
        x = matchToken Generated.preSwitch
          (match (parseDotNums s.length (spanDigits s).2).2 with
            | c :: cs => if isLower c then (c.toNat, cs) else (0, (parseDotNums s.length (spanDigits s).2).2)
            | [] => (0, (parseDotNums s.length (spanDigits s).2).2)).2 →
        (match x with
          | some (v, r) => ((v, (spanDigits r).1, (spanDigits r).2) : Nat × Text × Text)
          | none => (Generated.preNone, [], (match (parseDotNums s.length (spanDigits s).2).2 with
            | c :: cs => if isLower c then (c.toNat, cs) else (0, (parseDotNums s.length (spanDigits s).2).2)
            | [] => (0, (parseDotNums s.length (spanDigits s).2).2)).2)).1 ∈ preValues := by
      intro x hx
      cases x with
      | none => exact preNone_mem
      | some p => exact matchToken_mem hx.symm
    have hk := key _ rfl
    split at h
    · simp only [Option.some.injEq] at h; subst h; exact hk
    · split at h
      · simp at h
      · split at h
        · simp only [Option.some.injEq] at h; subst h; exact hk
        · simp at h
    · simp at h

/-! ## the grammar characterisation (lemmas: `Proofs/Lemmas/VersionGrammar*.lean`)

`VersionGrammar.Grammar s r` spells `Generated.versionRegex` (tied above) as a concatenation

    s = d₁ ++ ("." dᵢ)* ++ letter? ++ (preTok digits*)? ++ (postTok digits*)? ++ ("-r" digits⁺)?

with the `dᵢ` non-empty digit strings, the tokens the non-empty keys of the regenerated switch
tables, and `r : RawVersion` recording the pieces. -/

section grammar
open VersionGrammar

/-- T `parse_iff_grammar` (raw form): the recogniser accepts exactly the grammar's words, with
exactly the recorded pieces; its greedy choices (maximal digit runs, a letter after the numbers,
`_pre` against `_p`) are forced. -/
theorem parse_iff_grammar_raw (s : Text) (r : RawVersion) : recognise s = some r ↔ Grammar s r :=
  recognise_iff_grammar s r

/-- T `parse_iff_grammar`: a string is a version iff it matches the grammar, and its value is
the value of its (unique) grammar parse. -/
theorem parse_iff_grammar (s : Text) (v : Version) :
    Spec.parseVersion s = some v ↔ ∃ r, Grammar s r ∧ r.toVersion = v := by
  unfold Spec.parseVersion
  rw [Option.map_eq_some_iff]
  constructor
  · rintro ⟨r, hr, hv⟩; exact ⟨r, recognise_sound hr, hv⟩
  · rintro ⟨r, hr, hv⟩; exact ⟨r, recognise_complete hr, hv⟩

/-- accepted iff in the grammar -/
theorem accepts_iff_grammar (s : Text) : (Spec.parseVersion s).isSome = true ↔ ∃ r, Grammar s r := by
  rw [Option.isSome_iff_exists]
  constructor
  · rintro ⟨v, hv⟩
    obtain ⟨r, hr, _⟩ := (parse_iff_grammar s v).mp hv
    exact ⟨r, hr⟩
  · rintro ⟨r, hr⟩
    exact ⟨r.toVersion, (parse_iff_grammar s _).mpr ⟨r, hr, rfl⟩⟩

/-- the grammar is unambiguous: no string has two parses -/
theorem grammar_unambiguous {s : Text} {r r' : RawVersion} (h : Grammar s r) (h' : Grammar s r') :
    r = r' := grammar_functional h h'

/-- the code's parser, characterised: the grammar plus the 2^63 bound on every numeric field -/
theorem impl_parse_iff_grammar (s : Text) (v : Version) :
    Impl.parseVersion s = some v ↔
      ∃ r, Grammar s r ∧ r.fields.all (fun f => digitsToNat f ≤ maxInt) = true ∧ r.toVersion = v := by
  unfold Impl.parseVersion
  constructor
  · intro h
    cases hr : recognise s with
    | none => simp [hr] at h
    | some r =>
      simp only [hr] at h
      split at h
      · rename_i hs
        exact ⟨r, recognise_sound hr, hs, by simpa using h⟩
      · simp at h
  · rintro ⟨r, hg, hs, hv⟩
    rw [recognise_complete hg]
    simp [hs, hv]

/-- non-vacuity of `Grammar`: a word using every group, and its recorded pieces -/
example : Grammar "1.20b_rc3_p4-r5".toList
    ⟨["1".toList, "20".toList], 98, 4, "3".toList, 5, "4".toList, "5".toList⟩ :=
  (parse_iff_grammar_raw _ _).mp rfl

/-- `_pre` is not `_p` followed by `re`; a dot needs a digit; a token needs a number before it -/
example : (∃ r, Grammar "1_pre2".toList r ∧ r.pre = 3 ∧ r.post = Generated.postNone) ∧
    (¬ ∃ r, Grammar "1._p".toList r) ∧ (¬ ∃ r, Grammar "_p1".toList r) ∧
    (¬ ∃ r, Grammar "1-r".toList r) ∧ (¬ ∃ r, Grammar "1_p_rc".toList r) := by
  refine ⟨⟨_, (parse_iff_grammar_raw _ _).mp rfl, rfl, rfl⟩, ?_, ?_, ?_, ?_⟩ <;>
  · rw [← accepts_iff_grammar]; decide

/-- T `recognise_wfv`: everything the parser returns is well-formed … -/
theorem recognise_wfv {s : Text} {r : RawVersion} (h : recognise s = some r) : WFv r.toVersion :=
  VersionGrammar.recognise_wfv h

/-- T `parse_render` (non-vacuity): … and every well-formed `Version` is reachable — the
grammar-level parser reads its canonical spelling back. -/
theorem parse_render (v : Version) (h : WFv v) : Spec.parseVersion (render v) = some v :=
  VersionGrammar.parse_render h

/-- the range of the parser is exactly the well-formed versions -/
theorem parse_range (v : Version) : WFv v ↔ ∃ s, Spec.parseVersion s = some v := by
  constructor
  · intro h; exact ⟨render v, parse_render v h⟩
  · rintro ⟨s, hs⟩
    obtain ⟨r, hr, rfl⟩ := (parse_iff_grammar s v).mp hs
    exact grammar_wfv hr

/-- the code's parser reads the canonical spelling back too when every field is below 2^63 … -/
theorem impl_parse_render (v : Version) (h : WFv v) (hs : Small v) :
    Impl.parseVersion (render v) = some v := VersionGrammar.impl_parse_render h hs

/-- … so its range is exactly the well-formed versions with every field below 2^63 -/
theorem impl_parse_range (v : Version) : (WFv v ∧ Small v) ↔ ∃ s, Impl.parseVersion s = some v := by
  constructor
  · rintro ⟨h, hs⟩; exact ⟨render v, impl_parse_render v h hs⟩
  · rintro ⟨s, hs⟩
    obtain ⟨r, hr, hsm, rfl⟩ := (impl_parse_iff_grammar s v).mp hs
    exact ⟨grammar_wfv hr, fields_small_toVersion hsm⟩

/-- the canonical spelling determines the version -/
theorem render_injective {v w : Version} (hv : WFv v) (hw : WFv w) (h : render v = render w) :
    v = w := VersionGrammar.render_injective hv hw h

/-- `WFv` implies the `WF` the order theorems ask for -/
theorem wfv_wf {v : Version} (h : WFv v) : WF v := h.2.2.1

example : WFv ⟨[1, 20], 98, 4, 3, 5, 4, 5⟩ ∧ Small ⟨[1, 20], 98, 4, 3, 5, 4, 5⟩ ∧
    render ⟨[1, 20], 98, 4, 3, 5, 4, 5⟩ = "1.20b_rc3_p4-r5".toList := by decide

end grammar

/-! ## constraints (lemmas: `Proofs/Lemmas/VersionConstraint.lean`)

Side conditions, exactly what the greedy groups of `Generated.packageNameRegex` force:
`NameText` = `[^@=><~]+`; `OpsText` = `[=><~]+`; `VerText` = `[^@]+` **not starting with an
operator character** (the operator run would take it); `PinG pp pin` = `pp` is empty (and
`pin = ""`) or `pp = "@" ++ pin` with `pin` in `[a-zA-Z0-9]+`. -/

section constraints
open VersionGrammar

/-- T `constraint_split`: `name ops ver [@pin]` comes back as its parts (name not `so:`) -/
theorem constraint_split {name ops ver pp pin : Text} (hn : NameText name)
    (hso : stripPrefix "so:".toList name = none) (ho : OpsText ops) (hv : VerText ver)
    (hp : PinG pp pin) :
    parseConstraint (name ++ (ops ++ (ver ++ pp))) = ⟨name, ver, opOf ops, pin⟩ :=
  VersionGrammar.constraint_split hn hso ho hv hp

/-- … and for the operators of the regenerated switch the dependency is the switch's constant -/
theorem constraint_split_op {name ver pp pin : Text} {op nm : String}
    (hop : (op, nm) ∈ Generated.opSwitch) (hn : NameText name)
    (hso : stripPrefix "so:".toList name = none) (hv : VerText ver) (hp : PinG pp pin) :
    parseConstraint (name ++ (op.toList ++ (ver ++ pp))) =
      ⟨name, ver, (Dep.ofName nm).getD .any, pin⟩ := by
  obtain ⟨ho, he⟩ := opOf_key hop
  rw [VersionGrammar.constraint_split hn hso ho hv hp, he]

/-- without a version: `name`, `name@pin` (also for `so:` names) -/
theorem constraint_split_bare {name pp pin : Text} (hn : NameText name) (hp : PinG pp pin) :
    parseConstraint (name ++ pp) = ⟨name, [], .any, pin⟩ :=
  VersionGrammar.constraint_split_bare hn hp

/-- the `so:` rule for `=`: unless the text after `=` (pin included) ends in `-rN`, the version
is read with `0.` prepended -/
theorem constraint_so_eq {name ver pp pin : Text} (hn : NameText name)
    (hso : ∃ t, name = "so:".toList ++ t) (hv : ver.all (fun c => c != '@') = true)
    (hp : PinG pp pin) (hrel : endsWithRelease (ver ++ pp) = false) :
    parseConstraint (name ++ ('=' :: (ver ++ pp))) = ⟨name, "0.".toList ++ ver, .eq, pin⟩ := by
  have := constraint_so (o1 := []) hn hso rfl (by simp) hv hp hrel
  have he : opOf ['='] = .eq := by decide
  simpa [he] using this

/-- … and when it does end in `-rN` the constraint is read as written -/
theorem constraint_so_eq_release {name ver : Text} (hn : NameText name) (hv : VerText ver)
    (hrel : endsWithRelease ver = true) :
    parseConstraint (name ++ ('=' :: ver)) = ⟨name, ver, .eq, []⟩ := by
  have := constraint_so_release (o1 := []) (o2 := []) hn rfl (by simp) rfl hv hrel
  have he : opOf ['='] = .eq := by decide
  simpa [he] using this

/-- observation (what the code does, confirmed on Go): the release test is applied to the text
after `=` *including* `@pin`, so a pinned `so:` constraint is always rewritten, even when its
version ends in `-rN` -/
theorem constraint_so_pinned {name ver pin : Text} (hn : NameText name)
    (hso : ∃ t, name = "so:".toList ++ t) (hv : ver.all (fun c => c != '@') = true)
    (hp : PinText pin) :
    parseConstraint (name ++ ('=' :: (ver ++ '@' :: pin))) = ⟨name, "0.".toList ++ ver, .eq, pin⟩ :=
  constraint_so_eq hn hso hv (.some pin hp) (endsWithRelease_pinned ver hp)

example : parseConstraint "so:libfoo.so.1=1.2-r3@edge".toList =
    ⟨"so:libfoo.so.1".toList, "0.1.2-r3".toList, .eq, "edge".toList⟩ :=
  constraint_so_pinned (name := "so:libfoo.so.1".toList) (ver := "1.2-r3".toList)
    (pin := "edge".toList) (by decide) ⟨_, rfl⟩ (by decide) (by decide)

/-- `-r\d+$` -/
theorem endsWithRelease_iff (v : Text) :
    endsWithRelease v = true ↔ ∃ p d, v = p ++ '-' :: 'r' :: d ∧ IsNum d :=
  VersionGrammar.endsWithRelease_iff v

/-- `SatisfiedBy` follows `satisfies` (hence, by `satisfies_is_spec`, the order) on the parsed
constraint version; an empty version accepts everything -/
theorem satisfiedBy_follows (parse : Text → Option Version) (c : Constraint) (v pv : Version)
    (hne : c.version ≠ []) (hp : parse c.version = some pv) :
    c.satisfiedBy parse v = some (Spec.satisfies c.dep v pv) := by
  unfold Constraint.satisfiedBy
  cases hcv : c.version with
  | nil => exact absurd hcv hne
  | cons a as => rw [hcv] at hp; simp [hp, satisfies_is_spec]

/-- the constraint expression as a relation: `PkgMatch s n o v p` = "the anchored
`packageNameRegex` matches `s` with submatches name `n`, operator run `o`, version `v`, pin `p`"
(all matches, any split of operator run / version).  The model returns exactly the match whose
operator run is longest (`OpsLongest v`: the version does not start with an operator character,
or is the one character the run had to give back) … -/
theorem matchPackageName_iff (s n o v p : Text) :
    matchPackageName s = some (n, o, v, p) ↔ PkgMatch s n o v p ∧ OpsLongest v :=
  VersionGrammar.matchPackageName_iff s n o v p

/-- … whose operator run is at least as long as in any other match … -/
theorem matchPackageName_longest {s n o v p n' o' v' p' : Text}
    (h : matchPackageName s = some (n, o, v, p)) (h' : PkgMatch s n' o' v' p') :
    o'.length ≤ o.length := VersionGrammar.matchPackageName_longest h h'

/-- … and fails exactly when the expression does not match at all. -/
theorem matchPackageName_none_iff (s : Text) :
    matchPackageName s = none ↔ ¬ ∃ n o v p, PkgMatch s n o v p :=
  VersionGrammar.matchPackageName_none_iff s

/-- `ResolvePackageNameVersionPin` on every input: rewrite (`so:` rule), then the longest-run
match decides the four fields; with no match the whole (rewritten) string is the name. -/
theorem parseConstraint_spec (s : Text) :
    (∀ n o v p, PkgMatch (soRewrite s) n o v p → OpsLongest v →
      parseConstraint s = ⟨n, v, if o.isEmpty then .any else opOf o, p⟩) ∧
    ((¬ ∃ n o v p, PkgMatch (soRewrite s) n o v p) →
      parseConstraint s = ⟨soRewrite s, [], .any, []⟩) := by
  constructor
  · intro n o v p hm hl
    exact parseConstraint_of_match rfl (matchPackageName_complete hm hl)
  · intro h
    have := (VersionGrammar.matchPackageName_none_iff _).mpr h
    unfold parseConstraint
    simp only [this]

/-- the hypotheses of `constraint_split_op` are satisfiable by a non-trivial value -/
example : parseConstraint "busybox>=1.36.1-r2@edge".toList =
    ⟨"busybox".toList, "1.36.1-r2".toList, .ge, "edge".toList⟩ :=
  constraint_split_op (op := ">=") (nm := "versionGreaterEqual") (name := "busybox".toList)
    (ver := "1.36.1-r2".toList) (pp := "@edge".toList) (pin := "edge".toList)
    (by decide) (by decide) (by decide) (by decide) (.some _ (by decide))

example : parseConstraint "so:libc.so.6=1.2".toList =
      ⟨"so:libc.so.6".toList, "0.1.2".toList, .eq, []⟩ ∧
    parseConstraint "so:libc.so.6=1.2-r3".toList =
      ⟨"so:libc.so.6".toList, "1.2-r3".toList, .eq, []⟩ :=
  ⟨constraint_so_eq (name := "so:libc.so.6".toList) (pp := []) (ver := "1.2".toList) (pin := [])
      (by decide) ⟨_, rfl⟩ (by decide) .none (by decide),
   constraint_so_eq_release (name := "so:libc.so.6".toList) (ver := "1.2-r3".toList)
      (by decide) (by decide) (by decide)⟩

end constraints

/-! ## the expressions themselves (lemmas: `Proofs/Lemmas/VersionRegex.lean`)

`Re` is a regular-expression syntax with the textbook whole-string denotation `Re.M` and a
printer.  The three syntax trees print to the literals regenerated from version.go; their
denotations are the grammar / match relation / release test proved above.  So "accepted iff it
matches the grammar" is stated against the expression in the code, and what remains trusted of
Go's `regexp` is that it gives this printed syntax its standard meaning (plus leftmost-first
submatch priority for the constraint groups). -/

section regex
open VersionGrammar

theorem tie_versionRegex_syntax :
    String.ofList ('^' :: (versionRe.print ++ ['$'])) = Generated.versionRegex := tie_versionRe_print
theorem tie_packageNameRegex_syntax :
    String.ofList ('^' :: (pkgRe.print ++ ['$'])) = Generated.packageNameRegex := tie_pkgRe_print
theorem tie_endsWithRelease_syntax :
    String.ofList (releaseRe.print ++ ['$']) = Generated.endsWithReleaseStr := tie_releaseRe_print

/-- a string is accepted as a version iff it matches `versionRegex` -/
theorem version_accepted_iff_regex (s : Text) :
    (Spec.parseVersion s).isSome = true ↔ versionRe.M s := by
  rw [accepts_iff_grammar, versionRe_M]

/-- the regex denotes the grammar -/
theorem versionRegex_is_grammar (s : Text) : versionRe.M s ↔ ∃ r, Grammar s r := versionRe_M s

/-- the constraint expression denotes `PkgMatch`, and the parser matches iff it does -/
theorem packageNameRegex_is_pkgMatch (s : Text) : pkgRe.M s ↔ ∃ n o v p, PkgMatch s n o v p :=
  pkgRe_M s
theorem constraint_matches_iff_regex (s : Text) :
    (matchPackageName s).isSome = true ↔ pkgRe.M s := matchPackageName_isSome_iff_regex s

/-- `endsWithRelease` is "`-r\d+$` finds a match" -/
theorem endsWithRelease_iff_regex (v : Text) :
    endsWithRelease v = true ↔ ∃ p x, v = p ++ x ∧ releaseRe.M x :=
  VersionGrammar.endsWithRelease_iff_regex v

end regex

end Apko.C03
