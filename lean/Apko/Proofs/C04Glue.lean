/-
C04, end-to-end layer — every index that any build / lock / package-list operation of any history gets
back as accepted was verified against the keys, and under the options, of the very read that used it.

Model: `Apko/Model/IndexSigGlue.lean` (option plumbing of `build.New`/`apk.New`, `ResolveWorld` with its
`ByArch` siblings, the process-wide memo of parsed indexes, the cache directory with online / offline
fetching).  The statements are for all interpretations of gzip/tar/hash/RSA (`Crypto`, `Codec`), all
histories (`List Run`: any mix of processes, server states, online/offline, option sets, operations), all
initial cache-directory contents (whatever earlier — possibly failed — runs or anybody else left there).
-/
import Apko.Model.IndexSigGlue
import Apko.Generated.IndexSigGlue
import Apko.Proofs.C04

namespace Apko.C04Glue
open Apko Apko.IndexSig Apko.IndexSig.Glue

/-! ## ties: the option plumbing as it is written in /repo now -/

/-- every place that sets or hands on the signature switch / the exemption list: the command-line flag goes
into `build.WithIgnoreSignatures`, `build.New` hands `bc.o.IgnoreSignatures` on (once, unconditionally, never a
literal) and exempts only the base image's index, `APK.GetRepositoryIndexes` hands on its argument and the
APK's own exemptions (`plumb`, `readOpts`) -/
theorem tie_sigOptCalls : Generated.glue_sigOptCalls =
    ["internal/cli/build-minirootfs.go:buildMinirootFS: build.WithIgnoreSignatures(ignoreSignatures) @ ",
     "internal/cli/build.go:buildCmd: build.WithIgnoreSignatures(ignoreSignatures) @ ",
     "internal/cli/lock.go:lockInternal: build.WithIgnoreSignatures(ignoreSignatures) @ ",
     "internal/cli/publish.go:publish: build.WithIgnoreSignatures(ignoreSignatures) @ ",
     "pkg/apk/apk/repo.go:APK.GetRepositoryIndexes: WithIgnoreSignatures(ignoreSignatures) @ ",
     "pkg/apk/apk/repo.go:APK.GetRepositoryIndexes: WithIgnoreSignatureForIndexes(a.noSignatureIndexes...) @ ",
     "pkg/build/build.go:New: apk.WithIgnoreIndexSignatures(bc.o.IgnoreSignatures) @ ",
     "pkg/build/build.go:New: apk.WithNoSignatureIndexes(bc.baseimg.APKIndexPath()) @ bc.ic.Contents.BaseImage != nil"] := by
  rfl

/-- every assignment to the switch / the exemption list (struct fields and literals): plain copies -/
theorem tie_sigAssigns : Generated.glue_sigAssigns =
    ["pkg/apk/apk/implementation.go:New: ignoreSignatures: opt.ignoreSignatures",
     "pkg/apk/apk/implementation.go:New: noSignatureIndexes: opt.noSignatureIndexes",
     "pkg/apk/apk/index.go:WithIgnoreSignatures: o.ignoreSignatures = ignoreSignatures",
     "pkg/apk/apk/index.go:WithIgnoreSignatureForIndexes: o.noSignatureIndexes = append(o.noSignatureIndexes, noSignatureIndexes...)",
     "pkg/apk/apk/options.go:WithIgnoreIndexSignatures: o.ignoreSignatures = ignore",
     "pkg/apk/apk/options.go:WithNoSignatureIndexes: o.noSignatureIndexes = append(o.noSignatureIndexes, noSignatureIndex...)",
     "pkg/build/options.go:WithIgnoreSignatures: bc.o.IgnoreSignatures = ignore"] := by
  rfl

/-- the calls of `GetRepositoryIndexes`: own indexes and sibling indexes both with the reader's switch
(`a.ignoreSignatures`, never a literal), the sibling's through the sibling object (`readOpts`, `resolveLoad`) -/
theorem tie_getIndexesCalls : Generated.glue_getIndexesCalls =
    ["pkg/apk/apk/implementation.go:APK.ResolveWorld: a.GetRepositoryIndexes(ctx, a.ignoreSignatures)",
     "pkg/apk/apk/implementation.go:APK.ResolveWorld: otherAPK.GetRepositoryIndexes(ctx, a.ignoreSignatures)",
     "pkg/apk/apk/repo.go:APK.GetRepositoryIndexes: GetRepositoryIndexes(ctx, repos, keys, arch, opts...)"] := by
  rfl

theorem tie_apkIndexOpts : Generated.glue_apkIndexOpts =
    ["WithIgnoreSignatures(ignoreSignatures)", "WithIgnoreSignatureForIndexes(a.noSignatureIndexes...)",
     "WithHTTPClient(httpClient)", "WithIndexAuthenticator(a.auth)"] := by
  rfl

/-- the key set is the content of the APK's own keys directory -/
theorem tie_apkKeys : Generated.glue_apkKeys =
    ["keys := make(map[string][]byte)", "range dir", "keys[d.Name()] = b"] := by
  rfl

/-- the sibling loop returns at the first sibling whose indexes do not load (`loadSiblings`).  Since the repair
recorded as F14b (C14) the APK's own entry re-uses the index objects it has just read instead of reading them a
second time; the model still reads them again, which is the same answer: same keys, same options, same bytes
(checked by the correspondence on every run) -/
theorem tie_siblingLoop : Generated.glue_siblingLoop =
    ["for otherArch, otherAPK := range a.ByArch",
     "if otherAPK == a { allArchs[otherArch] = indexes continue }",
     "indexes, err := otherAPK.GetRepositoryIndexes(ctx, a.ignoreSignatures)",
     "if err != nil { return toInstall, conflicts, fmt.Errorf(\"\", otherArch, err) }",
     "allArchs[otherArch] = indexes"] := by
  rfl

/-- the memo of parsed indexes: what it is keyed by (`memoKey implKeying`), and that a miss parses with the
caller's keys and options -/
theorem tie_memoKeys : Generated.glue_memoKeys =
    ["u := IndexURL(repoURL, arch)",
     "mode := indexVerificationMode(u, arch, keys, opts)",
     "um := u + \"#\" + mode",
     "key := fmt.Sprintf(\"%s@%s#%s\", u, etag, mode)",
     "i.onces.LoadOrStore(key)", "i.urlToEtag[um]",
     "prevKey := fmt.Sprintf(\"%s@%s#%s\", u, prev, mode)",
     "i.forget(prevKey)", "i.store(key)", "i.urlToEtag[um]", "i.load(key)",
     "i.modtimes[um]", "i.store(um)", "i.store(um)", "i.modtimes[um]", "i.load(um)"] ∧
    Generated.glue_memoParseArgs = ["ctx, u, keys, arch, b, opts", "ctx, u, keys, arch, b, opts"] ∧
    implKeying = .byMode := by
  refine ⟨by rfl, by rfl, rfl⟩

/-- the mode string (`modeOf`): a fixed word when `shouldCheckSignatureForIndex` says no; otherwise another
word followed by every key — name and content, each with its length in front, in name order: an injective
encoding of the key set (no digest, hence no collision assumption) -/
theorem tie_modeStmts : Generated.glue_modeStmts =
    ["if !shouldCheckSignatureForIndex(u, arch, opts) { return \"unverified\" }",
     "names := make([]string, 0, len(keys))",
     "for name := range keys { names = append(names, name) }",
     "slices.Sort(names)",
     "var mode strings.Builder",
     "mode.WriteString(\"verified\")",
     "for _, name := range names { fmt.Fprintf(&mode, \":%d:%s:%d:\", len(name), name, len(keys[name])) mode.Write(keys[name]) }",
     "return mode.String()"] := by
  rfl

/-! ## what a remembered / returned index must satisfy -/

/-- justification of an index relative to a memo mode -/
def JustMode (C : Crypto) (R : Codec) : Mode → Index → Prop
  | .off, idx => ∃ a, R.indexFromArchive a = some idx
  | .on keys, idx => ∃ a f, R.readFirst a = some f ∧ (∃ e ∈ f.entries, Spec.SignedBy C keys f.rest e) ∧
      ∃ i, R.indexFromArchive f.rest = some i ∧ idx.packages = i.packages ∧ idx.description = i.description

/-- the mode captures exactly what acceptability depends on besides the bytes -/
theorem justMode_iff (C : Crypto) (R : Codec) (keys : Keys) (o : Opts) (url arch : Text) (idx : Index) :
    JustMode C R (modeOf keys o url arch) idx ↔
      ∃ archive, Spec.Acceptable C R keys o url arch archive (.ok idx) := by
  unfold modeOf
  cases hc : checkOn o url arch with
  | false =>
    have hx := (C04.check_skipped_iff o url arch).mp hc
    simp only [Bool.false_eq_true, if_false, JustMode, Spec.Acceptable]
    constructor
    · rintro ⟨a, ha⟩; exact ⟨a, Or.inl ⟨hx, ha⟩⟩
    · rintro ⟨a, h | h⟩
      · exact ⟨a, h.2⟩
      · exact absurd hx h.1
  | true =>
    have hx : ¬ Spec.Exempt o url arch := fun h => by
      have := (C04.check_skipped_iff o url arch).mpr h
      rw [hc] at this; cases this
    simp only [if_true, JustMode, Spec.Acceptable]
    constructor
    · rintro ⟨a, f, hf, hs, hi⟩; exact ⟨a, Or.inr ⟨hx, f, hf, hs, hi⟩⟩
    · rintro ⟨a, h | h⟩
      · exact absurd h.1 hx
      · obtain ⟨_, f, hf, hs, hi⟩ := h; exact ⟨a, f, hf, hs, hi⟩

/-- what `parseRepositoryIndex` accepts is justified under the mode of the call (from `C04.impl_acceptable`) -/
theorem parse_justMode (C : Crypto) (R : Codec) (keys : Keys) (o : Opts) (url arch : Text) (b : Bytes) (idx : Index)
    (h : parseIndex C R keys o url arch b = .ok idx) : JustMode C R (modeOf keys o url arch) idx := by
  apply (justMode_iff C R keys o url arch idx).mpr
  have := C04.impl_acceptable C R keys o url arch b
  rw [h] at this
  exact ⟨b, this⟩

/-! ## invariants -/

/-- every remembered accepted index is justified under the mode it is remembered for -/
def MemoInv (C : Crypto) (R : Codec) (m : Memo) : Prop :=
  ∀ e ∈ m, ∀ idx, e.res = .ok idx → ∃ md, e.key.mode = some md ∧ JustMode C R md idx

def LogInv (C : Crypto) (R : Codec) (l : List Event) : Prop := ∀ e ∈ l, Justified C R e

def Inv (C : Crypto) (R : Codec) (st : State) : Prop := MemoInv C R st.memo ∧ LogInv C R st.log

theorem memoInv_nil (C : Crypto) (R : Codec) : MemoInv C R [] := by
  intro e he; cases he

theorem memo_find_just {C : Crypto} {R : Codec} {m : Memo} {k : MemoKey} {idx : Index}
    (hm : MemoInv C R m) (hf : m.find k = some (.ok idx)) : ∃ md, k.mode = some md ∧ JustMode C R md idx := by
  unfold Memo.find at hf
  split at hf
  · next e he =>
    have hmem := List.mem_of_find?_eq_some he
    have hk := List.find?_some he
    simp only [beq_iff_eq] at hk
    simp only [Option.some.injEq] at hf
    rw [← hk]
    exact hm e hmem idx hf
  · cases hf

theorem memo_put_inv {C : Crypto} {R : Codec} {m : Memo} {k : MemoKey} {r : Res}
    (hm : MemoInv C R m) (hr : ∀ idx, r = .ok idx → ∃ md, k.mode = some md ∧ JustMode C R md idx) :
    MemoInv C R (m.put k r) := by
  intro e he idx hres
  unfold Memo.put at he
  rcases List.mem_cons.mp he with rfl | he
  · exact hr idx hres
  · exact hm e (List.mem_filter.mp he).1 idx hres

theorem logInv_append {C : Crypto} {R : Codec} {l : List Event} {e : Event}
    (hl : LogInv C R l) (he : Justified C R e) : LogInv C R (l ++ [e]) := by
  intro x hx
  rcases List.mem_append.mp hx with h | h
  · exact hl x h
  · simp only [List.mem_singleton] at h; subst h; exact he

/-! ## one index read -/

/-- what `readIndex` appends to the log: exactly one event, carrying the owner's keys, the reader's
`ignoreSignatures`, the owner's exemptions, and the outcome that is returned -/
theorem readIndex_log (K : Keying) (C : Crypto) (R : Codec) (n : Net) (reader owner : Apk) (st : State) (repo : Text) :
    (readIndex K C R n reader owner st repo).2.log =
      st.log ++ [⟨indexURL repo owner.arch, owner.arch, owner.keys, readOpts reader owner,
                  (readIndex K C R n reader owner st repo).1⟩] := by
  unfold readIndex
  simp only
  split
  · rfl
  · rfl
  · split
    · rfl
    · split <;> rfl

/-- with the memo keyed by mode, a read keeps the invariants: what it returns as accepted — freshly parsed
or remembered — is justified under the keys and options of this read -/
theorem readIndex_inv (C : Crypto) (R : Codec) (n : Net) (reader owner : Apk) (st : State) (repo : Text)
    (h : Inv C R st) : Inv C R (readIndex .byMode C R n reader owner st repo).2 := by
  obtain ⟨hm, hl⟩ := h
  unfold readIndex
  simp only
  split
  · exact ⟨hm, logInv_append hl (by intro idx h; cases h)⟩
  · exact ⟨hm, logInv_append hl (by intro idx h; cases h)⟩
  · next tok _ =>
    split
    · next r hfind =>
      refine ⟨hm, logInv_append hl ?_⟩
      intro idx hout
      simp only [Outcome.res.injEq] at hout
      subst hout
      -- a memo hit: the key carries the mode of this very read
      cases tok with
      | none => simp at hfind
      | some t =>
        simp only [Option.map_some, Option.bind_some] at hfind
        obtain ⟨md, hmd, hj⟩ := memo_find_just hm hfind
        simp only [memoKey, Option.some.injEq] at hmd
        subst hmd
        exact (justMode_iff C R owner.keys (readOpts reader owner) _ owner.arch idx).mp hj
    · split
      · exact ⟨hm, logInv_append hl (by intro idx h; cases h)⟩
      · next b cd _ =>
        have hj : ∀ idx, parseIndex C R owner.keys (readOpts reader owner) (indexURL repo owner.arch) owner.arch b = .ok idx →
            JustMode C R (modeOf owner.keys (readOpts reader owner) (indexURL repo owner.arch) owner.arch) idx :=
          fun idx h => parse_justMode C R _ _ _ _ b idx h
        refine ⟨?_, logInv_append hl ?_⟩
        · cases tok with
          | none => exact hm
          | some t =>
            simp only [Option.map_some]
            exact memo_put_inv hm (fun idx h => ⟨_, rfl, hj idx h⟩)
        · intro idx hout
          simp only [Outcome.res.injEq] at hout
          exact (justMode_iff C R owner.keys (readOpts reader owner) _ owner.arch idx).mp (hj idx hout)

/-! ## the layers above a read only thread the state -/

theorem loadRepos_inv (C : Crypto) (R : Codec) (n : Net) (reader owner : Apk) (repos : List Text) (st : State)
    (h : Inv C R st) : Inv C R (loadRepos .byMode C R n reader owner st repos).2 := by
  induction repos generalizing st with
  | nil => exact h
  | cons r rs ih =>
    simp only [loadRepos]
    exact ih _ (readIndex_inv C R n reader owner st r h)

theorem loadSiblings_inv (C : Crypto) (R : Codec) (n : Net) (reader : Apk) (sibs : List Apk) (st : State)
    (h : Inv C R st) : Inv C R (loadSiblings .byMode C R n reader st sibs).2 := by
  induction sibs generalizing st with
  | nil => exact h
  | cons s ss ih =>
    simp only [loadSiblings]
    have h1 := loadRepos_inv C R n reader s s.repos st h
    split
    · next st1 heq => rw [heq] at h1; exact h1
    · next st1 heq => rw [heq] at h1; exact ih _ h1

theorem resolveLoad_inv (C : Crypto) (R : Codec) (n : Net) (st : State) (x : Resn)
    (h : Inv C R st) : Inv C R (resolveLoad .byMode C R n st x).2 := by
  unfold resolveLoad
  have h1 := loadRepos_inv C R n x.reader x.reader x.reader.repos st h
  split
  · next st1 heq => rw [heq] at h1; exact h1
  · next st1 heq => rw [heq] at h1; exact loadSiblings_inv C R n x.reader x.sibs _ h1

theorem runResns_inv (C : Crypto) (R : Codec) (n : Net) (stop : Bool) (xs : List Resn) (st : State)
    (h : Inv C R st) : Inv C R (runResns .byMode C R n stop st xs).2 := by
  induction xs generalizing st with
  | nil => exact h
  | cons x xs ih =>
    simp only [runResns]
    have h1 := resolveLoad_inv C R n st x h
    split
    · exact h1
    · exact ih _ h1

theorem runOps_inv (C : Crypto) (R : Codec) (n : Net) (ops : List Op) (st : State)
    (h : Inv C R st) : Inv C R (runOps .byMode C R n st ops).2 := by
  induction ops generalizing st with
  | nil => exact h
  | cons op ops ih =>
    simp only [runOps]
    exact ih _ (runResns_inv C R n op.stop op.resns st h)

theorem runRun_inv (C : Crypto) (R : Codec) (st : State) (r : Run)
    (h : Inv C R st) : Inv C R (runRun .byMode C R st r).2 := by
  unfold runRun
  apply runOps_inv
  split
  · exact ⟨memoInv_nil C R, h.2⟩
  · exact h

theorem runAll_inv (C : Crypto) (R : Codec) (runs : List Run) (st : State)
    (h : Inv C R st) : Inv C R (runAll .byMode C R st runs).2 := by
  induction runs generalizing st with
  | nil => exact h
  | cons r rs ih =>
    simp only [runAll]
    exact ih _ (runRun_inv C R st r h)

/-! ## the end-to-end theorem -/

/-- **every used index is verified, for all histories.**  Whatever the cache directory contains at the start
(`cd0`: files left by earlier runs — also failed ones — or by anybody else), whatever the repositories serve
during each run, online or offline, in one process or many, with any option sets: every index that any read
of the whole history returns as accepted is justified under the keys of the APK it belongs to and the options
of the resolution that read it — it is the reading, allowed by `Spec.Acceptable`, of some byte string that
carries a signature by one of those keys over exactly the parsed bytes, or that the read's own options exempt. -/
theorem glue_used_verified (C : Crypto) (R : Codec) (cd0 : CacheDir) (runs : List Run) :
    ∀ e ∈ (runAll .byMode C R ⟨[], cd0, []⟩ runs).2.log, Justified C R e :=
  (runAll_inv C R runs ⟨[], cd0, []⟩ ⟨memoInv_nil C R, by intro e he; cases he⟩).2

/-- the same, read for one accepted index: with verification on for that read, a configured key of the
index' own APK signs exactly the bytes it was parsed from -/
theorem glue_used_signed (C : Crypto) (R : Codec) (cd0 : CacheDir) (runs : List Run) (e : Event) (idx : Index)
    (he : e ∈ (runAll .byMode C R ⟨[], cd0, []⟩ runs).2.log) (hout : e.out = .res (.ok idx))
    (hon : checkOn e.opts e.url e.arch = true) :
    ∃ archive f, R.readFirst archive = some f ∧ (∃ s ∈ f.entries, Spec.SignedBy C e.keys f.rest s) ∧
      ∃ i, R.indexFromArchive f.rest = some i ∧ idx.packages = i.packages ∧ idx.description = i.description := by
  obtain ⟨a, ha⟩ := glue_used_verified C R cd0 runs e he idx hout
  have hx : ¬ Spec.Exempt e.opts e.url e.arch := fun h => by
    have := (C04.check_skipped_iff e.opts e.url e.arch).mpr h
    rw [hon] at this; cases this
  rcases ha with h | h
  · exact absurd h.1 hx
  · obtain ⟨_, f, hf, hs, hi⟩ := h; exact ⟨a, f, hf, hs, hi⟩

/-! ## a successful resolution has read — and got accepted — every index of its family -/

/-- the log holds a read of `repo` of `owner` on behalf of `reader`, under the owner's keys, the reader's
`ignoreSignatures` and the owner's exemptions, that was skipped (no such local file) or accepted -/
def ReadOK (reader owner : Apk) (repo : Text) (l : List Event) : Prop :=
  ∃ e ∈ l, e.url = indexURL repo owner.arch ∧ e.arch = owner.arch ∧ e.keys = owner.keys ∧
    e.opts = readOpts reader owner ∧ e.out.loaded = true

theorem ReadOK.mono {reader owner : Apk} {repo : Text} {l l' : List Event} (h : ReadOK reader owner repo l)
    (hsub : ∀ e ∈ l, e ∈ l') : ReadOK reader owner repo l' := by
  obtain ⟨e, he, rest⟩ := h
  exact ⟨e, hsub e he, rest⟩

theorem readIndex_mono (K : Keying) (C : Crypto) (R : Codec) (n : Net) (reader owner : Apk) (st : State) (repo : Text) :
    ∀ e ∈ st.log, e ∈ (readIndex K C R n reader owner st repo).2.log := by
  intro e he
  rw [readIndex_log]
  exact List.mem_append_left _ he

theorem loadRepos_mono (K : Keying) (C : Crypto) (R : Codec) (n : Net) (reader owner : Apk) (repos : List Text) (st : State) :
    ∀ e ∈ st.log, e ∈ (loadRepos K C R n reader owner st repos).2.log := by
  induction repos generalizing st with
  | nil => intro e he; exact he
  | cons r rs ih =>
    intro e he
    simp only [loadRepos]
    exact ih _ e (readIndex_mono K C R n reader owner st r e he)

theorem loadSiblings_mono (K : Keying) (C : Crypto) (R : Codec) (n : Net) (reader : Apk) (sibs : List Apk) (st : State) :
    ∀ e ∈ st.log, e ∈ (loadSiblings K C R n reader st sibs).2.log := by
  induction sibs generalizing st with
  | nil => intro e he; exact he
  | cons s ss ih =>
    intro e he
    simp only [loadSiblings]
    have h1 := loadRepos_mono K C R n reader s s.repos st e he
    split
    · next st1 heq => rw [heq] at h1; exact h1
    · next st1 heq => rw [heq] at h1; exact ih _ e h1

/-- `GetRepositoryIndexes` succeeds only if every repository was read and loaded -/
theorem loadRepos_ok (K : Keying) (C : Crypto) (R : Codec) (n : Net) (reader owner : Apk) (repos : List Text) (st : State)
    (hok : (loadRepos K C R n reader owner st repos).1 = true) :
    ∀ r ∈ repos, ReadOK reader owner r (loadRepos K C R n reader owner st repos).2.log := by
  induction repos generalizing st with
  | nil => intro r hr; cases hr
  | cons r0 rs ih =>
    intro r hr
    simp only [loadRepos, Bool.and_eq_true] at hok ⊢
    rcases List.mem_cons.mp hr with rfl | hr
    · refine ReadOK.mono ?_ (loadRepos_mono K C R n reader owner rs _)
      refine ⟨⟨indexURL r owner.arch, owner.arch, owner.keys, readOpts reader owner,
        (readIndex K C R n reader owner st r).1⟩, ?_, rfl, rfl, rfl, rfl, hok.1⟩
      rw [readIndex_log]
      exact List.mem_append_right _ (List.mem_singleton.mpr rfl)
    · exact ih _ hok.2 r hr

theorem loadSiblings_ok (K : Keying) (C : Crypto) (R : Codec) (n : Net) (reader : Apk) (sibs : List Apk) (st : State)
    (hok : (loadSiblings K C R n reader st sibs).1 = true) :
    ∀ s ∈ sibs, ∀ r ∈ s.repos, ReadOK reader s r (loadSiblings K C R n reader st sibs).2.log := by
  induction sibs generalizing st with
  | nil => intro s hs; cases hs
  | cons s0 ss ih =>
    intro s hs r hr
    simp only [loadSiblings] at hok ⊢
    have h1 := loadRepos_ok K C R n reader s0 s0.repos st
    split at hok
    · cases hok
    · next st1 heq =>
      rw [heq] at h1
      rcases List.mem_cons.mp hs with rfl | hs
      · exact ReadOK.mono (h1 rfl r hr) (loadSiblings_mono K C R n reader ss st1)
      · exact ih _ hok s hs r hr

/-- **(a)** `ResolveWorld` gets past index loading only if every index of the family — the reader's own
repositories and those of every `ByArch` sibling — was read under the *owner's* keys and exemptions and
the reader's `ignoreSignatures`, and was accepted (or is a local index file that does not exist).  Holds
for every state of memo and cache directory. -/
theorem resolve_ok_reads_family (K : Keying) (C : Crypto) (R : Codec) (n : Net) (st : State) (x : Resn)
    (hok : (resolveLoad K C R n st x).1 = true) :
    ∀ owner ∈ x.reader :: x.sibs, ∀ r ∈ owner.repos, ReadOK x.reader owner r (resolveLoad K C R n st x).2.log := by
  intro owner ho r hr
  unfold resolveLoad at hok ⊢
  have h1 := loadRepos_ok K C R n x.reader x.reader x.reader.repos st
  split at hok
  · cases hok
  · next st1 heq =>
    rw [heq] at h1
    rcases List.mem_cons.mp ho with rfl | ho
    · exact ReadOK.mono (h1 rfl r hr) (loadSiblings_mono K C R n x.reader x.sibs st1)
    · exact loadSiblings_ok K C R n x.reader x.sibs st1 hok owner ho r hr

/-- (a) together with the invariant: in any state reachable in any history (`Inv` holds there, see
`runAll_inv`), a resolution that gets past index loading has, for every index of its family, either no
such local file or an accepted index that is justified under the owner's keys and the reader's switch -/
theorem resolve_ok_family_verified (C : Crypto) (R : Codec) (n : Net) (st : State) (x : Resn) (h : Inv C R st)
    (hok : (resolveLoad .byMode C R n st x).1 = true) :
    ∀ owner ∈ x.reader :: x.sibs, ∀ r ∈ owner.repos,
      ∃ e ∈ (resolveLoad .byMode C R n st x).2.log, e.url = indexURL r owner.arch ∧ e.keys = owner.keys ∧
        e.opts = readOpts x.reader owner ∧
        (e.out = .skipped ∨ ∃ idx, e.out = .res (.ok idx) ∧
          ∃ archive, Spec.Acceptable C R owner.keys (readOpts x.reader owner) (indexURL r owner.arch) owner.arch archive (.ok idx)) := by
  intro owner ho r hr
  obtain ⟨e, he, hu, ha, hk, hop, hl⟩ := resolve_ok_reads_family .byMode C R n st x hok owner ho r hr
  refine ⟨e, he, hu, hk, hop, ?_⟩
  have hj := (resolveLoad_inv C R n st x h).2 e he
  cases hout : e.out with
  | skipped => exact Or.inl rfl
  | failed => rw [hout] at hl; cases hl
  | res rr =>
    cases rr with
    | rej q => rw [hout] at hl; cases hl
    | ok idx =>
      right
      obtain ⟨a, hacc⟩ := hj idx hout
      rw [hu, ha, hk, hop] at hacc
      exact ⟨idx, rfl, a, hacc⟩

/-! ## the memo before the repair of F04b: keyed by URL + token only -/

namespace Witness

def keys : Keys := [("k.rsa.pub".toList, ['K'])]
def repo : Text := "/r".toList
def arch : Text := "x86_64".toList
def apk (ign : Bool) : Apk := ⟨arch, [repo], keys, ign, []⟩
/-- one local index file `A` without any signature -/
def net : Net := ⟨false, false, fun _ => some (['1'], ['A']), fun _ => none⟩
def crypto : Crypto := ⟨id, id, fun _ _ _ _ => false⟩
def codec : Codec := ⟨fun _ => none, fun _ => some ⟨[['p']], [], []⟩⟩
/-- one process: a resolution with verification disabled, then one with verification on -/
def runs : List Run := [⟨true, net, [⟨false, [⟨apk true, []⟩]⟩, ⟨false, [⟨apk false, []⟩]⟩]⟩]

/-- a remote repository with an ETag serving the same unsigned archive -/
def rrepo : Text := "https://h/r".toList
def rapk : Apk := ⟨arch, [rrepo], keys, false, []⟩
def rnet (offline : Bool) : Net := ⟨offline, true, fun _ => none, fun _ => some (some ['e'], ['A'])⟩

end Witness

/-- the full statement for a given keying of the memo -/
def GlueVerified (K : Keying) : Prop :=
  ∀ (C : Crypto) (R : Codec) (cd0 : CacheDir) (runs : List Run),
    ∀ e ∈ (runAll K C R ⟨[], cd0, []⟩ runs).2.log, Justified C R e

theorem glue_verified_byMode : GlueVerified .byMode := glue_used_verified

/-- the end-to-end statement for the code as it is now (`tie_memoKeys`) -/
theorem glue_impl_verified : GlueVerified implKeying := glue_used_verified

/-- F04b: with the memo keyed by URL + ETag / path + mtime only, an index parsed without verification by one
caller is handed to a later caller of the same process that has verification on -/
theorem legacy_keying_not_verified : ¬ GlueVerified .legacy := by
  intro h
  have hlog : (runAll .legacy Witness.crypto Witness.codec ⟨[], [], []⟩ Witness.runs).2.log =
      [⟨indexURL Witness.repo Witness.arch, Witness.arch, Witness.keys, ⟨true, []⟩, .res (.ok ⟨[['p']], [], []⟩)⟩,
       ⟨indexURL Witness.repo Witness.arch, Witness.arch, Witness.keys, ⟨false, []⟩, .res (.ok ⟨[['p']], [], []⟩)⟩] := by
    decide
  have h2 := h Witness.crypto Witness.codec [] Witness.runs
    ⟨indexURL Witness.repo Witness.arch, Witness.arch, Witness.keys, ⟨false, []⟩, .res (.ok ⟨[['p']], [], []⟩)⟩
    (by rw [hlog]; simp)
  obtain ⟨a, ha⟩ := h2 _ rfl
  rcases ha with ⟨hx, _⟩ | ⟨_, f, hf, _⟩
  · rcases hx with hx | ⟨r, hr, _⟩
    · cases hx
    · cases hr
  · cases hf

/-- the same history with the memo keyed by mode: the second resolution is refused -/
theorem byMode_refuses_witness :
    (runAll .byMode Witness.crypto Witness.codec ⟨[], [], []⟩ Witness.runs).1 = [[true, false]] := by decide

/-! ## the cache directory holds unverified downloads; offline mode verifies what it serves -/

/-- a download is stored before anybody verifies it: an online run that *rejects* an index leaves it in the
cache directory ("the cache only holds indexes that were checked" is false) … -/
theorem rejected_download_is_cached :
    let r := runAll .byMode Witness.crypto Witness.codec ⟨[], [], []⟩
      [⟨true, Witness.rnet false, [⟨false, [⟨Witness.rapk, []⟩]⟩]⟩]
    r.1 = [[false]] ∧ r.2.cd.map (fun s => (s.etag, s.body)) = [(['e'], ['A'])] := by decide

/-- … and the offline run that follows is served that file — and refuses it, because it verifies -/
theorem offline_after_reject_refuses :
    (runAll .byMode Witness.crypto Witness.codec ⟨[], [], []⟩
      [⟨true, Witness.rnet false, [⟨false, [⟨Witness.rapk, []⟩]⟩]⟩,
       ⟨true, Witness.rnet true, [⟨false, [⟨Witness.rapk, []⟩]⟩]⟩]).1 = [[false], [false]] := by decide

/-- offline mode hands out nothing but stored files, and does not change the directory -/
theorem get_offline_stored (n : Net) (cd : CacheDir) (url : Text) (tok : Option Text) (b : Bytes) (cd' : CacheDir)
    (hoff : n.offline = true) (hr : isRemote url = true) (h : Glue.get n cd url tok = (some b, cd')) :
    cd' = cd ∧ ∃ s ∈ cd, s.url = url ∧ s.body = b := by
  unfold Glue.get at h
  simp only [hr, hoff, if_true, Prod.mk.injEq] at h
  obtain ⟨hb, hcd⟩ := h
  refine ⟨hcd.symm, ?_⟩
  cases hl : (cd.filter (fun s => s.url == url)).getLast? with
  | none => rw [hl] at hb; cases hb
  | some s =>
    rw [hl] at hb
    simp only [Option.map_some, Option.some.injEq] at hb
    have hm := List.mem_of_getLast? hl
    have := List.mem_filter.mp hm
    exact ⟨s, this.1, by simpa using this.2, hb⟩

/-- **(b)** an offline read of a remote index never goes through the memo: what it returns is what
`parseRepositoryIndex` says — under the keys and options of *this* read — about a file of the cache directory.
So an offline run accepts a stored index only if an online run with the same options, served those bytes, accepts
it; that an earlier run stored the file (and whether that run verified, rejected or ignored it) does not matter. -/
theorem offline_read_is_parse_of_stored (K : Keying) (C : Crypto) (R : Codec) (n : Net) (reader owner : Apk)
    (st : State) (repo : Text) (r : Res)
    (hoff : n.offline = true) (hr : isRemote (indexURL repo owner.arch) = true)
    (h : (readIndex K C R n reader owner st repo).1 = .res r) :
    ∃ s ∈ st.cd, s.url = indexURL repo owner.arch ∧
      r = parseIndex C R owner.keys (readOpts reader owner) (indexURL repo owner.arch) owner.arch s.body := by
  unfold readIndex at h
  simp only [probe, hr, hoff, if_true] at h
  cases hany : (st.cd.any fun s => s.url == indexURL repo owner.arch) with
  | false => simp [hany] at h
  | true =>
    simp only [hany, if_true, Option.map_none, Option.bind_none] at h
    cases hg : Glue.get n st.cd (indexURL repo owner.arch) none with
    | mk ob cd' =>
      rw [hg] at h
      cases ob with
      | none => simp at h
      | some b =>
        simp only [Outcome.res.injEq] at h
        obtain ⟨_, s, hs, hu, hb⟩ := get_offline_stored n st.cd _ none b cd' hoff hr hg
        exact ⟨s, hs, hu, by rw [hb]; exact h.symm⟩

/-! ## option plumbing of `build.New` -/

/-- without `--ignore-signatures` and without a base image, every index read of every resolution between
the APKs that `build.New` creates has verification on, with the configured keyring -/
theorem build_verification_on (o : BuildOpts) (a b url arch : Text)
    (hi : o.ignoreSignatures = false) (hb : o.baseIndex = none) :
    checkOn (readOpts (plumb o a) (plumb o b)) url arch = true ∧ (plumb o b).keys = o.keyring := by
  simp [readOpts, plumb, checkOn, hi, hb]

/-- with a base image the only exempted index is the base image's own -/
theorem build_exempts_only_base (o : BuildOpts) (a b r arch : Text) (p : Text)
    (hi : o.ignoreSignatures = false) (hb : o.baseIndex = some p)
    (h : checkOn (readOpts (plumb o a) (plumb o b)) (indexURL r arch) arch = false) : r = p := by
  have := C04.exempt_only_listed (readOpts (plumb o a) (plumb o b)) r arch (by simp [readOpts, plumb, hi]) h
  simpa [readOpts, plumb, hb] using this

/-- end to end for a plain build: every accepted index of any history whose reads come from APKs plumbed from
`o` (no `--ignore-signatures`, no base image) is signed by a key of the configured keyring over exactly the
bytes it was parsed from -/
theorem build_used_signed (C : Crypto) (R : Codec) (cd0 : CacheDir) (runs : List Run) (o : BuildOpts) (a b : Text)
    (hi : o.ignoreSignatures = false) (hb : o.baseIndex = none)
    (e : Event) (idx : Index) (he : e ∈ (runAll .byMode C R ⟨[], cd0, []⟩ runs).2.log)
    (hk : e.keys = (plumb o b).keys) (ho : e.opts = readOpts (plumb o a) (plumb o b)) (hout : e.out = .res (.ok idx)) :
    ∃ archive f, R.readFirst archive = some f ∧ (∃ s ∈ f.entries, Spec.SignedBy C o.keyring f.rest s) ∧
      ∃ i, R.indexFromArchive f.rest = some i ∧ idx.packages = i.packages ∧ idx.description = i.description := by
  obtain ⟨hon, hkeys⟩ := build_verification_on o a b e.url e.arch hi hb
  have := glue_used_signed C R cd0 runs e idx he hout (by rw [ho]; exact hon)
  rw [hk, hkeys] at this
  exact this

end Apko.C04Glue
