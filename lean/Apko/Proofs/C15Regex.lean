/-
C15 (regular expressions) — every use of a submatch index is below the number of groups of the
regenerated literal.

`regexp` promises: `FindStringSubmatch` returns nil or a slice with one entry per capturing group plus
one; `FindAllStringSubmatch` returns a list of such slices.  That is the only assumption
(`WellFormed`).  The number of groups is computed in Lean from the literal the extractor reads out of
the source (`countGroups`, compared with `regexp.NumSubexp` by the correspondence run), so a group
removed from an expression, an index raised, or a length check dropped breaks a theorem here.
-/
import Apko.Proofs.Lemmas.RobustAcc
import Apko.Proofs.C15Readers

namespace Apko.C15X
open Apko Apko.Formats Apko.Robust Apko.C15R

/-- what `regexp` promises about a submatch slice of the expression `lit` -/
def WellFormed (lit : String) (m : List Text) : Prop := m.length = submatchLen lit

/-! ## the regenerated literals: how many groups -/

theorem groups_versionRegex : submatchLen Generated.versionRegex = 14 := by decide
theorem groups_packageNameRegex : submatchLen Generated.packageNameRegex = 7 := by decide
theorem groups_repoRE : submatchLen Generated.re_repoRE = 2 := by decide
theorem groups_signatureFileRegex : submatchLen Generated.re_signatureFileRegex = 3 := by decide

/-- which call produces the indexed slice (so that the shape assumed here is the one the code gets) -/
theorem tie_reCalls :
    Generated.reCall_ParseVersion = ["parts := versionRegex.FindAllStringSubmatch"] ∧
    Generated.reCall_ResolvePin = ["parts := packageNameRegex.FindAllStringSubmatch"] ∧
    Generated.reCall_parseAlpineVersion = ["parts := repoRE.FindStringSubmatch"] ∧
    Generated.reCall_parseRepositoryIndex = ["matches := signatureFileRegex.FindStringSubmatch"] := by decide

/-- the counter on expressions with everything it has to skip: escapes, classes with `]` and `(` inside,
non-capturing and named groups -/
example : countGroups "a\\(b[(](?:c)(?P<n>d)(?i)[]()](e(f))".toList = 3 := by decide
example : countGroups "[[:alpha:](](x)[[:x](y)".toList = 2 := by decide

/-! ## ParseVersion -/

theorem tie_sites_ParseVersion : Generated.sites_ParseVersion =
    [("index", "parts", "0"), ("index", "actuals", "1"), ("index", "actuals", "2"), ("index", "actuals", "2"),
     ("index", "actuals", "4"), ("index", "actuals[4]", "0"), ("index", "actuals", "4"),
     ("index", "actuals", "6"), ("index", "actuals", "6"), ("index", "actuals", "7"), ("index", "actuals", "7"),
     ("index", "actuals", "6"), ("index", "actuals", "7"), ("index", "actuals", "9"), ("index", "actuals", "9"),
     ("index", "actuals", "10"), ("index", "actuals", "10"), ("index", "actuals", "9"),
     ("index", "actuals", "10"), ("index", "actuals", "13"), ("index", "actuals", "13"),
     ("index", "actuals", "13")] ∧
    Generated.loops_ParseVersion = [("range subparts", 1)] := by decide

theorem versionGuards :
    findLen Generated.lenGuards_ParseVersion "parts" = some ⟨.eq, 0, "return"⟩ ∧
    findLen Generated.lenGuards_ParseVersion "actuals" = some ⟨.ne, 14, "return"⟩ ∧
    findLen Generated.lenGuards_ParseVersion "actuals[4]" = some ⟨.gt, 0, "then"⟩ := by decide

/-- the highest literal index used on a variable, from the regenerated site list -/
def litIndex (t : Text) : Option Nat :=
  if t ≠ [] ∧ t.all isDigit = true then some (digitsToNat t) else none

def maxIndex (sites : List (String × String × String)) (x : String) : Nat :=
  (sites.filterMap fun s => if s.2.1 = x then litIndex s.2.2.toList else none).foldl max 0

set_option maxRecDepth 8000 in
/-- every literal index on `actuals` is below the slice length the expression guarantees -/
theorem version_indexes_in_range :
    maxIndex Generated.sites_ParseVersion "actuals" < submatchLen Generated.versionRegex := by decide

/-- the skeleton for any guards: `parts` non-empty past the first check, `actuals` at least 14 long past
the second, `actuals[4][0]` only when `actuals[4]` is non-empty -/
theorem parseVersionG_of_guards (gs : GuardList)
    (h0 : Admits (findLen gs "parts") 1) (h1 : Admits (findLen gs "actuals") 14)
    (h4 : ∀ len, enters (findLen gs "actuals[4]") len = true → 1 ≤ len)
    (all : List (List Text)) : parseVersionG gs all ≠ .oob := by
  unfold parseVersionG
  split
  · simp
  · next hp =>
    have hl0 := h0 _ (by simpa using hp)
    refine idx_bind_ne_oob (by omega) fun actuals => ?_
    split
    · simp
    · next hp1 =>
      have hl := h1 _ (by simpa using hp1)
      refine idx_bind_ne_oob (by omega) fun _ => ?_
      split
      · simp
      · refine idx_bind_ne_oob (by omega) fun _ => ?_
        split
        · simp
        · refine idx_bind_ne_oob (by omega) fun a4 => ?_
          refine bind_ne_oob ?_ fun _ => ?_
          · split
            · next he => exact idx_bind_ne_oob (h4 _ he) fun _ => by simp
            · simp
          · refine idx_bind_ne_oob (by omega) fun _ => ?_
            split
            · simp
            · refine idx_bind_ne_oob (by omega) fun _ => ?_
              split
              · simp
              · refine idx_bind_ne_oob (by omega) fun _ => ?_
                split
                · simp
                · refine idx_bind_ne_oob (by omega) fun _ => ?_
                  split
                  · simp
                  · refine idx_bind_ne_oob (by omega) fun _ => ?_
                    split <;> simp

theorem guard_eq_zero (how : String) (h : how ≠ "then") : Admits (some ⟨.eq, 0, how⟩) 1 := by
  intro len hp
  simp [passes, h, Op.holds] at hp
  omega

/-- T: `ParseVersion` never indexes out of range — for every submatch list, well-formed or not: its own
`len(actuals) != 14` check suffices -/
theorem parseVersionG_no_oob (all : List (List Text)) :
    parseVersionG Generated.lenGuards_ParseVersion all ≠ .oob := by
  obtain ⟨g0, g1, g4⟩ := versionGuards
  refine parseVersionG_of_guards _ ?_ ?_ ?_ all
  · rw [g0]; exact guard_eq_zero _ (by decide)
  · rw [g1]; exact guard_ne 14 _ (by decide)
  · rw [g4]; intro len he; simp [enters, Op.holds] at he; omega

/-- the check does not make the function reject every match: the length it demands IS the length the
expression produces (otherwise ParseVersion would refuse every version) -/
theorem version_guard_matches_expression (m : List Text) (h : WellFormed Generated.versionRegex m) :
    passes (findLen Generated.lenGuards_ParseVersion "actuals") m.length = true := by
  rw [versionGuards.2.1, h, groups_versionRegex]; decide

theorem parseVersionG_unguarded_oob : parseVersionG [] [["1", "1"].map String.toList] = .oob := by decide

/-! ## ResolvePackageNameVersionPin -/

theorem tie_sites_ResolvePin : Generated.sites_ResolvePin =
    [("index", "parts", "0"), ("index", "parts[0]", "1"), ("index", "parts", "0"), ("index", "parts[0]", "4"),
     ("index", "parts", "0"), ("index", "parts[0]", "6"), ("index", "parts", "0"), ("index", "parts[0]", "3"),
     ("index", "parts", "0")] ∧ Generated.loops_ResolvePin = [] := by decide

theorem pinGuards :
    findLen Generated.lenGuards_ResolvePin "parts" = some ⟨.eq, 0, "return"⟩ ∧
    findLen Generated.lenGuards_ResolvePin "parts[0]" = some ⟨.lt, 2, "return"⟩ := by decide

theorem pin_indexes_in_range :
    maxIndex Generated.sites_ResolvePin "parts[0]" < submatchLen Generated.packageNameRegex := by decide

/-- T: `ResolvePackageNameVersionPin` never indexes out of range on what `packageNameRegex` can return.
Here the function's own check (`len(parts[0]) < 2`) is NOT enough — indexes 3, 4 and 6 are in range
because the expression has six groups. -/
theorem resolvePinG_no_oob (all : List (List Text))
    (h : ∀ m ∈ all, WellFormed Generated.packageNameRegex m) :
    resolvePinG Generated.lenGuards_ResolvePin all ≠ .oob := by
  obtain ⟨g0, g1⟩ := pinGuards
  unfold resolvePinG
  rw [g0, g1]
  split
  · simp
  · next hp =>
    have hl0 : 1 ≤ all.length := guard_eq_zero "return" (by decide) _ (by simpa using hp)
    rw [idx_ok (show 0 < all.length by omega)]
    simp only [Res.bind]
    have hm := h all[0] (List.getElem_mem _)
    unfold WellFormed at hm
    rw [groups_packageNameRegex] at hm
    split
    · simp
    · exact idx_bind_ne_oob (by omega) fun _ => idx_bind_ne_oob (by omega) fun _ =>
        idx_bind_ne_oob (by omega) fun _ => idx_bind_ne_oob (by omega) fun _ => by simp

/-- the full statement without the assumption about `regexp` is false: the function's own check lets a
two-element slice through -/
theorem resolvePinG_needs_expression :
    resolvePinG Generated.lenGuards_ResolvePin [["a", "a"].map String.toList] = .oob := by decide

example : WellFormed Generated.packageNameRegex (["a=1@e", "a", "=1", "=", "1", "@e", "e"].map String.toList) := by
  unfold WellFormed; decide

/-! ## parseAlpineVersion, signature member names -/

theorem tie_sites_parseAlpineVersion : Generated.sites_parseAlpineVersion = [("index", "parts", "1")] := by rfl

theorem alpineGuard :
    findLen Generated.lenGuards_parseAlpineVersion "parts" = some ⟨.lt, 2, "return"⟩ := by decide

/-- T: `parseAlpineVersion` never indexes out of range, on any slice -/
theorem alpineVersionG_no_oob (m : List Text) :
    alpineVersionG Generated.lenGuards_parseAlpineVersion m ≠ .oob := by
  unfold alpineVersionG
  rw [alpineGuard]
  split
  · simp
  · next hp =>
    have := guard_lt 2 "return" (by decide) _ (by simpa using hp)
    exact idx_bind_ne_oob (by omega) fun _ => by simp

theorem alpineVersionG_unguarded_oob : alpineVersionG [] ([] : List Text) = .oob := by decide

theorem tie_sites_parseRepositoryIndex :
    Generated.sites_parseRepositoryIndex.filter (fun s => s.1 = "slice" || s.1 = "index") =
      [("index", "matches", "2"), ("index", "matches", "1"), ("slice", "b", "readBytes:")] ∧
    Generated.loops_parseRepositoryIndex = [("range keys", 1), ("forever", 5), ("range sigs", 2),
      ("shouldCheckSignatureForIndex: range opts.noSignatureIndexes", 1)] := by decide

theorem signatureGuard :
    findLen Generated.lenGuards_parseRepositoryIndex "matches" = some ⟨.ne, 3, "return"⟩ := by decide

/-- T: the signature-member name split of `parseRepositoryIndex` never indexes out of range -/
theorem signatureNameG_no_oob (m : List Text) :
    signatureNameG Generated.lenGuards_parseRepositoryIndex m ≠ .oob := by
  unfold signatureNameG
  rw [signatureGuard]
  split
  · simp
  · next hp =>
    have := guard_ne 3 "return" (by decide) _ (by simpa using hp)
    exact idx_bind_ne_oob (by omega) fun _ => idx_bind_ne_oob (by omega) fun _ => by simp

theorem signature_guard_matches_expression (m : List Text)
    (h : WellFormed Generated.re_signatureFileRegex m) :
    passes (findLen Generated.lenGuards_parseRepositoryIndex "matches") m.length = true := by
  rw [signatureGuard, h, groups_signatureFileRegex]; decide

theorem signatureNameG_unguarded_oob : signatureNameG [] ([] : List Text) = .oob := by decide

/-! ## CompareVersions / includesVersion: the index variable is bounded by the loop condition -/

theorem tie_sites_compare :
    Generated.sites_CompareVersions = [("index", "actual.numbers", "i"), ("index", "required.numbers", "i"),
      ("index", "actual.numbers", "i"), ("index", "required.numbers", "i")] ∧
    Generated.loops_CompareVersions = [("cond i < len(actual.numbers) && i < len(required.numbers)", 2)] ∧
    Generated.sites_includesVersion = [("index", "actual.numbers", "i"), ("index", "required.numbers", "i")] ∧
    Generated.loops_includesVersion = [("cond i < len(required.numbers)", 1)] ∧
    Generated.lenGuards_includesVersion = [] := by decide

/-- the loop of `CompareVersions` with checked accessors; fuel = the iterations left -/
def cmpLoop (a b : List Nat) : Nat → Nat → Res Ordering
  | 0, _ => .ok .eq
  | fuel + 1, i =>
    if i < a.length ∧ i < b.length then
      (idx a i).bind fun x => (idx b i).bind fun y =>
        if x > y then .ok .gt else if x < y then .ok .lt else cmpLoop a b fuel (i + 1)
    else .ok .eq

/-- T: `CompareVersions`' loop never indexes out of range: the condition bounds `i` by both lengths -/
theorem cmpLoop_no_oob (a b : List Nat) (fuel i : Nat) : cmpLoop a b fuel i ≠ .oob := by
  induction fuel generalizing i with
  | zero => simp [cmpLoop]
  | succ n ih =>
    simp only [cmpLoop]
    split
    · next h =>
      refine idx_bind_ne_oob h.1 fun _ => idx_bind_ne_oob h.2 fun _ => ?_
      split
      · simp
      · split
        · simp
        · exact ih _
    · simp

/-- the loop of `includesVersion`: the condition bounds `i` by `len(required.numbers)` only; the access to
`actual.numbers[i]` is in range because of the `len(actual.numbers) < len(required.numbers)` test before -/
def inclLoop (a r : List Nat) : Nat → Nat → Res Bool
  | 0, _ => .ok true
  | fuel + 1, i =>
    if i < r.length then
      (idx a i).bind fun x => (idx r i).bind fun y => if x ≠ y then .ok false else inclLoop a r fuel (i + 1)
    else .ok true

def includesG (a r : List Nat) : Res Bool :=
  if a.length < r.length then .ok false else inclLoop a r r.length 0

theorem inclLoop_no_oob (a r : List Nat) (h : r.length ≤ a.length) (fuel i : Nat) :
    inclLoop a r fuel i ≠ .oob := by
  induction fuel generalizing i with
  | zero => simp [inclLoop]
  | succ n ih =>
    simp only [inclLoop]
    split
    · next hi =>
      refine idx_bind_ne_oob (by omega) fun _ => idx_bind_ne_oob hi fun _ => ?_
      split
      · simp
      · exact ih _
    · simp

/-- T: `includesVersion` never indexes out of range -/
theorem includesG_no_oob (a r : List Nat) : includesG a r ≠ .oob := by
  unfold includesG
  split
  · simp
  · exact inclLoop_no_oob a r (by omega) _ _

/-- without the length test before the loop a shorter actual version panics -/
theorem inclLoop_unguarded_oob : inclLoop [1] [1, 2] 2 0 = .oob := by decide

theorem tie_includes_pretest : Generated.stmts_includesVersion.head? =
    some "if len(actual.numbers) < len(required.numbers) { return false }" := by decide

end Apko.C15X
