/-
Equality theorems for the two comparators that `groupByOriginAndSize` (pkg/build/layers.go) hands to
`slices.SortFunc`, translated to Lean on every run (`Apko/Generated/TransLayers.lean`, written by
extract/trans.go from the function literals): a group / package is "not after" another for the translated
comparator (`≤ 0`) exactly when the model's `gle` / `ple` says so — the orders the C10 theorems about the tail
of the grouping (`Lemmas/LayersFinish.lean`: `gle_total`, `ple_trans`, sortedness of the result) are about.
-/
import Apko.Generated.TransLayers
import Apko.Model.Layers

namespace Apko.TransLayers
open Apko Apko.Layers

-- T `trans_groupCmp`: descending size, then ascending tiebreaker
theorem trans_groupCmp (a b : Grp) : decide (Generated.Trans.groupCmp a b ≤ 0) = gle a b := by
  unfold Generated.Trans.groupCmp gle Trans.cmpOr Trans.cmpCompareNat Trans.cmpCompare
  rcases Nat.lt_trichotomy b.size a.size with h | h | h
  · have h2 : ¬ a.size < b.size := by omega
    simp [h, h2]
  · have h1 : ¬ b.size < a.size := by omega
    have h2 : ¬ a.size < b.size := by omega
    have h3 : (a.size == b.size) = true := by simp [h]
    simp only [h1, h2, ↓reduceIte, h3, decide_false, Bool.false_or, Bool.true_and]
    by_cases l1 : a.tb < b.tb
    · have : a.tb ≤ b.tb := List.le_of_lt l1
      simp [l1, this]
    · by_cases l2 : b.tb < a.tb
      · have : ¬ a.tb ≤ b.tb := List.not_le.mpr l2
        simp [l1, l2, this]
      · have : a.tb ≤ b.tb := List.not_lt.mp l2
        simp [l1, l2, this]
  · have h1 : ¬ b.size < a.size := by omega
    have h3 : (a.size == b.size) = false := by simp; omega
    simp [h, h1, h3]

-- T `trans_pkgCmp`: ascending name
theorem trans_pkgCmp (a b : LPkg) : decide (Generated.Trans.pkgCmp a b ≤ 0) = ple a b := by
  unfold Generated.Trans.pkgCmp ple Trans.cmpCompare
  by_cases l1 : a.name < b.name
  · have : a.name ≤ b.name := List.le_of_lt l1
    simp [l1, this]
  · by_cases l2 : b.name < a.name
    · have : ¬ a.name ≤ b.name := List.not_le.mpr l2
      simp [l1, l2, this]
    · have : a.name ≤ b.name := List.not_lt.mp l2
      simp [l1, l2, this]

example : Generated.Trans.groupCmp ⟨[], 5, "b".toList⟩ ⟨[], 9, "a".toList⟩ = 1 ∧
    Generated.Trans.groupCmp ⟨[], 5, "a".toList⟩ ⟨[], 5, "b".toList⟩ = -1 := by decide

end Apko.TransLayers
