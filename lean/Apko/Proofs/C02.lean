/-
C02 — A successful resolution is a closed, consistent install set.

Model: `Apko/Model/Resolver.lean` (mirrors repo.go / filterPackages as of the current tree, tied by
the correspondence suite `resolver` on every run and by body hashes).

What is proved here for ALL universes, worlds and states:
* `validB_iff`      the executable validator the driver runs on every Go output decides `Valid`;
* `filter_*`        soundness of the candidate filter (dq and version operator);
* `minFunc_mem`     the best candidate is one of the candidates;
* `resolve_names_unique`  a successful resolution holds at most one package per name;
* `resolve_ok_or_err`     the result is a set or an error, never a partial set flagged ok.

* `resolve_sound_partial`  a successful resolution that raised NO ghost flag is `Valid` (for every
                    universe with pairwise distinct ids, every world, every initial dq) — equivalently
                    `invalid_has_flag`: every invalid output of the model carries one of the five flags.
                    The ingredients (`Lemmas/Resolver*.lean`): `constrain_tightens`, `candidate_sat`,
                    `getDeps_mono` (dq / selected / flags only grow), `getDeps_closed` (the closure
                    invariant of the dependency walk), `go_sound`; `resolve_subset` needs no hypothesis.

The full soundness statement `ResolveSound` (resolve = ok s → Valid) is FALSE on the unchanged tree:
five concrete witnesses (`F02a_witness` … `F02e_witness`) are proved below, one per unsound shortcut of
the greedy algorithm; each is replayed on the Go code from corpus/resolver/.  The shortcuts are
tracked by ghost flags in the model; every invalid output observed on the real code is attributed to
a listed flag by the driver, and an invalid output with no flag is reported as a violation.
-/
import Apko.Model.Resolver
import Apko.Generated.Resolver
import Apko.Proofs.Lemmas.ResolverTop
import Apko.Proofs.Lemmas.ResolverDriver
import Apko.Proofs.Lemmas.ResolverFlags
import Apko.Proofs.Lemmas.ResolverFuel

namespace Apko.C02
open Apko Apko.Resolver

/-! ## the specification -/

/-- what the property demands of a successful resolution `s` of world `w` in universe `u` -/
def Valid (u : Universe) (w : List Text) (s : List Pkg) : Prop :=
  (∀ c ∈ w, isConflict c = false → ∃ p ∈ s, sat p c = true) ∧
  (∀ p ∈ s, ∀ d ∈ p.deps, isConflict d = false → ∃ q ∈ s, sat q d = true) ∧
  s.Pairwise (fun a b => a.name ≠ b.name) ∧
  (∀ p ∈ s, ∃ q ∈ u.all, q.id = p.id ∧ q.name = p.name ∧ q.version = p.version)

/-- the full statement (false today, see the witnesses) -/
def ResolveSound : Prop :=
  ∀ (c : Cfg) (w : List Text) (dq0 : List Nat) (r : Resolution),
    resolve c w dq0 = .ok r → Valid c.u w r.install

theorem dup_none_iff (s : List Pkg) :
    firstInvalid.dup s = none ↔ s.Pairwise (fun a b => a.name ≠ b.name) := by
  induction s with
  | nil => simp [firstInvalid.dup]
  | cons p ps ih =>
    simp only [firstInvalid.dup, List.pairwise_cons]
    split
    · next h =>
      simp only [List.any_eq_true, decide_eq_true_eq] at h
      obtain ⟨q, hq, hn⟩ := h
      simp only [reduceCtorEq, false_iff, not_and]
      intro hall
      exact absurd hn.symm (hall q hq)
    · next h =>
      simp only [List.any_eq_true, decide_eq_true_eq, not_exists, not_and] at h
      rw [ih]
      constructor
      · intro hp
        exact ⟨fun q hq hn => h q hq hn.symm, hp⟩
      · exact fun hp => hp.2

/-- T `validB_iff`: the validator executed on every Go output decides `Valid`. -/
theorem validB_iff (u : Universe) (w : List Text) (s : List Pkg) :
    validB u w s = true ↔ Valid u w s := by
  unfold validB Valid firstInvalid
  constructor
  · intro h
    split at h
    · simp at h
    · next hw =>
      split at h
      · simp at h
      · next hd =>
        split at h
        · simp at h
        · next hdup =>
          split at h
          · simp at h
          · next hf =>
            refine ⟨?_, ?_, ?_, ?_⟩
            · intro c hc hnc
              have := List.find?_eq_none.mp hw c hc
              simp only [hnc, Bool.not_false, Bool.true_and, Bool.not_eq_true', Bool.not_eq_false,
                List.any_eq_true] at this
              exact this
            · intro p hp d hd' hnc
              have h1 := List.findSome?_eq_none_iff.mp hd p hp
              simp only [Option.map_eq_none_iff] at h1
              have := List.find?_eq_none.mp h1 d hd'
              simp only [hnc, Bool.not_false, Bool.true_and, Bool.not_eq_true', Bool.not_eq_false,
                List.any_eq_true] at this
              exact this
            · exact (dup_none_iff s).mp hdup
            · intro p hp
              have := List.find?_eq_none.mp hf p hp
              simp only [Bool.not_eq_true', Bool.not_eq_false, List.any_eq_true, Bool.and_eq_true,
                decide_eq_true_eq] at this
              obtain ⟨q, hq, h1⟩ := this
              exact ⟨q, hq, h1.1.1, h1.1.2, h1.2⟩
  · intro ⟨h1, h2, h3, h4⟩
    have hw : (w.find? fun w' => !isConflict w' && !s.any fun p => sat p w') = none := by
      rw [List.find?_eq_none]
      intro c hc
      cases hnc : isConflict c
      · obtain ⟨p, hp, hs⟩ := h1 c hc hnc
        have : (s.any fun p => sat p c) = true := List.any_eq_true.mpr ⟨p, hp, hs⟩
        simp [this]
      · simp
    have hd : (s.findSome? fun p =>
        (p.deps.find? fun d => !isConflict d && !s.any fun q => sat q d).map fun d => (p, d)) = none := by
      rw [List.findSome?_eq_none_iff]
      intro p hp
      simp only [Option.map_eq_none_iff]
      rw [List.find?_eq_none]
      intro d hd'
      cases hnc : isConflict d
      · obtain ⟨q, hq, hs⟩ := h2 p hp d hd' hnc
        have : (s.any fun q => sat q d) = true := List.any_eq_true.mpr ⟨q, hq, hs⟩
        simp [this]
      · simp
    have hdup := (dup_none_iff s).mpr h3
    have hf : (s.find? fun p => !u.all.any fun q => q.id = p.id && q.name = p.name && q.version = p.version) = none := by
      rw [List.find?_eq_none]
      intro p hp
      obtain ⟨q, hq, e1, e2, e3⟩ := h4 p hp
      have : (u.all.any fun q => q.id = p.id && q.name = p.name && q.version = p.version) = true :=
        List.any_eq_true.mpr ⟨q, hq, by simp [e1, e2, e3]⟩
      simp [this]
    simp [hw, hd, hdup, hf]

/-- non-vacuity: a concrete valid resolution (two packages, a versioned dependency through a provide) -/
def exA : Pkg := { (default : Pkg) with id := 0, name := "a".toList, version := "1.0-r0".toList, deps := ["virt>=1".toList] }
def exB : Pkg := { (default : Pkg) with id := 1, name := "b".toList, version := "2.0-r0".toList, provides := ["virt=1.5".toList] }
example : validB [⟨[], [], [exA, exB]⟩] ["a".toList] [exB, exA] = true := by decide

/-! ## the candidate filter -/

/-- T `filter_excludes_dq` (used by C14): nothing disqualified is ever a candidate -/
theorem filter_excludes_dq {cands : List Pkg} {dq : List Nat} {version : Text} {dep : Dep}
    {allowPin preferPin : Text} {installed : Option Pkg} {p : Pkg}
    (h : p ∈ filterPackages cands dq version dep allowPin preferPin installed) :
    dq.contains p.id = false ∧ p ∈ cands := by
  unfold filterPackages at h
  simp only at h
  split at h
  · simp only [List.mem_filter, Bool.and_eq_true, Bool.not_eq_true'] at h
    exact ⟨h.2.1, h.1⟩
  · split at h
    · simp at h
    · simp only [List.mem_filter, Bool.and_eq_true, Bool.not_eq_true'] at h
      exact ⟨h.1.2.1, h.1.1⟩

/-- T `filter_sound`: with a version operator, a candidate's own version or one of its versioned
provides satisfies the operator (the code's *loose* test: the provide's name is not compared —
`constrain`, which runs before every filter, is what ties the provide to the requested name). -/
theorem filter_sound {cands : List Pkg} {dq : List Nat} {version : Text} {dep : Dep}
    {allowPin preferPin : Text} {installed : Option Pkg} {p : Pkg} (hd : dep ≠ .any)
    (h : p ∈ filterPackages cands dq version dep allowPin preferPin installed) :
    ∃ req act, pv version = some req ∧ pv p.version = some act ∧
      (dep.satisfies act req = true ∨
       ∃ prov ∈ p.provides, ∃ a, (parseConstraint prov).version ≠ [] ∧
         pv (parseConstraint prov).version = some a ∧ dep.satisfies a req = true) := by
  unfold filterPackages at h
  simp only [hd, if_false] at h
  split at h
  · simp at h
  · next req hreq =>
    simp only [List.mem_filter] at h
    obtain ⟨_, h2⟩ := h
    split at h2
    · simp at h2
    · next act hact =>
      refine ⟨req, act, hreq, hact, ?_⟩
      simp only [Bool.or_eq_true, List.any_eq_true] at h2
      rcases h2 with h2 | ⟨prov, hprov, h3⟩
      · exact Or.inl h2
      · right
        refine ⟨prov, hprov, ?_⟩
        split at h3
        · simp at h3
        · next hne =>
          split at h3
          · simp at h3
          · next a ha =>
            exact ⟨a, by simpa [List.isEmpty_iff] using hne, ha, h3⟩

/-- the filter is `List.filter` by a test that does not mention the offered list -/
theorem filter_is_filter (dq : List Nat) (version : Text) (dep : Dep) (allowPin preferPin : Text)
    (installed : Option Pkg) :
    ∃ f : Pkg → Bool, ∀ cands : List Pkg,
      filterPackages cands dq version dep allowPin preferPin installed = cands.filter f := by
  unfold filterPackages
  simp only
  by_cases hd : dep = .any
  · simp only [hd, if_true]
    exact ⟨_, fun _ => rfl⟩
  · simp only [hd, if_false]
    cases pv version with
    | none => exact ⟨fun _ => false, fun c => by simp⟩
    | some req =>
      simp only [List.filter_filter]
      exact ⟨_, fun _ => rfl⟩

/-- T `filter_local`: the verdict on a candidate depends on that candidate alone — never on which other
candidates are offered, nor on their order; the filter is the order-preserving restriction to the
candidates accepted one at a time (a memo across candidates keyed by less than the whole candidate breaks
exactly this; the `r.one` steps of corr:resolver check Go's `ResolvePackage` against `acceptsOne`) -/
theorem filter_local (cands : List Pkg) (dq : List Nat) (version : Text) (dep : Dep)
    (allowPin preferPin : Text) (installed : Option Pkg) :
    filterPackages cands dq version dep allowPin preferPin installed =
      cands.filter (acceptsOne dq version dep allowPin preferPin installed) := by
  obtain ⟨f, hf⟩ := filter_is_filter dq version dep allowPin preferPin installed
  rw [hf]
  apply List.filter_congr
  intro p _
  unfold acceptsOne
  rw [hf]
  cases h : f p <;> simp [List.filter_cons, h]

/-- corollary: permuting the offered candidates permutes the accepted ones -/
theorem filter_perm {l₁ l₂ : List Pkg} (h : l₁.Perm l₂) (dq : List Nat) (version : Text) (dep : Dep)
    (allowPin preferPin : Text) (installed : Option Pkg) :
    (filterPackages l₁ dq version dep allowPin preferPin installed).Perm
      (filterPackages l₂ dq version dep allowPin preferPin installed) := by
  rw [filter_local, filter_local]; exact h.filter _

/-! ## best candidate -/

/-- tie: `bestPackage` is `slices.MinFunc` (first minimum), which `minFunc` models -/
theorem tie_bestPackageReturn : Generated.bestPackageReturn =
    "return slices.MinFunc(pkgs, p.comparePackages(compare, name, existing, existingOrigins, pin))" := by
  decide


theorem foldl_min_mem (cmp : Pkg → Pkg → Ordering) (xs : List Pkg) (x : Pkg) :
    xs.foldl (fun m y => if cmp y m = .lt then y else m) x ∈ x :: xs := by
  induction xs generalizing x with
  | nil => simp
  | cons y ys ih =>
    simp only [List.foldl_cons]
    have := ih (if cmp y x = .lt then y else x)
    by_cases hc : cmp y x = .lt
    · simp only [hc, if_true] at this ⊢
      exact List.mem_cons_of_mem _ this
    · simp only [hc, if_false] at this ⊢
      rcases List.mem_cons.mp this with h | h
      · rw [h]; exact List.mem_cons_self ..
      · exact List.mem_cons_of_mem _ (List.mem_cons_of_mem _ h)

/-- T `minFunc_mem`: `slices.MinFunc` returns one of the candidates -/
theorem minFunc_mem {cmp : Pkg → Pkg → Ordering} {l : List Pkg} {b : Pkg}
    (h : minFunc cmp l = some b) : b ∈ l := by
  cases l with
  | nil => simp [minFunc] at h
  | cons x xs =>
    simp only [minFunc, Option.some.injEq] at h
    rw [← h]; exact foldl_min_mem cmp xs x

/-- the best candidate is never disqualified: `resolvePackage` only returns filter survivors -/
theorem resolvePackage_not_dq {c : Cfg} {n : Text} {dq : List Nat} {p : Pkg}
    (h : resolvePackage c n dq = some p) : dq.contains p.id = false := by
  unfold resolvePackage candidates at h
  simp only at h
  split at h
  · simp at h
  · next l hl =>
    split at hl
    · simp at hl
    · split at hl
      · simp at hl
      · simp only [Option.some.injEq] at hl
        have := minFunc_mem h
        rw [← hl] at this
        exact (filter_excludes_dq this).1

/-! ## one package per name -/

def NamesDistinct (s : List Pkg) : Prop := s.Pairwise (fun a b => a.name ≠ b.name)

theorem append_if_absent_distinct (inst : List Pkg) (h : NamesDistinct inst) (add : List Pkg) :
    NamesDistinct (add.foldl (fun acc p => if acc.any (·.name = p.name) then acc else acc ++ [p]) inst) := by
  induction add generalizing inst with
  | nil => simpa
  | cons p ps ih =>
    simp only [List.foldl_cons]
    apply ih
    split
    · exact h
    · next hn =>
      simp only [List.any_eq_true, decide_eq_true_eq, not_exists, not_and] at hn
      unfold NamesDistinct
      rw [List.pairwise_append]
      exact ⟨h, by simp, fun a ha b hb => by
        simp only [List.mem_singleton] at hb; subst hb; exact hn a ha⟩

theorem go_names_distinct (c : Cfg) (ws : List Text) (depMap : List (Text × Pkg)) (st : St)
    (inst : List Pkg) (confs : List Text) (r : Resolution) (hi : NamesDistinct inst)
    (h : resolve.go c ws depMap st inst confs = .ok r) : NamesDistinct r.install := by
  induction ws generalizing depMap st inst confs with
  | nil =>
    simp only [resolve.go, Res.ok.injEq] at h
    rw [← h]; exact hi
  | cons w ws ih =>
    simp only [resolve.go] at h
    split at h
    · simp at h
    · simp at h
    · exact ih _ _ _ _ (append_if_absent_distinct inst hi _) h

/-- T `resolve_names_unique`: a successful resolution holds at most one package per name -/
theorem resolve_names_unique (c : Cfg) (w : List Text) (dq0 : List Nat) (r : Resolution)
    (h : resolve c w dq0 = .ok r) : r.install.Pairwise (fun a b => a.name ≠ b.name) := by
  unfold resolve at h
  split at h
  · simp at h
  · split at h
    · simp at h
    · simp at h
    · exact go_names_distinct c _ _ _ _ _ r (by simp [NamesDistinct]) h

/-- T `resolve_ok_or_err`: the result is a complete answer or an error (the Go code returns the
partial `toInstall` together with a non-nil error in one branch; callers test the error first) -/
theorem resolve_ok_or_err (c : Cfg) (w : List Text) (dq0 : List Nat) :
    (∃ r, resolve c w dq0 = .ok r) ∨ resolve c w dq0 = .err ∨ resolve c w dq0 = .outOfFuel := by
  cases resolve c w dq0 <;> simp

/-! ## witnesses: the full soundness statement is false on the unchanged tree

Each universe below is replayed on the Go code from `corpus/resolver/F02*.json`. -/

def mk (id : Nat) (n v : String) (d p i : List String) : Pkg :=
  { id := id, name := n.toList, version := v.toList, origin := [], repo := "r".toList, pin := [],
    priority := 0, deps := d.map String.toList, provides := p.map String.toList,
    installIf := i.map String.toList }

def cfgOf (ps : List Pkg) : Cfg :=
  let u : Universe := [⟨[], "r".toList, ps⟩]
  { u := u, order := ownNames u, bothBad := .eq, installIfFixed := true, addedOrder := id }

/-- the model resolves `w` successfully, the set is invalid, and ghost flag `flag` fired -/
def invalidOk (ps : List Pkg) (w : List String) (flag : String) : Bool :=
  match resolve (cfgOf ps) (w.map String.toList) [] with
  | .ok r => !validB (cfgOf ps).u (w.map String.toList) r.install && r.flags.contains flag
  | _ => false

/-- F02a: world `[a, b]`, `a → c`, `b → c<2`, `c ∈ {3, 1}` gives `{c-3, a, b}` -/
def uA := [mk 0 "a" "1" ["c"] [] [], mk 1 "b" "1" ["c<2"] [] [], mk 2 "c" "3" [] [] [], mk 3 "c" "1" [] [] []]
/-- F02b: `xa` (install_if `a`, depends `needed`) is appended, `needed` is not -/
def uB := [mk 0 "top" "1" ["a"] [] [], mk 1 "a" "1" [] [] [], mk 2 "xa" "1" ["needed"] [] ["a"], mk 3 "needed" "1" [] [] []]
/-- F02c: `top` provides `virt=1` and depends on `virt>2` -/
def uC := [mk 0 "top" "1" ["virt>2"] ["virt=1"] []]
/-- F02d: `a` (selected, provides `virt=2`) is accepted for `g`'s dependency `virt<2` because the
provide's own operator `=` is applied to (provided, required) -/
def uD := [mk 0 "a" "1" ["g"] ["virt=2"] [], mk 1 "g" "1" ["virt<2"] [] [], mk 2 "c" "1" [] ["virt=1"] []]
/-- F02e: `d-2 → g → virt`, provided by `d-1 → e`: the by-name cycle guard skips `d-1`'s dependencies -/
def uE := [mk 0 "d" "2" ["g"] [] [], mk 1 "g" "1" ["virt"] [] [], mk 2 "d" "1" ["e"] ["virt=1"] [], mk 3 "e" "1" [] [] []]

set_option maxRecDepth 100000 in
theorem F02a_witness : invalidOk uA ["a", "b"] "F02a" = true := by decide
set_option maxRecDepth 100000 in
theorem F02b_witness : invalidOk uB ["top"] "F02b" = true := by decide
set_option maxRecDepth 100000 in
theorem F02c_witness : invalidOk uC ["top"] "F02c" = true := by decide
set_option maxRecDepth 100000 in
theorem F02d_witness : invalidOk uD ["a"] "F02d" = true := by decide
set_option maxRecDepth 100000 in
theorem F02e_witness : invalidOk uE ["d"] "F02e" = true := by decide

/-- the negation of the full statement, from the first witness -/
theorem not_ResolveSound : ¬ ResolveSound := by
  intro h
  have hw := F02a_witness
  unfold invalidOk at hw
  split at hw
  · next r hr =>
    have hv := (validB_iff _ _ _).mpr (h _ _ _ r hr)
    simp only [Bool.and_eq_true, Bool.not_eq_true'] at hw
    rw [hw.1] at hv
    exact absurd hv (by simp)
  · simp at hw

/-! ## soundness of every resolution that raised no ghost flag

The five ghost flags are the ONLY ways the greedy resolver produces an invalid set: this is proved for
all universes with distinct ids, all worlds, all initial disqualification sets, all provider orders
(`c.order` is unconstrained), both install_if loops and both `bothBad` settings.  Proof structure, in
`Apko/Proofs/Lemmas/Resolver{Basic,State,Loop,Mono,Closed,Top}.lean`. -/

/-- well-formedness the proof needs: package ids are pairwise distinct (`id` models Go's pointer identity,
so this holds of every universe the harness builds); nothing is assumed of `order`, `installIfFixed`,
`addedOrder`, `bothBad`. -/
def UniverseWF (c : Cfg) : Prop := IdsDistinct c.u

instance (c : Cfg) : Decidable (UniverseWF c) := by unfold UniverseWF; infer_instance

/-- T `resolve_subset`: every member of a successful resolution is a package of the universe
(no hypothesis; holds with or without flags, install_if additions included) -/
theorem resolve_subset (c : Cfg) (w : List Text) (dq0 : List Nat) (r : Resolution)
    (h : resolve c w dq0 = .ok r) : ∀ p ∈ r.install, p ∈ c.u.all := by
  unfold resolve at h
  split at h
  · simp at h
  · split at h
    · simp at h
    · simp at h
    · exact go_subset c _ _ _ _ _ r h (by simp)

/-- T `dq_monotone`: the dependency walk never removes a disqualification -/
theorem dq_monotone (c : Cfg) (fuel : Nat) (pkg : Pkg) (allowPin : Text) (parents : List (Text × Nat))
    (ds : DepSt) (out : DepOut) (h : getDeps c fuel pkg allowPin parents ds = .ok out) :
    ds.st.dq ⊆ out.ds.st.dq :=
  (getDeps_mono c allowPin fuel pkg parents ds out h).dq

/-- T `flags_monotone`: the dependency walk never clears a ghost flag -/
theorem flags_monotone (c : Cfg) (fuel : Nat) (pkg : Pkg) (allowPin : Text) (parents : List (Text × Nat))
    (ds : DepSt) (out : DepOut) (h : getDeps c fuel pkg allowPin parents ds = .ok out) :
    ∀ f ∈ ds.st.flags, f ∈ out.ds.st.flags :=
  (getDeps_mono c allowPin fuel pkg parents ds out h).flags_sub

/-- T `deps_closed`: a flag-free walk from a root (no ancestors) leaves every non-conflict dependency of the
root and of every emitted package satisfied inside any set `S` that holds the root, the emitted packages
and the packages recorded in `selected` -/
theorem deps_closed (c : Cfg) (hu : UniverseWF c) (S : List Pkg) (fuel : Nat) (pkg : Pkg) (allowPin : Text)
    (ds : DepSt) (out : DepOut) (h : getDeps c fuel pkg allowPin [] ds = .ok out)
    (hpu : pkg ∈ c.u.all) (hpS : pkg ∈ S) (hdS : ∀ x ∈ out.deps, x ∈ S)
    (hsel : ∀ e ∈ out.ds.st.selected, e.2 ∈ S) (hkey : ∀ e ∈ ds.st.selected, KeyOK e)
    (hfl : out.ds.st.flags = []) :
    ∀ p, (p = pkg ∨ p ∈ out.deps) → ∀ d ∈ p.deps, isConflict d = false → ∃ q ∈ S, sat q d = true := by
  intro p hp
  rcases getDeps_closed c hu S allowPin fuel pkg [] ds out h hpu hpS hdS hsel hkey hfl p hp with
    ⟨a, ha, _⟩ | h1
  · simp at ha
  · exact h1

/-- the three semantic clauses at once -/
theorem resolve_flagless (c : Cfg) (w : List Text) (dq0 : List Nat) (r : Resolution) (hu : UniverseWF c)
    (h : resolve c w dq0 = .ok r) (hf : r.flags = []) :
    (∀ e ∈ w, isConflict e = false → ∃ p ∈ r.install, sat p e = true) ∧
    (∀ p ∈ r.install, DepsSat r.install p) := by
  unfold resolve at h
  split at h
  · simp at h
  · next dq1 hdq1 =>
    split at h
    · simp at h
    · simp at h
    · next depMap dq2 hwl =>
      have hsub : dq1 ⊆ dq2 := worldLoop_infl c _ _ _ _ _ hwl
      have := go_sound c hu w depMap ⟨dq2, [], []⟩ [] [] r h hf (by simp) (by simp) (by simp)
        (fun e he hnc => (constrain_tightens c w dq0 dq1 hdq1 e he hnc).mono hsub)
      refine ⟨this.2.1, fun p hp => ?_⟩
      rcases this.2.2 p hp with h1 | h1
      · simp at h1
      · exact h1

/-- T `resolve_world_satisfied_partial`: with no ghost flag, every non-conflict world entry is satisfied -/
theorem resolve_world_satisfied_partial (c : Cfg) (w : List Text) (dq0 : List Nat) (r : Resolution)
    (hu : UniverseWF c) (h : resolve c w dq0 = .ok r) (hf : r.flags = []) :
    ∀ e ∈ w, isConflict e = false → ∃ p ∈ r.install, sat p e = true :=
  (resolve_flagless c w dq0 r hu h hf).1

/-- T `resolve_closed_partial`: with no ghost flag, the install set is closed under dependencies -/
theorem resolve_closed_partial (c : Cfg) (w : List Text) (dq0 : List Nat) (r : Resolution)
    (hu : UniverseWF c) (h : resolve c w dq0 = .ok r) (hf : r.flags = []) :
    ∀ p ∈ r.install, ∀ d ∈ p.deps, isConflict d = false → ∃ q ∈ r.install, sat q d = true :=
  (resolve_flagless c w dq0 r hu h hf).2

/-- T `resolve_sound_partial`: a successful resolution that raised no ghost flag is a closed, consistent
install set.  Together with the witnesses above: the five flagged shortcuts are exactly where the
resolver can go wrong. -/
theorem resolve_sound_partial (c : Cfg) (w : List Text) (dq0 : List Nat) (r : Resolution)
    (hu : UniverseWF c) : resolve c w dq0 = .ok r → r.flags = [] → Valid c.u w r.install := by
  intro h hf
  refine ⟨resolve_world_satisfied_partial c w dq0 r hu h hf, resolve_closed_partial c w dq0 r hu h hf,
    resolve_names_unique c w dq0 r h, ?_⟩
  intro p hp
  exact ⟨p, resolve_subset c w dq0 r h p hp, rfl, rfl, rfl⟩

/-- T `invalid_has_flag`: what the driver observes on every run, as a theorem — an invalid output of the
model always carries a ghost flag -/
theorem invalid_has_flag (c : Cfg) (w : List Text) (dq0 : List Nat) (r : Resolution) (hu : UniverseWF c)
    (h : resolve c w dq0 = .ok r) (hinv : validB c.u w r.install = false) : r.flags ≠ [] := by
  intro hf
  have := (validB_iff _ _ _).mpr (resolve_sound_partial c w dq0 r hu h hf)
  rw [hinv] at this
  exact absurd this (by simp)

/-- the hypotheses are satisfiable by non-trivial values: all five witness universes are well-formed … -/
example : UniverseWF (cfgOf uA) ∧ UniverseWF (cfgOf uB) ∧ UniverseWF (cfgOf uC) ∧ UniverseWF (cfgOf uD) ∧
    UniverseWF (cfgOf uE) := by decide

/-- … and a flag-free successful resolution exists (two packages, a versioned dependency through a provide) -/
def flagFreeOk (ps : List Pkg) (w : List String) (n : Nat) : Bool :=
  match resolve (cfgOf ps) (w.map String.toList) [] with
  | .ok r => r.flags.isEmpty && r.install.length == n
  | _ => false

set_option maxRecDepth 100000 in
example : UniverseWF (cfgOf [exA, exB]) ∧ flagFreeOk [exA, exB] ["a"] 2 = true := by decide

/-! ## what this means for the driver's verdicts

The correspondence suite sends (universe, world, Go's answer) to the driver, which runs the model on a
universe parsed by `readArchs` and classifies an invalid answer by `classOf` of the model's flags. -/

/-- T `driver_universe_wf`: `UniverseWF` holds of every universe the driver resolves in -/
theorem driver_cfg_wf {n : Nat} {rest rest' : List String} {archs : List (Text × Universe)}
    {self : Text} {u : Universe} (h : Driver.Resolver.readArchs n rest = some (archs, rest'))
    (hl : lookupT archs self = some u) : UniverseWF (Driver.Resolver.cfgOf u) :=
  driver_universe_wf h hl

/-- T `driver_invalid_listed`: whenever the model's own successful answer on a driver universe is invalid,
the class the driver reports is one of the five listed findings, never `unlisted` — so an `unlisted`
verdict of the suite can only mean that the Go code and the model disagree. -/
theorem driver_invalid_listed {n : Nat} {rest rest' : List String} {archs : List (Text × Universe)}
    {self : Text} {u : Universe} (h : Driver.Resolver.readArchs n rest = some (archs, rest'))
    (hl : lookupT archs self = some u) (w : List Text) (dq0 : List Nat) (r : Resolution)
    (hr : resolve (Driver.Resolver.cfgOf u) w dq0 = .ok r)
    (hinv : validB u w r.install = false) : Driver.Resolver.classOf r.flags ≠ "unlisted" :=
  classOf_listed (invalid_has_flag _ w dq0 r (driver_cfg_wf h hl) hr hinv)
    (resolve_flags_known _ w dq0 r hr)

/-! ## the hypotheses of `resolve_sound_partial` cannot be dropped -/

/-- the model resolves `w` successfully, the set is invalid, and the ghost flags are exactly `flags` -/
def invalidWith (ps : List Pkg) (w : List String) (flags : List String) : Bool :=
  match resolve (cfgOf ps) (w.map String.toList) [] with
  | .ok r => !validB (cfgOf ps).u (w.map String.toList) r.install && r.flags == flags
  | _ => false

/-- each of F02a–F02d ALONE makes a resolution invalid (no other flag fires in these runs), so none of them
can be removed from the hypothesis `r.flags = []`.  (F02e never fires alone on a successful run: the
skipped package and its namesake ancestor are both emitted, which raises F02a as well — `F02e_with_a`.) -/
theorem F02a_alone : invalidWith uA ["a", "b"] ["F02a"] = true := by
  set_option maxRecDepth 100000 in decide
theorem F02b_alone : invalidWith uB ["top"] ["F02b"] = true := by
  set_option maxRecDepth 100000 in decide
theorem F02c_alone : invalidWith uC ["top"] ["F02c"] = true := by
  set_option maxRecDepth 100000 in decide
theorem F02d_alone : invalidWith uD ["a"] ["F02d"] = true := by
  set_option maxRecDepth 100000 in decide
theorem F02e_with_a : invalidWith uE ["d"] ["F02e", "F02a"] = true := by
  set_option maxRecDepth 100000 in decide

/-- `UniverseWF` is needed: in `uE` with the two versions of `d` sharing one id (which Go's pointer identity
rules out) the cycle guard and the de-duplication ghost test both see "the same package", no flag fires,
and the set `{d-1, g}` is invalid (`d-1 → e`) -/
def uE_sharedId := [mk 0 "d" "2" ["g"] [] [], mk 1 "g" "1" ["virt"] [] [], mk 0 "d" "1" ["e"] ["virt=1"] [], mk 3 "e" "1" [] [] []]
theorem UniverseWF_needed : ¬ UniverseWF (cfgOf uE_sharedId) ∧ invalidWith uE_sharedId ["d"] [] = true := by
  set_option maxRecDepth 100000 in decide

/-! ## the fuel is always sufficient -/

/-- T `resolve_total`: the model never runs out of fuel (every universe, world, dq set, provider order): the
by-name cycle guard bounds the depth of the walk by the number of packages, every pass of the dependency
loop and of the world loop removes one entry.  So the `.ok` / `.err` theorems cover all behaviours. -/
theorem resolve_total (c : Cfg) (w : List Text) (dq0 : List Nat) : resolve c w dq0 ≠ .outOfFuel := by
  intro h
  unfold resolve at h
  split at h
  · simp at h
  · split at h
    · simp at h
    · next hwl => exact worldLoop_no_oof c _ _ _ _ (Nat.lt_succ_self _) hwl
    · exact go_no_oof c _ _ _ _ _ h

/-- T `resolve_ok_or_err_total`: `resolve_ok_or_err` without the third alternative -/
theorem resolve_ok_or_err_total (c : Cfg) (w : List Text) (dq0 : List Nat) :
    (∃ r, resolve c w dq0 = .ok r) ∨ resolve c w dq0 = .err := by
  rcases resolve_ok_or_err c w dq0 with h | h | h
  · exact Or.inl h
  · exact Or.inr h
  · exact absurd h (resolve_total c w dq0)

end Apko.C02
