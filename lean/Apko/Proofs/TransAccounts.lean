/-
Equality theorems for `userToUserEntry` and `appendGroup` (pkg/build/accounts.go), which the extractor
translates to Lean on every run (`Apko/Generated/TransAccounts.lean`, written by extract/trans.go): the
translated definitions equal the models in `Model/Accounts.lean` (defaults: shell `/bin/sh`, home
`/home/<name>`, gid = uid, password `x`, the info text) that C13's theorems about the account files are about.
-/
import Apko.Generated.TransAccounts
import Apko.Model.Accounts

namespace Apko.TransAccounts
open Apko Apko.Accounts Apko.Formats

-- T `trans_userToUserEntry`: Go's `userToUserEntry`, translated, is the model's (with its four literals).
theorem trans_userToUserEntry (u : UserCfg) :
    Generated.Trans.userToUserEntry u = userToUserEntry u := by
  unfold Generated.Trans.userToUserEntry userToUserEntry
  have l1 : "/bin/sh".toList = defaultShell := by decide
  have l2 : "/home/".toList = homePrefix := by decide
  have l3 : "x".toList = passwordX := by decide
  have l4 : "Account created by apko".toList = accountInfo := by decide
  rw [l1, l2, l3, l4]
  cases hg : u.gid <;> by_cases hs : u.shell = [] <;> by_cases hh : u.home = [] <;> simp [hs, hh, hg]

-- T `trans_appendGroup`: Go's `appendGroup`, translated, appends the model's group entry.
theorem trans_appendGroup (groups : List Group) (g : GroupCfg) :
    Generated.Trans.appendGroup groups g = groups ++ [groupToGroupEntry g] := by
  unfold Generated.Trans.appendGroup groupToGroupEntry
  have l3 : "x".toList = passwordX := by decide
  rw [l3]

example : (Generated.Trans.userToUserEntry { name := "u".toList, uid := 7 }).home = "/home/u".toList ∧
    (Generated.Trans.userToUserEntry { name := "u".toList, uid := 7 }).gid = 7 ∧
    (Generated.Trans.userToUserEntry { name := "u".toList, uid := 7, gid := some 9, shell := "/x".toList }).gid = 9 := by decide

end Apko.TransAccounts
