import Apko.Proofs.C18
import Apko.Generated.ConfinePkg
/-!
# C18, package route of the cache and the files named after an index / lock / configuration field

Which untrusted strings become host paths, and why each of them stays inside its root:

| path | made of | confined by |
|---|---|---|
| package cache entry (`cacheDirForPackage`) | URL of the record only (index: `<repo>/<name>-<version>.apk`) | `cacheDirForPackage_confined` + `tie_cacheDirForPackage`, `tie_packageAsURL`, `tie_pkg_record_uses` |
| `os.MkdirAll(cacheDir)`, `expand-apk*`, `stream-N.tar(.gz)` | entry + constants + counters | `pkg_cache_writes_within_root`, `tie_expand_names` |
| `<hex>.ctl/.sig/.dat.tar.gz`, `.dat.tar` (`cachePackage`) | entry + `hex.EncodeToString` of digests apko computed | `pkg_cache_writes_within_root`, `tie_cachePackage_paths` |
| `<datahash>.dat.tar.gz` (`cachedPackage`) | entry + the `datahash` STRING of a cached control section | `pkg_dat_file_within` (**false** in full: `not_pkg_dat_file_within`), `pkg_dat_file_within_partial`; only hex strings or the empty string are let into the cache (`tie_verifyExpanded_datahash`), and a non-hex string ends `cachedPackage` after `os.Stat`, before any write (`tie_cachedPackage_dat_order`) |
| `sbom-<arch>.<ext>`, `apko-<arch>.tar.gz`, `<wd>/<arch>`, base-image `<dir>/<arch>/APKINDEX` | `ToAPK` of the architecture string of the configuration / command line | `arch_paths_within` (every string; F18f repaired: `toAPK_plain`), `arch_paths_within_pinned` (**false**: `not_arch_paths_within_pinned`, `arch_paths_escape`); `tie_arch_names`, `tie_parseArchitecture` |
| image-root files (`etc/apk/world`, `lib/apk/db/installed`, `scripts.tar`, `triggers`) | constants (the hostile fields are *content*) | `dirfs_lexical` |
-/
namespace Apko.C18
open Apko Apko.Path Apko.Confine

/-! ## the entry directory -/

theorem hasSuffix_append_of {s suf : Text} (h : hasSuffix s suf = true) : ∃ a, s = a ++ suf := by
  unfold hasSuffix at h
  rw [List.isPrefixOf_iff_prefix] at h
  obtain ⟨r, hr⟩ := h
  refine ⟨r.reverse, ?_⟩
  have := congrArg List.reverse hr
  simp only [List.reverse_append, List.reverse_reverse] at this
  exact this.symm

theorem isAbs_trimSuffix_apk {p : Text} (hp : isAbs p = true) : isAbs (trimSuffix p (T ".apk")) = true := by
  by_cases h : hasSuffix p (T ".apk") = true
  · obtain ⟨a, ha⟩ := hasSuffix_append_of h
    subst ha
    rw [trimSuffix_append]
    cases a with
    | nil => revert hp; decide
    | cons c a' => simpa [isAbs] using hp
  · unfold trimSuffix; rw [if_neg h]; exact hp

theorem cacheDirForPackage_abs {root path esc dd : Text} (hr : isAbs root = true) (he : EscSafe esc)
    (h : cacheDirForPackage root path esc = some dd) : isAbs dd = true := by
  unfold cacheDirForPackage at h
  split at h
  · cases h
  · next p hp =>
    split at h
    · injection h with h
      subst h
      obtain ⟨rest, hv, _, _⟩ := cache_path_shape hr he hp
      exact isAbs_trimSuffix_apk (by rw [hv]; exact isAbs_absOf _)
    · cases h

/-- the hypotheses under which the URL part of a package record is what `net/url` produces for a URL with a
scheme and a host (or `uri.New` for a local repository): the escaped repository part is one safe component
(and not the four characters `...apk`: an escaped URL contains `%3A`), the path is empty or absolute -/
def UrlOK (pkg : PkgRec) : Prop :=
  EscSafe pkg.urlEsc ∧ pkg.urlEsc ≠ T "...apk" ∧ (pkg.urlPath = [] ∨ isAbs pkg.urlPath = true)

instance (pkg : PkgRec) : Decidable (UrlOK pkg) := by unfold UrlOK; infer_instance

/-- **cacheDirForPackage_confined**: for every cache root, every URL and EVERY package record (name, version,
architecture, origin, checksum: arbitrary strings) an accepted cache entry is an absolute path that the kernel
reads (lexically: `Clean`) within the cache root.  The record's other fields do not occur in the result at all
(`cacheDirForPkg_url_only`); `tie_cacheDirForPackage` pins the statements this is a model of. -/
theorem cacheDirForPackage_confined {root dd : Text} (pkg : PkgRec) (hr : isAbs root = true) (hu : UrlOK pkg)
    (h : cacheDirForPkg root pkg = some dd) : isAbs dd = true ∧ Within root (clean dd) :=
  ⟨cacheDirForPackage_abs hr hu.1 h, pkg_cache_dir_within_root hr hu.1 hu.2.1 hu.2.2 h⟩

/-- the entry depends on the URL of the record only -/
theorem cacheDirForPkg_url_only (root : Text) (p q : PkgRec) (hp : p.urlPath = q.urlPath) (he : p.urlEsc = q.urlEsc) :
    cacheDirForPkg root p = cacheDirForPkg root q := by
  unfold cacheDirForPkg; rw [hp, he]

/-- a URL without the `.apk` suffix has no entry (the cache is not used for it) -/
theorem cacheDirForPackage_needs_apk {root path esc dd : Text} (h : cacheDirForPackage root path esc = some dd) :
    ∃ p, cachePathFromURL root path esc = some p ∧ ext p = T ".apk" ∧ dd = trimSuffix p (T ".apk") := by
  unfold cacheDirForPackage at h
  split at h
  · cases h
  · next p hp =>
    split at h
    · next hx => injection h with h; exact ⟨p, hp, hx, h.symm⟩
    · cases h

/-- hostile record, benign URL: the entry is where the URL says -/
example : cacheDirForPkg (T "/t/cache")
    { urlPath := T "/os/x86_64/p-1.0-r0.apk", urlEsc := T "https%3A%2F%2Frepo.test%2Fos",
      name := T "../../../../canary/evil", version := T "/etc", arch := T "..", origin := T "../x", checksum := T "Q1../../x" }
    = some (T "/t/cache/https%3A%2F%2Frepo.test%2Fos/x86_64/p-1.0-r0") := by decide

/-- a hostile *name and version in an index* reach the URL path (`<repo>/<arch>/<name>-<version>.apk`, not cleaned by
`url.Parse`); `Base`/`Dir` keep two components of it and the result stays below the root -/
example : cacheDirForPkg (T "/t/cache")
    { urlPath := T "/os/x86_64/../../../../canary/evil-1.0.apk", urlEsc := T "https%3A%2F%2Frepo.test%2F",
      name := T "../../../../canary/evil", version := T "1.0" }
    = some (T "/t/cache/https%3A%2F%2Frepo.test%2F/canary/evil-1.0") := by decide

/-- no `.apk`: no entry, whatever the record says -/
example : cacheDirForPkg (T "/t/cache")
    { urlPath := T "/dl/0", urlEsc := T "https%3A%2F%2Frepo.test%2F", name := T "../../../../canary/evil" } = none := by decide

example : UrlOK { urlPath := T "/dl/0", urlEsc := T "https%3A%2F%2Frepo.test%2F", name := T "../../../../canary/evil" } := by decide

/-! ## the files of an entry -/

theorem hexDigit_mem (n : Nat) : hexDigits.getD (n % 16) '0' ∈ hexDigits := by
  have : ∀ k : Fin 16, hexDigits.getD k.val '0' ∈ hexDigits := by decide
  exact this ⟨n % 16, Nat.mod_lt _ (by decide)⟩

/-- `hex.EncodeToString` yields `[0-9a-f]*` -/
theorem hexEncode_alphabet : ∀ (bs : List Nat), ∀ c ∈ hexEncode bs, c ∈ hexDigits
  | [], c, h => by simp [hexEncode] at h
  | b :: rest, c, h => by
    simp only [hexEncode, List.mem_cons] at h
    rcases h with e | e | e
    · rw [e]; exact hexDigit_mem _
    · rw [e]; exact hexDigit_mem _
    · exact hexEncode_alphabet rest c e

theorem hexDigits_no_slash {h : Text} (hh : ∀ c ∈ h, c ∈ hexDigits) : '/' ∉ h := by
  intro hm
  have := hh _ hm
  revert this
  decide

/-- a name without separator followed by a suffix of more than two characters without separator is one
component that `Clean` keeps -/
theorem entry_name_normal {h suf : Text} (hh : '/' ∉ h) (hs : '/' ∉ suf) (hl : 2 < suf.length) :
    Normal (h ++ suf) ∧ '/' ∉ (h ++ suf) := by
  have hlen : 2 < (h ++ suf).length := by simp; omega
  refine ⟨⟨?_, ?_, ?_⟩, ?_⟩
  · intro e; rw [e] at hlen; simp at hlen
  · intro e; rw [e] at hlen; simp [dot] at hlen
  · intro e; rw [e] at hlen; simp [dotdot] at hlen
  · intro hm
    rcases List.mem_append.1 hm with e | e
    · exact hh e
    · exact hs e

/-- `filepath.Join(d, c)` for an absolute `d` (cleaned or not) and one kept component `c` -/
theorem join2_abs_normal {d c : Text} (hd : isAbs d = true) (hc : Normal c ∧ '/' ∉ c) :
    join2 d c = absOf (parts (clean d) ++ [c]) ∧ NL (parts (clean d) ++ [c]) := by
  obtain ⟨hj, ha⟩ := join2_abs c hd
  have e : d ++ slash ++ c = d ++ '/' :: c := by simp [slash]
  have hN : NL (stk [] d) := stk_NL d NL_nil
  rw [parts_clean_root hd]
  refine ⟨?_, NL_append (NL_reverse hN) (NL_cons hc NL_nil)⟩
  rw [hj, e]
  rw [e] at ha
  rw [clean_abs_stk ha, stk_append_sep, stk_comp _ hc.2, cleanStep_push _ _ hc.1]
  simp

/-- one file of an entry: directly inside the (cleaned) entry directory, hence within the cache root -/
theorem pkg_entry_file_within {root d name : Text} (hd : isAbs d = true) (hw : Within root (clean d))
    (hn : Normal name ∧ '/' ∉ name) :
    Within root (join2 d name) ∧ parts (join2 d name) = parts (clean d) ++ [name] := by
  obtain ⟨hj, hnl⟩ := join2_abs_normal hd hn
  rw [hj, Within, parts_absOf hnl]
  exact ⟨⟨List.IsPrefix.trans hw.1 (List.prefix_append _ _), fun c hc => ⟨(hnl c hc).1.2.2, (hnl c hc).1.2.1⟩⟩, rfl⟩

theorem suffix_facts : ∀ s ∈ pkgEntrySuffixes, '/' ∉ s ∧ 2 < s.length := by decide

/-- **pkg_cache_writes_within_root**: for every cache root, every package record with a URL as `net/url`
produces it and every pair of digests, all the host paths the package route names — the entry directory
(`os.MkdirAll`, parent of `expand-apk*`) and the four advertised files — are within the cache root, the files
directly inside the entry directory -/
theorem pkg_cache_writes_within_root {root : Text} (pkg : PkgRec) (ctl dat : List Nat) {ws : List Text}
    (hr : isAbs root = true) (hu : UrlOK pkg) (h : pkgCacheWrites root pkg ctl dat = some ws) :
    ∃ d files, ws = d :: files ∧ files.length = 4 ∧ isAbs d = true ∧ Within root (clean d)
      ∧ ∀ f ∈ files, Within root f ∧ ∃ name, parts f = parts (clean d) ++ [name] := by
  unfold pkgCacheWrites at h
  split at h
  · cases h
  · next d hd =>
    injection h with h
    obtain ⟨hab, hw⟩ := cacheDirForPackage_confined pkg hr hu hd
    refine ⟨d, _, h.symm, rfl, hab, hw, ?_⟩
    have key : ∀ (bs : List Nat) (s : Text), s ∈ pkgEntrySuffixes →
        Within root (pkgEntryFile d (hexEncode bs) s) ∧ ∃ name, parts (pkgEntryFile d (hexEncode bs) s) = parts (clean d) ++ [name] := by
      intro bs s hs
      obtain ⟨h1, h2⟩ := suffix_facts s hs
      have := pkg_entry_file_within hab hw (entry_name_normal (hexDigits_no_slash (hexEncode_alphabet bs)) h1 h2)
      exact ⟨this.1, _, this.2⟩
    intro f hf
    simp only [List.mem_cons, List.not_mem_nil, or_false] at hf
    rcases hf with e | e | e | e <;> rw [e] <;> apply key <;> decide

/-- not vacuous: an ordinary record has an entry and five paths -/
example : pkgCacheWrites (T "/t/cache") { urlPath := T "/os/x86_64/p-1.0-r0.apk", urlEsc := T "https%3A%2F%2Frepo.test%2Fos" } [0xab, 0x01] [0xff]
    = some [T "/t/cache/https%3A%2F%2Frepo.test%2Fos/x86_64/p-1.0-r0",
            T "/t/cache/https%3A%2F%2Frepo.test%2Fos/x86_64/p-1.0-r0/ab01.ctl.tar.gz",
            T "/t/cache/https%3A%2F%2Frepo.test%2Fos/x86_64/p-1.0-r0/ab01.sig.tar.gz",
            T "/t/cache/https%3A%2F%2Frepo.test%2Fos/x86_64/p-1.0-r0/ff.dat.tar.gz",
            T "/t/cache/https%3A%2F%2Frepo.test%2Fos/x86_64/p-1.0-r0/ff.dat.tar"] := by decide

/-- Full statement (**false** on the model of `cachedPackage`): whatever `datahash` string the cached control
section carries, the data section is looked up (and its `.dat.tar` regenerated) inside the entry -/
def pkg_dat_file_within : Prop :=
  ∀ (root d datahash : Text), isAbs root = true → isAbs d = true → Within root (clean d) →
    Within root (pkgDatFile d datahash)

theorem not_pkg_dat_file_within : ¬ pkg_dat_file_within := by
  intro h
  have := (h (T "/t/cache") (T "/t/cache/r/x86_64/p-1") (T "../../../../canary/x") (by decide) (by decide)
    ⟨by decide, by decide⟩).1
  revert this
  decide

/-- what holds: a `datahash` without separator — in particular the hex strings and the empty string, the only
ones `verifyExpanded` lets into the cache (`tie_verifyExpanded_datahash`, `tie_expandPackage_order`) -/
theorem pkg_dat_file_within_partial {root d datahash : Text} (hd : isAbs d = true) (hw : Within root (clean d))
    (hs : '/' ∉ datahash) :
    Within root (pkgDatFile d datahash) ∧ parts (pkgDatFile d datahash) = parts (clean d) ++ [datahash ++ T ".dat.tar.gz"] :=
  pkg_entry_file_within hd hw (entry_name_normal hs (by decide) (by decide))

theorem pkg_dat_file_hex {root d : Text} (bs : List Nat) (hd : isAbs d = true) (hw : Within root (clean d)) :
    Within root (pkgDatFile d (hexEncode bs)) :=
  (pkg_dat_file_within_partial hd hw (hexDigits_no_slash (hexEncode_alphabet bs))).1

example : pkgDatFile (T "/t/cache/r/x86_64/p-1") (T "../../../../canary/x") = T "/t/canary/x.dat.tar.gz" := by decide

/-! ## files named after the architecture (F18f, repaired) -/

/-- the pinned tree's statement (**false**: `types.ParseArchitecture` returned an unknown string as it was, and
that string went into the names): the SBOM, the layer tarball and the per-architecture working directory lie
within the directory they are created in, whatever string stands where the architecture stands -/
def arch_paths_within_pinned : Prop :=
  ∀ (dir arch extn : Text), isAbs dir = true →
    Within dir (sbomFile dir arch extn) ∧ Within dir (layerTarFile dir arch) ∧ Within dir (archWorkDir dir arch)

theorem not_arch_paths_within_pinned : ¬ arch_paths_within_pinned := by
  intro h
  have := (h (T "/t/out") (T "../../../canary/x") (T "spdx.json") (by decide)).1.1
  revert this
  decide

/-- the escapes of the pinned expressions, spelled out: `sbom-..` and `apko-..` are ordinary components that the
second `..` removes -/
theorem arch_paths_escape :
    sbomFile (T "/t/out") (T "../../../canary/x") (T "spdx.json") = T "/t/canary/x.spdx.json"
    ∧ layerTarFile (T "/t/tmp") (T "../../../canary/x") = T "/t/canary/x.tar.gz"
    ∧ archWorkDir (T "/t/tmp/apko-1") (T "../../canary/x") = T "/t/canary/x" := by decide

theorem within_clean_self {dir : Text} (hd : isAbs dir = true) : Within dir (clean dir) := by
  obtain ⟨C, hC, hc, _⟩ := clean_abs_normal hd
  rw [Within, hc, parts_absOf hC]
  exact ⟨List.prefix_refl _, fun c hcm => ⟨(hC c hcm).1.2.2, (hC c hcm).1.2.1⟩⟩

/-- a string without separator in the place of the architecture names one file directly inside the directory
(for the working directory it must also be a component `Clean` keeps) -/
theorem arch_paths_within_partial {dir arch extn : Text} (hd : isAbs dir = true) (ha : '/' ∉ arch) (he : '/' ∉ extn) :
    Within dir (sbomFile dir arch extn) ∧ Within dir (layerTarFile dir arch)
      ∧ (Normal arch → Within dir (archWorkDir dir arch)) := by
  have hw : Within dir (clean dir) := within_clean_self hd
  refine ⟨?_, ?_, ?_⟩
  · have hn : Normal (T "sbom-" ++ arch ++ T "." ++ extn) ∧ '/' ∉ (T "sbom-" ++ arch ++ T "." ++ extn) := by
      have := entry_name_normal (h := []) (suf := T "sbom-" ++ arch ++ T "." ++ extn) (by simp)
        (by simp [T]; exact ⟨ha, he⟩) (by simp [T])
      simpa using this
    exact (pkg_entry_file_within hd hw hn).1
  · have hn : Normal (T "apko-" ++ arch ++ T ".tar.gz") ∧ '/' ∉ (T "apko-" ++ arch ++ T ".tar.gz") := by
      have := entry_name_normal (h := T "apko-" ++ arch) (suf := T ".tar.gz") (by simp [T]; exact ha) (by decide) (by decide)
      simpa using this
    exact (pkg_entry_file_within hd hw hn).1
  · intro hn
    exact (pkg_entry_file_within hd hw ⟨hn, ha⟩).1

/-- the escaped form has neither separators nor dots -/
theorem escapeArch_plain (s : Text) : '/' ∉ escapeArch s ∧ '.' ∉ escapeArch s := by
  unfold escapeArch
  constructor <;> intro hm <;> obtain ⟨c, _, hc⟩ := List.mem_flatMap.1 hm
  · split at hc
    · revert hc; decide
    · split at hc
      · revert hc; decide
      · next h1 _ => simp at hc; exact h1 hc.symm
  · split at hc
    · revert hc; decide
    · split at hc
      · revert hc; decide
      · next _ h2 => simp at hc; exact h2 hc.symm

/-- `ParseArchitecture` (repaired) yields one of the two constants that contain a separator — which `ToAPK`
maps to `armhf` / `armv7` — or one plain path element (possibly the empty string) -/
theorem parseArch_cases (s : Text) :
    parseArch s = T "arm/v6" ∨ parseArch s = T "arm/v7"
      ∨ ('/' ∉ parseArch s ∧ parseArch s ≠ dot ∧ parseArch s ≠ dotdot) := by
  unfold parseArch
  split
  · right; right; decide
  · split
    · right; right; decide
    · split
      · right; right; decide
      · split
        · left; rfl
        · split
          · right; left; rfl
          · split
            · right; right; decide
            · split
              · right; right
                obtain ⟨h1, h2⟩ := escapeArch_plain s
                refine ⟨h1, ?_, ?_⟩
                · intro e; rw [e] at h2; revert h2; decide
                · intro e; rw [e] at h2; revert h2; decide
              · next hn =>
                right; right
                exact ⟨fun h => hn (Or.inr (Or.inr h)), fun h => hn (Or.inl h), fun h => hn (Or.inr (Or.inl h))⟩

/-- **toAPK_plain**: whatever string is held as an architecture (from the configuration, from `--arch`, or
cast by a library user), the name `ToAPK` derives from it is one plain path element or empty -/
theorem toAPK_plain (a : Text) : '/' ∉ toAPK a ∧ toAPK a ≠ dot ∧ toAPK a ≠ dotdot := by
  unfold toAPK
  simp only
  split
  · decide
  · split
    · decide
    · split
      · decide
      · split
        · decide
        · next h6 =>
          split
          · decide
          · next h7 =>
            split
            · decide
            · rcases parseArch_cases a with e | e | e
              · exact absurd e h6
              · exact absurd e h7
              · exact e

/-- **arch_paths_within** (the full statement, for the repaired code): for every directory and EVERY architecture
string the SBOM `sbom-<arch>.<ext>`, the layer tarball `apko-<arch>.tar.gz` and the per-architecture working
directory `<wd>/<arch>` — all made of `ToAPK` (`tie_arch_names`) — lie within the directory they are created in -/
theorem arch_paths_within (dir a extn : Text) (hd : isAbs dir = true) (he : '/' ∉ extn) :
    Within dir (sbomFile dir (toAPK a) extn) ∧ Within dir (layerTarFile dir (toAPK a))
      ∧ Within dir (archWorkDir dir (toAPK a)) := by
  obtain ⟨h1, h2, h3⟩ := toAPK_plain a
  obtain ⟨p1, p2, p3⟩ := arch_paths_within_partial (extn := extn) hd h1 he
  refine ⟨p1, p2, ?_⟩
  by_cases hne : toAPK a = []
  · -- `Join(wd, "")` is the directory itself
    rw [hne]
    obtain ⟨hj, ha⟩ := join2_abs [] hd
    have e : dir ++ slash ++ [] = dir ++ '/' :: [] := by simp [slash]
    rw [e] at ha
    unfold archWorkDir
    rw [hj, e, clean_abs_stk ha, stk_append_sep, stk_nil, ← clean_abs_stk hd]
    exact within_clean_self hd
  · exact p3 ⟨hne, h2, h3⟩

/-- the witnesses of the pinned tree, on the repaired code -/
example : toAPK (T "../../../canary/x") = T "%2E%2E%2F%2E%2E%2F%2E%2E%2Fcanary%2Fx"
    ∧ sbomFile (T "/t/out") (toAPK (T "../../../canary/x")) (T "spdx.json") = T "/t/out/sbom-%2E%2E%2F%2E%2E%2F%2E%2E%2Fcanary%2Fx.spdx.json"
    ∧ archWorkDir (T "/t/tmp/apko-1") (toAPK (T "..")) = T "/t/tmp/apko-1/%2E%2E" := by decide

/-- known and unknown-but-plain names are what they were -/
example : toAPK (T "amd64") = T "x86_64" ∧ toAPK (T "arm/v6") = T "armhf" ∧ toAPK (T "armhf") = T "armhf"
    ∧ toAPK (T "loongarch64") = T "loongarch64" ∧ toAPK (T "mips64") = T "mips64" ∧ toAPK (T "riscv64") = T "riscv64"
    ∧ toAPK [] = [] := by decide

example : sbomFile (T "/t/out") (T "x86_64") (T "spdx.json") = T "/t/out/sbom-x86_64.spdx.json" := by decide

/-! ## ties -/

/-- `cacheDirForPackage`, statement by statement: the URL of the record, `cachePathFromURL`, the extension
test that REJECTS, the suffix cut — nothing is appended after the root check of `cachePathFromURL` -/
theorem tie_cacheDirForPackage : Generated.stmtsCacheDirForPackage = ["u, err := packageAsURL(pkg)",
  "if err != nil { return \"\", err }",
  "p, err := cachePathFromURL(root, *u)",
  "if err != nil { return \"\", err }",
  "if ext := filepath.Ext(p); ext != \".apk\" { return \"\", fmt.Errorf(\"unexpected ext (%s) to cache dir: %q\", ext, p) }",
  "return strings.TrimSuffix(p, \".apk\"), nil"] := by rfl

theorem tie_packageAsURL : Generated.stmtsPackageAsURL = ["asURI, err := packageAsURI(pkg)",
    "if err != nil { return nil, err }", "return url.Parse(string(asURI))"]
  ∧ Generated.stmtsPackageAsURI = ["u := pkg.URL()",
    "if strings.HasPrefix(u, \"https://\") || strings.HasPrefix(u, \"http://\") { return uri.Parse(u) }",
    "return uri.New(u), nil"] := by
  constructor <;> rfl

/-- `expandPackage`: `cacheDir` is assigned from `cacheDirForPackage` only, and handed on unchanged; the
freshly fetched package is verified before it is advertised -/
theorem tie_expandPackage_order :
    Generated.expandPackageCacheDirAssigns = ["\"\"", "cacheDirForPackage(a.cache.dir, pkg)"]
    ∧ Generated.expandPackageCalls = ["cacheDirForPackage(a.cache.dir, pkg)", "a.cachedPackage(ctx, pkg, cacheDir)",
        "os.MkdirAll(cacheDir, 0o755)", "a.FetchPackage(ctx, pkg)", "expandapk.ExpandApk(ctx, rc, cacheDir)",
        "a.verifyExpanded(pkg, exp)", "a.cachePackage(ctx, pkg, exp, cacheDir)"]
    ∧ Generated.cachePackageCacheDirAssigns = [] ∧ Generated.cachedPackageCacheDirAssigns = [] := by
  refine ⟨by rfl, by rfl, by rfl, by rfl⟩

/-- `cachePackage`: every path is `Join(cacheDir, <hex of a digest> + constant suffix)` (`pkgCacheWrites`) -/
theorem tie_cachePackage_paths :
    Generated.cachePackagePathCalls = ["filepath.Join(cacheDir, ctlHex+\".ctl.tar.gz\")",
      "paths.AdvertiseCachedFile(exp.ControlFile, ctlDst)", "filepath.Join(cacheDir, ctlHex+\".sig.tar.gz\")",
      "paths.AdvertiseCachedFile(exp.SignatureFile, sigDst)", "filepath.Join(cacheDir, datHex+\".dat.tar.gz\")",
      "paths.AdvertiseCachedFile(exp.PackageFile, datDst)", "strings.TrimSuffix(exp.PackageFile, \".gz\")",
      "paths.AdvertiseCachedFile(exp.TarFile, tarDst)"]
    ∧ Generated.cachePackageCtlHex = ["hex.EncodeToString(exp.ControlHash)"]
    ∧ Generated.cachePackageDatHex = ["hex.EncodeToString(exp.PackageHash)"] := by
  refine ⟨by rfl, by rfl, by rfl⟩

/-- `cachedPackage`: the control and signature names are hex of the decoded checksum; the data name is the
`datahash` string (`pkgDatFile`) -/
theorem tie_cachedPackage_paths :
    Generated.cachedPackagePathCalls = ["filepath.Join(cacheDir, pkgHexSum+\".ctl.tar.gz\")", "os.Stat(ctl)", "os.Open(ctl)",
      "filepath.Join(cacheDir, datahash+\".dat.tar.gz\")", "os.Stat(dat)", "filepath.Join(cacheDir, pkgHexSum+\".sig.tar.gz\")",
      "os.Stat(sig)", "os.ReadFile(sig)", "strings.TrimSuffix(exp.PackageFile, \".gz\")"]
    ∧ Generated.cachedPackageHexSum = ["hex.EncodeToString(checksum)"]
    ∧ Generated.cachedPackageChecksum = ["base64.StdEncoding.DecodeString(chk[2:])"]
    ∧ Generated.cachedPackageDatahash = ["a.datahash(f)"] := by
  refine ⟨by rfl, by rfl, by rfl, by rfl⟩

/-- `cachedPackage`: the path made of the `datahash` string is only handed to `os.Stat`; a string that is not hex ends
the function (`hex.DecodeString`) before `PackageData` could regenerate a `.dat.tar` next to it -/
theorem tie_cachedPackage_dat_order : Generated.cachedPackageDatOrder =
    ["os.Stat(ctl)", "os.Stat(dat)", "os.Stat(sig)", "hex.DecodeString(datahash)", "exp.PackageData()"] := by rfl

/-- every use of the package record in the four functions: the name goes into spans, log lines and error
messages only; the checksum into `chk`; the record as a whole to `packageAsURL` and the callees above -/
theorem tie_pkg_record_uses : Generated.pkgRecordUses = ["cacheDirForPackage: packageAsURL(…pkg…)",
  "expandPackage: attribute.String(\"package\", pkg.PackageName())",
  "expandPackage: cacheDirForPackage(…pkg…)",
  "expandPackage: a.cachedPackage(…pkg…)",
  "expandPackage: log.Debugf(\"cache hit (%s)\", pkg.PackageName())",
  "expandPackage: log.Debugf(\"cache miss (%s): %v\", pkg.PackageName(), err)",
  "expandPackage: a.FetchPackage(…pkg…)",
  "expandPackage: fmt.Errorf(\"fetching package %q: %w\", pkg.PackageName(), err)",
  "expandPackage: fmt.Errorf(\"expanding %s: %w\", pkg.PackageName(), err)",
  "expandPackage: a.verifyExpanded(…pkg…)",
  "expandPackage: fmt.Errorf(\"verifying %s: %w\", pkg.PackageName(), err)",
  "expandPackage: a.cachePackage(…pkg…)",
  "APK.cachePackage: attribute.String(\"package\", pkg.PackageName())",
  "APK.cachedPackage: attribute.String(\"package\", pkg.PackageName())",
  "APK.cachedPackage: chk := pkg.ChecksumString()",
  "APK.cachedPackage: fmt.Errorf(…pkg…)"] := by rfl

/-- only the empty string or a string `hex.DecodeString` accepts passes `verifyExpanded` -/
theorem tie_verifyExpanded_datahash : Generated.verifyExpandedDatahash = ["datahash, err := a.datahash(f)",
  "if datahash == \"\" { return nil }",
  "wantData, err := hex.DecodeString(datahash)",
  "if err != nil { return fmt.Errorf(\"decoding datahash %q: %w\", datahash, err) }",
  "if !bytes.Equal(wantData, exp.PackageHash) { return fmt.Errorf(\"data section hash mismatch: expected %x, got %x\", wantData, exp.PackageHash) }"] := by rfl

/-- the files an expansion creates are named by constants and a counter below the directory it was given -/
theorem tie_expand_names :
    Generated.expandApkCreates = ["os.MkdirTemp(cacheDir, \"expand-apk\")", "newExpandApkWriter(dir, \"stream\", \"tar.gz\")", "os.Create(tarfilename)"]
    ∧ Generated.expandApkTarName = ["strings.TrimSuffix(sw.CurrentName(), \".gz\")"]
    ∧ Generated.expandWriterNextCreates = ["os.Create(p)"]
    ∧ Generated.expandWriterNextName = ["fmt.Sprintf(\"%s-%d.%s\", filepath.Join(w.parentDir, w.baseName), w.streamId, w.ext)"]
    ∧ Generated.packageDataCreates = ["os.CreateTemp(filepath.Dir(a.TarFile), filepath.Base(a.TarFile)+\".*.tmp\")", "os.Rename(uf.Name(), a.TarFile)"] := by
  refine ⟨by rfl, by rfl, by rfl, by rfl, by rfl⟩

/-- the names derived from the architecture (`sbomFile`, `layerTarFile`, `archWorkDir`) are made of `ToAPK` -/
theorem tie_arch_names :
    Generated.sbomFileNameAssigns = ["fmt.Sprintf(\"sbom-%s\", o.Arch.ToAPK())"]
    ∧ Generated.sbomFilePaths = ["filepath.Join(s.OutputDir, s.FileName+\".\"+gen.Ext())"]
    ∧ Generated.sbomIndexFilePaths = ["filepath.Join(s.OutputDir, fmt.Sprintf(\"sbom-%s.%s\", arch.ToAPK(), gen.Ext()))",
        "filepath.Join(s.OutputDir, \"sbom-index.\"+gen.Ext())"]
    ∧ Generated.tarballFileNames = ["\"apko.tar.gz\"", "fmt.Sprintf(\"apko-%s.tar.gz\", o.Arch.ToAPK())"]
    ∧ Generated.lockArchWorkDir = ["os.MkdirTemp(\"\", \"apko-*\")", "filepath.Join(wd, arch.ToAPK())"]
    ∧ Generated.archPathJoins = ["LockCmd: filepath.Join(wd, arch.ToAPK())", "DotCmd: filepath.Join(wd, arch.ToAPK())",
        "New: path.Join(apkIndexPath, arch.ToAPK(), \"APKINDEX\")",
        "BaseImage.createAPKIndexArchive: path.Join(apkIndexTargetPath, baseImg.arch.ToAPK())",
        "BaseImage.createAPKIndexArchive: path.Join(archDir, \"APKINDEX.tar.gz\")"] := by
  refine ⟨by rfl, by rfl, by rfl, by rfl, by rfl, by rfl⟩

/-- `ParseArchitecture` and `ToAPK` as modelled by `parseArch` / `toAPK` (F18f repaired: a string that is not one
plain path element is escaped), and the constants the two switches speak about -/
theorem tie_parseArchitecture :
    Generated.stmtsParseArchitecture = [
      "switch s { case \"x86\": return _386 case \"x86_64\", \"amd64\": return amd64 case \"aarch64\", \"arm64\": return arm64 case \"armhf\", \"arm/v6\": return armv6 case \"armv7\", \"arm/v7\": return armv7 case \"loong64\", \"loongarch64\": return loong64 }",
      "if s == \".\" || s == \"..\" || strings.Contains(s, \"/\") { s = strings.NewReplacer(\"/\", \"%2F\", \".\", \"%2E\").Replace(s) }",
      "return Architecture(s)"]
    ∧ Generated.stmtsArchToAPK = [
      "switch a := ParseArchitecture(a.String()); a { case _386: return \"x86\" case amd64: return \"x86_64\" case arm64: return \"aarch64\" case armv6: return \"armhf\" case armv7: return \"armv7\" case loong64: return \"loongarch64\" default: return string(a) }"]
    ∧ Generated.archConstants = [("_386", "Architecture(\"386\")"), ("amd64", "Architecture(\"amd64\")"), ("arm64", "Architecture(\"arm64\")"),
        ("armv6", "Architecture(\"arm/v6\")"), ("armv7", "Architecture(\"arm/v7\")"), ("loong64", "Architecture(\"loong64\")")] := by
  refine ⟨by rfl, by rfl, by rfl⟩

end Apko.C18
