/-
C04 — Only repository indexes signed by a trusted key are used.

Model: `Apko/Model/IndexSig.lean` (`parseIndex` mirrors `parseRepositoryIndex` +
`shouldCheckSignatureForIndex` of pkg/apk/apk/index.go after the repair of F04a; `Legacy.parseIndex` is
the code before the repair).  gzip, archive/tar, SHA-1, SHA-256 and RSA/PKCS#1 are parameters
(`Codec`, `Crypto`); every theorem is for all interpretations of them, all key sets, all option
combinations, all archives (any number of entries in the signature member, any ending).

The entry-name regex, the algorithm switch, `IndexURL`, the statements of
`shouldCheckSignatureForIndex` and the decision skeleton of `parseRepositoryIndex` (if-conditions in
source order, which slice is hashed, which is parsed) are regenerated from /repo on every run
(`Apko/Generated/IndexSig.lean`) and tied below; `sigKind` reads the regenerated switch table
directly, so the theorems that depend on it are re-checked against what the code says now.
-/
import Apko.Model.IndexSig

namespace Apko.C04
open Apko Apko.IndexSig

/-! ## ties to the regenerated facts -/

theorem tie_signatureFileRegex : Generated.signatureFileRegex =
    "^\\.SIGN\\.(DSA|RSA|RSA256|RSA512)\\.(.*\\.rsa\\.pub)$" := by decide

/-- the alternation of the regex, as the recogniser has it -/
theorem tie_regexAlgs : regexAlgs.map String.ofList = ["DSA", "RSA", "RSA256", "RSA512"] := by decide

theorem tie_sigSwitch : Generated.sigSwitch =
    [("DSA", "continue"), ("RSA", "crypto.SHA1"), ("RSA256", "crypto.SHA256"), ("RSA512", "continue"),
     ("<default>", "return")] := by decide

/-- every token the regex admits has its own case (the default is unreachable): DSA and RSA512 are
skipped, RSA is SHA-1, RSA256 is SHA-256 -/
theorem tie_sigKind_table : regexAlgs.map sigKind = [.skip, .use .sha1, .use .sha256, .skip] := by decide

theorem tie_indexFilename : Generated.indexFilename = "APKINDEX.tar.gz" := by decide

theorem tie_IndexURL : Generated.stmts_IndexURL =
    ["return fmt.Sprintf(\"%s/%s/%s\", repo, arch, indexFilename)"] := by decide

/-- `checkOn` was written against exactly these statements (string equality `==`, not a prefix test) -/
theorem tie_shouldCheck : Generated.stmts_shouldCheck =
    ["if opts.ignoreSignatures { return false }",
     "for _, ignoredIndex := range opts.noSignatureIndexes { if IndexURL(ignoredIndex, arch) == index { return false } }",
     "return true"] := by decide

def expected_ifConds : List String := [
  "shouldCheckSignatureForIndex(u, arch, opts) => if len(keys) == …",
  "len(keys) == 0 => return",
  "strings.Contains(keyName, \"/\") => return",
  "err != nil => return",
  "errors.Is(err, io.EOF) => break",
  "err != nil => return",
  "len(matches) != 3 => return",
  "_, ok := keys[keyfile]; !ok => continue",
  "err != nil => return",
  "len(sigs) == 0 => return",
  "_, hasDigest := indexDigest[sig.DigestAlgorithm]; !hasDigest => h := sig.DigestAlgorithm.New()",
  "n, err := h.Write(indexData); err != nil || n != len(indexData) => return",
  "err := sign.RSAVerifyDigest(indexDigest[sig.DigestAlgorithm], sig.DigestAlgorithm, sig.Signature, keys[sig.KeyID]); err == nil => verified = true",
  "!verified => return",
  "err != nil => return",
  "verifiedSignature != nil => index.Signature = verifiedSignature"]

/-- the decisions of `parseRepositoryIndex`, in source order, as `parseIndexWith`/`collect` mirror them -/
theorem tie_ifConds : Generated.pri_ifConds = expected_ifConds := by rfl

/-- the verified bytes are the unread remainder of the buffer; the verdict starts as `false`;
after a successful verification the buffer that is parsed is replaced by the verified bytes -/
theorem tie_assigns : Generated.pri_assigns =
    [("buf :=", "bytes.NewReader(b)"), ("gzipReader :=", "gzip.NewReader(buf)"),
     ("tarReader :=", "tar.NewReader(gzipReader)"),
     ("matches :=", "signatureFileRegex.FindStringSubmatch(signatureFile.Name)"),
     ("keyfile :=", "matches[2]"), ("allBytes :=", "len(b)"), ("unreadBytes :=", "buf.Len()"),
     ("readBytes :=", "allBytes - unreadBytes"), ("indexData :=", "b[readBytes:]"),
     ("verified :=", "false"), ("verified =", "true"), ("b =", "indexData")] := by decide

/-- hashed: `indexData`; verified: that digest with the entry's algorithm, body and the key configured
under the entry's key name; parsed: `b`, which is `indexData` by then (`tie_assigns`, `tie_tail`);
the first member is read on its own (`Multistream(false)`) -/
theorem tie_hashed_verified_parsed :
    Generated.pri_hashArgs = ["indexData"] ∧
    Generated.pri_verifyArgs = ["indexDigest[sig.DigestAlgorithm], sig.DigestAlgorithm, sig.Signature, keys[sig.KeyID]"] ∧
    Generated.pri_parseArgs = ["io.NopCloser(bytes.NewReader(b))"] ∧
    Generated.pri_multistream = ["false"] := by decide

/-- the end of the signature block and what follows it -/
theorem tie_tail : Generated.pri_tail =
    ["in-block: if !verified { return nil, errors.New(\"\") …",
     "in-block: b = indexData",
     "index, err := IndexFromArchive(io.NopCloser(bytes.NewReader(b)))",
     "if err != nil { return nil, fmt.Errorf(\"\", err) }",
     "if verifiedSignature != nil { index.Signature = verifiedSignature }",
     "return index, nil"] := by decide

/-! ## entry names -/

theorem splitAtDot_eq {r tok key : Text} (h : splitAtDot r = some (tok, key)) :
    r = tok ++ '.' :: key := by
  induction r generalizing tok with
  | nil => simp [splitAtDot] at h
  | cons c cs ih =>
    simp only [splitAtDot] at h
    split at h
    · next hc =>
      simp only [Option.some.injEq, Prod.mk.injEq] at h
      obtain ⟨rfl, rfl⟩ := h
      simp [hc]
    · split at h
      · next a b hab =>
        simp only [Option.some.injEq, Prod.mk.injEq] at h
        obtain ⟨rfl, rfl⟩ := h
        simp [ih hab]
      · cases h

/-- a name the regex accepts is `.SIGN.<tok>.<key>` with `tok` one of the four alternatives -/
theorem matchSigName_shape {name tok key : Text} (h : matchSigName name = some (tok, key)) :
    name = ".SIGN.".toList ++ (tok ++ '.' :: key) ∧ tok ∈ regexAlgs := by
  unfold matchSigName at h
  split at h
  · cases h
  · next r hr =>
    split at h
    · cases h
    · next t k hs =>
      split at h
      · next hc =>
        simp only [Option.some.injEq, Prod.mk.injEq] at h
        obtain ⟨rfl, rfl⟩ := h
        have h1 := stripPrefix_eq_some.mp hr
        have h2 := splitAtDot_eq hs
        simp only [Bool.and_eq_true, List.contains_iff_mem] at hc
        exact ⟨by rw [h1, h2], hc.1.1⟩
      · cases h

/-- the accepted key part never contains a newline and ends in `.rsa.pub` -/
theorem matchSigName_key {name tok key : Text} (h : matchSigName name = some (tok, key)) :
    key.contains '\n' = false ∧ rsaPubSuffix.isSuffixOf key = true := by
  unfold matchSigName at h
  split at h
  · cases h
  · split at h
    · cases h
    · split at h
      · next hc =>
        simp only [Option.some.injEq, Prod.mk.injEq] at h
        obtain ⟨rfl, rfl⟩ := h
        simp only [Bool.and_eq_true, Bool.not_eq_true'] at hc
        exact ⟨hc.1.2, hc.2⟩
      · cases h

/-- an entry that the loop turns into a usable signature is, read literally, `.SIGN.RSA.<key>` (SHA-1)
or `.SIGN.RSA256.<key>` (SHA-256) — over the regenerated switch table -/
theorem sigEntry_of_match {name tok key : Text} {a : Alg}
    (h : matchSigName name = some (tok, key)) (hk : sigKind tok = .use a) :
    Spec.sigEntry name = some (a, key) := by
  obtain ⟨hn, hm⟩ := matchSigName_shape h
  subst hn
  have hD : sigKind ['D', 'S', 'A'] = .skip := by decide
  have hR : sigKind ['R', 'S', 'A'] = .use .sha1 := by decide
  have hR2 : sigKind ['R', 'S', 'A', '2', '5', '6'] = .use .sha256 := by decide
  have hR5 : sigKind ['R', 'S', 'A', '5', '1', '2'] = .skip := by decide
  simp [regexAlgs] at hm
  rcases hm with rfl | rfl | rfl | rfl
  · rw [hD] at hk; cases hk
  · rw [hR] at hk; cases hk; simp [Spec.sigEntry, stripPrefix]
  · rw [hR2] at hk; cases hk; simp [Spec.sigEntry, stripPrefix]
  · rw [hR5] at hk; cases hk

/-- conversely a name that is not even of the form `.SIGN.…` is not accepted by the regex -/
theorem matchSigName_none_of_not_prefix {name : Text}
    (h : stripPrefix ".SIGN.".toList name = none) : matchSigName name = none := by
  unfold matchSigName; rw [h]

/-! ## keys -/

theorem lookupKey_mem {keys : Keys} {n : Text} {pem : Bytes} (h : lookupKey keys n = some pem) :
    (n, pem) ∈ keys := by
  unfold lookupKey at h
  split at h
  · next k hk =>
    have hm := List.mem_of_find?_eq_some hk
    have hp := List.find?_some hk
    simp only [beq_iff_eq] at hp
    cases h
    cases k
    simp_all
  · cases h

theorem lookupKey_nil (n : Text) : lookupKey [] n = none := rfl

/-! ## the entry loop -/

/-- every collected signature comes from an entry of the first member whose name the regex accepts,
whose algorithm is usable, whose key is configured, and carries that entry's body -/
theorem collect_mem {keys : Keys} {es : List Entry} {ending : Ending} {sigs : List Sig}
    (h : collect keys es ending = .ok sigs) :
    ∀ s ∈ sigs, ∃ e ∈ es, ∃ tok pem, matchSigName e.name = some (tok, s.keyID) ∧
      sigKind tok = .use s.alg ∧ lookupKey keys s.keyID = some pem ∧ s.body = e.body := by
  induction es generalizing sigs with
  | nil =>
    cases ending with
    | eof => simp [collect] at h; subst h; simp
    | errNext => simp [collect] at h
    | errBody name =>
      unfold collect at h
      repeat (first | contradiction | split at h)
  | cons e es ih =>
    unfold collect at h
    split at h
    · cases h
    · next tok key hm =>
      split at h
      · intro s hs
        obtain ⟨e', he', rest⟩ := ih h s hs
        exact ⟨e', List.mem_cons_of_mem _ he', rest⟩
      · next pem hl =>
        split at h
        · intro s hs
          obtain ⟨e', he', rest⟩ := ih h s hs
          exact ⟨e', List.mem_cons_of_mem _ he', rest⟩
        · cases h
        · next a hk =>
          split at h
          · next sigs' hc =>
            cases h
            intro s hs
            rcases List.mem_cons.mp hs with rfl | hs'
            · exact ⟨e, List.mem_cons_self, tok, pem, hm, hk, hl, rfl⟩
            · obtain ⟨e', he', rest⟩ := ih hc s hs'
              exact ⟨e', List.mem_cons_of_mem _ he', rest⟩
          · cases h

/-- an entry whose name the regex rejects makes the loop fail, wherever it stands -/
theorem collect_bad_name {keys : Keys} {es : List Entry} {ending : Ending}
    (h : ∃ e ∈ es, matchSigName e.name = none) : ∃ r, collect keys es ending = .error r := by
  induction es with
  | nil => obtain ⟨e, he, _⟩ := h; cases he
  | cons e es ih =>
    obtain ⟨e', he', hn⟩ := h
    unfold collect
    rcases List.mem_cons.mp he' with rfl | hin
    · rw [hn]; exact ⟨_, rfl⟩
    · obtain ⟨r, hr⟩ := ih ⟨e', hin, hn⟩
      split
      · exact ⟨_, rfl⟩
      · split
        · exact ⟨r, hr⟩
        · split
          · exact ⟨r, hr⟩
          · exact ⟨_, rfl⟩
          · rw [hr]; exact ⟨_, rfl⟩

/-- the loop never succeeds unless `Next()` ended with io.EOF -/
theorem collect_ok_eof {keys : Keys} {es : List Entry} {ending : Ending} {sigs : List Sig}
    (h : collect keys es ending = .ok sigs) : ending = .eof := by
  induction es generalizing sigs with
  | nil =>
    cases ending with
    | eof => rfl
    | errNext => simp [collect] at h
    | errBody name =>
      unfold collect at h
      repeat (first | contradiction | split at h)
  | cons e es ih =>
    unfold collect at h
    split at h
    · cases h
    · split at h
      · exact ih h
      · split at h
        · exact ih h
        · cases h
        · split at h
          · next hc => exact ih hc
          · cases h

/-! ## `parseRepositoryIndex` -/

/-- decomposition of an accepting run with verification on -/
theorem accept_inv {what : Parsed} {C : Crypto} {R : Codec} {keys : Keys} {o : Opts} {url arch : Text}
    {archive : Bytes} {idx : Index}
    (hc : checkOn o url arch = true)
    (h : parseIndexWith what C R keys o url arch archive = .ok idx) :
    keys ≠ [] ∧ (∀ k ∈ keys, k.1.contains '/' = false) ∧
    ∃ f sigs s, R.readFirst archive = some f ∧ collect keys f.entries f.ending = .ok sigs ∧
      sigs.find? (verifies C keys f.rest) = some s ∧
      ((what = .verifiedBytes ∧ ∃ i, R.indexFromArchive f.rest = some i ∧ idx = { i with signature := s.body }) ∨
       (what = .wholeBuffer ∧ R.indexFromArchive archive = some idx)) := by
  unfold parseIndexWith at h
  rw [if_pos hc] at h
  split at h
  · cases h
  · next hk =>
    split at h
    · cases h
    · next hs =>
      split at h
      · cases h
      · next f hf =>
        split at h
        · cases h
        · next sigs hcol =>
          split at h
          · cases h
          · split at h
            · cases h
            · next s hfind =>
              refine ⟨?_, ?_, f, sigs, s, hf, hcol, hfind, ?_⟩
              · intro hnil; subst hnil; simp at hk
              · intro k hkm
                simp only [List.any_eq_true, not_exists, not_and, Bool.not_eq_true] at hs
                exact hs k hkm
              · cases what with
                | verifiedBytes =>
                  left
                  simp only at h
                  split at h
                  · cases h
                  · next i hi => cases h; exact ⟨rfl, i, hi, rfl⟩
                | wholeBuffer =>
                  right
                  simp only at h
                  split at h
                  · cases h
                  · next i hi => cases h; exact ⟨rfl, hi⟩

/-- **accept ⇒ signed**: with verification on, an accepted archive has, in its first member, an entry
named `.SIGN.RSA[256].<key>` whose key is configured and whose body verifies, under that key and the
entry's algorithm, over the digest of exactly the bytes `rest` that follow.  (Holds before and after
the repair.)  After the repair the returned `Signature` is that entry's body. -/
theorem accept_implies_signed (what : Parsed) (C : Crypto) (R : Codec) (keys : Keys) (o : Opts)
    (url arch : Text) (archive : Bytes) (idx : Index)
    (hc : checkOn o url arch = true)
    (h : parseIndexWith what C R keys o url arch archive = .ok idx) :
    ∃ f, R.readFirst archive = some f ∧ f.ending = .eof ∧
      ∃ e ∈ f.entries, Spec.SignedBy C keys f.rest e ∧ (what = .verifiedBytes → idx.signature = e.body) := by
  obtain ⟨_, _, f, sigs, s, hf, hcol, hfind, hres⟩ := accept_inv hc h
  have hsm := List.mem_of_find?_eq_some hfind
  have hv := List.find?_some hfind
  obtain ⟨e, he, tok, pem, hm, hk, hl, hb⟩ := collect_mem hcol s hsm
  refine ⟨f, hf, collect_ok_eof hcol, e, he, ⟨s.alg, s.keyID, pem, sigEntry_of_match hm hk, lookupKey_mem hl, ?_⟩, ?_⟩
  · unfold verifies at hv
    rw [hl] at hv
    rw [← hb]; exact hv
  · intro hw
    rcases hres with ⟨_, i, _, rfl⟩ | ⟨hw', _⟩
    · exact hb
    · rw [hw] at hw'; cases hw'

/-- contrapositive, the form the property is worded in: if no entry of the first member is a
signature by a configured key that verifies over the bytes that follow, the archive is rejected -/
theorem no_valid_signature_rejected (what : Parsed) (C : Crypto) (R : Codec) (keys : Keys) (o : Opts)
    (url arch : Text) (archive : Bytes)
    (hc : checkOn o url arch = true)
    (hno : ∀ f, R.readFirst archive = some f → ∀ e ∈ f.entries, ¬ Spec.SignedBy C keys f.rest e) :
    ∃ r, parseIndexWith what C R keys o url arch archive = .rej r := by
  cases hres : parseIndexWith what C R keys o url arch archive with
  | rej r => exact ⟨r, rfl⟩
  | ok idx =>
    obtain ⟨f, hf, _, e, he, hs, _⟩ := accept_implies_signed what C R keys o url arch archive idx hc hres
    exact absurd hs (hno f hf e he)

/-- an index without any signature entry is rejected -/
theorem unsigned_rejected (what : Parsed) (C : Crypto) (R : Codec) (keys : Keys) (o : Opts)
    (url arch : Text) (archive : Bytes)
    (hc : checkOn o url arch = true)
    (hno : ∀ f, R.readFirst archive = some f → ∀ e ∈ f.entries, Spec.sigEntry e.name = none) :
    ∃ r, parseIndexWith what C R keys o url arch archive = .rej r := by
  apply no_valid_signature_rejected what C R keys o url arch archive hc
  intro f hf e he ⟨a, key, pem, hs, _⟩
  rw [hno f hf e he] at hs; cases hs

/-- an index all of whose signatures are made with keys that are not configured is rejected -/
theorem unknown_key_rejected (what : Parsed) (C : Crypto) (R : Codec) (keys : Keys) (o : Opts)
    (url arch : Text) (archive : Bytes)
    (hc : checkOn o url arch = true)
    (hunk : ∀ f, R.readFirst archive = some f → ∀ e ∈ f.entries, ∀ a key,
      Spec.sigEntry e.name = some (a, key) → ∀ pem, (key, pem) ∉ keys) :
    ∃ r, parseIndexWith what C R keys o url arch archive = .rej r := by
  apply no_valid_signature_rejected what C R keys o url arch archive hc
  intro f hf e he ⟨a, key, pem, hs, hmem, _⟩
  exact hunk f hf e he a key hs pem hmem

/-- with verification on and no key configured nothing is accepted -/
theorem no_keys_rejected (what : Parsed) (C : Crypto) (R : Codec) (o : Opts) (url arch : Text)
    (archive : Bytes) (hc : checkOn o url arch = true) :
    parseIndexWith what C R [] o url arch archive = .rej .noKeys := by
  unfold parseIndexWith; rw [if_pos hc]; rfl

/-- a key file name containing '/' makes every index fail -/
theorem slash_key_rejected (what : Parsed) (C : Crypto) (R : Codec) (keys : Keys) (o : Opts)
    (url arch : Text) (archive : Bytes) (hc : checkOn o url arch = true)
    (hs : ∃ k ∈ keys, k.1.contains '/' = true) :
    ∃ r, parseIndexWith what C R keys o url arch archive = .rej r := by
  cases hres : parseIndexWith what C R keys o url arch archive with
  | rej r => exact ⟨r, rfl⟩
  | ok idx =>
    obtain ⟨_, hall, _⟩ := accept_inv hc hres
    obtain ⟨k, hk, hsl⟩ := hs
    rw [hall k hk] at hsl; cases hsl

/-- any entry in the signature member whose name is not a signature name (regex) — in front of,
between or behind valid signatures — makes the index fail -/
theorem non_sign_entry_rejected (what : Parsed) (C : Crypto) (R : Codec) (keys : Keys) (o : Opts)
    (url arch : Text) (archive : Bytes) (f : First)
    (hc : checkOn o url arch = true) (hf : R.readFirst archive = some f)
    (hbad : ∃ e ∈ f.entries, matchSigName e.name = none) :
    ∃ r, parseIndexWith what C R keys o url arch archive = .rej r := by
  cases hres : parseIndexWith what C R keys o url arch archive with
  | rej r => exact ⟨r, rfl⟩
  | ok idx =>
    obtain ⟨_, _, f', sigs, _, hf', hcol, _⟩ := accept_inv hc hres
    rw [hf] at hf'; cases hf'
    obtain ⟨r, hr⟩ := collect_bad_name (keys := keys) (ending := f.ending) hbad
    rw [hr] at hcol; cases hcol

/-- an unreadable first member (gzip header, tar error, truncated body) is rejected -/
theorem broken_first_member_rejected (what : Parsed) (C : Crypto) (R : Codec) (keys : Keys) (o : Opts)
    (url arch : Text) (archive : Bytes)
    (hc : checkOn o url arch = true)
    (hbroken : ∀ f, R.readFirst archive = some f → f.ending ≠ .eof) :
    ∃ r, parseIndexWith what C R keys o url arch archive = .rej r := by
  cases hres : parseIndexWith what C R keys o url arch archive with
  | rej r => exact ⟨r, rfl⟩
  | ok idx =>
    obtain ⟨f, hf, he, _⟩ := accept_implies_signed what C R keys o url arch archive idx hc hres
    exact absurd he (hbroken f hf)

/-! ## when verification is skipped -/

/-- verification is skipped exactly when it is disabled globally or this very index URL is the
`IndexURL` of a listed repository (string equality) -/
theorem check_skipped_iff (o : Opts) (url arch : Text) :
    checkOn o url arch = false ↔ Spec.Exempt o url arch := by
  unfold checkOn Spec.Exempt
  by_cases hi : o.ignoreSignatures = true
  · simp [hi]
  · by_cases ha : o.noSignatureIndexes.any (fun r => indexURL r arch == url) = true
    · simp only [hi, ha, if_true, Bool.false_eq_true, if_false, false_or, true_iff]
      simpa [List.any_eq_true] using ha
    · simp only [hi, ha, Bool.false_eq_true, if_false, false_or]
      simpa [List.any_eq_true] using ha

/-- `IndexURL` is injective in the repository: no other repository shares an exempted index URL,
in particular not one whose URL merely has the exempted one as a prefix -/
theorem indexURL_injective {r r' arch : Text} (h : indexURL r arch = indexURL r' arch) : r = r' := by
  unfold indexURL at h
  exact List.append_cancel_right h

/-- with the global switch off, the index of repository `r` is exempt only if `r` itself is listed -/
theorem exempt_only_listed (o : Opts) (r arch : Text) (hi : o.ignoreSignatures = false)
    (h : checkOn o (indexURL r arch) arch = false) : r ∈ o.noSignatureIndexes := by
  rcases (check_skipped_iff o _ arch).mp h with h | ⟨r', hr', he⟩
  · rw [hi] at h; cases h
  · rw [← indexURL_injective he]; exact hr'

/-- a listed repository's own index is exempt -/
theorem listed_is_exempt (o : Opts) (r arch : Text) (h : r ∈ o.noSignatureIndexes) :
    checkOn o (indexURL r arch) arch = false :=
  (check_skipped_iff o _ arch).mpr (Or.inr ⟨r, h, rfl⟩)

/-- with verification skipped the archive is parsed as it is -/
theorem check_off_parses_archive (what : Parsed) (C : Crypto) (R : Codec) (keys : Keys) (o : Opts)
    (url arch : Text) (archive : Bytes) (hc : checkOn o url arch = false) :
    parseIndexWith what C R keys o url arch archive =
      match R.indexFromArchive archive with | none => .rej .parse | some i => .ok i := by
  unfold parseIndexWith; simp only [hc, Bool.false_eq_true, if_false]
  cases R.indexFromArchive archive <;> rfl

/-! ## parsed content = signed content -/

/-- the full statement: whatever is returned with verification on was parsed from exactly the bytes
whose digest was verified -/
def ParsedIsSigned (what : Parsed) : Prop :=
  ∀ (C : Crypto) (R : Codec) (keys : Keys) (o : Opts) (url arch : Text) (archive : Bytes) (idx : Index),
    checkOn o url arch = true → parseIndexWith what C R keys o url arch archive = .ok idx →
    ∃ f i, R.readFirst archive = some f ∧ R.indexFromArchive f.rest = some i ∧
      idx.packages = i.packages ∧ idx.description = i.description

/-- **parsed = signed** for the code as it is now -/
theorem parsed_is_signed : ParsedIsSigned .verifiedBytes := by
  intro C R keys o url arch archive idx hc h
  obtain ⟨_, _, f, _, s, hf, _, _, hres⟩ := accept_inv hc h
  rcases hres with ⟨_, i, hi, rfl⟩ | ⟨hw, _⟩
  · exact ⟨f, i, hf, hi, rfl, rfl⟩
  · cases hw

/-- F04a (repaired): the code before the repair verified `rest` but parsed the whole buffer, so content of
the unsigned first member (a PAX header at its end) could change what a validly signed index is parsed
as.  Witness: whole buffer parses to no package, the signed bytes to two. -/
theorem legacy_not_parsed_is_signed : ¬ ParsedIsSigned .wholeBuffer := by
  intro h
  let C : Crypto := ⟨id, id, fun _ _ _ _ => true⟩
  let R : Codec := ⟨fun _ => some ⟨[⟨".SIGN.RSA256.k.rsa.pub".toList, ['s']⟩], .eof, ['R']⟩,
    fun x => if x = ['R'] then some ⟨[['a'], ['b']], [], []⟩ else some ⟨[], [], ['s']⟩⟩
  have hh := h C R [("k.rsa.pub".toList, [])] ⟨false, []⟩ [] [] ['A'] ⟨[], [], ['s']⟩ (by decide) (by decide)
  obtain ⟨f, i, hf, hi, hp, _⟩ := hh
  simp only [R, Option.some.injEq] at hf
  subst hf
  simp only [R, if_true, Option.some.injEq] at hi
  subst hi
  cases hp

/-! ## Spec -/

theorem exemptB_iff (o : Opts) (url arch : Text) : Spec.exemptB o url arch = true ↔ Spec.Exempt o url arch := by
  unfold Spec.exemptB Spec.Exempt
  simp [List.any_eq_true]

theorem signedByB_iff (C : Crypto) (keys : Keys) (data : Bytes) (e : Entry) :
    Spec.signedByB C keys data e = true ↔ Spec.SignedBy C keys data e := by
  unfold Spec.signedByB Spec.SignedBy
  split
  · next h => simp [h]
  · next a key h =>
    simp only [h, Option.some.injEq, Prod.mk.injEq, List.any_eq_true, Bool.and_eq_true, beq_iff_eq]
    constructor
    · rintro ⟨⟨n, pem⟩, hm, hn, hv⟩
      simp only at hn; subst hn
      exact ⟨a, n, pem, ⟨rfl, rfl⟩, hm, hv⟩
    · rintro ⟨a', key', pem, ⟨rfl, rfl⟩, hm, hv⟩
      exact ⟨(key, pem), hm, rfl, hv⟩

/-- the oracle the driver runs on every Go result is the Spec predicate -/
theorem acceptableB_iff (C : Crypto) (R : Codec) (keys : Keys) (o : Opts) (url arch : Text) (archive : Bytes)
    (res : Res) :
    Spec.acceptableB C R keys o url arch archive res = true ↔ Spec.Acceptable C R keys o url arch archive res := by
  cases res with
  | rej r => simp [Spec.acceptableB, Spec.Acceptable]
  | ok idx =>
    unfold Spec.acceptableB Spec.Acceptable
    by_cases hx : Spec.exemptB o url arch = true
    · have hx' := (exemptB_iff o url arch).mp hx
      simp [hx, hx']
    · have hx' : ¬ Spec.Exempt o url arch := fun h => hx ((exemptB_iff o url arch).mpr h)
      simp only [hx, Bool.false_eq_true, if_false, hx', false_and, not_false_eq_true, true_and, false_or]
      cases hf : R.readFirst archive with
      | none => simp
      | some f =>
        simp only [Option.some.injEq, exists_eq_left', Bool.and_eq_true, List.any_eq_true, signedByB_iff]
        cases hi : R.indexFromArchive f.rest with
        | none => simp
        | some i => simp

/-- **the model meets the Spec**: for all parameters, keys, options and archives, what `parseIndex`
returns is acceptable — rejected, or exempt and parsed as is, or signed by a configured key over exactly
the bytes that were parsed -/
theorem impl_acceptable (C : Crypto) (R : Codec) (keys : Keys) (o : Opts) (url arch : Text) (archive : Bytes) :
    Spec.Acceptable C R keys o url arch archive (parseIndex C R keys o url arch archive) := by
  cases hres : parseIndex C R keys o url arch archive with
  | rej r => trivial
  | ok idx =>
    unfold Spec.Acceptable
    cases hc : checkOn o url arch with
    | false =>
      left
      refine ⟨(check_skipped_iff o url arch).mp hc, ?_⟩
      have := check_off_parses_archive .verifiedBytes C R keys o url arch archive hc
      unfold parseIndex at hres
      rw [this] at hres
      split at hres
      · cases hres
      · next i hi => cases hres; exact hi
    | true =>
      right
      refine ⟨fun hx => ?_, ?_⟩
      · have := (check_skipped_iff o url arch).mpr hx
        rw [hc] at this; cases this
      · obtain ⟨f, hf, _, e, he, hs, _⟩ := accept_implies_signed .verifiedBytes C R keys o url arch archive idx hc hres
        obtain ⟨f', i, hf', hi, hp, hd⟩ := parsed_is_signed C R keys o url arch archive idx hc hres
        rw [hf] at hf'; cases hf'
        exact ⟨f, hf, ⟨e, he, hs⟩, i, hi, hp, hd⟩

/-! ## the hypotheses are satisfiable: a two-signature archive (unknown key first) is accepted -/

example :
    let C : Crypto := ⟨fun x => '1' :: x, fun x => '2' :: x,
      fun pem a d s => pem == ['K'] && a == .sha256 && d == ['2', 'R'] && s == ['g', 'o', 'o', 'd']⟩
    let R : Codec := ⟨fun _ => some ⟨[⟨".SIGN.RSA.other.rsa.pub".toList, ['x']⟩,
                                       ⟨".SIGN.RSA256.k.rsa.pub".toList, ['g', 'o', 'o', 'd']⟩], .eof, ['R']⟩,
      fun x => if x = ['R'] then some ⟨[['a'], ['b']], ['d'], []⟩ else none⟩
    parseIndex C R [("k.rsa.pub".toList, ['K'])] ⟨false, ["https://x/other".toList]⟩
        (indexURL "https://x/repo".toList "x86_64".toList) "x86_64".toList ['A']
      = .ok ⟨[['a'], ['b']], ['d'], ['g', 'o', 'o', 'd']⟩ := by decide

end Apko.C04
