/-
C01 — Builds are bit-for-bit reproducible.

In a pure model "same input ⇒ same output" is `rfl`; the content of C01 is that nothing OUTSIDE the
declared inputs reaches the outputs: Go map iteration order, goroutine completion order, thread
count, clock, environment, directory names.

* `tie_sites`: the inventory of every such site (regenerated from /repo with go/types on every run:
  map ranges, maps.Keys/Values, UnsortedList, time.Now, os.Getenv/…, temp names, GOMAXPROCS) equals
  the hand-audited list `auditedSites`; each audited site names its discharge (`siteDischarge`).
  A new, removed or edited site (loop body hash, ranged expression, the sort call that follows on the
  collected variable) breaks the tie.
* Order-independence theorems with the iteration order as an adversarial parameter (a permutation):
  `sort_perm_invariant` (sorted afterwards ⇒ order irrelevant), its instances for directory listings
  and string lists, `insert_perm_lookup` (commutative accumulation into a map with distinct keys),
  `lowest_perm_invariant` (the explicit (len, key) tie-break of the resolver), `minFunc_unique_min`
  (first-minimum of a comparator with a unique minimum).  The site-specific theorems proved
  elsewhere are referenced: C14.dq_perm_invariant, C10 group_perm_invariant, C09 unify_perm_invariant.
* The provider choice (`newPkgResolver` appends differently named providers to `nameMap[virtual]` in
  Go map order; model: the adversarial `order` parameter of `Resolver.nameMap`):
  `comparePackages_lex` / `comparePackages_swo` (the repaired comparator, F08b, is the lexicographic
  comparison of a per-package key, hence a strict weak order on ALL packages),
  `comparePackages_eq_same_name` (its ties are same-name packages),
  `comparePackages_pinned_not_antisymm` (F08b witness for the pinned comparator),
  `minFunc_perm_invariant` (first minimum under a strict weak order only depends on the order inside
  each equivalence class), `nameMap_order_irrelevant` (two orders give permutations that keep
  same-name packages in place), `bestPackage_order_irrelevant`, `resolvePackage_order_irrelevant`,
  and the lift to whole resolutions `resolve_order_irrelevant` (every other use of `nameMap` only adds
  ids to the disqualified SET, which the resolver reads through membership only — a simulation over
  `constrain`, `disqualifyProviders`, `disqualifyConflicts`, `nextPackage`, `worldLoop`, `depOption`,
  `depLoop`, `getDeps`, `getPackageWithDependencies`, `resolve`); `resolve_order_dependent_pinned`
  is the concrete negation for the pinned comparator.
  Lemmas: `Proofs/Lemmas/Comparator{Order,Lex,Min,NameMap,Dq,Deps,Resolve}.lean`.
* Goroutine completion order of `GetRepositoryIndexes` (one goroutine per repository line; model
  `IndexOrder.collectPositional` with the completion order as the adversarial `schedule`):
  `collect_schedule_independent` (every schedule in which each goroutine finishes gives the indexes in the order of
  the repository lines), `collect_perm_invariant`, `resolverInput_schedule_independent` (what `NewPkgResolver` is
  handed is `Glue.indexesOf`: one index per line of the sorted set of lines), `resolve_schedule_independent`;
  `resolve_index_order_matters` (the position of an index DOES decide a tie between two repositories offering
  one name and version, so the position must come from the configuration) and
  `collectAppend_schedule_dependent` / `resolve_append_schedule_dependent` (collecting in completion order is not
  a function of the inputs).  `tie_getRepositoryIndexes_positional`: the statements that fix the positions,
  regenerated from index.go.
* The scratch directory: `emitted_scratch_independent` (model `IndexOrder.emitted`), its negation for a
  configuration that registers the base image's index as a build repository
  (`emittedRegistered_scratch_dependent`), `tie_scratchUses` (every read of `TempDir()` / `APKIndexPath()` in
  pkg/build and pkg/baseimg is one of the audited ones), `tie_buildRepos_sortedSet`.
* The history of the process (library use of pkg/build: several images built by one process; model
  `MemoHistory`: the process-wide memo of disqualification maps, `Get` handing out a copy or the stored object on
  its miss / hit path, the solver writing its disqualifications into the map it was handed):
  `build_history_independent` (copies on both paths: for every history of earlier builds, over any keys and
  worlds, the target resolves as in a fresh process), `build_history_dependent_missAlias` /
  `build_history_dependent_hitAlias` (the negations when either path hands out the stored object),
  `build_history_independent_partial` (whatever `Get` hands out: a target whose key no earlier build used resolves
  as in a fresh process — one solve per key, the CLI), `tie_dqGet_stmts` / `dqGet_copies` /
  `dqGet_history_independent` (the statement list of `disqualifyCache.Get` regenerated from
  shameful_global_caches.go, the shape read off it, the theorem for that shape); the repro suite's `after-…`
  variants build other configurations first in the same child process.
* What the model cannot exhibit (partial): the Go scheduler, pgzip, the runtime's map order, and the
  third-party tarball writer are exercised by the correspondence suite `repro` only (child processes
  under different GOMAXPROCS / TZ / umask / cwd / TMPDIR / environment / cache histories, every output
  byte compared).
-/
import Apko.Model.Resolver
import Apko.Generated.Sites
import Apko.Proofs.Lemmas.AuditedSites
import Apko.Proofs.Lemmas.ComparatorResolve
import Apko.Proofs.Lemmas.IndexOrder
import Apko.Generated.IndexOrder
import Apko.Generated.Glue
import Apko.Generated.Alias
import Apko.Proofs.Lemmas.MemoHistory
import Apko.Proofs.TransResolver

namespace Apko.C01
open Apko

/-! ## the site inventory -/

theorem tie_sites : Generated.sites = auditedSites := rfl
theorem tie_sites_loaded : Generated.sitesLoadErrors = 0 := rfl
theorem audited_all_discharged : auditedSites.length = siteDischarge.length := rfl

/-! ## sorted afterwards ⇒ the collection order is irrelevant -/

/-- T `sort_perm_invariant`: collecting the entries of a map in ANY order and sorting them with a
total, transitive order that is antisymmetric on those entries gives one result. -/
theorem sort_perm_invariant {α} (le : α → α → Bool)
    (trans : ∀ a b c, le a b → le b c → le a c) (total : ∀ a b, le a b || le b a)
    (l₁ l₂ : List α) (hp : l₁.Perm l₂)
    (antisymm : ∀ a b, a ∈ l₁ → b ∈ l₁ → le a b → le b a → a = b) :
    l₁.mergeSort le = l₂.mergeSort le := by
  apply List.Perm.eq_of_pairwise (le := fun a b => le a b = true)
  · intro a b ha hb h1 h2
    have ha' : a ∈ l₁ := (List.mergeSort_perm l₁ le).subset ha
    have hb' : b ∈ l₁ := hp.symm.subset ((List.mergeSort_perm l₂ le).subset hb)
    exact antisymm a b ha' hb' h1 h2
  · exact List.pairwise_mergeSort trans total l₁
  · exact List.pairwise_mergeSort trans total l₂
  · exact ((List.mergeSort_perm l₁ le).trans hp).trans (List.mergeSort_perm l₂ le).symm

/-- byte-wise string order on `Text` (Go's `<` on strings) as a Bool relation -/
def leText (a b : Text) : Bool := decide (a ≤ b)

theorem leText_trans (a b c : Text) : leText a b → leText b c → leText a c := by
  simp only [leText, decide_eq_true_eq]; exact List.le_trans
theorem leText_total (a b : Text) : leText a b || leText b a := by
  simp only [leText, Bool.or_eq_true, decide_eq_true_eq]; exact List.le_total a b
theorem leText_antisymm (a b : Text) : leText a b → leText b a → a = b := by
  simp only [leText, decide_eq_true_eq]; exact List.le_antisymm

/-- T `strings_sorted` (`sort.Strings(envs)`, `sort.Strings(dirEntries)`, world, repositories): a list
of strings that is sorted after collection does not depend on the collection order. -/
theorem strings_sorted (l₁ l₂ : List Text) (hp : l₁.Perm l₂) :
    l₁.mergeSort leText = l₂.mergeSort leText :=
  sort_perm_invariant leText leText_trans leText_total l₁ l₂ hp
    (fun a b _ _ => leText_antisymm a b)

/-- T `readdir_perm_invariant` (`ReadDir` of both in-memory file systems, architectures of an index,
purl qualifiers): entries sorted by a key are order independent when the keys are distinct (names in
one directory; architectures; qualifier names). -/
theorem readdir_perm_invariant {β} (key : β → Text) (l₁ l₂ : List β) (hp : l₁.Perm l₂)
    (hd : l₁.Pairwise (fun a b => key a ≠ key b)) :
    l₁.mergeSort (fun a b => leText (key a) (key b)) = l₂.mergeSort (fun a b => leText (key a) (key b)) := by
  apply sort_perm_invariant (fun a b => leText (key a) (key b))
    (fun a b c => leText_trans (key a) (key b) (key c)) (fun a b => leText_total (key a) (key b)) l₁ l₂ hp
  intro a b ha hb h1 h2
  have hk := leText_antisymm _ _ h1 h2
  by_cases hab : a = b
  · exact hab
  · exfalso
    -- two different entries with the same key contradict key-distinctness
    rcases List.mem_iff_getElem.mp ha with ⟨i, hi, rfl⟩
    rcases List.mem_iff_getElem.mp hb with ⟨j, hj, rfl⟩
    rcases Nat.lt_trichotomy i j with h | h | h
    · exact (List.pairwise_iff_getElem.mp hd i j hi hj h) hk
    · subst h; exact hab rfl
    · exact (List.pairwise_iff_getElem.mp hd j i hj hi h) hk.symm

/-! ## commutative accumulation into a map with distinct keys -/

/-- insert-or-overwrite of one binding (what `m[k] = v` does) -/
def ins (m : List (Text × Text)) (kv : Text × Text) : List (Text × Text) :=
  kv :: m.filter (·.1 ≠ kv.1)

def look (m : List (Text × Text)) (k : Text) : Option Text := (m.find? (·.1 = k)).map (·.2)

theorem find_filter_ne (m : List (Text × Text)) (k' k : Text) (h : k' ≠ k) :
    (m.filter (fun x => decide (x.1 ≠ k'))).find? (fun x => decide (x.1 = k)) =
      m.find? (fun x => decide (x.1 = k)) := by
  induction m with
  | nil => rfl
  | cons e es ih =>
    by_cases h1 : e.1 = k'
    · have h2 : e.1 ≠ k := by rw [h1]; exact h
      rw [List.filter_cons_of_neg (by simp [h1]), List.find?_cons_of_neg (by simp [h2]), ih]
    · rw [List.filter_cons_of_pos (by simp [h1])]
      by_cases h2 : e.1 = k
      · rw [List.find?_cons_of_pos (by simp [h2]), List.find?_cons_of_pos (by simp [h2])]
      · rw [List.find?_cons_of_neg (by simp [h2]), List.find?_cons_of_neg (by simp [h2]), ih]

theorem look_ins (m : List (Text × Text)) (kv : Text × Text) (k : Text) :
    look (ins m kv) k = if kv.1 = k then some kv.2 else look m k := by
  unfold look ins
  by_cases h : kv.1 = k
  · simp [h]
  · rw [List.find?_cons_of_neg (by simp [h]), find_filter_ne m kv.1 k h]
    simp [h]

theorem look_foldl_ins_not_mem (l : List (Text × Text)) (m : List (Text × Text)) (k : Text)
    (h : ∀ kv ∈ l, kv.1 ≠ k) : look (l.foldl ins m) k = look m k := by
  induction l generalizing m with
  | nil => rfl
  | cons kv rest ih =>
    simp only [List.foldl_cons]
    rw [ih _ (fun x hx => h x (List.mem_cons_of_mem _ hx)), look_ins]
    simp [h kv List.mem_cons_self]

theorem look_foldl_ins (l : List (Text × Text)) (hd : l.Pairwise (fun a b => a.1 ≠ b.1))
    (m : List (Text × Text)) (k : Text) :
    look (l.foldl ins m) k = match l.find? (·.1 = k) with
      | some kv => some kv.2
      | none => look m k := by
  induction l generalizing m with
  | nil => rfl
  | cons kv rest ih =>
    simp only [List.foldl_cons, List.find?_cons]
    have hd' := (List.pairwise_cons.mp hd)
    by_cases h : kv.1 = k
    · simp only [h, decide_true, if_true]
      rw [look_foldl_ins_not_mem rest _ k (fun x hx => by
        intro hxk; exact hd'.1 x hx (by rw [h, hxk])), look_ins]
      simp [h]
    · simp only [h, decide_false, if_false]
      rw [ih hd'.2, look_ins]
      simp [h]

theorem find_perm_distinct (l₁ l₂ : List (Text × Text)) (hp : l₁.Perm l₂)
    (hd : l₁.Pairwise (fun a b => a.1 ≠ b.1)) (k : Text) :
    l₁.find? (·.1 = k) = l₂.find? (·.1 = k) := by
  have hd2 : l₂.Pairwise (fun a b => a.1 ≠ b.1) := hd.perm hp (fun h => Ne.symm h)
  cases h1 : l₁.find? (·.1 = k) with
  | none =>
    symm; rw [List.find?_eq_none] at h1 ⊢
    exact fun x hx => h1 x (hp.symm.subset hx)
  | some a =>
    have ha := List.mem_of_find?_eq_some h1
    have hak : a.1 = k := by simpa using List.find?_some h1
    cases h2 : l₂.find? (·.1 = k) with
    | none =>
      rw [List.find?_eq_none] at h2
      exact absurd (by simpa using hak) (h2 a (hp.subset ha))
    | some b =>
      have hb := List.mem_of_find?_eq_some h2
      have hbk : b.1 = k := by simpa using List.find?_some h2
      have hb1 : b ∈ l₁ := hp.symm.subset hb
      by_cases hab : a = b
      · rw [hab]
      · exfalso
        rcases List.mem_iff_getElem.mp ha with ⟨i, hi, rfl⟩
        rcases List.mem_iff_getElem.mp hb1 with ⟨j, hj, rfl⟩
        rcases Nat.lt_trichotomy i j with h | h | h
        · exact (List.pairwise_iff_getElem.mp hd i j hi hj h) (by rw [hak, hbk])
        · subst h; exact hab rfl
        · exact (List.pairwise_iff_getElem.mp hd j i hj hi h) (by rw [hak, hbk])

/-- T `insert_perm_lookup` (map→map copies, `SetXattr` from PAX records, env/annotation merges,
images keyed by architecture): inserting bindings with distinct keys in ANY order yields a map with the
same lookups. -/
theorem insert_perm_lookup (l₁ l₂ : List (Text × Text)) (hp : l₁.Perm l₂)
    (hd : l₁.Pairwise (fun a b => a.1 ≠ b.1)) (m : List (Text × Text)) (k : Text) :
    look (l₁.foldl ins m) k = look (l₂.foldl ins m) k := by
  have hd2 : l₂.Pairwise (fun a b => a.1 ≠ b.1) := hd.perm hp (fun h => Ne.symm h)
  rw [look_foldl_ins l₁ hd, look_foldl_ins l₂ hd2, find_perm_distinct l₁ l₂ hp hd k]

/-! ## explicit tie-breaks of the resolver -/

/-- the preorder `lowestOption` minimises: fewer options first, then the smaller key -/
def optLe (a b : Text × List Pkg) : Prop :=
  a.2.length < b.2.length ∨ (a.2.length = b.2.length ∧ a.1 ≤ b.1)

theorem lowest_fold_spec (xs : List (Text × List Pkg)) (x : Text × List Pkg) :
    let r := xs.foldl (fun m y =>
      if y.2.length < m.2.length then y
      else if y.2.length = m.2.length && y.1 < m.1 then y else m) x
    r ∈ x :: xs ∧ ∀ z ∈ x :: xs, optLe r z := by
  induction xs generalizing x with
  | nil => simp [optLe, List.le_refl]
  | cons y ys ih =>
    simp only [List.foldl_cons]
    have := ih (if y.2.length < x.2.length then y
      else if (y.2.length = x.2.length && y.1 < x.1) = true then y else x)
    obtain ⟨hm, hle⟩ := this
    refine ⟨?_, ?_⟩
    · rcases List.mem_cons.mp hm with h | h
      · rw [h]; split
        · simp
        · split <;> simp
      · exact List.mem_cons_of_mem _ (List.mem_cons_of_mem _ h)
    · intro z hz
      have hstep : optLe (if y.2.length < x.2.length then y
          else if (y.2.length = x.2.length && y.1 < x.1) = true then y else x) x ∧
          optLe (if y.2.length < x.2.length then y
          else if (y.2.length = x.2.length && y.1 < x.1) = true then y else x) y := by
        unfold optLe
        by_cases h1 : y.2.length < x.2.length
        · rw [if_pos h1]; exact ⟨Or.inl h1, Or.inr ⟨rfl, List.le_refl _⟩⟩
        · rw [if_neg h1]
          by_cases h2 : (y.2.length = x.2.length && y.1 < x.1) = true
          · rw [if_pos h2]
            simp only [Bool.and_eq_true, decide_eq_true_eq] at h2
            exact ⟨Or.inr ⟨h2.1, List.le_of_lt h2.2⟩, Or.inr ⟨rfl, List.le_refl _⟩⟩
          · rw [if_neg h2]
            refine ⟨Or.inr ⟨rfl, List.le_refl _⟩, ?_⟩
            simp only [Bool.and_eq_true, decide_eq_true_eq, not_and] at h2
            rcases Nat.lt_or_ge x.2.length y.2.length with h3 | h3
            · exact Or.inl h3
            · have he : y.2.length = x.2.length := by omega
              exact Or.inr ⟨he.symm, List.not_lt.mp (h2 he)⟩
      have htrans : ∀ a b c : Text × List Pkg, optLe a b → optLe b c → optLe a c := by
        intro a b c h1 h2
        unfold optLe at *
        rcases h1 with h1 | ⟨h1, h1'⟩ <;> rcases h2 with h2 | ⟨h2, h2'⟩
        · exact Or.inl (by omega)
        · exact Or.inl (by omega)
        · exact Or.inl (by omega)
        · exact Or.inr ⟨by omega, List.le_trans h1' h2'⟩
      rcases List.mem_cons.mp hz with rfl | hz
      · exact htrans _ _ _ (hle _ List.mem_cons_self) hstep.1
      · rcases List.mem_cons.mp hz with rfl | hz
        · exact htrans _ _ _ (hle _ List.mem_cons_self) hstep.2
        · exact hle z (List.mem_cons_of_mem _ hz)

theorem lowestOption_spec {l : List (Text × List Pkg)} {r : Text × List Pkg}
    (h : Resolver.lowestOption l = some r) : r ∈ l ∧ ∀ z ∈ l, optLe r z := by
  cases l with
  | nil => simp [Resolver.lowestOption] at h
  | cons x xs =>
    simp only [Resolver.lowestOption, Option.some.injEq] at h
    rw [← h]; exact lowest_fold_spec xs x

/-- T `lowest_perm_invariant`: the dependency solved next (`for k, v := range options` with the
explicit `(len, key)` tie-break) does not depend on the iteration order of the `options` map
(keys of a map are distinct). -/
theorem lowest_perm_invariant (l₁ l₂ : List (Text × List Pkg)) (hp : l₁.Perm l₂)
    (hd : l₁.Pairwise (fun a b => a.1 ≠ b.1)) :
    Resolver.lowestOption l₁ = Resolver.lowestOption l₂ := by
  cases h1 : Resolver.lowestOption l₁ with
  | none =>
    cases l₁ with
    | nil => have := hp.symm.eq_nil; simp [this, Resolver.lowestOption]
    | cons x xs => simp [Resolver.lowestOption] at h1
  | some r1 =>
    cases h2 : Resolver.lowestOption l₂ with
    | none =>
      cases l₂ with
      | nil => have := hp.eq_nil; subst this; simp [Resolver.lowestOption] at h1
      | cons x xs => simp [Resolver.lowestOption] at h2
    | some r2 =>
      have ⟨m1, le1⟩ := lowestOption_spec h1
      have ⟨m2, le2⟩ := lowestOption_spec h2
      have a := le1 r2 (hp.symm.subset m2)
      have b := le2 r1 (hp.subset m1)
      have hk : r1.1 = r2.1 := by
        unfold optLe at a b
        rcases a with a | ⟨a, a'⟩ <;> rcases b with b | ⟨b, b'⟩
        · omega
        · omega
        · omega
        · exact List.le_antisymm a' b'
      congr 1
      by_cases hr : r1 = r2
      · exact hr
      · exfalso
        have m2' : r2 ∈ l₁ := hp.symm.subset m2
        rcases List.mem_iff_getElem.mp m1 with ⟨i, hi, rfl⟩
        rcases List.mem_iff_getElem.mp m2' with ⟨j, hj, rfl⟩
        rcases Nat.lt_trichotomy i j with h | h | h
        · exact (List.pairwise_iff_getElem.mp hd i j hi hj h) hk
        · subst h; exact hr rfl
        · exact (List.pairwise_iff_getElem.mp hd j i hj hi h) hk.symm

/-- T `minFunc_unique_min`: `slices.MinFunc` over candidates in ANY order returns the same package
whenever some candidate strictly beats every other one under the comparator (which is what a
consistent comparator with the final name tie-break provides for differently named providers). -/
theorem minFunc_unique_min (cmp : Pkg → Pkg → Ordering) (l : List Pkg) (b : Pkg) (hb : b ∈ l)
    (hbest : ∀ x ∈ l, x ≠ b → cmp b x = .lt ∧ cmp x b ≠ .lt) :
    Resolver.minFunc cmp l = some b := by
  cases l with
  | nil => cases hb
  | cons x xs =>
    simp only [Resolver.minFunc, Option.some.injEq]
    -- invariant of the fold: the running minimum is b once b has been seen, and never beats b
    suffices H : ∀ (ys : List Pkg) (m : Pkg), (∀ y ∈ ys, y ≠ b → cmp b y = .lt ∧ cmp y b ≠ .lt) →
        (m = b ∨ (b ∈ ys ∧ (m ≠ b → cmp b m = .lt))) →
        ys.foldl (fun m y => if cmp y m = .lt then y else m) m = b by
      apply H xs x (fun y hy => hbest y (List.mem_cons_of_mem _ hy))
      rcases List.mem_cons.mp hb with h | h
      · exact Or.inl h.symm
      · exact Or.inr ⟨h, fun hne => (hbest x List.mem_cons_self hne).1⟩
    intro ys
    induction ys with
    | nil => intro m _ h; rcases h with h | ⟨h, _⟩; exact h; cases h
    | cons y ys ih =>
      intro m hall hm
      simp only [List.foldl_cons]
      apply ih _ (fun z hz => hall z (List.mem_cons_of_mem _ hz))
      by_cases hyb : y = b
      · subst hyb
        rcases hm with hm | ⟨_, hm⟩
        · subst hm; left; split <;> rfl
        · by_cases hmb : m = y
          · subst hmb; left; split <;> rfl
          · left; simp [hm hmb]
      · have hy := hall y List.mem_cons_self hyb
        rcases hm with hm | ⟨hmem, hm⟩
        · subst hm; left
          have : cmp y m ≠ .lt := hy.2
          simp [this]
        · right
          refine ⟨by rcases List.mem_cons.mp hmem with h | h; exact absurd h.symm hyb; exact h, ?_⟩
          split
          · intro _; exact hy.1
          · exact hm

/-! ## the provider choice does not depend on the order of `nameMap[virtual]` (F08b repaired) -/

open Resolver in
/-- T `comparePackages_lex`: for every comparator context and ALL packages (parsable versions or
not) the repaired comparator is the lexicographic comparison of the per-package key
(existing-match, origin-match, pin-match, priority ↓, provided version ↓ [unparsable last],
own version ↓ [unparsable last], name ↑) — the pair-dependent guard in front of the own-version
step is immaterial (`Cmp.verSteps_eq`). -/
theorem comparePackages_lex (name pin : Text) (existing : List (Text × Pkg)) (origins : List Text)
    (a b : Pkg) :
    comparePackages .eq name pin existing origins a b =
      ((Cmp.cmpBool (Cmp.kExisting existing a) (Cmp.kExisting existing b)).then <|
       (Cmp.cmpBool (origins.contains a.origin) (origins.contains b.origin)).then <|
       (Cmp.cmpBool (a.pin = pin) (b.pin = pin)).then <|
       (Cmp.cmpNatDesc a.priority b.priority).then <|
       (Cmp.cmpOptVer (pv (getDepVersionForName a name)) (pv (getDepVersionForName b name))).then <|
       (Cmp.cmpOptVer (pv a.version) (pv b.version)).then <|
       cmpText a.name b.name) :=
  Cmp.comparePackages_eq_lex name pin existing origins a b

open Resolver in
/-- T `comparePackages_swo`: the repaired comparator is a strict weak order on ALL packages:
antisymmetric in the three-way sense, `.lt` transitive, `.eq` (incomparability) transitive, and
`.lt` compatible with `.eq` on both sides. -/
theorem comparePackages_swo (name pin : Text) (existing : List (Text × Pkg)) (origins : List Text) :
    let cmp := comparePackages .eq name pin existing origins
    (∀ a b, (cmp a b).swap = cmp b a) ∧
    (∀ a b, cmp a b = .lt ↔ cmp b a = .gt) ∧
    (∀ a b c, cmp a b = .lt → cmp b c = .lt → cmp a c = .lt) ∧
    (∀ a b c, cmp a b = .eq → cmp b c = .eq → cmp a c = .eq) ∧
    (∀ a b c, cmp a b = .eq → cmp b c = .lt → cmp a c = .lt) ∧
    (∀ a b c, cmp a b = .lt → cmp b c = .eq → cmp a c = .lt) := by
  have h := Cmp.comparePackages_swo name pin existing origins
  exact ⟨h.swap, h.lt_iff_gt, h.lt_trans, h.eq_trans, fun _ _ _ => h.eq_lt_trans,
    fun _ _ _ => h.lt_eq_trans⟩

open Resolver in
/-- T `comparePackages_eq_same_name`: the repaired comparator only ties packages of one name (which
`nameMap` keeps in index order whatever the map order was). -/
theorem comparePackages_eq_same_name (name pin : Text) (existing : List (Text × Pkg))
    (origins : List Text) (a b : Pkg)
    (h : comparePackages .eq name pin existing origins a b = .eq) : a.name = b.name :=
  Cmp.comparePackages_eq_same_name name pin existing origins a b h

open Resolver in
/-- T `comparePackages_code_ties_same_name`: the same about the comparator AS TRANSLATED FROM repo.go on this run
(`Generated.Trans.comparePackages`, Go's `-1 / 0 / +1`; `TransResolver.trans_comparePackages`): whenever the closure
`comparePackages` returns answers 0 the two packages have one name, so among the differently named providers that
`newPkgResolver`'s map range appended to `nameMap[virtual]` in map order the comparator never leaves the choice to
`slices.MinFunc`'s "first minimal element". -/
theorem comparePackages_code_ties_same_name (name pin : Text) (existing : List (Text × Pkg))
    (origins : List Text) (a b : Pkg)
    (h : Generated.Trans.comparePackages none name existing origins pin a b = 0) : a.name = b.name := by
  rw [TransResolver.trans_comparePackages] at h
  apply comparePackages_eq_same_name name pin existing origins a b
  cases hc : comparePackages .eq name pin existing origins a b <;> simp [hc, Trans.ordInt] at h ⊢

/-- two providers of `tool=2` with one package version, one origin, equal priority: only the name is left -/
def tieProbe (id : Nat) (name : String) : Pkg :=
  ⟨id, name.toList, "1.0-r0".toList, "tool-src".toList, "r".toList, [], 0, [], ["tool=2".toList], []⟩

/-- the hypothesis is satisfiable (a package against its copy in another index), and on the tied providers the
translated comparator decides by name in both directions -/
example : Generated.Trans.comparePackages none "tool".toList [] [] [] (tieProbe 0 "alt-a") (tieProbe 1 "alt-a") = 0 := by decide
example : Generated.Trans.comparePackages none "tool".toList [] [] [] (tieProbe 0 "alt-a") (tieProbe 1 "alt-b") = -1 := by decide
example : Generated.Trans.comparePackages none "tool".toList [] [] [] (tieProbe 1 "alt-b") (tieProbe 0 "alt-a") = 1 := by decide

open Resolver in
/-- F08b witness: the PINNED comparator (`bothBad = .gt`: both provided versions unparsable ⇒
"the other one is better") answers `.gt` in both directions on `pa` (provides `virt=abc`) and `pb`
(provides `virt=xyz`), and `slices.MinFunc` then returns whichever came first; so the full
statement "the provider choice is order independent" is false for `bothBad = .gt`. -/
theorem comparePackages_pinned_not_antisymm :
    comparePackages .gt "virt".toList [] [] [] Cmp.wA Cmp.wB = .gt ∧
    comparePackages .gt "virt".toList [] [] [] Cmp.wB Cmp.wA = .gt ∧
    minFunc (comparePackages .gt "virt".toList [] [] []) [Cmp.wA, Cmp.wB] ≠
      minFunc (comparePackages .gt "virt".toList [] [] []) [Cmp.wB, Cmp.wA] := by
  refine ⟨Cmp.comparePackages_pinned_not_antisymm.1, Cmp.comparePackages_pinned_not_antisymm.2, ?_⟩
  rw [Cmp.minFunc_pinned_order_dependent.1, Cmp.minFunc_pinned_order_dependent.2.1]
  decide

/-- T `minFunc_perm_invariant`: for ANY comparator that is a strict weak order, two candidate lists
in which every equivalence class appears in the same order (elements of different classes may be
interleaved arbitrarily; the hypothesis makes the lists permutations of each other) have the same
first minimum (`slices.MinFunc`). -/
theorem minFunc_perm_invariant (cmp : Pkg → Pkg → Ordering) (h : Cmp.SWO cmp) (l₁ l₂ : List Pkg)
    (hcls : ∀ x, l₁.filter (fun y => cmp y x = .eq) = l₂.filter (fun y => cmp y x = .eq)) :
    Resolver.minFunc cmp l₁ = Resolver.minFunc cmp l₂ :=
  Cmp.minFunc_perm_invariant h l₁ l₂ hcls

/-- T `nameMap_order_irrelevant`: for two map iteration orders that are permutations of each other
(e.g. any two permutations of `ownNames u`), `nameMap[name]` is the same multiset of candidates
and, for every package name, the candidates of that name appear in the same order. -/
theorem nameMap_order_irrelevant (u : Universe) (o₁ o₂ : List Text) (hp : o₁.Perm o₂) (name : Text) :
    (Resolver.nameMap u o₁ name).Perm (Resolver.nameMap u o₂ name) ∧
    ∀ m : Text, (Resolver.nameMap u o₁ name).filter (fun p => p.name = m) =
      (Resolver.nameMap u o₂ name).filter (fun p => p.name = m) :=
  Cmp.nameMap_order_irrelevant u o₁ o₂ hp name

open Resolver in
/-- T `bestPackage_order_irrelevant`: the step `bestPackage(filterPackages(nameMap[virt], …))` of
`resolvePackage` and of the dependency loop returns the same provider for both orders — for every
disqualified set, constraint, pins, installed package and comparator context. -/
theorem bestPackage_order_irrelevant (u : Universe) (o₁ o₂ : List Text) (hp : o₁.Perm o₂)
    (virt : Text) (dq : List Nat) (version : Text) (dep : Dep) (allowPin preferPin : Text)
    (installed : Option Pkg) (name pin : Text) (existing : List (Text × Pkg)) (origins : List Text) :
    minFunc (comparePackages .eq name pin existing origins)
        (filterPackages (nameMap u o₁ virt) dq version dep allowPin preferPin installed) =
      minFunc (comparePackages .eq name pin existing origins)
        (filterPackages (nameMap u o₂ virt) dq version dep allowPin preferPin installed) :=
  Cmp.bestPackage_order_irrelevant u o₁ o₂ hp virt dq version dep allowPin preferPin installed
    name pin existing origins

open Resolver in
/-- T `resolvePackage_order_irrelevant`: with the repaired comparator `resolvePackage` (the choice
for a world entry) is the same function of (universe, constraint, disqualified set) for both orders. -/
theorem resolvePackage_order_irrelevant (c : Resolver.Cfg) (hb : c.bothBad = .eq) (o₁ o₂ : List Text)
    (hp : o₁.Perm o₂) (pkgName : Text) (dq : List Nat) :
    resolvePackage { c with order := o₁ } pkgName dq = resolvePackage { c with order := o₂ } pkgName dq :=
  Cmp.resolvePackage_order_irrelevant c hb o₁ o₂ hp pkgName dq

/-- non-vacuity: two orders that are permutations of `ownNames`, for which `nameMap["virt"]` really
differs (so the theorems above are not about equal lists). -/
example :
    let u : Universe := [⟨[], [], [Cmp.wA, Cmp.wB]⟩]
    let o₁ := ["pa".toList, "pb".toList]
    let o₂ := ["pb".toList, "pa".toList]
    o₁ = Resolver.ownNames u ∧ o₁.Perm o₂ ∧
    Resolver.nameMap u o₁ "virt".toList = [Cmp.wA, Cmp.wB] ∧
    Resolver.nameMap u o₂ "virt".toList = [Cmp.wB, Cmp.wA] := by
  refine ⟨by decide, ?_, by decide, by decide⟩
  exact List.Perm.swap _ _ _

/-! ## … and neither does a whole resolution -/

/-- the full statement: the result of `GetPackagesWithDependencies` (install list, conflicts, ghost
flags, or the error outcome) does not depend on the map iteration order used by `newPkgResolver` -/
def ResolveOrderIrrelevant (c : Resolver.Cfg) : Prop :=
  ∀ o₁ o₂ : List Text, o₁.Perm o₂ → ∀ (world : List Text) (dq₀ : List Nat),
    Resolver.resolve { c with order := o₁ } world dq₀ = Resolver.resolve { c with order := o₂ } world dq₀

/-- T `resolve_order_irrelevant`: with the repaired comparator (F08b) the statement holds for EVERY
universe, world, initial disqualified set, install_if mode and pair of orders (no hypothesis on the
universe: ids need not be unique, versions need not parse). -/
theorem resolve_order_irrelevant (c : Resolver.Cfg) (hb : c.bothBad = .eq) : ResolveOrderIrrelevant c :=
  fun o₁ o₂ hp world dq₀ => Cmp.resolve_order_irrelevant c hb o₁ o₂ hp world dq₀

/-- T `resolve_canonical_order`: the configuration the driver executes and the correspondence suite
validates against the Go code (`order := ownNames u`, ascending) computes what EVERY map order of
`newPkgResolver` (any permutation of the own names) computes. -/
theorem resolve_canonical_order (u : Universe) (o : List Text) (hp : o.Perm (Resolver.ownNames u))
    (installIfFixed : Bool) (addedOrder : List Text → List Text) (world : List Text) (dq₀ : List Nat) :
    Resolver.resolve ⟨u, o, .eq, installIfFixed, addedOrder⟩ world dq₀ =
      Resolver.resolve ⟨u, Resolver.ownNames u, .eq, installIfFixed, addedOrder⟩ world dq₀ :=
  Cmp.resolve_rel (c₁ := ⟨u, o, .eq, installIfFixed, addedOrder⟩)
    (c₂ := ⟨u, Resolver.ownNames u, .eq, installIfFixed, addedOrder⟩) ⟨rfl, hp, rfl, rfl, rfl, rfl⟩ world dq₀

/-- the F08b universe: `pa` provides `virt=abc`, `pb` provides `virt=xyz` -/
def f08bCfg (bothBad : Ordering) : Resolver.Cfg :=
  ⟨[⟨[], [], [Cmp.wA, Cmp.wB]⟩], [], bothBad, true, id⟩

def installedIds (r : Res Resolver.Resolution) : List Nat :=
  match r with | .ok x => x.install.map (·.id) | _ => []

/-- negation witness for the pinned comparator: world `[virt]` installs `pa` under one map order
and `pb` under the other. -/
theorem resolve_order_dependent_pinned : ¬ ResolveOrderIrrelevant (f08bCfg .gt) := by
  intro h
  have := congrArg installedIds
    (h ["pa".toList, "pb".toList] ["pb".toList, "pa".toList] (List.Perm.swap _ _ _) ["virt".toList] [])
  revert this
  decide

/-- non-vacuity of `resolve_order_irrelevant`: the repaired configuration on the same universe
resolves (to `pa`) under both orders. -/
example : (f08bCfg .eq).bothBad = .eq ∧
    installedIds (Resolver.resolve { f08bCfg .eq with order := ["pa".toList, "pb".toList] } ["virt".toList] []) = [0] ∧
    installedIds (Resolver.resolve { f08bCfg .eq with order := ["pb".toList, "pa".toList] } ["virt".toList] []) = [0] := by
  decide

/-! ## goroutine completion order of `GetRepositoryIndexes` -/

open IndexOrder in
/-- T `collect_schedule_independent`: whatever the order in which the per-repository goroutines finish (any list of
completion events in which every position occurs — repeated events included), the list `GetRepositoryIndexes`
returns is the list of the indexes that exist in the order of the repository LINES. -/
theorem collect_schedule_independent {α : Type} (n : Nat) (fetch : Nat → Option α) (schedule : List Nat)
    (h : IsSchedule n schedule) : collectPositional n fetch schedule = inLineOrder n fetch := by
  unfold collectPositional inLineOrder
  rw [slots_final n fetch schedule h, compact_map]

open IndexOrder in
/-- T `collect_perm_invariant`: any two permutations of the completion events give the same list. -/
theorem collect_perm_invariant {α : Type} (n : Nat) (fetch : Nat → Option α) (s₁ s₂ : List Nat)
    (h₁ : s₁.Perm (List.range n)) (h₂ : s₂.Perm (List.range n)) :
    collectPositional n fetch s₁ = collectPositional n fetch s₂ := by
  rw [collect_schedule_independent n fetch s₁ (isSchedule_of_perm n s₁ h₁),
    collect_schedule_independent n fetch s₂ (isSchedule_of_perm n s₂ h₂)]

open IndexOrder in
/-- the full statement for a collection discipline `collect`: its result does not depend on the schedule -/
def ScheduleIndependent (collect : (Nat → Option Nat) → List Nat → List Nat) : Prop :=
  ∀ (fetch : Nat → Option Nat) (s₁ s₂ : List Nat), s₁.Perm s₂ → collect fetch s₁ = collect fetch s₂

open IndexOrder in
/-- collecting with `append` under a mutex (completion order) agrees with the line order under the in-order
schedule — which is why a single run, or GOMAXPROCS=1, does not show the difference … -/
theorem collectAppend_in_order {α : Type} (n : Nat) (fetch : Nat → Option α) :
    collectAppend fetch (List.range n) = inLineOrder n fetch := rfl

open IndexOrder in
/-- … but it is not a function of the inputs: the negation of the full statement for `collectAppend`. -/
theorem collectAppend_schedule_dependent : ¬ ScheduleIndependent collectAppend := by
  intro h
  have := h some [0, 1] [1, 0] (List.Perm.swap _ _ _)
  revert this
  decide

open IndexOrder in
/-- T `resolverInput_schedule_independent`: for the repository lines as written and the indexes they publish, the
universe handed to `NewPkgResolver` is `Glue.indexesOf lines u` — one index per distinct line, in the order of the
sorted set of lines — for every schedule. -/
theorem resolverInput_schedule_independent (lines : List Text) (u : Universe) (schedule : List Nat)
    (h : IsSchedule (Glue.sortedSet lines).length schedule) :
    resolverInput lines u schedule = Glue.indexesOf lines u := by
  unfold resolverInput
  rw [collect_schedule_independent _ _ schedule h]
  unfold inLineOrder Glue.indexesOf
  exact filterMap_range_getElem? (Glue.sortedSet lines) (Glue.indexOf lines u)

open IndexOrder in
/-- T `resolve_schedule_independent`: hence a whole resolution (any configuration built from the universe) is the
same under any two schedules. -/
theorem resolve_schedule_independent (lines : List Text) (u : Universe) (s₁ s₂ : List Nat)
    (h₁ : IsSchedule (Glue.sortedSet lines).length s₁) (h₂ : IsSchedule (Glue.sortedSet lines).length s₂)
    (mk : Universe → Resolver.Cfg) (world : List Text) (dq₀ : List Nat) :
    Resolver.resolve (mk (resolverInput lines u s₁)) world dq₀ =
      Resolver.resolve (mk (resolverInput lines u s₂)) world dq₀ := by
  rw [resolverInput_schedule_independent lines u s₁ h₁, resolverInput_schedule_independent lines u s₂ h₂]

/-- two repositories offering `p-1.0-r0` (other file: other id) -/
def tieA : Index := ⟨[], "a".toList, [⟨0, "p".toList, "1.0-r0".toList, [], "a".toList, [], 0, [], [], []⟩]⟩
def tieB : Index := ⟨[], "b".toList, [⟨1, "p".toList, "1.0-r0".toList, [], "b".toList, [], 0, [], [], []⟩]⟩

def tieCfg (u : Universe) : Resolver.Cfg := ⟨u, Resolver.ownNames u, .eq, true, id⟩

/-- T `resolve_index_order_matters`: the position of an index in the list DOES reach the result — two
repositories offering one name and version tie under `comparePackages`, and the first in the list wins.  So the
list order has to be a function of the configuration (it is: `resolverInput_schedule_independent`). -/
theorem resolve_index_order_matters :
    installedIds (Resolver.resolve (tieCfg [tieA, tieB]) ["p".toList] []) = [0] ∧
    installedIds (Resolver.resolve (tieCfg [tieB, tieA]) ["p".toList] []) = [1] := by
  decide

open IndexOrder in
/-- … and collecting in completion order lets the schedule choose the package: the same two lines, the same two
indexes, two schedules, two different installations. -/
theorem resolve_append_schedule_dependent :
    installedIds (Resolver.resolve (tieCfg (collectAppend (fun i => [tieA, tieB][i]?) [0, 1])) ["p".toList] []) ≠
    installedIds (Resolver.resolve (tieCfg (collectAppend (fun i => [tieA, tieB][i]?) [1, 0])) ["p".toList] []) := by
  decide

/-- non-vacuity: a schedule that is not the line order, a missing local index in the middle (compaction), and
the positional collection still gives the line order while the appending one does not. -/
example :
    let fetch : Nat → Option Nat := fun i => if i = 1 then none else some (10 * i)
    IndexOrder.IsSchedule 3 [2, 1, 0] ∧
    IndexOrder.collectPositional 3 fetch [2, 1, 0] = [0, 20] ∧
    IndexOrder.collectAppend fetch [2, 1, 0] = [20, 0] := by
  refine ⟨⟨?_, ?_⟩, by decide, by decide⟩
  · intro i hi; simp; omega
  · intro i hi; simp at hi; omega

/-- the statements of `GetRepositoryIndexes` that fix the position of every index: one slot per line, the store at
the goroutine's own position `i` (the key of the range over `repos`), nothing but the compaction and the return
behind `eg.Wait()`, a missing local index leaves its slot nil (`IndexOrder.complete`, `.compact`) -/
theorem tie_getRepositoryIndexes_positional :
    Generated.griIndexesStmts =
      ["indexes := make([]NamedIndex, len(repos))",
       "indexes[i] = index",
       "indexes = slices.DeleteFunc(indexes, func(idx NamedIndex) bool { return idx == nil })",
       "return indexes, nil"] ∧
    Generated.griRange = "i, repo := range repos" ∧
    Generated.griFetch = "globalIndexCache.get(ctx, repoName, repoURL, keys, arch, opts)" ∧
    Generated.griMissingLocal.getLast? = some "return nil" ∧
    Generated.griAfterLoop =
      ["if err := eg.Wait(); err != nil { return nil, err }",
       "indexes = slices.DeleteFunc(indexes, func(idx NamedIndex) bool { return idx == nil })",
       "return indexes, nil"] := ⟨rfl, rfl, rfl, rfl, rfl⟩

/-! ## the history of the process: images built earlier by the same process -/

open MemoHistory in
/-- FULL statement: whatever was built before in this process (any keys, any worlds, any solver), the target
resolves to what it resolves to in a fresh process. -/
def HistoryIndependent (sh : GetShape) : Prop :=
  ∀ (W R : Type) (diff : Key → Dq) (S : Solver W R) (hist : List (Key × W)) (target : Key × W),
    after sh diff S hist target = after sh diff S [] target

open MemoHistory in
theorem build_history_independent : HistoryIndependent ⟨true, true⟩ := by
  intro W R diff S hist target
  rw [after_copying, after_copying]

open MemoHistory in
/-- the solver of the witnesses: a solve disqualifies the ids of its world and reports the map it started from -/
def echoSolver : Solver (List Nat) (List Nat) := ⟨fun w _ => w, fun _ dq => dq⟩

open MemoHistory in
/-- the miss path returns the stored map itself (`return dq` behind `r.fill(indexes, dq)`): the first solve of a key
writes its disqualifications into the memo, the next build with that key starts from them -/
theorem build_history_dependent_missAlias : ¬ HistoryIndependent ⟨false, true⟩ := by
  intro h
  have := h _ _ (fun _ => []) echoSolver [([], [1])] ([], [2])
  exact absurd this (by decide)

open MemoHistory in
/-- the hit path returns the stored map itself: the second solve of a key pollutes it for the third -/
theorem build_history_dependent_hitAlias : ¬ HistoryIndependent ⟨true, false⟩ := by
  intro h
  have := h _ _ (fun _ => []) echoSolver [([], [1]), ([], [3])] ([], [2])
  exact absurd this (by decide)

open MemoHistory in
/-- whatever `Get` hands out: a target whose key (the index objects of its architectures) no earlier build of the
process used resolves as in a fresh process -/
theorem build_history_independent_partial (sh : GetShape) (W R : Type) (diff : Key → Dq) (S : Solver W R)
    (hist : List (Key × W)) (target : Key × W) (hk : ∀ b ∈ hist, b.1 ≠ target.1) :
    after sh diff S hist target = after sh diff S [] target := by
  rw [after_absent sh diff S hist target hk, after_absent sh diff S [] target (by intro b hb; cases hb)]

open MemoHistory in
example : (∀ b ∈ [(([7] : Key), [1])], b.1 ≠ (([] : Key), [2]).1) ∧
    after ⟨false, false⟩ (fun _ => []) echoSolver [([7], [1])] ([], [2]) = [] := by decide

/-- the statements of `disqualifyCache.Get` that touch the published map, in source order -/
def dqGetStmts : List String := (Generated.aliasPublishedUses.filter (·.1 = "disqualifyCache.Get")).map (·.2)

theorem tie_dqGet_stmts : dqGetStmts =
    ["dq := r.find(indexes)", "dq != nil", "return maps.Clone(dq)",
     "dq := disqualifyDifference(ctx, byArch)", "r.fill(indexes, dq)", "return maps.Clone(dq)"] := by decide

/-- the statements of `Get` that are not returns: lookup, test of the lookup, computation on a miss -/
def dqGetPlain : List String :=
  ["dq := r.find(indexes)", "dq != nil", "dq == nil", "dq := disqualifyDifference(ctx, byArch)",
   "dq = disqualifyDifference(ctx, byArch)"]

theorem dqGet_copies :
    MemoHistory.shapeOf "r.fill(indexes, dq)" "return maps.Clone(dq)" dqGetPlain dqGetStmts = ⟨true, true⟩ := by decide

theorem dqGet_history_independent :
    HistoryIndependent (MemoHistory.shapeOf "r.fill(indexes, dq)" "return maps.Clone(dq)" dqGetPlain dqGetStmts) := by
  rw [dqGet_copies]; exact build_history_independent

/-- the same reading of `resolverCache.Get`: a `Clone()` on both paths -/
theorem resolverGet_copies :
    MemoHistory.shapeOf "r.fill(indexes, pr)" "return pr.Clone()"
      ["pr := r.find(indexes)", "pr != nil", "pr == nil", "pr := newPkgResolver(ctx, indexes)", "pr = newPkgResolver(ctx, indexes)"]
      ((Generated.aliasPublishedUses.filter (·.1 = "resolverCache.Get")).map (·.2)) = ⟨true, true⟩ := by decide

/-- what the reading gives for a `Get` that returns the stored map behind the `fill` -/
example : MemoHistory.shapeOf "r.fill(indexes, dq)" "return maps.Clone(dq)" dqGetPlain
    ["dq := r.find(indexes)", "dq == nil", "dq = disqualifyDifference(ctx, byArch)", "r.fill(indexes, dq)", "return dq",
     "return maps.Clone(dq)"] = ⟨false, true⟩ := by decide

/-! ## the scratch directory -/

open IndexOrder in
/-- T `emitted_scratch_independent`: what the image carries of the repositories (/etc/apk/repositories,
/etc/apko.json) is the same for every scratch directory. -/
theorem emitted_scratch_independent (b : BuildIn) (scratch : Text) :
    emitted { b with scratch := scratch } = emitted b := rfl

open IndexOrder in
/-- … although the scratch directory IS among the repositories of the resolution when there is a base image
(non-vacuity: the model has the flow that must not reach the image). -/
theorem scratch_reaches_resolution (b : BuildIn) (h : b.hasBase = true) :
    apkIndexPath b.scratch ∈ resolveRepos b := by
  unfold resolveRepos; simp [h]

open IndexOrder in
/-- negation for the variant that registers the base image's index in the configuration: /etc/apko.json then
differs between two scratch directories. -/
theorem emittedRegistered_scratch_dependent :
    ¬ ∀ (b : BuildIn) (scratch : Text), emittedRegistered { b with scratch := scratch } = emittedRegistered b := by
  intro h
  have := h ⟨[], [], true, "/tmp/a".toList⟩ "/tmp/b".toList
  revert this
  decide

/-- every read of the scratch directory in pkg/build and pkg/baseimg is one of the audited ones (none stores it
in `bc.ic` or in the image) -/
theorem tie_scratchUses : Generated.scratchUses = IndexOrder.auditedScratchUses := rfl

/-- the repositories of the resolution start from the sorted set of the configured lines (`IndexOrder.resolveRepos`,
`Glue.indexesOf`) -/
theorem tie_buildRepos_sortedSet : Generated.buildReposExpr =
    "sets.List( sets.New(bc.ic.Contents.BuildRepositories...). Insert(bc.ic.Contents.RuntimeRepositories...). Insert(bc.o.ExtraBuildRepos...). Insert(bc.o.ExtraRuntimeRepos...), )" := by rfl

end Apko.C01
