/-
C05 (split) — which bytes get hashed, written and installed: `ExpandApk`, `expandApkWriter`, `PackageData`, `Split`.

Model: `Apko/Model/ExpandSplit.lean`.  gzip (one member at the head of a byte string), tar and the two hash functions
are parameters; no injectivity.  `Gz.Local` (a member is recognised from its own bytes) is the one property of gzip the
`ExpandApk` theorems use — `expandApkWriter.Next` reads the first stream file back on its own.

Proved for ALL gzip / tar / hash functions, sources, and chunkings `rd` of the source:
* `sizes_exact`, `tar_cache_is_gunzip`   for ANY size of the reads before the data section: the recorded sizes are the lengths of
                                  the stream files, which are consecutive ranges covering the source; the `.tar` handed on is the
                                  multistream gunzip of the `.tar.gz`, on both paths of `PackageData()`;
* `stream_exact` (`impl_stream_exact`)  one-byte reads (`tie_slowChunk`), `Gz.Local`, the repaired end of the loop (`tie_strict`): what is
                                  accepted was written and hashed along exactly the ranges of the format (`ranges`), and the tar walk
                                  of the gunzip of the data range passed `checkSums`; corollaries `control_hash_exact`,
                                  `data_hash_exact`, `files_written_exact`; `stream_exact_partial` for the pinned end of the loop
                                  (hypothesis: the data branch ran), `pinned_stream_not_exact` / `pinned_accepts_unchecked_stream`
                                  (F05f) refute the full statement there, `repaired_refuses_unchecked_stream`;
* `read_ahead_hashes_beyond_control`    what reads of more than one byte do (why `expandApkReader` exists);
* `split_exact`, `resolve_exact`, `expand_split_agree`   `Split` / `ResolveApk` cut and hash the same ranges;
* `expand_refines`, `expandPackageStream_refines`, `install_authentic_stream`   composition with Proofs/C05: `install_authentic`
                                  with the hashes derived from the fetched bytes;
* `cachedData_gunzip`, `tar_cache_inv_preserved_partial`, `tar_cache_inv_needs_collision_freedom`   the `.dat.tar` of the cache.
-/
import Apko.Model.ExpandSplit
import Apko.Generated.Split
import Apko.Proofs.Lemmas.SplitLoop
import Apko.Proofs.C05

namespace Apko.C05Split
open Apko Apko.Authentic Apko.ExpandSplit Apko.SplitLoop

/-! ### ties to the regenerated facts (extract/split.go: whole bodies as flat statement lists, nesting shown by `· `,
error texts left out, `return-error` = a return whose last result is an error) -/

/-- the reads of `expandApkReader` before `EnableFastRead` are one byte long: `buf := make([]byte, 1)` -/
theorem tie_slowChunk : Impl.slowChunk = Generated.expandApkReaderBuf := rfl

/-- the model's switch between the repaired and the pinned end of the loop follows the code: a flag set only in the data
branch and an `if !flag → return nil, error` after the loop -/
theorem tie_strict : Impl.strict = Generated.expandApkRequiresData := rfl

/-- a new writer has created no stream and expects two -/
theorem tie_sw_initial : ({ src := [] } : St).created = Generated.swInitialCreated ∧
    ({ src := [] } : St).maxStreams = Generated.swInitialMaxStreams := ⟨rfl, rfl⟩

/-- `ExpandApk` = `expandStream`: the reader stack (`exR` one-byte reader over the source, `tr` tees it into the stream
writer, `hr` tees THAT into the hash of the pass, gzip reads `hr`), SHA-1 per pass until `Next` reports the last stream,
then fast reads + SHA-256; `Multistream(false)` + drain for a control-side member (`readSlow`), `checkSums` + drain over a
tee into the `.tar` for the data section (`readData`), the hash is taken after the drain; sizes from the files; the 3 / 2
switch and the fields (`finish`, `build`); `ControlData`, `PackageData`, the two `tarfs.New` -/
theorem tie_ExpandApk : Generated.stmts_ExpandApk =
    ["dir, err := os.MkdirTemp(cacheDir, \"expand-apk\")",
     "if err != nil {",
     "· return-error",
     "}",
     "sw, err := newExpandApkWriter(dir, \"stream\", \"tar.gz\")",
     "if err != nil {",
     "· return-error",
     "}",
     "exR := newExpandApkReader(source)",
     "tr := io.TeeReader(exR, sw)",
     "var gzi *gzip.Reader",
     "gzipStreams := []string{}",
     "hashes := [][]byte{}",
     "maxStreamsReached := false",
     "dataRead := false",
     "for {",
     "· var h hash.Hash = sha1.New()",
     "· if err := sw.Next(); err != nil {",
     "· · if err == errExpandApkWriterMaxStreams {",
     "· · · maxStreamsReached = true",
     "· · · exR.EnableFastRead()",
     "· · · h = sha256.New()",
     "· · } else {",
     "· · · return-error",
     "· · }",
     "· }",
     "· hr := io.TeeReader(tr, h)",
     "· if gzi == nil {",
     "· · gzi, err = gzip.NewReader(hr)",
     "· } else {",
     "· · err = gzi.Reset(hr)",
     "· }",
     "· if err == io.EOF {",
     "· · break",
     "· } else if err != nil {",
     "· · return-error",
     "· }",
     "· if !maxStreamsReached {",
     "· · gzi.Multistream(false)",
     "· · if _, err := io.Copy(io.Discard, gzi); err != nil {",
     "· · · return-error",
     "· · }",
     "· · hashes = append(hashes, h.Sum(nil))",
     "· · gzipStreams = append(gzipStreams, sw.CurrentName())",
     "· } else {",
     "· · tarfilename := strings.TrimSuffix(sw.CurrentName(), \".gz\")",
     "· · tarfile, err := os.Create(tarfilename)",
     "· · if err != nil {",
     "· · · return-error",
     "· · }",
     "· · bw := pooledBufioWriter(tarfile)",
     "· · defer writerPool.Put(bw)",
     "· · tr := io.TeeReader(gzi, bw)",
     "· · if err := checkSums(ctx, tr); err != nil {",
     "· · · return-error",
     "· · }",
     "· · if _, err := io.Copy(io.Discard, tr); err != nil {",
     "· · · return-error",
     "· · }",
     "· · if err := bw.Flush(); err != nil {",
     "· · · return-error",
     "· · }",
     "· · if err := tarfile.Close(); err != nil {",
     "· · · return-error",
     "· · }",
     "· · gzipStreams = append(gzipStreams, sw.CurrentName())",
     "· · hashes = append(hashes, h.Sum(nil))",
     "· · dataRead = true",
     "· · break",
     "· }",
     "}",
     "if gzi != nil {",
     "· if err := gzi.Close(); err != nil {",
     "· · return-error",
     "· }",
     "}",
     "if err := sw.CloseFile(); err != nil {",
     "· return-error",
     "}",
     "numGzipStreams := len(gzipStreams)",
     "totalSize := int64(0)",
     "sizes := []int64{}",
     "for _, s := range gzipStreams {",
     "· info, err := os.Stat(s)",
     "· if err != nil {",
     "· · return-error",
     "· }",
     "· totalSize += info.Size()",
     "· sizes = append(sizes, info.Size())",
     "}",
     "var signatureIndex int",
     "var controlDataIndex int",
     "var packageIndex int",
     "switch numGzipStreams {",
     "case 3:",
     "· signatureIndex = 0",
     "· controlDataIndex = 1",
     "· packageIndex = 2",
     "case 2:",
     "· signatureIndex = -1",
     "· controlDataIndex = 0",
     "· packageIndex = 1",
     "default:",
     "· return-error",
     "}",
     "if !dataRead {",
     "· return-error",
     "}",
     "signed := signatureIndex >= 0",
     "expanded := APKExpanded{ tempDir: dir, Signed: signed, Size: totalSize, ControlFile: gzipStreams[controlDataIndex], ControlHash: hashes[controlDataIndex], ControlSize: sizes[controlDataIndex], PackageFile: gzipStreams[packageIndex], PackageHash: hashes[packageIndex], PackageSize: sizes[packageIndex], }",
     "if signed {",
     "· expanded.SignatureFile = gzipStreams[signatureIndex]",
     "· expanded.SignatureHash = hashes[signatureIndex]",
     "· expanded.SignatureSize = sizes[signatureIndex]",
     "}",
     "control, err := expanded.ControlData()",
     "if err != nil {",
     "· return-error",
     "}",
     "expanded.ControlFS, err = tarfs.New(bytes.NewReader(control), int64(len(control)))",
     "if err != nil {",
     "· return-error",
     "}",
     "expanded.TarFile = strings.TrimSuffix(expanded.PackageFile, \".gz\")",
     "data, err := expanded.PackageData()",
     "if err != nil {",
     "· return-error",
     "}",
     "info, err := data.Stat()",
     "if err != nil {",
     "· return-error",
     "}",
     "expanded.TarFS, err = tarfs.New(data, info.Size())",
     "if err != nil {",
     "· return-error",
     "}",
     "return &expanded, nil"] := rfl

/-- `expandApkWriter.Next` = `swNext` / `detect`: close, after the FIRST stream read it back (gunzip, first tar header,
`.SIGN.` prefix → three streams), new file, `streamId+1 >= maxStreams` → the last-stream signal -/
theorem tie_swNext : Generated.stmts_swNext =
    ["if w.f != nil {",
     "· if err := w.CloseFile(); err != nil {",
     "· · return-error",
     "· }",
     "}",
     "if w.streamId == 0 {",
     "· f, err := os.Open(w.f.Name())",
     "· if err != nil {",
     "· · return-error",
     "· }",
     "· defer f.Close()",
     "· gzipRead, err := gzip.NewReader(f)",
     "· if err != nil {",
     "· · return-error",
     "· }",
     "· defer gzipRead.Close()",
     "· tarRead := tar.NewReader(gzipRead)",
     "· hdr, err := tarRead.Next()",
     "· if err != nil {",
     "· · return-error",
     "· }",
     "· if strings.HasPrefix(hdr.Name, \".SIGN.\") {",
     "· · w.maxStreams = 3",
     "· }",
     "}",
     "w.streamId++",
     "p := fmt.Sprintf(\"%s-%d.%s\", filepath.Join(w.parentDir, w.baseName), w.streamId, w.ext)",
     "file, err := os.Create(p)",
     "if err != nil {",
     "· return-error",
     "}",
     "w.f = file",
     "if w.streamId+1 >= w.maxStreams {",
     "· return errExpandApkWriterMaxStreams",
     "}",
     "return nil"] := rfl

/-- `expandApkWriter.Write`: straight into the current file -/
theorem tie_swWrite : Generated.stmts_swWrite =
    ["i, err := sw.f.Write(p)",
     "if err != nil {",
     "· err = wrapped-error",
     "}",
     "return-error"] := rfl

theorem tie_swCloseFile : Generated.stmts_swCloseFile =
    ["return w.f.Close()"] := rfl

theorem tie_swCurrentName : Generated.stmts_swCurrentName =
    ["return w.f.Name()"] := rfl

/-- `expandApkReader.Read`: one byte per read unless `fast` -/
theorem tie_exRead : Generated.stmts_exRead =
    ["if r.fast {",
     "· return r.Reader.Read(b)",
     "}",
     "buf := make([]byte, 1)",
     "n, err := r.Reader.Read(buf)",
     "if err != nil && err != io.EOF {",
     "· err = wrapped-error",
     "} else {",
     "· b[0] = buf[0]",
     "}",
     "return-error"] := rfl

theorem tie_exEnableFastRead : Generated.stmts_exEnableFastRead =
    ["r.fast = true"] := rfl

/-- a new reader starts slow -/
theorem tie_newExpandApkReader : Generated.stmts_newExpandApkReader =
    ["return &expandApkReader{ Reader: r, fast: false, }"] := rfl

/-- a new writer: no stream yet, two streams expected -/
theorem tie_newExpandApkWriter : Generated.stmts_newExpandApkWriter =
    ["sw := expandApkWriter{ parentDir: parentDir, baseName: baseName, ext: ext, streamId: -1, maxStreams: 2, }",
     "return &sw, nil"] := rfl

/-- `PackageData` = `packageData`: the `.tar` when it opens, else multistream gunzip of the `.tar.gz` through a temp file + rename -/
theorem tie_PackageData : Generated.stmts_PackageData =
    ["uf, err := os.Open(a.TarFile)",
     "if err == nil {",
     "· return uf, nil",
     "} else if !os.IsNotExist(err) {",
     "· return-error",
     "}",
     "f, err := os.Open(a.PackageFile)",
     "if err != nil {",
     "· return-error",
     "}",
     "defer f.Close()",
     "br := pooledBufioReader(f)",
     "defer readerPool.Put(br)",
     "zr, err := gzip.NewReader(br)",
     "if err != nil {",
     "· return-error",
     "}",
     "uf, err = os.CreateTemp(filepath.Dir(a.TarFile), filepath.Base(a.TarFile)+\".*.tmp\")",
     "if err != nil {",
     "· return-error",
     "}",
     "_ = uf.Chmod(os.FileMode(0644))",
     "buf := pooledSlice()",
     "defer slicePool.Put(buf)",
     "if _, err := io.CopyBuffer(uf, zr, buf); err != nil {",
     "· uf.Close()",
     "· _ = os.Remove(uf.Name())",
     "· return-error",
     "}",
     "if err := uf.Close(); err != nil {",
     "· _ = os.Remove(uf.Name())",
     "· return-error",
     "}",
     "if err := os.Rename(uf.Name(), a.TarFile); err != nil {",
     "· _ = os.Remove(uf.Name())",
     "· return-error",
     "}",
     "return os.Open(a.TarFile)"] := rfl

/-- `ControlData`: multistream gunzip of the whole control file (`gunzipAll`) -/
theorem tie_ControlData : Generated.stmts_ControlData =
    ["a.Lock()",
     "defer a.Unlock()",
     "if a.controlData == nil {",
     "· rc, err := os.Open(a.ControlFile)",
     "· if err != nil {",
     "· · return-error",
     "· }",
     "· defer rc.Close()",
     "· zr, err := gzip.NewReader(rc)",
     "· if err != nil {",
     "· · return-error",
     "· }",
     "· a.controlData, err = io.ReadAll(zr)",
     "· if err != nil {",
     "· · return-error",
     "· }",
     "}",
     "return a.controlData, nil"] := rfl

/-- `Split` = `splitParts`: gzip on the byte-reading tee over ONE bufio reader, `Multistream(false)`, first tar header,
`.SIGN.` → drain, swap the buffer, `Reset`; drain the control member; the rest of the bufio reader is the data part -/
theorem tie_Split : Generated.stmts_Split =
    ["parts := []io.Reader{}",
     "br := bufio.NewReader(source)",
     "buf := bytes.Buffer{}",
     "tee := &teeByteReader{r: br, w: &buf}",
     "gzi, err := gzip.NewReader(tee)",
     "if err != nil {",
     "· return-error",
     "}",
     "gzi.Multistream(false)",
     "tr := tar.NewReader(gzi)",
     "hdr, err := tr.Next()",
     "if err != nil {",
     "· return-error",
     "}",
     "if strings.HasPrefix(hdr.Name, \".SIGN.\") {",
     "· if _, err := io.Copy(io.Discard, gzi); err != nil {",
     "· · return-error",
     "· }",
     "· parts = append(parts, bytes.NewReader(buf.Bytes()))",
     "· buf = bytes.Buffer{}",
     "· tee.w = &buf",
     "· if err := gzi.Reset(tee); err != nil {",
     "· · return-error",
     "· }",
     "· gzi.Multistream(false)",
     "}",
     "if _, err := io.Copy(io.Discard, gzi); err != nil {",
     "· return-error",
     "}",
     "parts = append(parts, bytes.NewReader(buf.Bytes()))",
     "if err := gzi.Close(); err != nil {",
     "· return-error",
     "}",
     "parts = append(parts, br)",
     "return parts, nil"] := rfl

theorem tie_teeReadByte : Generated.stmts_teeReadByte =
    ["c, err := t.r.ReadByte()",
     "if err := t.w.WriteByte(c); err != nil {",
     "· return-error",
     "}",
     "return-error"] := rfl

theorem tie_teeRead : Generated.stmts_teeRead =
    ["n, err := t.r.Read(p)",
     "if n > 0 {",
     "· if n, err := t.w.Write(p[:n]); err != nil {",
     "· · return-error",
     "· }",
     "}",
     "return-error"] := rfl

/-- `ResolveApk` = `resolve`: SHA-1 of the signature part, SHA-1 of the control part, SHA-256 of the rest -/
theorem tie_ResolveApk : Generated.stmts_ResolveApk =
    ["resolved := &APKResolved{}",
     "split, err := expandapk.Split(source)",
     "if err != nil {",
     "· return-error",
     "}",
     "if len(split) < 2 {",
     "· return-error",
     "}",
     "control, data := split[0], split[1]",
     "if len(split) == 3 {",
     "· control, data = split[1], split[2]",
     "· var h hash.Hash = sha1.New()",
     "· size, err := io.Copy(h, split[0])",
     "· if err != nil {",
     "· · return-error",
     "· }",
     "· resolved.SignatureSize = int(size)",
     "· resolved.SignatureHash = h.Sum(nil)",
     "}",
     "buf := bytes.NewBuffer(nil)",
     "if _, err := io.Copy(buf, control); err != nil {",
     "· return-error",
     "}",
     "resolved.ControlSize = buf.Len()",
     "ctrlHash := sha1.Sum(buf.Bytes())",
     "resolved.ControlHash = ctrlHash[:]",
     "dataHash := sha256.New()",
     "size, err := io.Copy(dataHash, data)",
     "if err != nil {",
     "· return-error",
     "}",
     "resolved.DataSize = int(size)",
     "resolved.DataHash = dataHash.Sum(nil)",
     "return resolved, nil"] := rfl


/-- `cachePackage` = `cacheData` (and `Authentic.cachePackage`): control, signature, `.tar.gz`, and LAST the `.tar`, each
through `AdvertiseCachedFile` (first writer wins) -/
theorem tie_cachePackage_advertises : Generated.cachePackageAdvertises =
    ["exp.ControlFile -> ctlDst", "exp.SignatureFile -> sigDst", "exp.PackageFile -> datDst", "exp.TarFile -> tarDst"] := rfl

/-- … under the hex of the computed hashes; the `.tar` has the name of the `.tar.gz` without `.gz` -/
theorem tie_cachePackage_names : Generated.cachePackageNames =
    ["ctlHex := hex.EncodeToString(exp.ControlHash)",
     "ctlDst := filepath.Join(cacheDir, ctlHex+\".ctl.tar.gz\")",
     "sigDst := filepath.Join(cacheDir, ctlHex+\".sig.tar.gz\")",
     "datHex := hex.EncodeToString(exp.PackageHash)",
     "datDst := filepath.Join(cacheDir, datHex+\".dat.tar.gz\")",
     "tarDst := strings.TrimSuffix(exp.PackageFile, \".gz\")"] := rfl

/-- `cachedPackage`, data part = `cachedData`: the `.tar.gz` named by the datahash, the `.tar` next to it through
`PackageData()`, indexed as it is -/
theorem tie_cachedPackage_data : Generated.cachedPackageData =
    ["dat := filepath.Join(cacheDir, datahash+\".dat.tar.gz\")",
     "exp.PackageFile = dat",
     "exp.TarFile = strings.TrimSuffix(exp.PackageFile, \".gz\")",
     "data, err := exp.PackageData()",
     "exp.TarFS, err = tarfs.New(data, info.Size())"] := rfl

/-! ### after the loop -/

theorem build_ok (G : Gz) (st : St) (sig : Option (Bytes × Digest)) (c d : Bytes) (hc hd : Digest) (o : Out)
    (h : build G st sig c d hc hd = .ok o) :
    ∃ control t es, gunzipAll G c = some control ∧ packageData G st.tar d = some t ∧ G.untar t = some es ∧
      o = { signed := sig.isSome, sigFile := sig.map (·.1), controlFile := c, packageFile := d, tarFile := t,
            sigHash := sig.map (·.2), controlHash := hc, packageHash := hd,
            sigSize := (sig.map (·.1.length)).getD 0, controlSize := c.length, packageSize := d.length,
            size := (sig.map (·.1.length)).getD 0 + c.length + d.length,
            control := control, files := es, checked := st.checked } := by
  unfold build at h
  split at h
  · cases h
  · next control hctl =>
    split at h
    · cases h
    · split at h
      · cases h
      · next t ht =>
        split at h
        · cases h
        · next es hes => cases h; exact ⟨control, t, es, hctl, ht, hes, rfl⟩

theorem finish_ok (G : Gz) (strict : Bool) (st : St) (o : Out) (h : finish G strict st = .ok o) :
    (strict = true → st.checked = true) ∧
    ((∃ c d hc hd, st.streams = [c, d] ∧ st.hashes = [hc, hd] ∧ build G st none c d hc hd = .ok o) ∨
     (∃ s c d hs hc hd, st.streams = [s, c, d] ∧ st.hashes = [hs, hc, hd] ∧ build G st (some (s, hs)) c d hc hd = .ok o)) := by
  unfold finish at h
  split at h
  · next c d hc hd hs hh =>
    split at h
    · cases h
    · next hk =>
      refine ⟨?_, Or.inl ⟨c, d, hc, hd, hs, hh, h⟩⟩
      intro hst; cases hck : st.checked <;> simp [hst, hck] at hk ⊢
  · next s c d hs' hc hd hs hh =>
    split at h
    · cases h
    · next hk =>
      refine ⟨?_, Or.inr ⟨s, c, d, hs', hc, hd, hs, hh, h⟩⟩
      intro hst; cases hck : st.checked <;> simp [hst, hck] at hk ⊢
  · cases h

theorem expandStream_ok (G : Gz) (H : Hashes) (c : Nat) (rd : Nat → Nat) (strict : Bool) (src : Bytes) (o : Out)
    (h : expandStream G H c rd strict src = .ok o) :
    ∃ st, loop G H c rd loopFuel { src := src } = .ok st ∧ finish G strict st = .ok o := by
  unfold expandStream at h
  split at h
  · cases h
  · next st hl => exact ⟨st, hl, h⟩


/-! ### for ANY size of the reads: sizes, partition, the `.tar` -/

/-- `sizes_exact`: the recorded sizes are the lengths of the stream files, the stream files are consecutive ranges that
cover the source exactly (C09's `ranges_partition` uses them), `Size` is the length of the source — whatever the
read-ahead is -/
theorem sizes_exact (G : Gz) (H : Hashes) (c : Nat) (rd : Nat → Nat) (strict : Bool) (src : Bytes) (o : Out)
    (h : expandStream G H c rd strict src = .ok o) :
    o.sigFile.getD [] ++ o.controlFile ++ o.packageFile = src ∧
    o.sigSize = (o.sigFile.getD []).length ∧ o.controlSize = o.controlFile.length ∧
    o.packageSize = o.packageFile.length ∧ o.size = src.length ∧
    o.size = o.sigSize + o.controlSize + o.packageSize := by
  obtain ⟨st, hl, hf⟩ := expandStream_ok _ _ _ _ _ _ _ h
  have hfin := loop_inv G H c rd src loopFuel { src := src } st (by simp) rfl rfl rfl hl
  obtain ⟨_, hshape⟩ := finish_ok _ _ _ _ hf
  have hp := hfin.partition
  rcases hshape with ⟨c1, d, hc, hd, hs, _, hb⟩ | ⟨s, c1, d, hs', hc, hd, hs, _, hb⟩
  · obtain ⟨_, _, _, _, _, _, ho⟩ := build_ok _ _ _ _ _ _ _ _ hb
    subst ho
    rw [hs] at hp
    simp at hp
    simp [← hp]
  · obtain ⟨_, _, _, _, _, _, ho⟩ := build_ok _ _ _ _ _ _ _ _ hb
    subst ho
    rw [hs] at hp
    simp at hp
    simp [← hp]; omega

/-- `tar_cache_is_gunzip`: the `.tar` an expansion hands on is the (multistream) gunzip of its `.tar.gz`, its index is
the tar walk of those bytes, and `PackageData()` returns the same bytes on both of its paths (the `.tar` written by the
loop / none there: gunzip of the `.tar.gz`) — whatever the read-ahead is, checked or not -/
theorem tar_cache_is_gunzip (G : Gz) (H : Hashes) (c : Nat) (rd : Nat → Nat) (strict : Bool) (src : Bytes) (o : Out)
    (h : expandStream G H c rd strict src = .ok o) :
    gunzipAll G o.packageFile = some o.tarFile ∧ G.untar o.tarFile = some o.files ∧
    packageData G (some o.tarFile) o.packageFile = packageData G none o.packageFile := by
  obtain ⟨st, hl, hf⟩ := expandStream_ok _ _ _ _ _ _ _ h
  have hfin := loop_inv G H c rd src loopFuel { src := src } st (by simp) rfl rfl rfl hl
  obtain ⟨_, hshape⟩ := finish_ok _ _ _ _ hf
  have key : ∀ (sig : Option (Bytes × Digest)) (c1 d : Bytes) (hc hd : Digest),
      st.streams.getLast? = some d → build G st sig c1 d hc hd = .ok o →
      gunzipAll G o.packageFile = some o.tarFile ∧ G.untar o.tarFile = some o.files := by
    intro sig c1 d hc hd hlast hb
    obtain ⟨_, t, es, _, hpd, hut, ho⟩ := build_ok _ _ _ _ _ _ _ _ hb
    subst ho
    refine ⟨?_, hut⟩
    cases htar : st.tar with
    | none => rw [htar] at hpd; exact hpd
    | some t2 =>
      rw [htar] at hpd
      simp only [packageData, Option.some.injEq] at hpd
      obtain ⟨d2, hl2, hg⟩ := hfin.tarGunzip t2 htar
      rw [hlast] at hl2
      cases hl2
      rw [← hpd]; exact hg
  have hmain : gunzipAll G o.packageFile = some o.tarFile ∧ G.untar o.tarFile = some o.files := by
    rcases hshape with ⟨c1, d, hc, hd, hs, _, hb⟩ | ⟨s, c1, d, hs', hc, hd, hs, _, hb⟩
    · exact key none c1 d hc hd (by rw [hs]; rfl) hb
    · exact key _ c1 d hc hd (by rw [hs]; rfl) hb
  exact ⟨hmain.1, hmain.2, by simp [packageData, hmain.1]⟩

/-! ### one-byte reads: exactly the ranges of the format -/

/-- what "exact" means for an accepted stream -/
structure Exact (G : Gz) (H : Hashes) (src : Bytes) (o : Out) (r : Ranges) : Prop where
  ranges : ExpandSplit.ranges G src = some r
  signed : o.signed = r.sig.isSome
  sigFile : o.sigFile = r.sig
  controlFile : o.controlFile = r.control
  packageFile : o.packageFile = r.data
  sigHash : o.sigHash = r.sig.map H.sha1
  controlHash : o.controlHash = H.sha1 r.control
  packageHash : o.packageHash = H.sha256 r.data
  tar : gunzipAll G r.data = some o.tarFile
  files : G.untar o.tarFile = some o.files
  checked : checkSums (libOf G H) o.files = true

/-- the full statement, for an algorithm `strict` -/
def StreamExact (strict : Bool) : Prop :=
  ∀ (G : Gz) (H : Hashes), G.Local → ∀ (rd : Nat → Nat) (src : Bytes) (o : Out),
    expandStream G H Impl.slowChunk rd strict src = .ok o → ∃ r, Exact G H src o r

theorem stream_exact_partial (G : Gz) (H : Hashes) (hloc : G.Local) (rd : Nat → Nat) (strict : Bool) (src : Bytes) (o : Out)
    (h : expandStream G H Impl.slowChunk rd strict src = .ok o) (hk : o.checked = true) : ∃ r, Exact G H src o r := by
  obtain ⟨st, hl, hf⟩ := expandStream_ok _ _ _ _ _ _ _ h
  obtain ⟨_, hshape⟩ := finish_ok _ _ _ _ hf
  have hck : st.checked = true := by
    rcases hshape with ⟨c1, d, hc, hd, _, _, hb⟩ | ⟨s, c1, d, hs', hc, hd, _, _, hb⟩
    · obtain ⟨_, _, _, _, _, _, ho⟩ := build_ok _ _ _ _ _ _ _ _ hb; subst ho; exact hk
    · obtain ⟨_, _, _, _, _, _, ho⟩ := build_ok _ _ _ _ _ _ _ _ hb; subst ho; exact hk
  obtain ⟨r, t, es, hr, _, hst, hh, hgz, htar, hut, hcs⟩ := loop_checked G H hloc rd src st hl hck
  refine ⟨r, ?_⟩
  rcases hshape with ⟨c1, d, hc, hd, hs, hhs, hb⟩ | ⟨s, c1, d, hs', hc, hd, hs, hhs, hb⟩
  · obtain ⟨_, t2, es2, _, hpd, hut2, ho⟩ := build_ok _ _ _ _ _ _ _ _ hb
    rw [htar] at hpd
    simp only [packageData, Option.some.injEq] at hpd
    subst hpd
    rw [hut] at hut2; cases hut2
    cases hsig : r.sig with
    | some x => rw [hs, hsig] at hst; simp at hst
    | none =>
      rw [hs, hsig] at hst; rw [hhs, hsig] at hh
      simp at hst hh
      subst ho
      exact ⟨hr, by simp [hsig], by simp [hsig], hst.1, hst.2, by simp [hsig], by rw [hh.1], by rw [hh.2], hgz, hut, hcs⟩
  · obtain ⟨_, t2, es2, _, hpd, hut2, ho⟩ := build_ok _ _ _ _ _ _ _ _ hb
    rw [htar] at hpd
    simp only [packageData, Option.some.injEq] at hpd
    subst hpd
    rw [hut] at hut2; cases hut2
    cases hsig : r.sig with
    | none => rw [hs, hsig] at hst; simp at hst
    | some x =>
      rw [hs, hsig] at hst; rw [hhs, hsig] at hh
      simp at hst hh
      subst ho
      exact ⟨hr, by simp [hsig], by simp [hsig, hst.1], hst.2.1, hst.2.2, by simp [hsig, hh.1], by rw [hh.2.1], by rw [hh.2.2],
             hgz, hut, hcs⟩

theorem strict_checked (G : Gz) (H : Hashes) (c : Nat) (rd : Nat → Nat) (src : Bytes) (o : Out)
    (h : expandStream G H c rd true src = .ok o) : o.checked = true := by
  obtain ⟨st, _, hf⟩ := expandStream_ok _ _ _ _ _ _ _ h
  obtain ⟨hk, hshape⟩ := finish_ok _ _ _ _ hf
  rcases hshape with ⟨c1, d, hc, hd, _, _, hb⟩ | ⟨s, c1, d, hs', hc, hd, _, _, hb⟩
  · obtain ⟨_, _, _, _, _, _, ho⟩ := build_ok _ _ _ _ _ _ _ _ hb; subst ho; exact hk rfl
  · obtain ⟨_, _, _, _, _, _, ho⟩ := build_ok _ _ _ _ _ _ _ _ hb; subst ho; exact hk rfl

/-- the repaired algorithm: every accepted stream was written and hashed along the ranges of the format -/
theorem stream_exact : StreamExact true := by
  intro G H hloc rd src o h
  exact stream_exact_partial G H hloc rd true src o h (strict_checked G H _ rd src o h)


/-- that is the algorithm the code runs today (`tie_strict`, `tie_slowChunk`) -/
theorem impl_stream_exact (G : Gz) (H : Hashes) (hloc : G.Local) (rd : Nat → Nat) (src : Bytes) (o : Out)
    (h : Impl.expandStream G H rd src = .ok o) : ∃ r, Exact G H src o r :=
  stream_exact G H hloc rd src o h

/-- `control_hash_exact`: the value compared with the index checksum is the SHA-1 of exactly the bytes of the control
member — for signed (the second member) and unsigned (the first member) packages alike -/
theorem control_hash_exact (G : Gz) (H : Hashes) (hloc : G.Local) (rd : Nat → Nat) (src : Bytes) (o : Out)
    (h : expandStream G H Impl.slowChunk rd true src = .ok o) :
    ∃ r, ranges G src = some r ∧ o.controlFile = r.control ∧ o.controlHash = H.sha1 r.control ∧
      o.sigHash = r.sig.map H.sha1 := by
  obtain ⟨r, e⟩ := stream_exact G H hloc rd src o h
  exact ⟨r, e.ranges, e.controlFile, e.controlHash, e.sigHash⟩

/-- `data_hash_exact`: the value compared with the datahash of .PKGINFO is the SHA-256 of exactly the bytes from the
start of the data member to the end of the source -/
theorem data_hash_exact (G : Gz) (H : Hashes) (hloc : G.Local) (rd : Nat → Nat) (src : Bytes) (o : Out)
    (h : expandStream G H Impl.slowChunk rd true src = .ok o) :
    ∃ r, ranges G src = some r ∧ o.packageFile = r.data ∧ o.packageHash = H.sha256 r.data ∧
      r.sig.getD [] ++ r.control ++ r.data = src := by
  obtain ⟨r, e⟩ := stream_exact G H hloc rd src o h
  refine ⟨r, e.ranges, e.packageFile, e.packageHash, ?_⟩
  have := (sizes_exact G H _ rd true src o h).1
  rw [e.sigFile, e.controlFile, e.packageFile] at this
  exact this

/-- `files_written_exact`: the per-member files on disk hold exactly the members' bytes; the `.tar` is the gunzip of
the data range and what gets installed is its tar walk, which passed `checkSums` -/
theorem files_written_exact (G : Gz) (H : Hashes) (hloc : G.Local) (rd : Nat → Nat) (src : Bytes) (o : Out)
    (h : expandStream G H Impl.slowChunk rd true src = .ok o) :
    ∃ r, ranges G src = some r ∧ o.sigFile = r.sig ∧ o.controlFile = r.control ∧ o.packageFile = r.data ∧
      o.signed = r.sig.isSome ∧ gunzipAll G r.data = some o.tarFile ∧ G.untar o.tarFile = some o.files ∧
      checkSums (libOf G H) o.files = true := by
  obtain ⟨r, e⟩ := stream_exact G H hloc rd src o h
  exact ⟨r, e.ranges, e.sigFile, e.controlFile, e.packageFile, e.signed, e.tar, e.files, e.checked⟩

/-! ### `Split` / `ResolveApk` -/

/-- `Split` returns exactly the ranges of the format (no `Local` needed: nothing is read back) -/
theorem split_exact (G : Gz) (src : Bytes) (ps : List Bytes) (h : splitParts G src = .ok ps) :
    ∃ r, ranges G src = some r ∧ ps = r.sig.toList ++ [r.control, r.data] ∧ ps.flatten = src := by
  unfold splitParts at h
  unfold ranges
  split at h
  · cases h
  · next n0 d0 hm0 =>
    split at h
    · cases h
    · next nm hfn =>
      try simp only [hfn]
      split at h
      · next hsg =>
        try simp only [hsg, if_true]
        split at h
        · cases h
        · next n1 d1 hm1 =>
          cases h; simp
          have : List.drop (n0 + n1) src = List.drop n1 (List.drop n0 src) := by simp
          rw [this, List.take_append_drop, List.take_append_drop]
      · next hsg => cases h; simp [hsg]

theorem resolve_exact (G : Gz) (H : Hashes) (src : Bytes) (rs : Resolved) (h : resolve G H src = .ok rs) :
    ∃ r, ranges G src = some r ∧ rs.controlHash = H.sha1 r.control ∧ rs.dataHash = H.sha256 r.data ∧
      rs.sigHash = r.sig.map H.sha1 ∧ rs.controlSize = r.control.length ∧ rs.dataSize = r.data.length ∧
      rs.sigSize = (r.sig.getD []).length := by
  unfold resolve at h
  split at h
  · cases h
  · next c d hs =>
    obtain ⟨r, hr, hps, _⟩ := split_exact G src _ hs
    cases hsig : r.sig with
    | some x => rw [hsig] at hps; simp at hps
    | none =>
      rw [hsig] at hps; simp at hps; cases h
      exact ⟨r, hr, by simp [hps.1], by simp [hps.2], by simp [hsig], by simp [hps.1], by simp [hps.2], by simp [hsig]⟩
  · next s c d hs =>
    obtain ⟨r, hr, hps, _⟩ := split_exact G src _ hs
    cases hsig : r.sig with
    | none => rw [hsig] at hps; simp at hps
    | some x =>
      rw [hsig] at hps; simp at hps; cases h
      exact ⟨r, hr, by simp [hps.2.1], by simp [hps.2.2], by simp [hsig, hps.1], by simp [hps.2.1], by simp [hps.2.2],
             by simp [hsig, hps.1]⟩
  · cases h

/-- the two splitters agree: what `ExpandApk` (repaired) accepts, `Split` cuts at the same places -/
theorem expand_split_agree (G : Gz) (H : Hashes) (hloc : G.Local) (rd : Nat → Nat) (src : Bytes) (o : Out)
    (h : expandStream G H Impl.slowChunk rd true src = .ok o) :
    splitParts G src = .ok (o.sigFile.toList ++ [o.controlFile, o.packageFile]) := by
  obtain ⟨r, e⟩ := stream_exact G H hloc rd src o h
  have hr := e.ranges
  rw [e.sigFile, e.controlFile, e.packageFile]
  unfold ranges at hr
  unfold splitParts
  split at hr
  · cases hr
  · next n0 d0 hm0 =>
    split at hr
    · cases hr
    · next nm hfn =>
      try simp only [hfn]
      split at hr
      · next hsg =>
        try simp only [hsg, if_true]
        split at hr
        · cases hr
        · next n1 d1 hm1 => cases hr; simp
      · next hsg => cases hr; simp [hsg]


/-! ### composition with Model/Authentic: the hashes are DERIVED from the stream -/

/-- an accepted, checked stream is `Authentic.expand` of the ranges of the format, for the library that goes with the
gzip / tar / hash functions: the `Apk` the theorems of Proofs/C05 take as given is the one the stream defines -/
theorem expand_refines (G : Gz) (H : Hashes) (hloc : G.Local) (rd : Nat → Nat) (strict : Bool) (src : Bytes) (o : Out)
    (h : expandStream G H Impl.slowChunk rd strict src = .ok o) (hk : o.checked = true) :
    ∃ r, ranges G src = some r ∧ expand (libOf G H) r.apk = .ok o.expanded := by
  obtain ⟨r, e⟩ := stream_exact_partial G H hloc rd strict src o h hk
  refine ⟨r, e.ranges, ?_⟩
  have hu : (libOf G H).untarData r.data = some o.files := by
    simp [libOf, e.tar, e.files]
  unfold expand
  simp only [Ranges.apk, hu, e.checked, if_true]
  simp [Out.expanded, libOf, e.sigFile, e.controlFile, e.packageFile, e.controlHash, e.packageHash]

/-- whatever `expandPackage` returns for a fetched STREAM, `expandPackage` of Model/Authentic returns for the `Apk` cut
out of it along the ranges of the format -/
theorem expandPackageStream_refines (G : Gz) (H : Hashes) (hloc : G.Local) (rd : Nat → Nat) (verify : Bool) (w : Want)
    (cache cache2 : Option Cache) (fetched : Option Bytes) (e : Expanded)
    (h : expandPackageStream verify true G H rd w cache fetched = .ok (e, cache2)) :
    ∃ fa : Option Apk, expandPackageWith verify (libOf G H) w cache fa = .ok (e, cache2) ∧
      (cache.bind (cachedPackage (libOf G H) w.key) = none →
        ∃ s r, fetched = some s ∧ ranges G s = some r ∧ fa = some r.apk) := by
  unfold expandPackageStream at h
  split at h
  · next e0 hhit =>
    refine ⟨none, ?_, ?_⟩
    · unfold expandPackageWith; rw [hhit]; exact h
    · intro hm; rw [hm] at hhit; cases hhit
  · next hmiss =>
    split at h
    · cases h
    · next s =>
      split at h
      · cases h
      · next o ho =>
        obtain ⟨r, hr, hexp⟩ := expand_refines G H hloc rd true s o ho (strict_checked G H _ rd s o ho)
        refine ⟨some r.apk, ?_, fun _ => ⟨s, r, rfl, hr, rfl⟩⟩
        unfold expandPackageWith
        rw [hmiss]
        simp only [hexp]
        exact h

/-- `install_authentic` with the hashes DERIVED from the fetched stream: whatever the (repaired) `expandPackage` returns
for the bytes a repository serves — disabled, cold or warm cache — is authentic for the expected checksum; and when it
came from the stream, the expected checksum is the SHA-1 of exactly the control member and the datahash of its .PKGINFO
is the SHA-256 of exactly the rest of the stream (or is empty: F05c) -/
theorem install_authentic_stream (G : Gz) (H : Hashes) (hloc : G.Local) (hx : HexCanonical (libOf G H)) (rd : Nat → Nat) (w : Want)
    (cache cache2 : Option Cache) (fetched : Option Bytes) (e : Expanded)
    (hinv : ∀ c, cache = some c → CacheInv (libOf G H) c)
    (h : expandPackageStream true true G H rd w cache fetched = .ok (e, cache2)) :
    Authentic (libOf G H) w.digest e ∧ checkSums (libOf G H) e.files = true ∧
    (cache.bind (cachedPackage (libOf G H) w.key) = none →
      ∃ s r, fetched = some s ∧ ranges G s = some r ∧ w.digest = some (H.sha1 r.control) ∧
        DataMatches (libOf G H) r.control r.data ∧ r.sig.getD [] ++ r.control ++ r.data = s) := by
  obtain ⟨fa, hfa, hsrc⟩ := expandPackageStream_refines G H hloc rd true w cache cache2 fetched e h
  obtain ⟨ha, hc⟩ := C05.install_authentic (libOf G H) hx w cache cache2 fa e hinv hfa
  refine ⟨ha, hc, ?_⟩
  intro hmiss
  obtain ⟨s, r, hf, hr, hfa2⟩ := hsrc hmiss
  subst hf; subst hfa2
  refine ⟨s, r, rfl, hr, ?_, ?_, ?_⟩
  · -- the verification step compared the computed control hash with the expected one
    unfold expandPackageWith at hfa
    rw [hmiss] at hfa
    simp only at hfa
    split at hfa
    · cases hfa
    · next e0 hexp =>
      obtain ⟨_, _, _, h1, _, _, h4, _⟩ := C05.files_checked (libOf G H) r.apk e0 hexp
      simp only [if_true] at hfa
      split at hfa
      · cases hfa
      · next hver =>
        have := (C05.verifyExpanded_spec (libOf G H) w.digest e0 hver).1
        rw [this, h4]; rfl
  · unfold expandPackageWith at hfa
    rw [hmiss] at hfa
    simp only at hfa
    split at hfa
    · cases hfa
    · next e0 hexp =>
      obtain ⟨_, _, _, h1, _, h3, _, h5⟩ := C05.files_checked (libOf G H) r.apk e0 hexp
      simp only [if_true] at hfa
      split at hfa
      · cases hfa
      · next hver =>
        obtain ⟨_, info, dh, hinfo, hdh, hd⟩ := C05.verifyExpanded_spec (libOf G H) w.digest e0 hver
        refine ⟨info, dh, ?_, hdh, ?_⟩
        · rw [h1] at hinfo; exact hinfo
        · rw [h5] at hd; exact hd
  · unfold expandPackageStream at h
    rw [hmiss] at h
    simp only at h
    split at h
    · cases h
    · next o ho =>
      obtain ⟨r2, hr2, hpf, _, hpart⟩ := data_hash_exact G H hloc rd s o ho
      rw [hr] at hr2; cases hr2
      exact hpart


/-! ### the `.dat.tar` of the cache -/

theorem lookup_advertise_ne {α : Type} (k k2 : Text) (v : α) (l : List (Text × α)) (h : k2 ≠ k) :
    lookup k2 (advertise k v l) = lookup k2 l := by
  unfold advertise
  cases hl : lookup k l with
  | some w => rfl
  | none =>
    simp only [lookup]
    rw [if_neg (fun h' : k = k2 => h h'.symm)]

theorem datInv_empty (G : Gz) : DatInv G {} := by
  intro n t h; simp [lookup] at h

/-- a cache hit hands out the gunzip of the `.tar.gz` of that name, and leaves the invariant in place — on both paths of
`PackageData()` -/
theorem cachedData_gunzip (G : Gz) (name : Digest) (c c2 : DatCache) (t : Bytes) (hinv : DatInv G c)
    (h : cachedData G name c = some (t, c2)) :
    (∃ d, lookup name c2.gz = some d ∧ gunzipAll G d = some t) ∧ DatInv G c2 := by
  unfold cachedData at h
  split at h
  · cases h
  · next d hd =>
    split at h
    · next t0 ht0 => cases h; exact ⟨hinv name t ht0, hinv⟩
    · next hnone =>
      split at h
      · cases h
      · next t0 hg =>
        cases h
        refine ⟨⟨d, hd, hg⟩, ?_⟩
        intro n t1 h1
        simp only [lookup] at h1
        split at h1
        · next hn => cases h1; subst hn; exact ⟨d, hd, hg⟩
        · exact hinv n t1 h1

/-- the full statement: `cachePackage` keeps the invariant whatever is in the cache already -/
def DatInvPreserved : Prop :=
  ∀ (G : Gz) (c : DatCache) (name : Digest) (gzFile tarFile : Bytes),
    DatInv G c → gunzipAll G gzFile = some tarFile → DatInv G (cacheData name gzFile tarFile c)

/-- proved part: when the `.tar.gz` already advertised under the name (if any) is the one being cached — the names are
SHA-256 digests, so this is collision freedom for that one name -/
theorem tar_cache_inv_preserved_partial (G : Gz) (c : DatCache) (name : Digest) (gzFile tarFile : Bytes)
    (hinv : DatInv G c) (hg : gunzipAll G gzFile = some tarFile)
    (hsame : ∀ d, lookup name c.gz = some d → d = gzFile) :
    DatInv G (cacheData name gzFile tarFile c) := by
  intro n t h
  by_cases hn : n = name
  · subst hn
    have hgz : lookup n (advertise n gzFile c.gz) = some gzFile := by
      cases hl : lookup n c.gz with
      | none => simp [advertise, hl, lookup]
      | some d => simp [advertise, hl]; exact hsame d hl
    refine ⟨gzFile, hgz, ?_⟩
    simp only [cacheData] at h
    cases hl : lookup n c.tar with
    | none =>
      simp [advertise, hl, lookup] at h
      rw [← h]; exact hg
    | some t0 =>
      simp [advertise, hl] at h
      subst h
      obtain ⟨d, hd, hgd⟩ := hinv n t0 hl
      rw [hsame d hd] at hgd
      exact hgd
  · simp only [cacheData] at h ⊢
    rw [lookup_advertise_ne name n tarFile c.tar hn] at h
    obtain ⟨d, hd, hgd⟩ := hinv n t h
    exact ⟨d, by rw [lookup_advertise_ne name n gzFile c.gz hn]; exact hd, hgd⟩

/-! ### witnesses: the hypotheses are satisfiable; what a larger read, and the pinned end of the loop, do -/

/-! #### the gzip the correspondence suite runs the model with is `Local` -/

theorem tableMember_take (ms : List (Bytes × Bytes)) (bs : Bytes) (n : Nat) (d : Bytes)
    (h : tableMember ms bs = some (n, d)) : tableMember ms (bs.take n) = some (n, d) := by
  induction ms with
  | nil => simp [tableMember] at h
  | cons m ms ih =>
    unfold tableMember at h ⊢
    simp only [List.findSome?_cons] at h ⊢
    by_cases hp : m.1.isPrefixOf bs = true
    · simp only [hp, if_true] at h
      cases h
      have hpre : m.1 <+: bs := List.isPrefixOf_iff_prefix.mp hp
      obtain ⟨r, hr⟩ := hpre
      have : bs.take m.1.length = m.1 := by rw [← hr]; simp
      rw [this]
      simp
    · simp only [hp] at h
      have hp2 : m.1.isPrefixOf (bs.take n) = false := by
        cases hq : m.1.isPrefixOf (bs.take n) with
        | false => rfl
        | true =>
          have h1 : m.1 <+: bs.take n := List.isPrefixOf_iff_prefix.mp hq
          have h2 : m.1 <+: bs := h1.trans (List.take_prefix n bs)
          exact absurd (List.isPrefixOf_iff_prefix.mpr h2) hp
      simp only [hp2]
      exact ih h

/-- a gzip whose members come from a table (first entry the input starts with) recognises a member from its own bytes:
the instantiation used by the driver of corr:split satisfies the hypothesis of the `ExpandApk` theorems -/
theorem tableGz_local (G : Gz) (ms : List (Bytes × Bytes)) (hG : G.member = tableMember ms) : G.Local := by
  intro bs n d h
  unfold memberAt at h ⊢
  rw [hG] at h ⊢
  split at h
  · next n0 d0 hm =>
    split at h
    · next hb =>
      cases h
      rw [tableMember_take ms bs n d hm]
      have : n ≤ (bs.take n).length := by rw [List.length_take]; omega
      show (if 0 < n ∧ n ≤ (List.take n bs).length then some (n, d) else none) = some (n, d)
      rw [if_pos ⟨hb.1, this⟩]
    · cases h
  · cases h

/-- a toy gzip: a member is `7, x, y` and decompresses to `x, y`; a toy tar: a section that starts with `1` has a
first header `.SIGN.k`, one that starts with `6` holds a regular file whose record does not match -/
def toyG : Gz :=
  { member := fun bs => match bs with
      | 7 :: x :: y :: _ => some (3, [x, y])
      | _ => none,
    firstName := fun d => match d with
      | 1 :: _ => some ".SIGN.k".toList
      | _ :: _ => some ".PKGINFO".toList
      | [] => none,
    untar := fun t => match t with
      | 6 :: _ => some [{ name := "f".toList, kind := .reg, body := [1], recorded := .sum "no".toList }]
      | _ => some [],
    pkginfoTar := fun _ => none }

def toyH : Hashes :=
  { sha1 := fun b => 'a' :: b.map Char.ofNat, sha256 := fun b => 'b' :: b.map Char.ofNat }

theorem toyG_local : toyG.Local := by
  intro bs n d h
  match bs, h with
  | 7 :: x :: y :: rest, h =>
    simp [memberAt, toyG] at h
    obtain ⟨rfl, rfl⟩ := h
    simp [memberAt, toyG]
  | [], h => simp [memberAt, toyG] at h
  | [_], h => simp [memberAt, toyG] at h
  | [_, _], h => simp [memberAt, toyG] at h
  | 0 :: _ :: _ :: _, h => simp [memberAt, toyG] at h
  | (n + 8) :: _ :: _ :: _, h => simp [memberAt, toyG] at h
  | 1 :: _ :: _ :: _, h => simp [memberAt, toyG] at h
  | 2 :: _ :: _ :: _, h => simp [memberAt, toyG] at h
  | 3 :: _ :: _ :: _, h => simp [memberAt, toyG] at h
  | 4 :: _ :: _ :: _, h => simp [memberAt, toyG] at h
  | 5 :: _ :: _ :: _, h => simp [memberAt, toyG] at h
  | 6 :: _ :: _ :: _, h => simp [memberAt, toyG] at h

/-- a signed package of three members and a data section of two gzip members is accepted by the repaired algorithm,
cut where the format says -/
example : ∃ o, expandStream toyG toyH Impl.slowChunk (fun _ => 4096) true [7,1,0, 7,2,2, 7,5,5, 7,4,4] = .ok o ∧
    o.signed = true ∧ o.sigFile = some [7,1,0] ∧ o.controlFile = [7,2,2] ∧ o.packageFile = [7,5,5, 7,4,4] ∧
    o.controlHash = toyH.sha1 [7,2,2] ∧ o.packageHash = toyH.sha256 [7,5,5, 7,4,4] ∧ o.tarFile = [5,5,4,4] :=
  ⟨_, rfl, rfl, rfl, rfl, rfl, rfl, rfl, rfl⟩

/-- the pinned end of the loop: a source of TWO members whose first starts with a `.SIGN.` header is taken for an
unsigned package — the "control" hash is the SHA-1 of the signature member, the "data" hash a SHA-1 (not a SHA-256) of
the control member, and `checkSums` never ran: a file whose record does not match is handed to the installer -/
theorem pinned_accepts_unchecked_stream :
    ∃ o r, expandStream toyG toyH Impl.slowChunk (fun _ => 4096) false [7,1,0, 7,6,6] = .ok o ∧ ranges toyG [7,1,0, 7,6,6] = some r ∧
      o.checked = false ∧ checkSums (libOf toyG toyH) o.files = false ∧
      o.controlFile ≠ r.control ∧ o.packageHash ≠ toyH.sha256 o.packageFile :=
  ⟨_, _, rfl, rfl, rfl, by decide, by decide, by decide⟩

/-- so the full statement is false for the pinned algorithm -/
theorem pinned_stream_not_exact : ¬ StreamExact false := by
  intro h
  obtain ⟨r, e⟩ := h toyG toyH toyG_local (fun _ => 4096) [7,1,0, 7,6,6] _ rfl
  have := e.checked
  revert this
  decide

theorem repaired_refuses_unchecked_stream :
    expandStream toyG toyH Impl.slowChunk (fun _ => 4096) true [7,1,0, 7,6,6] = .error .nodata := rfl

/-- a reader that passes on up to SIX bytes per read before the data section (any size above one does it, given a
suitable source and chunking; here the source answers in chunks of 4096): the member after
the control member is pulled with it, lands in the control file and in the control hash and is never seen by the loop —
the control hash covers two members, the data hash starts one member late.  (A pulled tail that is NOT a whole member
is noticed later, by `ControlData`, which gunzips the whole control file.)  With one-byte reads the same source is cut
where the format says. -/
theorem read_ahead_hashes_beyond_control :
    ∃ o r o1, expandStream toyG toyH 6 (fun _ => 4096) true [7,2,2, 7,3,3, 7,5,5] = .ok o ∧ ranges toyG [7,2,2, 7,3,3, 7,5,5] = some r ∧
      r.control = [7,2,2] ∧ o.controlFile = [7,2,2, 7,3,3] ∧ o.controlHash = toyH.sha1 [7,2,2, 7,3,3] ∧
      r.data = [7,3,3, 7,5,5] ∧ o.packageHash = toyH.sha256 [7,5,5] ∧
      expandStream toyG toyH Impl.slowChunk (fun _ => 4096) true [7,2,2, 7,3,3, 7,5,5] = .ok o1 ∧
      o1.controlHash = toyH.sha1 [7,2,2] ∧ o1.packageHash = toyH.sha256 [7,3,3, 7,5,5] := by
  refine ⟨_, _, _, rfl, rfl, ?_, ?_, ?_, ?_, ?_, rfl, ?_, ?_⟩ <;> decide

/-- without collision freedom the full statement is false: a `.tar.gz` under the name, no `.tar` (a cache written before
the `.tar` existed, or an interrupted `cachePackage`: C19), then another data section with the same digest: its `.tar`
is advertised next to the other one's `.tar.gz` -/
theorem tar_cache_inv_needs_collision_freedom : ¬ DatInvPreserved := by
  intro h
  have := h toyG { gz := [("n".toList, [7,5,5])], tar := [] } "n".toList [7,4,4] [4,4]
    (by intro n t ht; simp [lookup] at ht) (by decide) "n".toList [4,4] (by decide)
  obtain ⟨d, hd, hg⟩ := this
  revert hd hg
  simp [cacheData, advertise, lookup]
  intro hd; subst hd; decide

/-- the hypotheses of the partial statement are satisfiable: a first expansion into an empty cache, a hit, the `.tar`
removed and regenerated -/
example : DatInv toyG (cacheData "n".toList [7,5,5, 7,4,4] [5,5,4,4] {}) ∧
    cachedData toyG "n".toList (cacheData "n".toList [7,5,5, 7,4,4] [5,5,4,4] {}) =
      some ([5,5,4,4], cacheData "n".toList [7,5,5, 7,4,4] [5,5,4,4] {}) ∧
    (cachedData toyG "n".toList { gz := [("n".toList, [7,5,5, 7,4,4])], tar := [] }).map (·.1) = some [5,5,4,4] :=
  ⟨tar_cache_inv_preserved_partial toyG {} _ _ _ (datInv_empty toyG) (by decide) (by intro d hd; simp [lookup] at hd),
   by decide, by decide⟩

/-- `Split` on the signed toy package -/
example : splitParts toyG [7,1,0, 7,2,2, 7,5,5, 7,4,4] = .ok [[7,1,0], [7,2,2], [7,5,5, 7,4,4]] := rfl

end Apko.C05Split
