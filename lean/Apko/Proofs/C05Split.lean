/-
C05 (split) — which bytes get hashed, written and installed: `ExpandApk`, `expandApkWriter`, `PackageData`, `Split`.

Model: `Apko/Model/ExpandSplit.lean`.  gzip (one member at the head of a byte string), tar and the two hash functions
are parameters; no injectivity.  `Gz.Local` (a member is recognised from its own bytes) is the one property of gzip the
`ExpandApk` theorems use — `expandApkWriter.Next` reads the first stream file back on its own.
-/
import Apko.Model.ExpandSplit
import Apko.Proofs.Lemmas.SplitLoop
import Apko.Proofs.C05

namespace Apko.C05Split
open Apko Apko.Authentic Apko.ExpandSplit Apko.SplitLoop

/-! ### after the loop -/

theorem build_ok (G : Gz) (st : St) (sig : Option (Bytes × Digest)) (c d : Bytes) (hc hd : Digest) (o : Out)
    (h : build G st sig c d hc hd = .ok o) :
    ∃ control t es, gunzipAll G c = some control ∧ packageData G st.tar d = some t ∧ G.untar t = some es ∧
      o = { signed := sig.isSome, sigFile := sig.map (·.1), controlFile := c, packageFile := d, tarFile := t,
            sigHash := sig.map (·.2), controlHash := hc, packageHash := hd,
            sigSize := (sig.map (·.1.length)).getD 0, controlSize := c.length, packageSize := d.length,
            size := (sig.map (·.1.length)).getD 0 + c.length + d.length,
            control := control, files := es, checked := st.checked } := by
  unfold build at h
  split at h
  · cases h
  · next control hctl =>
    split at h
    · cases h
    · split at h
      · cases h
      · next t ht =>
        split at h
        · cases h
        · next es hes => cases h; exact ⟨control, t, es, hctl, ht, hes, rfl⟩

theorem finish_ok (G : Gz) (strict : Bool) (st : St) (o : Out) (h : finish G strict st = .ok o) :
    (strict = true → st.checked = true) ∧
    ((∃ c d hc hd, st.streams = [c, d] ∧ st.hashes = [hc, hd] ∧ build G st none c d hc hd = .ok o) ∨
     (∃ s c d hs hc hd, st.streams = [s, c, d] ∧ st.hashes = [hs, hc, hd] ∧ build G st (some (s, hs)) c d hc hd = .ok o)) := by
  unfold finish at h
  split at h
  · next c d hc hd hs hh =>
    split at h
    · cases h
    · next hk =>
      refine ⟨?_, Or.inl ⟨c, d, hc, hd, hs, hh, h⟩⟩
      intro hst; cases hck : st.checked <;> simp [hst, hck] at hk ⊢
  · next s c d hs' hc hd hs hh =>
    split at h
    · cases h
    · next hk =>
      refine ⟨?_, Or.inr ⟨s, c, d, hs', hc, hd, hs, hh, h⟩⟩
      intro hst; cases hck : st.checked <;> simp [hst, hck] at hk ⊢
  · cases h

theorem expandStream_ok (G : Gz) (H : Hashes) (c : Nat) (strict : Bool) (src : Bytes) (o : Out)
    (h : expandStream G H c strict src = .ok o) :
    ∃ st, loop G H c loopFuel { src := src } = .ok st ∧ finish G strict st = .ok o := by
  unfold expandStream at h
  split at h
  · cases h
  · next st hl => exact ⟨st, hl, h⟩


/-! ### for ANY size of the reads: sizes, partition, the `.tar` -/

/-- `sizes_exact`: the recorded sizes are the lengths of the stream files, the stream files are consecutive ranges that
cover the source exactly (C09's `ranges_partition` uses them), `Size` is the length of the source — whatever the
read-ahead is -/
theorem sizes_exact (G : Gz) (H : Hashes) (c : Nat) (strict : Bool) (src : Bytes) (o : Out)
    (h : expandStream G H c strict src = .ok o) :
    o.sigFile.getD [] ++ o.controlFile ++ o.packageFile = src ∧
    o.sigSize = (o.sigFile.getD []).length ∧ o.controlSize = o.controlFile.length ∧
    o.packageSize = o.packageFile.length ∧ o.size = src.length ∧
    o.size = o.sigSize + o.controlSize + o.packageSize := by
  obtain ⟨st, hl, hf⟩ := expandStream_ok _ _ _ _ _ _ h
  have hfin := loop_inv G H c src loopFuel { src := src } st (by simp) rfl rfl rfl hl
  obtain ⟨_, hshape⟩ := finish_ok _ _ _ _ hf
  have hp := hfin.partition
  rcases hshape with ⟨c1, d, hc, hd, hs, _, hb⟩ | ⟨s, c1, d, hs', hc, hd, hs, _, hb⟩
  · obtain ⟨_, _, _, _, _, _, ho⟩ := build_ok _ _ _ _ _ _ _ _ hb
    subst ho
    rw [hs] at hp
    simp at hp
    simp [← hp]
  · obtain ⟨_, _, _, _, _, _, ho⟩ := build_ok _ _ _ _ _ _ _ _ hb
    subst ho
    rw [hs] at hp
    simp at hp
    simp [← hp]; omega

/-- `tar_cache_is_gunzip`: the `.tar` an expansion hands on is the (multistream) gunzip of its `.tar.gz`, its index is
the tar walk of those bytes, and `PackageData()` returns the same bytes on both of its paths (the `.tar` written by the
loop / none there: gunzip of the `.tar.gz`) — whatever the read-ahead is, checked or not -/
theorem tar_cache_is_gunzip (G : Gz) (H : Hashes) (c : Nat) (strict : Bool) (src : Bytes) (o : Out)
    (h : expandStream G H c strict src = .ok o) :
    gunzipAll G o.packageFile = some o.tarFile ∧ G.untar o.tarFile = some o.files ∧
    packageData G (some o.tarFile) o.packageFile = packageData G none o.packageFile := by
  obtain ⟨st, hl, hf⟩ := expandStream_ok _ _ _ _ _ _ h
  have hfin := loop_inv G H c src loopFuel { src := src } st (by simp) rfl rfl rfl hl
  obtain ⟨_, hshape⟩ := finish_ok _ _ _ _ hf
  have key : ∀ (sig : Option (Bytes × Digest)) (c1 d : Bytes) (hc hd : Digest),
      st.streams.getLast? = some d → build G st sig c1 d hc hd = .ok o →
      gunzipAll G o.packageFile = some o.tarFile ∧ G.untar o.tarFile = some o.files := by
    intro sig c1 d hc hd hlast hb
    obtain ⟨_, t, es, _, hpd, hut, ho⟩ := build_ok _ _ _ _ _ _ _ _ hb
    subst ho
    refine ⟨?_, hut⟩
    cases htar : st.tar with
    | none => rw [htar] at hpd; exact hpd
    | some t2 =>
      rw [htar] at hpd
      simp only [packageData, Option.some.injEq] at hpd
      obtain ⟨d2, hl2, hg⟩ := hfin.tarGunzip t2 htar
      rw [hlast] at hl2
      cases hl2
      rw [← hpd]; exact hg
  have hmain : gunzipAll G o.packageFile = some o.tarFile ∧ G.untar o.tarFile = some o.files := by
    rcases hshape with ⟨c1, d, hc, hd, hs, _, hb⟩ | ⟨s, c1, d, hs', hc, hd, hs, _, hb⟩
    · exact key none c1 d hc hd (by rw [hs]; rfl) hb
    · exact key _ c1 d hc hd (by rw [hs]; rfl) hb
  exact ⟨hmain.1, hmain.2, by simp [packageData, hmain.1]⟩

/-! ### one-byte reads: exactly the ranges of the format -/

/-- what "exact" means for an accepted stream -/
structure Exact (G : Gz) (H : Hashes) (src : Bytes) (o : Out) (r : Ranges) : Prop where
  ranges : ExpandSplit.ranges G src = some r
  signed : o.signed = r.sig.isSome
  sigFile : o.sigFile = r.sig
  controlFile : o.controlFile = r.control
  packageFile : o.packageFile = r.data
  sigHash : o.sigHash = r.sig.map H.sha1
  controlHash : o.controlHash = H.sha1 r.control
  packageHash : o.packageHash = H.sha256 r.data
  tar : gunzipAll G r.data = some o.tarFile
  files : G.untar o.tarFile = some o.files
  checked : checkSums (libOf G H) o.files = true

/-- the full statement, for an algorithm `strict` -/
def StreamExact (strict : Bool) : Prop :=
  ∀ (G : Gz) (H : Hashes), G.Local → ∀ (src : Bytes) (o : Out),
    expandStream G H Impl.slowChunk strict src = .ok o → ∃ r, Exact G H src o r

theorem stream_exact_partial (G : Gz) (H : Hashes) (hloc : G.Local) (strict : Bool) (src : Bytes) (o : Out)
    (h : expandStream G H Impl.slowChunk strict src = .ok o) (hk : o.checked = true) : ∃ r, Exact G H src o r := by
  obtain ⟨st, hl, hf⟩ := expandStream_ok _ _ _ _ _ _ h
  obtain ⟨_, hshape⟩ := finish_ok _ _ _ _ hf
  have hck : st.checked = true := by
    rcases hshape with ⟨c1, d, hc, hd, _, _, hb⟩ | ⟨s, c1, d, hs', hc, hd, _, _, hb⟩
    · obtain ⟨_, _, _, _, _, _, ho⟩ := build_ok _ _ _ _ _ _ _ _ hb; subst ho; exact hk
    · obtain ⟨_, _, _, _, _, _, ho⟩ := build_ok _ _ _ _ _ _ _ _ hb; subst ho; exact hk
  obtain ⟨r, t, es, hr, _, hst, hh, hgz, htar, hut, hcs⟩ := loop_checked G H hloc src st hl hck
  refine ⟨r, ?_⟩
  rcases hshape with ⟨c1, d, hc, hd, hs, hhs, hb⟩ | ⟨s, c1, d, hs', hc, hd, hs, hhs, hb⟩
  · obtain ⟨_, t2, es2, _, hpd, hut2, ho⟩ := build_ok _ _ _ _ _ _ _ _ hb
    rw [htar] at hpd
    simp only [packageData, Option.some.injEq] at hpd
    subst hpd
    rw [hut] at hut2; cases hut2
    cases hsig : r.sig with
    | some x => rw [hs, hsig] at hst; simp at hst
    | none =>
      rw [hs, hsig] at hst; rw [hhs, hsig] at hh
      simp at hst hh
      subst ho
      exact ⟨hr, by simp [hsig], by simp [hsig], hst.1, hst.2, by simp [hsig], by rw [hh.1], by rw [hh.2], hgz, hut, hcs⟩
  · obtain ⟨_, t2, es2, _, hpd, hut2, ho⟩ := build_ok _ _ _ _ _ _ _ _ hb
    rw [htar] at hpd
    simp only [packageData, Option.some.injEq] at hpd
    subst hpd
    rw [hut] at hut2; cases hut2
    cases hsig : r.sig with
    | none => rw [hs, hsig] at hst; simp at hst
    | some x =>
      rw [hs, hsig] at hst; rw [hhs, hsig] at hh
      simp at hst hh
      subst ho
      exact ⟨hr, by simp [hsig], by simp [hsig, hst.1], hst.2.1, hst.2.2, by simp [hsig, hh.1], by rw [hh.2.1], by rw [hh.2.2],
             hgz, hut, hcs⟩

theorem strict_checked (G : Gz) (H : Hashes) (c : Nat) (src : Bytes) (o : Out)
    (h : expandStream G H c true src = .ok o) : o.checked = true := by
  obtain ⟨st, _, hf⟩ := expandStream_ok _ _ _ _ _ _ h
  obtain ⟨hk, hshape⟩ := finish_ok _ _ _ _ hf
  rcases hshape with ⟨c1, d, hc, hd, _, _, hb⟩ | ⟨s, c1, d, hs', hc, hd, _, _, hb⟩
  · obtain ⟨_, _, _, _, _, _, ho⟩ := build_ok _ _ _ _ _ _ _ _ hb; subst ho; exact hk rfl
  · obtain ⟨_, _, _, _, _, _, ho⟩ := build_ok _ _ _ _ _ _ _ _ hb; subst ho; exact hk rfl

/-- the repaired algorithm: every accepted stream was written and hashed along the ranges of the format -/
theorem stream_exact : StreamExact true := by
  intro G H hloc src o h
  exact stream_exact_partial G H hloc true src o h (strict_checked G H _ src o h)

end Apko.C05Split
