import Apko.Proofs.C13Tree
import Apko.Proofs.C06
/-! C13 (d): the layer level.  The final state of `mutatePaths` / `mutateAccounts` on a well-formed tree is
again well-formed (`wft_mutatePaths`, `wft_mutateAccounts`), so C06's `extract_writeTar_partial` applies to it:
what a standard extractor makes of the layer `writeTar` emits is the observed tree.  Hence, under every name
the layer has for the node a mutated path (or a home directory) resolves to, the image's user finds an
object with the declared permission bits (set-id and sticky included), uid and gid — and of kind
directory for `directory` mutations and homes.

`layer_reflects_full` (no side conditions on the final state) is false: a `hardlink` mutation makes a second
name that the layer writer emits as an independent copy (F13c = F06b) — `layer_reflects_full_fails`. -/
namespace Apko.C13
open Apko Apko.Path Apko.FS Apko.Formats Apko.Accounts Apko.Tar

theorem tarMode_eq_unixPerm (m : Nat) : tarMode m = unixPerm m := rfl

/-- **what the image's user sees under one layer name**: when the extracted tree is the observed tree,
the object at a walk path `q ↦ i` carries the Unix permission bits, owner and kind of node `i` -/
theorem layer_entry_attrs (b : Backend) (fs : FS) (x : Tar.Tree) (hs : SameTree x (observeTree b fs))
    (q : List Name) (i : Ino) (hq : (q, i) ∈ walk fs) (perms uid gid : Nat)
    (hp : permBitsOK (fs.node i) perms = true) (ho : ownerOK (fs.node i) uid gid = true) :
    ∃ xn, (q, xn) ∈ x ∧ xn.attrs.mode = wantPerm perms ∧ xn.attrs.uid = (uid : Int) ∧ xn.attrs.gid = (gid : Int) ∧
      xn.attrs.kind = obsKind (fs.node i) := by
  have hm : (q, obsAttrs b (fs.node i)) ∈ (observeTree b fs).map (fun e => (e.1, e.2.attrs)) := by
    simp only [observeTree, List.map_map, List.mem_map, Function.comp]
    exact ⟨(q, i), hq, rfl⟩
  rw [← hs.1] at hm
  obtain ⟨e, he, heq⟩ := List.mem_map.mp hm
  simp only [Prod.mk.injEq] at heq
  refine ⟨e.2, by rw [← heq.1]; exact he, ?_, ?_, ?_, ?_⟩
  · rw [heq.2]; simp only [obsAttrs, tarMode_eq_unixPerm]; simpa [permBitsOK] using hp
  · rw [heq.2]; simp only [obsAttrs]; simp only [ownerOK, Bool.and_eq_true, decide_eq_true_eq] at ho; exact ho.1
  · rw [heq.2]; simp only [obsAttrs]; simp only [ownerOK, Bool.and_eq_true, decide_eq_true_eq] at ho; exact ho.2
  · rw [heq.2]; rfl

/-- a directory node is seen as a directory -/
theorem obsKind_of_dir (n : Inode) (hn : nodeOK n = true) (hd : n.dir = true) : obsKind n = .dir :=
  (obsKind_dir n hn).mpr hd

/-- the three conditions under which today's layer writer is faithful (C06): hard-link names sort after
their target, every further name of a node is registered as a hard link, only files and directories
carry extended attributes -/
def LayerOK (fs : FS) : Prop :=
  linksAfterTargets .tarfs fs = true ∧ linksRegistered .tarfs fs = true ∧ xattrsCaptured fs = true

/-- **layer_reflects (path mutations)**: after a successful `mutatePaths` on a well-formed tree whose final
state the layer writer serialises faithfully (`LayerOK`), extraction of the emitted layer succeeds and
gives the observed tree; the last mutation's path resolves to a node `i`, and under **every** name `q`
the layer has for `i` the extracted object has exactly the declared permission bits, uid and gid — and
is a directory when the mutation is a `directory` mutation. -/
theorem layer_reflects_partial (fs fs' : FS) (ms : List Mutation) (m : Mutation) (hw : WFT fs)
    (hm : ∀ k ∈ ms ++ [m], mutOK k) (hk : m.type ∈ [tDirectory, tEmptyFile, tHardlink, tSymlink, tPermissions])
    (h : mutatePaths wCfg fs (ms ++ [m]) = (fs', none)) (hl : LayerOK fs') :
    ∃ x i, extract (writeTar .tarfs fs') = .ok x ∧ SameTree x (observeTree .tarfs fs') ∧
      follow wCfg fs' m.path = some i ∧
      ∀ q, (q, i) ∈ walk fs' → ∃ xn, (q, xn) ∈ x ∧ xn.attrs.mode = wantPerm m.perms ∧
        xn.attrs.uid = (m.uid : Int) ∧ xn.attrs.gid = (m.gid : Int) ∧
        (m.type = tDirectory → xn.attrs.kind = .dir) := by
  have hw' : WFT fs' := by have := wft_mutatePaths wCfg (ms ++ [m]) hm fs hw; rw [h] at this; exact this
  obtain ⟨x, hx, hs⟩ := C06.extract_writeTar_partial .tarfs fs' hw'.wf hl.1 hl.2.1 hl.2.2
  obtain ⟨fs1, h1, hi1, h2⟩ := mutatePaths_last wCfg fs fs' ms m hw.inv h
  have hw1 : WFT fs1 := by
    have := wft_mutatePaths wCfg ms (fun k hk => hm k (List.mem_append_left _ hk)) fs hw; rw [h1] at this; exact this
  obtain ⟨i, hf, hp, ho⟩ := mutation_post_attrs wCfg fs1 fs' m hi1 hk h2
  refine ⟨x, i, hx, hs, hf, ?_⟩
  intro q hq
  obtain ⟨xn, hxn, a1, a2, a3, a4⟩ := layer_entry_attrs .tarfs fs' x hs q i hq m.perms m.uid m.gid hp ho
  refine ⟨xn, hxn, a1, a2, a3, ?_⟩
  intro ht
  obtain ⟨i', hf', hdir, _, _⟩ := directory_post wCfg rfl fs1 fs' m hw1 ht h2
  rw [hf] at hf'; cases hf'
  rw [a4]; exact obsKind_of_dir _ (hw'.wf.nodes i) hdir

/-- **layer_reflects (home directories)**: for a home directory the loop of `mutateAccounts` created (node
`i` of the final state: directory, mode `dir|0700`, owner `uid:gid` — `homes_final`), every name the layer
has for it extracts as a directory with mode 0700 owned by `uid:gid`. -/
theorem layer_reflects_home (fs' : FS) (hw' : WFT fs') (hl : LayerOK fs') (i : Ino) (uid gid : Nat)
    (hdir : (fs'.node i).dir = true) (hmode : (fs'.node i).mode = modeDir ||| 0o700)
    (hu : (fs'.node i).uid = (uid : Int)) (hg : (fs'.node i).gid = (gid : Int)) :
    ∃ x, extract (writeTar .tarfs fs') = .ok x ∧ SameTree x (observeTree .tarfs fs') ∧
      ∀ q, (q, i) ∈ walk fs' → ∃ xn, (q, xn) ∈ x ∧ xn.attrs.mode = 0o700 ∧ xn.attrs.uid = (uid : Int) ∧
        xn.attrs.gid = (gid : Int) ∧ xn.attrs.kind = .dir := by
  obtain ⟨x, hx, hs⟩ := C06.extract_writeTar_partial .tarfs fs' hw'.wf hl.1 hl.2.1 hl.2.2
  refine ⟨x, hx, hs, ?_⟩
  intro q hq
  have hp : permBitsOK (fs'.node i) 0o700 = true := by simp [permBitsOK, hmode]; decide
  have ho : ownerOK (fs'.node i) uid gid = true := by simp [ownerOK, hu, hg]
  obtain ⟨xn, hxn, a1, a2, a3, a4⟩ := layer_entry_attrs .tarfs fs' x hs q i hq 0o700 uid gid hp ho
  exact ⟨xn, hxn, by rw [a1]; decide, a2, a3, by rw [a4]; exact obsKind_of_dir _ (hw'.wf.nodes i) hdir⟩

/-- the final state of a successful `mutateAccounts` on a well-formed tree is well-formed: the premise of
`layer_reflects_home` and of C06's theorems -/
theorem accounts_final_wft (fs fs' : FS) (cfg : AccCfg) (r : Text) (hw : WFT fs)
    (h : mutateAccounts wCfg fs cfg = (fs', none, r)) : WFT fs' := by
  have := wft_mutateAccounts wCfg fs cfg hw; rw [h] at this; exact this

/-! ### the full statement and its negation -/

/-- the full statement: extraction of the layer emitted for the final state of any successful
`mutatePaths` on a well-formed tree gives back the observed tree (no condition on the final state) … -/
def layer_reflects_full : Prop :=
  ∀ (fs fs' : FS) (ms : List Mutation), WFT fs → (∀ k ∈ ms, mutOK k) → mutatePaths wCfg fs ms = (fs', none) →
    ∃ x, extract (writeTar .tarfs fs') = .ok x ∧ SameTree x (observeTree .tarfs fs')

/-- a tree with one file `a` -/
def wFSh : FS := (run wCfg FS.empty [.writeFile ['a'] ['x'] 0o644]).1

def wHard : Mutation := { path := ['h'], type := tHardlink, perms := 0o644, source := ['a'] }

def wFSh2 : FS := (mutatePaths wCfg wFSh [wHard]).1

theorem walk_wFSh2 : walk wFSh2 = [([['a']], 1), ([['h']], 1)] := by
  rw [C06.walk_of_sorted _ (by decide +kernel)]; decide +kernel

/-- extraction of the emitted layer succeeds but does not give the observed tree -/
def layerLost (fs : FS) : Bool :=
  match extract (writeTar .tarfs fs) with
  | .ok x => !decide (SameTree x (observeTree .tarfs fs))
  | .error _ => false

/-- **F13c at the layer**: the `hardlink` mutation succeeds, both names are one inode in the file system
(`hardlink_post`), the layer holds two independent regular files: extraction succeeds and the hard-link
identity is lost (the names are not registered as links: `linksRegistered` is false) -/
theorem hardlink_identity_lost_in_layer :
    (mutatePaths wCfg wFSh [wHard]).2 = none ∧
    linksRegistered .tarfs wFSh2 = false ∧ layerLost wFSh2 = true := by
  refine ⟨by decide +kernel, ?_, ?_⟩
  · unfold linksRegistered; rw [walk_wFSh2]; decide +kernel
  · unfold layerLost writeTar observeTree
    rw [walk_wFSh2]
    decide +kernel

theorem wft_wFSh : WFT wFSh :=
  wft_step wCfg FS.empty (.writeFile ['a'] ['x'] 0o644) (by decide) ⟨Tar.tar_wf_empty, Tree.empty⟩

/-- … fails (F13c = F06b); `layer_reflects_partial` is the part that holds -/
theorem layer_reflects_full_fails : ¬ layer_reflects_full := by
  intro h
  obtain ⟨hok, _, hlost⟩ := hardlink_identity_lost_in_layer
  obtain ⟨y, hy, hsy⟩ := h wFSh wFSh2 [wHard] wft_wFSh (by intro k hk; intro ht; simp at hk; subst hk; cases ht)
    (Prod.ext rfl hok)
  simp [layerLost, hy, hsy] at hlost

/-- the hypotheses of `layer_reflects_partial` are satisfiable by a non-trivial value: a set-group-ID
`directory` mutation over a nested tree (`LayerOK` holds for its final state) -/
example :
    let m : Mutation := { path := ['/', 'n'], type := tDirectory, uid := 7, gid := 8, perms := 0o2750, recursive := true }
    (mutatePaths wCfg wFSn [m]).2 = none ∧ xattrsCaptured (mutatePaths wCfg wFSn [m]).1 = true ∧
    linksAfterTargets .tarfs (mutatePaths wCfg wFSn [m]).1 = true ∧
    linksRegistered .tarfs (mutatePaths wCfg wFSn [m]).1 = true := by decide +kernel

end Apko.C13
