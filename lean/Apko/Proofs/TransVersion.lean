/-
Equality theorems for the Go functions of pkg/apk/apk/version.go that the extractor translates to Lean on
every run (`Apko/Generated/TransVersion.lean`, written by extract/trans.go): the translated definition
equals the hand-written model that C03's operator theorems are about.  A semantic change of the Go
function changes the generated definition and these proofs stop checking.
-/
import Apko.Generated.TransVersion
import Apko.Model.Version

namespace Apko.TransVersion
open Apko

/-- comparison of the common prefix of two number lists (the loop of `CompareVersions`) -/
def prefixCmp : List Nat → List Nat → Ordering
  | [], _ => .eq
  | _ :: _, [] => .eq
  | x :: xs, y :: ys => (compare x y).then (prefixCmp xs ys)

theorem compare_succ (n m : Nat) : compare (n + 1) (m + 1) = compare n m := by
  rcases Nat.lt_trichotomy n m with h | h | h
  · rw [Nat.compare_eq_lt.mpr h, Nat.compare_eq_lt.mpr (by omega)]
  · subst h; simp
  · rw [Nat.compare_eq_gt.mpr h, Nat.compare_eq_gt.mpr (by omega)]

theorem cmpNums_eq (a r : List Nat) : cmpNums a r = (prefixCmp a r).then (compare a.length r.length) := by
  induction a generalizing r with
  | nil =>
    cases r with
    | nil => simp [cmpNums, prefixCmp]
    | cons y ys => simp [cmpNums, prefixCmp, (Nat.compare_eq_lt (a := 0) (b := ys.length + 1)).mpr (by omega)]
  | cons x xs ih =>
    cases r with
    | nil => simp [cmpNums, prefixCmp, (Nat.compare_eq_gt (a := xs.length + 1) (b := 0)).mpr (by omega)]
    | cons y ys => simp only [cmpNums, prefixCmp, ih, List.length_cons, Ordering.then_assoc, compare_succ]

theorem ordInt_then (x y : Nat) (o : Ordering) :
    Trans.ordInt ((compare x y).then o) = if x > y then 1 else if x < y then -1 else Trans.ordInt o := by
  rcases Nat.lt_trichotomy x y with h | h | h
  · have : compare x y = .lt := Nat.compare_eq_lt.mpr h
    have h2 : ¬ x > y := by omega
    simp [this, h, h2, Trans.ordInt]
  · subst h; simp [Trans.ordInt]
  · have : compare x y = .gt := Nat.compare_eq_gt.mpr h
    simp [this, h, Trans.ordInt]

theorem ordInt_compare (x y : Nat) :
    Trans.ordInt (compare x y) = if x > y then 1 else if x < y then -1 else 0 := by
  have := ordInt_then x y .eq
  simpa [Trans.ordInt] using this

-- the counted loop of `CompareVersions` as the translator renders it
theorem rangeLoop_eq_prefixCmp (a r : List Nat) :
    (List.range (min a.length r.length)).findSome? (fun i =>
        if decide (a.getD i default > r.getD i default) then some (1 : Int)
        else if decide (a.getD i default < r.getD i default) then some (-1 : Int) else none)
      = match prefixCmp a r with
        | .eq => none
        | o => some (Trans.ordInt o) := by
  induction a generalizing r with
  | nil => simp [prefixCmp]
  | cons x xs ih =>
    cases r with
    | nil => simp [prefixCmp]
    | cons y ys =>
      rw [List.length_cons, List.length_cons, Nat.succ_min_succ, List.range_succ_eq_map, List.findSome?_cons]
      simp only [List.getD_cons_zero, prefixCmp, List.findSome?_map]
      rcases Nat.lt_trichotomy x y with h | h | h
      · have hn : ¬ x > y := by omega
        simp [h, hn, Nat.compare_eq_lt.mpr h, Trans.ordInt]
      · subst h
        have := ih ys
        simpa [Function.comp_def] using this
      · simp [h, Nat.compare_eq_gt.mpr h, Trans.ordInt]

-- T `trans_compareVersions`: Go's `CompareVersions` (counted loop over the common prefix of the numbers, the
-- length tests, the field chain with the None→Max rewrite of the pre-suffix), translated, is the model's
-- `compareVersions` read as Go's -1 / 0 / +1 — the function C03's order theorems are about.
theorem trans_compareVersions (a r : Version) :
    Generated.Trans.compareVersionsGo a r = Trans.ordInt (compareVersions a r) := by
  unfold Generated.Trans.compareVersionsGo compareVersions
  rw [rangeLoop_eq_prefixCmp, cmpNums_eq]
  cases hp : prefixCmp a.numbers r.numbers
  · simp [Trans.ordInt]
  · simp only [Ordering.eq_then, ordInt_then, ordInt_compare, preRank]
    simp
    try (repeat' split) <;> omega
  · simp [Trans.ordInt]

-- the counted loop of `includesVersion` (`for i := 0; i < len(required.numbers); i++`), as the translator
-- renders it, is the prefix test of the model — when `actual` is at least as long (the guard before the loop)
theorem rangeLoop_eq_numsPrefix (r a : List Nat) (h : r.length ≤ a.length) :
    (List.range r.length).findSome? (fun i =>
        if (a.getD i default != r.getD i default) then some false else none)
      = if numsPrefix r a then none else some false := by
  induction r generalizing a with
  | nil => simp [numsPrefix]
  | cons x xs ih =>
    cases a with
    | nil => simp at h
    | cons y ys =>
      have h2 : xs.length ≤ ys.length := by simpa using h
      rw [List.length_cons, List.range_succ_eq_map, List.findSome?_cons]
      simp only [List.getD_cons_zero, numsPrefix]
      by_cases hxy : y = x
      · subst hxy
        simp only [bne_self_eq_false, Bool.false_eq_true, ↓reduceIte, List.findSome?_map, BEq.rfl, Bool.true_and]
        have := ih ys h2
        simpa [Function.comp_def] using this
      · have : (x == y) = false := beq_eq_false_iff_ne.mpr (fun h => hxy h.symm)
        simp [hxy, this]

-- T `trans_includesVersion`: Go's `includesVersion`, translated, is the model's `includesVersion`.
theorem trans_includesVersion (actual required : Version) :
    Generated.Trans.includesVersion actual required = includesVersion actual required := by
  unfold Generated.Trans.includesVersion includesVersion
  by_cases hlen : actual.numbers.length < required.numbers.length
  · simp [hlen]
  · have hle : required.numbers.length ≤ actual.numbers.length := by omega
    simp only [hlen, decide_false, Bool.false_eq_true, ↓reduceIte, rangeLoop_eq_numsPrefix _ _ hle]
    cases hp : numsPrefix required.numbers actual.numbers <;> simp <;> grind

-- T `trans_satisfies`: Go's `versionDependency.satisfies`, translated, is `Dep.satisfies`.
theorem trans_satisfies (v : Dep) (actual required : Version) :
    Generated.Trans.satisfies v actual required = v.satisfies actual required := by
  unfold Generated.Trans.satisfies
  cases v <;> cases h : compareVersions actual required <;>
    simp [Dep.satisfies, trans_compareVersions, Trans.ordInt, trans_includesVersion, h]

/-- T `trans_satisfiedBy`: Go's `ParsedConstraint.SatisfiedBy` (`none` = the error of an unparsable
-- constraint version), translated, is the model's `Constraint.satisfiedBy` over the code's parser.
theorem trans_satisfiedBy (p : Constraint) (v : Version) :
    Generated.Trans.satisfiedBy p v = p.satisfiedBy Impl.parseVersion v := by
  unfold Generated.Trans.satisfiedBy Constraint.satisfiedBy
  by_cases h : p.version = []
  · simp [h]
  · cases hp : Impl.parseVersion p.version <;> simp [h, trans_satisfies]

-- the hypotheses-free statements are about non-trivial values: `1.2` includes `1`, `1.2 > 1` -/
example : Generated.Trans.satisfies .tilde ⟨[1, 2], 0, 0, 0, 0, 0, 0⟩ ⟨[1], 0, 0, 0, 0, 0, 0⟩ = true ∧
    Generated.Trans.satisfies .gt ⟨[1, 2], 0, 0, 0, 0, 0, 0⟩ ⟨[1], 0, 0, 0, 0, 0, 0⟩ = true ∧
    Generated.Trans.satisfies .lt ⟨[1, 2], 0, 0, 0, 0, 0, 0⟩ ⟨[1], 0, 0, 0, 0, 0, 0⟩ = false := by decide

end Apko.TransVersion
