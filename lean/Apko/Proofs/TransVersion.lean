/-
Equality theorems for the Go functions of pkg/apk/apk/version.go that the extractor translates to Lean on
every run (`Apko/Generated/TransVersion.lean`, written by extract/trans.go): the translated definition
equals the hand-written model that C03's operator theorems are about.  A semantic change of the Go
function changes the generated definition and these proofs stop checking.
-/
import Apko.Generated.TransVersion
import Apko.Model.Version

namespace Apko.TransVersion
open Apko

-- the counted loop of `includesVersion` (`for i := 0; i < len(required.numbers); i++`), as the translator
-- renders it, is the prefix test of the model — when `actual` is at least as long (the guard before the loop)
theorem rangeLoop_eq_numsPrefix (r a : List Nat) (h : r.length ≤ a.length) :
    (List.range r.length).findSome? (fun i =>
        if (a.getD i default != r.getD i default) then some false else none)
      = if numsPrefix r a then none else some false := by
  induction r generalizing a with
  | nil => simp [numsPrefix]
  | cons x xs ih =>
    cases a with
    | nil => simp at h
    | cons y ys =>
      have h2 : xs.length ≤ ys.length := by simpa using h
      rw [List.length_cons, List.range_succ_eq_map, List.findSome?_cons]
      simp only [List.getD_cons_zero, numsPrefix]
      by_cases hxy : y = x
      · subst hxy
        simp only [bne_self_eq_false, Bool.false_eq_true, ↓reduceIte, List.findSome?_map, BEq.rfl, Bool.true_and]
        have := ih ys h2
        simpa [Function.comp_def] using this
      · have : (x == y) = false := beq_eq_false_iff_ne.mpr (fun h => hxy h.symm)
        simp [hxy, this]

-- T `trans_includesVersion`: Go's `includesVersion`, translated, is the model's `includesVersion`.
theorem trans_includesVersion (actual required : Version) :
    Generated.Trans.includesVersion actual required = includesVersion actual required := by
  unfold Generated.Trans.includesVersion includesVersion
  by_cases hlen : actual.numbers.length < required.numbers.length
  · simp [hlen]
  · have hle : required.numbers.length ≤ actual.numbers.length := by omega
    simp only [hlen, decide_false, Bool.false_eq_true, ↓reduceIte, rangeLoop_eq_numsPrefix _ _ hle]
    cases hp : numsPrefix required.numbers actual.numbers <;> simp <;> grind

-- T `trans_satisfies`: Go's `versionDependency.satisfies`, translated, is `Dep.satisfies`.
theorem trans_satisfies (v : Dep) (actual required : Version) :
    Generated.Trans.satisfies v actual required = v.satisfies actual required := by
  unfold Generated.Trans.satisfies
  cases v <;> cases h : compareVersions actual required <;>
    simp [Dep.satisfies, Trans.compareVersionsInt, Trans.ordInt, trans_includesVersion, h]

/-- the hypotheses-free statements are about non-trivial values: `1.2` includes `1`, `1.2 > 1` -/
example : Generated.Trans.satisfies .tilde ⟨[1, 2], 0, 0, 0, 0, 0, 0⟩ ⟨[1], 0, 0, 0, 0, 0, 0⟩ = true ∧
    Generated.Trans.satisfies .gt ⟨[1, 2], 0, 0, 0, 0, 0, 0⟩ ⟨[1], 0, 0, 0, 0, 0, 0⟩ = true ∧
    Generated.Trans.satisfies .lt ⟨[1, 2], 0, 0, 0, 0, 0, 0⟩ ⟨[1], 0, 0, 0, 0, 0, 0⟩ = false := by decide

end Apko.TransVersion
