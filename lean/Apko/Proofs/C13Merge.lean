import Apko.Proofs.C13
/-! C13 — the declared lists on their way to the build (`ImageConfiguration.MergeInto`)

Every `apko build` hands the build a configuration that went through `MergeInto`: once per `include:` and once for the
per-architecture copy of `LockImageConfiguration` (ties `tie_glue_merge_into_lists`, `tie_glue_merge_into_callers`,
`tie_glue_merge_into_accounts`).  The theorems: what arrives is the declared list — included first, every element as
often as it was declared — and the file system is the fold of ALL of it, in order; a merge that keeps a repeated
mutation only once is NOT equivalent (witness). -/
namespace Apko.C13
open Apko Apko.Path Apko.FS Apko.Formats Apko.Accounts

/-- **merge_is_concat**: included first, then the including configuration's own elements -/
theorem mergeLists_eq {α : Type} (included own : List α) : mergeLists included own = included ++ own := rfl

/-- **nothing dropped, nothing invented**: every element arrives exactly as often as the two configurations declare it -/
theorem mergeLists_count {α : Type} [BEq α] (included own : List α) (x : α) :
    (mergeLists included own).count x = included.count x + own.count x := by
  simp [mergeLists, List.count_append]

theorem mergeLists_length {α : Type} (included own : List α) :
    (mergeLists included own).length = included.length + own.length := by
  simp [mergeLists]

/-- the order inside each configuration is kept (both are sublists in their own order) and the included part is a prefix -/
theorem mergeLists_prefix_suffix {α : Type} (included own : List α) :
    included <+: mergeLists included own ∧ own <:+ mergeLists included own :=
  ⟨List.prefix_append _ _, List.suffix_append _ _⟩

/-- **lock_copy_identity**: the per-architecture copy (merge into an empty configuration) is the declared list -/
theorem lockCopy_eq {α : Type} (declared : List α) : lockCopy declared = declared := by
  simp [lockCopy, mergeLists]

/-- **build_paths_declared**: through the include and the copy, the build receives included ++ own -/
theorem buildPaths_eq (included own : List Mutation) : buildPaths included own = included ++ own := by
  simp [buildPaths, lockCopy, mergeLists]

/-- **build_paths_fold**: the file system of the build is the fold of the whole declared list, in order: the included
file's mutations first, then — from the state they left — the including file's, stopping at the first failure -/
theorem build_paths_fold (c : Cfg) (fs : FS) (included own : List Mutation) :
    mutatePaths c fs (buildPaths included own) =
      andThen (mutatePaths c fs included) fun fs1 => mutatePaths c fs1 own := by
  rw [buildPaths_eq, mutatePaths_append]

/-- **build_paths_last**: the LAST declared mutation is applied last, to the state all the others produced — also when
it repeats an earlier one (A, B, A): every per-mutation theorem of C13 speaks about the final state for it -/
theorem build_paths_last (c : Cfg) (fs fs1 : FS) (included own : List Mutation) (m : Mutation) (hi : FS.Inv fs)
    (h : mutatePaths c fs (buildPaths included (own ++ [m])) = (fs1, none)) :
    ∃ fs0, mutatePaths c fs (buildPaths included own) = (fs0, none) ∧ FS.Inv fs0 ∧ mutateOne c fs0 m = (fs1, none) := by
  rw [buildPaths_eq, ← List.append_assoc] at h
  rw [buildPaths_eq]
  exact mutatePaths_last c fs fs1 (included ++ own) m hi h

/-- … and its declared permission bits and owner are what the declared path carries in the final state -/
theorem build_paths_last_attrs (c : Cfg) (fs fs1 : FS) (included own : List Mutation) (m : Mutation) (hi : FS.Inv fs)
    (hk : m.type ∈ [tDirectory, tEmptyFile, tHardlink, tSymlink, tPermissions])
    (h : mutatePaths c fs (buildPaths included (own ++ [m])) = (fs1, none)) :
    ∃ i, follow c fs1 m.path = some i ∧ permBitsOK (fs1.node i) m.perms = true ∧
      ownerOK (fs1.node i) m.uid m.gid = true := by
  rw [buildPaths_eq, ← List.append_assoc] at h
  exact mutatePaths_last_attrs c fs fs1 (included ++ own) m hi hk h

/-! ## a repeated mutation is not redundant -/

/-- a merge that keeps every mutation once, at its first position -/
def dedupFirst : List Mutation → List Mutation → List Mutation
  | seen, [] => seen.reverse
  | seen, m :: ms => if seen.contains m then dedupFirst seen ms else dedupFirst (m :: seen) ms

def wPermA : Mutation := { path := ['b', '/', 't'], type := tPermissions, uid := 7, gid := 7, perms := 0o600 }
def wPermB : Mutation := { path := ['b', '/', 't'], type := tPermissions, uid := 8, gid := 8, perms := 0o644 }

/-- "keeping each mutation once gives the same file system" … -/
def dedup_merge_equivalent : Prop :=
  ∀ (fs : FS) (included own : List Mutation), FS.Inv fs →
    mutatePaths wCfg fs (dedupFirst [] (included ++ own)) = mutatePaths wCfg fs (buildPaths included own)

/-- the witness: `b/t` 0600 7:7, then 0644 8:8, then 0600 7:7 again (declared in the including file): the declared list
ends with 0600 7:7 on the file, the shortened one with 0644 8:8 -/
theorem repeated_mutation_matters :
    dedupFirst [] ([wPermA, wPermB] ++ [wPermA]) = [wPermA, wPermB] ∧
    (mutatePaths wCfg wFS (buildPaths [wPermA, wPermB] [wPermA])).2 = none ∧
    (follow wCfg (mutatePaths wCfg wFS (buildPaths [wPermA, wPermB] [wPermA])).1 wPermA.path).map
      (fun k => let n := (mutatePaths wCfg wFS (buildPaths [wPermA, wPermB] [wPermA])).1.node k; (unixPerm n.mode, n.uid)) =
        some (0o600, 7) ∧
    (follow wCfg (mutatePaths wCfg wFS [wPermA, wPermB]).1 wPermA.path).map
      (fun k => let n := (mutatePaths wCfg wFS [wPermA, wPermB]).1.node k; (unixPerm n.mode, n.uid)) =
        some (0o644, 8) := by decide +kernel

/-- … is false -/
theorem dedup_merge_not_equivalent : ¬ dedup_merge_equivalent := by
  intro h
  have hw := repeated_mutation_matters
  have h1 := h wFS [wPermA, wPermB] [wPermA] inv_wFS
  rw [hw.1] at h1
  have h3 := hw.2.2.1
  rw [← h1] at h3
  rw [hw.2.2.2] at h3
  exact absurd h3 (by decide)

/-- the hypotheses of `build_paths_last` are met by a non-trivial value: the witness list succeeds from a tree that
satisfies the invariant -/
example : ∃ fs1, mutatePaths wCfg wFS (buildPaths [wPermA] ([wPermB] ++ [wPermA])) = (fs1, none) ∧ FS.Inv wFS :=
  ⟨_, Prod.ext rfl (by decide +kernel), inv_wFS⟩

end Apko.C13
