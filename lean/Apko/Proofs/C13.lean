import Apko.Model.Accounts
import Apko.Proofs.Lemmas.Accounts
import Apko.Proofs.Lemmas.AccountsExt
import Apko.Proofs.Lemmas.AccountsOpen
import Apko.Proofs.Lemmas.AccountsWalk
import Apko.Proofs.Lemmas.AccountsHomes
import Apko.Generated.Accounts
/-! C13 — declared accounts and path mutations are realized in the image
(theorems over `Model/Accounts.lean`, which composes `Model/FS.lean` and `Model/Formats.lean`) -/
namespace Apko.C13
open Apko Apko.Path Apko.FS Apko.Formats Apko.Accounts

/-! ## entries: defaults, field by field -/

/-- **passwd_append (entries)**: the entry appended for a configured user carries the configured
name and ids and the defaults of the property (shell `/bin/sh`, home `/home/<name>`, gid = uid):
the code's `userToUserEntry` is the Spec's entry. -/
theorem userToUserEntry_spec (u : UserCfg) : userToUserEntry u = specUser u := by
  cases u with
  | mk name uid gid shell home =>
    cases gid <;> simp [userToUserEntry, specUser, defaultShell, homePrefix, passwordX, accountInfo]

theorem userToUserEntry_fields (u : UserCfg) :
    (userToUserEntry u).name = u.name ∧ (userToUserEntry u).uid = u.uid ∧
    (userToUserEntry u).gid = u.gid.getD u.uid ∧
    (userToUserEntry u).shell = (if u.shell = [] then defaultShell else u.shell) ∧
    (userToUserEntry u).home = (if u.home = [] then homePrefix ++ u.name else u.home) := by
  cases u with
  | mk name uid gid shell home => cases gid <;> simp [userToUserEntry]

/-- **group_append (entries)** -/
theorem groupToGroupEntry_spec (g : GroupCfg) : groupToGroupEntry g = specGroup g := rfl


/-! ## accounts -/

/-- what a successful passwd goroutine did, step by step -/
theorem usersPart_ok (c : Cfg) (fs fs' : FS) (cfg : AccCfg) (r : Text)
    (h : usersPart c fs cfg = (fs', none, r)) :
    ∃ fs1 t old fs2, readOrCreate c fs passwdPath = (fs1, .ok t) ∧ loadUsers t = some old ∧
      seqM (homeStep c) fs1 (old ++ cfg.users.map userToUserEntry) = (fs2, none) ∧
      writeBack c fs2 passwdPath (writeUsers (old ++ cfg.users.map userToUserEntry)) = (fs', none) ∧
      r = resolveRunAs (old ++ cfg.users.map userToUserEntry) cfg.runAs := by
  unfold usersPart at h
  split at h
  · simp at h
  · rename_i fs1 t hro
    split at h
    · simp at h
    · rename_i old hload
      simp only [] at h
      split at h
      · simp at h
      · rename_i fs2 hhome
        split at h
        · simp at h
        · rename_i fs3 hw
          simp only [Prod.mk.injEq, true_and] at h
          obtain ⟨rfl, rfl⟩ := h
          exact ⟨fs1, t, old, fs2, hro, hload, hhome, hw, rfl⟩

theorem groupsPart_ok (c : Cfg) (fs fs' : FS) (gs : List GroupCfg) (hne : gs ≠ [])
    (h : groupsPart c fs gs = (fs', none)) :
    ∃ fs1 t old, readOrCreate c fs groupPath = (fs1, .ok t) ∧ loadGroups t = some old ∧
      writeBack c fs1 groupPath (writeGroups (old ++ gs.map groupToGroupEntry)) = (fs', none) := by
  unfold groupsPart at h
  simp only [hne, if_false] at h
  split at h
  · simp at h
  · rename_i fs1 t hro
    split at h
    · simp at h
    · rename_i old hload
      exact ⟨fs1, t, old, hro, hload, liftE_ok h⟩

/-- no groups configured: the group file is not touched at all -/
theorem groupsPart_none (c : Cfg) (fs : FS) : groupsPart c fs [] = (fs, none) := by simp [groupsPart]

/-- **passwd_append / group_append (what is written)**: a successful `mutateAccounts` read the
existing files (creating them empty when absent), parsed every line, and wrote back — as the last
thing it did to each file — the rendering of exactly *old entries ++ configured entries*, the
configured ones being the Spec's entries (`specUser`, `specGroup`: ids, shell, home, members,
defaults). -/
theorem accounts_append (c : Cfg) (fs fs' : FS) (cfg : AccCfg) (r : Text)
    (h : mutateAccounts c fs cfg = (fs', none, r)) :
    ∃ fsg fs1 t oldU fs2,
      groupsPart c fs cfg.groups = (fsg, none) ∧
      (cfg.groups ≠ [] → ∃ fg tg oldG, readOrCreate c fs groupPath = (fg, .ok tg) ∧ loadGroups tg = some oldG ∧
        writeBack c fg groupPath (writeGroups (oldG ++ cfg.groups.map specGroup)) = (fsg, none)) ∧
      readOrCreate c fsg passwdPath = (fs1, .ok t) ∧ loadUsers t = some oldU ∧
      seqM (homeStep c) fs1 (oldU ++ cfg.users.map specUser) = (fs2, none) ∧
      writeBack c fs2 passwdPath (writeUsers (oldU ++ cfg.users.map specUser)) = (fs', none) ∧
      r = resolveRunAs (oldU ++ cfg.users.map specUser) cfg.runAs := by
  unfold mutateAccounts at h
  cases hg : groupsPart c fs cfg.groups with
  | mk fsg ge =>
    cases hu : usersPart c fsg cfg with
    | mk fs2 ur =>
      obtain ⟨ue, r'⟩ := ur
      simp only [hg, hu, Prod.mk.injEq] at h
      obtain ⟨rfl, he, rfl⟩ := h
      cases ge with
      | some e => simp at he
      | none =>
        simp only [] at he
        subst he
        obtain ⟨fs1, t, old, fs2', h1, h2, h3, h4, h5⟩ := usersPart_ok c fsg _ cfg _ hu
        have hmap : cfg.users.map userToUserEntry = cfg.users.map specUser := by
          apply List.map_congr_left; intro u _; exact userToUserEntry_spec u
        rw [hmap] at h3 h4 h5
        refine ⟨fsg, fs1, t, old, fs2', rfl, ?_, h1, h2, h3, h4, h5⟩
        intro hne
        obtain ⟨fg, tg, oldG, g1, g2, g3⟩ := groupsPart_ok c fs fsg cfg.groups hne hg
        exact ⟨fg, tg, oldG, g1, g2, g3⟩

/-- **runas_resolved**: after a successful `mutateAccounts`, a `run-as` that names a user of the
image's passwd (pre-existing or configured) has been replaced by the numeric id of a user with that
name — the first such entry, as `getpwnam` would answer; otherwise it is kept. -/
theorem runas_resolved (entries : List User) (runAs : Text) (hne : runAs ≠ []) :
    (∀ u, entries.find? (fun u => u.name = runAs) = some u →
      resolveRunAs entries runAs = natToDec u.uid ∧ u ∈ entries ∧ u.name = runAs) ∧
    ((∀ u ∈ entries, u.name ≠ runAs) → resolveRunAs entries runAs = runAs) := by
  constructor
  · intro u hu
    refine ⟨by simp [resolveRunAs, hne, hu], List.mem_of_find?_eq_some hu, ?_⟩
    simpa using List.find?_some hu
  · intro hall
    have : entries.find? (fun u => u.name = runAs) = none := by
      rw [List.find?_eq_none]; intro u hu; simpa using hall u hu
    simp [resolveRunAs, hne, this]

/-- a matching user always exists in the list when some entry has the name -/
theorem runas_resolved_exists (entries : List User) (runAs : Text) (hne : runAs ≠ [])
    (u : User) (hu : u ∈ entries) (hn : u.name = runAs) :
    ∃ v ∈ entries, v.name = runAs ∧ resolveRunAs entries runAs = natToDec v.uid := by
  cases hf : entries.find? (fun u => u.name = runAs) with
  | none =>
    rw [List.find?_eq_none] at hf
    exact absurd hn (by simpa using hf u hu)
  | some v =>
    obtain ⟨h1, h2, h3⟩ := (runas_resolved entries runAs hne).1 v hf
    exact ⟨v, h2, h3, h1⟩

theorem runas_empty (entries : List User) : resolveRunAs entries [] = [] := by simp [resolveRunAs]

theorem renderUser_ne_nil (u : User) : renderUser u ≠ [] := by
  unfold renderUser
  intro h
  have := congrArg List.length h
  simp at this

theorem renderGroup_ne_nil (g : Group) : renderGroup g ≠ [] := by
  unfold renderGroup
  intro h
  have := congrArg List.length h
  simp at this

theorem writeUsers_ne_nil (us : List User) (h : us ≠ []) : writeUsers us ≠ [] := by
  cases us with
  | nil => exact absurd rfl h
  | cons u rest =>
    intro he
    simp only [writeUsers, List.flatMap_cons, List.append_eq_nil_iff] at he
    exact renderUser_ne_nil u he.1

theorem writeGroups_ne_nil (gs : List Group) (h : gs ≠ []) : writeGroups gs ≠ [] := by
  cases gs with
  | nil => exact absurd rfl h
  | cons g rest =>
    intro he
    simp only [writeGroups, List.flatMap_cons, List.append_eq_nil_iff] at he
    exact renderGroup_ne_nil g he.1

/-- **passwd_append (the file)**: the write-back of `mutateAccounts` (`accounts_append`: it is the
last thing done to `etc/passwd`, with `all = old entries ++ configured entries`) leaves a file that
reads back as exactly the rendering of `all`, entry by entry in that order — whether the file was
absent, in memory, or shipped by a package (whose bytes are replaced).  Side conditions: the state
before the write satisfies the graph invariant and `etc/passwd` itself is not a symbolic link. -/
theorem passwd_content (c : Cfg) (hc : c.posix = false) (fs2 fs' : FS) (hi : FS.Inv fs2) (all : List User)
    (hne : all ≠ [])
    (hnl : ∀ pi a, getNode c fs2 (dir passwdPath) = .ok pi → fs2.lookup pi (base passwdPath) = some a →
      (fs2.node a).isSymlink = false)
    (h : writeBack c fs2 passwdPath (writeUsers all) = (fs', none)) :
    readText c fs' passwdPath = writeUsers all :=
  writeBack_readText c hc fs2 fs' hi passwdPath _ (writeUsers_ne_nil all hne) hnl h

/-- **group_append (the file)** -/
theorem group_content (c : Cfg) (hc : c.posix = false) (fs1 fs' : FS) (hi : FS.Inv fs1) (all : List Group)
    (hne : all ≠ [])
    (hnl : ∀ pi a, getNode c fs1 (dir groupPath) = .ok pi → fs1.lookup pi (base groupPath) = some a →
      (fs1.node a).isSymlink = false)
    (h : writeBack c fs1 groupPath (writeGroups all) = (fs', none)) :
    readText c fs' groupPath = writeGroups all :=
  writeBack_readText c hc fs1 fs' hi groupPath _ (writeGroups_ne_nil all hne) hnl h

theorem wf_groupsPart (c : Cfg) (fs : FS) (gs : List GroupCfg) (h : WF fs) : WF (groupsPart c fs gs).1 := by
  unfold groupsPart
  split
  · exact h
  · have h1 := wf_readOrCreate c fs groupPath h
    split
    · rename_i heq; simp only [heq] at h1; exact h1
    · rename_i fs1 t heq
      simp only [heq] at h1
      split
      · exact h1
      · exact wf_writeBack c fs1 groupPath _ h1

/-- **accounts, end to end**: from a well-formed tree, a successful `mutateAccounts` ends with the
write-back of `etc/passwd` from a well-formed state; the run-as it reports is resolved against
*old ++ configured*; and (when `etc/passwd` itself is not a symbolic link) the file then reads
back as exactly the rendering of the old entries followed by the configured ones. -/
theorem accounts_passwd_final (c : Cfg) (hc : c.posix = false) (fs fs' : FS) (cfg : AccCfg) (r : Text)
    (hi : FS.Inv fs) (hb : DirBit fs) (h : mutateAccounts c fs cfg = (fs', none, r)) :
    ∃ fs2 oldU, FS.Inv fs2 ∧ DirBit fs2 ∧
      writeBack c fs2 passwdPath (writeUsers (oldU ++ cfg.users.map specUser)) = (fs', none) ∧
      r = resolveRunAs (oldU ++ cfg.users.map specUser) cfg.runAs ∧
      (oldU ++ cfg.users.map specUser ≠ [] →
        (∀ pi a, getNode c fs2 (dir passwdPath) = .ok pi → fs2.lookup pi (base passwdPath) = some a →
          (fs2.node a).isSymlink = false) →
        readText c fs' passwdPath = writeUsers (oldU ++ cfg.users.map specUser)) := by
  obtain ⟨fsg, fs1, t, oldU, fs2, hg, _, h1, _, h3, h4, h5⟩ := accounts_append c fs fs' cfg r h
  have wg : WF fsg := by have := wf_groupsPart c fs cfg.groups ⟨hi, hb⟩; rw [hg] at this; exact this
  have w1 : WF fs1 := by have := wf_readOrCreate c fsg passwdPath wg; rw [h1] at this; exact this
  have w2 : WF fs2 := by have := wf_seqM_home c (oldU ++ cfg.users.map specUser) fs1 w1; rw [h3] at this; exact this
  exact ⟨fs2, oldU, w2.1, w2.2, h4, h5, fun hne hnl => passwd_content c hc fs2 fs' w2.1 _ hne hnl h4⟩

/-! ## home directories -/

/-- `/dev/null` homes are skipped -/
theorem home_devnull_skipped (c : Cfg) (fs : FS) (u : User) (h : u.home = devNull) :
    homeStep c fs u = (fs, none) := by simp [homeStep, h]

/-- **home_created (present)**: a home that already exists as a directory is left exactly as it
is (nothing in the file system changes); one that exists as something else fails the build. -/
theorem home_present_untouched (c : Cfg) (fs : FS) (u : User) (s : StatInfo)
    (h : (step c fs (.stat (clean u.home))).2 = .ok (.stat s)) :
    homeStep c fs u = (fs, if u.home = devNull ∨ s.isDir then none else some .homeNotDir) := by
  unfold homeStep
  by_cases hd : u.home = devNull
  · simp [hd]
  · simp only [hd, if_false, h, false_or]
    cases s.isDir <;> simp

/-- **home_created (absent)**: when the (cleaned) home path does not resolve, a successful
iteration leaves a *new* directory at that path with mode `drwx------` (0700) owned by the
entry's uid and gid.  `hsplit`/`hp` say the path is an ordinary one — its components are those
of its `Dir` followed by its `Base` (true of every cleaned absolute path other than `/`). -/
theorem home_created (c : Cfg) (hc : c.posix = false) (fs fs' : FS) (u : User)
    (hi : FS.Inv fs) (hb : DirBit fs) (hdev : u.home ≠ devNull)
    (habs : (step c fs (.stat (clean u.home))).2 = .err .notExist)
    (hsplit : parts (clean u.home) = parts (dir (clean u.home)) ++ [base (clean u.home)])
    (hp : clean u.home ≠ slash ∧ clean u.home ≠ dot ∧ dir (clean u.home) ≠ dot)
    (h : homeStep c fs u = (fs', none)) :
    ∃ i, follow c fs' (clean u.home) = some i ∧ fs.nodes.length ≤ i ∧
      (fs'.node i).dir = true ∧ (fs'.node i).mode = modeDir ||| 0o700 ∧ unixPerm (fs'.node i).mode = 0o700 ∧
      (fs'.node i).uid = u.uid ∧ (fs'.node i).gid = u.gid := by
  unfold homeStep at h
  simp only [hdev, if_false, habs] at h
  obtain ⟨fs1, h1, h'⟩ := andThen_ok (liftE_ok h)
  obtain ⟨fs2, h2, h3⟩ := andThen_ok h'
  -- the parent chain
  have e1 : fs1 = (mkdirAll c fs (dir (clean u.home)) homeParentPerm).1 := by
    simp only [act, step, Prod.mk.injEq] at h1; exact h1.1.symm
  have hi1 : FS.Inv fs1 := by rw [e1]; exact mkdirAll_inv c fs _ _ hi
  have hb1 : DirBit fs1 := by rw [e1]; exact mkdirAll_dirBit c fs _ _ hi hb
  have hlen : fs.nodes.length ≤ fs1.nodes.length := by
    rw [e1]; exact mkdirAll_length c fs _ _
  -- the home itself
  obtain ⟨hres, hnode, hi2, _⟩ := mkdir_then_resolve hc hi1 hb1 h2 hsplit hp (by decide)
  obtain ⟨j, hg, rfl⟩ := chown_ok h3
  rw [hres] at hg; cases hg
  have hl2 : fs1.nodes.length < fs2.nodes.length := getNode_live hi2 c _ _ hres
  refine ⟨fs1.nodes.length, ?_, hlen, ?_, ?_, ?_, ?_, ?_⟩
  · have := getNode_shape (ShapeEq.modify fs2 fs1.nodes.length (fun n => { n with uid := (u.uid : Int), gid := (u.gid : Int) })
      (by intro n; rfl) (by intro n; rfl) rfl (by intro n; rfl)) c (clean u.home)
    simp [follow, this, hres]
  all_goals simp only [node_modify, hl2, and_self, if_true, hnode, newDir, homePerm]
  · decide

/-- the side conditions of `home_created` hold for ordinary homes (the default `/home/<name>`,
nested ones, and spellings that only become ordinary by cleaning) -/
example :
    let ok (h : Text) : Bool :=
      parts (clean h) = parts (dir (clean h)) ++ [base (clean h)] ∧
        clean h ≠ slash ∧ clean h ≠ dot ∧ dir (clean h) ≠ dot
    ok (homePrefix ++ ['a', 'p', 'p']) = true ∧ ok ['/', 'v', '/', 'l', '/', 'x', '/', 'y'] = true ∧
    ok ['/', 'o', 'p', 't', '/', 'h', '/'] = true ∧ ok ['/', 'a', '/', '.', '/', 'b'] = true ∧ ok ['/', 'x'] = true := by
  decide

/-- **home_created (final state)**: from a well-formed tree, after a successful `mutateAccounts`
every passwd entry `u` (old or configured, with an ordinary or `/dev/null` home) is `HomeDone`
with respect to the state `fsk` its own iteration of the loop started from and the **final** state:
`/dev/null` — nothing; home present in `fsk` — it resolves to the same directory at the end with
mode and owner exactly as in `fsk` (untouched); home absent in `fsk` — at the end it resolves to a
directory created by that iteration, with mode exactly `dir|0700` and owner `u.uid:u.gid`.
Nothing that existed before the call changed mode, owner or kind (`EF`). -/
theorem homes_final (c : Cfg) (hc : c.posix = false) (fs fs' : FS) (cfg : AccCfg) (r : Text)
    (hi : FS.Inv fs) (hb : DirBit fs) (h : mutateAccounts c fs cfg = (fs', none, r)) :
    ∃ fs1 oldU, EF fs fs1 ∧
      ((∀ u ∈ oldU ++ cfg.users.map specUser, u.home = devNull ∨ Ordinary (clean u.home)) →
        EF fs fs' ∧ HomesDone c fs1 fs' (oldU ++ cfg.users.map specUser)) := by
  obtain ⟨fsg, fs1, t, oldU, fs2, hg, _, h1, _, h3, h4, _⟩ := accounts_append c fs fs' cfg r h
  have wg : WF fsg := by have := wf_groupsPart c fs cfg.groups ⟨hi, hb⟩; rw [hg] at this; exact this
  have w1 : WF fs1 := by have := wf_readOrCreate c fsg passwdPath wg; rw [h1] at this; exact this
  have w2 : WF fs2 := by
    have := wf_seqM_home c (oldU ++ cfg.users.map specUser) fs1 w1; rw [h3] at this; exact this
  -- the group goroutine and the read-or-create only extend the graph
  have efg : EF fs fsg := by
    have : EF fs (groupsPart c fs cfg.groups).1 := by
      unfold groupsPart
      split
      · exact EF.refl fs
      · have e1 : EF fs (readOrCreate c fs groupPath).1 := by
          unfold readOrCreate
          have := openCore_ef c fs groupPath flagsReadOrCreate readOrCreatePerm hi
          split <;> (rename_i heq; simp only [heq] at this; exact this)
        have hw1 := wf_readOrCreate c fs groupPath ⟨hi, hb⟩
        split
        · rename_i heq; simp only [heq] at e1; exact e1
        · rename_i fsx tx heq
          simp only [heq] at e1 hw1
          split
          · exact e1
          · exact e1.trans (writeBack_ef c fsx groupPath _ hw1.1)
    rw [hg] at this; exact this
  have ef1 : EF fsg fs1 := by
    have : EF fsg (readOrCreate c fsg passwdPath).1 := by
      unfold readOrCreate
      have := openCore_ef c fsg passwdPath flagsReadOrCreate readOrCreatePerm wg.1
      split <;> (rename_i heq; simp only [heq] at this; exact this)
    rw [h1] at this; exact this
  have efw : EF fs2 fs' := by have := writeBack_ef c fs2 passwdPath (writeUsers (oldU ++ cfg.users.map specUser)) w2.1; rw [h4] at this; exact this
  refine ⟨fs1, oldU, efg.trans ef1, ?_⟩
  intro hord
  obtain ⟨efl, hdone⟩ := homes_loop c hc _ fs1 fs2 w1 hord h3
  exact ⟨((efg.trans ef1).trans efl).trans efw, HomesDone_mono c hc fs2 fs' w2.1 efw _ fs1 hdone⟩

/-- the side condition `Ordinary` holds for ordinary homes -/
example : Ordinary (clean (homePrefix ++ ['a', 'p', 'p'])) ∧ Ordinary (clean ['/', 'o', 'p', 't', '/', 'h', '/']) ∧
    Ordinary (clean ['/', 'v', '/', 'l', '/', 'x']) := by
  refine ⟨⟨?_, ?_, ?_, ?_⟩, ⟨?_, ?_, ?_, ?_⟩, ⟨?_, ?_, ?_, ?_⟩⟩ <;> decide

/-- **home_created (parents)**: everything else the creating iteration adds to the graph is a
root-owned directory of mode `dir|0755` (the missing parents); only the home itself is 0700. -/
theorem home_parents (c : Cfg) (hc : c.posix = false) (fs fs1 : FS) (u : User) (hw : WF fs)
    (hdev : u.home ≠ devNull) (habs : (step c fs (.stat (clean u.home))).2 = .err .notExist)
    (ho : Ordinary (clean u.home)) (h : homeStep c fs u = (fs1, none)) :
    ∃ i, getNode c fs1 (clean u.home) = .ok i ∧
      ∀ j, fs.nodes.length ≤ j → j < fs1.nodes.length → j ≠ i →
        (fs1.node j).dir = true ∧ (fs1.node j).mode = modeDir ||| 0o755 ∧ (fs1.node j).uid = 0 ∧ (fs1.node j).gid = 0 := by
  unfold homeStep at h
  simp only [hdev, if_false, habs] at h
  obtain ⟨fsA, h1, h'⟩ := andThen_ok (liftE_ok h)
  obtain ⟨fsB, h2, h3⟩ := andThen_ok h'
  have e1 : fsA = (mkdirAll c fs (dir (clean u.home)) homeParentPerm).1 := by
    simp only [act, step, Prod.mk.injEq] at h1; exact h1.1.symm
  have hiA : FS.Inv fsA := by rw [e1]; exact mkdirAll_inv c fs _ _ hw.1
  have hbA : DirBit fsA := by rw [e1]; exact mkdirAll_dirBit c fs _ _ hw.1 hw.2
  have hnew : NewDirs fs.nodes.length (modeDir ||| 0o755) fsA := by rw [e1]; exact mkdirAll_new c fs _ _ hw.1
  obtain ⟨hres, _, _, hlenB⟩ := mkdir_then_resolve hc hiA hbA h2 ho.1 ⟨ho.2.1, ho.2.2.1, ho.2.2.2⟩ (by decide)
  obtain ⟨pi, _, hbit, hfree, hB⟩ := mkdir_ok h2
  have efB : EF fsA fsB := by rw [hB]; exact ef_create hiA pi _ _ (hbA pi hbit) hfree
  obtain ⟨k, hgk, rfl⟩ := chown_ok h3
  rw [hres] at hgk; cases hgk
  have hsh : ShapeEq fsB (fsB.modify fsA.nodes.length fun n => { n with uid := (u.uid : Int), gid := (u.gid : Int) }) :=
    ShapeEq.modify fsB _ _ (by intro n; rfl) (by intro n; rfl) rfl (by intro n; rfl)
  refine ⟨fsA.nodes.length, by rw [getNode_shape hsh]; exact hres, ?_⟩
  intro j h1 h2 hne
  simp only [length_modify] at h2
  have hjA : j < fsA.nodes.length := by omega
  rw [node_modify]
  simp only [hne, false_and, if_false]
  have fr := efB.frame j hjA
  have := hnew.h j h1 hjA
  exact ⟨fr.2.2.2.trans this.1, fr.1.trans this.2.1, fr.2.1.trans this.2.2.1, fr.2.2.1.trans this.2.2.2⟩

/-! ## path mutations -/

/-- `mutatePaths` is the left fold of the loop body over the list, stopping at the first error:
a list is applied by applying its prefix and then the rest from the state reached. -/
theorem mutatePaths_append (c : Cfg) (fs : FS) (ms1 ms2 : List Mutation) :
    mutatePaths c fs (ms1 ++ ms2) = andThen (mutatePaths c fs ms1) fun fs1 => mutatePaths c fs1 ms2 :=
  seqM_append (mutateOne c) fs ms1 ms2

theorem mutatePaths_cons (c : Cfg) (fs : FS) (m : Mutation) (ms : List Mutation) :
    mutatePaths c fs (m :: ms) = andThen (mutateOne c fs m) fun fs1 => mutatePaths c fs1 ms :=
  seqM_cons (mutateOne c) fs m ms

theorem mutatePaths_nil (c : Cfg) (fs : FS) : mutatePaths c fs [] = (fs, none) := rfl

/-- **mutation_post (permission bits and ownership)** — `mutatePermissionsDirect`: after a
successful call the node the path resolves to (links followed, as `Chmod`/`Chown` do) carries
exactly the declared Unix permission bits — set-user-ID, set-group-ID and sticky included — and
the declared owner; it is the node the path resolved to before, its kind and content are
untouched, and no other node changed. -/
theorem perm_post (c : Cfg) (fs fs' : FS) (hi : FS.Inv fs) (p : Text) (perms uid gid : Nat)
    (h : mutatePermissionsDirect c fs p perms uid gid = (fs', none)) :
    ∃ i, follow c fs p = some i ∧ follow c fs' p = some i ∧
      permBitsOK (fs'.node i) perms = true ∧ ownerOK (fs'.node i) uid gid = true ∧
      (fs'.node i).dir = (fs.node i).dir ∧ (fs'.node i).data = (fs.node i).data ∧
      (fs'.node i).mode &&& modeType = (fs.node i).mode &&& modeType ∧
      ShapeEq fs fs' ∧ (∀ j, j ≠ i → fs'.node j = fs.node j) ∧ (fs'.node i).te = (fs.node i).te := by
  obtain ⟨i, hg, rfl⟩ := mpd_ok h
  have hl := getNode_live hi c p i hg
  have hsh := shape_setAttrs fs i (permMode perms) (permMode_bit27 perms) uid gid
  refine ⟨i, by simp [follow, hg], by simp [follow, getNode_shape hsh c p, hg], ?_, ?_, ?_, ?_, ?_, hsh, ?_, ?_⟩
  · simp [node_setAttrs, hl, permBitsOK, unixPerm_permMode]
  · simp [node_setAttrs, hl, ownerOK]
  · simp [node_setAttrs, hl]
  · simp [node_setAttrs, hl]
  · simp only [node_setAttrs, hl, and_self, if_true, typeKeep]
    apply Nat.eq_of_testBit_eq; intro k
    simp only [Nat.testBit_and, Nat.testBit_or]
    by_cases hk : k < 9 ∨ k = 20 ∨ k = 22 ∨ k = 23
    · simp [modeType_low k hk]
    · have hp : (permMode perms).testBit k = false := by
        simp only [permMode, unixToFileMode_testBit]
        have a1 : (k < 9) = False := by simp; omega
        have a2 : (k = 23) = False := by simp; omega
        have a3 : (k = 22) = False := by simp; omega
        have a4 : (k = 20) = False := by simp; omega
        simp [a1, a2, a3, a4]
      simp [hp]
  · intro j hj; simp [node_setAttrs, hj]
  · simp [node_setAttrs, hl]

/-- the state a known mutator leaves, for the kinds that are followed by `mutatePermissions` -/
theorem mutateOne_inv (c : Cfg) (fs fs' : FS) (m : Mutation) (hi : FS.Inv fs)
    (hk : m.type ∈ [tDirectory, tEmptyFile, tHardlink, tSymlink, tPermissions])
    (h : mutateOne c fs m = (fs', none)) :
    ∃ fs1, FS.Inv fs1 ∧ mutatePermissions c fs1 m = (fs', none) ∧
      (m.type = tSymlink → mutateSymLink c fs m = (fs1, none)) ∧
      (m.type = tPermissions → fs1 = fs) := by
  simp only [List.mem_cons, List.mem_nil_iff, or_false] at hk
  have ne1 : tSymlink ≠ tPermissions := by decide
  rcases hk with hk | hk | hk | hk | hk
  · rw [mutateOne_directory c fs m hk] at h
    obtain ⟨fs1, h1, h2⟩ := andThen_ok (liftE_ok h)
    have : FS.Inv fs1 := by
      have := inv_mutateDirectory c fs m hi; simp only [Prod.mk.injEq] at h1; rw [h1.1] at this; exact this
    refine ⟨fs1, this, h2, ?_, ?_⟩ <;> intro ht <;> rw [hk] at ht <;> exact absurd ht (by decide)
  · rw [mutateOne_emptyFile c fs m hk] at h
    obtain ⟨fs1, h1, h2⟩ := andThen_ok (liftE_ok h)
    have : FS.Inv fs1 := by have := inv_mutateEmptyFile c fs m hi; rw [h1] at this; exact this
    refine ⟨fs1, this, h2, ?_, ?_⟩ <;> intro ht <;> rw [hk] at ht <;> exact absurd ht (by decide)
  · rw [mutateOne_hardlink c fs m hk] at h
    obtain ⟨fs1, h1, h2⟩ := andThen_ok (liftE_ok h)
    have : FS.Inv fs1 := by have := inv_mutateHardLink c fs m hi; rw [h1] at this; exact this
    refine ⟨fs1, this, h2, ?_, ?_⟩ <;> intro ht <;> rw [hk] at ht <;> exact absurd ht (by decide)
  · rw [mutateOne_symlink c fs m hk] at h
    obtain ⟨fs1, h1, h2⟩ := andThen_ok (liftE_ok h)
    have : FS.Inv fs1 := by have := inv_mutateSymLink c fs m hi; rw [h1] at this; exact this
    exact ⟨fs1, this, h2, fun _ => h1, fun ht => absurd (hk.symm.trans ht) ne1⟩
  · rw [mutateOne_permissions c fs m hk] at h
    refine ⟨fs, hi, liftE_ok h, ?_, fun _ => rfl⟩
    intro ht; rw [hk] at ht; exact absurd ht.symm ne1

/-- **mutation_post (every kind): permission bits and ownership.**  After a successful iteration of
`mutatePaths` for a mutation of any of the five kinds, the node the declared path resolves to
carries exactly the declared Unix permission bits (set-id and sticky included) and owner. -/
theorem mutation_post_attrs (c : Cfg) (fs fs' : FS) (m : Mutation) (hi : FS.Inv fs)
    (hk : m.type ∈ [tDirectory, tEmptyFile, tHardlink, tSymlink, tPermissions])
    (h : mutateOne c fs m = (fs', none)) :
    ∃ i, follow c fs' m.path = some i ∧ permBitsOK (fs'.node i) m.perms = true ∧
      ownerOK (fs'.node i) m.uid m.gid = true := by
  obtain ⟨fs1, hi1, h2, _, _⟩ := mutateOne_inv c fs fs' m hi hk h
  obtain ⟨i, _, hf, hp, ho, _⟩ := perm_post c fs1 fs' hi1 m.path m.perms m.uid m.gid h2
  exact ⟨i, hf, hp, ho⟩

/-- an iteration for a kind the table does not have fails and changes nothing -/
theorem mutation_unknown_type (c : Cfg) (fs : FS) (m : Mutation)
    (h : m.type ∉ [tDirectory, tEmptyFile, tHardlink, tSymlink, tPermissions]) :
    mutateOne c fs m = (fs, some .badType) := mutateOne_unknown c fs m h

/-- **mutation_post (permissions)**: the Spec post-condition holds in full -/
theorem mutation_post_permissions (c : Cfg) (fs fs' : FS) (m : Mutation) (hi : FS.Inv fs)
    (ht : m.type = tPermissions) (h : mutateOne c fs m = (fs', none)) : specMutation c fs' m = [] := by
  obtain ⟨i, hf, hp, ho⟩ := mutation_post_attrs c fs fs' m hi (by simp [ht]) h
  simp [specMutation, ht, tSymlink, tDirectory, tEmptyFile, tHardlink, tPermissions, hf, attrFails, hp, ho]

/-- **mutation_post (symlink)**: after a successful iteration the declared path holds a symbolic
link entry whose target is the declared source (the entry itself: the last component is not
followed). -/
theorem symlink_post (c : Cfg) (hc : c.posix = false) (fs fs' : FS) (m : Mutation) (hi : FS.Inv fs)
    (ht : m.type = tSymlink) (h : mutateOne c fs m = (fs', none)) :
    ∃ k, entryOf c fs' m.path = some k ∧ (fs'.node k).isSymlink = true ∧ (fs'.node k).target = m.source := by
  obtain ⟨fs1, hi1, h2, hs, _⟩ := mutateOne_inv c fs fs' m hi (by simp [ht]) h
  obtain ⟨k, he, hsym, htg, _, _⟩ := mutateSymLink_post hc hi (hs ht)
  obtain ⟨i, _, _, _, _, _, _, _, hsh, _⟩ := perm_post c fs1 fs' hi1 m.path m.perms m.uid m.gid h2
  refine ⟨k, by rw [entryOf_shape hsh]; exact he, ?_, ?_⟩
  · rw [hsh.sym k]; exact hsym
  · rw [hsh.target k]; exact htg

/-- the recursive walk of `mutateDirectory`: the root is visited, and every visited path resolves to
a node with the declared attributes when the walk is over -/
theorem mutateDirectory_walk (c : Cfg) (fs fs' : FS) (m : Mutation) (vs : List Text) (hi : FS.Inv fs)
    (hr : m.recursive = true) (h : mutateDirectory c fs m = (fs', none, vs)) :
    FS.Inv fs' ∧ m.path ∈ vs ∧ Good c m.perms m.uid m.gid fs' vs := by
  unfold mutateDirectory at h
  have hi1 := inv_act c fs (.mkdirAll m.path (permMode m.perms)) hi (by intro p q h; cases h)
  cases ha : act c fs (.mkdirAll m.path (permMode m.perms)) with
  | mk fs1 r =>
    rw [ha] at hi1
    cases r with
    | some e => simp [ha] at h
    | none =>
      simp only [ha, hr, if_true] at h
      unfold walkRoot at h
      simp only [step] at h
      cases hg : getNode c fs1 m.path with
      | error e => simp [hg] at h
      | ok i =>
        simp only [hg] at h
        obtain ⟨h1, h2, h3⟩ := walkDir_good c m.perms m.uid m.gid _ fs1 fs' m.path _ vs [] hi1
          (by intro p hp; cases hp) h
        exact ⟨h1, h3, by simpa using h2⟩

/-- **mutation_post (directory, recursive)**: after a successful iteration for a recursive
`directory` mutation, the declared path and every path the walk below it visited resolve to nodes
that carry exactly the declared permission bits and owner. -/
theorem recursive_post (c : Cfg) (fs fs' : FS) (m : Mutation) (hi : FS.Inv fs)
    (ht : m.type = tDirectory) (hr : m.recursive = true) (h : mutateOne c fs m = (fs', none)) :
    m.path ∈ (mutateDirectory c fs m).2.2 ∧
    ∀ p ∈ (mutateDirectory c fs m).2.2, ∃ i, follow c fs' p = some i ∧
      permBitsOK (fs'.node i) m.perms = true ∧ ownerOK (fs'.node i) m.uid m.gid = true := by
  rw [mutateOne_directory c fs m ht] at h
  obtain ⟨fs1, h1, h2⟩ := andThen_ok (liftE_ok h)
  simp only [Prod.mk.injEq] at h1
  have hd : mutateDirectory c fs m = (fs1, none, (mutateDirectory c fs m).2.2) := by
    rw [← h1.1, ← h1.2]
  obtain ⟨hi1, hroot, hgood⟩ := mutateDirectory_walk c fs fs1 m _ hi hr hd
  obtain ⟨_, hg'⟩ := good_cb c m.perms m.uid m.gid fs1 fs' _ m.path hi1 hgood h2
  refine ⟨hroot, ?_⟩
  intro p hp
  obtain ⟨i, hi', ha⟩ := hg' p (List.mem_cons_of_mem _ hp)
  exact ⟨i, by simp [follow, hi'], ha.1, ha.2⟩

/-- **the recursive walk is complete, level by level**: after a successful recursive
`mutateDirectory` the declared path was visited, and — when it resolves to a directory — so was
every entry `ReadDir` lists for it in the resulting state.  The same holds for every nested call of
the walk (`walkDir_children`), i.e. for every directory entry the walk descends into. -/
theorem recursive_children (c : Cfg) (fs fs1 : FS) (m : Mutation) (vs : List Text)
    (hr : m.recursive = true) (h : mutateDirectory c fs m = (fs1, none, vs)) :
    m.path ∈ vs ∧
    ((∃ i, getNode c fs1 m.path = .ok i ∧ (fs1.node i).dir = true) →
      ∀ es, (step c fs1 (.readDir m.path)).2 = .ok (.entries es) → ∀ e ∈ es, join2 m.path e.name ∈ vs) := by
  unfold mutateDirectory at h
  cases ha : act c fs (.mkdirAll m.path (permMode m.perms)) with
  | mk fsA r =>
    cases r with
    | some e => simp [ha] at h
    | none =>
      simp only [ha, hr, if_true] at h
      have hsh : ShapeEq fsA fs1 := by
        have := walkRoot_keeps c (fun f p => mutatePermissionsDirect c f p m.perms m.uid m.gid) (ShapeEq fsA)
          (fun f p hf => ShapeEq.trans hf (shape_mpd c f p _ _ _)) fsA m.path (ShapeEq.refl fsA)
        rw [h] at this; exact this
      unfold walkRoot at h
      simp only [step] at h
      cases hg : getNode c fsA m.path with
      | error e => simp [hg] at h
      | ok i =>
        simp only [hg, statOf] at h
        obtain ⟨h1, h2⟩ := walkDir_children c _ (fun f p => shape_mpd c f p _ _ _) _ fsA fs1 m.path _ vs h
        refine ⟨h1, ?_⟩
        rintro ⟨j, hj, hd⟩
        rw [getNode_shape hsh, hg] at hj
        cases hj
        exact h2 (by rw [← hsh.dir i]; exact hd)

/-- what a successful `mutateHardLink` leaves: the entry at the path *is* the node the source
resolves to (one inode, two names) -/
theorem mutateHardLink_post (c : Cfg) (hc : c.posix = false) (fs fs' : FS) (m : Mutation)
    (h : mutateHardLink c fs m = (fs', none)) :
    ∃ t, entryOf c fs' m.path = some t ∧ follow c fs' m.source = some t := by
  unfold mutateHardLink at h
  obtain ⟨fs0, _, h1⟩ := andThen_ok h
  obtain ⟨fs2, _, h3⟩ := andThen_ok h1
  obtain ⟨pi, t, hg, hd, ho, hfree, rfl⟩ := link_ok h3
  obtain ⟨hext, hlk⟩ := ext_link (fs := fs2) pi t (base m.path) hd hfree
  refine ⟨t, ?_, ?_⟩
  · simp only [entryOf, parentOf, getNode_ext hc hext hg]; exact hlk
  · simp [follow, getNode_ext hc hext ho]

/-- **mutation_post (hardlink)**: after a successful iteration the entry at the declared path and
the declared source are the same inode, which carries the declared permission bits and owner. -/
theorem hardlink_post (c : Cfg) (hc : c.posix = false) (fs fs' : FS) (m : Mutation) (hi : FS.Inv fs)
    (ht : m.type = tHardlink) (h : mutateOne c fs m = (fs', none)) :
    ∃ t, entryOf c fs' m.path = some t ∧ follow c fs' m.source = some t := by
  rw [mutateOne_hardlink c fs m ht] at h
  obtain ⟨fs1, h1, h2⟩ := andThen_ok (liftE_ok h)
  have hi1 : FS.Inv fs1 := by have := inv_mutateHardLink c fs m hi; rw [h1] at this; exact this
  obtain ⟨t, he, hf⟩ := mutateHardLink_post c hc fs fs1 m h1
  obtain ⟨i, _, _, _, _, _, _, _, hsh, _⟩ := perm_post c fs1 fs' hi1 m.path m.perms m.uid m.gid h2
  refine ⟨t, by rw [entryOf_shape hsh]; exact he, ?_⟩
  simp only [follow, getNode_shape hsh c m.source] at hf ⊢; exact hf

/-- **mutation_post (empty-file), partial**: when the entry at the path (after the parent
directories were made) is not a symbolic link and not package-backed (`te = none` — the hypothesis
whose negation is F13d), a successful iteration leaves at the path a regular node of size 0 with
the declared permission bits and owner: the whole Spec post-condition. -/
theorem empty_file_post_partial (c : Cfg) (hc : c.posix = false) (fs fs' : FS) (m : Mutation) (hi : FS.Inv fs)
    (ht : m.type = tEmptyFile)
    (hnl : ∀ fs0, ensureParentDirectory c fs m.path = (fs0, none) → ∀ pi a,
      getNode c fs0 (dir m.path) = .ok pi → fs0.lookup pi (base m.path) = some a →
      (fs0.node a).isSymlink = false ∧ (fs0.node a).te = none)
    (hsplit : parts m.path = parts (dir m.path) ++ [base m.path]) (hp : m.path ≠ dot ∧ dir m.path ≠ dot)
    (h : mutateOne c fs m = (fs', none)) :
    ∃ i, follow c fs' m.path = some i ∧ (fs'.node i).dir = false ∧ (fs'.node i).isSymlink = false ∧
      effectiveSize c (fs'.node i) = 0 ∧ permBitsOK (fs'.node i) m.perms = true ∧
      ownerOK (fs'.node i) m.uid m.gid = true := by
  rw [mutateOne_emptyFile c fs m ht] at h
  obtain ⟨fs1, h1, h2⟩ := andThen_ok (liftE_ok h)
  unfold mutateEmptyFile at h1
  obtain ⟨fs0, h0, hc1⟩ := andThen_ok h1
  have hi0 : FS.Inv fs0 := by have := inv_ensureParent c fs m.path hi; rw [h0] at this; exact this
  obtain ⟨pi, a, hg, hd, hl, hda, hsa, hdata, hte, hi1⟩ :=
    createEmpty_post c hc fs0 fs1 hi0 m.path (hnl fs0 h0) hc1
  have hres := resolve_entry hc hg hd hl hsa hsplit hp
  obtain ⟨i, hf1, hf', hpb, hob, hdir, hdat, _, hsh, _, hte'⟩ := perm_post c fs1 fs' hi1 m.path m.perms m.uid m.gid h2
  have hia : i = a := by simp [follow, hres] at hf1; exact hf1.symm
  subst hia
  refine ⟨i, hf', by rw [hdir]; exact hda, by rw [hsh.sym i]; exact hsa, ?_, hpb, hob⟩
  simp [effectiveSize, hte', hte, hdat, hdata]

/-- the whole of `mutateDirectory` (with or without the recursive walk) keeps the shape `MkdirAll` left -/
theorem mutateDirectory_shape (c : Cfg) (fs fsA : FS) (m : Mutation)
    (hA : act c fs (.mkdirAll m.path (permMode m.perms)) = (fsA, none)) :
    ShapeEq fsA (mutateDirectory c fs m).1 := by
  unfold mutateDirectory
  simp only [hA]
  split
  · exact walkRoot_keeps c _ (ShapeEq fsA) (fun f p h => ShapeEq.trans h (shape_mpd c f p _ _ _)) fsA m.path
      (ShapeEq.refl fsA)
  · exact ShapeEq.refl fsA

/-- **mutation_post (directory), partial**: when the declared path has no `.` components and its
lookup in the final state meets no symbolic link (the traversal counter stays 0 — the hypothesis
that is not needed by the code, only by this proof), the path resolves to a *directory* carrying
the declared permission bits and owner. -/
theorem directory_post_plain (c : Cfg) (hc : c.posix = false) (fs fs' : FS) (m : Mutation) (hi : FS.Inv fs)
    (ht : m.type = tDirectory) (h : mutateOne c fs m = (fs', none))
    (hnodot : (parts m.path).filter (· ≠ dot) = parts m.path)
    (i : Ino) (hplain : getNodeD fs' (maxLinks + 1) m.path 0 = .ok (i, 0)) :
    follow c fs' m.path = some i ∧ (fs'.node i).dir = true ∧
      permBitsOK (fs'.node i) m.perms = true ∧ ownerOK (fs'.node i) m.uid m.gid = true := by
  have hfol : follow c fs' m.path = some i := by
    simp [follow, getNode, resolveFrom, hc, hplain, Except.map]
  obtain ⟨j, hj, hp, ho⟩ := mutation_post_attrs c fs fs' m hi (by simp [ht]) h
  rw [hfol] at hj; cases hj
  refine ⟨hfol, ?_, hp, ho⟩
  -- the shape of the final state is the one `MkdirAll` left
  rw [mutateOne_directory c fs m ht] at h
  obtain ⟨fs1, h1, h2⟩ := andThen_ok (liftE_ok h)
  simp only [Prod.mk.injEq] at h1
  cases hA : act c fs (.mkdirAll m.path (permMode m.perms)) with
  | mk fsA e =>
    cases e with
    | some e =>
      exfalso
      have : (mutateDirectory c fs m).2.1 = some e := by simp [mutateDirectory, hA]
      rw [h1.2] at this; cases this
    | none =>
      have s1 : ShapeEq fsA fs1 := by rw [← h1.1]; exact mutateDirectory_shape c fs fsA m hA
      have s2 : ShapeEq fs1 fs' := by
        have := shape_mpd c fs1 m.path m.perms m.uid m.gid
        unfold mutatePermissions at h2; rw [h2] at this; exact this
      have sh := ShapeEq.trans s1 s2
      rw [sh.dir i]
      rw [getNodeD_shape sh] at hplain
      exact mkdirAll_plain_dir c fs fsA m.path _ hi hA hnodot i hplain

/-- **applied in order**: when a whole list of mutations succeeds, the last one was applied — as one
iteration of the loop — to the state its predecessors produced (which satisfies the graph
invariant), so every per-mutation theorem of this file speaks about the final state for the last
mutation of any successful prefix. -/
theorem mutatePaths_last (c : Cfg) (fs fs' : FS) (ms : List Mutation) (m : Mutation) (hi : FS.Inv fs)
    (h : mutatePaths c fs (ms ++ [m]) = (fs', none)) :
    ∃ fs1, mutatePaths c fs ms = (fs1, none) ∧ FS.Inv fs1 ∧ mutateOne c fs1 m = (fs', none) := by
  rw [mutatePaths_append] at h
  obtain ⟨fs1, h1, h2⟩ := andThen_ok h
  rw [mutatePaths_cons] at h2
  obtain ⟨fs2, h3, h4⟩ := andThen_ok h2
  rw [mutatePaths_nil] at h4
  cases h4
  have := inv_mutatePaths c ms fs hi
  rw [h1] at this
  exact ⟨fs1, h1, this, h3⟩

/-- the declared attributes of the last mutation hold in the final state of a successful list -/
theorem mutatePaths_last_attrs (c : Cfg) (fs fs' : FS) (ms : List Mutation) (m : Mutation) (hi : FS.Inv fs)
    (hk : m.type ∈ [tDirectory, tEmptyFile, tHardlink, tSymlink, tPermissions])
    (h : mutatePaths c fs (ms ++ [m]) = (fs', none)) :
    ∃ i, follow c fs' m.path = some i ∧ permBitsOK (fs'.node i) m.perms = true ∧
      ownerOK (fs'.node i) m.uid m.gid = true := by
  obtain ⟨fs1, _, hi1, h2⟩ := mutatePaths_last c fs fs' ms m hi h
  exact mutation_post_attrs c fs1 fs' m hi1 hk h2

/-! ## witnesses of the recorded findings (the full statements fail on the model the driver runs) -/

def wCfg : Cfg := Cfg.impl .tarfs

def wHdr : Hdr :=
  { typeflag := 48, name := ['b', '/', 'p'], mode := 0o644, size := 1, checksum := some ['s'],
    content := ['x'], pkgName := ['p'], pkgOrigin := ['p'] }

/-- a tree with a directory `b`, a file `b/t` (mode 0755, root) and a package file `b/p` with body `x` -/
def wFS : FS :=
  (run wCfg FS.empty
    [.mkdirAll ['b'] 0o755, .writeFile ['b', '/', 't'] ['x'] 0o755,
     .writeHeader wHdr]).1

def wSymlink : Mutation :=
  { path := ['l'], type := tSymlink, uid := 1000, gid := 1000, perms := 0o777, source := ['b', '/', 't'] }

/-- **F13a** (negation of "the symlink entry has the declared owner"): the mutation succeeds, the
link entry keeps owner 0:0, and the declared owner lands on the link's target. -/
theorem symlink_owner_lands_on_target :
    (mutateOne wCfg wFS wSymlink).2 = none ∧
    (entryOf wCfg (mutateOne wCfg wFS wSymlink).1 wSymlink.path).map
      (fun k => ((mutateOne wCfg wFS wSymlink).1.node k).uid) = some 0 ∧
    (follow wCfg (mutateOne wCfg wFS wSymlink).1 wSymlink.source).map
      (fun k => ((mutateOne wCfg wFS wSymlink).1.node k).uid) = some 1000 ∧
    specMutation wCfg (mutateOne wCfg wFS wSymlink).1 wSymlink ≠ [] := by decide +kernel

def wEmpty : Mutation := { path := ['b', '/', 'p'], type := tEmptyFile, perms := 0o644 }

/-- **F13d** (negation of "an empty file is present"): on a path a package ships with a body the
mutation succeeds and readers still get the package's bytes (size 1, not 0). -/
theorem empty_file_keeps_package_content :
    (mutateOne wCfg wFS wEmpty).2 = none ∧
    (follow wCfg (mutateOne wCfg wFS wEmpty).1 wEmpty.path).map
      (fun k => effectiveSize wCfg ((mutateOne wCfg wFS wEmpty).1.node k)) = some 1 ∧
    readText wCfg (mutateOne wCfg wFS wEmpty).1 wEmpty.path = ['x'] ∧
    specMutation wCfg (mutateOne wCfg wFS wEmpty).1 wEmpty ≠ [] := by decide +kernel

/-- on a path that is not package-backed the same mutation meets the whole post-condition -/
theorem empty_file_ok_example :
    specMutation wCfg (mutateOne wCfg wFS { wEmpty with path := ['b', '/', 't'] }).1 { wEmpty with path := ['b', '/', 't'] } = [] ∧
    specMutation wCfg (mutateOne wCfg wFS { wEmpty with path := ['n', '/', 'e'] }).1 { wEmpty with path := ['n', '/', 'e'] } = [] := by
  decide +kernel

/-- **F13b before the repair** (`fs.FileMode(perms)`): 0o4755 reached the node as 0o755 -/
theorem setuid_dropped_before_repair :
    unixPerm (typeKeep 0o644 (permModeOld 0o4755)) = 0o755 ∧ wantPerm 0o4755 = 0o4755 ∧
    unixPerm (typeKeep 0o644 (permMode 0o4755)) = 0o4755 := by decide

/-- hard links inside the file system are real (the recorded finding F13c is about the layer
writer, which emits the second name as a copy): the whole post-condition holds on the example -/
theorem hardlink_ok_example :
    specMutation wCfg
      (mutateOne wCfg wFS { path := ['h'], type := tHardlink, uid := 7, gid := 8, perms := 0o600, source := ['b', '/', 't'] }).1
      { path := ['h'], type := tHardlink, uid := 7, gid := 8, perms := 0o600, source := ['b', '/', 't'] } = [] := by
  decide +kernel

theorem inv_wFS : FS.Inv wFS := by
  have h0 := Inv.empty
  have h1 := inv_step' wCfg FS.empty (.mkdirAll ['b'] 0o755) h0 (by intro p q h; cases h)
  have h2 := inv_step' wCfg _ (.writeFile ['b', '/', 't'] ['x'] 0o755) h1 (by intro p q h; cases h)
  have h3 := inv_step' wCfg _ (.writeHeader wHdr) h2 (by intro p q h; cases h)
  exact h3

/-- the full statement for `symlink` mutations — type, target **and** the declared ownership on
the link entry — … -/
def symlink_full : Prop :=
  ∀ (fs fs' : FS) (m : Mutation), FS.Inv fs → m.type = tSymlink → mutateOne wCfg fs m = (fs', none) →
    specMutation wCfg fs' m = []

/-- … fails (F13a); `symlink_post` is the part that holds -/
theorem symlink_full_fails : ¬ symlink_full := by
  intro h
  have hw := symlink_owner_lands_on_target
  exact hw.2.2.2 (h wFS _ wSymlink inv_wFS rfl (Prod.ext rfl hw.1))

/-- the full statement for `empty-file` mutations … -/
def empty_file_full : Prop :=
  ∀ (fs fs' : FS) (m : Mutation), FS.Inv fs → m.type = tEmptyFile → mutateOne wCfg fs m = (fs', none) →
    specMutation wCfg fs' m = []

/-- … fails on package-backed paths (F13d = F17b) -/
theorem empty_file_full_fails : ¬ empty_file_full := by
  intro h
  have hw := empty_file_keeps_package_content
  exact hw.2.2.2 (h wFS _ wEmpty inv_wFS rfl (Prod.ext rfl hw.1))

/-! ## ties: the source the model was written from (regenerated on every run) -/

/-- the literals of the model are the literals of `userToUserEntry` / `mutateAccounts` -/
theorem tie_model_literals :
    Generated.acc_userDefaults =
      [("user.Shell == \"\" => user.Shell", "\"" ++ String.ofList defaultShell ++ "\""),
       ("user.HomeDir == \"\" => user.HomeDir", "\"" ++ String.ofList homePrefix ++ "\" + user.UserName"),
       ("user.GID != nil => gid", "*user.GID")] ∧
    Generated.acc_userEntryFields =
      [("UserName", "user.UserName"), ("UID", "user.UID"), ("GID", "gid"), ("HomeDir", "user.HomeDir"),
       ("Password", "\"" ++ String.ofList passwordX ++ "\""),
       ("Info", "\"" ++ String.ofList accountInfo ++ "\""), ("Shell", "user.Shell")] ∧
    Generated.acc_pathMutators.map (·.1) =
      [tDirectory, tEmptyFile, tHardlink, tSymlink, tPermissions].map String.ofList := by decide

-- BEGIN generated-literal ties (tools: /tmp regen script; the right-hand sides are what the model was written from)
theorem tie_acc_stmts_appendGroup : Generated.acc_stmts_appendGroup = (["ge := passwd.GroupEntry{ GroupName: group.GroupName, GID: group.GID, Members: group.Members, Password: \"x\", }",
  "return append(groups, ge)"] : List String) := by rfl

theorem tie_acc_stmts_userToUserEntry : Generated.acc_stmts_userToUserEntry = (["if user.Shell == \"\" { user.Shell = \"/bin/sh\" }",
  "if user.HomeDir == \"\" { user.HomeDir = \"/home/\" + user.UserName }",
  "gid := user.UID",
  "if user.GID != nil { gid = *user.GID }",
  "return passwd.UserEntry{ UserName: user.UserName, UID: user.UID, GID: gid, HomeDir: user.HomeDir, Password: \"x\", Info: \"Account created by apko\", Shell: user.Shell, }"] : List String) := by rfl

theorem tie_acc_stmts_mutateAccounts : Generated.acc_stmts_mutateAccounts = (["var eg errgroup.Group",
  "if len(ic.Accounts.Groups) != 0 { eg.Go(func() error { path := filepath.Join(\"etc\", \"group\") gf, err := passwd.ReadOrCreateGroupFile(fsys, path) if err != nil { return err } for _, g := range ic.Accounts.Groups { gf.Entries = appendGroup(gf.Entries, g) } if err := gf.WriteFile(fsys, path); err != nil { return err } return nil }) }",
  "eg.Go(func() error { path := filepath.Join(\"etc\", \"passwd\") uf, err := passwd.ReadOrCreateUserFile(fsys, path) if err != nil { return err } for _, u := range ic.Accounts.Users { ue := userToUserEntry(u) uf.Entries = append(uf.Entries, ue) } for _, ue := range uf.Entries { if ue.HomeDir == \"/dev/null\" { continue } targetHomedir := filepath.Clean(ue.HomeDir) if fi, err := fsys.Stat(targetHomedir); err == nil { if !fi.IsDir() { return fmt.Errorf(\"%s home directory %s exists, but is not a directory\", ue.UserName, ue.HomeDir) } continue } else if !os.IsNotExist(err) { return fmt.Errorf(\"checking homedir exists: %w\", err) } parent := filepath.Dir(targetHomedir) if err := fsys.MkdirAll(parent, 0o755); err != nil { return fmt.Errorf(\"creating parent %s: %w\", parent, err) } if err := fsys.Mkdir(targetHomedir, 0o700); err != nil { return fmt.Errorf(\"creating homedir: %w\", err) } if err := fsys.Chown(targetHomedir, int(ue.UID), int(ue.GID)); err != nil { return fmt.Errorf(\"chowning homedir: %w\", err) } } if err := uf.WriteFile(path); err != nil { return err } if ic.Accounts.RunAs != \"\" { for _, ue := range uf.Entries { if ue.UserName == ic.Accounts.RunAs { ic.Accounts.RunAs = fmt.Sprintf(\"%d\", ue.UID) break } } } return nil })",
  "if err := eg.Wait(); err != nil { return err }",
  "return nil"] : List String) := by rfl

theorem tie_acc_stmts_permissionsToFileMode : Generated.acc_stmts_permissionsToFileMode = (["mode := fs.FileMode(perms & 0o777)",
  "if perms&0o4000 != 0 { mode |= fs.ModeSetuid }",
  "if perms&0o2000 != 0 { mode |= fs.ModeSetgid }",
  "if perms&0o1000 != 0 { mode |= fs.ModeSticky }",
  "return mode"] : List String) := by rfl

theorem tie_acc_stmts_mutatePermissions : Generated.acc_stmts_mutatePermissions = (["return mutatePermissionsDirect(fsys, mut.Path, mut.Permissions, mut.UID, mut.GID)"] : List String) := by rfl

theorem tie_acc_stmts_mutatePermissionsDirect : Generated.acc_stmts_mutatePermissionsDirect = (["target := path",
  "if err := fsys.Chmod(target, permissionsToFileMode(perms)); err != nil { return fmt.Errorf(\"chmod %q: %w\", target, err) }",
  "if err := fsys.Chown(target, int(uid), int(gid)); err != nil { return fmt.Errorf(\"chown %q: %w\", target, err) }",
  "return nil"] : List String) := by rfl

theorem tie_acc_stmts_mutateDirectory : Generated.acc_stmts_mutateDirectory = (["perms := permissionsToFileMode(mut.Permissions)",
  "if err := fsys.MkdirAll(mut.Path, perms); err != nil { return err }",
  "if mut.Recursive { return fs.WalkDir(fsys, mut.Path, func(path string, d fs.DirEntry, err error) error { if err != nil { return err } if err := mutatePermissionsDirect(fsys, path, mut.Permissions, mut.UID, mut.GID); err != nil { return fmt.Errorf(\"mutating permissions for path %q: %w\", path, err) } return nil }) }",
  "return nil"] : List String) := by rfl

theorem tie_acc_stmts_ensureParentDirectory : Generated.acc_stmts_ensureParentDirectory = (["return fsys.MkdirAll(filepath.Dir(path), 0755)"] : List String) := by rfl

theorem tie_acc_stmts_mutateEmptyFile : Generated.acc_stmts_mutateEmptyFile = (["target := mut.Path",
  "if err := ensureParentDirectory(fsys, target); err != nil { return fmt.Errorf(\"ensuring parent directory for %q: %w\", target, err) }",
  "file, err := fsys.Create(target)",
  "if err != nil { return fmt.Errorf(\"creating file %q: %w\", target, err) }",
  "defer file.Close()",
  "return nil"] : List String) := by rfl

theorem tie_acc_stmts_mutateHardLink : Generated.acc_stmts_mutateHardLink = (["source := mut.Source",
  "target := mut.Path",
  "if err := ensureParentDirectory(fsys, target); err != nil { return fmt.Errorf(\"ensuring parent directory for %q: %w\", target, err) }",
  "if _, err := fsys.Lstat(target); err == nil { if err := fsys.Remove(target); err != nil { return fmt.Errorf(\"unable to remove old link %q: %w\", target, err) } }",
  "if err := fsys.Link(source, target); err != nil { return fmt.Errorf(\"linking %q -> %q: %w\", source, target, err) }",
  "return nil"] : List String) := by rfl

theorem tie_acc_stmts_mutateSymLink : Generated.acc_stmts_mutateSymLink = (["target := mut.Path",
  "if err := ensureParentDirectory(fsys, target); err != nil { return fmt.Errorf(\"ensuring parent directory for %q: %w\", target, err) }",
  "if err := fsys.Symlink(mut.Source, target); err != nil { return fmt.Errorf(\"symlinking %q -> %q: %w\", mut.Source, target, err) }",
  "return nil"] : List String) := by rfl

theorem tie_acc_stmts_mutatePaths : Generated.acc_stmts_mutatePaths = (["for _, mut := range ic.Paths { pm, ok := pathMutators[mut.Type] if !ok { return fmt.Errorf(\"unsupported path mutation type %q\", mut.Type) } if err := pm(fsys, o, mut); err != nil { return fmt.Errorf(\"mutating path %q: %w\", mut.Path, err) } if mut.Type != \"permissions\" { if err := mutatePermissions(fsys, o, mut); err != nil { return fmt.Errorf(\"%s mutation on %s: %w\", mut.Type, mut.Path, err) } } }",
  "return nil"] : List String) := by rfl

theorem tie_acc_pathMutators : Generated.acc_pathMutators = ([("directory", "mutateDirectory"), ("empty-file", "mutateEmptyFile"), ("hardlink", "mutateHardLink"), ("symlink", "mutateSymLink"), ("permissions", "mutatePermissions")] : List (String × String)) := by rfl

theorem tie_acc_userDefaults : Generated.acc_userDefaults = ([("user.Shell == \"\" => user.Shell", "\"/bin/sh\""), ("user.HomeDir == \"\" => user.HomeDir", "\"/home/\" + user.UserName"), ("user.GID != nil => gid", "*user.GID")] : List (String × String)) := by rfl

theorem tie_acc_userEntryFields : Generated.acc_userEntryFields = ([("UserName", "user.UserName"), ("UID", "user.UID"), ("GID", "gid"), ("HomeDir", "user.HomeDir"), ("Password", "\"x\""), ("Info", "\"Account created by apko\""), ("Shell", "user.Shell")] : List (String × String)) := by rfl

theorem tie_acc_stmts_ReadOrCreateUserFile : Generated.acc_stmts_ReadOrCreateUserFile = (["uf := UserFile{fsys: fsys}",
  "file, err := fsys.OpenFile(filePath, os.O_RDONLY|os.O_CREATE, 0o644)",
  "if err != nil { return uf, fmt.Errorf(\"failed to open %s: %w\", filePath, err) }",
  "defer file.Close()",
  "if err := uf.Load(file); err != nil { return uf, err }",
  "return uf, nil"] : List String) := by rfl

theorem tie_acc_stmts_UserFile_WriteFile : Generated.acc_stmts_UserFile_WriteFile = (["file, err := uf.fsys.Create(filePath)",
  "if err != nil { return fmt.Errorf(\"unable to open %s for writing: %w\", filePath, err) }",
  "defer file.Close()",
  "return uf.Write(file)"] : List String) := by rfl

theorem tie_acc_stmts_UserFile_Write : Generated.acc_stmts_UserFile_Write = (["for _, ue := range uf.Entries { if err := ue.Write(w); err != nil { return fmt.Errorf(\"unable to write passwd entry: %w\", err) } }",
  "return nil"] : List String) := by rfl

theorem tie_acc_stmts_UserFile_Load : Generated.acc_stmts_UserFile_Load = (["scanner := bufio.NewScanner(r)",
  "for scanner.Scan() { ue := UserEntry{} if err := ue.Parse(scanner.Text()); err != nil { return fmt.Errorf(\"unable to parse: %w\", err) } uf.Entries = append(uf.Entries, ue) }",
  "if err := scanner.Err(); err != nil { return fmt.Errorf(\"unable to parse: %w\", err) }",
  "return nil"] : List String) := by rfl

theorem tie_acc_stmts_ReadOrCreateGroupFile : Generated.acc_stmts_ReadOrCreateGroupFile = (["gf := GroupFile{}",
  "file, err := fsys.OpenFile(filePath, os.O_RDONLY|os.O_CREATE, 0o644)",
  "if err != nil { return gf, fmt.Errorf(\"failed to open %s: %w\", filePath, err) }",
  "defer file.Close()",
  "if err := gf.Load(file); err != nil { return gf, err }",
  "return gf, nil"] : List String) := by rfl

theorem tie_acc_stmts_GroupFile_WriteFile : Generated.acc_stmts_GroupFile_WriteFile = (["file, err := fsys.Create(filePath)",
  "if err != nil { return fmt.Errorf(\"unable to open %s for writing: %w\", filePath, err) }",
  "defer file.Close()",
  "return gf.Write(file)"] : List String) := by rfl

theorem tie_acc_stmts_GroupFile_Write : Generated.acc_stmts_GroupFile_Write = (["for _, ge := range gf.Entries { if err := ge.Write(w); err != nil { return fmt.Errorf(\"unable to write group entry: %w\", err) } }",
  "return nil"] : List String) := by rfl

theorem tie_acc_stmts_GroupFile_Load : Generated.acc_stmts_GroupFile_Load = (["scanner := bufio.NewScanner(r)",
  "for scanner.Scan() { ge := GroupEntry{} if err := ge.Parse(scanner.Text()); err != nil { return fmt.Errorf(\"unable to parse: %w\", err) } gf.Entries = append(gf.Entries, ge) }",
  "if err := scanner.Err(); err != nil { return fmt.Errorf(\"unable to parse: %w\", err) }",
  "return nil"] : List String) := by rfl

theorem tie_acc_stmts_tarfs_Create : Generated.acc_stmts_tarfs_Create = (["return m.OpenFile(name, os.O_CREATE|os.O_TRUNC|os.O_RDWR, 0o666)"] : List String) := by rfl

theorem tie_acc_runAsToConfigUser : Generated.acc_runAsToConfigUser = ("if ic.Accounts.RunAs != \"\" { cfg.Config.User = ic.Accounts.RunAs }" : String) := by rfl

theorem tie_acc_buildImageCalls : Generated.acc_buildImageCalls = (["mutateAccounts(bc.fs, &bc.ic)",
  "bc.WriteEtcApkoConfig(ctx)",
  "mutatePaths(bc.fs, &bc.o, &bc.ic)",
  "installBusyboxLinks(bc.fs, installed)",
  "installCharDevices(bc.fs)"] : List String) := by rfl
-- END generated-literal ties

end Apko.C13
