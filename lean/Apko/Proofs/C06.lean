import Apko.Model.Tar
import Apko.Proofs.Lemmas.TarWalk
import Apko.Proofs.Lemmas.TarExtract
import Apko.Proofs.Lemmas.TarWFReach
import Apko.Proofs.Lemmas.TarWFGuard
import Apko.Proofs.C17
import Apko.Generated.Tar
import Apko.Proofs.Lemmas.TarCancel
/-!
# C06 — a layer tarball faithfully and canonically serializes the built file system

Theorems over `Model/Tar.lean` (`writeTar`, `extract`, `observeTree`, the tee of `newLayerWriter`) on top
of the node-graph file system of `Model/FS.lean` (`walk`).

* `walk_sorted_nodup`, `walk_parents_first` — the statements left open in `Proofs/C17.lean`.
* `entries_canonical` — the emitted entry list: every path once, strictly increasing in
  `fs.WalkDir`'s component-wise order, parents before children.
* `extract_writeTar_partial` — extracting the emitted entries succeeds and yields the observed tree
  (`SameTree`: per path type, content, permission bits incl. setuid/setgid/sticky, uid, gid, link target,
  device numbers, xattrs, mtime; and the hard-link structure), for well-formed states under
  `linksAfterTargets`, `linksRegistered`, `xattrsCaptured`.  The full statement `extract_writeTar_full`
  is false for today's code: `not_extract_writeTar_full` and the witnesses `F06a_*`, `F06b_*`, `F06c_*`,
  `F06d_*` (one per hypothesis; replayed on the Go code by the suite's corpus).
* `names_from_image_passwd` (+ `nameOf_some`, `nameOf_none`, `usersOf_of_load`).
* `advertised_equals_written` for the digest / diff-id / size tee.
* `nodeok_step`, `tar_wf_reachable` — `WF` is not a hypothesis about the state any more: it holds in every
  state reachable from the empty file system through operations satisfying the decidable guard `opTarOK`
  (`Lemmas/TarWFReach.lean`); `entries_canonical_reachable`, `extract_writeTar_partial_reachable`,
  `walk_sorted_nodup_reachable`.  What the layer contains when the guard is violated by something the code
  can do: `emptyLink_*`, `writeHeader_unsupported_type`, `mknod_always_char`, `mknodBlk_*`.
-/
namespace Apko.C06
open Apko Apko.Path Apko.FS Apko.Tar

/-! ## order -/

/-- **walk_sorted_nodup** (stated in `Proofs/C17.lean`) -/
theorem walk_sorted_nodup : C17.walk_sorted_nodup := fun fs hi => Tar.walk_sorted fs hi

/-- **walk_parents_first** (stated in `Proofs/C17.lean`) -/
theorem walk_parents_first : C17.walk_parents_first :=
  fun fs l1 l2 q n i h => Tar.walk_parents_first fs l1 l2 q n i h

theorem writeTar_paths (b : Backend) (fs : FS) : (writeTar b fs).map (·.path) = (walk fs).map (·.1) := by
  simp [writeTar, List.map_map, Function.comp_def, header_path]

theorem strictlySorted_of_pairwise : ∀ (ps : List (List Name)), ps.Pairwise (· < ·) → strictlySorted ps = true
  | [], _ => rfl
  | [_], _ => rfl
  | a :: c :: rest, h => by
    rw [List.pairwise_cons] at h
    simp only [strictlySorted, Bool.and_eq_true, decide_eq_true_eq]
    exact ⟨h.1 c (by simp), strictlySorted_of_pairwise (c :: rest) h.2⟩

/-- **each path once, parents precede children, in a fixed order**: the paths of the emitted entries
strictly increase in the component-wise order (so no path repeats and the order is a function of the set
of paths alone), and every entry's parent directory is an earlier entry -/
theorem entries_canonical (b : Backend) (fs : FS) (hi : Inv fs) :
    strictlySorted ((writeTar b fs).map (·.path)) = true ∧
    ((writeTar b fs).map (·.path)).Nodup ∧
    parentsFirst ((writeTar b fs).map (·.path)) = true := by
  rw [writeTar_paths]
  refine ⟨strictlySorted_of_pairwise _ ?_, walk_nodup fs hi, ?_⟩
  · rw [List.pairwise_map]; exact walk_sorted fs hi
  · unfold parentsFirst
    apply scanAll_of_split
    intro l1 x l2 h
    obtain ⟨m1, m2, hw, h1, h2⟩ := List.map_eq_append_iff.mp h
    obtain ⟨w, m3, rfl, hx, h3⟩ := List.map_eq_cons_iff.mp h2
    rcases walk_parents_first_dir fs m1 m3 w hw with hp | ⟨y, hy, hyp, _⟩
    · simp [← hx, hp]
    · simp only [List.nil_append, Bool.or_eq_true, decide_eq_true_eq, List.contains_eq_mem]
      right
      rw [← hx, ← hyp, ← h1]
      exact List.mem_map_of_mem hy

/-! ## extraction gives back the built tree -/

/-- the property at full strength -/
def extract_writeTar_full : Prop :=
  ∀ (b : Backend) (fs : FS), WF fs →
    ∃ x, extract (writeTar b fs) = .ok x ∧ SameTree x (observeTree b fs)

/-- **extract_writeTar** for the states on which today's `writeTar` is faithful: hard-link names sort
after the name their header points to (and that name is still the same node), every further name of a
node is registered as a hard link, only regular files and directories carry xattrs -/
theorem extract_writeTar_partial (b : Backend) (fs : FS) (hwf : WF fs)
    (h1 : linksAfterTargets b fs = true) (h2 : linksRegistered b fs = true) (h3 : xattrsCaptured fs = true) :
    ∃ x, extract (writeTar b fs) = .ok x ∧ SameTree x (observeTree b fs) := by
  refine ⟨treeOf b fs (walk fs) (walk fs), ?_, treeOf_same b fs⟩
  have hf := walkFacts_of b fs hwf h1 h2 h3
  have := extractFrom_walk b fs (usersOf b fs) (groupsOf b fs) (walk fs) hf (walk fs) [] (by simp)
  simpa [extract, writeTar, treeOf] using this

/-- in particular the extracted tree has exactly the walk's paths, each once -/
theorem extract_paths (b : Backend) (fs : FS) (x : Tree) (h : SameTree x (observeTree b fs)) :
    x.map (·.1) = (walk fs).map (·.1) := by
  have := congrArg (List.map (·.1)) h.1
  simpa [observeTree, List.map_map, Function.comp_def] using this

/-! ### `WF` of literal states -/

theorem nodeOK_default : nodeOK (default : Inode) = true := by decide

theorem wf_of_check (fs : FS) (h : wfCheck fs = true) : WF fs := by
  unfold wfCheck at h
  simp only [Bool.and_eq_true, List.all_eq_true, List.mem_range, decide_eq_true_eq, Bool.or_eq_true,
    List.isEmpty_iff] at h
  obtain ⟨⟨hroot, hdef⟩, hall⟩ := h
  have hout : ∀ i, fs.nodes.length ≤ i → fs.node i = default := fun i hi => node_default_of_ge fs i hi
  refine ⟨⟨hroot, ?_, ?_, ?_⟩, ?_⟩
  · intro i
    by_cases hi : i < fs.nodes.length
    · exact (hall i hi).1.1.1
    · rw [hout i (Nat.le_of_not_lt hi)]; exact List.nodup_nil
  · intro i n j hm
    by_cases hi : i < fs.nodes.length
    · exact (hall i hi).1.1.2 (n, j) hm
    · rw [hout i (Nat.le_of_not_lt hi)] at hm; cases hm
  · intro i hd
    by_cases hi : i < fs.nodes.length
    · rcases (hall i hi).1.2 with h | h
      · rw [h] at hd; cases hd
      · exact h
    · rw [hout i (Nat.le_of_not_lt hi)]; rfl
  · intro i
    by_cases hi : i < fs.nodes.length
    · exact (hall i hi).2
    · rw [hout i (Nat.le_of_not_lt hi)]; exact hdef

/-- a listing whose entries are already in name order is returned as it is -/
theorem readdir_of_sorted (fs : FS) (d : Ino)
    (h : (fs.node d).children.Pairwise (fun a c => decide (a.1 ≤ c.1) = true)) :
    readdir fs d = (fs.node d).children := by
  unfold readdir sortNames
  exact List.mergeSort_of_pairwise h

/-- the walk with listings taken in stored order (evaluates by reduction) -/
def walkFromS (fs : FS) : Nat → List Name → Ino → List (List Name × Ino)
  | 0, _, _ => []
  | fuel + 1, pre, d =>
    (fs.node d).children.flatMap fun e =>
      (pre ++ [e.1], e.2) :: (if (fs.node e.2).dir then walkFromS fs fuel (pre ++ [e.1]) e.2 else [])

def sortedAll (fs : FS) : Bool :=
  (List.range fs.nodes.length).all fun i =>
    decide ((fs.node i).children.Pairwise (fun a c => decide (a.1 ≤ c.1) = true))

theorem walk_of_sorted (fs : FS) (h : sortedAll fs = true) : walk fs = walkFromS fs fs.nodes.length [] 0 := by
  have hr : ∀ d, readdir fs d = (fs.node d).children := by
    intro d
    apply readdir_of_sorted
    by_cases hd : d < fs.nodes.length
    · have := List.all_eq_true.mp h d (List.mem_range.mpr hd)
      simpa using this
    · rw [node_default_of_ge fs d (Nat.le_of_not_lt hd)]; exact List.Pairwise.nil
  have : ∀ fuel pre d, walkFrom fs fuel pre d = walkFromS fs fuel pre d := by
    intro fuel
    induction fuel with
    | zero => intro pre d; rfl
    | succ fuel ih =>
      intro pre d
      simp only [walkFrom, walkFromS, hr, ih]
  exact this _ _ _

/-! ### witnesses: the four ways today's `writeTar` loses the built tree -/

def tx (s : String) : Text := s.toList

/-- a regular file node -/
def fileNode (data : String) (hl : List (Text × Text) := []) : Inode :=
  { mode := 0o644, data := tx data, hardlinks := hl }

/-- F06a: `z-target` with the hard link `a-link -> z-target` registered through `WriteHeader` -/
def fsF06a : FS :=
  { nodes := [ { rootInode with children := [(tx "a-link", 1), (tx "z-target", 1)] },
               fileNode "body" [(tx "a-link", tx "z-target")] ] }

theorem walk_F06a : walk fsF06a = [([tx "a-link"], 1), ([tx "z-target"], 1)] := by
  rw [walk_of_sorted _ (by decide)]; rfl

theorem F06a_wf : WF fsF06a := wf_of_check _ (by decide)

/-- the link entry comes first; a standard extractor cannot make it -/
theorem F06a_extract_fails :
    extract (writeTar .tarfs fsF06a) = .error (.linkTarget [tx "a-link"]) := by
  unfold writeTar
  rw [walk_F06a]
  rfl

theorem F06a_class : linksAfterTargets .tarfs fsF06a = false := by
  unfold linksAfterTargets
  rw [walk_F06a]
  decide

/-- the property as stated does not hold for today's `writeTar` -/
theorem not_extract_writeTar_full : ¬ extract_writeTar_full := by
  intro h
  obtain ⟨x, hx, _⟩ := h .tarfs fsF06a F06a_wf
  rw [F06a_extract_fails] at hx
  cases hx

/-- F06b: two names of one node made by `Link` (no header): both are emitted as regular files -/
def fsF06b : FS :=
  { nodes := [ { rootInode with children := [(tx "a", 1), (tx "b", 1)] }, { fileNode "body" with nlink := 1 } ] }

theorem walk_F06b : walk fsF06b = [([tx "a"], 1), ([tx "b"], 1)] := by
  rw [walk_of_sorted _ (by decide)]; rfl

theorem F06b_wf : WF fsF06b := wf_of_check _ (by decide)

/-- extraction succeeds, every attribute is right, but the two names no longer share an inode -/
theorem F06b_identity_lost (bk : Backend) :
    ∃ x, extract (writeTar bk fsF06b) = .ok x ∧
      x.map (fun e => (e.1, e.2.attrs)) = (observeTree bk fsF06b).map (fun e => (e.1, e.2.attrs)) ∧
      ¬ SameTree x (observeTree bk fsF06b) := by
  cases bk <;>
  · refine ⟨_, by unfold writeTar; rw [walk_F06b]; rfl, by unfold observeTree; rw [walk_F06b]; rfl, ?_⟩
    unfold observeTree
    rw [walk_F06b]
    decide

theorem F06b_class (bk : Backend) : linksAfterTargets bk fsF06b = true ∧ linksRegistered bk fsF06b = false ∧
    xattrsCaptured fsF06b = true := by
  unfold linksAfterTargets linksRegistered xattrsCaptured
  rw [walk_F06b]
  cases bk <;> decide

/-- F06c: the hard link `t-link -> t` was registered, then another package's file replaced `t`:
the link entry now names a different node -/
def fsF06c : FS :=
  { nodes := [ { rootInode with children := [(tx "t", 2), (tx "t-link", 1)] },
               fileNode "old" [(tx "t-link", tx "t")], fileNode "new" ] }

theorem walk_F06c : walk fsF06c = [([tx "t"], 2), ([tx "t-link"], 1)] := by
  rw [walk_of_sorted _ (by decide)]; rfl

theorem F06c_wf : WF fsF06c := wf_of_check _ (by decide)

/-- extraction succeeds but `t-link` comes out with the content of the new `t` -/
theorem F06c_wrong_content :
    ∃ x, extract (writeTar .tarfs fsF06c) = .ok x ∧
      (x.lookup [tx "t-link"]).map (·.attrs.content) = some (tx "new") ∧
      ((observeTree .tarfs fsF06c).lookup [tx "t-link"]).map (·.attrs.content) = some (tx "old") := by
  refine ⟨_, by unfold writeTar; rw [walk_F06c]; rfl, by rfl, ?_⟩
  unfold observeTree
  rw [walk_F06c]
  rfl

theorem F06c_class : linksAfterTargets .tarfs fsF06c = false := by
  unfold linksAfterTargets
  rw [walk_F06c]
  decide

/-- F06d: a character device with an extended attribute -/
def fsF06d : FS :=
  { nodes := [ { rootInode with children := [(tx "null", 1)] },
               { mode := modeDevice + modeCharDevice + 0o666, major := 1, minor := 3,
                 xattrs := [(tx "security.x", tx "v")] } ] }

theorem walk_F06d : walk fsF06d = [([tx "null"], 1)] := by
  rw [walk_of_sorted _ (by decide)]; rfl

theorem F06d_wf : WF fsF06d := wf_of_check _ (by decide)

/-- the attribute is not in the layer -/
theorem F06d_xattr_dropped (bk : Backend) :
    ∃ x, extract (writeTar bk fsF06d) = .ok x ∧
      (x.lookup [tx "null"]).map (·.attrs.xattrs) = some [] ∧
      ((observeTree bk fsF06d).lookup [tx "null"]).map (·.attrs.xattrs) = some [(tx "security.x", tx "v")] := by
  cases bk <;>
  · refine ⟨_, by unfold writeTar; rw [walk_F06d]; rfl, by rfl, ?_⟩
    unfold observeTree
    rw [walk_F06d]
    rfl

theorem F06d_class : xattrsCaptured fsF06d = false := by
  unfold xattrsCaptured
  rw [walk_F06d]
  decide

/-! ### the hypotheses are satisfiable by a state with every kind of entry -/

/-- `d/` (sticky, xattr), `d/f` (setuid, uid 1000), the registered hard link `d/g -> d/f`, the dangling
symlink `l`, the device `n` -/
def fsGood : FS :=
  { nodes := [ { rootInode with children := [(tx "d", 1), (tx "l", 3), (tx "n", 4)] },
               { dir := true, mode := modeDir + modeSticky + 0o777, mtime := 5, xattrs := [(tx "user.a", tx "1")],
                 children := [(tx "f", 2), (tx "g", 2)] },
               { mode := modeSetuid + 0o755, uid := 1000, gid := 7, mtime := 1700000000, data := tx "body",
                 hardlinks := [(tx "d/g", tx "d/f")], nlink := 1 },
               { mode := modeSymlink + 0o777, target := tx "/nowhere" },
               { mode := modeDevice + modeCharDevice + 0o666, major := 1, minor := 3 } ] }

theorem walk_good : walk fsGood =
    [([tx "d"], 1), ([tx "d", tx "f"], 2), ([tx "d", tx "g"], 2), ([tx "l"], 3), ([tx "n"], 4)] := by
  rw [walk_of_sorted _ (by decide)]; rfl

example : WF fsGood ∧ linksAfterTargets .tarfs fsGood = true ∧ linksRegistered .tarfs fsGood = true ∧
    xattrsCaptured fsGood = true := by
  refine ⟨wf_of_check _ (by decide), ?_, ?_, ?_⟩
  · unfold linksAfterTargets; rw [walk_good]; decide
  · unfold linksRegistered; rw [walk_good]; decide
  · unfold xattrsCaptured; rw [walk_good]; decide

/-- … and the layer of that state has the link entry after its target, the setuid and sticky bits, the
symlink target and the device numbers -/
example : (writeTar .tarfs fsGood).map (fun e => (e.path, e.kind, e.mode, e.linkname, e.devmajor, e.devminor)) =
    [([tx "d"], .dir, 0o1777, [], 0, 0), ([tx "d", tx "f"], .reg, 0o4755, [], 0, 0),
     ([tx "d", tx "g"], .link, 0o4755, tx "d/f", 0, 0), ([tx "l"], .symlink, 0o777, tx "/nowhere", 0, 0),
     ([tx "n"], .char, 0o666, [], 1, 3)] := by
  unfold writeTar; rw [walk_good]; rfl

/-! ## owner names -/

/-- the name of the last entry for `id`: later passwd lines overwrite earlier ones -/
theorem nameOf_some (tbl : List (Nat × Text)) (id : Int) (nm : Text) :
    nameOf tbl id = some nm ↔
      ∃ (l1 : List (Nat × Text)) (k : Nat) (l2 : List (Nat × Text)),
        tbl = l1 ++ (k, nm) :: l2 ∧ (k : Int) = id ∧ ∀ e ∈ l2, (e.1 : Int) ≠ id := by
  unfold nameOf
  constructor
  · intro h
    simp only [Option.map_eq_some_iff] at h
    obtain ⟨e, he, rfl⟩ := h
    obtain ⟨hp, as, bs, hr, hb⟩ := List.find?_eq_some_iff_append.mp he
    refine ⟨bs.reverse, e.1, as.reverse, ?_, by simpa using hp, ?_⟩
    · have := congrArg List.reverse hr
      simpa using this
    · intro x hx
      have := hb x (by simpa using hx)
      simpa using this
  · rintro ⟨l1, k, l2, rfl, hk, hno⟩
    simp only [List.reverse_append, List.reverse_cons, List.append_assoc, List.singleton_append,
      Option.map_eq_some_iff]
    refine ⟨(k, nm), ?_, rfl⟩
    rw [List.find?_append]
    have : l2.reverse.find? (fun e => decide ((e.1 : Int) = id)) = none := by
      simp only [List.find?_eq_none, List.mem_reverse, decide_eq_true_eq]
      exact hno
    simp [this, hk]

/-- no entry, no name -/
theorem nameOf_none (tbl : List (Nat × Text)) (id : Int) :
    nameOf tbl id = none ↔ ∀ e ∈ tbl, (e.1 : Int) ≠ id := by
  unfold nameOf
  simp [List.find?_eq_none]

/-- **names_from_image_passwd**: every entry carries the numeric owner of its node, the user name of
the last `etc/passwd` entry of the image with that uid and the group name of the last `etc/group` entry
with that gid — and no name when the image has no such entry -/
theorem names_from_image_passwd (b : Backend) (fs : FS) :
    ∀ e ∈ writeTar b fs, ∃ w ∈ walk fs, e.path = w.1 ∧
      e.uid = (fs.node w.2).uid ∧ e.gid = (fs.node w.2).gid ∧
      e.uname = (nameOf (usersOf b fs) e.uid).getD [] ∧ e.gname = (nameOf (groupsOf b fs) e.gid).getD [] := by
  intro e he
  simp only [writeTar, List.mem_map] at he
  obtain ⟨w, hw, rfl⟩ := he
  exact ⟨w, hw, rfl, rfl, rfl, rfl, rfl⟩

theorem loadPrefix_of_all {α : Type} (parse : Text → Option α) :
    ∀ (ls : List Text) (es : List α), Formats.mapAllOpt parse ls = some es → loadPrefix parse ls = es := by
  intro ls
  induction ls with
  | nil => intro es h; simp [Formats.mapAllOpt] at h; simp [loadPrefix, h]
  | cons l ls ih =>
    intro es h
    simp only [Formats.mapAllOpt] at h
    split at h
    · rename_i a as ha has
      simp only [Option.some.injEq] at h
      simp [loadPrefix, ha, ih as has, h]
    · cases h

/-- when the image's `etc/passwd` parses as a whole (`UserFile.Load` succeeds, C16's reader), the table
is exactly its (uid, name) pairs in file order -/
theorem usersOf_of_load (b : Backend) (fs : FS) (t : Text) (us : List Formats.User)
    (hr : readAll b fs passwdPath = some t) (hl : Formats.loadUsers t = some us) :
    usersOf b fs = us.map fun u => (u.uid, u.name) := by
  unfold usersOf
  rw [hr]
  dsimp only
  unfold usersOfText
  unfold Formats.loadUsers Formats.loadWith at hl
  simp only at hl
  split at hl
  · rename_i es hes
    split at hl
    · cases hl
    · simp only [Option.some.injEq] at hl
      rw [loadPrefix_of_all _ _ _ hes, hl]
  · cases hl

/-! ## the advertised digest, diff-id and size are those of the bytes written -/

/-- what is assumed of the streaming hash: writing in pieces is writing the concatenation (and, as
`hw` below, writing nothing changes nothing) -/
def Lawful {σ δ : Type} (h : Hasher σ δ) : Prop :=
  ∀ s a c, h.write (h.write s a) c = h.write s (a ++ c)

theorem tee_invariant {σ δ γ : Type} (h : Hasher σ δ) (z : Compressor γ) (hl : Lawful h) :
    ∀ (cs : List Bytes) (t : Tee σ γ) (A : Bytes),
      t.diffid = h.write h.init A → t.digest = h.write h.init t.file →
      (cs.foldl (Tee.write h z) t).diffid = h.write h.init (A ++ cs.flatten) ∧
      (cs.foldl (Tee.write h z) t).digest = h.write h.init (cs.foldl (Tee.write h z) t).file ∧
      (cs.foldl (Tee.write h z) t).file ++ z.close (cs.foldl (Tee.write h z) t).gz = t.file ++ z.run t.gz cs := by
  intro cs
  induction cs with
  | nil => intro t A h1 h2; simp [h1, h2, Compressor.run]
  | cons c cs ih =>
    intro t A h1 h2
    simp only [List.foldl_cons]
    have := ih (Tee.write h z t c) (A ++ c)
      (by simp only [Tee.write, h1]; exact hl _ _ _)
      (by simp only [Tee.write, h2]; exact hl _ _ _)
    obtain ⟨i1, i2, i3⟩ := this
    refine ⟨by simpa [List.append_assoc] using i1, i2, ?_⟩
    rw [i3]
    simp [Tee.write, Compressor.run, List.append_assoc]

/-- **advertised_equals_written**: for every sequence of writes of the tar writer, the advertised
digest is the hash of the file's bytes, the advertised size their number, the advertised diff-id the hash
of the uncompressed stream, and the file is what the compressor made of that stream -/
theorem advertised_equals_written {σ δ γ : Type} (h : Hasher σ δ) (z : Compressor γ) (hl : Lawful h)
    (hw : h.init = h.write h.init []) (chunks : List Bytes) :
    (layerOf h z chunks).digest = h.digest (layerOf h z chunks).file ∧
    (layerOf h z chunks).size = (layerOf h z chunks).file.length ∧
    (layerOf h z chunks).diffid = h.digest chunks.flatten ∧
    (layerOf h z chunks).file = z.run z.init chunks := by
  obtain ⟨i1, i2, i3⟩ := tee_invariant h z hl chunks
    { diffid := h.init, gz := z.init, digest := h.init, file := [] } [] hw hw
  simp only [List.nil_append] at i1 i3
  refine ⟨?_, rfl, ?_, ?_⟩
  · simp only [layerOf, Tee.finalize, Hasher.digest]
    rw [i2, hl]
  · simp only [layerOf, Tee.finalize, Hasher.digest]
    rw [i1]
  · simp only [layerOf, Tee.finalize]
    exact i3

/-- with a decompressor that inverts the compressor on whole streams, the diff-id is the hash of the
decompressed file -/
theorem diffid_of_gunzip {σ δ γ : Type} (h : Hasher σ δ) (z : Compressor γ) (hl : Lawful h)
    (hw : h.init = h.write h.init [])
    (gunzip : Bytes → Bytes) (hz : ∀ cs, gunzip (z.run z.init cs) = cs.flatten) (chunks : List Bytes) :
    (layerOf h z chunks).diffid = h.digest (gunzip (layerOf h z chunks).file) := by
  obtain ⟨_, _, h3, h4⟩ := advertised_equals_written h z hl hw chunks
  rw [h3, h4, hz]

/-! ## `WF` holds in every reachable state -/

/-- **nodeok_step**: every operation satisfying the decidable guard `opTarOK` keeps every node `nodeOK`
(`Lemmas/TarWFReach.lean`; `DirBit` is the first conjunct of `nodeOK`, so the only other thing used of the
state is that its root is a directory) -/
theorem nodeok_step (c : Cfg) (fs : FS) (op : Op) (hg : opTarOK op = true) (hroot : (fs.node 0).dir = true)
    (hn : ∀ i, nodeOK (fs.node i) = true) : ∀ i, nodeOK ((step c fs op).1.node i) = true :=
  Tar.nodeok_step c fs op hg hroot hn

/-- `WF` is preserved by every guarded operation -/
theorem tar_wf_step (c : Cfg) (fs : FS) (op : Op) (hg : opTarOK op = true) (h : WF fs) : WF (step c fs op).1 :=
  Tar.tar_wf_step c fs op hg h

/-- the guard of `C17.dirbit_step` / `C17.wf_reachable` is implied by `opTarOK` -/
theorem opModeOK_of_opTarOK (op : Op) (h : opTarOK op = true) : opModeOK op := Tar.opModeOK_of_opTarOK op h

/-- **tar_wf_reachable** (needs `opTarOK` only): every state memfs / tarfs (Impl or Spec) can reach from the
empty file system through guarded operations is `Tar.WF` -/
theorem tar_wf_reachable_tarOK (c : Cfg) (ops : List Op) (hg : ∀ op ∈ ops, opTarOK op = true) :
    WF (run c FS.empty ops).1 :=
  Tar.tar_wf_reachable_tarOK c ops hg

/-- **tar_wf_reachable** in the form of `C17.wf_reachable` -/
theorem tar_wf_reachable (c : Cfg) (ops : List Op) (hg : ∀ op ∈ ops, opModeOK op ∧ opTarOK op = true) :
    WF (run c FS.empty ops).1 :=
  tar_wf_reachable_tarOK c ops fun op h => (hg op h).2

/-- … and with C17's invariants: structural invariant, `DirBit`, tree shape, `nodeOK` -/
theorem wf_both_reachable (c : Cfg) (ops : List Op) (hg : ∀ op ∈ ops, opTarOK op = true) :
    C17.WF (run c FS.empty ops).1 ∧ WF (run c FS.empty ops).1 :=
  ⟨C17.wf_reachable c ops fun op h => opModeOK_of_opTarOK op (hg op h), tar_wf_reachable_tarOK c ops hg⟩

/-- **walk_sorted_nodup** for reachable states (only C17's guard is needed: the walk order rests on `Inv`) -/
theorem walk_sorted_nodup_reachable (c : Cfg) (ops : List Op) (hm : ∀ op ∈ ops, opModeOK op) :
    (walk (run c FS.empty ops).1).Pairwise (fun a b => C17.pathLt a.1 b.1) ∧
    ((walk (run c FS.empty ops).1).map (·.1)).Nodup :=
  ⟨walk_sorted_nodup _ (C17.wf_reachable c ops hm).1, walk_nodup _ (C17.wf_reachable c ops hm).1⟩

/-- **walk_parents_first** for reachable states (it holds for every state; restated for symmetry) -/
theorem walk_parents_first_reachable (c : Cfg) (ops : List Op) (l1 l2 : List (List Name × Ino)) (q : List Name)
    (n : Name) (i : Ino) (h : walk (run c FS.empty ops).1 = l1 ++ (q ++ [n], i) :: l2) :
    q = [] ∨ ∃ y ∈ l1, y.1 = q :=
  walk_parents_first _ l1 l2 q n i h

/-- **entries_canonical** without a hypothesis about the state: the layer of every reachable state lists
every path once, in strictly increasing component-wise order, parents first (only C17's guard is needed) -/
theorem entries_canonical_reachable (b : Backend) (c : Cfg) (ops : List Op) (hm : ∀ op ∈ ops, opModeOK op) :
    strictlySorted ((writeTar b (run c FS.empty ops).1).map (·.path)) = true ∧
    ((writeTar b (run c FS.empty ops).1).map (·.path)).Nodup ∧
    parentsFirst ((writeTar b (run c FS.empty ops).1).map (·.path)) = true :=
  entries_canonical b _ (C17.wf_reachable c ops hm).1

/-- **extract_writeTar** without a hypothesis about the state: for every state reachable through guarded
operations, extracting the emitted entries succeeds and yields the observed tree — under the three decidable
side conditions that are the recorded findings F06a–d (they are about *which* hard links and xattrs exist,
not about well-formedness, and do fail on reachable states: `F06a_class` … `F06d_class`) -/
theorem extract_writeTar_partial_reachable (b : Backend) (c : Cfg) (ops : List Op)
    (hg : ∀ op ∈ ops, opTarOK op = true)
    (h1 : linksAfterTargets b (run c FS.empty ops).1 = true) (h2 : linksRegistered b (run c FS.empty ops).1 = true)
    (h3 : xattrsCaptured (run c FS.empty ops).1 = true) :
    ∃ x, extract (writeTar b (run c FS.empty ops).1) = .ok x ∧ SameTree x (observeTree b (run c FS.empty ops).1) :=
  extract_writeTar_partial b _ (tar_wf_reachable_tarOK c ops hg) h1 h2 h3

/-- **the guard is forced**, conjunct by conjunct (`Lemmas/TarWFGuard.lean`): the node `Mkdir`/`MkdirAll`,
`Symlink`, `Mknod`, `WriteHeader` make is `nodeOK` *iff* the conjunct holds; for `OpenFile`/`WriteFile` iff it
holds or the permission argument is a complete character-device mode; a `Chmod` argument with a type bit
breaks the root directory or a plain regular file -/
theorem opTarOK_forced :
    (∀ perm, nodeOK (newDir (modeDir ||| perm)) = true ↔ perm.testBit 27 = false ∧ perm.testBit 21 = false) ∧
    (∀ perm, nodeOK { mode := perm } = true ↔ noTypeBits perm = true ∨
      (perm.testBit 31 = false ∧ perm.testBit 27 = false ∧ perm.testBit 26 = true ∧ perm.testBit 21 = true)) ∧
    (∀ perm, noTypeBits perm = false →
      nodeOK { rootInode with mode := typeKeep rootInode.mode perm } = false ∨
      nodeOK { (default : Inode) with mode := typeKeep (default : Inode).mode perm } = false) ∧
    (∀ target mt, nodeOK { mode := modeSymlink + 0o777, target := target, mtime := mt } = true ↔ target ≠ []) ∧
    (∀ mode ma mi mt,
      nodeOK { mode := mode ||| modeCharDevice ||| modeDevice, major := ma, minor := mi, mtime := mt } = true ↔
        mode.testBit 31 = false ∧ mode.testBit 27 = false) ∧
    (∀ (h : Hdr) (sum : Text), h.typeflag = 48 ∨ h.typeflag = 50 →
      (nodeOK { mode := hdrMode h, mtime := h.mtime, target := h.linkname,
                te := some { content := h.content, size := h.size, checksum := sum, pkgName := h.pkgName,
                             pkgOrigin := h.pkgOrigin, pkgReplaces := h.pkgReplaces } } = true ↔
        hdrTarOK h = true)) :=
  ⟨nodeOK_newDir_iff, nodeOK_newFile_iff, chmod_guard_exact, nodeOK_newSymlink_iff, nodeOK_newDev_iff,
   fun h sum hty => nodeOK_hdrNode_iff h sum hty⟩

/-! ### the guard is satisfiable: a sequence with every kind of operation -/

/-- `MkdirAll`, package file (setuid) + symlink + hard link + directory (with xattr) through `WriteHeader`,
`Chmod` (sticky), `Chown`, `Mkdir` (with `ModeDir` in the argument), `Mknod` (`S_IFCHR|0666`), a dangling
`Symlink`, a `Link` through a symbolic link, `Remove` of a registered hard link, `SetXattr` -/
def goodOps : List Op :=
  [ .mkdirAll (tx "usr/bin") 0o755,
    .writeHeader { typeflag := 48, name := tx "usr/bin/tool", mode := 0o4755, size := 4, content := tx "body",
                   checksum := some (tx "s1"), pkgName := tx "pa", pkgOrigin := tx "oa" },
    .writeHeader { typeflag := 50, name := tx "usr/bin/sh", linkname := tx "tool", mode := 0o777,
                   checksum := some (tx "s2"), pkgName := tx "pa", pkgOrigin := tx "oa" },
    .writeHeader { typeflag := 49, name := tx "usr/bin/tool2", linkname := tx "usr/bin/tool", mode := 0o4755 },
    .writeHeader { typeflag := 53, name := tx "etc", mode := 0o755, xattrs := [(tx "user.a", tx "1")] },
    .chmod (tx "usr/bin") 0o1777,
    .chown (tx "usr/bin/tool") 1000 1000,
    .mkdir (tx "dev") (modeDir + 0o755),
    .mknod (tx "dev/null") (0o20000 + 0o666) 259,
    .symlink (tx "/nonexistent") (tx "dangling"),
    .link (tx "usr/bin/sh") (tx "etc/tool3"),
    .remove (tx "usr/bin/tool2"),
    .setXattr (tx "usr/bin/tool") (tx "user.k") (tx "v") ]

/-- … with the operations that go through `openFile` (`decide` cannot run those: well-founded recursion) -/
def goodOpsOpen : List Op :=
  goodOps ++ [ .writeFile (tx "etc/passwd") (tx "root:x:0:0::/:/bin/sh\n") 0o644, .create (tx "etc/empty"),
               .openFile (tx "etc/group") 66 0o644, .write 1 (tx "root:x:0:\n"), .close 1, .readFile (tx "etc/passwd") ]

set_option maxRecDepth 100000 in
/-- the guard holds of both sequences … -/
theorem goodOps_guard : (∀ op ∈ goodOps, opTarOK op = true) ∧ (∀ op ∈ goodOpsOpen, opTarOK op = true) := by decide

set_option maxRecDepth 100000 in
/-- … every operation of the first succeeds (nine nodes), and — cross-checking the invariant theorem on an
instance — the state it reaches passes the node-by-node check -/
example : wfCheck (run (Cfg.impl .tarfs) FS.empty goodOps).1 = true ∧
    (run (Cfg.impl .tarfs) FS.empty goodOps).1.nodes.length = 9 ∧
    (run (Cfg.impl .tarfs) FS.empty goodOps).2.all (fun o => !o.isErr) = true := by decide

example : WF (run (Cfg.impl .tarfs) FS.empty goodOpsOpen).1 := tar_wf_reachable_tarOK _ _ goodOps_guard.2

/-! ### what the layer contains when the guard is violated by something the code can do -/

/-- **a symbolic link with an empty target** (`Symlink("", "l")`: `mutateSymLink` with an empty `source`, or
a package symlink entry with an empty link name).  The guard conjunct is violated, the state is reached … -/
def fsEmptyLink : FS :=
  { nodes := [ { rootInode with children := [(tx "l", 1)] }, { mode := modeSymlink + 0o777, target := [] } ] }

/-- … through `WriteHeader` the node carries the package entry -/
def fsEmptyLinkPkg : FS :=
  { nodes := [ { rootInode with children := [(tx "l", 1)] },
               { mode := modeSymlink + 0o777, target := [],
                 te := some { content := [], size := 0, checksum := tx "s", pkgName := tx "pa", pkgOrigin := tx "oa",
                              pkgReplaces := [] } } ] }

set_option maxRecDepth 100000 in
theorem emptyLink_reached (bk : Backend) :
    opTarOK (.symlink [] (tx "l")) = false ∧
    run (Cfg.impl bk) FS.empty [.symlink [] (tx "l")] = (fsEmptyLink, [.ok .unit]) := by
  cases bk <;> decide

set_option maxRecDepth 100000 in
theorem emptyLinkPkg_reached :
    let h : Hdr := { typeflag := 50, name := tx "l", linkname := [], mode := 0o777, checksum := some (tx "s"),
                     pkgName := tx "pa", pkgOrigin := tx "oa" }
    opTarOK (.writeHeader h) = false ∧
    run (Cfg.impl .tarfs) FS.empty [.writeHeader h] = (fsEmptyLinkPkg, [.ok (.bool true)]) := by
  decide

theorem walk_emptyLink : walk fsEmptyLink = [([tx "l"], 1)] := by
  rw [walk_of_sorted _ (by decide)]; rfl

theorem walk_emptyLinkPkg : walk fsEmptyLinkPkg = [([tx "l"], 1)] := by
  rw [walk_of_sorted _ (by decide)]; rfl

/-- … it is not `WF` (`nodeOK` demands a target) … -/
theorem emptyLink_not_wf : ¬ WF fsEmptyLink ∧ ¬ WF fsEmptyLinkPkg := by
  refine ⟨fun h => ?_, fun h => ?_⟩
  · exact absurd (h.nodes 1) (by decide)
  · exact absurd (h.nodes 1) (by decide)

/-- … the layer has a symlink entry with an **empty link name** … -/
theorem emptyLink_layer (bk : Backend) :
    (writeTar bk fsEmptyLink).map (fun e => (e.path, e.kind, e.mode, e.linkname, e.size)) =
      [([tx "l"], .symlink, 0o777, [], 0)] ∧
    (writeTar bk fsEmptyLinkPkg).map (fun e => (e.path, e.kind, e.mode, e.linkname, e.size)) =
      [([tx "l"], .symlink, 0o777, [], 0)] := by
  unfold writeTar
  rw [walk_emptyLink, walk_emptyLinkPkg]
  cases bk <;> exact ⟨rfl, rfl⟩

/-- … which the *model's* extractor accepts and which gives back the observed tree: in the model the layer
is faithful, `nodeOK`'s `target ≠ []` is not what `extract_writeTar_partial` rests on.  A real extractor's
`symlink("", path)` fails with `ENOENT`; that is outside the model of `extract`. -/
theorem emptyLink_model_faithful (bk : Backend) :
    (∃ x, extract (writeTar bk fsEmptyLink) = .ok x ∧ SameTree x (observeTree bk fsEmptyLink)) ∧
    (∃ x, extract (writeTar bk fsEmptyLinkPkg) = .ok x ∧ SameTree x (observeTree bk fsEmptyLinkPkg)) := by
  constructor
  · cases bk <;>
    · refine ⟨_, by unfold writeTar; rw [walk_emptyLink]; rfl, ?_⟩
      unfold observeTree
      rw [walk_emptyLink]
      decide
  · cases bk <;>
    · refine ⟨_, by unfold writeTar; rw [walk_emptyLinkPkg]; rfl, ?_⟩
      unfold observeTree
      rw [walk_emptyLinkPkg]
      decide

/-- **package entries of a type `tarfs` does not accept** (FIFO `'6'`, block `'4'` and character `'3'` devices,
anything but `'0' '1' '2' '5'`): `WriteHeader` fails and the file system is unchanged — no such node reaches
the layer (the installation, and with it the build, fails) -/
theorem writeHeader_unsupported_type (c : Cfg) (fs : FS) (h : Hdr)
    (ht : h.typeflag ≠ 53 ∧ h.typeflag ≠ 48 ∧ h.typeflag ≠ 50 ∧ h.typeflag ≠ 49) :
    step c fs (.writeHeader h) = (fs, .err .unsupported) := by
  obtain ⟨h1, h2, h3, h4⟩ := ht
  simp only [step, writeHeaderOp, h1, h2, h3, h4, if_false, or_self]
  split <;> rfl

/-- **`Mknod` with a mode that does not say "character device"** (`S_IFBLK`, `S_IFIFO`, …: bits 12–15 of the
`uint32`, which are not `fs.ModeType` bits): the node is a character device all the same -/
theorem mknod_always_char (mode ma mi : Nat) (mt : Int) (h31 : mode.testBit 31 = false) (h27 : mode.testBit 27 = false) :
    obsKind { mode := mode ||| modeCharDevice ||| modeDevice, major := ma, minor := mi, mtime := mt } = .char := by
  have b31 : (mode ||| modeCharDevice ||| modeDevice).testBit 31 = false := by
    simp only [Nat.testBit_or, h31]; decide
  have b27 : (mode ||| modeCharDevice ||| modeDevice).testBit 27 = false := by
    simp only [Nat.testBit_or, h27]; decide
  have b26 : (mode ||| modeCharDevice ||| modeDevice).testBit 26 = true := by
    simp only [Nat.testBit_or]; simp [show modeDevice.testBit 26 = true by decide]
  have b21 : (mode ||| modeCharDevice ||| modeDevice).testBit 21 = true := by
    simp only [Nat.testBit_or]; simp [show modeCharDevice.testBit 21 = true by decide]
  simp [obsKind, b31, b27, b26, b21]

/-- `Mknod("sda", S_IFBLK|0660, mkdev(8, 0))` … -/
def fsMknodBlk : FS :=
  { nodes := [ { rootInode with children := [(tx "sda", 1)] },
               { mode := (0o60000 + 0o660) ||| modeCharDevice ||| modeDevice, major := 8, minor := 0 } ] }

set_option maxRecDepth 100000 in
theorem mknodBlk_reached (bk : Backend) :
    opTarOK (.mknod (tx "sda") (0o60000 + 0o660) (unixMkdev 8 0)) = true ∧
    run (Cfg.impl bk) FS.empty [.mknod (tx "sda") (0o60000 + 0o660) (unixMkdev 8 0)] = (fsMknodBlk, [.ok .unit]) := by
  cases bk <;> decide

theorem walk_mknodBlk : walk fsMknodBlk = [([tx "sda"], 1)] := by
  rw [walk_of_sorted _ (by decide)]; rfl

/-- … is within the guard, well-formed, and the layer faithfully says what the file system says: a
*character* device 8:0 with mode 0660.  The loss (block → character) happens in `Mknod`, not in `writeTar` -/
theorem mknodBlk_layer (bk : Backend) :
    WF fsMknodBlk ∧
    (writeTar bk fsMknodBlk).map (fun e => (e.path, e.kind, e.mode, e.devmajor, e.devminor)) =
      [([tx "sda"], .char, 0o660, 8, 0)] := by
  refine ⟨wf_of_check _ (by decide), ?_⟩
  unfold writeTar
  rw [walk_mknodBlk]
  cases bk <;> rfl


/-! ## a context that becomes done while the layer is written (round 5)

`Model/TarCancel.lean`: the context is looked at once per invocation of the `walkFS` callback and by whatever
`if err := ctx.Err(); err != nil { return … }` statements the callers have before and after the walk; the plan
(`singlePlan`, `writeTarPlan`, `multiPlan`) is read off the regenerated statements.  The property (the layer holds exactly
the paths of the file system) for a call that returns no error: for EVERY context (done from any check on, with either
error) the call returns the context's error or the layer holds the complete entry list — never a shorter one. -/

/-- the property at full strength for an arbitrary plan: false for a callback that ends the walk with `fs.SkipAll`
when no caller looks at the context afterwards (`walk_cancel_skipall_partial`) -/
def walk_cancel_full (p : CtxPlan) : Prop :=
  ∀ (ctx : Option Ctx) (es : List Entry), (∃ e, layerCtx p ctx es = .error e) ∨ layerCtx p ctx es = .ok es

/-- the plans of the code as it is now are safe (re-evaluated on the regenerated statements on every run) -/
theorem plans_safe : singlePlan.safe = true ∧ writeTarPlan.safe = true ∧ multiPlan.safe = true := by decide

/-- **walk_cancel_error_or_complete** (single layer: `BuildLayer` / `ImageLayoutToLayer` / `writeTar` / `walkFS` as
regenerated): for every state of the file system and every context, the call returns the context's error or the layer
holds every entry of `writeTar` -/
theorem walk_cancel_error_or_complete (b : Backend) (fs : FS) (ctx : Option Ctx) :
    (∃ e, layerCtx singlePlan ctx (writeTar b fs) = .error e) ∨
      layerCtx singlePlan ctx (writeTar b fs) = .ok (writeTar b fs) :=
  layerCtx_error_or_complete singlePlan plans_safe.1 ctx _

/-- the same for `writeTar` alone and for the walk `splitLayers` consumes (its layers partition what the walk yields:
C10 `file_once`, `flatten_eq_single`) -/
theorem walk_cancel_error_or_complete_all : walk_cancel_full singlePlan ∧ walk_cancel_full writeTarPlan ∧ walk_cancel_full multiPlan :=
  ⟨fun ctx es => layerCtx_error_or_complete _ plans_safe.1 ctx es, fun ctx es => layerCtx_error_or_complete _ plans_safe.2.1 ctx es,
   fun ctx es => layerCtx_error_or_complete _ plans_safe.2.2 ctx es⟩

/-- hence a layer that is emitted has exactly the walk's paths, also under cancellation -/
theorem walk_cancel_paths (b : Backend) (fs : FS) (ctx : Option Ctx) (l : List Entry)
    (h : layerCtx singlePlan ctx (writeTar b fs) = .ok l) : l.map (·.path) = (walk fs).map (·.1) := by
  rcases walk_cancel_error_or_complete b fs ctx with ⟨e, he⟩ | hc
  · rw [he] at h; cases h
  · rw [hc] at h; cases h; exact writeTar_paths b fs

/-- the error is the context's, and a context that is never done gives the complete layer (the statement is not
met by failing always) -/
theorem walk_cancel_error_is_ctx (p : CtxPlan) (c : Ctx) (es : List Entry) (e : CtxErr)
    (h : layerCtx p (some c) es = .error e) : e = c.err := by
  simp only [layerCtx] at h
  split at h
  · rename_i e1 h1; cases h; exact firstErr_err c _ _ _ h1
  · split at h
    · rename_i e2 h2
      cases h
      -- the walk's error comes from one `errAt`
      have : ∀ (k : Nat) (l : List Entry), (walkItems p.onDone (some c) k l).err = some e → e = c.err := by
        intro k l
        induction l generalizing k with
        | nil => simp [walkItems]
        | cons x xs ih =>
          simp only [walkItems]
          split
          · rename_i err hcb
            intro hx
            simp only at hx
            subst hx
            cases hod : p.onDone <;> simp only [hod, cbCheck] at hcb
            · split at hcb
              · rename_i e3 h3; cases hcb; exact errAt_err c k _ h3
              · cases hcb
            · split at hcb <;> cases hcb
            · cases hcb
            · cases hcb
          · intro hx; exact ih _ (by simpa using hx)
      simp only [walkFSCtx] at h2
      split at h2
      · rename_i err hcb
        simp only at h2
        subst h2
        cases hod : p.onDone <;> simp only [hod, cbCheck] at hcb
        · split at hcb
          · rename_i e3 h3; cases hcb; exact errAt_err c _ _ h3
          · cases hcb
        · split at hcb <;> cases hcb
        · cases hcb
        · cases hcb
      · exact this _ _ h2
    · split at h
      · rename_i e3 h3; cases h; exact firstErr_err c _ _ _ h3
      · cases h

theorem walk_cancel_live (p : CtxPlan) (es : List Entry) : layerCtx p none es = .ok es := layerCtx_live p es

/-- whatever the plan, an emitted layer is a prefix of the walk (nothing foreign, nothing reordered) -/
theorem walk_cancel_ok_prefix (p : CtxPlan) (ctx : Option Ctx) (es l : List Entry) (h : layerCtx p ctx es = .ok l) : l <+: es :=
  layerCtx_ok_prefix p ctx es l h

/-- **the `SkipAll` variant without a check after the walk violates the property**: three entries, the context done at
its third check (root, first entry, second entry): nil error and a layer with one entry -/
theorem walk_cancel_skipall_partial :
    ¬ walk_cancel_full { onDone := .skipAll, before := 1, after := 0 } := by
  intro h
  let e1 : Entry := { path := [tx "a"], kind := .reg, mode := 0o644, uid := 0, gid := 0 }
  let e2 : Entry := { path := [tx "b"], kind := .reg, mode := 0o644, uid := 0, gid := 0 }
  let e3 : Entry := { path := [tx "c"], kind := .reg, mode := 0o644, uid := 0, gid := 0 }
  have hv : layerCtx { onDone := .skipAll, before := 1, after := 0 } (some { live := 3, err := .canceled }) [e1, e2, e3] = .ok [e1] := by decide
  rcases h (some { live := 3, err := .canceled }) [e1, e2, e3] with ⟨e, he⟩ | hc
  · rw [hv] at he; cases he
  · rw [hv] at hc; exact absurd hc (by decide)

/-- … while the same callback with a check after the walk (what the multi-layer path of that variant has) is safe, and
so is a callback that does not look at the context at all -/
example : walk_cancel_full { onDone := .skipAll, before := 0, after := 1 } ∧ walk_cancel_full { onDone := .noCheck, before := 0, after := 0 } :=
  ⟨fun ctx es => layerCtx_error_or_complete _ (by decide) ctx es, fun ctx es => layerCtx_error_or_complete _ (by decide) ctx es⟩

set_option maxRecDepth 16384 in
/-- the hypotheses are met non-trivially: with three entries (four checks: root and one per entry) a context done at
the second check makes today's single-layer call fail with its error, so does one done at the last check; one that is
done after the walk's last check leaves the complete layer -/
example :
    let e1 : Entry := { path := [tx "a"], kind := .dir, mode := 0o755, uid := 0, gid := 0 }
    let e2 : Entry := { path := [tx "a", tx "f"], kind := .reg, mode := 0o644, uid := 0, gid := 0 }
    let e3 : Entry := { path := [tx "c"], kind := .symlink, mode := 0o777, uid := 0, gid := 0, linkname := tx "a/f" }
    layerCtx singlePlan (some { live := 1, err := .deadline }) [e1, e2, e3] = .error .deadline ∧
    layerCtx singlePlan (some { live := 3, err := .canceled }) [e1, e2, e3] = .error .canceled ∧
    layerCtx singlePlan (some { live := 4, err := .canceled }) [e1, e2, e3] = .ok [e1, e2, e3] := by decide

/-- how the plan is read: today's first callback statement returns the error; the `SkipAll` forms are recognised;
a statement list without any mention of the context has no check -/
example : onDoneOf Generated.tarWalkCallback = .returnErr ∧
    onDoneOf ["if ctx.Err() != nil { return fs.SkipAll }", "if path == \".\" { return nil }"] = .skipAll ∧
    onDoneOf ["if path == \".\" { return nil }", "select { case <-ctx.Done(): return nil }"] = .unknown ∧
    onDoneOf ["if path == \".\" { return nil }"] = .noCheck ∧
    ctxReturns ["if err := ctx.Err(); err != nil { return nil, err }", "layers := make([]v1.Layer, 0, len(groups)+1)"] = 1 := by decide

/-! ## ties to the source (regenerated on every run by `extract/tar.go`) -/

/-! ## the layer's bodies are what the interface reads (round 4)

`Stat` (the header's size) and `Open` (the body `writeTar` copies, and what `ReadFile` returns) decide
independently whether a package-provided file still has the package's content (`effectiveSize` / `teLive`:
`memFileInfo.Size` and `openFile` — ties `tie_tarTarfsSize`, `tie_tarfs_te_tests`).  They agree: the header size
of every regular entry is the number of bytes the interface reads, and the body is those bytes.  The judge
`readbackCheck` is what the driver runs (`tar.readback`) on the layer the real code wrote against `Stat` /
`ReadFile` of the real file system. -/

/-- `Stat`'s size is the length of what `Open` + read delivers -/
theorem size_is_read_length (b : Backend) (n : Inode) (hok : nodeOK n = true) (hte : b = .tarfs ∨ n.te = none) :
    effectiveSize (Cfg.impl b) n = (fileData b n).length := by
  have hsz : ∀ te, n.te = some te → te.size = te.content.length := by
    intro te h
    simp only [nodeOK, h, Bool.and_eq_true, beq_iff_eq] at hok
    exact hok.1.2
  cases hn : n.te with
  | none => simp [effectiveSize, fileData, teLive, hn]
  | some te =>
    have hb : b = .tarfs := by
      rcases hte with h | h
      · exact h
      · rw [hn] at h; cases h
    subst hb
    have := hsz te hn
    by_cases hd : n.data.length = 0
    · by_cases hz : te.size = 0
      · have hnil : n.data = [] := List.eq_nil_of_length_eq_zero hd
        simp [effectiveSize, fileData, teLive, hn, Cfg.impl, hz, hnil]
      · have hc : te.content ≠ [] := by
          intro h; rw [h] at this; exact hz (by simpa using this)
        simp [effectiveSize, fileData, teLive, hn, Cfg.impl, hd, this, hc]
    · simp [effectiveSize, fileData, teLive, hn, Cfg.impl, hd]

/-- **layer_entry_is_readback**: a regular entry of the layer carries the size `Stat` reports and the bytes
`ReadFile` returns for its path, and the two agree -/
theorem layer_entry_is_readback (b : Backend) (fs : FS) (users groups : List (Nat × Text)) (p : List Name) (i : Ino)
    (hok : nodeOK (fs.node i) = true) (hte : b = .tarfs ∨ (fs.node i).te = none)
    (hk : (header b fs users groups p i).kind = .reg) :
    readbackEntry [readbackOf b fs (p, i)] (header b fs users groups p i) = none := by
  have hlen := size_is_read_length b (fs.node i) hok hte
  simp only [header, hdrKind] at hk
  by_cases hl : hdrLink (fs.node i) ≠ []
  · simp [hl] at hk
  · simp only [hl, if_false] at hk
    cases hh : hlOf b (fs.node i) p with
    | some l => simp [hh] at hk
    | none =>
      simp only [hh, Option.isSome_none, Bool.false_eq_true, if_false] at hk
      have hreg : isRegularMode (fs.node i).mode = true := by
        unfold fihKind at hk
        by_cases hr : isRegularMode (fs.node i).mode = true
        · exact hr
        · simp only [hr, Bool.false_eq_true, if_false] at hk
          repeat (first | split at hk | cases hk)
      have hsize : hdrSize b none (fs.node i) = effectiveSize (Cfg.impl b) (fs.node i) := by
        simp [hdrSize, hk]
      have hcont : hdrContent b (effectiveSize (Cfg.impl b) (fs.node i)) (fs.node i) = fileData b (fs.node i) := by
        unfold hdrContent
        by_cases hz : effectiveSize (Cfg.impl b) (fs.node i) > 0
        · simp [hreg, hz]
        · have : (fileData b (fs.node i)).length = 0 := by omega
          simp [hz, (List.eq_nil_of_length_eq_zero this)]
      rw [hlen] at hsize hcont
      simp [readbackEntry, readbackOf, header, hh, hsize, hcont, hlen]

/-- the judge rejects a layer whose header size follows a `Stat` that saw the truncation while `Open` still
serves the package's bytes (a 0-byte entry for a file that reads "hello") -/
example : readbackCheck [{ path := ["f".toList], kind := .reg, mode := 0o644, uid := 0, gid := 0, size := 0, content := [] }]
    [{ path := ["f".toList], statSize := 0, content := "hello".toList, readLen := 5 }] = some (.content ["f".toList]) := by decide

/-- non-vacuity: a package-provided file whose truncation was ignored (F17b) is well-formed and regular -/
example : let n : Inode := { mode := 0o644, te := some { content := "hello".toList, size := 5, checksum := [], pkgName := [],
                                                          pkgOrigin := [], pkgReplaces := [] } }
    nodeOK n = true ∧ effectiveSize (Cfg.impl .tarfs) n = 5 ∧ fileData .tarfs n = "hello".toList := by decide

theorem tie_tarXattrPrefix : Generated.tarXattrPrefix = "SCHILY.xattr." := by rfl
theorem tie_tarWriteTar : Generated.tarWriteTar = (["ctx, span := otel.Tracer(\"go-apk\").Start(ctx, \"writeTar\")",
  "defer span.End()",
  "buf := make([]byte, 1<<20)",
  "for f, err := range walkFS(ctx, fsys) { if err != nil { return err } if err := tw.WriteHeader(f.header); err != nil { return err } if f.info.Mode().IsRegular() && f.header.Size > 0 { data, err := fsys.Open(f.path) if err != nil { return err } defer data.Close() if _, err := io.CopyBuffer(tw, data, buf); err != nil { return err } } }",
  "if err := tw.Close(); err != nil { return fmt.Errorf(\"closing tar writer: %w\", err) }",
  "return nil"] : List String) := by rfl
theorem tie_tarWalkPrelude : Generated.tarWalkPrelude = (["usersFile, _ := passwd.ReadUserFile(fsys, \"etc/passwd\")",
  "groupsFile, _ := passwd.ReadGroupFile(fsys, \"etc/group\")",
  "users := map[int]string{}",
  "groups := map[int]string{}",
  "for _, u := range usersFile.Entries { users[int(u.UID)] = u.UserName }",
  "for _, g := range groupsFile.Entries { groups[int(g.GID)] = g.GroupName }",
  "WALK fsys \".\""] : List String) := by rfl
theorem tie_tarWalkCallback : Generated.tarWalkCallback = (["if err := ctx.Err(); err != nil { return err }",
  "if path == \".\" { return nil }",
  "if err != nil { return err }",
  "info, err := d.Info()",
  "if err != nil { return err }",
  "var link string",
  "if info.Mode()&os.ModeSymlink == os.ModeSymlink { if link, err = fsys.Readlink(path); err != nil { return err } }",
  "header, err := tar.FileInfoHeader(info, link)",
  "if err != nil { return err }",
  "if info.Mode()&os.ModeCharDevice == os.ModeCharDevice { dev, err := fsys.Readnod(path) if err != nil { return err } header.Devmajor = int64(unix.Major(uint64(dev))) header.Devminor = int64(unix.Minor(uint64(dev))) }",
  "header.Name = path",
  "header.ModTime = info.ModTime()",
  "if name, ok := users[header.Uid]; ok { header.Uname = name }",
  "if name, ok := groups[header.Gid]; ok { header.Gname = name }",
  "if link != \"\" { header.Typeflag = tar.TypeSymlink }",
  "if header.PAXRecords == nil { header.PAXRecords = map[string]string{} }",
  "if header.Typeflag == tar.TypeReg || header.Typeflag == tar.TypeDir { xattrs, err := fsys.ListXattrs(path) if err == nil && xattrs != nil { for name, value := range xattrs { header.PAXRecords[xattrTarPAXRecordsPrefix+name] = string(value) } } }",
  "if !yield(&file{ path: path, info: info, header: header, }, nil) { return fs.SkipAll }",
  "return nil"] : List String) := by rfl
theorem tie_tarLayerWriter : Generated.tarLayerWriter = (["digest := sha256.New()",
  "buf := pooledBufioWriter(out)",
  "gzw := pooledGzipWriter(io.MultiWriter(digest, buf))",
  "diffid := sha256.New()",
  "w := tar.NewWriter(io.MultiWriter(diffid, gzw))",
  "return &layerWriter{ w: w, finalize: func() (*layer, error) { defer pgzipPool.Put(gzw) defer bufioPool.Put(buf) if err := w.Close(); err != nil { return nil, fmt.Errorf(\"closing tar writer: %w\", err) } if err := gzw.Close(); err != nil { return nil, fmt.Errorf(\"closing gzip writer: %w\", err) } if err := buf.Flush(); err != nil { return nil, fmt.Errorf(\"flushing %s: %w\", out.Name(), err) } stat, err := out.Stat() if err != nil { return nil, fmt.Errorf(\"statting %s: %w\", out.Name(), err) } h := v1.Hash{ Algorithm: \"sha256\", Hex: hex.EncodeToString(digest.Sum(make([]byte, 0, digest.Size()))), } l := &layer{ filename: out.Name(), desc: &v1.Descriptor{ Digest: h, Size: stat.Size(), MediaType: v1types.OCILayer, }, diffid: &v1.Hash{ Algorithm: \"sha256\", Hex: hex.EncodeToString(diffid.Sum(make([]byte, 0, diffid.Size()))), }, } return l, nil }, }"] : List String) := by rfl
theorem tie_tarTarfsSys : Generated.tarTarfsSys = (["name := path.Join(m.parent, m.name)",
  "th := &tar.Header{ Name: name, Mode: int64(m.mode), Uid: m.uid, Gid: m.gid, }",
  "if hl, ok := m.hardlinks[name]; ok { th.Typeflag = hl.Typeflag th.Linkname = hl.Linkname }",
  "return th"] : List String) := by rfl
theorem tie_tarTarfsSize : Generated.tarTarfsSize = (["if m.node.te != nil && len(m.data) == 0 { return m.node.te.header.Size }",
  "return int64(len(m.data))"] : List String) := by rfl
theorem tie_tarTarfsLink : Generated.tarTarfsLink = (["parent := filepath.Dir(newname)",
  "base := filepath.Base(newname)",
  "anode, err := m.getNode(parent)",
  "if err != nil { return err }",
  "if !anode.dir { return fmt.Errorf(\"parent is not a directory\") }",
  "target, err := m.getNode(oldname)",
  "if err != nil { return fs.ErrNotExist }",
  "if target.dir { return &os.LinkError{Op: \"link\", Old: oldname, New: newname, Err: syscall.EPERM} }",
  "anode.mu.Lock()",
  "defer anode.mu.Unlock()",
  "if isDotName(base) { return fs.ErrExist }",
  "if _, ok := anode.children[base]; ok { return fs.ErrExist }",
  "anode.children[base] = target",
  "target.linkCount++",
  "if hdr != nil { target.hardlinks[newname] = hdr }",
  "return nil"] : List String) := by rfl
/-- the context checks of the callers of the walk (regenerated by `extract/tar.go`): none before the walk; after it
`ImageLayoutToLayer` propagates `writeTar`'s error and finalizes, `BuildLayer` returns what `ImageLayoutToLayer` returns,
`splitLayers` finalizes the layers, `buildLayers` returns what `splitLayers` returns -/
theorem tie_tar_ctx_before_walk : Generated.tarLayerBeforeWalk = [] ∧ Generated.tarBuildLayerBeforeWalk = [] ∧
    Generated.tarSplitBeforeWalk = [] ∧ Generated.tarBuildLayersBeforeWalk = [] := ⟨rfl, rfl, rfl, rfl⟩
theorem tie_tarLayerFromWalk : Generated.tarLayerFromWalk = (["if err := writeTar(ctx, lw.w, bc.fs); err != nil { return \"\", nil, fmt.Errorf(\"generating tarball: %w\", err) }",
  "l, err := lw.finalize()",
  "if err != nil { return \"\", nil, fmt.Errorf(\"finalizing layer: %w\", err) }",
  "return outfile.Name(), l, nil"] : List String) := by rfl
theorem tie_tarBuildLayerFromWalk : Generated.tarBuildLayerFromWalk = (["return bc.ImageLayoutToLayer(ctx)"] : List String) := by rfl
theorem tie_tarSplitFromWalk : Generated.tarSplitFromWalk = (["for f, err := range walkFS(ctx, fsys)",
  "layers := make([]v1.Layer, 0, len(groups)+1)",
  "for i, g := range groups { w := groupToWriter[g] l, err := w.finalize() if err != nil { return nil, fmt.Errorf(\"finalizing group[%d] layer: %w\", i, err) } layers = append(layers, l) }",
  "topLayer, err := top.finalize()",
  "if err != nil { return nil, fmt.Errorf(\"finalizing top layer: %w\", err) }",
  "layers = append(layers, topLayer)",
  "return layers, nil"] : List String) := by rfl
theorem tie_tarBuildLayersFromWalk : Generated.tarBuildLayersFromWalk = (["return splitLayers(ctx, bc.fs, groups, bc.o.TempDir())"] : List String) := by rfl
set_option maxRecDepth 16384 in
/-- the plans the theorems above are about, as read off those statements -/
theorem tie_tar_ctx_plans : singlePlan = { onDone := .returnErr, before := 0, after := 0 } ∧
    writeTarPlan = { onDone := .returnErr, before := 0, after := 0 } ∧
    multiPlan = { onDone := .returnErr, before := 0, after := 0 } := ⟨rfl, rfl, rfl⟩
theorem tie_tarMemfsSys : Generated.tarMemfsSys = (["return &tar.Header{ Mode: int64(m.mode), Uid: m.uid, Gid: m.gid, }"] : List String) := by rfl
theorem tie_tarMemfsSize : Generated.tarMemfsSize = (["return int64(len(m.data))"] : List String) := by rfl
/-- every test of a node's tar entry in tarfs: `openFile` (package bytes on empty data of a non-empty package file)
and `memFileInfo.Size` (package size on empty data) — `teLive` / `effectiveSize` -/
theorem tie_tarfs_te_tests : Generated.teTestsTarfs = (["anode.te != nil && len(anode.data) == 0 && anode.te.header.Size != 0",
  "m.node.te != nil && len(m.data) == 0"] : List String) := by rfl

end Apko.C06
