/-
C19 — The package cache is transparent and survives crashes and concurrent writers.

Model: `Apko/Model/Cache.lean` (the same definitions the driver executes).  A state is a directory
(`Name ↦ file content complete? | link target`) and a pool `Nat → Proc` of builders — any number of
them; `runSched` runs an arbitrary schedule.  A crash is a builder that is never scheduled again, a
later build is a builder that is scheduled later, a repository update is the choice of the content
ids (`hk`, `gk`) the index builders are given.

Proved for ALL directories satisfying `GoodFS`, ALL pools of well-typed builders, ALL schedules:
* `inv_step`, `inv_runSched`        the advertise invariant is inductive over every step of every builder;
* `adv_invariant`                   in every reachable state every advertised name that resolves holds the
                                    complete content it names (full statement; closes after the fix F19a:
                                    `PackageData` now regenerates `.dat.tar` into a temp and renames it);
* `f19a_state`, `adv_invariant_fails_before_fix`, `f19a_silent`  the builder of the tree *before* the fix
                                    (`pkgBuilderOld`: `os.Create` under the final name) violates the same
                                    statement: builder 0 stops between advertising `.dat.tar.gz` and
                                    `.dat.tar` (crash, or merely slower), builder 1 takes the hit path and
                                    creates `.dat.tar` under its final name; a third builder then *uses*
                                    the partial file and succeeds.  Witness replayed on the Go code:
                                    corpus/cache/F19a.json;
* `hit_correct`                     whatever any builder reads through an advertised name is the
                                    complete content named (what a fetch would have produced);
* `adv_present_persist`, `resolves_stable`  advertised entries are never removed (only ever replaced by
                                    the same complete content);
* `recovery_live_index`, `recovery_live_pkg`, `recovery_correct`  from any good directory (any crash
                                    state) a builder with fresh temp names completes, and what it read through
                                    advertised names is the complete, correctly named content
                                    (`exec_runSched`: a builder alone is a schedule of the same scheduler;
                                    `runPrefix_runSched`: so are the crash prefixes the driver executes);
* `offline_safe`, `offline_partial_tmp_is_error`  offline: error or the complete content of an entry;
* `coalescing_transparent`          flightCache / sync.Once tables are memo tables (C08's lemma).
-/
import Apko.Model.Cache
import Apko.Model.Memo
import Apko.Proofs.C08
import Apko.Proofs.Lemmas.CacheStep
import Apko.Proofs.Lemmas.CacheLive
import Apko.Generated.Cache

set_option linter.unusedSimpArgs false

namespace Apko.C19
open Apko.Cache

/-! ### the invariant over whole schedules -/

/-- a pool of builders that have not started: fresh typestate, nothing observed, well-typed program -/
def FreshPool (P : Nat → Proc) : Prop :=
  ∀ i, ∃ prog, P i = Proc.new prog ∧ wt (fun _ => .unborn) prog

theorem inv_init (fs : FS) (P : Nat → Proc) (hg : GoodFS fs.get) (hP : FreshPool P) :
    Inv fs.get P := by
  have hctx : ∀ i t, (P i).ctx t = .unborn := by
    intro i t; obtain ⟨prog, hp, _⟩ := hP i; rw [hp]; rfl
  have hown : ∀ i t, ¬ Owns (P i).ctx t := by
    intro i t ho
    rcases ho with ⟨c, hc⟩ | ⟨c, hc⟩ <;> (rw [hctx] at hc; cases hc)
  refine ⟨hg, ?_, ?_, ?_, ?_, ?_, ?_, ?_⟩
  · intro k t i _ ho; exact hown i t ho
  · intro i t c hc; rw [hctx] at hc; cases hc
  · intro i t c hc; rw [hctx] at hc; cases hc
  · intro i t ho; exact absurd ho (hown i t)
  · intro i j t _ ho; exact absurd ho (hown i t)
  · intro i; obtain ⟨prog, hp, hw⟩ := hP i; rw [hp]; exact hw
  · intro i n c b k hm; obtain ⟨prog, hp, _⟩ := hP i; rw [hp] at hm; cases hm

/-- T: the invariant holds along every schedule -/
theorem inv_runSched (sched : List Nat) (s : State) (h : Inv s.fs.get s.procs) :
    Inv (runSched sched s).fs.get (runSched sched s).procs := by
  induction sched generalizing s with
  | nil => exact h
  | cons i rest ih =>
    simp only [runSched]
    exact ih (s.step i) (inv_step s i h)

/-- the property of a reachable directory: an advertised name that resolves holds the complete
content identified by its name -/
def AdvOk (fs : FS) : Prop := ∀ k c b, fs.resolve (.adv k) = some (c, b) → c = k ∧ b = true

/-- T `adv_invariant` (full statement): any good starting directory (empty, or left behind by any
earlier history), any number of builders, any interleaving, any crash prefixes (a builder that is
never scheduled again), any revisions — every advertised name that resolves holds the complete
content identified by its name. -/
theorem adv_invariant (fs0 : FS) (P : Nat → Proc) (sched : List Nat)
    (hg : GoodFS fs0.get) (hP : FreshPool P) :
    AdvOk (runSched sched ⟨fs0, P⟩).fs := by
  have h := inv_runSched sched ⟨fs0, P⟩ (inv_init fs0 P hg hP)
  intro k c b hres
  rw [resolve_eq] at hres
  exact good_resolve h.good hres

/-- T `hit_correct`: in every reachable state, whatever any builder has read through an advertised
name (cache hits of `cachedPackage`, the index opened by `fetchAndCache`, the reads after
`cachePackage`) is the complete content that name identifies — the sections a fetch would produce. -/
theorem hit_correct (fs0 : FS) (P : Nat → Proc) (sched : List Nat)
    (hg : GoodFS fs0.get) (hP : FreshPool P)
    (i : Nat) (k c : Cid) (b : Bool)
    (hm : (Name.adv k, c, b) ∈ ((runSched sched ⟨fs0, P⟩).procs i).obs) : c = k ∧ b = true :=
  (inv_runSched sched ⟨fs0, P⟩ (inv_init fs0 P hg hP)).obsOk i _ c b k hm rfl

/-! ### the builders are well-typed (the theorems above apply to them) -/

theorem wt_chunks (Γ : Ctx) (n : Nat) (t : Name) (c : Cid) (rest : Prog)
    (ht : Γ t = .opened c) (hr : wt Γ rest) : wt Γ (chunks n t rest) := by
  induction n with
  | zero => exact hr
  | succ n ih => exact ⟨⟨c, ht⟩, ih⟩

theorem wt_advertise (Γ : Ctx) (t : Name) (k : Cid) (rest : Prog)
    (ht : Γ t = .closed k) (hr : wt (Γ.upd t .gone) rest) : wt Γ (advertise t k rest) :=
  ⟨⟨⟨k, ht⟩, hr⟩, ⟨⟨k, ht, rfl⟩, hr⟩⟩

theorem wt_pkgUse (Γ : Ctx) (k1 : Cid) : wt Γ (pkgUse k1) := ⟨trivial, trivial⟩

theorem wt_pkgData (Γ : Ctx) (t4 : Name) (k2 k3 : Cid) (n : Nat) (rest : Prog)
    (h4 : Γ t4 = .unborn) (ht : t4.isTmp = true) (hr : ∀ Γ', wt Γ' rest) :
    wt Γ (pkgData t4 k2 k3 n rest) := by
  refine ⟨⟨trivial, hr _⟩, trivial, trivial, ⟨h4, ht⟩, trivial, ?_⟩
  refine wt_chunks _ n _ k3 _ (by simp [ctxStep, Ctx.upd]) ?_
  refine ⟨⟨k3, by simp [ctxStep, Ctx.upd]⟩, ⟨k3, by simp [ctxStep, Ctx.upd], rfl⟩, trivial, trivial, hr _⟩

theorem wt_indexOnline (t : Name) (hk gk : Cid) (n : Nat) (ht : t.isTmp = true) :
    wt (fun _ => .unborn) (indexOnline t hk gk n) := by
  refine ⟨⟨trivial, trivial⟩, trivial, ⟨rfl, ht⟩, trivial, ?_⟩
  refine wt_chunks _ n t gk _ (by simp [ctxStep, Ctx.upd]) ?_
  refine ⟨⟨gk, by simp [ctxStep, Ctx.upd]⟩, trivial, ?_⟩
  refine wt_advertise _ t gk _ (by simp [ctxStep, Ctx.upd]) ⟨trivial, trivial, trivial⟩

theorem wt_indexOffline (cands : List Name) : wt (fun _ => .unborn) (indexOffline cands) :=
  ⟨trivial, trivial⟩

theorem wt_pkgMiss (t1 t2 t3 t4 : Name) (k1 k2 k3 : Cid) (n : Nat)
    (h1 : t1.isTmp = true) (h2 : t2.isTmp = true) (h3 : t3.isTmp = true) (h4 : t4.isTmp = true)
    (h12 : t1 ≠ t2) (h13 : t1 ≠ t3) (h23 : t2 ≠ t3) (h14 : t1 ≠ t4) (h24 : t2 ≠ t4) (h34 : t3 ≠ t4) :
    wt (fun _ => .unborn) (pkgMiss t1 t2 t3 t4 k1 k2 k3 n) := by
  have h21 := h12.symm
  have h31 := h13.symm
  have h32 := h23.symm
  have h41 := h14.symm
  have h42 := h24.symm
  have h43 := h34.symm
  refine ⟨trivial, trivial, trivial, ⟨rfl, h1⟩, trivial, ?_⟩
  refine wt_chunks _ n t1 k1 _ (by simp [ctxStep, Ctx.upd]) ?_
  refine ⟨⟨k1, by simp [ctxStep, Ctx.upd]⟩, trivial,
    ⟨by simp [ctxStep, Ctx.upd, h12, h13, h23, h21, h31, h32], h2⟩, trivial,
    ⟨by simp [ctxStep, Ctx.upd, h12, h13, h23, h21, h31, h32], h3⟩, trivial, ?_⟩
  refine wt_chunks _ n t2 k2 _ (by simp [ctxStep, Ctx.upd, h12, h13, h23, h21, h31, h32]) ?_
  refine wt_chunks _ n t3 k3 _ (by simp [ctxStep, Ctx.upd, h12, h13, h23, h21, h31, h32]) ?_
  refine ⟨⟨k3, by simp [ctxStep, Ctx.upd, h12, h13, h23, h21, h31, h32]⟩,
    ⟨k2, by simp [ctxStep, Ctx.upd, h12, h13, h23, h21, h31, h32]⟩, trivial, trivial,
    trivial, trivial, ?_⟩
  refine wt_advertise _ t1 k1 _ (by simp [ctxStep, Ctx.upd, h12, h13, h23, h21, h31, h32]) ⟨trivial, ?_⟩
  refine wt_advertise _ t2 k2 _ (by simp [ctxStep, Ctx.upd, h12, h13, h23, h21, h31, h32]) ⟨trivial, ?_⟩
  refine wt_advertise _ t3 k3 _ (by simp [ctxStep, Ctx.upd, h12, h13, h23, h21, h31, h32]) ⟨trivial, ?_⟩
  exact wt_pkgData _ t4 k2 k3 n _
    (by simp [ctxStep, Ctx.upd, h12, h13, h23, h21, h31, h32, h41, h42, h43]) h4
    (fun Γ' => wt_pkgUse Γ' k1)

theorem wt_pkgBuilder (t1 t2 t3 t4 : Name) (k1 k2 k3 : Cid) (n : Nat)
    (h1 : t1.isTmp = true) (h2 : t2.isTmp = true) (h3 : t3.isTmp = true) (h4 : t4.isTmp = true)
    (h12 : t1 ≠ t2) (h13 : t1 ≠ t3) (h23 : t2 ≠ t3) (h14 : t1 ≠ t4) (h24 : t2 ≠ t4) (h34 : t3 ≠ t4) :
    wt (fun _ => .unborn) (pkgBuilder t1 t2 t3 t4 k1 k2 k3 n) :=
  ⟨⟨trivial, wt_pkgData _ t4 k2 k3 n _ rfl h4 (fun Γ' => wt_pkgUse Γ' k1),
      wt_pkgMiss t1 t2 t3 t4 k1 k2 k3 n h1 h2 h3 h4 h12 h13 h23 h14 h24 h34⟩,
    wt_pkgMiss t1 t2 t3 t4 k1 k2 k3 n h1 h2 h3 h4 h12 h13 h23 h14 h24 h34⟩

theorem wt_pkgOffline (t4 : Name) (k1 k2 k3 : Cid) (n : Nat) (h4 : t4.isTmp = true) :
    wt (fun _ => .unborn) (pkgOffline t4 k1 k2 k3 n) :=
  ⟨⟨trivial, wt_pkgData _ t4 k2 k3 n _ rfl h4 (fun Γ' => wt_pkgUse Γ' k1), trivial⟩, trivial⟩

/-! ### F19a: the regeneration write under the final name (the tree before the fix) breaks the invariant -/

/-- three builders of the tree before the fix, for the same package (control 1, data 2, tar 3) -/
def f19aPool : Nat → Proc
  | 0 => Proc.new (pkgBuilderOld (.tmp 1) (.tmp 2) (.tmp 3) 1 2 3 1)
  | 1 => Proc.new (pkgBuilderOld (.tmp 4) (.tmp 5) (.tmp 6) 1 2 3 1)
  | 2 => Proc.new (pkgBuilderOld (.tmp 7) (.tmp 8) (.tmp 9) 1 2 3 1)
  | _ => Proc.new (.halt true)

/-- the same three builders on the repaired tree -/
def fixedPool : Nat → Proc
  | 0 => Proc.new (pkgBuilder (.tmp 1) (.tmp 2) (.tmp 3) (.tmp 10) 1 2 3 1)
  | 1 => Proc.new (pkgBuilder (.tmp 4) (.tmp 5) (.tmp 6) (.tmp 11) 1 2 3 1)
  | 2 => Proc.new (pkgBuilder (.tmp 7) (.tmp 8) (.tmp 9) (.tmp 12) 1 2 3 1)
  | _ => Proc.new (.halt true)

/-- builder 0 runs until it has advertised `.ctl.tar.gz` and `.dat.tar.gz` (26 steps) and stops
(killed, or just slow); builder 1 takes the hit path and creates `.dat.tar` (6 steps) -/
def f19aSched : List Nat := List.replicate 26 0 ++ List.replicate 6 1

theorem good_empty : GoodFS FS.empty.get :=
  ⟨fun _ _ _ h => (by cases h), fun _ _ h => (by cases h)⟩

theorem f19a_state :
    (runSched f19aSched ⟨FS.empty, f19aPool⟩).fs.resolve (.adv 3) = some (3, false) := by decide

/-- T: with `PackageData` as it was before the fix the statement of `adv_invariant` is false -/
theorem adv_invariant_fails_before_fix : ¬ AdvOk (runSched f19aSched ⟨FS.empty, f19aPool⟩).fs := by
  intro h
  exact absurd (h 3 3 false f19a_state).2 (by decide)

/-- …and the damage is not only transient: if builder 1 is killed there too (the second crash), a
third builder takes the hit path, reads the partial `.dat.tar` through its final name (a plain tar
has no integrity trailer) and finishes *successfully* having used incomplete content. -/
theorem f19a_silent :
    let s := runSched (f19aSched ++ List.replicate 8 2) ⟨FS.empty, f19aPool⟩
    (s.procs 2).prog = .halt true ∧ (Name.adv 3, 3, false) ∈ (s.procs 2).obs := by decide

theorem fixedPool_fresh : FreshPool fixedPool := by
  intro i
  match i with
  | 0 => exact ⟨_, rfl, wt_pkgBuilder _ _ _ _ 1 2 3 1 rfl rfl rfl rfl (by decide) (by decide) (by decide) (by decide) (by decide) (by decide)⟩
  | 1 => exact ⟨_, rfl, wt_pkgBuilder _ _ _ _ 1 2 3 1 rfl rfl rfl rfl (by decide) (by decide) (by decide) (by decide) (by decide) (by decide)⟩
  | 2 => exact ⟨_, rfl, wt_pkgBuilder _ _ _ _ 1 2 3 1 rfl rfl rfl rfl (by decide) (by decide) (by decide) (by decide) (by decide) (by decide)⟩
  | _ + 3 => exact ⟨_, rfl, trivial⟩

/-- the hypotheses of `adv_invariant` are satisfiable by the real builders, and on the repaired tree
the F19a schedule (continued: builder 1 killed after creating its temp, builder 2 recovering) ends
with builder 2 having read the complete tar -/
theorem fixed_f19a_schedule :
    let s := runSched (List.replicate 26 0 ++ List.replicate 7 1 ++ List.replicate 14 2) ⟨FS.empty, fixedPool⟩
    (s.procs 2).prog = .halt true ∧ (Name.adv 3, 3, true) ∈ (s.procs 2).obs ∧
    s.fs.get (.adv 3) = some (.file 3 true) := by decide

/-! ### advertised entries persist -/

/-- no step of any well-typed builder removes a final name (a `rename` may replace it — by the same
complete content, see `inv_step`) -/
theorem adv_present_persist (s : State) (i : Nat) (h : Inv s.fs.get s.procs)
    (k : Cid) (hk : s.fs.get (.adv k) ≠ none) : (s.step i).fs.get (.adv k) ≠ none := by
  have hty := h.typed i
  rw [step_fs]
  revert hty
  generalize hp : s.procs i = p
  intro hty
  obtain ⟨prog, Γ, obs, marks⟩ := p
  have hΓ : (s.procs i).ctx = Γ := by rw [hp]
  have tmpne : ∀ t, Owns Γ t → Name.adv k ≠ t := by
    intro t ho e
    have := h.ownTmp i t (by rw [hΓ]; exact ho)
    rw [← e] at this; simp [Name.isTmp] at this
  cases prog with
  | halt b => exact hk
  | ifStat n y no => exact hk
  | op o next =>
    simp only [wt] at hty
    obtain ⟨hok, _⟩ := hty
    simp only [stepProc]
    cases o with
    | mkdir => exact hk
    | mark m => exact hk
    | create t c =>
      simp only [stepOp]
      cases habs : s.fs.get t with
      | none =>
        have : Name.adv k ≠ t := by intro e; rw [e] at hk; exact hk habs
        simp [FS.set, this, hk]
      | some n => exact hk
    | chunk t =>
      simp only [stepOp]
      obtain ⟨c0, hc0⟩ := hok
      have := tmpne t (owns_opened hc0)
      have hgt := h.ownOpen i t c0 (by rw [hΓ]; exact hc0)
      simp [hgt, FS.set, this, hk]
    | finish t =>
      simp only [stepOp]
      obtain ⟨c0, hc0⟩ := hok
      have := tmpne t (owns_opened hc0)
      have hgt := h.ownOpen i t c0 (by rw [hΓ]; exact hc0)
      simp [hgt, FS.set, this, hk]
    | symlink t dst =>
      simp only [stepOp]
      cases habs : s.fs.get dst with
      | none =>
        have : Name.adv k ≠ dst := by intro e; rw [e] at hk; exact hk habs
        simp [FS.set, this, hk]
      | some n => exact hk
    | remove t =>
      simp only [stepOp]
      obtain ⟨c0, hc0⟩ := hok
      have := tmpne t (owns_closed hc0)
      simp [FS.set, this, hk]
    | rename t dst =>
      simp only [stepOp]
      obtain ⟨k0, hk0, hdst⟩ := hok
      have := tmpne t (owns_closed hk0)
      have hgt := h.ownClosed i t k0 (by rw [hΓ]; exact hk0)
      simp only [hgt, FS.set, this, if_false]
      split
      · simp
      · exact hk
    | regen dst c => exact hok.elim
    | read n checked =>
      simp only [stepOp]
      cases s.fs.resolve n with
      | none => exact hk
      | some cb =>
        obtain ⟨c, b⟩ := cb
        by_cases hc : (checked && !b) = true <;> simp [hc, hk]
    | readNewest cands =>
      simp only [stepOp]
      cases s.fs.newest cands with
      | none => exact hk
      | some n =>
        dsimp only
        cases s.fs.resolve n with
        | none => exact hk
        | some cb =>
          obtain ⟨c, b⟩ := cb
          by_cases hc : (!b) = true <;> simp [hc, hk]

/-- T: once an advertised name is present it resolves for ever, to the complete content it names —
under every schedule of every pool (no `Remove` ever touches it, a `Rename` onto it carries the same
content). -/
theorem resolves_stable (sched : List Nat) (s : State) (h : Inv s.fs.get s.procs)
    (k : Cid) (hk : s.fs.get (.adv k) ≠ none) :
    (runSched sched s).fs.resolve (.adv k) = some (k, true) := by
  induction sched generalizing s with
  | nil => rw [resolve_eq]; exact present_resolves h.good hk
  | cons i rest ih =>
    simp only [runSched]
    exact ih (s.step i) (inv_step s i h) (adv_present_persist s i h k hk)

/-! ### recovery: a builder alone, from any crash state -/

/-- `exec` (a builder alone, to completion) is the scheduler running only that builder -/
theorem exec_runSched (i : Nat) (prog : Prog) :
    ∀ (fs : FS) (P : Nat → Proc) (Γ : Ctx) (obs : List Obs) (m : Nat), P i = ⟨prog, Γ, obs, m⟩ →
    ∃ n m', (runSched (List.replicate n i) ⟨fs, P⟩).fs = (exec fs Γ obs prog).1 ∧
      (runSched (List.replicate n i) ⟨fs, P⟩).procs i =
        ⟨.halt (exec fs Γ obs prog).2.2.2, (exec fs Γ obs prog).2.1, (exec fs Γ obs prog).2.2.1, m'⟩ := by
  induction prog with
  | halt b => intro fs P Γ obs m hp; exact ⟨0, m, rfl, hp⟩
  | ifStat nm y no ihy ihn =>
    intro fs P Γ obs m hp
    have hstep : (State.step ⟨fs, P⟩ i).procs i = ⟨if fs.stat nm then y else no, Γ, obs, m⟩ := by
      simp [State.step, stepProc, hp]
    have hfs : (State.step ⟨fs, P⟩ i).fs = fs := by simp [State.step, stepProc, hp]
    by_cases hs : fs.stat nm = true
    · obtain ⟨n, m', h1, h2⟩ := ihy (State.step ⟨fs, P⟩ i).fs (State.step ⟨fs, P⟩ i).procs Γ obs m
        (by rw [hstep, if_pos hs])
      have h1' : (runSched (List.replicate n i) (State.step ⟨fs, P⟩ i)).fs =
          (exec (State.step ⟨fs, P⟩ i).fs Γ obs y).1 := h1
      have h2' : (runSched (List.replicate n i) (State.step ⟨fs, P⟩ i)).procs i = _ := h2
      refine ⟨n + 1, m', ?_, ?_⟩
      · show (runSched (List.replicate n i) (State.step ⟨fs, P⟩ i)).fs = _
        simp only [exec, if_pos hs]; exact h1'.trans (by rw [hfs])
      · show (runSched (List.replicate n i) (State.step ⟨fs, P⟩ i)).procs i = _
        simp only [exec, if_pos hs]; exact h2'.trans (by rw [hfs])
    · obtain ⟨n, m', h1, h2⟩ := ihn (State.step ⟨fs, P⟩ i).fs (State.step ⟨fs, P⟩ i).procs Γ obs m
        (by rw [hstep, if_neg hs])
      have h1' : (runSched (List.replicate n i) (State.step ⟨fs, P⟩ i)).fs =
          (exec (State.step ⟨fs, P⟩ i).fs Γ obs no).1 := h1
      have h2' : (runSched (List.replicate n i) (State.step ⟨fs, P⟩ i)).procs i = _ := h2
      refine ⟨n + 1, m', ?_, ?_⟩
      · show (runSched (List.replicate n i) (State.step ⟨fs, P⟩ i)).fs = _
        simp only [exec, if_neg hs]; exact h1'.trans (by rw [hfs])
      · show (runSched (List.replicate n i) (State.step ⟨fs, P⟩ i)).procs i = _
        simp only [exec, if_neg hs]; exact h2'.trans (by rw [hfs])
  | op o next ih =>
    intro fs P Γ obs m hp
    cases hop : stepOp fs obs o with
    | none =>
      refine ⟨1, m, ?_, ?_⟩
      · simp [List.replicate, runSched, State.step, stepProc, hp, hop, exec]
      · simp [List.replicate, runSched, State.step, stepProc, hp, hop, exec, Proc.abort]
    | some r =>
      obtain ⟨fs', obs'⟩ := r
      have hstep : (State.step ⟨fs, P⟩ i).procs i =
          ⟨next, ctxStep Γ o, obs', if isMark o then m + 1 else m⟩ := by
        simp [State.step, stepProc, hp, hop]
      have hfs : (State.step ⟨fs, P⟩ i).fs = fs' := by simp [State.step, stepProc, hp, hop]
      obtain ⟨n, m', h1, h2⟩ := ih (State.step ⟨fs, P⟩ i).fs (State.step ⟨fs, P⟩ i).procs
        (ctxStep Γ o) obs' _ hstep
      have h1' : (runSched (List.replicate n i) (State.step ⟨fs, P⟩ i)).fs =
          (exec (State.step ⟨fs, P⟩ i).fs (ctxStep Γ o) obs' next).1 := h1
      have h2' : (runSched (List.replicate n i) (State.step ⟨fs, P⟩ i)).procs i = _ := h2
      refine ⟨n + 1, m', ?_, ?_⟩
      · show (runSched (List.replicate n i) (State.step ⟨fs, P⟩ i)).fs = _
        simp only [exec, hop]; exact h1'.trans (by rw [hfs])
      · show (runSched (List.replicate n i) (State.step ⟨fs, P⟩ i)).procs i = _
        simp only [exec, hop]; exact h2'.trans (by rw [hfs])

/-- the crash prefixes the driver executes (`runPrefix`: builder `i` alone until marker `marks` and
`extra` more steps) are schedules of the same scheduler: everything proved over `runSched` holds for
the states the correspondence suite compares with the real directories -/
theorem runPrefix_runSched (i : Nat) (fuel marks extra : Nat) :
    ∀ (fs : FS) (P : Nat → Proc), ∃ n,
      (runSched (List.replicate n i) ⟨fs, P⟩).fs = (runPrefix fuel marks extra fs (P i)).1 ∧
      (runSched (List.replicate n i) ⟨fs, P⟩).procs i = (runPrefix fuel marks extra fs (P i)).2 := by
  induction fuel generalizing marks extra with
  | zero => intro fs P; exact ⟨0, rfl, rfl⟩
  | succ fuel ih =>
    intro fs P
    have hself : (State.step ⟨fs, P⟩ i).procs i = (stepProc fs (P i)).2 := step_self ⟨fs, P⟩ i
    have stepCase : ∀ marks' extra', ∃ n,
        (runSched (List.replicate n i) ⟨fs, P⟩).fs =
          (runPrefix fuel marks' extra' (stepProc fs (P i)).1 (stepProc fs (P i)).2).1 ∧
        (runSched (List.replicate n i) ⟨fs, P⟩).procs i =
          (runPrefix fuel marks' extra' (stepProc fs (P i)).1 (stepProc fs (P i)).2).2 := by
      intro marks' extra'
      obtain ⟨n, h1, h2⟩ := ih marks' extra' (State.step ⟨fs, P⟩ i).fs (State.step ⟨fs, P⟩ i).procs
      refine ⟨n + 1, ?_, ?_⟩
      · show (runSched (List.replicate n i) (State.step ⟨fs, P⟩ i)).fs = _
        rw [hself] at h1; exact h1
      · show (runSched (List.replicate n i) (State.step ⟨fs, P⟩ i)).procs i = _
        rw [hself] at h2; exact h2
    unfold runPrefix
    split
    · exact ⟨0, rfl, rfl⟩
    · split
      · exact stepCase marks extra
      · split
        · exact ⟨0, rfl, rfl⟩
        · exact stepCase marks (extra - 1)

/-- T `recovery_live_index`: from ANY good directory — in particular every state a killed build can
leave behind (`adv_invariant`) — an online index fetch with a fresh temp name completes. -/
theorem recovery_live_index (fs : FS) (hg : GoodFS fs.get) (t : Name) (htmp : t.isTmp = true)
    (hfresh : fs.get t = none) (hk gk : Cid) (n : Nat) (Γ : Ctx) (obs : List Obs) :
    (exec fs Γ obs (indexOnline t hk gk n)).2.2.2 = true := by
  have hat := adv_ne_tmp htmp
  suffices h : SG fs.get (indexOnline t hk gk n) from h fs Γ obs rfl
  unfold indexOnline
  refine SG_ifStat ?_ ?_
  · intro hres
    exact SG_read (present_resolves hg (present_of_resolved hres)) (SG_halt _)
  · intro _
    refine SG_mkdir (SG_create hfresh (SG_mark _ ?_))
    refine SG_chunks n (c := gk) (by simp [updG]) (SG_finish (c := gk) (b := false) (by simp [updG]) (SG_mark _ ?_))
    generalize hg2 : updG (updG fs.get t (some (.file gk false))) t (some (.file gk true)) = g2
    have eadv : ∀ k, g2 (.adv k) = fs.get (.adv k) := by intro k; rw [← hg2]; simp [updG, hat k]
    have ekeep : ∀ x, fs.get x ≠ none → g2 x = fs.get x := by
      intro x hx
      have : x ≠ t := by intro e; rw [e] at hx; exact hx hfresh
      rw [← hg2]; simp [updG, this]
    refine SG_advertise (good_of_fresh_changes hg eadv ekeep) (by rw [← hg2]; simp [updG]) htmp
      (nolink_of_fresh hg hfresh eadv) ?_
    intro g3 good3 pres _ _ _
    exact SG_mark _ (SG_read (present_resolves good3 pres) (SG_halt _))

/-- T `recovery_live_pkg`: from ANY good directory a package builder with four fresh temp names
completes: on the hit path, on the hit path with a missing `.dat.tar` (regeneration), on the miss path
(whatever subset of the three final names earlier, killed builders left behind). -/
theorem recovery_live_pkg (fs : FS) (hg : GoodFS fs.get) (t1 t2 t3 t4 : Name) (k1 k2 k3 : Cid) (n : Nat)
    (f1 : fs.get t1 = none) (f2 : fs.get t2 = none) (f3 : fs.get t3 = none) (f4 : fs.get t4 = none)
    (m1 : t1.isTmp = true) (m2 : t2.isTmp = true) (m3 : t3.isTmp = true) (m4 : t4.isTmp = true)
    (h12 : t1 ≠ t2) (h13 : t1 ≠ t3) (h23 : t2 ≠ t3) (h14 : t1 ≠ t4) (h24 : t2 ≠ t4) (h34 : t3 ≠ t4)
    (Γ : Ctx) (obs : List Obs) :
    (exec fs Γ obs (pkgBuilder t1 t2 t3 t4 k1 k2 k3 n)).2.2.2 = true := by
  suffices h : SG fs.get (pkgBuilder t1 t2 t3 t4 k1 k2 k3 n) from h fs Γ obs rfl
  have hmiss := SG_pkgMiss (k1 := k1) (k2 := k2) (k3 := k3) n hg f1 f2 f3 f4 m1 m2 m3 m4 h12 h13 h23 h14 h24 h34
  unfold pkgBuilder pkgBuilderWith
  refine SG_ifStat ?_ (fun _ => hmiss)
  intro hres1
  have p1 := present_of_resolved hres1
  refine SG_read (present_resolves hg p1) (SG_ifStat ?_ (fun _ => hmiss))
  intro hres2
  exact SG_pkgData n hg p1 (present_of_resolved hres2) f4 m4

/-- T `recovery_correct`: …and it completes *with the uncached result*: run by the scheduler from any
reachable state, everything the recovering builder read through an advertised name is the complete
content that name identifies (`hit_correct` applied to the schedule "earlier history, then builder `i`
alone"). -/
theorem recovery_correct (fs0 : FS) (P : Nat → Proc) (hist : List Nat) (hg : GoodFS fs0.get)
    (hP : FreshPool P) (i : Nat) (prog : Prog) (Γ : Ctx) (obs : List Obs) (m : Nat)
    (hi : (runSched hist ⟨fs0, P⟩).procs i = ⟨prog, Γ, obs, m⟩) :
    let s := runSched hist ⟨fs0, P⟩
    ∀ k c b, (Name.adv k, c, b) ∈ (exec s.fs Γ obs prog).2.2.1 → c = k ∧ b = true := by
  intro s k c b hm
  obtain ⟨n, m', _, h2⟩ := exec_runSched i prog s.fs s.procs Γ obs m hi
  have hinv := inv_runSched (List.replicate n i) ⟨s.fs, s.procs⟩
    (inv_runSched hist ⟨fs0, P⟩ (inv_init fs0 P hg hP))
  have := hinv.obsOk i (.adv k) c b k (by rw [h2]; exact hm) rfl
  exact this

/-! ### offline -/

/-- T `offline_safe`: whatever entry `fetchOffline` selects (any candidate list, any mtimes, any
reachable directory), the offline index read either fails or yields the *complete* content of that
entry; when the entry is an advertised name, it is the revision that name identifies. -/
theorem offline_safe (fs : FS) (hg : GoodFS fs.get) (cands : List Name) (obs : List Obs)
    (fs' : FS) (obs' : List Obs) (h : stepOp fs obs (.readNewest cands) = some (fs', obs')) :
    ∃ n c, n ∈ cands ∧ fs.resolve n = some (c, true) ∧ obs' = obs ++ [(n, c, true)] ∧ fs' = fs ∧
      (∀ k, n = .adv k → c = k) := by
  simp only [stepOp] at h
  cases hnew : fs.newest cands with
  | none => rw [hnew] at h; cases h
  | some n =>
    rw [hnew] at h
    dsimp only at h
    cases hres : fs.resolve n with
    | none => rw [hres] at h; cases h
    | some cb =>
      obtain ⟨c, b⟩ := cb
      rw [hres] at h
      dsimp only at h
      cases b with
      | false => simp at h
      | true =>
        simp only [Bool.not_true, Bool.false_eq_true, ↓reduceIte, Option.some.injEq, Prod.mk.injEq] at h
        refine ⟨n, c, newest_mem fs cands n hnew, hres, h.2.symm, h.1.symm, ?_⟩
        intro k hn; subst hn
        exact (good_resolve hg (by rw [← resolve_eq]; exact hres)).1

/-- the situation DESIGN.md names: revision 7 is cached and advertised, a later build for revision 8
was killed mid-body; `fetchOffline` selects the newer, partial `*.tmp` and the offline build fails
(an error, not wrong content) although a complete older revision is in the cache. -/
def partialTmpFS : FS :=
  (((FS.empty.set (.tmp 0) (some (.file 7 true))).set (.adv 7) (some (.link (.tmp 0)))).set
    (.tmp 1) (some (.file 8 false)))

theorem offline_partial_tmp_is_error :
    partialTmpFS.newest [.adv 7, .tmp 0, .tmp 1] = some (.tmp 1) ∧
    (exec partialTmpFS (fun _ => .unborn) [] (indexOffline [.adv 7, .tmp 0, .tmp 1])).2.2.2 = false ∧
    (exec partialTmpFS (fun _ => .unborn) [] (indexOffline [.adv 7, .tmp 0])).2.2 = ([(.adv 7, 7, true)], true) := by
  decide

/-! ### request coalescing -/

/-- T `coalescing_transparent`: `flightCache.Do`, the ETag table of `Cache` and `apkCache`'s
`sync.Once` table are memo tables (`store` = "successful results only" for flightCache / ETag table,
"everything" for apkCache).  For every function `f` from cache key to result, every store policy,
every earlier history and every interleaving of concurrent callers, a caller that finishes obtains
what calling `f` directly would give (C08's `schedule_independent`). -/
theorem coalescing_transparent {K V R : Type} [DecidableEq K] (f : K → V) (store : K → Bool)
    (sched : List Nat) (hist ps : List (Memo.Prog K V R)) (i : Nat) (p q : Memo.Prog K V R) (r : R)
    (hp : ps[i]? = some p)
    (hq : (Memo.runSched f store sched (C08.runAll f store hist Memo.Table.empty) ps).2[i]? = some q)
    (hdone : q.done = some r) : r = p.eval f := by
  have h := C08.schedule_independent f store sched hist ps i p q r hp hq hdone
  rw [h, (C08.run_transparent f store p _ (C08.inv_empty f)).1]

/-! ### ties: the call skeletons of the modelled Go functions, regenerated from /repo on every run

Each list is the source-order sequence of durable calls of one function (`Point:x` is a
`verifhook.Point("x …")` marker).  The model's programs mirror exactly these orders:
`advertise` = Stat / Remove | Symlink; `indexOnline` = (get: Stat) MkdirAll, CreateTemp, mark 0, copy,
mark 1, advertise, mark 2, Open; `pkgMiss` = MkdirTemp, mark 0, Next/Create …, `cachePackage`'s
advertises in the order ctl, (sig), dat, tar with marks 5–8; `pkgData` = Open tar | Open gz, mark 9,
CreateTemp, mark 10, copy, close, Rename, mark 11, Open (the `os.Remove`s are on error paths). -/

theorem tie_advertise : Generated.cache_advertiseCalls = ["os.Stat", "os.Remove", "os.Symlink"] := rfl

theorem tie_retrieve : Generated.cache_retrieveCalls =
    ["os.MkdirAll", "os.CreateTemp", "Point:index.tmp", "tmp.Close", "io.Copy", "Point:index.body",
     "paths.AdvertiseCachedFile", "Point:index.adv"] := rfl

theorem tie_get : Generated.cache_getCalls =
    ["cacheFileFromEtag", "os.Stat", "t.retrieveAndSaveFile", "etagFromResponse", "cacheFileFromEtag"] := rfl

theorem tie_fetchAndCache : Generated.cache_fetchAndCacheCalls = ["etagFromResponse", "os.Open"] := rfl

theorem tie_fetchOffline : Generated.cache_fetchOfflineCalls = ["os.ReadDir", "os.Open"] ∧
    Generated.cache_offlineNewestCond = "fi.ModTime().After(newest.ModTime())" := ⟨rfl, rfl⟩

theorem tie_cachePackage : Generated.cache_cachePackageCalls =
    ["Point:pkg.begin", "paths.AdvertiseCachedFile", "Point:pkg.ctl", "paths.AdvertiseCachedFile",
     "Point:pkg.sig", "paths.AdvertiseCachedFile", "Point:pkg.dat", "paths.AdvertiseCachedFile",
     "Point:pkg.tar", "exp.PackageData"] := rfl

theorem tie_cachedPackage : Generated.cache_cachedPackageCalls =
    ["os.Stat", "exp.ControlData", "os.Stat", "os.ReadFile", "os.Open", "a.datahash", "os.Stat",
     "exp.PackageData"] := rfl

theorem tie_expandPackage : Generated.cache_expandPackageCalls =
    ["a.cachedPackage", "os.MkdirAll", "a.FetchPackage", "expandapk.ExpandApk", "a.cachePackage"] := rfl

theorem tie_packageData : Generated.cache_packageDataCalls =
    ["os.Open", "os.Open", "Point:regen.begin", "os.CreateTemp", "Point:regen.created", "io.CopyBuffer",
     "uf.Close", "os.Remove", "uf.Close", "os.Remove", "os.Rename", "os.Remove", "Point:regen.done",
     "os.Open"] := rfl

theorem tie_expandApk : Generated.cache_expandApkCalls =
    ["os.MkdirTemp", "Point:expand.dir", "sw.Next", "io.Copy", "os.Create", "Point:expand.tar",
     "checkSums", "io.Copy", "bw.Flush", "tarfile.Close", "sw.CloseFile", "Point:expand.done",
     "os.Stat", "expanded.ControlData", "expanded.PackageData"] := rfl

theorem tie_next : Generated.cache_nextCalls =
    ["w.CloseFile", "os.Open", "os.Create", "Point:expand.stream"] := rfl

theorem tie_temp_patterns : Generated.cache_indexTempPattern = "*.tmp" ∧
    Generated.cache_expandDirPattern = "expand-apk" := ⟨rfl, rfl⟩

end Apko.C19
