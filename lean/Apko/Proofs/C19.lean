/-
C19 — The package cache is transparent and survives crashes and concurrent writers.

Model: `Apko/Model/Cache.lean` (the same definitions the driver executes).  A state is a directory
(`Name ↦ file content complete? | link target`) and a pool `Nat → Proc` of builders — any number of
them; `runSched` runs an arbitrary schedule.  A crash is a builder that is never scheduled again, a
later build is a builder that is scheduled later, a repository update is the choice of the content
ids (`hk`, `gk`) the index builders are given.

Proved for ALL directories satisfying `GoodFS`, ALL pools of well-typed builders, ALL schedules:
* `inv_step`, `inv_runSched`        the advertise invariant is inductive over every step of every builder;
* `adv_invariant`                   in every reachable state every advertised name that resolves holds the
                                    complete content it names (full statement; closes after the fix F19a:
                                    `PackageData` now regenerates `.dat.tar` into a temp and renames it);
* `f19a_state`, `adv_invariant_fails_before_fix`, `f19a_silent`  the builder of the tree *before* the fix
                                    (`pkgBuilderOld`: `os.Create` under the final name) violates the same
                                    statement: builder 0 stops between advertising `.dat.tar.gz` and
                                    `.dat.tar` (crash, or merely slower), builder 1 takes the hit path and
                                    creates `.dat.tar` under its final name; a third builder then *uses*
                                    the partial file and succeeds.  Witness replayed on the Go code:
                                    corpus/cache/F19a.json;
* `hit_correct`                     whatever any builder reads through an advertised name is the
                                    complete content named (what a fetch would have produced);
* `adv_present_persist`, `resolves_stable`  advertised entries are never removed (only ever replaced by
                                    the same complete content);
* `adv_present_resolves`            every advertised entry that merely EXISTS resolves (no dangling link: an existing
                                    entry is never repaired by `AdvertiseCachedFile`); `wt_pkgBuilderRejected`: the
                                    builder that fetches an apk other than the listed one (rebuilt package, stale
                                    index), is rejected by `verifyExpanded` and removes its temps is well-typed, so
                                    all invariants cover it (`rejected_leaves_nothing`); `cache_before_verify_dangles`:
                                    with `cachePackage` before `verifyExpanded` the rejected sections stay advertised
                                    as dangling links and the builder for the next revision fails for ever (the order
                                    is regenerated as `tie_expandPackage`);
* `sinv_step`, `dep_invariant`      ordering dependencies between entries (`Dep k d`: `adv k` is never visible
                                    without `adv d`; for a signed apk: data section → signature section) are an
                                    inductive invariant: every builder that is `safe` (advertises an entry only
                                    after the entries it depends on — `safe_cacheTail`: control, signature, data,
                                    tar, the order regenerated as `tie_cachePackage_order`) keeps `DepOk`;
* `hit_has_signature`               in every reachable state a cache hit (control and data resolve) of a signed
                                    package has its signature entry, with the complete signature content;
* `hit_sections_correct`, `hit_size_signed_correct`  `hit_correct` for the whole package: the sections a hit
                                    hands to the build (signature, control, data), hence `Signed` and the size
                                    recorded in the installed db, are those of the fetched apk;
* `no_unsigned_use`                 under every schedule no builder ever uses a signed package as an unsigned one
                                    (`safe_pkgBuilder`: the reader probes control, data, *then* signature);
* `hit_has_signature_fails_sig_last`, `sig_last_unsigned_use`, `hit_has_signature_fails_dat_sig`  with the
                                    signature advertised after the data section (control, data, tar, signature /
                                    control, data, signature, tar) a builder killed (or slower) in the window leaves
                                    a hit without signature, and the next builder completes having used the
                                    package as an unsigned one;
* `f19c_race`, `fixed_f19c_schedule`  the tree before the fix F19c probed in the writer's order (control,
                                    signature, data): with the directory invariant intact a concurrent builder
                                    still used the package as unsigned.  Witness replayed on the Go code (a real
                                    build paused at marker `hit.probe`): corpus/cache/F19c.json;
* `recovery_live_index`, `recovery_live_pkg`, `recovery_correct`  from any good directory (any crash
                                    state) a builder with fresh temp names completes, and what it read through
                                    advertised names is the complete, correctly named content
                                    (`exec_runSched`: a builder alone is a schedule of the same scheduler;
                                    `runPrefix_runSched`: so are the crash prefixes the driver executes);
* `offline_safe`, `offline_partial_tmp_is_error`  offline: error or the complete content of an entry;
* `coalescing_transparent`          flightCache / sync.Once tables are memo tables (C08's lemma).

The glue around the ETag-addressed entries (`Apko/Model/CacheGlue.lean`, lemmas in `Lemmas/CacheGlue.lean`): which entry
answers a request — HEAD memo of the `*apk.Cache` value, entry look-up, download, offline look-up — over EVERY legal
history of repository updates, requests through any number of cache objects (with or without a memo), cut
connections, offline requests and process exits, for EVERY configuration that keys the memo injectively and returns
the copy error:
* `glue_entries_authentic`          the transparency invariant: every advertised etag entry holds the COMPLETE body
                                    served under that ETag for a URL of its directory, every remembered HEAD answer is
                                    an ETag served for the URL it is remembered for;
* `glue_answer_authentic`           a request through the cache returns a complete body served under THAT url, or an
                                    error (never another URL's body, never a short one);
* `glue_build_transparent`, `glue_default_transparent`  a build through a cache object whose memo is current (made for
                                    the build) or that has no memo (`options.Default.SharedCache`) is answered exactly
                                    like the cache-less build, after any history;
* `glue_cut_advertises_nothing`     a cut connection advertises nothing;
* `offline_authentic_partial`       offline: error or a complete body once served under the requested URL — for URLs
                                    with an entry directory of their own; the full statement `offline_authentic` is
                                    REFUTED for keys sharing a remote directory (`offline_shared_directory_confuses_keys`)
                                    and so is the online statement under the per-URL server assumption
                                    (`same_etag_collision`): finding F19d, replayed by corpus/cache/F19d-*.json;
* `shared_memo_is_stale`, `memo_keyed_by_directory_confuses_urls`, `lost_copy_error_poisons`,
  `offline_served_partial_tmp_before_fix`  the same model with one choice changed (a memo-bearing process-wide
                                    default cache; the memo keyed by the entry directory; the copy error lost; F19e
                                    before the fix) breaks the statements — the ties `tie_new_cache_sites`,
                                    `tie_head_memo_key`, `tie_copy_error_kept`, `tie_offline_skips_tmp` pin the code to
                                    the good choices;
* `offline_uses_every_remote_repository`, `offline_complete`  several repositories (`GetRepositoryIndexes`): an offline
                                    build that gets its indexes got, for EVERY configured remote repository, the complete
                                    body of an advertised entry of that repository's entry directory, once served under
                                    its index URL — none is dropped (`OfflineComplete`); local repositories are skipped
                                    as before (`offline_local_missing_skipped`); the repair changes nothing where every
                                    repository was cached once (`offline_rules_agree_when_cached`); the pinned condition
                                    `errors.Is(err, fs.ErrNotExist)` is REFUTED (`offline_dropped_never_cached_repository_before_fix`,
                                    `never_cached_repository_witness`: finding F19f, fixed, replayed by
                                    corpus/cache/F19f.json); tie `tie_index_skip_rule`;
* `noetag_transparent`, `weak_validator_serves_stale`  a response without an ETag is never stored; a name that does not
                                    identify the body (Last-Modified) answers with a stale revision — tie
                                    `tie_etag_is_the_only_validator`.
-/
import Apko.Model.Cache
import Apko.Model.Memo
import Apko.Proofs.C08
import Apko.Proofs.Lemmas.CacheStep
import Apko.Proofs.Lemmas.CacheLive
import Apko.Proofs.Lemmas.CacheSig
import Apko.Proofs.Lemmas.CacheGlue
import Apko.Proofs.Lemmas.CacheRepos
import Apko.Proofs.Lemmas.CachePlain
import Apko.Generated.Cache
import Apko.Generated.CacheGlue

set_option linter.unusedSimpArgs false

namespace Apko.C19
open Apko.Cache

/-! ### the invariant over whole schedules -/

/-- a pool of builders that have not started: fresh typestate, nothing observed, well-typed program -/
def FreshPool (P : Nat → Proc) : Prop :=
  ∀ i, ∃ prog, P i = Proc.new prog ∧ wt (fun _ => .unborn) prog

theorem inv_init (fs : FS) (P : Nat → Proc) (hg : GoodFS fs.get) (hP : FreshPool P) :
    Inv fs.get P := by
  have hctx : ∀ i t, (P i).ctx t = .unborn := by
    intro i t; obtain ⟨prog, hp, _⟩ := hP i; rw [hp]; rfl
  have hown : ∀ i t, ¬ Owns (P i).ctx t := by
    intro i t ho
    rcases ho with ⟨c, hc⟩ | ⟨c, hc⟩ <;> (rw [hctx] at hc; cases hc)
  refine ⟨hg, ?_, ?_, ?_, ?_, ?_, ?_, ?_⟩
  · intro k t i _ ho; exact hown i t ho
  · intro i t c hc; rw [hctx] at hc; cases hc
  · intro i t c hc; rw [hctx] at hc; cases hc
  · intro i t ho; exact absurd ho (hown i t)
  · intro i j t _ ho; exact absurd ho (hown i t)
  · intro i; obtain ⟨prog, hp, hw⟩ := hP i; rw [hp]; exact hw
  · intro i n c b k hm; obtain ⟨prog, hp, _⟩ := hP i; rw [hp] at hm; cases hm

/-- T: the invariant holds along every schedule -/
theorem inv_runSched (sched : List Nat) (s : State) (h : Inv s.fs.get s.procs) :
    Inv (runSched sched s).fs.get (runSched sched s).procs := by
  induction sched generalizing s with
  | nil => exact h
  | cons i rest ih =>
    simp only [runSched]
    exact ih (s.step i) (inv_step s i h)

/-- the property of a reachable directory: an advertised name that resolves holds the complete
content identified by its name -/
def AdvOk (fs : FS) : Prop := ∀ k c b, fs.resolve (.adv k) = some (c, b) → c = k ∧ b = true

/-- T `adv_invariant` (full statement): any good starting directory (empty, or left behind by any
earlier history), any number of builders, any interleaving, any crash prefixes (a builder that is
never scheduled again), any revisions — every advertised name that resolves holds the complete
content identified by its name. -/
theorem adv_invariant (fs0 : FS) (P : Nat → Proc) (sched : List Nat)
    (hg : GoodFS fs0.get) (hP : FreshPool P) :
    AdvOk (runSched sched ⟨fs0, P⟩).fs := by
  have h := inv_runSched sched ⟨fs0, P⟩ (inv_init fs0 P hg hP)
  intro k c b hres
  rw [resolve_eq] at hres
  exact good_resolve h.good hres

/-- T `hit_correct`: in every reachable state, whatever any builder has read through an advertised
name (cache hits of `cachedPackage`, the index opened by `fetchAndCache`, the reads after
`cachePackage`) is the complete content that name identifies — the sections a fetch would produce. -/
theorem hit_correct (fs0 : FS) (P : Nat → Proc) (sched : List Nat)
    (hg : GoodFS fs0.get) (hP : FreshPool P)
    (i : Nat) (k c : Cid) (b : Bool)
    (hm : (Name.adv k, c, b) ∈ ((runSched sched ⟨fs0, P⟩).procs i).obs) : c = k ∧ b = true :=
  (inv_runSched sched ⟨fs0, P⟩ (inv_init fs0 P hg hP)).obsOk i _ c b k hm rfl

/-! ### the builders are well-typed (the theorems above apply to them) -/

theorem wt_chunks (Γ : Ctx) (n : Nat) (t : Name) (c : Cid) (rest : Prog)
    (ht : Γ t = .opened c) (hr : wt Γ rest) : wt Γ (chunks n t rest) := by
  induction n with
  | zero => exact hr
  | succ n ih => exact ⟨⟨c, ht⟩, ih⟩

theorem wt_advertise (Γ : Ctx) (t : Name) (k : Cid) (rest : Prog)
    (ht : Γ t = .closed k) (hr : wt (Γ.upd t .gone) rest) : wt Γ (advertise t k rest) :=
  ⟨⟨⟨k, ht⟩, hr⟩, ⟨⟨k, ht, rfl⟩, hr⟩⟩

theorem wt_pkgUse (Γ : Ctx) (k1 : Cid) : wt Γ (pkgUse k1) := ⟨trivial, trivial⟩

theorem wt_pkgData (Γ : Ctx) (t4 : Name) (k2 k3 : Cid) (n : Nat) (rest : Prog)
    (h4 : Γ t4 = .unborn) (ht : t4.isTmp = true) (hr : ∀ Γ', wt Γ' rest) :
    wt Γ (pkgData t4 k2 k3 n rest) := by
  refine ⟨⟨trivial, hr _⟩, trivial, trivial, ⟨h4, ht⟩, trivial, ?_⟩
  refine wt_chunks _ n _ k3 _ (by simp [ctxStep, Ctx.upd]) ?_
  refine ⟨⟨k3, by simp [ctxStep, Ctx.upd]⟩, ⟨k3, by simp [ctxStep, Ctx.upd], rfl⟩, trivial, trivial, hr _⟩

theorem wt_indexOnline (t : Name) (hk gk : Cid) (n : Nat) (ht : t.isTmp = true) :
    wt (fun _ => .unborn) (indexOnline t hk gk n) := by
  refine ⟨⟨trivial, trivial⟩, trivial, ⟨rfl, ht⟩, trivial, ?_⟩
  refine wt_chunks _ n t gk _ (by simp [ctxStep, Ctx.upd]) ?_
  refine ⟨⟨gk, by simp [ctxStep, Ctx.upd]⟩, trivial, ?_⟩
  refine wt_advertise _ t gk _ (by simp [ctxStep, Ctx.upd]) ⟨trivial, trivial, trivial⟩

theorem wt_indexOffline (cands : List Name) : wt (fun _ => .unborn) (indexOffline cands) :=
  ⟨trivial, trivial⟩

theorem wt_sigProbe (Γ : Ctx) (sg : Option (Name × Cid)) (rest : Prog) (hr : wt Γ rest) :
    wt Γ (sigProbe sg rest) := by
  cases sg with
  | none => exact hr
  | some p => exact ⟨⟨trivial, hr⟩, trivial, hr⟩

/-- the temp names of one package builder are distinct temp names -/
structure Temps (sg : Option (Name × Cid)) (t1 t2 t3 t4 : Name) : Prop where
  m1 : t1.isTmp = true
  m2 : t2.isTmp = true
  m3 : t3.isTmp = true
  m4 : t4.isTmp = true
  h12 : t1 ≠ t2
  h13 : t1 ≠ t3
  h23 : t2 ≠ t3
  h14 : t1 ≠ t4
  h24 : t2 ≠ t4
  h34 : t3 ≠ t4
  hs : SgAll sg (fun t0 _ => t0.isTmp = true ∧ t0 ≠ t1 ∧ t0 ≠ t2 ∧ t0 ≠ t3 ∧ t0 ≠ t4)

theorem wt_cacheTail (Γ : Ctx) (sg : Option (Name × Cid)) (t1 t2 t3 t4 : Name) (k1 k2 k3 : Cid) (n : Nat)
    (ht : Temps sg t1 t2 t3 t4)
    (c1 : Γ t1 = .closed k1) (c2 : Γ t2 = .closed k2) (c3 : Γ t3 = .closed k3) (c4 : Γ t4 = .unborn)
    (c0 : SgAll sg (fun t0 k0 => Γ t0 = .closed k0)) :
    wt Γ (cacheTail (pkgData t4 k2 k3 n) sg t1 t2 t3 k1 k2 k3) := by
  obtain ⟨m1, m2, m3, m4, h12, h13, h23, h14, h24, h34, hs⟩ := ht
  have h21 := h12.symm
  have h31 := h13.symm
  have h32 := h23.symm
  have h41 := h14.symm
  have h42 := h24.symm
  have h43 := h34.symm
  have hrest : ∀ Γ' : Ctx, Γ' t2 = .closed k2 → Γ' t3 = .closed k3 → Γ' t4 = .unborn →
      wt Γ' (advertise t2 k2 <| .op (.mark 7) <| advertise t3 k3 <| .op (.mark 8) <|
        pkgData t4 k2 k3 n (pkgUse k1)) := by
    intro Γ' d2 d3 d4
    refine wt_advertise _ t2 k2 _ d2 ⟨trivial, ?_⟩
    refine wt_advertise _ t3 k3 _ (by simp [ctxStep, Ctx.upd, h32, d3]) ⟨trivial, ?_⟩
    exact wt_pkgData _ t4 k2 k3 n _ (by simp [ctxStep, Ctx.upd, h42, h43, d4]) m4
      (fun Γ'' => wt_pkgUse Γ'' k1)
  unfold cacheTail
  refine ⟨trivial, wt_advertise _ t1 k1 _ c1 ⟨trivial, ?_⟩⟩
  cases sg with
  | none =>
    simp only [advSig]
    exact hrest _ (by simp [ctxStep, Ctx.upd, h21, c2]) (by simp [ctxStep, Ctx.upd, h31, c3])
      (by simp [ctxStep, Ctx.upd, h41, c4])
  | some p =>
    obtain ⟨t0, k0⟩ := p
    obtain ⟨m0, h01, h02, h03, h04⟩ := hs
    simp only [advSig]
    refine wt_advertise _ t0 k0 _ (by simp [ctxStep, Ctx.upd, h01]; exact c0) ⟨trivial, ?_⟩
    exact hrest _ (by simp [ctxStep, Ctx.upd, h21, h02.symm, c2])
      (by simp [ctxStep, Ctx.upd, h31, h03.symm, c3]) (by simp [ctxStep, Ctx.upd, h41, h04.symm, c4])

theorem wt_pkgExpand (sg : Option (Name × Cid)) (t1 t2 t3 t4 : Name) (k1 k2 k3 : Cid) (n : Nat) (tail : Prog)
    (ht : Temps sg t1 t2 t3 t4)
    (htail : ∀ Γ : Ctx, Γ t1 = .closed k1 → Γ t2 = .closed k2 → Γ t3 = .closed k3 → Γ t4 = .unborn →
      SgAll sg (fun t0 k0 => Γ t0 = .closed k0) → wt Γ tail) :
    wt (fun _ => .unborn) (pkgExpand sg t1 t2 t3 k1 k2 k3 n tail) := by
  obtain ⟨m1, m2, m3, m4, h12, h13, h23, h14, h24, h34, hs⟩ := ht
  have h21 := h12.symm
  have h31 := h13.symm
  have h32 := h23.symm
  have h41 := h14.symm
  have h42 := h24.symm
  have h43 := h34.symm
  unfold pkgExpand
  refine ⟨trivial, trivial, trivial, ?_⟩
  cases sg with
  | none =>
    simp only [expandHead]
    refine ⟨⟨rfl, m1⟩, trivial, ?_⟩
    refine wt_chunks _ n t1 k1 _ (by simp [ctxStep, Ctx.upd, h12, h13, h23, h21, h31, h32, h41, h42, h43]) ?_
    refine ⟨⟨k1, by simp [ctxStep, Ctx.upd, h12, h13, h23, h21, h31, h32, h41, h42, h43]⟩, trivial,
      ⟨by simp [ctxStep, Ctx.upd, h12, h13, h23, h21, h31, h32, h41, h42, h43], m2⟩, trivial,
      ⟨by simp [ctxStep, Ctx.upd, h12, h13, h23, h21, h31, h32, h41, h42, h43], m3⟩, trivial, ?_⟩
    refine wt_chunks _ n t2 k2 _ (by simp [ctxStep, Ctx.upd, h12, h13, h23, h21, h31, h32, h41, h42, h43]) ?_
    refine wt_chunks _ n t3 k3 _ (by simp [ctxStep, Ctx.upd, h12, h13, h23, h21, h31, h32, h41, h42, h43]) ?_
    refine ⟨⟨k3, by simp [ctxStep, Ctx.upd, h12, h13, h23, h21, h31, h32, h41, h42, h43]⟩,
      ⟨k2, by simp [ctxStep, Ctx.upd, h12, h13, h23, h21, h31, h32, h41, h42, h43]⟩, trivial, trivial, trivial, ?_⟩
    refine htail _ ?_ ?_ ?_ ?_ trivial
    · simp [ctxStep, Ctx.upd, h12, h13, h23, h21, h31, h32, h41, h42, h43]
    · simp [ctxStep, Ctx.upd, h12, h13, h23, h21, h31, h32, h41, h42, h43]
    · simp [ctxStep, Ctx.upd, h12, h13, h23, h21, h31, h32, h41, h42, h43]
    · simp [ctxStep, Ctx.upd, h12, h13, h23, h21, h31, h32, h41, h42, h43]
  | some p =>
    obtain ⟨t0, k0⟩ := p
    obtain ⟨m0, h01, h02, h03, h04⟩ := hs
    have h10 := h01.symm
    have h20 := h02.symm
    have h30 := h03.symm
    have h40 := h04.symm
    simp only [expandHead]
    refine ⟨⟨rfl, m0⟩, trivial, ?_⟩
    refine wt_chunks _ n t0 k0 _ (by simp [ctxStep, Ctx.upd, h12, h13, h23, h21, h31, h32, h41, h42, h43, h01, h02, h03, h04, h10, h20, h30, h40]) ?_
    refine ⟨⟨k0, by simp [ctxStep, Ctx.upd, h12, h13, h23, h21, h31, h32, h41, h42, h43, h01, h02, h03, h04, h10, h20, h30, h40]⟩, trivial, ⟨by simp [ctxStep, Ctx.upd, h12, h13, h23, h21, h31, h32, h41, h42, h43, h01, h02, h03, h04, h10, h20, h30, h40], m1⟩, trivial, ?_⟩
    refine wt_chunks _ n t1 k1 _ (by simp [ctxStep, Ctx.upd, h12, h13, h23, h21, h31, h32, h41, h42, h43, h01, h02, h03, h04, h10, h20, h30, h40]) ?_
    refine ⟨⟨k1, by simp [ctxStep, Ctx.upd, h12, h13, h23, h21, h31, h32, h41, h42, h43, h01, h02, h03, h04, h10, h20, h30, h40]⟩,
      ⟨by simp [ctxStep, Ctx.upd, h12, h13, h23, h21, h31, h32, h41, h42, h43, h01, h02, h03, h04, h10, h20, h30, h40], m2⟩, trivial,
      ⟨by simp [ctxStep, Ctx.upd, h12, h13, h23, h21, h31, h32, h41, h42, h43, h01, h02, h03, h04, h10, h20, h30, h40], m3⟩, trivial, ?_⟩
    refine wt_chunks _ n t2 k2 _ (by simp [ctxStep, Ctx.upd, h12, h13, h23, h21, h31, h32, h41, h42, h43, h01, h02, h03, h04, h10, h20, h30, h40]) ?_
    refine wt_chunks _ n t3 k3 _ (by simp [ctxStep, Ctx.upd, h12, h13, h23, h21, h31, h32, h41, h42, h43, h01, h02, h03, h04, h10, h20, h30, h40]) ?_
    refine ⟨⟨k3, by simp [ctxStep, Ctx.upd, h12, h13, h23, h21, h31, h32, h41, h42, h43, h01, h02, h03, h04, h10, h20, h30, h40]⟩,
      ⟨k2, by simp [ctxStep, Ctx.upd, h12, h13, h23, h21, h31, h32, h41, h42, h43, h01, h02, h03, h04, h10, h20, h30, h40]⟩, trivial, trivial, trivial, ?_⟩
    refine htail _ ?_ ?_ ?_ ?_ ?_
    · simp [ctxStep, Ctx.upd, h12, h13, h23, h21, h31, h32, h41, h42, h43, h01, h02, h03, h04, h10, h20, h30, h40]
    · simp [ctxStep, Ctx.upd, h12, h13, h23, h21, h31, h32, h41, h42, h43, h01, h02, h03, h04, h10, h20, h30, h40]
    · simp [ctxStep, Ctx.upd, h12, h13, h23, h21, h31, h32, h41, h42, h43, h01, h02, h03, h04, h10, h20, h30, h40]
    · simp [ctxStep, Ctx.upd, h12, h13, h23, h21, h31, h32, h41, h42, h43, h01, h02, h03, h04, h10, h20, h30, h40]
    · show _ = _
      simp [ctxStep, Ctx.upd, h12, h13, h23, h21, h31, h32, h41, h42, h43, h01, h02, h03, h04, h10, h20, h30, h40]

theorem wt_pkgMiss (sg : Option (Name × Cid)) (t1 t2 t3 t4 : Name) (k1 k2 k3 : Cid) (n : Nat)
    (ht : Temps sg t1 t2 t3 t4) :
    wt (fun _ => .unborn) (pkgMiss sg t1 t2 t3 t4 k1 k2 k3 n) := by
  unfold pkgMiss pkgMissWith
  exact wt_pkgExpand sg t1 t2 t3 t4 k1 k2 k3 n _ ht
    (fun Γ c1 c2 c3 c4 c0 => wt_cacheTail Γ sg t1 t2 t3 t4 k1 k2 k3 n ht c1 c2 c3 c4 c0)

theorem wt_pkgBuilder (sg : Option (Name × Cid)) (t1 t2 t3 t4 : Name) (k1 k2 k3 : Cid) (n : Nat)
    (ht : Temps sg t1 t2 t3 t4) :
    wt (fun _ => .unborn) (pkgBuilder sg t1 t2 t3 t4 k1 k2 k3 n) :=
  ⟨⟨trivial, ⟨trivial, wt_sigProbe _ sg _ (wt_pkgData _ t4 k2 k3 n _ rfl ht.m4 (fun Γ' => wt_pkgUse Γ' k1))⟩,
      wt_pkgMiss sg t1 t2 t3 t4 k1 k2 k3 n ht⟩,
    wt_pkgMiss sg t1 t2 t3 t4 k1 k2 k3 n ht⟩

theorem wt_pkgOffline (sg : Option (Name × Cid)) (t4 : Name) (k1 k2 k3 : Cid) (n : Nat) (h4 : t4.isTmp = true) :
    wt (fun _ => .unborn) (pkgOffline sg t4 k1 k2 k3 n) :=
  ⟨⟨trivial, ⟨trivial, wt_sigProbe _ sg _ (wt_pkgData _ t4 k2 k3 n _ rfl h4 (fun Γ' => wt_pkgUse Γ' k1))⟩,
    trivial⟩, trivial⟩

theorem wt_cleanupTail (Γ : Ctx) (sg : Option (Name × Cid)) (t1 t2 t3 : Name) (k1 k2 k3 : Cid)
    (c1 : Γ t1 = .closed k1) (c2 : Γ t2 = .closed k2) (c3 : Γ t3 = .closed k3)
    (c0 : SgAll sg (fun t0 k0 => Γ t0 = .closed k0))
    (h12 : t1 ≠ t2) (h13 : t1 ≠ t3) (h23 : t2 ≠ t3)
    (hs : SgAll sg (fun t0 _ => t0 ≠ t1 ∧ t0 ≠ t2 ∧ t0 ≠ t3)) :
    wt Γ (cleanupTail sg t1 t2 t3) := by
  have h21 := h12.symm
  have h31 := h13.symm
  have h32 := h23.symm
  cases sg with
  | none =>
    simp only [cleanupTail]
    exact ⟨⟨k1, c1⟩, ⟨k2, by simp [ctxStep, Ctx.upd, h21, c2]⟩,
      ⟨k3, by simp [ctxStep, Ctx.upd, h31, h32, c3]⟩, trivial⟩
  | some p =>
    obtain ⟨t0, k0⟩ := p
    obtain ⟨h01, h02, h03⟩ := hs
    simp only [cleanupTail]
    exact ⟨⟨k0, c0⟩, ⟨k1, by simp [ctxStep, Ctx.upd, h01.symm, c1]⟩,
      ⟨k2, by simp [ctxStep, Ctx.upd, h21, h02.symm, c2]⟩,
      ⟨k3, by simp [ctxStep, Ctx.upd, h31, h32, h03.symm, c3]⟩, trivial⟩

/-- the builder that fetches an apk other than the listed one (and rejects it) is well-typed: it removes
only its own, unadvertised temps -/
theorem wt_pkgBuilderRejected (sgL : Option (Name × Cid)) (t4 : Name) (k1 k2 k3 : Cid)
    (sgS : Option (Name × Cid)) (t1 t2 t3 : Name) (s1 s2 s3 : Cid) (n : Nat) (ht : Temps sgS t1 t2 t3 t4) :
    wt (fun _ => .unborn) (pkgBuilderRejected sgL t4 k1 k2 k3 sgS t1 t2 t3 s1 s2 s3 n) := by
  have hrej : wt (fun _ => .unborn) (pkgRejected sgS t1 t2 t3 s1 s2 s3 n) := by
    unfold pkgRejected
    refine wt_pkgExpand sgS t1 t2 t3 t4 s1 s2 s3 n _ ht ?_
    intro Γ c1 c2 c3 _ c0
    refine wt_cleanupTail Γ sgS t1 t2 t3 s1 s2 s3 c1 c2 c3 c0 ht.h12 ht.h13 ht.h23 ?_
    have := ht.hs
    cases sgS with
    | none => trivial
    | some p => exact ⟨this.2.1, this.2.2.1, this.2.2.2.1⟩
  exact ⟨⟨trivial, ⟨trivial, wt_sigProbe _ sgL _ (wt_pkgData _ t4 k2 k3 n _ rfl ht.m4 (fun Γ' => wt_pkgUse Γ' k1))⟩,
    hrej⟩, hrej⟩

/-! ### F19a: the regeneration write under the final name (the tree before the fix) breaks the invariant -/

/-- three builders of the tree before the fix, for the same package (control 1, data 2, tar 3) -/
def f19aPool : Nat → Proc
  | 0 => Proc.new (pkgBuilderOld (.tmp 1) (.tmp 2) (.tmp 3) 1 2 3 1)
  | 1 => Proc.new (pkgBuilderOld (.tmp 4) (.tmp 5) (.tmp 6) 1 2 3 1)
  | 2 => Proc.new (pkgBuilderOld (.tmp 7) (.tmp 8) (.tmp 9) 1 2 3 1)
  | _ => Proc.new (.halt true)

/-- the same three builders on the repaired tree -/
def fixedPool : Nat → Proc
  | 0 => Proc.new (pkgBuilder none (.tmp 1) (.tmp 2) (.tmp 3) (.tmp 10) 1 2 3 1)
  | 1 => Proc.new (pkgBuilder none (.tmp 4) (.tmp 5) (.tmp 6) (.tmp 11) 1 2 3 1)
  | 2 => Proc.new (pkgBuilder none (.tmp 7) (.tmp 8) (.tmp 9) (.tmp 12) 1 2 3 1)
  | _ => Proc.new (.halt true)

/-- builder 0 runs until it has advertised `.ctl.tar.gz` and `.dat.tar.gz` (26 steps) and stops
(killed, or just slow); builder 1 takes the hit path and creates `.dat.tar` (6 steps) -/
def f19aSched : List Nat := List.replicate 26 0 ++ List.replicate 7 1

theorem good_empty : GoodFS FS.empty.get :=
  ⟨fun _ _ _ h => (by cases h), fun _ _ h => (by cases h)⟩

theorem f19a_state :
    (runSched f19aSched ⟨FS.empty, f19aPool⟩).fs.resolve (.adv 3) = some (3, false) := by decide

/-- T: with `PackageData` as it was before the fix the statement of `adv_invariant` is false -/
theorem adv_invariant_fails_before_fix : ¬ AdvOk (runSched f19aSched ⟨FS.empty, f19aPool⟩).fs := by
  intro h
  exact absurd (h 3 3 false f19a_state).2 (by decide)

/-- …and the damage is not only transient: if builder 1 is killed there too (the second crash), a
third builder takes the hit path, reads the partial `.dat.tar` through its final name (a plain tar
has no integrity trailer) and finishes *successfully* having used incomplete content. -/
theorem f19a_silent :
    let s := runSched (f19aSched ++ List.replicate 9 2) ⟨FS.empty, f19aPool⟩
    (s.procs 2).prog = .halt true ∧ (Name.adv 3, 3, false) ∈ (s.procs 2).obs := by decide

theorem temps_lit (sg : Option (Name × Cid)) (t1 t2 t3 t4 : Name)
    (h : (t1.isTmp && t2.isTmp && t3.isTmp && t4.isTmp && decide (t1 ≠ t2) && decide (t1 ≠ t3) &&
      decide (t2 ≠ t3) && decide (t1 ≠ t4) && decide (t2 ≠ t4) && decide (t3 ≠ t4) &&
      (match sg with
       | none => true
       | some (t0, _) => t0.isTmp && decide (t0 ≠ t1) && decide (t0 ≠ t2) && decide (t0 ≠ t3) &&
          decide (t0 ≠ t4))) = true) : Temps sg t1 t2 t3 t4 := by
  simp only [Bool.and_eq_true, decide_eq_true_eq] at h
  obtain ⟨⟨⟨⟨⟨⟨⟨⟨⟨⟨m1, m2⟩, m3⟩, m4⟩, h12⟩, h13⟩, h23⟩, h14⟩, h24⟩, h34⟩, hs⟩ := h
  refine ⟨m1, m2, m3, m4, h12, h13, h23, h14, h24, h34, ?_⟩
  cases sg with
  | none => trivial
  | some p =>
    obtain ⟨t0, k0⟩ := p
    simp only [Bool.and_eq_true, decide_eq_true_eq] at hs
    exact ⟨hs.1.1.1.1, hs.1.1.1.2, hs.1.1.2, hs.1.2, hs.2⟩

theorem fixedPool_fresh : FreshPool fixedPool := by
  intro i
  match i with
  | 0 => exact ⟨_, rfl, wt_pkgBuilder _ _ _ _ _ 1 2 3 1 (temps_lit _ _ _ _ _ (by decide))⟩
  | 1 => exact ⟨_, rfl, wt_pkgBuilder _ _ _ _ _ 1 2 3 1 (temps_lit _ _ _ _ _ (by decide))⟩
  | 2 => exact ⟨_, rfl, wt_pkgBuilder _ _ _ _ _ 1 2 3 1 (temps_lit _ _ _ _ _ (by decide))⟩
  | _ + 3 => exact ⟨_, rfl, trivial⟩

/-- the hypotheses of `adv_invariant` are satisfiable by the real builders, and on the repaired tree
the F19a schedule (continued: builder 1 killed after creating its temp, builder 2 recovering) ends
with builder 2 having read the complete tar -/
theorem fixed_f19a_schedule :
    let s := runSched (List.replicate 26 0 ++ List.replicate 8 1 ++ List.replicate 15 2) ⟨FS.empty, fixedPool⟩
    (s.procs 2).prog = .halt true ∧ (Name.adv 3, 3, true) ∈ (s.procs 2).obs ∧
    s.fs.get (.adv 3) = some (.file 3 true) := by decide

/-! ### advertised entries persist -/

/-- T: once an advertised name is present it resolves for ever, to the complete content it names —
under every schedule of every pool (no `Remove` ever touches it, a `Rename` onto it carries the same
content). -/
theorem resolves_stable (sched : List Nat) (s : State) (h : Inv s.fs.get s.procs)
    (k : Cid) (hk : s.fs.get (.adv k) ≠ none) :
    (runSched sched s).fs.resolve (.adv k) = some (k, true) := by
  induction sched generalizing s with
  | nil => rw [resolve_eq]; exact present_resolves h.good hk
  | cons i rest ih =>
    simp only [runSched]
    exact ih (s.step i) (inv_step s i h) (adv_present_persist s i h k hk)

/-- T `adv_present_resolves`: in every reachable state every advertised entry that EXISTS resolves — no
dangling link, no link to anything but the complete content it names (what `adv_invariant` says about
entries that resolve, for entries that are merely present: `AdvertiseCachedFile` never repairs an
existing entry, so a dangling one would make every later build fail). -/
theorem adv_present_resolves (fs0 : FS) (P : Nat → Proc) (sched : List Nat)
    (hg : GoodFS fs0.get) (hP : FreshPool P) (k : Cid)
    (hk : (runSched sched ⟨fs0, P⟩).fs.get (.adv k) ≠ none) :
    (runSched sched ⟨fs0, P⟩).fs.resolve (.adv k) = some (k, true) := by
  have h := inv_runSched sched ⟨fs0, P⟩ (inv_init fs0 P hg hP)
  rw [resolve_eq]
  exact present_resolves h.good hk

/-- a repository that serves apk (control 5, data 6, tar 7) where the index lists (control 1, …): the
builder of the tree expands, rejects, cleans up — nothing is advertised, nothing is left -/
theorem rejected_leaves_nothing :
    let r := exec FS.empty (fun _ => .unborn) []
      (pkgBuilderRejected none (.tmp 10) 1 2 3 none (.tmp 1) (.tmp 2) (.tmp 3) 5 6 7 1)
    r.2.2.2 = false ∧ r.1.get (.adv 5) = none ∧ r.1.get (.adv 6) = none ∧ r.1.get (.adv 7) = none ∧
    r.1.get (.tmp 1) = none ∧ r.1.get (.tmp 2) = none ∧ r.1.get (.tmp 3) = none := by decide

/-- T: with `cachePackage` called BEFORE `verifyExpanded` (and `exp.Close()` on rejection) the rejected
sections stay advertised under their own hashes as dangling links — the statement of
`adv_present_resolves` is false — and once the index lists exactly that apk (control 5, data 6, tar 7)
the builder of the tree fails on it, for ever: `Stat` does not see the entry (miss), `Symlink` finds it
(EEXIST, ignored), the open fails. -/
theorem cache_before_verify_dangles :
    let r := exec FS.empty (fun _ => .unborn) [] (pkgRejectedLate none (.tmp 1) (.tmp 2) (.tmp 3) 5 6 7 1)
    r.1.get (.adv 5) = some (.link (.tmp 1)) ∧ r.1.get (.tmp 1) = none ∧ r.1.resolve (.adv 5) = none ∧
    (exec r.1 (fun _ => .unborn) []
      (pkgBuilder none (.tmp 11) (.tmp 12) (.tmp 13) (.tmp 14) 5 6 7 1)).2.2.2 = false := by decide

/-! ### the signature section of a signed package

`cachePackage` advertises control, signature, data, tar — in this order; `cachedPackage` reports a hit when
control and data resolve and takes `Signed` / the signature's size from whether `<ctl>.sig.tar.gz`
resolves.  So the entry of the data section must never be visible without the signature's:
`Dep k2 k0` ("data `k2` depends on signature `k0`"). -/

theorem safe_chunks (Dep : Cid → Cid → Prop) (pres : Cid → Prop) (n : Nat) (t : Name) (rest : Prog)
    (hr : safe Dep pres rest) : safe Dep pres (chunks n t rest) := by
  induction n with
  | zero => exact hr
  | succ n ih => exact ⟨trivial, ih⟩

theorem safe_advertise (Dep : Cid → Cid → Prop) (pres : Cid → Prop) (t : Name) (k : Cid) (rest : Prog)
    (hd : ∀ d, Dep k d → pres d) (hr : safe Dep (learn Dep pres (.adv k)) rest) :
    safe Dep pres (advertise t k rest) :=
  ⟨⟨trivial, hr⟩, Or.inr ⟨fun k' hk d hkd => hd d (by cases hk; exact hkd), hr⟩⟩

/-- `PackageData` (incl. the regeneration's rename onto `.dat.tar`) and the build's reads -/
theorem safe_pkgData (Dep : Cid → Cid → Prop) (pres : Cid → Prop) (t4 : Name) (k1 k2 k3 : Cid) (n : Nat)
    (h3 : ∀ d, ¬ Dep k3 d) : safe Dep pres (pkgData t4 k2 k3 n (pkgUse k1)) := by
  refine ⟨⟨trivial, trivial, trivial⟩, Or.inr ⟨trivial, trivial, trivial, trivial, ?_⟩⟩
  refine safe_chunks Dep _ n t4 _ ⟨trivial, ?_, trivial, trivial, trivial, trivial⟩
  intro k hk d hd
  cases hk
  exact absurd hd (h3 d)

theorem safe_pkgExpand (Dep : Cid → Cid → Prop) (pres : Cid → Prop) (sg : Option (Name × Cid))
    (t1 t2 t3 : Name) (k1 k2 k3 : Cid) (n : Nat) (tail : Prog) (ht : safe Dep pres tail) :
    safe Dep pres (pkgExpand sg t1 t2 t3 k1 k2 k3 n tail) := by
  have hrest : safe Dep pres (.op (.create t2 k2) <| .op (.mark 2) <| .op (.create t3 k3) <| .op (.mark 3) <|
      chunks n t2 <| chunks n t3 <| .op (.finish t3) <| .op (.finish t2) <| .op (.mark 4) <|
      .op (.read t1 true) <| .op (.read t3 false) tail) := by
    refine ⟨trivial, trivial, trivial, trivial, ?_⟩
    refine safe_chunks Dep _ n t2 _ (safe_chunks Dep _ n t3 _ ?_)
    exact ⟨trivial, trivial, trivial, trivial, trivial, ht⟩
  unfold pkgExpand
  refine ⟨trivial, trivial, trivial, ?_⟩
  cases sg with
  | none =>
    simp only [expandHead]
    refine ⟨trivial, trivial, ?_⟩
    exact safe_chunks Dep _ n t1 _ ⟨trivial, trivial, hrest⟩
  | some p =>
    obtain ⟨t0, k0⟩ := p
    simp only [expandHead]
    refine ⟨trivial, trivial, ?_⟩
    refine safe_chunks Dep _ n t0 _ ⟨trivial, trivial, trivial, trivial, ?_⟩
    exact safe_chunks Dep _ n t1 _ ⟨trivial, hrest⟩

/-- the ordering discipline of one package: nothing depends on… and nothing but the data section
depends on anything; the data section depends on the signature section only (and on it, when there is one) -/
structure PkgDeps (Dep : Cid → Cid → Prop) (sg : Option (Name × Cid)) (k1 k2 k3 : Cid) : Prop where
  h1 : ∀ d, ¬ Dep k1 d
  h3 : ∀ d, ¬ Dep k3 d
  h0 : SgAll sg (fun _ k0 => ∀ d, ¬ Dep k0 d)
  h2 : ∀ d, Dep k2 d → ∃ t0, sg = some (t0, d)
  hd : SgAll sg (fun _ k0 => Dep k2 k0)

/-- `cachePackage` in the code's order (control, signature, data, tar) respects the dependencies -/
theorem safe_cacheTail (Dep : Cid → Cid → Prop) (pres : Cid → Prop) (sg : Option (Name × Cid))
    (t1 t2 t3 t4 : Name) (k1 k2 k3 : Cid) (n : Nat) (hp : PkgDeps Dep sg k1 k2 k3) :
    safe Dep pres (cacheTail (pkgData t4 k2 k3 n) sg t1 t2 t3 k1 k2 k3) := by
  unfold cacheTail
  refine ⟨trivial, safe_advertise Dep _ t1 k1 _ (fun d hd => absurd hd (hp.h1 d)) ⟨trivial, ?_⟩⟩
  have hrest : ∀ pres' : Cid → Prop, (∀ d, Dep k2 d → pres' d) →
      safe Dep pres' (advertise t2 k2 <| .op (.mark 7) <| advertise t3 k3 <| .op (.mark 8) <|
        pkgData t4 k2 k3 n (pkgUse k1)) := by
    intro pres' h2
    refine safe_advertise Dep _ t2 k2 _ h2 ⟨trivial, ?_⟩
    refine safe_advertise Dep _ t3 k3 _ (fun d hd => absurd hd (hp.h3 d)) ⟨trivial, ?_⟩
    exact safe_pkgData Dep _ t4 k1 k2 k3 n hp.h3
  cases sg with
  | none =>
    simp only [advSig]
    refine hrest _ ?_
    intro d hd
    obtain ⟨t0, h⟩ := hp.h2 d hd
    cases h
  | some p =>
    obtain ⟨t0, k0⟩ := p
    simp only [advSig]
    refine safe_advertise Dep _ t0 k0 _ (fun d hd => absurd hd (hp.h0 d)) ⟨trivial, ?_⟩
    refine hrest _ ?_
    intro d hd
    obtain ⟨t0', h⟩ := hp.h2 d hd
    cases h
    exact Or.inr (Or.inl rfl)

/-- the signature look-up of `cachedPackage` is safe where the signature entry is known to be present -/
theorem safe_sigProbe (Dep : Cid → Cid → Prop) (pres : Cid → Prop) (sg : Option (Name × Cid)) (rest : Prog)
    (h0 : SgAll sg (fun _ k0 => pres k0)) (hr : ∀ pres' : Cid → Prop, (∀ x, pres x → pres' x) → safe Dep pres' rest) :
    safe Dep pres (sigProbe sg rest) := by
  cases sg with
  | none => exact hr pres (fun _ h => h)
  | some p =>
    obtain ⟨t0, k0⟩ := p
    have hsup : ∀ x, pres x → learn Dep pres (.adv k0) x := learn_sup Dep pres (.adv k0)
    exact ⟨⟨trivial, hr (learn Dep pres (.adv k0)) hsup⟩, Or.inl ⟨k0, rfl, h0⟩⟩

/-- T: the package builder of the tree (hit path: control, data, *then* signature; miss path:
advertises in the order control, signature, data, tar) respects the dependencies from any knowledge -/
theorem safe_pkgBuilder (Dep : Cid → Cid → Prop) (pres : Cid → Prop) (sg : Option (Name × Cid))
    (t1 t2 t3 t4 : Name) (k1 k2 k3 : Cid) (n : Nat) (hp : PkgDeps Dep sg k1 k2 k3) :
    safe Dep pres (pkgBuilder sg t1 t2 t3 t4 k1 k2 k3 n) := by
  have hmiss : ∀ pres', safe Dep pres' (pkgMissWith (pkgData t4 k2 k3 n) sg t1 t2 t3 k1 k2 k3 n) :=
    fun pres' => safe_pkgExpand Dep pres' sg t1 t2 t3 k1 k2 k3 n _
      (safe_cacheTail Dep pres' sg t1 t2 t3 t4 k1 k2 k3 n hp)
  unfold pkgBuilder pkgBuilderWith
  refine ⟨⟨trivial, ⟨trivial, ?_⟩, Or.inr (hmiss _)⟩, Or.inr (hmiss _)⟩
  refine safe_sigProbe Dep _ sg _ ?_ (fun pres' _ => safe_pkgData Dep pres' t4 k1 k2 k3 n hp.h3)
  have := hp.hd
  cases sg with
  | none => trivial
  | some p => exact Or.inr (Or.inr this)

theorem safe_pkgOffline (Dep : Cid → Cid → Prop) (pres : Cid → Prop) (sg : Option (Name × Cid))
    (t4 : Name) (k1 k2 k3 : Cid) (n : Nat) (hp : PkgDeps Dep sg k1 k2 k3) :
    safe Dep pres (pkgOffline sg t4 k1 k2 k3 n) := by
  unfold pkgOffline
  refine ⟨⟨trivial, ⟨trivial, ?_⟩, Or.inr trivial⟩, Or.inr trivial⟩
  refine safe_sigProbe Dep _ sg _ ?_ (fun pres' _ => safe_pkgData Dep pres' t4 k1 k2 k3 n hp.h3)
  have := hp.hd
  cases sg with
  | none => trivial
  | some p => exact Or.inr (Or.inr this)

theorem safe_pkgBuilderRejected (Dep : Cid → Cid → Prop) (pres : Cid → Prop) (sgL : Option (Name × Cid))
    (t4 : Name) (k1 k2 k3 : Cid) (sgS : Option (Name × Cid)) (t1 t2 t3 : Name) (s1 s2 s3 : Cid) (n : Nat)
    (h3 : ∀ d, ¬ Dep k3 d) (hd : SgAll sgL (fun _ k0 => Dep k2 k0)) :
    safe Dep pres (pkgBuilderRejected sgL t4 k1 k2 k3 sgS t1 t2 t3 s1 s2 s3 n) := by
  have hrej : ∀ pres', safe Dep pres' (pkgRejected sgS t1 t2 t3 s1 s2 s3 n) := by
    intro pres'
    refine safe_pkgExpand Dep pres' sgS t1 t2 t3 s1 s2 s3 n _ ?_
    cases sgS with
    | none => exact ⟨trivial, trivial, trivial, trivial⟩
    | some p => exact ⟨trivial, trivial, trivial, trivial, trivial⟩
  unfold pkgBuilderRejected
  refine ⟨⟨trivial, ⟨trivial, ?_⟩, Or.inr (hrej _)⟩, Or.inr (hrej _)⟩
  refine safe_sigProbe Dep _ sgL _ ?_ (fun pres' _ => safe_pkgData Dep pres' t4 k1 k2 k3 n h3)
  cases sgL with
  | none => trivial
  | some p => exact Or.inr (Or.inr hd)

theorem safe_index (Dep : Cid → Cid → Prop) (pres : Cid → Prop) (t : Name) (hk gk : Cid) (n : Nat)
    (hg : ∀ d, ¬ Dep gk d) : safe Dep pres (indexOnline t hk gk n) := by
  refine ⟨⟨trivial, trivial⟩, Or.inr ⟨trivial, trivial, trivial, ?_⟩⟩
  refine safe_chunks Dep _ n t _ ⟨trivial, trivial, ?_⟩
  exact safe_advertise Dep _ t gk _ (fun d hd => absurd hd (hg d)) ⟨trivial, trivial, trivial⟩

/-- a pool of builders each of which respects the dependencies without knowing anything to be present -/
def SafePool (Dep : Cid → Cid → Prop) (P : Nat → Proc) : Prop := ∀ i, safe Dep (fun _ => False) (P i).prog

theorem sinv_init (Dep : Cid → Cid → Prop) (fs0 : FS) (P : Nat → Proc) (hg : GoodFS fs0.get)
    (hd : DepOk Dep fs0.get) (hP : FreshPool P) (hS : SafePool Dep P) : SInv Dep ⟨fs0, P⟩ :=
  ⟨inv_init fs0 P hg hP, hd, fun i => safe_mono Dep _ _ _ (fun _ h => h.elim) (hS i)⟩

/-- T `dep_invariant`: in every reachable state (any good starting directory that respects the
dependencies, any number of builders, any interleaving, any crash prefixes) no advertised entry is
visible without the entries it depends on. -/
theorem dep_invariant (Dep : Cid → Cid → Prop) (fs0 : FS) (P : Nat → Proc) (sched : List Nat)
    (hg : GoodFS fs0.get) (hd : DepOk Dep fs0.get) (hP : FreshPool P) (hS : SafePool Dep P) :
    DepOk Dep (runSched sched ⟨fs0, P⟩).fs.get :=
  (sinv_runSched Dep sched _ (sinv_init Dep fs0 P hg hd hP hS)).dep

/-- T `hit_has_signature`: in every reachable state, if the control and the data entry of a signed
package resolve — `cachedPackage` reports a hit — then its signature entry resolves too and holds the
complete signature content. -/
theorem hit_has_signature (Dep : Cid → Cid → Prop) (fs0 : FS) (P : Nat → Proc) (sched : List Nat)
    (hg : GoodFS fs0.get) (hd : DepOk Dep fs0.get) (hP : FreshPool P) (hS : SafePool Dep P)
    (k0 k1 k2 : Cid) (hdep : Dep k2 k0)
    (hit : (runSched sched ⟨fs0, P⟩).fs.stat (.adv k1) = true ∧ (runSched sched ⟨fs0, P⟩).fs.stat (.adv k2) = true) :
    (runSched sched ⟨fs0, P⟩).fs.resolve (.adv k0) = some (k0, true) := by
  have h := sinv_runSched Dep sched _ (sinv_init Dep fs0 P hg hd hP hS)
  rw [resolve_eq]
  exact present_resolves h.inv.good (h.dep k2 k0 hdep (present_of_resolved hit.2))

/-- T `hit_sections_correct` (`hit_correct` for the whole package): in every reachable state the
sections a cache hit hands to the build — signature (signed apk), control, data — are exactly the complete
sections `ExpandApk` produces from the fetched apk. -/
theorem hit_sections_correct (Dep : Cid → Cid → Prop) (fs0 : FS) (P : Nat → Proc) (sched : List Nat)
    (hg : GoodFS fs0.get) (hd : DepOk Dep fs0.get) (hP : FreshPool P) (hS : SafePool Dep P)
    (sg : Option Cid) (k1 k2 : Cid) (hdep : ∀ k0, sg = some k0 → Dep k2 k0) (l : List (Cid × Bool))
    (hit : hitSections (runSched sched ⟨fs0, P⟩).fs sg k1 k2 = some l) :
    l = fetchSections sg k1 k2 := by
  have h := sinv_runSched Dep sched _ (sinv_init Dep fs0 P hg hd hP hS)
  generalize (runSched sched ⟨fs0, P⟩) = s at h hit
  unfold hitSections at hit
  split at hit
  · next hc =>
    simp only [Bool.and_eq_true] at hc
    have r1 : s.fs.resolve (.adv k1) = some (k1, true) := by
      rw [resolve_eq]; exact present_resolves h.inv.good (present_of_resolved hc.1)
    have p2 := present_of_resolved (g := s.fs.get) hc.2
    have r2 : s.fs.resolve (.adv k2) = some (k2, true) := by
      rw [resolve_eq]; exact present_resolves h.inv.good p2
    cases sg with
    | none =>
      simp only [r1, r2, Option.some.injEq] at hit
      rw [← hit]; rfl
    | some k0 =>
      have r0 : s.fs.resolve (.adv k0) = some (k0, true) := by
        rw [resolve_eq]; exact present_resolves h.inv.good (h.dep k2 k0 (hdep k0 rfl) p2)
      simp only [r0, r1, r2, Option.some.injEq] at hit
      rw [← hit]; rfl
  · cases hit

/-- …hence `Signed` (is there a signature section) and the recorded size (the sum of the sections'
sizes — what ends up as `S:` in lib/apk/db/installed) of a hit are those of the fetched apk. -/
theorem hit_size_signed_correct (Dep : Cid → Cid → Prop) (fs0 : FS) (P : Nat → Proc) (sched : List Nat)
    (hg : GoodFS fs0.get) (hd : DepOk Dep fs0.get) (hP : FreshPool P) (hS : SafePool Dep P)
    (sg : Option Cid) (k1 k2 : Cid) (hdep : ∀ k0, sg = some k0 → Dep k2 k0) (l : List (Cid × Bool))
    (hit : hitSections (runSched sched ⟨fs0, P⟩).fs sg k1 k2 = some l) (size : Cid → Nat) :
    sectionsSize size l = sectionsSize size (fetchSections sg k1 k2) ∧
      (l.length = 3 ↔ sg.isSome = true) := by
  rw [hit_sections_correct Dep fs0 P sched hg hd hP hS sg k1 k2 hdep l hit]
  refine ⟨rfl, ?_⟩
  cases sg <;> simp [fetchSections]

/-- T `no_unsigned_use`: under every schedule no builder ever gets to the point where `cachedPackage`
goes on with a signed package as an unsigned one (whatever the builder reads through the signature's
name is then the complete signature: `hit_correct`). -/
theorem no_unsigned_use (Dep : Cid → Cid → Prop) (fs0 : FS) (P : Nat → Proc) (sched : List Nat)
    (hg : GoodFS fs0.get) (hd : DepOk Dep fs0.get) (hP : FreshPool P) (hS : SafePool Dep P) (i : Nat) :
    (runSched sched ⟨fs0, P⟩).atUnsigned i = false := by
  have h := (sinv_runSched Dep sched _ (sinv_init Dep fs0 P hg hd hP hS)).safe i
  unfold State.atUnsigned
  generalize ((runSched sched ⟨fs0, P⟩).procs i).prog = prog at h
  cases prog with
  | halt b => rfl
  | ifStat n y no => rfl
  | op o next =>
    cases o <;> first | rfl | exact h.1.elim

/-! #### any table of packages -/

/-- the content ids of one package: signature (signed apk), control, data, tar -/
structure PkgIds where
  sg : Option Cid
  k1 : Cid
  k2 : Cid
  k3 : Cid

/-- the dependencies of a whole repository: the data section of every signed package depends on its
signature section -/
def tableDep (tbl : List PkgIds) : Cid → Cid → Prop := fun k d => ∃ p, p ∈ tbl ∧ p.k2 = k ∧ p.sg = some d

/-- content ids play one role: a data section's id is not also some package's control / tar / signature
id, and a data section belongs to one signature (ids are assigned per section content) -/
def DistinctRoles (tbl : List PkgIds) : Prop :=
  ∀ p, p ∈ tbl → ∀ q, q ∈ tbl →
    q.k2 ≠ p.k1 ∧ q.k2 ≠ p.k3 ∧ (∀ k0, p.sg = some k0 → q.k2 ≠ k0) ∧ (q.k2 = p.k2 → q.sg = p.sg)

/-- T: for ANY table of packages with distinct roles, every package's builder respects the table's
dependencies — so `hit_has_signature`, `hit_sections_correct`, `no_unsigned_use` apply to pools of
builders for any number of signed and unsigned packages, any number of builders each. -/
theorem table_pkgDeps (tbl : List PkgIds) (hd : DistinctRoles tbl) (p : PkgIds) (hp : p ∈ tbl) (t0 : Name) :
    PkgDeps (tableDep tbl) (p.sg.map fun k0 => (t0, k0)) p.k1 p.k2 p.k3 := by
  refine ⟨?_, ?_, ?_, ?_, ?_⟩
  · rintro d ⟨q, hq, h2, _⟩; exact (hd p hp q hq).1 h2
  · rintro d ⟨q, hq, h2, _⟩; exact (hd p hp q hq).2.1 h2
  · cases hs : p.sg with
    | none => trivial
    | some k0 =>
      show ∀ d, ¬ tableDep tbl k0 d
      rintro d ⟨q, hq, h2, _⟩; exact (hd p hp q hq).2.2.1 k0 hs h2
  · rintro d ⟨q, hq, h2, hs⟩
    have := (hd p hp q hq).2.2.2 h2
    rw [← this, hs]; exact ⟨t0, rfl⟩
  · cases hs : p.sg with
    | none => trivial
    | some k0 => exact ⟨p, hp, rfl, hs⟩

theorem table_safe_builder (tbl : List PkgIds) (hd : DistinctRoles tbl) (p : PkgIds) (hp : p ∈ tbl)
    (pres : Cid → Prop) (t0 t1 t2 t3 t4 : Name) (n : Nat) :
    safe (tableDep tbl) pres (pkgBuilder (p.sg.map fun k0 => (t0, k0)) t1 t2 t3 t4 p.k1 p.k2 p.k3 n) :=
  safe_pkgBuilder _ _ _ _ _ _ _ _ _ _ n (table_pkgDeps tbl hd p hp t0)

/-! #### witnesses: the hypotheses are satisfiable, and both ways of getting the order wrong fail -/

/-- data section 2 depends on signature section 4 -/
def sigDep : Cid → Cid → Prop := fun k d => k = 2 ∧ d = 4

theorem sigDep_pkg (t0 : Name) : PkgDeps sigDep (some (t0, 4)) 1 2 3 := by
  refine ⟨?_, ?_, ?_, ?_, ⟨rfl, rfl⟩⟩
  · intro d h; exact absurd h.1 (by decide)
  · intro d h; exact absurd h.1 (by decide)
  · intro d h; exact absurd h.1 (by decide)
  · intro d h; exact ⟨t0, by rw [h.2]⟩

/-- two builders of the tree for the same signed package (signature 4, control 1, data 2, tar 3) -/
def signedPool : Nat → Proc
  | 0 => Proc.new (pkgBuilder (some (.tmp 0, 4)) (.tmp 1) (.tmp 2) (.tmp 3) (.tmp 10) 1 2 3 1)
  | 1 => Proc.new (pkgBuilder (some (.tmp 5, 4)) (.tmp 6) (.tmp 7) (.tmp 8) (.tmp 11) 1 2 3 1)
  | _ => Proc.new (.halt true)

theorem signedPool_fresh : FreshPool signedPool := by
  intro i
  match i with
  | 0 => exact ⟨_, rfl, wt_pkgBuilder _ _ _ _ _ 1 2 3 1 (temps_lit _ _ _ _ _ (by decide))⟩
  | 1 => exact ⟨_, rfl, wt_pkgBuilder _ _ _ _ _ 1 2 3 1 (temps_lit _ _ _ _ _ (by decide))⟩
  | _ + 2 => exact ⟨_, rfl, trivial⟩

theorem signedPool_safe : SafePool sigDep signedPool := by
  intro i
  match i with
  | 0 => exact safe_pkgBuilder sigDep _ _ _ _ _ _ 1 2 3 1 (sigDep_pkg _)
  | 1 => exact safe_pkgBuilder sigDep _ _ _ _ _ _ 1 2 3 1 (sigDep_pkg _)
  | _ + 2 => exact trivial

theorem depOk_empty (Dep : Cid → Cid → Prop) : DepOk Dep FS.empty.get := fun _ _ _ h => absurd rfl h

/-- the same two builders with the regression "cachePackage advertises the signature last" -/
def sigLastPool : Nat → Proc
  | 0 => Proc.new (pkgBuilderSigLast (some (.tmp 0, 4)) (.tmp 1) (.tmp 2) (.tmp 3) (.tmp 10) 1 2 3 1)
  | 1 => Proc.new (pkgBuilderSigLast (some (.tmp 5, 4)) (.tmp 6) (.tmp 7) (.tmp 8) (.tmp 11) 1 2 3 1)
  | _ => Proc.new (.halt true)

/-- T: with the signature advertised last, `hit_has_signature` is false: builder 0 is killed (or is
merely slower) right after the data link (30 steps); control and data resolve, the signature does not;
a hit then yields two sections where the fetch yields three (`Signed = false`, smaller size) … -/
theorem hit_has_signature_fails_sig_last :
    let s := runSched (List.replicate 30 0) ⟨FS.empty, sigLastPool⟩
    s.fs.stat (.adv 1) = true ∧ s.fs.stat (.adv 2) = true ∧ s.fs.resolve (.adv 4) = none ∧
    hitSections s.fs (some 4) 1 2 = some [(1, true), (2, true)] ∧
    fetchSections (some 4) 1 2 = [(4, true), (1, true), (2, true)] := by decide

/-- …and builder 1 takes that hit: it gets to `unsigned` (5 steps) and completes successfully without
ever having read the signature section. -/
theorem sig_last_unsigned_use :
    (runSched (List.replicate 30 0 ++ List.replicate 5 1) ⟨FS.empty, sigLastPool⟩).atUnsigned 1 = true ∧
    (let s := runSched (List.replicate 30 0 ++ List.replicate 17 1) ⟨FS.empty, sigLastPool⟩
     (s.procs 1).prog = .halt true ∧ (s.procs 1).obs.all (fun o => o.1 != .adv 4) = true) := by decide

/-- the two builders with the regression "cachePackage advertises control, data, signature, tar" -/
def datSigPool : Nat → Proc
  | 0 => Proc.new (pkgBuilderDatSig (some (.tmp 0, 4)) (.tmp 1) (.tmp 2) (.tmp 3) (.tmp 10) 1 2 3 1)
  | 1 => Proc.new (pkgBuilderDatSig (some (.tmp 5, 4)) (.tmp 6) (.tmp 7) (.tmp 8) (.tmp 11) 1 2 3 1)
  | _ => Proc.new (.halt true)

/-- T: the same for the order control, data, signature, tar: killed between the data link and the
signature link (30 steps) builder 0 leaves a hit without signature; builder 1 takes it as an unsigned
package and completes; the entry is never repaired (a hit advertises nothing). -/
theorem hit_has_signature_fails_dat_sig :
    (let s := runSched (List.replicate 30 0) ⟨FS.empty, datSigPool⟩
     hitSections s.fs (some 4) 1 2 = some [(1, true), (2, true)]) ∧
    (runSched (List.replicate 30 0 ++ List.replicate 5 1) ⟨FS.empty, datSigPool⟩).atUnsigned 1 = true ∧
    (let s := runSched (List.replicate 30 0 ++ List.replicate 17 1) ⟨FS.empty, datSigPool⟩
     (s.procs 1).prog = .halt true ∧ (s.procs 1).obs.all (fun o => o.1 != .adv 4) = true ∧
     s.fs.resolve (.adv 4) = none) := by decide

/-- the builders of the tree before the fix F19c (`cachedPackage` probes the signature *before* the data
section) -/
def racyPool : Nat → Proc
  | 0 => Proc.new (pkgBuilderRacy (some (.tmp 0, 4)) (.tmp 1) (.tmp 2) (.tmp 3) (.tmp 10) 1 2 3 1)
  | 1 => Proc.new (pkgBuilderRacy (some (.tmp 5, 4)) (.tmp 6) (.tmp 7) (.tmp 8) (.tmp 11) 1 2 3 1)
  | _ => Proc.new (.halt true)

/-- builder 0 has advertised the control section (27 steps); builder 1 finds it, does not find the
signature (3 steps); builder 0 advertises signature and data (6 steps); builder 1 finds the data section -/
def f19cSched : List Nat :=
  List.replicate 27 0 ++ List.replicate 3 1 ++ List.replicate 6 0 ++ List.replicate 2 1

/-- T F19c: although the directory respects the order at every moment, the reader of the tree before
the fix probed in the *same* order as the writer advertises: a concurrent build uses the package as an
unsigned one — and completes successfully, never having read the signature that is advertised by then.
Witness replayed on the Go code: corpus/cache/F19c.json. -/
theorem f19c_race :
    (runSched f19cSched ⟨FS.empty, racyPool⟩).atUnsigned 1 = true ∧
    (let s := runSched (f19cSched ++ List.replicate 12 1) ⟨FS.empty, racyPool⟩
     (s.procs 1).prog = .halt true ∧ (s.procs 1).obs.all (fun o => o.1 != .adv 4) = true ∧
     s.fs.resolve (.adv 4) = some (4, true)) := by decide

set_option maxRecDepth 4000 in
/-- the same interleaving on the repaired tree: builder 1 does not find the data section, takes the miss
path and completes; the final directory gives the full hit -/
theorem fixed_f19c_schedule :
    let s := runSched (List.replicate 27 0 ++ List.replicate 3 1 ++ List.replicate 6 0 ++ List.replicate 39 1)
      ⟨FS.empty, signedPool⟩
    (s.procs 1).prog = .halt true ∧ hitSections s.fs (some 4) 1 2 = some (fetchSections (some 4) 1 2) := by
  decide

/-! ### recovery: a builder alone, from any crash state -/

/-- `exec` (a builder alone, to completion) is the scheduler running only that builder -/
theorem exec_runSched (i : Nat) (prog : Prog) :
    ∀ (fs : FS) (P : Nat → Proc) (Γ : Ctx) (obs : List Obs) (m : Nat), P i = ⟨prog, Γ, obs, m⟩ →
    ∃ n m', (runSched (List.replicate n i) ⟨fs, P⟩).fs = (exec fs Γ obs prog).1 ∧
      (runSched (List.replicate n i) ⟨fs, P⟩).procs i =
        ⟨.halt (exec fs Γ obs prog).2.2.2, (exec fs Γ obs prog).2.1, (exec fs Γ obs prog).2.2.1, m'⟩ := by
  induction prog with
  | halt b => intro fs P Γ obs m hp; exact ⟨0, m, rfl, hp⟩
  | ifStat nm y no ihy ihn =>
    intro fs P Γ obs m hp
    have hstep : (State.step ⟨fs, P⟩ i).procs i = ⟨if fs.stat nm then y else no, Γ, obs, m⟩ := by
      simp [State.step, stepProc, hp]
    have hfs : (State.step ⟨fs, P⟩ i).fs = fs := by simp [State.step, stepProc, hp]
    by_cases hs : fs.stat nm = true
    · obtain ⟨n, m', h1, h2⟩ := ihy (State.step ⟨fs, P⟩ i).fs (State.step ⟨fs, P⟩ i).procs Γ obs m
        (by rw [hstep, if_pos hs])
      have h1' : (runSched (List.replicate n i) (State.step ⟨fs, P⟩ i)).fs =
          (exec (State.step ⟨fs, P⟩ i).fs Γ obs y).1 := h1
      have h2' : (runSched (List.replicate n i) (State.step ⟨fs, P⟩ i)).procs i = _ := h2
      refine ⟨n + 1, m', ?_, ?_⟩
      · show (runSched (List.replicate n i) (State.step ⟨fs, P⟩ i)).fs = _
        simp only [exec, if_pos hs]; exact h1'.trans (by rw [hfs])
      · show (runSched (List.replicate n i) (State.step ⟨fs, P⟩ i)).procs i = _
        simp only [exec, if_pos hs]; exact h2'.trans (by rw [hfs])
    · obtain ⟨n, m', h1, h2⟩ := ihn (State.step ⟨fs, P⟩ i).fs (State.step ⟨fs, P⟩ i).procs Γ obs m
        (by rw [hstep, if_neg hs])
      have h1' : (runSched (List.replicate n i) (State.step ⟨fs, P⟩ i)).fs =
          (exec (State.step ⟨fs, P⟩ i).fs Γ obs no).1 := h1
      have h2' : (runSched (List.replicate n i) (State.step ⟨fs, P⟩ i)).procs i = _ := h2
      refine ⟨n + 1, m', ?_, ?_⟩
      · show (runSched (List.replicate n i) (State.step ⟨fs, P⟩ i)).fs = _
        simp only [exec, if_neg hs]; exact h1'.trans (by rw [hfs])
      · show (runSched (List.replicate n i) (State.step ⟨fs, P⟩ i)).procs i = _
        simp only [exec, if_neg hs]; exact h2'.trans (by rw [hfs])
  | op o next ih =>
    intro fs P Γ obs m hp
    cases hop : stepOp fs obs o with
    | none =>
      refine ⟨1, m, ?_, ?_⟩
      · simp [List.replicate, runSched, State.step, stepProc, hp, hop, exec]
      · simp [List.replicate, runSched, State.step, stepProc, hp, hop, exec, Proc.abort]
    | some r =>
      obtain ⟨fs', obs'⟩ := r
      have hstep : (State.step ⟨fs, P⟩ i).procs i =
          ⟨next, ctxStep Γ o, obs', if isMark o then m + 1 else m⟩ := by
        simp [State.step, stepProc, hp, hop]
      have hfs : (State.step ⟨fs, P⟩ i).fs = fs' := by simp [State.step, stepProc, hp, hop]
      obtain ⟨n, m', h1, h2⟩ := ih (State.step ⟨fs, P⟩ i).fs (State.step ⟨fs, P⟩ i).procs
        (ctxStep Γ o) obs' _ hstep
      have h1' : (runSched (List.replicate n i) (State.step ⟨fs, P⟩ i)).fs =
          (exec (State.step ⟨fs, P⟩ i).fs (ctxStep Γ o) obs' next).1 := h1
      have h2' : (runSched (List.replicate n i) (State.step ⟨fs, P⟩ i)).procs i = _ := h2
      refine ⟨n + 1, m', ?_, ?_⟩
      · show (runSched (List.replicate n i) (State.step ⟨fs, P⟩ i)).fs = _
        simp only [exec, hop]; exact h1'.trans (by rw [hfs])
      · show (runSched (List.replicate n i) (State.step ⟨fs, P⟩ i)).procs i = _
        simp only [exec, hop]; exact h2'.trans (by rw [hfs])

/-- the crash prefixes the driver executes (`runPrefix`: builder `i` alone until marker `marks` and
`extra` more steps) are schedules of the same scheduler: everything proved over `runSched` holds for
the states the correspondence suite compares with the real directories -/
theorem runPrefix_runSched (i : Nat) (fuel marks extra : Nat) :
    ∀ (fs : FS) (P : Nat → Proc), ∃ n,
      (runSched (List.replicate n i) ⟨fs, P⟩).fs = (runPrefix fuel marks extra fs (P i)).1 ∧
      (runSched (List.replicate n i) ⟨fs, P⟩).procs i = (runPrefix fuel marks extra fs (P i)).2 := by
  induction fuel generalizing marks extra with
  | zero => intro fs P; exact ⟨0, rfl, rfl⟩
  | succ fuel ih =>
    intro fs P
    have hself : (State.step ⟨fs, P⟩ i).procs i = (stepProc fs (P i)).2 := step_self ⟨fs, P⟩ i
    have stepCase : ∀ marks' extra', ∃ n,
        (runSched (List.replicate n i) ⟨fs, P⟩).fs =
          (runPrefix fuel marks' extra' (stepProc fs (P i)).1 (stepProc fs (P i)).2).1 ∧
        (runSched (List.replicate n i) ⟨fs, P⟩).procs i =
          (runPrefix fuel marks' extra' (stepProc fs (P i)).1 (stepProc fs (P i)).2).2 := by
      intro marks' extra'
      obtain ⟨n, h1, h2⟩ := ih marks' extra' (State.step ⟨fs, P⟩ i).fs (State.step ⟨fs, P⟩ i).procs
      refine ⟨n + 1, ?_, ?_⟩
      · show (runSched (List.replicate n i) (State.step ⟨fs, P⟩ i)).fs = _
        rw [hself] at h1; exact h1
      · show (runSched (List.replicate n i) (State.step ⟨fs, P⟩ i)).procs i = _
        rw [hself] at h2; exact h2
    unfold runPrefix
    split
    · exact ⟨0, rfl, rfl⟩
    · split
      · exact stepCase marks extra
      · split
        · exact ⟨0, rfl, rfl⟩
        · exact stepCase marks (extra - 1)

/-- T `recovery_live_index`: from ANY good directory — in particular every state a killed build can
leave behind (`adv_invariant`) — an online index fetch with a fresh temp name completes. -/
theorem recovery_live_index (fs : FS) (hg : GoodFS fs.get) (t : Name) (htmp : t.isTmp = true)
    (hfresh : fs.get t = none) (hk gk : Cid) (n : Nat) (Γ : Ctx) (obs : List Obs) :
    (exec fs Γ obs (indexOnline t hk gk n)).2.2.2 = true := by
  have hat := adv_ne_tmp htmp
  suffices h : SG fs.get (indexOnline t hk gk n) from h fs Γ obs rfl
  unfold indexOnline
  refine SG_ifStat ?_ ?_
  · intro hres
    exact SG_read (present_resolves hg (present_of_resolved hres)) (SG_halt _)
  · intro _
    refine SG_mkdir (SG_create hfresh (SG_mark _ ?_))
    refine SG_chunks n (c := gk) (by simp [updG]) (SG_finish (c := gk) (b := false) (by simp [updG]) (SG_mark _ ?_))
    generalize hg2 : updG (updG fs.get t (some (.file gk false))) t (some (.file gk true)) = g2
    have eadv : ∀ k, g2 (.adv k) = fs.get (.adv k) := by intro k; rw [← hg2]; simp [updG, hat k]
    have ekeep : ∀ x, fs.get x ≠ none → g2 x = fs.get x := by
      intro x hx
      have : x ≠ t := by intro e; rw [e] at hx; exact hx hfresh
      rw [← hg2]; simp [updG, this]
    refine SG_advertise (good_of_fresh_changes hg eadv ekeep) (by rw [← hg2]; simp [updG]) htmp
      (nolink_of_fresh hg hfresh eadv) ?_
    intro g3 good3 pres _ _ _
    exact SG_mark _ (SG_read (present_resolves good3 pres) (SG_halt _))

/-- T `recovery_live_pkg`: from ANY good directory a package builder (signed or unsigned apk) with
fresh temp names completes: on the hit path (with or without the signature entry), on the hit path with
a missing `.dat.tar` (regeneration), on the miss path (whatever subset of the final names earlier,
killed builders left behind). -/
theorem recovery_live_pkg (fs : FS) (hg : GoodFS fs.get) (sg : Option (Name × Cid)) (t1 t2 t3 t4 : Name)
    (k1 k2 k3 : Cid) (n : Nat)
    (f1 : fs.get t1 = none) (f2 : fs.get t2 = none) (f3 : fs.get t3 = none) (f4 : fs.get t4 = none)
    (f0 : SgAll sg (fun t0 _ => fs.get t0 = none))
    (ht : Temps sg t1 t2 t3 t4)
    (Γ : Ctx) (obs : List Obs) :
    (exec fs Γ obs (pkgBuilder sg t1 t2 t3 t4 k1 k2 k3 n)).2.2.2 = true := by
  suffices h : SG fs.get (pkgBuilder sg t1 t2 t3 t4 k1 k2 k3 n) from h fs Γ obs rfl
  have hs : SgAll sg (fun t0 _ => fs.get t0 = none ∧ t0.isTmp = true ∧ t0 ≠ t1 ∧ t0 ≠ t2 ∧ t0 ≠ t3 ∧ t0 ≠ t4) := by
    have := ht.hs
    cases sg with
    | none => trivial
    | some p => exact ⟨f0, this⟩
  have hmiss := SG_pkgMiss (k1 := k1) (k2 := k2) (k3 := k3) n hg f1 f2 f3 f4 ht.m1 ht.m2 ht.m3 ht.m4
    ht.h12 ht.h13 ht.h23 ht.h14 ht.h24 ht.h34 hs
  unfold pkgBuilder pkgBuilderWith
  refine SG_ifStat ?_ (fun _ => hmiss)
  intro hres1
  have p1 := present_of_resolved hres1
  refine SG_read (present_resolves hg p1) (SG_ifStat ?_ (fun _ => hmiss))
  intro hres2
  exact SG_mark _ (SG_sigProbe sg hg (SG_pkgData n hg p1 (present_of_resolved hres2) f4 ht.m4))

/-- T `recovery_correct`: …and it completes *with the uncached result*: run by the scheduler from any
reachable state, everything the recovering builder read through an advertised name is the complete
content that name identifies (`hit_correct` applied to the schedule "earlier history, then builder `i`
alone"). -/
theorem recovery_correct (fs0 : FS) (P : Nat → Proc) (hist : List Nat) (hg : GoodFS fs0.get)
    (hP : FreshPool P) (i : Nat) (prog : Prog) (Γ : Ctx) (obs : List Obs) (m : Nat)
    (hi : (runSched hist ⟨fs0, P⟩).procs i = ⟨prog, Γ, obs, m⟩) :
    let s := runSched hist ⟨fs0, P⟩
    ∀ k c b, (Name.adv k, c, b) ∈ (exec s.fs Γ obs prog).2.2.1 → c = k ∧ b = true := by
  intro s k c b hm
  obtain ⟨n, m', _, h2⟩ := exec_runSched i prog s.fs s.procs Γ obs m hi
  have hinv := inv_runSched (List.replicate n i) ⟨s.fs, s.procs⟩
    (inv_runSched hist ⟨fs0, P⟩ (inv_init fs0 P hg hP))
  have := hinv.obsOk i (.adv k) c b k (by rw [h2]; exact hm) rfl
  exact this

/-! ### offline -/

/-- T `offline_safe`: whatever entry `fetchOffline` selects (any candidate list, any mtimes, any
reachable directory), the offline index read either fails or yields the *complete* content of that
entry; when the entry is an advertised name, it is the revision that name identifies. -/
theorem offline_safe (fs : FS) (hg : GoodFS fs.get) (cands : List Name) (obs : List Obs)
    (fs' : FS) (obs' : List Obs) (h : stepOp fs obs (.readNewest cands) = some (fs', obs')) :
    ∃ n c, n ∈ cands ∧ fs.resolve n = some (c, true) ∧ obs' = obs ++ [(n, c, true)] ∧ fs' = fs ∧
      (∀ k, n = .adv k → c = k) := by
  simp only [stepOp] at h
  cases hnew : fs.newest cands with
  | none => rw [hnew] at h; cases h
  | some n =>
    rw [hnew] at h
    dsimp only at h
    cases hres : fs.resolve n with
    | none => rw [hres] at h; cases h
    | some cb =>
      obtain ⟨c, b⟩ := cb
      rw [hres] at h
      dsimp only at h
      cases b with
      | false => simp at h
      | true =>
        simp only [Bool.not_true, Bool.false_eq_true, ↓reduceIte, Option.some.injEq, Prod.mk.injEq] at h
        refine ⟨n, c, newest_mem fs cands n hnew, hres, h.2.symm, h.1.symm, ?_⟩
        intro k hn; subst hn
        exact (good_resolve hg (by rw [← resolve_eq]; exact hres)).1

/-- the situation DESIGN.md names: revision 7 is cached and advertised, a later build for revision 8
was killed mid-body.  Before the fix F19e `fetchOffline` chose among ALL files of the directory: it selected
the newer, partial `*.tmp` and the offline build failed (for an index: an error, not wrong content — a key has
no integrity check, see `offline_served_partial_tmp_before_fix`) although a complete older revision is in the
cache.  The repaired `fetchOffline` looks at advertised entries only and reproduces revision 7. -/
def partialTmpFS : FS :=
  (((FS.empty.set (.tmp 0) (some (.file 7 true))).set (.adv 7) (some (.link (.tmp 0)))).set
    (.tmp 1) (some (.file 8 false)))

theorem offline_partial_tmp_is_error :
    partialTmpFS.newest [.adv 7, .tmp 0, .tmp 1] = some (.tmp 1) ∧
    (exec partialTmpFS (fun _ => .unborn) [] (indexOffline [.adv 7, .tmp 0, .tmp 1])).2.2.2 = false ∧
    (exec partialTmpFS (fun _ => .unborn) [] (indexOffline [.adv 7])).2.2 = ([(.adv 7, 7, true)], true) := by
  decide

/-! ### request coalescing -/

/-- T `coalescing_transparent`: `flightCache.Do`, the ETag table of `Cache` and `apkCache`'s
`sync.Once` table are memo tables (`store` = "successful results only" for flightCache / ETag table,
"everything" for apkCache).  For every function `f` from cache key to result, every store policy,
every earlier history and every interleaving of concurrent callers, a caller that finishes obtains
what calling `f` directly would give (C08's `schedule_independent`). -/
theorem coalescing_transparent {K V R : Type} [DecidableEq K] (f : K → V) (store : K → Bool)
    (sched : List Nat) (hist ps : List (Memo.Prog K V R)) (i : Nat) (p q : Memo.Prog K V R) (r : R)
    (hp : ps[i]? = some p)
    (hq : (Memo.runSched f store sched (C08.runAll f store hist Memo.Table.empty) ps).2[i]? = some q)
    (hdone : q.done = some r) : r = p.eval f := by
  have h := C08.schedule_independent f store sched hist ps i p q r hp hq hdone
  rw [h, (C08.run_transparent f store p _ (C08.inv_empty f)).1]

/-! ### ties: the call skeletons of the modelled Go functions, regenerated from /repo on every run

Each list is the source-order sequence of durable calls of one function (`Point:x` is a
`verifhook.Point("x …")` marker).  The model's programs mirror exactly these orders:
`advertise` = Stat / Remove | Symlink; `indexOnline` = (get: Stat) MkdirAll, CreateTemp, mark 0, copy,
mark 1, advertise, mark 2, Open; `pkgExpand` = MkdirTemp, mark 0, Next/Create … (one more stream for a signed apk),
`cacheTail` = `cachePackage`'s advertises in the order ctl, (sig), dat, tar with a mark after each;
`pkgBuilderWith` = `cachedPackage`'s probes ctl, dat, mark `hit.probe`, sig; `pkgData` = Open tar | Open gz, mark 9,
CreateTemp, mark 10, copy, close, Rename, mark 11, Open (the `os.Remove`s are on error paths). -/

theorem tie_advertise : Generated.cache_advertiseCalls = ["os.Stat", "os.Remove", "os.Symlink"] := rfl

theorem tie_retrieve : Generated.cache_retrieveCalls =
    ["os.MkdirAll", "os.CreateTemp", "Point:index.tmp", "tmp.Close", "io.Copy", "Point:index.body",
     "paths.AdvertiseCachedFile", "Point:index.adv"] := rfl

theorem tie_get : Generated.cache_getCalls =
    ["cacheFileFromEtag", "os.Stat", "t.retrieveAndSaveFile", "etagFromResponse", "cacheFileFromEtag"] := rfl

theorem tie_fetchAndCache : Generated.cache_fetchAndCacheCalls = ["etagFromResponse", "os.Open"] := rfl

theorem tie_fetchOffline : Generated.cache_fetchOfflineCalls = ["os.ReadDir", "os.Open"] ∧
    Generated.cache_offlineNewestCond = "fi.ModTime().After(newest.ModTime())" := ⟨rfl, rfl⟩

theorem tie_cachePackage : Generated.cache_cachePackageCalls =
    ["Point:pkg.begin", "paths.AdvertiseCachedFile", "Point:pkg.ctl", "paths.AdvertiseCachedFile",
     "Point:pkg.sig", "paths.AdvertiseCachedFile", "Point:pkg.dat", "paths.AdvertiseCachedFile",
     "Point:pkg.tar", "exp.PackageData"] := rfl

/-- the writer's order: control, signature (signed apk only), data, tar — `cacheTail` -/
theorem tie_cachePackage_order : Generated.cache_cachePackageAdvOrder =
    ["ctlDst", "[exp.SignatureFile != \"\"]sigDst", "datDst", "tarDst"] := rfl

theorem tie_cachedPackage : Generated.cache_cachedPackageCalls =
    ["os.Stat", "exp.ControlData", "os.Open", "a.datahash", "os.Stat", "Point:hit.probe", "os.Stat",
     "os.ReadFile", "exp.PackageData"] := rfl

/-- the reader's order: control and data are required (a failed `Stat` is a miss), the signature is looked
up last (marker `hit.probe` in between) and its absence means "unsigned" — `pkgBuilderWith` / `sigProbe` -/
theorem tie_cachedPackage_probes : Generated.cache_cachedPackageProbes =
    ["ctl:required", "dat:required", "Point", "sig:optional"] := rfl

/-- three gzip members = signature, control, data; two = control, data — `expandHead` -/
theorem tie_expand_streams : Generated.cache_expandStreamIndex =
    ["3:signatureIndex=0,controlDataIndex=1,packageIndex=2",
     "2:signatureIndex=-1,controlDataIndex=0,packageIndex=1", "default:"] := rfl

/-- `expandPackage`: the fetched apk is verified BEFORE `cachePackage` advertises anything; a rejected one
is closed (temp directory removed) without ever having been advertised — `pkgMissWith` / `pkgRejected` -/
theorem tie_expandPackage : Generated.cache_expandPackageCalls =
    ["a.cachedPackage", "os.MkdirAll", "a.FetchPackage", "expandapk.ExpandApk", "a.verifyExpanded",
     "exp.Close", "a.cachePackage"] := rfl

theorem tie_packageData : Generated.cache_packageDataCalls =
    ["os.Open", "os.Open", "Point:regen.begin", "os.CreateTemp", "Point:regen.created", "io.CopyBuffer",
     "uf.Close", "os.Remove", "uf.Close", "os.Remove", "os.Rename", "os.Remove", "Point:regen.done",
     "os.Open"] := rfl

theorem tie_expandApk : Generated.cache_expandApkCalls =
    ["os.MkdirTemp", "Point:expand.dir", "sw.Next", "io.Copy", "os.Create", "Point:expand.tar",
     "checkSums", "io.Copy", "bw.Flush", "tarfile.Close", "sw.CloseFile", "Point:expand.done",
     "os.Stat", "expanded.ControlData", "expanded.PackageData"] := rfl

theorem tie_next : Generated.cache_nextCalls =
    ["w.CloseFile", "os.Open", "os.Create", "Point:expand.stream"] := rfl

theorem tie_temp_patterns : Generated.cache_indexTempPattern = "*.tmp" ∧
    Generated.cache_expandDirPattern = "expand-apk" := ⟨rfl, rfl⟩

/-! ### the glue around the ETag-addressed entries (`Model/CacheGlue.lean`)

Which entry answers a request is decided by `cacheTransport.head` (HEAD memo of the `*apk.Cache` value, else a
HEAD request), `get` (`os.Stat` of the entry named by that ETag), `retrieveAndSaveFile` and, offline,
`fetchOffline`.  The statements below are about EVERY history (`List Ev`: repository updates, requests through any
number of cache objects with or without a memo, cut connections, offline requests, process exits) that respects
the server assumption (`Glue.Legal`), for EVERY configuration that keys the HEAD memo injectively and returns the
copy error — `cfgReal` is one, the ties at the end of this file pin the code to it. -/

section glue
open Apko.CacheGlue Apko.C19.Glue

/-- **transparency invariant**: in every reachable state every advertised etag entry holds the COMPLETE body the
server served under that ETag for a URL of the entry's directory, and every remembered HEAD answer is an ETag the
server served for the URL it is remembered for -/
theorem glue_entries_authentic (cfg : Cfg) (hk : MemoKeyInj cfg) (hce : cfg.copyErrKept = true) (evs : List Ev)
    (hl : Legal cfg evs {}) : EntriesOk cfg (run cfg evs {}) ∧ MemoOk cfg (run cfg evs {}) :=
  let h := run_inv hk hce evs {} (inv_empty cfg) hl
  ⟨h.entries, h.memo⟩

/-- after any history, whatever a request through the caching transport hands to its caller — warm or cold, with
or without a memo, with the connection cut or not — is a COMPLETE body the server served under the requested URL
(never another URL's body, never a short one), or an error -/
theorem glue_answer_authentic (cfg : Cfg) (hk : MemoKeyInj cfg) (hce : cfg.copyErrKept = true) (evs : List Ev)
    (hl : Legal cfg evs {}) (c : CacheId) (m : Bool) (u : Url) (cut : Bool) (b : Body) (compl : Bool)
    (h : (fetch cfg (run cfg evs {}) c m u cut).2 = some (b, compl)) :
    compl = true ∧ ∃ e, (u, e, b) ∈ (run cfg evs {}).srv :=
  (fetch_spec hk hce (run_inv hk hce evs {} (inv_empty cfg) hl) c m u cut).2.2.2 b compl h

/-- **a build is transparent**: after any history, the requests of one build (keyring entries, index) through a
cache object whose memo holds current ETags only — a cache object made for this build (`memoCurrent_fresh`), any
cache object right after a process start (`memoCurrent_exit`) — are answered exactly as without the disk cache:
each with the body the server serves now -/
theorem glue_build_transparent (cfg : Cfg) (hk : MemoKeyInj cfg) (hce : cfg.copyErrKept = true) (evs : List Ev)
    (hl : Legal cfg evs {}) (c : CacheId) (us : List Url) (hm : MemoCurrent cfg (run cfg evs {}) c) :
    (fetchAll cfg c true (us.map fun u => (u, false)) (run cfg evs {})).2 = us.map (direct (run cfg evs {})) := by
  have h := (fetchAll_transparent hk hce c true (us.map fun u => (u, false)) (run cfg evs {})
    (run_inv hk hce evs {} (inv_empty cfg) hl) (fun _ => hm)
    (by intro p hp; rw [List.mem_map] at hp; obtain ⟨u, -, rfl⟩ := hp; rfl)).1
  rw [h, List.map_map]; rfl

/-- **default options**: a cache object WITHOUT a HEAD memo (`options.Default.SharedCache = apk.NewCache(false)`,
`tie_new_cache_sites`) is transparent at any time — across builds, repository updates and whatever else the
process did before -/
theorem glue_default_transparent (cfg : Cfg) (hk : MemoKeyInj cfg) (hce : cfg.copyErrKept = true) (evs : List Ev)
    (hl : Legal cfg evs {}) (c : CacheId) (us : List Url) :
    (fetchAll cfg c false (us.map fun u => (u, false)) (run cfg evs {})).2 = us.map (direct (run cfg evs {})) := by
  have h := (fetchAll_transparent hk hce c false (us.map fun u => (u, false)) (run cfg evs {})
    (run_inv hk hce evs {} (inv_empty cfg) hl) (fun h => by cases h)
    (by intro p hp; rw [List.mem_map] at hp; obtain ⟨u, -, rfl⟩ := hp; rfl)).1
  rw [h, List.map_map]; rfl

/-- **index requests**, which first consult the process-wide table of parsed indexes (`globalIndexCache`, keyed by
URL@ETag, shared by all builds of a process with or without the disk cache): after any history the answer is a
complete body served under the index URL or an error, and — through a cache object whose memo is current or that has
no memo — exactly the answer the build WITHOUT the disk cache gets at the same moment in the same process -/
theorem glue_index_transparent (cfg : Cfg) (hk : MemoKeyInj cfg) (hce : cfg.copyErrKept = true) (evs : List Ev)
    (hl : Legal cfg evs {}) (c : CacheId) (m : Bool) (u : Url) (hm : m = true → MemoCurrent cfg (run cfg evs {}) c) :
    (fetchIndex cfg (run cfg evs {}) c m u false).2 = (fetchIndexDirect (run cfg evs {}) u).2 ∧
    ∀ cut b compl, (fetchIndex cfg (run cfg evs {}) c m u cut).2 = some (b, compl) →
      compl = true ∧ ∃ e, (u, e, b) ∈ (run cfg evs {}).srv :=
  have hinv := run_inv hk hce evs {} (inv_empty cfg) hl
  ⟨fetchIndex_transparent hk hinv c m u hm, fun cut b compl h => (fetchIndex_spec hk hce hinv c m u cut).2.2 b compl h⟩

/-- a cut connection: the caller gets an error (or the entry that was already there), the set of advertised
entries does not change -/
theorem glue_cut_advertises_nothing (cfg : Cfg) (hce : cfg.copyErrKept = true) (s : St) (c : CacheId) (m : Bool) (u : Url) :
    ((fetch cfg s c m u true).1.files.filter fun f => f.etag.isSome) = s.files.filter (fun f => f.etag.isSome) :=
  (cut_advertises_nothing hce s c m u).1

/-- the full offline statement: an offline request is answered with an error or a complete body the server once
served under the requested URL -/
def offline_authentic (cfg : Cfg) : Prop :=
  ∀ evs, Legal cfg evs {} → ∀ u b compl, fetchOffline cfg (run cfg evs {}) u = some (b, compl) →
    compl = true ∧ ∃ e, (u, e, b) ∈ (run cfg evs {}).srv

/-- it holds for every URL whose entry directory is its own (every index; a key that is alone in its remote
directory) … -/
theorem offline_authentic_partial (cfg : Cfg) (hk : MemoKeyInj cfg) (hce : cfg.copyErrKept = true)
    (hskip : cfg.offlineSkipsTmp = true) (evs : List Ev) (hl : Legal cfg evs {}) (u : Url) (hown : DirOwn cfg u)
    (b : Body) (compl : Bool) (h : fetchOffline cfg (run cfg evs {}) u = some (b, compl)) :
    compl = true ∧ ∃ e, (u, e, b) ∈ (run cfg evs {}).srv :=
  Glue.offline_authentic_partial hskip (run_inv hk hce evs {} (inv_empty cfg) hl) u hown b compl h

/-- the entry directories of the suite's worlds: URL 0 (the index) has directory 0, every key URL directory 1 -/
def keysDir : Url → Dir := fun u => if u = 0 then 0 else 1

/-- … and FAILS for keys that share a remote directory (finding F19d, witness 1): both keys are fetched, then an
offline request for key 1 is answered with the body of key 2 -/
def sharedDirHistory : List Ev :=
  [.publish 1 1 11, .publish 2 2 12, .fetch 1 true 1 false, .fetch 1 true 2 false]

theorem offline_shared_directory_confuses_keys : ¬ offline_authentic (cfgReal keysDir) := by
  intro h
  have hl : Legal (cfgReal keysDir) sharedDirHistory {} := legalB_sound _ _ _ (by decide)
  have := h sharedDirHistory hl 1 12 true (by decide)
  obtain ⟨-, e, he⟩ := this
  revert he
  have : (run (cfgReal keysDir) sharedDirHistory {}).srv = [(2, 2, 12), (1, 1, 11)] := by decide
  rw [this]
  simp

/-- the full online statement under the per-URL server assumption only (`Glue.UrlLegal`: an ETag identifies one
body OF A URL; where every URL has an entry directory of its own that is all of `Glue.Legal`:
`Glue.legal_of_urlLegal`) -/
def online_authentic_urlwise : Prop :=
  ∀ evs, UrlLegal (cfgReal keysDir) evs {} → ∀ c m u b compl, (fetch (cfgReal keysDir) (run (cfgReal keysDir) evs {}) c m u false).2 = some (b, compl) →
    ∃ e, (u, e, b) ∈ (run (cfgReal keysDir) evs {}).srv

/-- it FAILS (finding F19d, witness 2): two keys of one directory under one ETag value — the second request is
answered with the first key (`glue_answer_authentic` is the statement under `Glue.Legal`, which excludes this
server) -/
theorem same_etag_collision : ¬ online_authentic_urlwise := by
  intro h
  have hl : UrlLegal (cfgReal keysDir) [.publish 1 5 11, .publish 2 5 12, .fetch 1 true 1 false] {} :=
    urlLegalB_sound _ _ _ (by decide)
  obtain ⟨e, he⟩ := h _ hl 1 true 2 11 true (by decide)
  revert he
  have : (run (cfgReal keysDir) [.publish 1 5 11, .publish 2 5 12, .fetch 1 true 1 false] {}).srv = [(2, 5, 12), (1, 5, 11)] := by decide
  rw [this]
  simp

/-! #### what the regenerated facts guard: the same model with one choice changed -/

/-- a memo-bearing cache object that outlives a build (`options.Default.SharedCache = apk.NewCache(true)`): after
a repository update the second build is still answered with the first revision; the memo-less default is not -/
theorem shared_memo_is_stale :
    answers (cfgReal keysDir) [.publish 0 1 10, .fetch 0 true 0 false, .publish 0 2 20, .fetch 0 true 0 false] {}
      = [some (10, true), some (10, true)] ∧
    answers (cfgReal keysDir) [.publish 0 1 10, .fetch 0 false 0 false, .publish 0 2 20, .fetch 0 false 0 false] {}
      = [some (10, true), some (20, true)] := by decide

/-- the HEAD memo keyed by the entry DIRECTORY instead of the URL: the second key of a directory is answered with
the first key's HEAD, hence with the first key's bytes -/
theorem memo_keyed_by_directory_confuses_urls :
    answers ⟨keysDir, keysDir, true, true⟩ [.publish 1 1 11, .publish 2 2 12, .fetch 7 true 1 false, .fetch 7 true 2 false] {}
      = [some (11, true), some (11, true)] ∧
    answers (cfgReal keysDir) [.publish 1 1 11, .publish 2 2 12, .fetch 7 true 1 false, .fetch 7 true 2 false] {}
      = [some (11, true), some (12, true)] := by decide

/-- `retrieveAndSaveFile` losing the error of `io.Copy` (a deferred `Close` that assigns to the result): the cut
body is advertised under its ETag and answers every later request, online and offline, in every process -/
theorem lost_copy_error_poisons :
    answers ⟨keysDir, id, false, true⟩ [.publish 0 1 10, .fetch 1 true 0 true, .exit, .fetch 2 true 0 false, .offline 0] {}
      = [some (10, false), some (10, false), some (10, false)] ∧
    answers (cfgReal keysDir) [.publish 0 1 10, .fetch 1 true 0 true, .exit, .fetch 2 true 0 false, .offline 0] {}
      = [none, some (10, true), some (10, true)] := by decide

/-- F19e (fixed): `fetchOffline` choosing among all files of the directory served the partial temp file a cut
download left behind -/
theorem offline_served_partial_tmp_before_fix :
    answers ⟨keysDir, id, true, false⟩ [.publish 1 1 11, .fetch 1 true 1 true, .offline 1] {} = [none, some (11, false)] ∧
    answers (cfgReal keysDir) [.publish 1 1 11, .fetch 1 true 1 true, .offline 1] {} = [none, none] := by decide

/-- what the thorough tier found in the first version of this model: after a build WITHOUT the disk cache, a build
with it in the same process is answered from the table of parsed indexes and leaves NO index entry behind (the
offline build that follows has nothing to read); in a fresh process the entry is written -/
theorem parsed_table_hides_the_disk_cache :
    (run (cfgReal keysDir) [.publish 0 1 10, .indexDirect 0, .index 1 true 0 false] {}).files = [] ∧
    answers (cfgReal keysDir) [.publish 0 1 10, .indexDirect 0, .index 1 true 0 false, .exit, .offline 0] {}
      = [some (10, true), some (10, true), none] ∧
    answers (cfgReal keysDir) [.publish 0 1 10, .indexDirect 0, .exit, .index 1 true 0 false, .exit, .offline 0] {}
      = [some (10, true), some (10, true), some (10, true)] := by decide

/-- the hypotheses are satisfiable by the code's configuration and a non-trivial history -/
example : MemoKeyInj (cfgReal keysDir) ∧ (cfgReal keysDir).copyErrKept = true ∧
    Legal (cfgReal keysDir) [.publish 0 1 10, .publish 1 2 11, .fetch 1 true 1 false, .fetch 1 true 0 true, .exit,
      .publish 0 3 30, .index 2 true 0 false, .indexDirect 0, .offline 0] {} :=
  ⟨fun _ _ h => h, rfl, legalB_sound _ _ _ (by decide)⟩

/-! #### several repositories: which of them an offline build resolves over (`GetRepositoryIndexes`) -/

/-- the suite's entry directories with several repositories: the index of repository `r` is URL `50·r` and has the
entry directory of the same number (`cachePathFromURL` keeps the host), every key URL directory 1 -/
def reposDir : Url → Dir := fun u => if u % 50 = 0 then u else 1

/-- the full statement (C19, "offline builds either reproduce that image from the cache or fail with an error") for
the set of repositories: when the offline build over remote repositories gets its indexes at all, it gets one for
EVERY configured repository, in the configured order — as the build without the cache does (`directIndexes`) -/
def OfflineComplete (rule : SkipRule) (cfg : Cfg) : Prop :=
  ∀ evs, Legal cfg evs {} → ∀ (remote : Url → Bool) (loc : Url → OffIdx) (repos : List Url) (l : List (Url × Body)),
    (∀ u, u ∈ repos → remote u = true) →
    offlineIndexes rule cfg (run cfg evs {}) remote loc repos = some l → l.map (·.1) = repos

/-- it holds for the repaired rule (`skipReal`, tied to the condition in the code by `tie_index_skip_rule`), for
every configuration -/
theorem offline_complete (cfg : Cfg) : OfflineComplete skipReal cfg :=
  fun _ _ _ _ repos l hall h => offlineIndexes_remote_complete repos l hall h

/-- **an offline build that succeeds used, for EVERY configured remote repository, a stored index revision**: after
any legal history, when `GetRepositoryIndexes` of an offline build returns indexes, then every configured remote
repository (whose entry directory is its own: `cachePathFromURL` is injective) contributed an index, that index is the
COMPLETE body of an advertised entry of its entry directory, and the server once served that body under the
repository's index URL — no remote repository is ever dropped, local ones may be (`offline_local_missing_skipped`) -/
theorem offline_uses_every_remote_repository (cfg : Cfg) (hk : MemoKeyInj cfg) (hce : cfg.copyErrKept = true)
    (hskip : cfg.offlineSkipsTmp = true) (evs : List Ev) (hl : Legal cfg evs {})
    (remote : Url → Bool) (loc : Url → OffIdx) (repos : List Url) (l : List (Url × Body))
    (hown : ∀ u, u ∈ repos → remote u = true → DirOwn cfg u)
    (h : offlineIndexes skipReal cfg (run cfg evs {}) remote loc repos = some l) :
    ∀ u, u ∈ repos → remote u = true →
      ∃ b, (u, b) ∈ l ∧ (∃ e, (u, e, b) ∈ (run cfg evs {}).srv) ∧
        ∃ f, f ∈ (run cfg evs {}).files ∧ f.dir = cfg.dirOf u ∧ f.etag.isSome = true ∧ f.body = b ∧ f.complete = true := by
  intro u hu hr
  obtain ⟨b, hb, hi⟩ := offlineIndexes_every_remote repos l h u hu hr
  have hoff := (offlineIndex_index hi).1
  have hinv := run_inv hk hce evs {} (inv_empty cfg) hl
  obtain ⟨-, e, he⟩ := Glue.offline_authentic_partial hskip hinv u (hown u hu hr) b true hoff
  refine ⟨b, hb, ⟨e, he⟩, ?_⟩
  unfold fetchOffline at hoff
  cases hlast : ((run cfg evs {}).files.filter (offlineCand cfg (cfg.dirOf u))).getLast? with
  | none => rw [hlast] at hoff; cases hoff
  | some f =>
    rw [hlast] at hoff
    simp only [Option.map_some, Option.some.injEq, Prod.mk.injEq] at hoff
    have hm := List.mem_of_getLast? hlast
    rw [List.mem_filter] at hm
    obtain ⟨hfm, hcand⟩ := hm
    unfold offlineCand at hcand
    simp only [hskip, Bool.not_true, Bool.or_false, Bool.and_eq_true, decide_eq_true_eq] at hcand
    exact ⟨f, hfm, hcand.1, hcand.2, hoff.1, hoff.2⟩

/-- the behaviour for LOCAL repositories is what it was: one whose index file does not exist is skipped -/
theorem offline_local_missing_skipped (rule : SkipRule) (cfg : Cfg) (s : St) (remote : Url → Bool) (loc : Url → OffIdx)
    (u : Url) (rest : List Url) (hlocal : remote u = false) (hm : loc u = .notExist) :
    offlineIndexes rule cfg s remote loc (u :: rest) = offlineIndexes rule cfg s remote loc rest :=
  offlineIndexes_local_missing rule cfg s remote loc u rest hlocal hm

/-- the repair changes nothing where every configured remote repository has an entry directory (was cached once) -/
theorem offline_rules_agree_when_cached (cfg : Cfg) (s : St) (remote : Url → Bool) (loc : Url → OffIdx) (repos : List Url)
    (h : ∀ u, u ∈ repos → remote u = true → s.dirExists (cfg.dirOf u) = true) :
    offlineIndexes .anyNotExist cfg s remote loc repos = offlineIndexes .localNotExist cfg s remote loc repos :=
  offlineIndexes_rules_agree repos h

/-- process 1 fills the cache over repository A (URL 0); repository B (URL 50, never cached) is configured afterwards -/
def neverCachedHistory : List Ev := [.publish 0 1 10, .publish 50 2 20, .index 1 true 0 false, .exit]

/-- **the pinned expression** `errors.Is(err, fs.ErrNotExist)` (finding F19f, fixed) FAILS the full statement: the
offline build over [A, B] succeeds with A's index alone, while the build without the cache resolves over both (B
offers the newer version): another image, no error.  Under the repaired rule the same build fails. -/
theorem offline_dropped_never_cached_repository_before_fix : ¬ OfflineComplete .anyNotExist (cfgReal reposDir) := by
  intro h
  have hl : Legal (cfgReal reposDir) neverCachedHistory {} := legalB_sound _ _ _ (by decide)
  have := h neverCachedHistory hl (fun _ => true) (fun _ => .notExist) [0, 50] [(0, 10)] (by intro u _; rfl) (by decide)
  revert this
  decide

theorem never_cached_repository_witness :
    offlineIndexes .anyNotExist (cfgReal reposDir) (run (cfgReal reposDir) neverCachedHistory {}) (fun _ => true) (fun _ => .notExist) [0, 50]
      = some [(0, 10)] ∧
    directIndexes (run (cfgReal reposDir) neverCachedHistory {}) (fun _ => true) (fun _ => .notExist) [0, 50]
      = some [(0, 10), (50, 20)] ∧
    offlineIndexes skipReal (cfgReal reposDir) (run (cfgReal reposDir) neverCachedHistory {}) (fun _ => true) (fun _ => .notExist) [0, 50]
      = none ∧
    -- once B was cached the offline build reproduces the build without the cache
    offlineIndexes skipReal (cfgReal reposDir) (run (cfgReal reposDir) (neverCachedHistory ++ [.index 2 true 50 false, .exit]) {})
      (fun _ => true) (fun _ => .notExist) [0, 50] = some [(0, 10), (50, 20)] := by decide

/-- the hypotheses of `offline_uses_every_remote_repository` are satisfiable by the code's configuration, a
non-trivial history and two repositories with a successful offline build -/
example : MemoKeyInj (cfgReal reposDir) ∧ (∀ u, u ∈ [0, 50] → DirOwn (cfgReal reposDir) u) ∧
    Legal (cfgReal reposDir) (neverCachedHistory ++ [.index 2 true 50 false, .exit]) {} ∧
    (offlineIndexes skipReal (cfgReal reposDir) (run (cfgReal reposDir) (neverCachedHistory ++ [.index 2 true 50 false, .exit]) {})
      (fun _ => true) (fun _ => .notExist) [0, 50]).isSome = true := by
  refine ⟨fun _ _ h => h, ?_, legalB_sound _ _ _ (by decide), by decide⟩
  intro u hu u2 h2
  simp only [List.mem_cons, List.not_mem_nil, or_false] at hu
  simp only [cfgReal, reposDir] at h2
  rcases hu with rfl | rfl <;> (split at h2 <;> simp_all <;> omega)

/-! #### a response without an ETag; a validator that does not identify the body -/

/-- without an ETag nothing is looked up and nothing is stored: the answer is the build-without-the-cache's, the
state does not change — whatever else (`Last-Modified`) the response carries -/
theorem noetag_transparent (s : St) (u : Url) : (fetchNoEtag s u).2 = direct s u ∧ (fetchNoEtag s u).1 = s := ⟨rfl, rfl⟩

/-- what the tie `tie_etag_is_the_only_validator` guards: a value that does NOT identify the body used as the name of
the entry (`Last-Modified` has one-second resolution: two index revisions published within one second, or with a
clamped mtime, carry the same value) — the second process is answered with the first revision from the entry the
first process left, while the build without the cache gets the second revision.  In the model this server is outside
`Legal` (one name, two bodies of one URL): the transparency theorems need the name to identify the body. -/
theorem weak_validator_serves_stale :
    answers (cfgReal keysDir) [.publish 0 7 10, .index 1 true 0 false, .exit, .publish 0 7 20, .index 2 true 0 false] {}
      = [some (10, true), some (10, true)] ∧
    direct (run (cfgReal keysDir) [.publish 0 7 10, .index 1 true 0 false, .exit, .publish 0 7 20] {}) 0 = some (20, true) ∧
    legalB (cfgReal keysDir) [.publish 0 7 10, .index 1 true 0 false, .exit, .publish 0 7 20, .index 2 true 0 false] {} = false := by
  decide

end glue

/-! #### the branch without a validator: key discovery, key rotation -/

section plain
open Apko.CacheGlue Plain

/-- FULL statement for the branch of `RoundTrip` that has no validator: over every history of publications
(key rotations included) and requests, every request through the cache is answered as without it -/
def PlainTransparent (stores : Stores) : Prop := ∀ h : List PEv, panswers stores h {} = pdirect h {}

/-- the branch is transparent over every history in which the URL classes it stores are immutable -/
theorem unvalidated_store_transparent_partial (stores : Stores) (h : List PEv) (himm : PLegal stores h {}) :
    panswers stores h {} = pdirect h {} :=
  answers_eq_direct stores h {} (fresh_empty stores) himm

/-- … and ONLY there: whatever class the branch stores, a URL of that class whose body changes between two requests
(a key rotation: `b1 ≠ b2`) is answered with the old body, while the build without the cache gets the new one; that
history is exactly what `PLegal` excludes.  Transparency needs every class that is stored without a validator to be
immutable. -/
theorem unvalidated_store_needs_immutable (stores : Stores) (u : Url) (hs : stores u = true) (b1 b2 : Body) (hne : b1 ≠ b2) :
    panswers stores (rotation u b1 b2) {} = [some b1, some b1] ∧
    pdirect (rotation u b1 b2) {} = [some b1, some b2] ∧
    panswers stores (rotation u b1 b2) {} ≠ pdirect (rotation u b1 b2) {} ∧
    ¬ PLegal stores (rotation u b1 b2) {} := by
  obtain ⟨ha, hd⟩ := rotation_answers stores u hs b1 b2
  refine ⟨ha, hd, ?_, ?_⟩
  · rw [ha, hd]
    intro h
    simp at h
    exact hne h
  · intro hl
    have := unvalidated_store_transparent_partial stores _ hl
    rw [ha, hd] at this
    simp at this
    exact hne this

/-- over ALL histories (nothing is known about which URLs are immutable) the branch is transparent iff it stores nothing -/
theorem plain_transparent_iff_stores_nothing (stores : Stores) : PlainTransparent stores ↔ ∀ u, stores u = false := by
  constructor
  · intro ht u
    cases hs : stores u
    · rfl
    · exact absurd (ht (rotation u 0 1)) (unvalidated_store_needs_immutable stores u hs 0 1 (by decide)).2.2.1
  · intro hn h
    exact unvalidated_store_transparent_partial stores h (legal_of_stores_nothing stores hn h {})

/-- the code as it is saves nothing on that branch: transparent over every history, rotations included; the files
below the URL paths stay what they were -/
theorem real_unvalidated_branch_transparent : PlainTransparent storesReal :=
  (plain_transparent_iff_stores_nothing storesReal).2 fun _ => rfl

theorem real_unvalidated_branch_stores_nothing (h : List PEv) (s : PSt) :
    (h.foldl (pstep storesReal) s).plain = s.plain := real_run_plain h s

/-- the hypotheses are satisfiable by a non-trivial history: a stored class (URL 7: an apk) that keeps its body, a
class that is not stored (URL 1: the key set) and rotates -/
example : PLegal (fun u => u == 7) [.publish 7 3, .get 7, .publish 1 10, .get 1, .publish 7 3, .publish 1 11, .get 1, .get 7] {} ∧
    panswers (fun u => u == 7) [.publish 7 3, .get 7, .publish 1 10, .get 1, .publish 7 3, .publish 1 11, .get 1, .get 7] {}
      = [some 3, some 10, some 11, some 3] := by
  refine ⟨?_, by decide⟩
  simp [PLegal, pstep, plainFetch, PSt.cur, PSt.file, List.lookup]

/-- key discovery of one build through a cache object without a remembered answer: the discovery document, then the
key set — what the build without the cache gets, in every state whose stored files are fresh -/
theorem discover_transparent (stores : Stores) (s : PSt) (hf : Fresh stores s) (conf jwks : Url) :
    (discover stores s none conf jwks).2 = (plainDirect s conf).bind fun _ => plainDirect s jwks := by
  unfold discover
  have h1 := fetch_answer_of_fresh hf conf
  have hf1 := fetch_keeps_fresh hf conf
  have hs1 := fetch_srv stores s conf
  generalize hx : plainFetch stores s conf = x at h1 hf1 hs1
  obtain ⟨s1, r⟩ := x
  simp only at h1 hf1 hs1
  cases r with
  | none => simp [← h1]
  | some b =>
    simp only [← h1, Option.bind]
    rw [fetch_answer_of_fresh hf1 jwks]
    simp [plainDirect, PSt.cur, hs1]

/-- the seeded change as a configuration: the key set (URL 1) is stored on that branch; after a rotation in a later
process (no memo) the build over the cache installs the OLD key set, the build without the cache the new one -/
theorem stored_key_set_survives_rotation :
    let stores : Stores := fun u => u != 7
    let s1 := (discover stores { srv := [(0, 0), (1, 10)] } none 0 1).1
    let s2 : PSt := { s1 with srv := (1, 11) :: s1.srv }
    (discover stores s2 none 0 1).2 = some 10 ∧
      ((plainDirect s2 0).bind fun _ => plainDirect s2 1) = some 11 := by decide

/-- FULL statement for key discovery through a cache object (refuted for objects that live longer than one build:
finding F19g): what a build discovers is what the build without the cache discovers at that moment -/
def DiscoveryTransparent (memo : Option Body) : Prop :=
  ∀ (s : PSt) (conf jwks : Url), Fresh storesReal s →
    (discover storesReal s memo conf jwks).2 = (plainDirect s conf).bind fun _ => plainDirect s jwks

theorem discovery_transparent_partial : DiscoveryTransparent none :=
  fun s conf jwks hf => discover_transparent storesReal s hf conf jwks

/-- the remembered answer of `Cache.discoverKeys` is never revalidated: a cache object that outlives a key rotation
(`options.Default.SharedCache`: as long as the process) answers with the keys of its first build (finding F19g) -/
theorem discovery_memo_is_stale (k : Body) : ¬ DiscoveryTransparent (some k) := by
  intro h
  have := h { srv := [(0, 0), (1, k + 1)] } 0 1 (by intro u b hb; simp [PSt.file, List.lookup] at hb)
  simp [discover, plainDirect, PSt.cur, List.lookup] at this

/-- FULL statement for the offline build (refuted: finding F19h): key discovery offline gives the keys of a cached
repository state or FAILS THE BUILD.  The code as it is: nothing of a discovery is ever in the cache (`storesReal`),
the offline request is an error (`discoverOffline … = none`), and `fetchChainguardKeys` only LOGS that error
(`tie_discovery_error_is_logged`): the offline build goes on and produces an image without the discovered keys. -/
theorem offline_discovery_unanswered (h : List PEv) (conf jwks : Url) :
    discoverOffline (h.foldl (pstep storesReal) {}) none conf jwks = none := by
  have hp := real_unvalidated_branch_stores_nothing h {}
  simp [discoverOffline, plainOffline, PSt.file, hp, List.lookup]

end plain

/-! #### ties of the glue model -/

/-- the condition under which `GetRepositoryIndexes` drops a repository, as a rule of the model -/
def skipRuleOfCond (cond : String) : Option CacheGlue.SkipRule :=
  if cond = "errors.Is(err, fs.ErrNotExist)" then some CacheGlue.SkipRule.anyNotExist
  else if cond = "!remote && errors.Is(err, fs.ErrNotExist)" then some CacheGlue.SkipRule.localNotExist
  else none

/-- `GetRepositoryIndexes`: the condition of the `if` that drops a repository is `Model.skipReal`; `remote` is the very
test by which `indexCache.get` sends a repository through the (caching) transport; the branch logs and returns nil;
offline, the error of a missing entry directory wraps `os.ReadDir`'s (`%w`: `errors.Is(err, fs.ErrNotExist)` sees it) -/
theorem tie_index_skip_rule : skipRuleOfCond Generated.cacheglue_indexSkipCond = some CacheGlue.skipReal ∧
    Generated.cacheglue_indexSkipDefs =
      ["remote := strings.HasPrefix(repoURL, \"https://\") || strings.HasPrefix(repoURL, \"http://\")"] ∧
    Generated.cacheglue_indexSkipBody = ["clog.WarnContextf(…)", "return nil"] ∧
    Generated.cacheglue_indexRemoteTest = "strings.HasPrefix(u, \"https://\") || strings.HasPrefix(u, \"http://\")" ∧
    Generated.cacheglue_offlineListErr =
      "des, err := os.ReadDir(cacheDir); err != nil => return nil, fmt.Errorf(\"listing %q for offline cache: %w\", cacheDir, err)" :=
  ⟨by decide, rfl, rfl, rfl, rfl⟩

/-- `etagFromResponse` reads the `ETag` header and nothing else: no other validator (`Last-Modified`,
`Content-Length`, …) may name an entry of the cache or a row of the table of parsed indexes -/
theorem tie_etag_is_the_only_validator : Generated.cacheglue_etagHeaders = ["etag"] := rfl

/-- the HEAD memo (`load` / `store`) and the HEAD singleflight are keyed by the URL's cache file — `Cfg.memoKey` is
the identity on URLs (`cachePathFromURL` of the request URL, handed down by `RoundTrip` and `fetchAndCache`) -/
theorem tie_head_memo_key : Generated.cacheglue_headKeys =
    ["t.cache.load(cacheFile)", "t.cache.headFlight.Do(cacheFile)", "t.cache.store(cacheFile)"] ∧
    Generated.cacheglue_roundTripCacheFile = ["cacheFile, err := cachePathFromURL(t.root, *request.URL)",
      "return t.fetchOffline(cacheFile)", "return t.fetchAndCache(ctx, request, cacheFile)"] ∧
    Generated.cacheglue_fetchAndCacheCalls = ["t.head(request, cacheFile)", "t.get(ctx, request, cacheFile, initialEtag)",
      "os.Open(etagFile)"] := ⟨rfl, rfl, rfl⟩

/-- `get`: the download in flight is keyed by the cache file, the entry that is looked up is the one named by the
ETag `head` answered, the entry that is written is named by the ETag of the GET response -/
theorem tie_get_keys : Generated.cacheglue_getKeys =
    ["t.cache.getFlight.Do(cacheFile)", "cacheFileFromEtag(cacheFile, initialEtag)", "os.Stat(etagFile)",
     "cacheFileFromEtag(cacheFile, finalEtag)"] := rfl

/-- `retrieveAndSaveFile` returns the error of `io.Copy` (`Cfg.copyErrKept`): the copying closure has an unnamed
result, its deferred calls are plain `Close`s — no deferred function assigns to a result —, the copy error is
returned by the closure and by the function -/
theorem tie_copy_error_kept : Generated.cacheglue_copyClosureResults = "(error)" ∧
    Generated.cacheglue_copyClosureDefers = ["tmp.Close()", "resp.Body.Close()"] ∧
    Generated.cacheglue_copyDeferAssignsResult = [] ∧
    Generated.cacheglue_copyErrReturn =
      "_, err := io.Copy(tmp, resp.Body); err != nil => return fmt.Errorf(\"unable to write to cache file: %w\", err)" ∧
    Generated.cacheglue_copyClosureCall = "err := <closure>(); err != nil => return \"\", err" ∧
    Generated.cacheglue_retrieveResults = "(string, error)" ∧
    Generated.cacheglue_retrieveDefers = ["span.End()"] := ⟨rfl, rfl, rfl, rfl, rfl, rfl, rfl⟩

/-- `fetchOffline` drops the unadvertised temp files before it chooses the newest entry (`Cfg.offlineSkipsTmp`,
fix F19e; the pattern of the temp names is `tie_temp_patterns`) -/
theorem tie_offline_skips_tmp : Generated.cacheglue_offlineDrops =
    ["des: return strings.HasSuffix(de.Name(), \".tmp\")"] := rfl

/-- every `*apk.Cache` with a HEAD memo is made inside a function, per invocation (the CLI commands); the one value
that lives as long as the process, `options.Default.SharedCache`, has none -/
theorem tie_new_cache_sites : Generated.cacheglue_newCacheSites =
    ["internal/cli/build.go: func: apk.NewCache(true)",
     "internal/cli/dot.go: func: apk.NewCache(true)",
     "internal/cli/lock.go: func: apk.NewCache(true)",
     "internal/cli/publish.go: func: apk.NewCache(true)",
     "internal/cli/show-config.go: func: apk.NewCache(true)",
     "internal/cli/show-packages.go: func: apk.NewCache(true)",
     "pkg/options/options.go: package-level var: apk.NewCache(false)"] := rfl

/-- `expandPackage`: a package location that maps to no cache directory fails the fetch (the package is never
cached under a directory the cache was not given: `cachePackage` is only ever called with the directory
`cacheDirForPackage` returned) -/
theorem tie_expandPackage_cache_dir : Generated.cacheglue_cacheDirForPackageErr =
    "cacheDir, err = cacheDirForPackage(a.cache.dir, pkg); err != nil => return nil, err" ∧
    Generated.cacheglue_cachePackageCalls = ["a.cachePackage(ctx, pkg, exp, cacheDir)"] := ⟨rfl, rfl⟩

/-- the branch of `RoundTrip` that has no validator (`Model.plainFetch`, `storesReal`): selected by `!t.etagRequired`,
a hit is an `os.Open` of the URL's cache file that succeeds (nothing else is looked at: no validator), a miss fails
offline and otherwise hands the request to the wrapped client — the ONLY call it makes: nothing is saved there -/
theorem tie_unvalidated_branch_stores_nothing : Generated.cacheglue_plainCond = "!t.etagRequired" ∧
    Generated.cacheglue_plainOpen = "f, err := os.Open(cacheFile)" ∧
    Generated.cacheglue_plainHit = "return {StatusCode: http.StatusOK, Body: f}, nil" ∧
    Generated.cacheglue_plainMiss = ["if t.offline { return nil, fmt.Errorf(…) }", "return t.wrapped.Do(request)"] ∧
    Generated.cacheglue_plainMissCalls = ["t.wrapped.Do(request)"] := ⟨rfl, rfl, rfl, rfl, rfl⟩

/-- key discovery goes through that branch (`client(client, false)`), its successful answer is remembered per
repository in the cache object (`Model.discover`: `memo`) -/
theorem tie_discovery_client_and_memo : Generated.cacheglue_discoverCalls =
    ["a.cache.client(client, false)", "a.cache.shared.discoverKeys.Do(repository)"] := rfl

/-- `fetchChainguardKeys` logs the error of a discovery and goes on without keys (`Model.discover … = none` does not
fail the build: finding F19h for offline builds) -/
theorem tie_discovery_error_is_logged : Generated.cacheglue_discoverErr =
    "keys, err := a.DiscoverKeys(ctx, repository); err != nil => log.Warnf(…)" := rfl

end Apko.C19
