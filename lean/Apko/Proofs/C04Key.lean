import Apko.Proofs.C04

/-!
# C04, the key file: what `RSAVerifyDigest` makes of a configured key

`Proofs/C04.lean` treats `sign.RSAVerifyDigest(digest, alg, sig, keyFile) == nil` as one uninterpreted
predicate.  That function is apko's own code (pkg/apk/signature/rsa.go), and it decides which FILES count
as keys: here it is modelled check by check over uninterpreted `encoding/pem`, `crypto/x509` and
`crypto/rsa` (`Model/IndexSig.lean: KeyLib`, `rsaVerifyDigest`), tied to the regenerated statement list,
and the headline theorem of C04 is restated with the key spelled out: an accepted index was verified with an
RSA public key that is the PKIX content of the FIRST PEM block of a configured key file.  In particular a
key file that has no PEM block, whose first block is not a PKIX public key (PKCS#1 `RSA PUBLIC KEY`, a
private key, a comment block in front of the key), or whose key is not RSA verifies nothing — for every
interpretation of the libraries.
-/

namespace Apko.C04
open Apko Apko.IndexSig

/-- tie: the chain of checks in `RSAVerifyDigest`, statement by statement (messages blanked) -/
theorem tie_rsaVerifyDigest : Generated.stmts_RSAVerifyDigest =
    ["if len(digest) != digestType.Size() { return errDigestLength }",
     "block, _ := pem.Decode(publicKey)",
     "if block == nil { return errNoPemBlock }",
     "pub, err := x509.ParsePKIXPublicKey(block.Bytes)",
     "if err != nil { return fmt.Errorf(\"\", err) }",
     "rsaPub, ok := pub.(*rsa.PublicKey)",
     "if !ok { return errNoRSAKey }",
     "err = rsa.VerifyPKCS1v15(rsaPub, digestType, digest, signature)",
     "if err != nil { return fmt.Errorf(\"\", err) }",
     "return nil"] := by rfl

/-- `RSAVerifyDigest` answers nil exactly when the digest has the algorithm's size, the file's first PEM
block parses as a PKIX RSA public key, and the signature verifies under THAT key -/
theorem rsaVerifyDigest_iff (L : KeyLib) (pem : Bytes) (alg : Alg) (digest sig : Bytes) :
    rsaVerifyDigest L pem alg digest sig = true ↔
      digest.length = L.hashSize alg ∧
      ∃ der key, L.pemDecodeFirst pem = some der ∧ L.parsePKIX der = some (some key) ∧
        L.verifyPKCS1v15 key alg digest sig = true := by
  unfold rsaVerifyDigest
  by_cases hd : digest.length = L.hashSize alg
  · simp only [hd, bne_self_eq_false, Bool.false_eq_true, if_false, true_and]
    cases hp : L.pemDecodeFirst pem with
    | none => simp
    | some der =>
      cases hk : L.parsePKIX der with
      | none => simp [hk]
      | some ok =>
        cases ok with
        | none => simp [hk]
        | some key => simp [hk]
  · have : (digest.length != L.hashSize alg) = true := by simp [bne_iff_ne, hd]
    simp [this, hd]

/-- a file without a PEM block verifies nothing -/
theorem no_block_verifies_nothing (L : KeyLib) (pem : Bytes) (h : L.pemDecodeFirst pem = none)
    (alg : Alg) (digest sig : Bytes) : rsaVerifyDigest L pem alg digest sig = false := by
  cases hv : rsaVerifyDigest L pem alg digest sig with
  | false => rfl
  | true =>
    obtain ⟨_, der, _, hd, _⟩ := (rsaVerifyDigest_iff L pem alg digest sig).mp hv
    rw [h] at hd; cases hd

/-- a file whose first block is not a PKIX public key (PKCS#1 `RSA PUBLIC KEY`, a private key, a certificate, a
comment block in front of the key) verifies nothing, whatever follows the first block -/
theorem not_pkix_verifies_nothing (L : KeyLib) (pem der : Bytes) (hb : L.pemDecodeFirst pem = some der)
    (hk : L.parsePKIX der = none) (alg : Alg) (digest sig : Bytes) :
    rsaVerifyDigest L pem alg digest sig = false := by
  cases hv : rsaVerifyDigest L pem alg digest sig with
  | false => rfl
  | true =>
    obtain ⟨_, der2, key, hd, hp, _⟩ := (rsaVerifyDigest_iff L pem alg digest sig).mp hv
    rw [hb] at hd; cases hd; rw [hk] at hp; cases hp

/-- a PKIX key that is not RSA verifies nothing -/
theorem not_rsa_verifies_nothing (L : KeyLib) (pem der : Bytes) (hb : L.pemDecodeFirst pem = some der)
    (hk : L.parsePKIX der = some none) (alg : Alg) (digest sig : Bytes) :
    rsaVerifyDigest L pem alg digest sig = false := by
  cases hv : rsaVerifyDigest L pem alg digest sig with
  | false => rfl
  | true =>
    obtain ⟨_, der2, key, hd, hp, _⟩ := (rsaVerifyDigest_iff L pem alg digest sig).mp hv
    rw [hb] at hd; cases hd; rw [hk] at hp; cases hp

/-- only the first block counts: two key files with the same first block verify the same signatures -/
theorem first_block_only (L : KeyLib) (pem1 pem2 : Bytes) (h : L.pemDecodeFirst pem1 = L.pemDecodeFirst pem2)
    (alg : Alg) (digest sig : Bytes) :
    rsaVerifyDigest L pem1 alg digest sig = rsaVerifyDigest L pem2 alg digest sig := by
  unfold rsaVerifyDigest; rw [h]

/-- a digest of the wrong size verifies under no key -/
theorem wrong_digest_size_rejected (L : KeyLib) (pem : Bytes) (alg : Alg) (digest sig : Bytes)
    (h : digest.length ≠ L.hashSize alg) : rsaVerifyDigest L pem alg digest sig = false := by
  cases hv : rsaVerifyDigest L pem alg digest sig with
  | false => rfl
  | true => exact absurd ((rsaVerifyDigest_iff L pem alg digest sig).mp hv).1 h

/-- **C04 with the key spelled out.**  For every interpretation of gzip/tar, the hashes and the PEM / X.509 / RSA
libraries: when signatures are checked for this index and the archive is accepted, the first member ended cleanly and
holds an entry `.SIGN.RSA[256].<key>` such that `<key>` is a configured key FILE whose FIRST PEM block is a PKIX RSA
public key under which the entry's body verifies over the digest of exactly the bytes that follow. -/
theorem accept_implies_signed_by_pkix_key (what : Parsed) (sha1 sha256 : Bytes → Bytes) (L : KeyLib) (R : Codec)
    (keys : Keys) (o : Opts) (url arch : Text) (archive : Bytes) (idx : Index)
    (hc : checkOn o url arch = true)
    (h : parseIndexWith what (Crypto.ofLib sha1 sha256 L) R keys o url arch archive = .ok idx) :
    ∃ f, R.readFirst archive = some f ∧ f.ending = .eof ∧
      ∃ e ∈ f.entries, ∃ a keyName file der key,
        Spec.sigEntry e.name = some (a, keyName) ∧ (keyName, file) ∈ keys ∧
        L.pemDecodeFirst file = some der ∧ L.parsePKIX der = some (some key) ∧
        L.verifyPKCS1v15 key a ((Crypto.ofLib sha1 sha256 L).hash a f.rest) e.body = true := by
  obtain ⟨f, hf, hend, e, he, ⟨a, keyName, file, hs, hk, hv⟩, _⟩ :=
    accept_implies_signed what (Crypto.ofLib sha1 sha256 L) R keys o url arch archive idx hc h
  obtain ⟨_, der, key, hd, hp, hver⟩ := (rsaVerifyDigest_iff L file a _ e.body).mp hv
  exact ⟨f, hf, hend, e, he, a, keyName, file, der, key, hs, hk, hd, hp, hver⟩

/-- with key files none of which yields a PKIX RSA key from its first block, every checked index is rejected -/
theorem no_usable_key_rejected (what : Parsed) (sha1 sha256 : Bytes → Bytes) (L : KeyLib) (R : Codec)
    (keys : Keys) (o : Opts) (url arch : Text) (archive : Bytes)
    (hc : checkOn o url arch = true)
    (hno : ∀ k ∈ keys, ∀ der, L.pemDecodeFirst k.2 = some der → ∀ key, L.parsePKIX der ≠ some (some key)) :
    ∃ r, parseIndexWith what (Crypto.ofLib sha1 sha256 L) R keys o url arch archive = .rej r := by
  cases hres : parseIndexWith what (Crypto.ofLib sha1 sha256 L) R keys o url arch archive with
  | rej r => exact ⟨r, rfl⟩
  | ok idx =>
    obtain ⟨f, _, _, e, _, a, keyName, file, der, key, _, hk, hd, hp, _⟩ :=
      accept_implies_signed_by_pkix_key what sha1 sha256 L R keys o url arch archive idx hc hres
    exact absurd hp (hno (keyName, file) hk der hd key)

/-- the hypotheses are satisfiable and the chain is not vacuous: a library in which the file `f` holds the block
`b`, which parses to the RSA key `k`, under which signature `s` verifies a 20-byte digest -/
example :
    let L : KeyLib := { pemDecodeFirst := fun f => if f = ['f'] then some ['b'] else none,
                        parsePKIX := fun d => if d = ['b'] then some (some ['k']) else none,
                        verifyPKCS1v15 := fun k _ _ s => k = ['k'] && s = ['s'],
                        hashSize := fun | .sha1 => 20 | .sha256 => 32 }
    rsaVerifyDigest L ['f'] .sha1 (List.replicate 20 'd') ['s'] = true ∧
    rsaVerifyDigest L ['f'] .sha256 (List.replicate 20 'd') ['s'] = false ∧
    rsaVerifyDigest L ['g'] .sha1 (List.replicate 20 'd') ['s'] = false := by decide

end Apko.C04
