import Apko.Model.FS
import Apko.Proofs.Lemmas.FSAtomic
/-! C17 — the virtual file systems behave like a file system (theorems over `Model/FS.lean`) -/
namespace Apko.C17
open Apko Apko.Path Apko.FS

theorem name_le_total (a b : Name) : a ≤ b ∨ b ≤ a := List.le_total a b
theorem name_le_trans {a b c : Name} (h1 : a ≤ b) (h2 : b ≤ c) : a ≤ c := List.le_trans h1 h2

/-- listings are sorted by name -/
theorem readdir_sorted (fs : FS) (d : Ino) :
    (readdir fs d).Pairwise (fun a b => a.1 ≤ b.1) := by
  have := List.pairwise_mergeSort (le := fun (a b : Name × Ino) => decide (a.1 ≤ b.1))
    (fun a b c h1 h2 => by simp only [decide_eq_true_eq] at *; exact name_le_trans h1 h2)
    (fun a b => by simp only [Bool.or_eq_true, decide_eq_true_eq]; exact name_le_total a.1 b.1)
    (fs.node d).children
  simpa [readdir, sortNames] using this

/-! ### an operation that reports failure leaves the observable state unchanged -/

/-- permission arguments carry no type bits (true of every call in apko; `fs.FileMode` would let a
caller smuggle `ModeSymlink` into `OpenFile`/`MkdirAll`, which then create a node and fail) -/
def opPermOK : Op → Prop
  | .mkdirAll _ perm => permOK perm
  | .openFile _ _ perm => permOK perm
  | .writeFile _ _ perm => permOK perm
  | _ => True

def notWriteHeader : Op → Prop
  | .writeHeader _ => False
  | _ => True

theorem openCore_err (c : Cfg) (fs : FS) (name : Text) (flag perm : Nat) (hp : permOK perm) (e : Err)
    (h : (openCore c fs name flag perm).2 = .error e) : (openCore c fs name flag perm).1 = fs := by
  unfold openCore at *
  have := openFileD_err c flag perm hp maxLinks fs [0] name
  split at h
  · rename_i fs1 e' heq
    simp only [heq] at this ⊢
    exact this e' rfl
  · simp at h

theorem failure_atomic (c : Cfg) (fs : FS) (op : Op) (hw : notWriteHeader op) (hp : opPermOK op)
    (hroot : (fs.node 0).dir = true) (herr : (step c fs op).2.isErr = true) :
    observe (step c fs op).1 = observe fs := by
  cases op with
  | writeHeader h => exact absurd hw (by simp [notWriteHeader])
  | mkdirAll p perm =>
    simp only [step, mkdirAll] at herr ⊢
    split at herr
    · simp_all
    · have := mkdirAllLoop_err c (modeDir ||| perm) (dirMode_ok perm hp)
        ((parts p).filter (· ≠ dot)) fs { ino := 0 } []
      split at herr
      · simp [Out.isErr] at herr
      · rename_i fs' e heq
        simp only [heq] at this ⊢
        simp_all
  | openFile p flag perm =>
    simp only [step] at herr ⊢
    have := openCore_err c fs p flag perm hp
    split at herr
    · rename_i fs1 e heq
      simp only [heq] at this ⊢
      simp [observe, this e rfl]
    · simp [Out.isErr] at herr
  | create p =>
    simp only [step] at herr ⊢
    have := openCore_err c fs p flagsWriteFile 0o666 (by unfold permOK; decide)
    split at herr
    · rename_i fs1 e heq
      simp only [heq] at this ⊢
      simp [observe, this e rfl]
    · simp [Out.isErr] at herr
  | readFile p =>
    simp only [step] at herr ⊢
    have := openCore_err c fs p 0 0o644 (by unfold permOK; decide)
    split at herr
    · rename_i fs1 e heq
      simp only [heq] at this ⊢
      simp [this e rfl]
    · simp [Out.isErr] at herr
  | writeFile p data perm =>
    simp only [step] at herr ⊢
    have := openCore_err c fs p flagsWriteFile perm hp
    split at herr
    · rename_i fs1 e heq
      simp only [heq] at this ⊢
      simp [this e rfl]
    · simp [Out.isErr] at herr
  | _ =>
    simp only [step, setXattr, linkOp] at herr ⊢
    repeat' split at herr
    all_goals (try simp [Out.isErr] at herr)
    all_goals (try simp_all)
    all_goals (repeat' split)
    all_goals simp_all

end Apko.C17
