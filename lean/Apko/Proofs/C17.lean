import Apko.Model.FS
/-! C17 — the virtual file systems behave like a file system (theorems over `Model/FS.lean`) -/
namespace Apko.C17
open Apko Apko.Path Apko.FS

theorem name_le_total (a b : Name) : a ≤ b ∨ b ≤ a := List.le_total a b
theorem name_le_trans {a b c : Name} (h1 : a ≤ b) (h2 : b ≤ c) : a ≤ c := List.le_trans h1 h2

/-- listings are sorted by name -/
theorem readdir_sorted (fs : FS) (d : Ino) :
    (readdir fs d).Pairwise (fun a b => a.1 ≤ b.1) := by
  have := List.pairwise_mergeSort (le := fun (a b : Name × Ino) => decide (a.1 ≤ b.1))
    (fun a b c h1 h2 => by simp only [decide_eq_true_eq] at *; exact name_le_trans h1 h2)
    (fun a b => by simp only [Bool.or_eq_true, decide_eq_true_eq]; exact name_le_total a.1 b.1)
    (fs.node d).children
  simpa [readdir, sortNames] using this

end Apko.C17
