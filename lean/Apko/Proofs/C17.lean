import Apko.Model.FS
import Apko.Proofs.Lemmas.FSAtomic
import Apko.Proofs.Lemmas.FSData
import Apko.Proofs.Lemmas.FSInvStep
import Apko.Proofs.Lemmas.FSShape
import Apko.Proofs.Lemmas.FSCount
import Apko.Proofs.Lemmas.FSTree
import Apko.Proofs.Lemmas.FSDirBit
import Apko.Proofs.Lemmas.FSWalk
import Apko.Proofs.Lemmas.FSSub
import Apko.Proofs.Lemmas.FSWalkDir
import Apko.Proofs.Lemmas.FSSymBit
import Apko.Proofs.Lemmas.TarWalk
import Apko.Proofs.Lemmas.FSPosixDemo
import Apko.Proofs.Lemmas.FSPosixSim
import Apko.Proofs.Lemmas.FSPosixLF
import Apko.Proofs.Lemmas.FSDisk
import Apko.Proofs.Lemmas.FSShare
import Apko.Proofs.Lemmas.FSReopen
import Apko.Generated.FS
/-! C17 — the virtual file systems behave like a file system (theorems over `Model/FS.lean`) -/
namespace Apko.C17
open Apko Apko.Path Apko.FS

theorem name_le_total (a b : Name) : a ≤ b ∨ b ≤ a := List.le_total a b
theorem name_le_trans {a b c : Name} (h1 : a ≤ b) (h2 : b ≤ c) : a ≤ c := List.le_trans h1 h2

/-- listings are sorted by name -/
theorem readdir_sorted (fs : FS) (d : Ino) :
    (readdir fs d).Pairwise (fun a b => a.1 ≤ b.1) := by
  have := List.pairwise_mergeSort (le := fun (a b : Name × Ino) => decide (a.1 ≤ b.1))
    (fun a b c h1 h2 => by simp only [decide_eq_true_eq] at *; exact name_le_trans h1 h2)
    (fun a b => by simp only [Bool.or_eq_true, decide_eq_true_eq]; exact name_le_total a.1 b.1)
    (fs.node d).children
  simpa [readdir, sortNames] using this

/-- listings are complete: exactly the entries of the directory node, each once -/
theorem readdir_complete (fs : FS) (d : Ino) : (readdir fs d).Perm (fs.node d).children := by
  simpa [readdir, sortNames] using List.mergeSort_perm (fs.node d).children _

/-- listings are duplicate-free (names inside one directory are distinct) -/
theorem readdir_nodup (fs : FS) (hi : Inv fs) (d : Ino) : ((readdir fs d).map (·.1)).Nodup :=
  ((readdir_complete fs d).map _).nodup_iff.mpr (hi.names d)

/-- **readdir_complete_sorted_nodup** for every reachable state -/
theorem readdir_complete_sorted_nodup (fs : FS) (hi : Inv fs) (d : Ino) :
    (readdir fs d).Perm (fs.node d).children ∧
    (readdir fs d).Pairwise (fun a b => a.1 ≤ b.1) ∧ ((readdir fs d).map (·.1)).Nodup :=
  ⟨readdir_complete fs d, readdir_sorted fs d, readdir_nodup fs hi d⟩

/-- the `ReadDir` operation answers with exactly that listing -/
theorem readDir_op (c : Cfg) (fs : FS) (p : Text) (i : Ino) (h : getNode c fs p = .ok i)
    (hd : (fs.node i).dir = true) :
    ∃ es, (step c fs (.readDir p)).2 = .ok (.entries es) ∧ es.map (·.name) = (readdir fs i).map (·.1) := by
  refine ⟨(sortNames (fs.node i).children).map fun e => statOf c (fs.node e.2) e.1 (join2 p e.1), ?_, ?_⟩
  · simp only [step, h, hd]; rfl
  · simp [readdir, statOf]

/-! ### the structural invariant -/

/-- **inv_step** (re-exported from `Lemmas/FSInvStep.lean`) -/
theorem inv_step (c : Cfg) (fs : FS) (op : Op) (hi : Inv fs) (hb : DirBit fs) : Inv (step c fs op).1 :=
  FS.inv_step c fs op hi hb

theorem inv_empty : Inv FS.empty := Inv.empty

/-- resolution only ever returns live inodes -/
theorem resolve_live (c : Cfg) (fs : FS) (hi : Inv fs) (p : Text) (i : Ino) (h : getNode c fs p = .ok i) :
    i < fs.nodes.length := getNode_live hi c p i h

/-! ### an operation that reports failure leaves the observable state unchanged -/

/-- permission arguments carry no type bits (true of every call in apko; `fs.FileMode` would let a
caller smuggle `ModeSymlink` into `OpenFile`/`MkdirAll`, which then create a node and fail) -/
def opPermOK : Op → Prop
  | .mkdirAll _ perm => permOK perm
  | .openFile _ _ perm => permOK perm
  | .writeFile _ _ perm => permOK perm
  | _ => True

def notWriteHeader : Op → Prop
  | .writeHeader _ => False
  | _ => True

theorem openCore_err (c : Cfg) (fs : FS) (name : Text) (flag perm : Nat) (hp : permOK perm) (e : Err)
    (h : (openCore c fs name flag perm).2 = .error e) : (openCore c fs name flag perm).1 = fs := by
  unfold openCore at *
  have := openFileD_err c flag perm hp maxLinks fs [0] name
  split at h
  · rename_i fs1 e' heq
    simp only [heq] at this ⊢
    exact this e' rfl
  · simp at h

theorem failure_atomic (c : Cfg) (fs : FS) (op : Op) (hw : notWriteHeader op) (hp : opPermOK op)
    (hroot : (fs.node 0).dir = true) (herr : (step c fs op).2.isErr = true) :
    observe (step c fs op).1 = observe fs := by
  cases op with
  | writeHeader h => exact absurd hw (by simp [notWriteHeader])
  | mkdirAll p perm =>
    simp only [step, mkdirAll] at herr ⊢
    split at herr
    · simp_all
    · have := mkdirAllLoop_err c (modeDir ||| perm) (dirMode_ok perm hp)
        ((parts p).filter (· ≠ dot)) fs { ino := 0 } []
      split at herr
      · simp [Out.isErr] at herr
      · rename_i fs' e heq
        simp only [heq] at this ⊢
        simp_all
  | openFile p flag perm =>
    simp only [step] at herr ⊢
    have := openCore_err c fs p flag perm hp
    split at herr
    · rename_i fs1 e heq
      simp only [heq] at this ⊢
      simp [observe, this e rfl]
    · simp [Out.isErr] at herr
  | create p =>
    simp only [step] at herr ⊢
    have := openCore_err c fs p flagsWriteFile 0o666 (by unfold permOK; decide)
    split at herr
    · rename_i fs1 e heq
      simp only [heq] at this ⊢
      simp [observe, this e rfl]
    · simp [Out.isErr] at herr
  | readFile p =>
    simp only [step] at herr ⊢
    have := openCore_err c fs p 0 0o644 (by unfold permOK; decide)
    split at herr
    · rename_i fs1 e heq
      simp only [heq] at this ⊢
      simp [this e rfl]
    · simp [Out.isErr] at herr
  | writeFile p data perm =>
    simp only [step] at herr ⊢
    have := openCore_err c fs p flagsWriteFile perm hp
    split at herr
    · rename_i fs1 e heq
      simp only [heq] at this ⊢
      simp [this e rfl]
    · simp [Out.isErr] at herr
  | _ =>
    simp only [step, setXattr, linkOp] at herr ⊢
    repeat' split at herr
    all_goals (try simp [Out.isErr] at herr)
    all_goals (try simp_all)
    all_goals (repeat' split)
    all_goals simp_all

/-! ### reads return exactly the bytes last written -/

/-- slot `hi` holds an open file object on node `ino` at offset `off` through which the node's
data can be written (any open flag combination except the one `Write` refuses) -/
structure Writable (fs : FS) (hi : Nat) (ino : Nat) (off : Nat) : Prop where
  h : ∃ hd : Handle, fs.handles[hi]? = some hd ∧ hd.valid = true ∧ hd.closed = false ∧ hd.rc = false ∧
        ¬(oAppend hd.flag ∧ oRdwr hd.flag ∧ oWronly hd.flag) ∧ hd.offset = off ∧ hd.ino = ino
  live : ino < fs.nodes.length

theorem write_step (c : Cfg) (fs : FS) (hi ino off : Nat) (p : Text) (hw : Writable fs hi ino off) :
    let r := step c fs (.write hi p)
    r.2 = .ok (.num p.length) ∧ (r.1.node ino).data = writeAt (fs.node ino).data off p ∧
    Writable r.1 hi ino (off + p.length) ∧ r.1.nodes.length = fs.nodes.length := by
  obtain ⟨⟨hd, h1, h2, h3, h4, h5, h6, h7⟩, hl⟩ := hw
  have hlen : hi < fs.handles.length := by
    rcases Nat.lt_or_ge hi fs.handles.length with h | h
    · exact h
    · rw [List.getElem?_eq_none h] at h1; cases h1
  subst h7
  simp only [step, h1, h2, h3, h4, h5, h6]
  simp only [Bool.not_true, Bool.false_eq_true, if_false, Int.toNat_natCast]
  refine ⟨trivial, ?_, ⟨⟨{ hd with offset := (off : Int) + p.length }, ?_, ?_⟩, ?_⟩, ?_⟩
  · simp [FS.setHandle, FS.node, FS.setNode, List.getD_eq_getElem?_getD, hl]
  · simp [FS.setHandle, FS.setNode, hlen, h2, h3, h4]
  · simp_all
  · simpa [FS.setHandle] using hl
  · simp [FS.setHandle]

theorem seek_step (c : Cfg) (fs : FS) (hi ino off : Nat) (to : Nat) (hw : Writable fs hi ino off) :
    let r := step c fs (.seek hi to 0)
    r.2 = .ok (.num to) ∧ r.1.nodes = fs.nodes ∧ Writable r.1 hi ino to := by
  obtain ⟨⟨hd, h1, h2, h3, h4, h5, h6, h7⟩, hl⟩ := hw
  have hlen : hi < fs.handles.length := by
    rcases Nat.lt_or_ge hi fs.handles.length with h | h
    · exact h
    · rw [List.getElem?_eq_none h] at h1; cases h1
  subst h7
  simp only [step, h1, h2, h3, h4]
  simp only [Bool.not_true, Bool.false_eq_true, if_false, if_true]
  have : ¬ ((to : Int) < 0) := by omega
  simp only [show ¬ (0 > 2) by omega, this, if_false]
  refine ⟨trivial, rfl, ⟨⟨{ hd with offset := (to : Int) }, ?_, ?_⟩, ?_⟩⟩
  · simp [FS.setHandle, hlen, h2, h3, h4]
  · simp_all
  · simpa [FS.setHandle] using hl

/-- the operations of a seek-then-write pattern on one file object, oldest first -/
def wrOps (hi : Nat) : List (Nat × Text) → List Op
  | [] => []
  | w :: rest => .seek hi w.1 0 :: .write hi w.2 :: wrOps hi rest

/-- **read_after_write**, data level: after any pattern of seeks and writes through an open file
object (including writes after seeking past the end) the node's bytes are those of the
reference "newest covering write wins, holes are zero". -/
theorem data_after_writes (c : Cfg) (hi ino : Nat) :
    ∀ (ws : List (Nat × Text)) (fs : FS) (off : Nat), Writable fs hi ino off →
      ((run c fs (wrOps hi ws)).1.node ino).data =
        ws.foldl (fun d w => writeAt d w.1 w.2) (fs.node ino).data := by
  intro ws
  induction ws with
  | nil => intro fs off _; simp [wrOps, run]
  | cons w rest ih =>
    intro fs off hw
    simp only [wrOps, run, List.foldl_cons]
    obtain ⟨_, hn, hw1⟩ := seek_step c fs hi ino off w.1 hw
    obtain ⟨_, hd, hw2, _⟩ := write_step c (step c fs (.seek hi w.1 0)).1 hi ino w.1 w.2 hw1
    rw [ih _ _ hw2, hd]
    simp [FS.node, hn]

theorem foldl_writeAt_eq_applyWrites (ws : List (Nat × Text)) :
    ws.foldl (fun d w => writeAt d w.1 w.2) [] = applyWrites ws.reverse := by
  suffices h : ∀ (ws : List (Nat × Text)) (older : List (Nat × Text)),
      ws.foldl (fun d w => writeAt d w.1 w.2) (applyWrites older) = applyWrites (ws.reverse ++ older) by
    simpa [applyWrites] using h ws []
  intro ws
  induction ws with
  | nil => simp
  | cons w rest ih =>
    intro older
    simp only [List.foldl_cons, List.reverse_cons, List.append_assoc, List.singleton_append]
    exact ih (w :: older)

/-- **read_after_write**: on a file that was empty (created or truncated), after any seek/write
pattern, byte `i` is the byte of the newest write that covers `i`, zero inside a hole, and absent
past the end. -/
theorem read_after_write (c : Cfg) (fs : FS) (hi ino off : Nat) (ws : List (Nat × Text)) (i : Nat)
    (hw : Writable fs hi ino off) (hempty : (fs.node ino).data = []) :
    ((run c fs (wrOps hi ws)).1.node ino).data[i]? = lastWriteWins ws.reverse i := by
  rw [data_after_writes c hi ino ws fs off hw, hempty, foldl_writeAt_eq_applyWrites, applyWrites_spec]

/-- what `ReadAt(n, off)` returns through any open file object of the node is the window
`[off, off+n)` of its data -/
theorem readAt_window (c : Cfg) (fs : FS) (hj : Nat) (hd : Handle) (n off : Nat)
    (h1 : fs.handles[hj]? = some hd) (h2 : hd.valid = true) (h3 : hd.closed = false) (h4 : hd.rc = false)
    (hoff : off < (fs.node hd.ino).data.length) :
    step c fs (.readAt hj n off) = (fs, .ok (.bytes (((fs.node hd.ino).data.drop off).take n) false)) := by
  simp only [step, h1, h2, h3]
  have hge : ¬ (off ≥ (fs.node hd.ino).data.length) := by omega
  have hnn : ¬ ((off : Int) < 0) := by omega
  simp only [handleData, h4, readAtOff, hge, hnn, Bool.not_true, Bool.false_eq_true, if_false,
    Int.toNat_natCast]

/-- writing `p` and reading the same window back through any file object of that node gives `p` -/
theorem write_then_readAt (c : Cfg) (fs : FS) (hi hj ino off : Nat) (p : Text) (hp : p ≠ [])
    (hw : Writable fs hi ino off)
    (hr : ∃ hd : Handle, (step c fs (.write hi p)).1.handles[hj]? = some hd ∧ hd.valid = true ∧
            hd.closed = false ∧ hd.rc = false ∧ hd.ino = ino) :
    (step c (step c fs (.write hi p)).1 (.readAt hj p.length off)).2 = .ok (.bytes p false) := by
  obtain ⟨hd, h1, h2, h3, h4, h5⟩ := hr
  obtain ⟨_, hdata, _, _⟩ := write_step c fs hi ino off p hw
  have hlen : off < ((step c fs (.write hi p)).1.node hd.ino).data.length := by
    rw [h5, hdata, writeAt_length _ _ _ hp]
    have : 0 < p.length := List.length_pos_iff.mpr hp
    omega
  rw [readAt_window c _ hj hd p.length off h1 h2 h3 h4 hlen, h5, hdata, writeAt_read_back _ _ _ hp]

/-! ### metadata reads return what was last set -/

/-- content and metadata updates do not change what any path resolves to -/
theorem resolve_stable_under_metadata (c : Cfg) (fs : FS) (i : Nat) (f : Inode → Inode)
    (hd : ∀ n, (f n).dir = n.dir) (hc : ∀ n, (f n).children = n.children)
    (hs : (f (fs.node i)).isSymlink = (fs.node i).isSymlink) (ht : ∀ n, (f n).target = n.target) (q : Text) :
    getNode c (fs.modify i f) q = getNode c fs q :=
  getNode_shape (ShapeEq.modify fs i f hd hc hs ht) c q

/-- **meta_read_after_set** (mode): after `Chmod(p, perm)`, `Stat(p)` reports `perm` with the type
bits of the node kept -/
theorem chmod_then_stat (c : Cfg) (fs : FS) (hi : Inv fs) (p : Text) (perm : Nat) (hp : permOK perm)
    (i : Ino) (h : getNode c fs p = .ok i) :
    (step c fs (.chmod p perm)).2 = .ok .unit ∧
    ∃ s, (step c (step c fs (.chmod p perm)).1 (.stat p)).2 = .ok (.stat s) ∧
      s.mode = typeKeep (fs.node i).mode perm ∧ s.uid = (fs.node i).uid ∧ s.mtime = (fs.node i).mtime := by
  have hl := getNode_live hi c p i h
  have hst : getNode c (fs.modify i fun n => { n with mode := typeKeep n.mode perm }) p = .ok i := by
    rw [resolve_stable_under_metadata c fs i (fun n => { n with mode := typeKeep n.mode perm })
      (by intro n; rfl) (by intro n; rfl) (by simp [Inode.isSymlink, typeKeep_bit27 _ _ hp]) (by intro n; rfl)]
    exact h
  simp only [step, h, hst]
  refine ⟨trivial, _, rfl, ?_⟩
  simp [statOf, node_modify, hl]

/-- **meta_read_after_set** (owner) -/
theorem chown_then_stat (c : Cfg) (fs : FS) (hi : Inv fs) (p : Text) (uid gid : Int)
    (i : Ino) (h : getNode c fs p = .ok i) :
    ∃ s, (step c (step c fs (.chown p uid gid)).1 (.stat p)).2 = .ok (.stat s) ∧
      s.uid = uid ∧ s.gid = gid ∧ s.mode = (fs.node i).mode := by
  have hl := getNode_live hi c p i h
  have hst : getNode c (fs.modify i fun n => { n with uid := uid, gid := gid }) p = .ok i := by
    rw [resolve_stable_under_metadata c fs i (fun n => { n with uid := uid, gid := gid })
      (by intro n; rfl) (by intro n; rfl) rfl (by intro n; rfl)]; exact h
  simp only [step, h, hst]
  refine ⟨_, rfl, ?_⟩
  simp [statOf, node_modify, hl]

/-- **meta_read_after_set** (modification time) -/
theorem chtimes_then_stat (c : Cfg) (fs : FS) (hi : Inv fs) (p : Text) (t : Int)
    (i : Ino) (h : getNode c fs p = .ok i) :
    ∃ s, (step c (step c fs (.chtimes p t)).1 (.stat p)).2 = .ok (.stat s) ∧ s.mtime = t := by
  have hl := getNode_live hi c p i h
  have hst : getNode c (fs.modify i fun n => { n with mtime := t }) p = .ok i := by
    rw [resolve_stable_under_metadata c fs i (fun n => { n with mtime := t })
      (by intro n; rfl) (by intro n; rfl) rfl (by intro n; rfl)]; exact h
  simp only [step, h, hst]
  refine ⟨_, rfl, ?_⟩
  simp [statOf, node_modify, hl]

/-- **meta_read_after_set** (extended attributes) -/
theorem setXattr_then_getXattr (c : Cfg) (fs : FS) (hi : Inv fs) (p : Text) (a : Name) (d : Text)
    (i : Ino) (h : getNode c fs p = .ok i) :
    (step c (step c fs (.setXattr p a d)).1 (.getXattr p a)).2 = .ok (.text d) := by
  have hl := getNode_live hi c p i h
  have hst : getNode c (fs.modify i fun n => { n with xattrs := setAssoc n.xattrs a d }) p = .ok i := by
    rw [resolve_stable_under_metadata c fs i (fun n => { n with xattrs := setAssoc n.xattrs a d })
      (by intro n; rfl) (by intro n; rfl) rfl (by intro n; rfl)]; exact h
  simp only [step, setXattr, h, hst]
  simp [node_modify, hl, lookup_setAssoc]

theorem lookup_setChild (cs : List (Name × Ino)) (n : Name) (t : Ino) : (setChild cs n t).lookup n = some t := by
  unfold setChild
  induction cs with
  | nil => simp [List.lookup]
  | cons e rest ih =>
    by_cases he : e.1 = n
    · simpa [List.filter, he] using ih
    · have : (n == e.1) = false := by simpa using fun h => he h.symm
      simp only [List.filter, he, ne_eq, not_false_eq_true, decide_true, List.cons_append, List.lookup, this]
      simpa using ih

/-! ### hard links share content -/

/-- `Link(old, new)` succeeds when the parent of the new name is a directory, the old name resolves
to something that is not a directory, and the new name is free and a real entry name -/
theorem link_succeeds (c : Cfg) (fs : FS) (o n : Text) (pi t : Ino)
    (hp : getNode c fs (dir n) = .ok pi) (ho : getNode c fs o = .ok t)
    (hd : (fs.node pi).dir = true) (htd : (fs.node t).dir = false) (hdn : dotName (base n) = false)
    (hnone : fs.lookup pi (base n) = none) :
    step c fs (.link o n) =
      ((fs.link pi (base n) t).modify t fun nd => { nd with nlink := nd.nlink + 1 }, .ok .unit) := by
  simp [step, linkOp, parentOf, hp, ho, hd, hnone, htd, hdn]

/-- **hardlinks_share**: a successful `Link(old, new)` enters under the new name the very inode the old
name resolves to — contents, metadata and xattrs live in the inode, so every later read or write
through either name acts on the same data — and that inode is never a directory (`EPERM`, F17h), so
hard links cannot make a directory reachable twice. -/
theorem hardlinks_share (c : Cfg) (fs : FS) (o n : Text)
    (hok : (step c fs (.link o n)).2 = .ok .unit) :
    ∃ pi t, getNode c fs (dir n) = .ok pi ∧ getNode c fs o = .ok t ∧ (fs.node t).dir = false ∧
      dotName (base n) = false ∧ (step c fs (.link o n)).1.lookup pi (base n) = some t := by
  simp only [step, linkOp, parentOf] at hok
  cases hp : getNode c fs (dir n) with
  | error e => simp [hp] at hok
  | ok pi =>
    simp only [hp] at hok
    cases hd : (fs.node pi).dir with
    | false => simp [hd] at hok
    | true =>
      simp only [hd, Bool.not_true, Bool.false_eq_true, if_false] at hok
      cases ho : getNode c fs o with
      | error e => simp [ho] at hok
      | ok t =>
        simp only [ho] at hok
        cases htd : (fs.node t).dir with
        | true => simp [htd] at hok
        | false =>
          simp only [htd, Bool.false_eq_true, if_false] at hok
          cases hdn : dotName (base n) with
          | true => simp [hdn] at hok
          | false =>
            simp only [hdn, Bool.false_eq_true, if_false] at hok
            cases hnone : fs.lookup pi (base n) with
            | some x => simp [hnone] at hok
            | none =>
              refine ⟨pi, t, rfl, rfl, htd, rfl, ?_⟩
              have hpl := dir_lt fs pi hd
              rw [link_succeeds c fs o n pi t hp ho hd htd hdn hnone]
              simp only [FS.lookup, FS.link, node_modify, length_modify]
              by_cases hpt : pi = t
              · subst hpt; simp [hpl, lookup_setChild]
              · simp [hpt, hpl, lookup_setChild]

/-- **hardlinks_share_content** (reference file system, Impl and Spec alike): for two names of one plain file —
each given as "its parent directory resolves and holds the inode under the base name", which is what a successful
`Link` establishes for the new name (`hardlinks_share`) — `WriteFile` through one name succeeds, `ReadFile`
through the other returns exactly the bytes written and `Stat` through it the new size. -/
theorem hardlinks_share_content (c : Cfg) (fs : FS) (hi : Inv fs) (p q : Text) (pp pq : Pos) (i : Ino)
    (data : Text) (perm : Nat)
    (hp : resolveFrom c fs [0] (dir p) = .ok pp) (hpd : (fs.node pp.ino).dir = true)
    (hpl : fs.lookup pp.ino (base p) = some i)
    (hq : resolveFrom c fs [0] (dir q) = .ok pq) (hqd : (fs.node pq.ino).dir = true)
    (hql : fs.lookup pq.ino (base q) = some i)
    (hnd : (fs.node i).dir = false) (hns : (fs.node i).isSymlink = false) (hte : (fs.node i).te = none) :
    (step c fs (.writeFile p data perm)).2 = .ok .unit ∧
    (step c (step c fs (.writeFile p data perm)).1 (.readFile q)).2 = .ok (.bytes data false) ∧
    (getNode c fs q = .ok i →
      ∃ s, (step c (step c fs (.writeFile p data perm)).1 (.stat q)).2 = .ok (.stat s) ∧ s.size = data.length) := by
  have hlive : i < fs.nodes.length := lookup_live hi hpl
  obtain ⟨h1, h2⟩ := write_read_shared c fs p q pp pq i data perm hlive hp hpd hpl hq hqd hql hnd hns hte
  exact ⟨h1, h2, fun hg => write_stat_shared c fs p q pp i data perm hlive hp hpd hpl hg hnd hns hte⟩

/-- the hypotheses hold in the state after `WriteFile("a/f","old")`, `Link("a/f","h1")`: both names are the inode 2
(under the root and under `a`), a plain file; and writing "new!" through `h1` is read through `a/f` -/
example :
    let c := Cfg.impl .memfs
    let fs := (run c FS.empty [.mkdir "a".toList 0o755, .writeFile "a/f".toList "old".toList 0o644, .link "a/f".toList "h1".toList]).1
    getNode c fs (dir "h1".toList) = .ok 0 ∧ fs.lookup 0 (base "h1".toList) = some 2 ∧
    getNode c fs (dir "a/f".toList) = .ok 1 ∧ fs.lookup 1 (base "a/f".toList) = some 2 ∧
    (fs.node 2).dir = false ∧ (fs.node 2).isSymlink = false ∧ (fs.node 2).te = none ∧
    (step c (step c fs (.writeFile "h1".toList "new!".toList 0o600)).1 (.readFile "a/f".toList)).2 = .ok (.bytes "new!".toList false) := by
  decide +kernel

/-! ### DirFS: hard links share content on disk (round 4)

`DirFS` = an overlay `memfs` (names, kinds, modes; the machine above fed with empty contents) + the host's
directory (`Disk`, `Model/FS.lean`: names ↦ inodes ↦ bytes, driven by the calls `dirFS.WriteFile` / `Link` /
`Create` / `OpenFile` / `Remove` make — ties `tie_stmtsDirfs_*`).  The driver runs both for the `dirfs-hl` cases:
the real `DirFS` must show, on disk (`os.SameFile`, `Nlink`, bytes) and through its interface, what `Disk` shows
(Impl) and what the reference file system's `linkView` shows (Spec). -/

/-- **dirfs_hardlinks_share_content**: whatever is written through one name of an inode — `WriteFile` on the
existing name, truncation by `OpenFile(O_TRUNC)` / `Create`, `Write` through a handle — is what every other
name of the inode reads. -/
theorem dirfs_hardlinks_share_content (d : Disk) (p q : Text) (i : Nat)
    (hp : d.ino p = some i) (hq : d.ino q = some i) (hl : i < d.inodes.length) :
    (∀ b, (d.writeFile p b).read q = some b) ∧
    (∀ flag, oTrunc flag = true → (d.openOk p flag).read q = some []) ∧
    (∀ h off app b, d.handles[h]? = some (some (i, off, app)) →
      (d.write h b).read q = some (writeAt (d.inodes.getD i []) (if app then (d.inodes.getD i []).length else off) b)) :=
  ⟨fun b => Disk.writeFile_shared d p q i b hp hq hl,
   fun flag ht => Disk.openTrunc_shared d p q i flag hp hq hl ht,
   fun h off app b hh => Disk.write_shared d h q i off app b hh hq hl⟩

/-- the hypotheses are met by a state `DirFS` reaches: `WriteFile("f")`, `Link("f","h1")` -/
example : let d := ((({} : Disk).apply (.writeFile "f".toList "old".toList 0o644) true).apply (.link "f".toList "h1".toList) true)
    d.ino "f".toList = some 0 ∧ d.ino "h1".toList = some 0 ∧ 0 < d.inodes.length ∧ d.nlink 0 = 2 := by decide

/-- **dirfs_link_same_inode**: `os.Link` gives the new name the old name's inode and the inode one name more
(what `os.SameFile` and `Nlink` report) without touching any bytes -/
theorem dirfs_link_same_inode (d d2 : Disk) (o n : Text) (h : d.link o n = some d2) :
    ∃ i, d.ino o = some i ∧ d2.ino o = some i ∧ d2.ino n = some i ∧ d2.nlink i = d.nlink i + 1 ∧ d2.inodes = d.inodes :=
  Disk.link_shares d d2 o n h

/-- **dirfs_replace_would_split**: were an existing file replaced by a new one under the same name (temporary
file + rename, the usual "atomic write"), the other names of the old inode would keep the old bytes — the
property's "hard links share content" fails.  `DirFS.WriteFile` therefore has to write in place. -/
theorem dirfs_replace_would_split :
    ∃ (d : Disk) (p q : Text) (b : Text), d.ino p = d.ino q ∧ (d.ino p).isSome ∧
      (d.writeFile p b).read q = some b ∧ (d.replaceFile p b).read q ≠ some b := Disk.replace_splits

/-- the disk states `DirFS` reaches: any sequence of calls, each succeeding or failing -/
def diskRun : Disk → List (Op × Bool) → Disk
  | d, [] => d
  | d, (op, ok) :: rest => diskRun (d.apply op ok) rest

/-- **disk_inv_reachable** (`inv_step` for the disk half): in every reachable disk state every name refers to an
inode that exists and no name is listed twice -/
theorem disk_inv_reachable (calls : List (Op × Bool)) : (diskRun {} calls).Inv := by
  suffices h : ∀ (cs : List (Op × Bool)) (d : Disk), d.Inv → (diskRun d cs).Inv from h calls {} Disk.Inv.empty
  intro cs
  induction cs with
  | nil => intro d hd; exact hd
  | cons c rest ih => intro d hd; exact ih _ (Disk.inv_apply d c.1 c.2 hd)

/-! ### loop detection -/

/-- **resolve_terminates / loop detection**: the lookup function is total by construction (structural
recursion on the nesting budget and the component list, no artificial fuel), and a lookup that
succeeds has followed at most `maxLinks` links *in total* — the counter is shared by the nested
lookups of link targets (F17c repaired), as POSIX demands (`ELOOP` beyond the limit). -/
theorem resolve_loop_detection (fs : FS) (d : Nat) (p : Text) (i : Ino) (n : Nat)
    (h : getNodeD fs d p 0 = .ok (i, n)) : n ≤ maxLinks := by
  have := getNodeD_count fs d p 0 i n h
  unfold CountOK at this
  omega

/-! ### the node graph is a tree whose edges carry valid names (round 2: after the repairs F17g, F17h) -/

/-- a well-formed state: the structural invariant, the `ModeDir` bit only on directories, tree shape -/
def WF (fs : FS) : Prop := Inv fs ∧ DirBit fs ∧ Tree fs

theorem wf_empty : WF FS.empty := ⟨Inv.empty, DB.empty.toDirBit, Tree.empty⟩

/-- **dirbit_step**: `inv_step`'s hypothesis `DirBit` is itself preserved by every operation whose
permission argument carries no `ModeDir` bit (`opModeOK`: true of every call apko makes) -/
theorem dirbit_step (c : Cfg) (fs : FS) (op : Op) (hm : opModeOK op) (hb : DirBit fs) : DirBit (step c fs op).1 :=
  FS.dirbit_step c fs op hm hb

/-- **tree_step**: every operation keeps the graph a tree with valid edge names -/
theorem tree_step (c : Cfg) (fs : FS) (op : Op) (hi : Inv fs) (ht : Tree fs) : Tree (step c fs op).1 :=
  FS.tree_step c fs op hi ht

theorem wf_step (c : Cfg) (fs : FS) (op : Op) (hm : opModeOK op) (h : WF fs) : WF (step c fs op).1 :=
  ⟨inv_step c fs op h.1 h.2.1, dirbit_step c fs op hm h.2.1, tree_step c fs op h.1 h.2.2⟩

theorem wf_run (c : Cfg) : ∀ (ops : List Op) (fs : FS), (∀ op ∈ ops, opModeOK op) → WF fs → WF (run c fs ops).1 := by
  intro ops
  induction ops with
  | nil => intro fs _ h; exact h
  | cons op rest ih =>
    intro fs hm h
    simp only [run]
    exact ih _ (fun o ho => hm o (List.mem_cons_of_mem _ ho)) (wf_step c fs op (hm op List.mem_cons_self) h)

/-- every state reachable from the empty file system (memfs or tarfs, Impl or Spec) is well-formed:
`inv_step` needs no side hypothesis on reachable states -/
theorem wf_reachable (c : Cfg) (ops : List Op) (hm : ∀ op ∈ ops, opModeOK op) : WF (run c FS.empty ops).1 :=
  wf_run c ops FS.empty hm wf_empty

/-- **no_dot_edges** (C18's `memfs_no_dotdot_edges`): in every reachable state no directory has a child
named `.` or `..` — nor an empty name or one containing `/`: every edge is an `io/fs.ValidPath` element,
which is what `fs.WalkDir`'s callers (the layer writer) rely on -/
theorem no_dot_edges (c : Cfg) (ops : List Op) (hm : ∀ op ∈ ops, opModeOK op) (i : Nat) (n : Name) (j : Nat)
    (h : (n, j) ∈ ((run c FS.empty ops).1.node i).children) : n ≠ dot ∧ n ≠ dotdot ∧ n ≠ [] ∧ '/' ∉ n := by
  obtain ⟨h1, h2, h3, h4⟩ := (wf_reachable c ops hm).2.2.names i n j h
  exact ⟨h3, h4, h1, h2⟩

/-- one or more directory edges lead from `i` to `j` -/
inductive DirReach (fs : FS) : Nat → Nat → Prop
  | edge {i j : Nat} (n : Name) : (n, j) ∈ (fs.node i).children → (fs.node j).dir = true → DirReach fs i j
  | step {i j k : Nat} (n : Name) : DirReach fs i j → (n, k) ∈ (fs.node j).children → (fs.node k).dir = true →
      DirReach fs i k

theorem dirReach_lt {fs : FS} (ht : Tree fs) {i j : Nat} (h : DirReach fs i j) : i < j := by
  induction h with
  | edge n he hd => exact ht.up _ n _ he hd
  | step n _ he hd ih => exact Nat.lt_trans ih (ht.up _ n _ he hd)

/-- **no_directory_cycles**: no directory is reachable from itself through directory entries -/
theorem no_directory_cycles {fs : FS} (ht : Tree fs) (i : Nat) : ¬ DirReach fs i i :=
  fun h => Nat.lt_irrefl i (dirReach_lt ht h)

/-- **dirs_form_a_tree**: a directory is entered in at most one directory under at most one name
(files may have several names: hard links), in every reachable state -/
theorem dirs_form_a_tree (c : Cfg) (ops : List Op) (hm : ∀ op ∈ ops, opModeOK op) (i1 i2 : Nat) (n1 n2 : Name) (j : Nat)
    (h1 : (n1, j) ∈ ((run c FS.empty ops).1.node i1).children)
    (h2 : (n2, j) ∈ ((run c FS.empty ops).1.node i2).children)
    (hd : ((run c FS.empty ops).1.node j).dir = true) : i1 = i2 ∧ n1 = n2 :=
  (wf_reachable c ops hm).2.2.once i1 i2 n1 n2 j h1 h2 hd

/-- a hard link never adds a name to a directory: `Link` fails with `EPERM` (F17h repaired) -/
theorem link_dir_eperm (c : Cfg) (fs : FS) (o n : Text) (pi t : Ino)
    (hp : getNode c fs (dir n) = .ok pi) (hd : (fs.node pi).dir = true)
    (ho : getNode c fs o = .ok t) (htd : (fs.node t).dir = true) :
    step c fs (.link o n) = (fs, .err .perm) := by
  simp [step, linkOp, parentOf, hp, ho, hd, htd]

/-! ### the walk (`fs.WalkDir`) -/

/-- component-wise lexicographic order of paths (the order of `fs.WalkDir`) -/
def pathLt (a b : List Name) : Prop := a < b

/-- `walk` lists every path once, in component-wise lexicographic order (needed by C06/C10) -/
def walk_sorted_nodup : Prop :=
  ∀ fs : FS, Inv fs → (walk fs).Pairwise (fun a b => pathLt a.1 b.1)

/-- in `walk` every directory precedes its contents (needed by C06/C10) -/
def walk_parents_first : Prop :=
  ∀ (fs : FS) (l1 l2 : List (List Name × Ino)) (q : List Name) (n : Name) (i : Ino),
    walk fs = l1 ++ (q ++ [n], i) :: l2 → q = [] ∨ ∃ y ∈ l1, y.1 = q

/-- proved in `Lemmas/TarWalk.lean` for every state that satisfies `Inv` — no acyclicity hypothesis is
needed for order and parents-first (a walk cut by the fuel is still sorted); acyclicity is what
*completeness* needs, below -/
theorem walk_sorted_nodup_holds : walk_sorted_nodup := fun fs hi => Tar.walk_sorted fs hi

theorem walk_parents_first_holds : walk_parents_first :=
  fun fs l1 l2 q n i h => Tar.walk_parents_first fs l1 l2 q n i h

/-- **walk terminates without fuel tricks**: on a well-formed state the fuel of `walkFrom` is never the
reason the walk stops — any larger fuel gives the same list -/
theorem walk_fuel_irrelevant (fs : FS) (h : WF fs) (k : Nat) : walkFrom fs (fs.nodes.length + k) [] 0 = walk fs :=
  FS.walk_fuel_irrelevant h.1 h.2.2 k

/-- **walk_complete**: the walk lists the root's entries and, with every directory it lists, that
directory's entries: everything reachable through directories is visited, each path once, in order -/
theorem walk_complete (fs : FS) (h : WF fs) :
    (∀ e ∈ readdir fs 0, ([e.1], e.2) ∈ walk fs) ∧
    ∀ q j, (q, j) ∈ walk fs → (fs.node j).dir = true → ∀ e ∈ readdir fs j, (q ++ [e.1], e.2) ∈ walk fs :=
  FS.walk_complete h.1 h.2.2

/-- … and this is what the tree shape buys: a directory entered into itself (what `Link("a","a/x")`
made before F17h) satisfies `Inv`, and the walk — in Go: forever; in the model: up to the fuel — is
not complete -/
theorem walk_complete_needs_tree : Inv selfLoop ∧ ¬ Tree selfLoop ∧
    ¬ (∀ q j, (q, j) ∈ walk selfLoop → (selfLoop.node j).dir = true →
        ∀ e ∈ readdir selfLoop j, (q ++ [e.1], e.2) ∈ walk selfLoop) :=
  ⟨selfLoop_inv, selfLoop_not_tree, FS.walk_complete_needs_tree⟩

/-- **fs.WalkDir returns** (C15's "the FS walk terminates"): the walk as the code runs it — by path,
through `Stat` and `ReadDir` of the public API (`walkDirOp`, what the driver executes for the `walk`
operation of `corr:fs`; `none` is the `HANG` outcome) — returns on every well-formed state whose
directories are not symbolic links, from any root.  Before F17h the Go function did not (witness
corpus/fs/F17h-*.json).  The step that carries it: `Join(name, child)` resolves to the child node. -/
theorem walkdir_returns (b : Backend) (fs : FS) (h : WF fs) (hs : SymOK fs) (root : Text) :
    (walkDirOp (Cfg.impl b) fs id root).isSome = true :=
  walkDirOp_some (c := Cfg.impl b) rfl h.1 h.2.2 hs root

/-- **symok_step**: directories stay distinct from symbolic links under every operation whose
permission argument carries no `ModeSymlink` bit -/
theorem symok_step (c : Cfg) (fs : FS) (op : Op) (hm : opSymOK op) (hb : SymOK fs) : SymOK (step c fs op).1 :=
  FS.symok_step c fs op hm hb

theorem symok_run (c : Cfg) : ∀ (ops : List Op) (fs : FS), (∀ op ∈ ops, opSymOK op) → SymOK fs → SymOK (run c fs ops).1 := by
  intro ops
  induction ops with
  | nil => intro fs _ h; exact h
  | cons op rest ih =>
    intro fs hm h
    simp only [run]
    exact ih _ (fun o ho => hm o (List.mem_cons_of_mem _ ho)) (symok_step c fs op (hm op List.mem_cons_self) h)

/-- … in particular on every state memfs / tarfs can reach: **the walk of the layer writer and of the
recursive permissions mutation returns after any sequence of operations** (permission arguments
without file-type bits) -/
theorem walkdir_returns_reachable (b : Backend) (ops : List Op)
    (hm : ∀ op ∈ ops, opModeOK op) (hs : ∀ op ∈ ops, opSymOK op) (root : Text) :
    (walkDirOp (Cfg.impl b) (run (Cfg.impl b) FS.empty ops).1 id root).isSome = true :=
  walkdir_returns b _ (wf_reachable _ ops hm) (symok_run _ ops FS.empty hs SB.empty.toSymOK) root

theorem join_child_resolves (b : Backend) (fs : FS) (h : WF fs) (name : Text) (n : Name) (i j : Ino)
    (hg : getNode (Cfg.impl b) fs name = .ok i) (hd : (fs.node i).dir = true) (hl : fs.lookup i n = some j)
    (hsym : (fs.node j).isSymlink = false) : getNode (Cfg.impl b) fs (join2 name n) = .ok j :=
  getNode_child (c := Cfg.impl b) rfl h.2.2 name n i j hg hd hl hsym

/-! ### SubFS = the base file system under a prefix -/

/-- **subfs_refines**: a sequence of calls through a `SubFS` with root `r` is the sequence with every
path argument of every method rewritten by `filepath.Join(r, ·)` (`subOp_paths`; the method list is tied
to `sub.go` by `tie_subJoins`/`tie_subPasses`), run on the base: same results, same base state -/
theorem subfs_refines (c : Cfg) (r : Text) (ops : List Op) (fs : FS) :
    runSub c r fs ops = run c fs (ops.map (subOp r)) ∧
    ∀ op ∈ ops, op.isFullFS = true → (subOp r op).paths = op.paths.map (join2 r) :=
  ⟨FS.subfs_refines c r ops fs, fun op _ h => subOp_paths r op h⟩

/-- what F17i violated: a symbolic link made through a view is read back through the view -/
theorem sub_symlink_then_readlink (b : Backend) (r : Text) (fs : FS) (hi : Inv fs) (t p : Text)
    (hok : (stepSub (Cfg.impl b) r fs (.symlink t p)).2 = .ok .unit) :
    (stepSub (Cfg.impl b) r (stepSub (Cfg.impl b) r fs (.symlink t p)).1 (.readlink p)).2 = .ok (.text t) :=
  FS.sub_symlink_then_readlink (Cfg.impl b) rfl r fs hi t p hok

/-! ### Impl (lexical) resolution against POSIX resolution -/

/-- **resolve_posix_partial**: the lexical path resolution of memfs/tarfs (`Cfg.impl`: `.` and `..` looked up
as literal names, a relative link target joined to the traversed path) gives the answer of POSIX resolution
(`Cfg.spec`) — the same node or the same error, `ELOOP` after the same number of traversals included — on
every path without `.`/`..` components in every state whose link targets are absolute and free of `.`/`..`.
Proved in `Lemmas/FSPosix.lean` by enumerating the places where the two component loops branch differently
(dot components; the start of a link target; the special cases `/` and `.`), a one-loop agreement lemma
(`walk_agree_abs`: same node, same counter) and induction on the nesting budget (`getNodeD_agree_abs`).
`Inv` is not needed (kept from the original statement).  Outside this domain the two differ: finding F17d
(`resolve_posix_fails_on_dots`), exercised by the correspondence suite through `Cfg.spec`; for relative
targets see `resolve_posix_upto_loop` below. -/
theorem resolve_posix_partial :
  ∀ (b : Backend) (fs : FS) (p : Text), Inv fs →
    (∀ i : Nat, ∀ cmp ∈ parts (fs.node i).target, cmp ≠ dot ∧ cmp ≠ dotdot) →
    (∀ i : Nat, (fs.node i).isSymlink = true → isAbs (fs.node i).target = true) →
    (∀ cmp ∈ parts p, cmp ≠ dot ∧ cmp ≠ dotdot) →
    getNode (Cfg.impl b) fs p = getNode (Cfg.spec b) fs p :=
  fun b _ p _ hnd habs hp => getNode_impl_eq_spec (ci := Cfg.impl b) (cs := Cfg.spec b) rfl rfl hnd habs p hp

/-- non-vacuity: a state every backend reaches (`absDemo_reachable`) with a chain of three absolute links
`l1 → /l2 → /l3 → /a` and a dangling one; it meets every hypothesis, and both sides answer alike on a path
through the chain (a node) and on one through the dangling link (`ENOENT`) -/
example : (run (Cfg.impl .tarfs) FS.empty absDemoOps).1 = absDemo ∧ Inv absDemo ∧
    (∀ i : Nat, ∀ cmp ∈ parts (absDemo.node i).target, cmp ≠ dot ∧ cmp ≠ dotdot) ∧
    (∀ i : Nat, (absDemo.node i).isSymlink = true → isAbs (absDemo.node i).target = true) ∧
    (∀ cmp ∈ parts "/l1/b".toList, cmp ≠ dot ∧ cmp ≠ dotdot) ∧
    getNode (Cfg.impl .tarfs) absDemo "/l1/b".toList = .ok 2 ∧
    getNode (Cfg.spec .tarfs) absDemo "/l1/b".toList = .ok 2 ∧
    getNode (Cfg.impl .tarfs) absDemo "dang/y".toList = .error .notExist ∧
    getNode (Cfg.spec .tarfs) absDemo "dang/y".toList = .error .notExist :=
  ⟨absDemo_reachable _, absDemo_inv, absDemo_nodots, absDemo_abs, by decide, by decide, by decide, by decide,
   by decide⟩

/-- … and the domain restriction is needed: with a `..` in a link target (`a/b/up → ../c` reached through
`l → /a/b`) the two resolutions answer differently (F17d) -/
theorem resolve_posix_fails_on_dots :
    getNode (Cfg.impl .memfs) dotDemo "l/up".toList ≠ getNode (Cfg.spec .memfs) dotDemo "l/up".toList := by
  decide

/-- **resolve_posix_upto_loop** — the extension to *relative* link targets.  On every path without `.`/`..`
in every state whose link targets (relative or absolute) are free of `.`/`..`, the lexical resolution of
memfs/tarfs gives the POSIX answer **or reports `ELOOP`**: it never returns a wrong node and never a wrong
error other than a premature `ELOOP`.  Reason (`Lemmas/FSPosixRel.lean`, `FSPosixSim.lean`): the path
Impl looks up for a relative target, `Join(traversed, target)`, has the components
`traversed ++ parts target` (`parts_linkDest`); walking `traversed` again from the root leads to the
directory that holds the link because the lookup is deterministic up to its budget (`getL_mono`), but every
link among `traversed` is followed — and counted, with one nesting level less — a second time, so Impl's
counter is never below the Spec's (`walk_sim`).  `resolve_posix_rel_early_loop` shows the second
alternative happens. -/
theorem resolve_posix_upto_loop :
  ∀ (b : Backend) (fs : FS) (p : Text),
    (∀ i : Nat, ∀ cmp ∈ parts (fs.node i).target, cmp ≠ dot ∧ cmp ≠ dotdot) →
    (∀ cmp ∈ parts p, cmp ≠ dot ∧ cmp ≠ dotdot) →
    getNode (Cfg.impl b) fs p = getNode (Cfg.spec b) fs p ∨ getNode (Cfg.impl b) fs p = .error .loop :=
  fun b _ p hnd hp => getNode_upto_loop (ci := Cfg.impl b) (cs := Cfg.spec b) rfl rfl hnd p hp

/-- so whenever memfs/tarfs resolve a dot-free path at all (or fail with anything but `ELOOP`), POSIX
resolution gives the same answer -/
theorem resolve_posix_of_no_loop (b : Backend) (fs : FS) (p : Text)
    (hnd : ∀ i : Nat, ∀ cmp ∈ parts (fs.node i).target, cmp ≠ dot ∧ cmp ≠ dotdot)
    (hp : ∀ cmp ∈ parts p, cmp ≠ dot ∧ cmp ≠ dotdot) (h : getNode (Cfg.impl b) fs p ≠ .error .loop) :
    getNode (Cfg.spec b) fs p = getNode (Cfg.impl b) fs p :=
  ((resolve_posix_upto_loop b fs p hnd hp).resolve_right h).symm

/-- non-vacuity with relative targets met *behind* a link (`l → /d`, in `d` the chain `r → rx → rxx → f`):
both resolutions of `l/r` reach `f` -/
example : Inv (relChain 3) ∧
    (∀ i : Nat, ∀ cmp ∈ parts ((relChain 3).node i).target, cmp ≠ dot ∧ cmp ≠ dotdot) ∧
    (∀ cmp ∈ parts "l/r".toList, cmp ≠ dot ∧ cmp ≠ dotdot) ∧
    (∃ i, ((relChain 3).node i).isSymlink = true ∧ isAbs ((relChain 3).node i).target = false) ∧
    getNode (Cfg.impl .memfs) (relChain 3) "l/r".toList = .ok 6 ∧
    getNode (Cfg.spec .memfs) (relChain 3) "l/r".toList = .ok 6 :=
  ⟨inv_of_nodes (by decide) (by decide),
   forall_node (P := fun n => ∀ cmp ∈ parts n.target, cmp ≠ dot ∧ cmp ≠ dotdot) (by decide) (by decide),
   by decide, ⟨3, by decide⟩, by decide, by decide⟩

/-- … and the `ELOOP` alternative is real (a deviation of class F17d without any `.`/`..`): with a chain of
21 relative links behind the link `l`, POSIX follows 22 links and reaches the file; Impl follows `l` again
for every link of the chain (it would take 42 traversals) and reports `ELOOP` -/
theorem resolve_posix_rel_early_loop :
    Inv (relChain 21) ∧
    (∀ i : Nat, ∀ cmp ∈ parts ((relChain 21).node i).target, cmp ≠ dot ∧ cmp ≠ dotdot) ∧
    (∀ cmp ∈ parts "l/r".toList, cmp ≠ dot ∧ cmp ≠ dotdot) ∧
    getNode (Cfg.impl .memfs) (relChain 21) "l/r".toList = .error .loop ∧
    getNode (Cfg.spec .memfs) (relChain 21) "l/r".toList = .ok 24 := by
  refine ⟨inv_of_nodes (by decide) (by decide),
    forall_node (P := fun n => ∀ cmp ∈ parts n.target, cmp ≠ dot ∧ cmp ≠ dotdot) (by decide) (by decide),
    by decide, by decide, by decide⟩

/-- **resolve_posix_linkfree** — exact agreement with relative targets.  "Relative targets are only met under
link-free prefixes" is the decidable condition `relPrefixesLinkFree fs p` (`Lemmas/FSPosixLF.lean`): along
the lookup of `p` by memfs/tarfs, in every component loop (the one over `p` and the nested ones over link
targets), a link with a relative target is only reached while no link has been followed yet in that loop —
the traversed prefix is then the real path of the directory that holds the link, joining the target to it
and walking it again costs no traversal, and the two resolutions give the *same* answer, `ELOOP` included.
Absolute targets are always allowed (`relPrefixesLinkFree_of_abs`: `resolve_posix_partial` is the special
case). -/
theorem resolve_posix_linkfree :
  ∀ (b : Backend) (fs : FS) (p : Text),
    (∀ i : Nat, ∀ cmp ∈ parts (fs.node i).target, cmp ≠ dot ∧ cmp ≠ dotdot) →
    (∀ cmp ∈ parts p, cmp ≠ dot ∧ cmp ≠ dotdot) →
    relPrefixesLinkFree fs p = true →
    getNode (Cfg.impl b) fs p = getNode (Cfg.spec b) fs p :=
  fun b _ p hnd hp hs => getNode_eq_of_linkFree (ci := Cfg.impl b) (cs := Cfg.spec b) rfl rfl hnd p hp hs

theorem relPrefixesLinkFree_of_abs (fs : FS) (p : Text)
    (habs : ∀ i : Nat, (fs.node i).isSymlink = true → isAbs (fs.node i).target = true) :
    relPrefixesLinkFree fs p = true := safeL_of_abs habs _ _ _

/-- non-vacuity on a reachable merged-`/usr` state (`usr/bin/sh → busybox`, `bin → /usr/bin`,
`lnk → usr/bin/sh`): `usr/bin/sh` and `lnk` (a relative link whose target ends in another relative link) meet
the condition and both resolutions reach `busybox`; `bin/sh` does not meet it (`sh` is reached after the link
`bin` was followed) — there `resolve_posix_upto_loop` applies -/
example : (run (Cfg.impl .tarfs) FS.empty mergeDemoOps).1 = mergeDemo ∧
    (∀ i : Nat, ∀ cmp ∈ parts (mergeDemo.node i).target, cmp ≠ dot ∧ cmp ≠ dotdot) ∧
    (∀ cmp ∈ parts "lnk".toList, cmp ≠ dot ∧ cmp ≠ dotdot) ∧
    relPrefixesLinkFree mergeDemo "usr/bin/sh".toList = true ∧
    relPrefixesLinkFree mergeDemo "lnk".toList = true ∧
    getNode (Cfg.impl .tarfs) mergeDemo "lnk".toList = .ok 3 ∧
    getNode (Cfg.spec .tarfs) mergeDemo "lnk".toList = .ok 3 ∧
    relPrefixesLinkFree mergeDemo "bin/sh".toList = false ∧
    getNode (Cfg.impl .tarfs) mergeDemo "bin/sh".toList = getNode (Cfg.spec .tarfs) mergeDemo "bin/sh".toList :=
  ⟨mergeDemo_reachable _,
   forall_node (P := fun n => ∀ cmp ∈ parts n.target, cmp ≠ dot ∧ cmp ≠ dotdot) (by decide) (by decide),
   by decide, by decide, by decide, by decide, by decide, by decide, by decide⟩

/-- the condition is not vacuous in the other direction either: it fails on the early-`ELOOP` witness -/
example : relPrefixesLinkFree (relChain 21) "l/r".toList = false := by decide

/-! ### ties to the source (regenerated on every run by `extract/fs.go`) -/

theorem tie_maxLinks_memfs : Generated.maxLinksMemfs = FS.maxLinks := by rfl
theorem tie_maxLinks_tarfs : Generated.maxLinksTarfs = FS.maxLinks := by rfl
theorem tie_stmtsMemfs_Write : Generated.stmtsMemfs_Write = (["if f.node == nil || f.fs == nil { return 0, os.ErrClosed }",
  "if f.openMode&os.O_APPEND != 0 && f.openMode&os.O_RDWR != 0 && f.openMode&os.O_WRONLY != 0 { return 0, errors.New(\"file not opened in write mode\") }",
  "if len(p) == 0 { return 0, nil }",
  "if f.offset+int64(len(p)) > int64(len(f.node.data)) { if hole := f.offset - int64(len(f.node.data)); hole > 0 { f.node.data = append(f.node.data, make([]byte, hole)...) } f.node.data = append(f.node.data[:f.offset], p...) } else { copy(f.node.data[f.offset:], p) }",
  "f.offset += int64(len(p))",
  "return len(p), nil"] : List String) := by rfl
theorem tie_stmtsMemfs_Seek : Generated.stmtsMemfs_Seek = (["if f.node == nil || f.fs == nil { return 0, os.ErrClosed }",
  "var abs int64",
  "switch whence { case io.SeekStart: abs = offset case io.SeekCurrent: abs = f.offset + offset case io.SeekEnd: abs = int64(len(f.node.data)) + offset default: return 0, errors.New(\"invalid whence\") }",
  "if abs < 0 { return 0, fs.ErrInvalid }",
  "f.offset = abs",
  "return f.offset, nil"] : List String) := by rfl
theorem tie_stmtsMemfs_Read : Generated.stmtsMemfs_Read = (["if f.node == nil || f.fs == nil { return 0, os.ErrClosed }",
  "if f.offset >= int64(len(f.node.data)) { return 0, io.EOF }",
  "n := copy(b, f.node.data[f.offset:])",
  "f.offset += int64(n)",
  "return n, nil"] : List String) := by rfl
theorem tie_stmtsMemfs_ReadAt : Generated.stmtsMemfs_ReadAt = (["if f.node == nil || f.fs == nil { return 0, os.ErrClosed }",
  "if off < 0 { return 0, fs.ErrInvalid }",
  "if off >= int64(len(f.node.data)) { return 0, io.EOF }",
  "n = copy(p, f.node.data[off:])",
  "return n, nil"] : List String) := by rfl
theorem tie_stmtsMemfs_newMemFile : Generated.stmtsMemfs_newMemFile = (["m := &memFile{ node: node, fs: memfs, name: name, openMode: openMode, }",
  "if openMode&os.O_APPEND != 0 { m.offset = int64(len(node.data)) }",
  "if openMode&os.O_TRUNC != 0 { node.data = nil }",
  "return m"] : List String) := by rfl
theorem tie_stmtsMemfs_Remove : Generated.stmtsMemfs_Remove = (["parent := filepath.Dir(name)",
  "base := filepath.Base(name)",
  "anode, err := m.getNode(parent)",
  "if err != nil { return err }",
  "anode.mu.Lock()",
  "defer anode.mu.Unlock()",
  "if _, ok := anode.children[base]; !ok { return os.ErrNotExist }",
  "if anode.children[base].linkCount > 0 { anode.children[base].linkCount-- }",
  "delete(anode.children, base)",
  "return nil"] : List String) := by rfl
theorem tie_stmtsMemfs_Chmod : Generated.stmtsMemfs_Chmod = (["anode, err := m.getNode(path)",
  "if err != nil { return err }",
  "anode.mode = perm | (anode.mode & os.ModeType)",
  "return nil"] : List String) := by rfl
theorem tie_stmtsTarfs_Write : Generated.stmtsTarfs_Write = (["if f.node == nil || f.fs == nil { return 0, fs.ErrClosed }",
  "if f.rc != nil { return 0, fs.ErrInvalid }",
  "if f.openMode&os.O_APPEND != 0 && f.openMode&os.O_RDWR != 0 && f.openMode&os.O_WRONLY != 0 { return 0, errors.New(\"file not opened in write mode\") }",
  "if len(p) == 0 { return 0, nil }",
  "if f.offset+int64(len(p)) > int64(len(f.node.data)) { if hole := f.offset - int64(len(f.node.data)); hole > 0 { f.node.data = append(f.node.data, make([]byte, hole)...) } f.node.data = append(f.node.data[:f.offset], p...) } else { copy(f.node.data[f.offset:], p) }",
  "f.offset += int64(len(p))",
  "return len(p), nil"] : List String) := by rfl
theorem tie_stmtsTarfs_Seek : Generated.stmtsTarfs_Seek = (["if f.node == nil || f.fs == nil { return 0, fs.ErrClosed }",
  "if f.rc != nil { return 0, fs.ErrInvalid }",
  "var abs int64",
  "switch whence { case io.SeekStart: abs = offset case io.SeekCurrent: abs = f.offset + offset case io.SeekEnd: abs = int64(len(f.node.data)) + offset default: return 0, errors.New(\"invalid whence\") }",
  "if abs < 0 { return 0, fs.ErrInvalid }",
  "f.offset = abs",
  "return f.offset, nil"] : List String) := by rfl
theorem tie_stmtsTarfs_Read : Generated.stmtsTarfs_Read = (["if f.node == nil || f.fs == nil { return 0, fs.ErrClosed }",
  "if f.rc != nil { return f.rc.Read(b) }",
  "if f.offset >= int64(len(f.node.data)) { return 0, io.EOF }",
  "n := copy(b, f.node.data[f.offset:])",
  "f.offset += int64(n)",
  "return n, nil"] : List String) := by rfl
theorem tie_stmtsTarfs_ReadAt : Generated.stmtsTarfs_ReadAt = (["if f.node == nil || f.fs == nil { return 0, fs.ErrClosed }",
  "if f.rc != nil { if ra, ok := f.rc.(io.ReaderAt); ok { return ra.ReadAt(p, off) } return 0, fs.ErrInvalid }",
  "if off < 0 { return 0, fs.ErrInvalid }",
  "if off >= int64(len(f.node.data)) { return 0, io.EOF }",
  "n = copy(p, f.node.data[off:])",
  "return n, nil"] : List String) := by rfl
theorem tie_stmtsTarfs_newMemFile : Generated.stmtsTarfs_newMemFile = (["m := &memFile{ node: node, fs: memfs, name: name, openMode: openMode, }",
  "if openMode&os.O_APPEND != 0 { m.offset = int64(len(node.data)) }",
  "if openMode&os.O_TRUNC != 0 { node.data = nil }",
  "return m"] : List String) := by rfl
theorem tie_stmtsTarfs_Remove : Generated.stmtsTarfs_Remove = (["parent := filepath.Dir(name)",
  "base := filepath.Base(name)",
  "anode, err := m.getNode(parent)",
  "if err != nil { return err }",
  "anode.mu.Lock()",
  "defer anode.mu.Unlock()",
  "if _, ok := anode.children[base]; !ok { return fs.ErrNotExist }",
  "if anode.children[base].linkCount > 0 { anode.children[base].linkCount-- }",
  "delete(anode.children, base)",
  "return nil"] : List String) := by rfl
theorem tie_stmtsTarfs_Chmod : Generated.stmtsTarfs_Chmod = (["anode, err := m.getNode(path)",
  "if err != nil { return err }",
  "anode.mode = perm | (anode.mode & os.ModeType)",
  "return nil"] : List String) := by rfl
/-- the helper the model's `dotName` mirrors, the methods that consult it before entering a node into a
directory (every creating method; `MkdirAll` rejects `..` components and skips `.` in its own loop), and
the one place that refuses a directory as the old name of a hard link -/
theorem tie_isDotName_memfs : Generated.stmtsMemfs_isDotName =
    (["return base == \".\" || base == \"..\" || base == pathSep"] : List String) := by rfl
theorem tie_isDotName_tarfs : Generated.stmtsTarfs_isDotName =
    (["return base == \".\" || base == \"..\" || base == pathSep"] : List String) := by rfl
theorem tie_dotGuarded_memfs : Generated.dotGuardedMemfs =
    (["Mkdir", "openFile", "Mknod", "Symlink", "Link"] : List String) := by rfl
theorem tie_dotGuarded_tarfs : Generated.dotGuardedTarfs =
    (["Mkdir", "openFile", "Mknod", "Symlink", "link", "writeHeader"] : List String) := by rfl
theorem tie_linkRefusesDir_memfs : Generated.linkRefusesDirMemfs = (["Link"] : List String) := by rfl
theorem tie_linkRefusesDir_tarfs : Generated.linkRefusesDirTarfs = (["link"] : List String) := by rfl
theorem tie_subJoins : Generated.subJoins = (["Open",
  "OpenReaderAt",
  "OpenFile",
  "Create",
  "ReadFile",
  "WriteFile",
  "Mkdir",
  "MkdirAll",
  "ReadDir",
  "Stat",
  "Lstat",
  "Remove",
  "Chmod",
  "Chown",
  "Chtimes",
  "Symlink",
  "Link",
  "Readlink",
  "Mknod",
  "Readnod",
  "SetXattr",
  "GetXattr",
  "RemoveXattr",
  "ListXattrs"] : List String) := by rfl
theorem tie_subPasses : Generated.subPasses = ([] : List String) := by rfl
/-- DirFS's disk calls for regular files, statement by statement (the `Disk` model mirrors them: `os.WriteFile`
in place, `os.Link`, `os.Create`, `os.Remove`, `os.ReadFile`) -/
theorem tie_stmtsDirfs_WriteFile : Generated.stmtsDirfs_WriteFile = (["var ( memContent []byte )",
  "if _, err := f.sanitizePath(name); err != nil { return err }",
  "if f.createOnDisk(name) { if err := os.WriteFile(filepath.Join(f.base, name), b, mode); err != nil { return err } } else { memContent = b }",
  "return f.overrides.WriteFile(name, memContent, mode)"] : List String) := by rfl
theorem tie_stmtsDirfs_Link : Generated.stmtsDirfs_Link = (["if _, err := f.sanitizePath(newname); err != nil { return err }",
  "target := filepath.Join(f.base, oldname)",
  "target = filepath.Clean(target)",
  "if !isWithin(f.base, target) { return fmt.Errorf(\"hardlink target %s is outside of the filesystem\", target) }",
  "if f.createOnDisk(newname) { if err := os.Link(target, filepath.Join(f.base, newname)); err != nil { return err } }",
  "return f.overrides.Link(oldname, newname)"] : List String) := by rfl
theorem tie_stmtsDirfs_ReadFile : Generated.stmtsDirfs_ReadFile = (["if _, err := f.sanitizePath(name); err != nil { return nil, err }",
  "if f.caseSensitiveOnDisk(name) { return os.ReadFile(filepath.Join(f.base, name)) }",
  "return f.overrides.ReadFile(name)"] : List String) := by rfl
theorem tie_stmtsDirfs_Create : Generated.stmtsDirfs_Create = (["var ( file File err error )",
  "if _, err := f.sanitizePath(name); err != nil { return nil, err }",
  "file, err = f.overrides.Create(name)",
  "if err != nil { return nil, err }",
  "if f.createOnDisk(name) { _ = file.Close() file, err = os.Create(filepath.Join(f.base, name)) if err != nil { return nil, err } }",
  "return file, err"] : List String) := by rfl
theorem tie_stmtsDirfs_Remove : Generated.stmtsDirfs_Remove = (["if _, err := f.sanitizePath(name); err != nil { return err }",
  "if err := f.overrides.Remove(name); err != nil { return err }",
  "if f.removeOnDisk(name) { return os.Remove(filepath.Join(f.base, name)) }",
  "return nil"] : List String) := by rfl
/-- the size a `FileInfo` reports and every test of a node's tar entry (`effectiveSize` / `teLive` of the model:
both fall back to the package on EMPTY data, `openFile` only for a non-empty package file) -/
theorem tie_stmtsMemfs_Size : Generated.stmtsMemfs_Size = (["return int64(len(m.data))"] : List String) := by rfl
theorem tie_stmtsTarfs_Size : Generated.stmtsTarfs_Size = (["if m.node.te != nil && len(m.data) == 0 { return m.node.te.header.Size }",
  "return int64(len(m.data))"] : List String) := by rfl
theorem tie_teTests_memfs : Generated.teTestsMemfs = ([] : List String) := by rfl
theorem tie_teTests_tarfs : Generated.teTestsTarfs = (["anode.te != nil && len(anode.data) == 0 && anode.te.header.Size != 0",
  "m.node.te != nil && len(m.data) == 0"] : List String) := by rfl

/-! ### a second `DirFS` over the same directory (re-open histories, kind `dirfs-reopen`)

A work directory is used more than once.  The overlay of the NEW `DirFS` value is rebuilt by the constructor's walk
(`reopenFS`, per node what the callback makes of it: `tie_dirfsCtorCallback`) — provided the walk enters the
directory at all, which depends on how the constructor names the root (`tie_dirfsCtorWalk`, `RootWalk`).
Full statement (**dirfs_reopen_complete**): for EVERY way the directory may be named (a symbolic link to it
included), every path resolves in the new overlay as it resolved before, every listing has the same names, kinds
and sizes, `Readlink` answers the same, `Stat` / `Lstat` answer with the same name, size and kind, the bytes are
the same.  Proved for the constructor the code has (`rootWalkOf Generated.dirfsCtorWalk = some .openDot`); with the
root `Lstat`ed (`filepath.WalkDir(dir, …)`) it is false for a directory named through a link
(`dirfs_ctor_lstat_root_incomplete`). -/

/-- the walk the constructor runs today enters the directory however it is named -/
theorem dirfs_ctor_walk_follows_root : rootWalkOf Generated.dirfsCtorWalk = some .openDot := by decide

theorem dirfs_ctor_overlay (w : RootWalk) (hw : rootWalkOf Generated.dirfsCtorWalk = some w) (dirIsLink : Bool) (fs : FS) :
    ctorOverlay w dirIsLink fs = reopenFS fs := by
  rw [dirfs_ctor_walk_follows_root] at hw
  cases hw
  simp [ctorOverlay, RootWalk.enters]

/-- **reopen_resolves**: every path resolves to the node it resolved to, or fails with the error it failed with -/
theorem reopen_resolves (c : Cfg) (fs : FS) (p : Text) : getNode c (reopenFS fs) p = getNode c fs p :=
  reopenFS_getNode c fs p

/-- **reopen_readdir_complete**: a listing of the re-opened file system has the entries it had — same names in the
same order, same kinds, same sizes — and fails exactly when it failed -/
theorem reopen_readdir_complete (c : Cfg) (fs : FS) (p : Text) :
    (∀ es, (step c fs (.readDir p)).2 = .ok (.entries es) →
      ∃ es2, (step c (reopenFS fs) (.readDir p)).2 = .ok (.entries es2) ∧ es2.map statShape = es.map statShape) ∧
    (∀ e, (step c fs (.readDir p)).2 = .err e → (step c (reopenFS fs) (.readDir p)).2 = .err e) := by
  simp only [step, reopenFS_getNode]
  cases hg : getNode c fs p with
  | error e => simp
  | ok i =>
    simp only [reopenFS_dir, reopenFS_children]
    by_cases hd : (fs.node i).dir = true
    · simp only [hd, Bool.not_true, Bool.false_eq_true, if_false]
      refine ⟨?_, by simp⟩
      intro es hes
      refine ⟨_, rfl, ?_⟩
      cases hes
      simp only [List.map_map]
      apply List.map_congr_left
      intro e _
      exact statShape_reopen c fs e.2 e.1 _
    · simp [hd]

/-- **reopen_readlink**: `Readlink` answers what it answered -/
theorem reopen_readlink (c : Cfg) (fs : FS) (p : Text) :
    (step c (reopenFS fs) (.readlink p)).2 = (step c fs (.readlink p)).2 := by
  simp only [step, readlinkOp, parentOf, reopenFS_getNode, FS.lookup, reopenFS_children, reopenFS_isSymlink, reopenFS_target]
  cases getNode c fs (dir p) with
  | error e => rfl
  | ok i =>
    simp only
    cases (fs.node i).children.lookup (base p) with
    | none => rfl
    | some j => simp only; split <;> rfl

/-- **reopen_stat**: `Stat` (and `Lstat`, which the overlay answers the same way) reports the same name, size and
kind, and fails exactly when it failed -/
theorem reopen_stat (c : Cfg) (fs : FS) (p : Text) :
    (∀ s, (step c fs (.stat p)).2 = .ok (.stat s) →
      ∃ s2, (step c (reopenFS fs) (.stat p)).2 = .ok (.stat s2) ∧ statShape s2 = statShape s) ∧
    (∀ e, (step c fs (.stat p)).2 = .err e → (step c (reopenFS fs) (.stat p)).2 = .err e) ∧
    (step c (reopenFS fs) (.lstat p)).2 = (step c (reopenFS fs) (.stat p)).2 := by
  simp only [step, reopenFS_getNode]
  cases hg : getNode c fs p with
  | error e => simp
  | ok i =>
    refine ⟨?_, ?_⟩
    · intro s hs
      refine ⟨_, rfl, ?_⟩
      cases hs
      exact statShape_reopen c fs i p _
    · simp

/-- **reopen_content**: the bytes a name leads to are the bytes it led to (they never left the directory) -/
theorem reopen_content (c : Cfg) (fs : FS) (p : Text) (i : Ino) (h : getNode c fs p = .ok i) :
    getNode c (reopenFS fs) p = .ok i ∧ ((reopenFS fs).node i).data = (fs.node i).data :=
  ⟨by rw [reopenFS_getNode, h], reopenFS_data fs i⟩

/-- **dirfs_reopen_complete**: with the constructor the code has, for every way of naming the directory (through a
symbolic link or not) the new overlay resolves, lists, reads links and stats like the directory's content -/
theorem dirfs_reopen_complete (w : RootWalk) (hw : rootWalkOf Generated.dirfsCtorWalk = some w) (dirIsLink : Bool)
    (c : Cfg) (fs : FS) (p : Text) :
    getNode c (ctorOverlay w dirIsLink fs) p = getNode c fs p ∧
    (∀ es, (step c fs (.readDir p)).2 = .ok (.entries es) →
      ∃ es2, (step c (ctorOverlay w dirIsLink fs) (.readDir p)).2 = .ok (.entries es2) ∧
        es2.map statShape = es.map statShape) ∧
    (step c (ctorOverlay w dirIsLink fs) (.readlink p)).2 = (step c fs (.readlink p)).2 ∧
    (∀ s, (step c fs (.stat p)).2 = .ok (.stat s) →
      ∃ s2, (step c (ctorOverlay w dirIsLink fs) (.stat p)).2 = .ok (.stat s2) ∧ statShape s2 = statShape s) := by
  rw [dirfs_ctor_overlay w hw]
  exact ⟨reopen_resolves c fs p, (reopen_readdir_complete c fs p).1, reopen_readlink c fs p, (reopen_stat c fs p).1⟩

/-- the state after `MkdirAll etc/apk`, `WriteFile etc/apk/world`, `Symlink apk/world etc/world` (a work directory
after its first use) -/
def reopenDemo : FS :=
  (run (Cfg.impl .memfs) FS.empty [.mkdirAll "etc/apk".toList 0o755, .writeFile "etc/apk/world".toList "busybox\n".toList 0o644,
    .symlink "apk/world".toList "etc/world".toList]).1

/-- the hypotheses are met by a non-trivial value: the demo directory lists `apk` and `world` under `etc` -/
example : getNode (Cfg.impl .memfs) (ctorOverlay .openDot true reopenDemo) "etc".toList = .ok 1 ∧
    ((ctorOverlay .openDot true reopenDemo).node 1).children.map (·.1) = ["apk".toList, "world".toList] ∧
    getNode (Cfg.impl .memfs) (ctorOverlay .openDot true reopenDemo) "etc/world".toList =
      getNode (Cfg.impl .memfs) (ctorOverlay .openDot true reopenDemo) "etc/apk/world".toList ∧
    (step (Cfg.impl .memfs) (ctorOverlay .openDot true reopenDemo) (.readlink "etc/world".toList)).2 = .ok (.text "apk/world".toList) := by
  decide +kernel

/-- **dirfs_ctor_lstat_root_incomplete**: were the root of the walk `Lstat`ed (`filepath.WalkDir(dir, …)`), a
directory named through a symbolic link would come back EMPTY: the listing of the root loses `etc`, `Stat` of a
file that is there says it does not exist -/
theorem dirfs_ctor_lstat_root_incomplete :
    (step (Cfg.impl .memfs) reopenDemo (.readDir ".".toList)).2 ≠ (step (Cfg.impl .memfs) (ctorOverlay .lstatRoot true reopenDemo) (.readDir ".".toList)).2 ∧
    (step (Cfg.impl .memfs) (ctorOverlay .lstatRoot true reopenDemo) (.readDir ".".toList)).2 = .ok (.entries []) ∧
    (step (Cfg.impl .memfs) (ctorOverlay .lstatRoot true reopenDemo) (.stat "etc/apk/world".toList)).2 = .err .notExist ∧
    ctorOverlay .lstatRoot false reopenDemo = reopenFS reopenDemo := by decide +kernel

/-- the constructor's walk: its root and its callback, statement by statement (`rootWalkOf`, `reopenNode`) -/
theorem tie_dirfsCtorWalk : Generated.dirfsCtorWalk = (["root := os.DirFS(dir)", "fs.WalkDir(root, \".\", func)"] : List String) := by rfl
theorem tie_dirfsCtorCallback : Generated.dirfsCtorCallback = (["if err != nil { return err }",
  "if path == \".\" { return nil }",
  "fi, err := d.Info()",
  "if err != nil { return err }",
  "mode := fi.Mode()",
  "perm := mode.Perm()",
  "switch mode.Type() { case fs.ModeDir: fullPerm := os.ModeDir | perm err = f.overrides.Mkdir(path, fullPerm) case fs.ModeSymlink: var target string target, err = os.Readlink(filepath.Join(dir, path)) if err == nil { err = f.overrides.Symlink(target, path) } case fs.ModeCharDevice: var dev int sys := fi.Sys() st1, ok1 := sys.(*syscall.Stat_t) st2, ok2 := sys.(*unix.Stat_t) switch { case ok1: dev = int(st1.Rdev) case ok2: dev = int(st2.Rdev) default: return fmt.Errorf(\"unsupported type %T\", sys) } err = f.overrides.Mknod(path, uint32(unix.S_IFCHR|mode), dev) default: var memFile File memFile, err = f.overrides.OpenFile(path, os.O_CREATE, perm) if memFile != nil { _ = memFile.Close() } }",
  "return err"] : List String) := by rfl

end Apko.C17
