import Apko.Model.FS
import Apko.Proofs.Lemmas.FSAtomic
import Apko.Proofs.Lemmas.FSData
/-! C17 — the virtual file systems behave like a file system (theorems over `Model/FS.lean`) -/
namespace Apko.C17
open Apko Apko.Path Apko.FS

theorem name_le_total (a b : Name) : a ≤ b ∨ b ≤ a := List.le_total a b
theorem name_le_trans {a b c : Name} (h1 : a ≤ b) (h2 : b ≤ c) : a ≤ c := List.le_trans h1 h2

/-- listings are sorted by name -/
theorem readdir_sorted (fs : FS) (d : Ino) :
    (readdir fs d).Pairwise (fun a b => a.1 ≤ b.1) := by
  have := List.pairwise_mergeSort (le := fun (a b : Name × Ino) => decide (a.1 ≤ b.1))
    (fun a b c h1 h2 => by simp only [decide_eq_true_eq] at *; exact name_le_trans h1 h2)
    (fun a b => by simp only [Bool.or_eq_true, decide_eq_true_eq]; exact name_le_total a.1 b.1)
    (fs.node d).children
  simpa [readdir, sortNames] using this

/-! ### an operation that reports failure leaves the observable state unchanged -/

/-- permission arguments carry no type bits (true of every call in apko; `fs.FileMode` would let a
caller smuggle `ModeSymlink` into `OpenFile`/`MkdirAll`, which then create a node and fail) -/
def opPermOK : Op → Prop
  | .mkdirAll _ perm => permOK perm
  | .openFile _ _ perm => permOK perm
  | .writeFile _ _ perm => permOK perm
  | _ => True

def notWriteHeader : Op → Prop
  | .writeHeader _ => False
  | _ => True

theorem openCore_err (c : Cfg) (fs : FS) (name : Text) (flag perm : Nat) (hp : permOK perm) (e : Err)
    (h : (openCore c fs name flag perm).2 = .error e) : (openCore c fs name flag perm).1 = fs := by
  unfold openCore at *
  have := openFileD_err c flag perm hp maxLinks fs [0] name
  split at h
  · rename_i fs1 e' heq
    simp only [heq] at this ⊢
    exact this e' rfl
  · simp at h

theorem failure_atomic (c : Cfg) (fs : FS) (op : Op) (hw : notWriteHeader op) (hp : opPermOK op)
    (hroot : (fs.node 0).dir = true) (herr : (step c fs op).2.isErr = true) :
    observe (step c fs op).1 = observe fs := by
  cases op with
  | writeHeader h => exact absurd hw (by simp [notWriteHeader])
  | mkdirAll p perm =>
    simp only [step, mkdirAll] at herr ⊢
    split at herr
    · simp_all
    · have := mkdirAllLoop_err c (modeDir ||| perm) (dirMode_ok perm hp)
        ((parts p).filter (· ≠ dot)) fs { ino := 0 } []
      split at herr
      · simp [Out.isErr] at herr
      · rename_i fs' e heq
        simp only [heq] at this ⊢
        simp_all
  | openFile p flag perm =>
    simp only [step] at herr ⊢
    have := openCore_err c fs p flag perm hp
    split at herr
    · rename_i fs1 e heq
      simp only [heq] at this ⊢
      simp [observe, this e rfl]
    · simp [Out.isErr] at herr
  | create p =>
    simp only [step] at herr ⊢
    have := openCore_err c fs p flagsWriteFile 0o666 (by unfold permOK; decide)
    split at herr
    · rename_i fs1 e heq
      simp only [heq] at this ⊢
      simp [observe, this e rfl]
    · simp [Out.isErr] at herr
  | readFile p =>
    simp only [step] at herr ⊢
    have := openCore_err c fs p 0 0o644 (by unfold permOK; decide)
    split at herr
    · rename_i fs1 e heq
      simp only [heq] at this ⊢
      simp [this e rfl]
    · simp [Out.isErr] at herr
  | writeFile p data perm =>
    simp only [step] at herr ⊢
    have := openCore_err c fs p flagsWriteFile perm hp
    split at herr
    · rename_i fs1 e heq
      simp only [heq] at this ⊢
      simp [this e rfl]
    · simp [Out.isErr] at herr
  | _ =>
    simp only [step, setXattr, linkOp] at herr ⊢
    repeat' split at herr
    all_goals (try simp [Out.isErr] at herr)
    all_goals (try simp_all)
    all_goals (repeat' split)
    all_goals simp_all

/-! ### reads return exactly the bytes last written -/

/-- slot `hi` holds an open file object on node `ino` at offset `off` through which the node's
data can be written (any open flag combination except the one `Write` refuses) -/
structure Writable (fs : FS) (hi : Nat) (ino : Nat) (off : Nat) : Prop where
  h : ∃ hd : Handle, fs.handles[hi]? = some hd ∧ hd.valid = true ∧ hd.closed = false ∧ hd.rc = false ∧
        ¬(oAppend hd.flag ∧ oRdwr hd.flag ∧ oWronly hd.flag) ∧ hd.offset = off ∧ hd.ino = ino
  live : ino < fs.nodes.length

theorem write_step (c : Cfg) (fs : FS) (hi ino off : Nat) (p : Text) (hw : Writable fs hi ino off) :
    let r := step c fs (.write hi p)
    r.2 = .ok (.num p.length) ∧ (r.1.node ino).data = writeAt (fs.node ino).data off p ∧
    Writable r.1 hi ino (off + p.length) ∧ r.1.nodes.length = fs.nodes.length := by
  obtain ⟨⟨hd, h1, h2, h3, h4, h5, h6, h7⟩, hl⟩ := hw
  have hlen : hi < fs.handles.length := by
    rcases Nat.lt_or_ge hi fs.handles.length with h | h
    · exact h
    · rw [List.getElem?_eq_none h] at h1; cases h1
  subst h7
  simp only [step, h1, h2, h3, h4, h5, h6]
  simp only [Bool.not_true, Bool.false_eq_true, if_false, Int.toNat_natCast]
  refine ⟨trivial, ?_, ⟨⟨{ hd with offset := (off : Int) + p.length }, ?_, ?_⟩, ?_⟩, ?_⟩
  · simp [FS.setHandle, FS.node, FS.setNode, List.getD_eq_getElem?_getD, hl]
  · simp [FS.setHandle, FS.setNode, hlen, h2, h3, h4]
  · simp_all
  · simpa [FS.setHandle] using hl
  · simp [FS.setHandle]

theorem seek_step (c : Cfg) (fs : FS) (hi ino off : Nat) (to : Nat) (hw : Writable fs hi ino off) :
    let r := step c fs (.seek hi to 0)
    r.2 = .ok (.num to) ∧ r.1.nodes = fs.nodes ∧ Writable r.1 hi ino to := by
  obtain ⟨⟨hd, h1, h2, h3, h4, h5, h6, h7⟩, hl⟩ := hw
  have hlen : hi < fs.handles.length := by
    rcases Nat.lt_or_ge hi fs.handles.length with h | h
    · exact h
    · rw [List.getElem?_eq_none h] at h1; cases h1
  subst h7
  simp only [step, h1, h2, h3, h4]
  simp only [Bool.not_true, Bool.false_eq_true, if_false, if_true]
  have : ¬ ((to : Int) < 0) := by omega
  simp only [show ¬ (0 > 2) by omega, this, if_false]
  refine ⟨trivial, rfl, ⟨⟨{ hd with offset := (to : Int) }, ?_, ?_⟩, ?_⟩⟩
  · simp [FS.setHandle, hlen, h2, h3, h4]
  · simp_all
  · simpa [FS.setHandle] using hl

/-- the operations of a seek-then-write pattern on one file object, oldest first -/
def wrOps (hi : Nat) : List (Nat × Text) → List Op
  | [] => []
  | w :: rest => .seek hi w.1 0 :: .write hi w.2 :: wrOps hi rest

/-- **read_after_write**, data level: after any pattern of seeks and writes through an open file
object (including writes after seeking past the end) the node's bytes are those of the
reference "newest covering write wins, holes are zero". -/
theorem data_after_writes (c : Cfg) (hi ino : Nat) :
    ∀ (ws : List (Nat × Text)) (fs : FS) (off : Nat), Writable fs hi ino off →
      ((run c fs (wrOps hi ws)).1.node ino).data =
        ws.foldl (fun d w => writeAt d w.1 w.2) (fs.node ino).data := by
  intro ws
  induction ws with
  | nil => intro fs off _; simp [wrOps, run]
  | cons w rest ih =>
    intro fs off hw
    simp only [wrOps, run, List.foldl_cons]
    obtain ⟨_, hn, hw1⟩ := seek_step c fs hi ino off w.1 hw
    obtain ⟨_, hd, hw2, _⟩ := write_step c (step c fs (.seek hi w.1 0)).1 hi ino w.1 w.2 hw1
    rw [ih _ _ hw2, hd]
    simp [FS.node, hn]

theorem foldl_writeAt_eq_applyWrites (ws : List (Nat × Text)) :
    ws.foldl (fun d w => writeAt d w.1 w.2) [] = applyWrites ws.reverse := by
  suffices h : ∀ (ws : List (Nat × Text)) (older : List (Nat × Text)),
      ws.foldl (fun d w => writeAt d w.1 w.2) (applyWrites older) = applyWrites (ws.reverse ++ older) by
    simpa [applyWrites] using h ws []
  intro ws
  induction ws with
  | nil => simp
  | cons w rest ih =>
    intro older
    simp only [List.foldl_cons, List.reverse_cons, List.append_assoc, List.singleton_append]
    exact ih (w :: older)

/-- **read_after_write**: on a file that was empty (created or truncated), after any seek/write
pattern, byte `i` is the byte of the newest write that covers `i`, zero inside a hole, and absent
past the end. -/
theorem read_after_write (c : Cfg) (fs : FS) (hi ino off : Nat) (ws : List (Nat × Text)) (i : Nat)
    (hw : Writable fs hi ino off) (hempty : (fs.node ino).data = []) :
    ((run c fs (wrOps hi ws)).1.node ino).data[i]? = lastWriteWins ws.reverse i := by
  rw [data_after_writes c hi ino ws fs off hw, hempty, foldl_writeAt_eq_applyWrites, applyWrites_spec]

/-- what `ReadAt(n, off)` returns through any open file object of the node is the window
`[off, off+n)` of its data -/
theorem readAt_window (c : Cfg) (fs : FS) (hj : Nat) (hd : Handle) (n off : Nat)
    (h1 : fs.handles[hj]? = some hd) (h2 : hd.valid = true) (h3 : hd.closed = false) (h4 : hd.rc = false)
    (hoff : off < (fs.node hd.ino).data.length) :
    step c fs (.readAt hj n off) = (fs, .ok (.bytes (((fs.node hd.ino).data.drop off).take n) false)) := by
  simp only [step, h1, h2, h3]
  have hge : ¬ (off ≥ (fs.node hd.ino).data.length) := by omega
  have hnn : ¬ ((off : Int) < 0) := by omega
  simp only [handleData, h4, readAtOff, hge, hnn, Bool.not_true, Bool.false_eq_true, if_false,
    Int.toNat_natCast]

/-- writing `p` and reading the same window back through any file object of that node gives `p` -/
theorem write_then_readAt (c : Cfg) (fs : FS) (hi hj ino off : Nat) (p : Text) (hp : p ≠ [])
    (hw : Writable fs hi ino off)
    (hr : ∃ hd : Handle, (step c fs (.write hi p)).1.handles[hj]? = some hd ∧ hd.valid = true ∧
            hd.closed = false ∧ hd.rc = false ∧ hd.ino = ino) :
    (step c (step c fs (.write hi p)).1 (.readAt hj p.length off)).2 = .ok (.bytes p false) := by
  obtain ⟨hd, h1, h2, h3, h4, h5⟩ := hr
  obtain ⟨_, hdata, _, _⟩ := write_step c fs hi ino off p hw
  have hlen : off < ((step c fs (.write hi p)).1.node hd.ino).data.length := by
    rw [h5, hdata, writeAt_length _ _ _ hp]
    have : 0 < p.length := List.length_pos_iff.mpr hp
    omega
  rw [readAt_window c _ hj hd p.length off h1 h2 h3 h4 hlen, h5, hdata, writeAt_read_back _ _ _ hp]

end Apko.C17
