import Apko.Model.Confine
import Apko.Generated.Confine
namespace Apko.C18
open Apko Apko.Path Apko.Confine

theorem tie_dirfs_calls : Generated.dirfsCalls = expectedCalls := by rfl

end Apko.C18
