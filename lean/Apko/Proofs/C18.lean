import Apko.Model.Confine
import Apko.Generated.Confine
import Apko.Proofs.Lemmas.ConfinePath
import Apko.Proofs.Lemmas.ConfineEtag
import Apko.Proofs.Lemmas.ConfineKeys
import Apko.Proofs.Lemmas.ConfinePkgDir
import Apko.Generated.Cache
/-!
# C18 — nothing is written outside the designated roots

* `sanitize_within`, `link_target_within`, `archive_within` — the three lexical checks (after the repair
  of F18a) confine at the level of path *components*; `…_naive_escapes` are the pinned conditions' witnesses.
* `dirfs_lexical` — every host path handed to `os.*` by any `dirFS` method is lexically within the root,
  whatever the overlay answers (after the repair of F18b: `programs_guarded` is checked on the programs
  tied to the regenerated call lists).
* `dirfs_physical` (full statement, **false**: F18c) with `not_dirfs_physical` (witness) and
  `dirfs_physical_partial` (no symlinks below the root ⇒ the kernel ends up inside the root).
* `cache_path_shape` / `cache_path_within_root_proved` / `cache_path_under_repo`, `etag_alphabet`, `etag_file_within_dir`,
  `cache_dir_within_root`, `cache_writes_within_root` (+ `cache_writes_defined`), `pkg_cache_dir_within_root`.
* `keyfile_basename` (`InitKeyring`), `keyfile_within_keys_dir` (full statement, **false**: `%2F` in an Alpine key URL,
  `/` in a JWKS key id) with `not_keyfile_within_keys_dir`, `keyfile_within_keys_dir_partial`, `keyfile_host_confined`;
  `keyname_no_slash`.
-/
namespace Apko.C18
open Apko Apko.Path Apko.Confine

/-- lexical confinement: the components of `v` start with those of `Clean(base)` and none is `.`/`..` -/
def Within (base v : Text) : Prop :=
  parts (clean base) <+: parts v ∧ ∀ c ∈ parts v, c ≠ dotdot ∧ c ≠ dot

theorem within_of_isWithin_clean {base x : Text} (hx : isAbs x = true) (h : isWithin base (clean x) = true) :
    Within base (clean x) := by
  refine ⟨isWithin_parts h, fun c hc => ?_⟩
  rw [parts_clean_abs hx] at hc
  have := (cleanParts_rooted_inv x c hc).1
  exact ⟨this.2.2, this.2.1⟩

theorem join2_abs {base : Text} (p : Text) (h : isAbs base = true) :
    join2 base p = clean (base ++ slash ++ p) ∧ isAbs (base ++ slash ++ p) = true := by
  obtain ⟨q, rfl⟩ := isAbs_cons h
  simp [join2, isAbs]

theorem sanitizePath_some {base p v : Text} (h : sanitizePath base p = some v) : v = join2 base p := by
  unfold sanitizePath at h
  simp only at h
  split at h
  · injection h with h; exact h.symm
  · cases h

/-- **sanitize_within**: a name accepted by `sanitizePath` stays, component by component, below the root -/
theorem sanitize_within {base p v : Text} (hb : isAbs base = true) (h : sanitizePath base p = some v) :
    Within base v := by
  obtain ⟨hj, ha⟩ := join2_abs p hb
  have hv := sanitizePath_some h
  unfold sanitizePath at h
  simp only at h
  split at h
  · next hw =>
    rw [hv, hj]
    rw [hj, clean_clean_abs ha] at hw
    exact within_of_isWithin_clean ha hw
  · cases h

/-- the same for the hard-link target test of `dirFS.Link` -/
theorem link_target_within {base old : Text} (hb : isAbs base = true) (h : linkTargetOK base old = true) :
    Within base (linkTarget base old) := by
  obtain ⟨hj, ha⟩ := join2_abs old hb
  unfold linkTargetOK linkTarget at *
  rw [hj, clean_clean_abs ha] at h ⊢
  exact within_of_isWithin_clean ha h

/-- `sanitizeArchivePath` (any directory, also relative ones): component-wise below `Clean(d)` -/
theorem archive_within {d t v : Text} (h : sanitizeArchivePath d t = some v) : parts (clean d) <+: parts v := by
  unfold sanitizeArchivePath at h
  simp only at h
  split at h
  · next hw => injection h with h; subst h; exact isWithin_parts hw
  · cases h

/-- F18a on the pinned tree: the prefix test without separator accepts a sibling of the root -/
theorem sanitize_naive_escapes :
    sanitizePathNaive (T "/t/root") (T "../root2/secret") = some (T "/t/root2/secret")
    ∧ sanitizeArchivePathNaive (T "/t/root") (T "../root2/secret") = some (T "/t/root2/secret")
    ∧ linkTargetOKNaive (T "/t/root") (T "../root2/secret") = true
    ∧ ¬ Within (T "/t/root") (T "/t/root2/secret") := by
  refine ⟨by decide, by decide, by decide, ?_⟩
  intro h
  have := h.1
  revert this
  decide

/-- … and the repaired test rejects it -/
theorem sanitize_rejects_sibling :
    sanitizePath (T "/t/root") (T "../root2/secret") = none
    ∧ sanitizeArchivePath (T "/t/root") (T "../root2/secret") = none
    ∧ linkTargetOK (T "/t/root") (T "../root2/secret") = false := by decide

example : sanitizePath (T "/t/root") (T "usr/../etc/passwd") = some (T "/t/root/etc/passwd") := by decide

/-! ## dirFS: the disk is only touched after the name was vetted -/

theorem programs_guarded : ∀ m : Method, guarded (program m) = true := by
  intro m; cases m <;> rfl

theorem exec_lexical (base : Text) (hb : isAbs base = true) (m : Method) (c : Call) (now : Int) :
    ∀ (steps : List Step) (sn so : Bool) (st : DState) (tr : Trace),
      guardedFrom sn so steps = true →
      (sn = true → (sanitizePath base c.name).isSome = true) →
      (so = true → linkTargetOK base c.old = true) →
      (∀ p ∈ tr, Within base p) →
      ∀ p ∈ (exec base m c now steps st tr).2.2, Within base p := by
  intro steps
  induction steps with
  | nil => intro sn so st tr _ _ _ htr; simpa [exec] using htr
  | cons s rest ih =>
    intro sn so st tr hg hsn hso htr
    obtain ⟨kind, toks⟩ := s
    cases kind with
    | san a =>
      cases a with
      | name =>
        simp only [guardedFrom] at hg
        simp only [exec, argOf]
        split
        · exact htr
        · next v hv => exact ih true so st tr hg (fun _ => by simp [hv]) hso htr
      | old =>
        simp only [guardedFrom] at hg
        simp only [exec, argOf]
        split
        · exact htr
        · exact ih sn so st tr hg hsn hso htr
    | linkCond =>
      simp only [guardedFrom] at hg
      simp only [exec]
      split
      · next hl => exact ih sn true st tr hg hsn (fun _ => hl) htr
      · exact htr
    | disk op e =>
      simp only [guardedFrom, Bool.and_eq_true, Bool.or_eq_true, bne_iff_ne, ne_eq] at hg
      obtain ⟨⟨h1, h2⟩, h3⟩ := hg
      have hp : Within base (join2 base c.name) := by
        have := hsn h1
        cases hs : sanitizePath base c.name with
        | none => rw [hs] at this; cases this
        | some v => have := sanitize_within hb hs; rwa [sanitizePath_some hs] at this
      have htr1 : ∀ p ∈ tr ++ (if op = DiskOp.link then [linkTarget base c.old, join2 base c.name] else [join2 base c.name]),
          Within base p := by
        intro p hpm
        rcases List.mem_append.1 hpm with hpm | hpm
        · exact htr p hpm
        · split at hpm
          · next hop =>
            have hso' : so = true := by
              rcases h2 with h2 | h2
              · exact absurd hop h2
              · exact h2
            rcases List.mem_cons.1 hpm with e | e
            · rw [e]; exact link_target_within hb (hso hso')
            · simp at e; rw [e]; exact hp
          · simp at hpm; rw [hpm]; exact hp
      simp only [exec]
      generalize st.host.disk op (join2 base c.name) (linkTarget base c.old) c now = r
      obtain ⟨hh, err⟩ := r
      simp only
      split
      · exact htr1
      · exact ih sn so _ _ h3 hsn hso htr1
    | ov =>
      simp only [guardedFrom] at hg
      simp only [exec]
      generalize runOv st.ov m c = r
      obtain ⟨fs1, ok⟩ := r
      simp only
      split
      · exact ih sn so _ tr hg hsn hso htr
      · exact htr
    | dead =>
      simp only [guardedFrom] at hg
      simp only [exec]
      exact ih sn so st tr hg hsn hso htr

/-- **dirfs_lexical**: for every method of `dirFS`, every argument, every state of the overlay and of the
host, every path handed to `os.*`/`unix.*` lies lexically (component-wise) within the root -/
theorem dirfs_lexical (base : Text) (hb : isAbs base = true) (m : Method) (c : Call) (now : Int) (st : DState) :
    ∀ p ∈ (dirStep base m c now st).2.2, Within base p := by
  unfold dirStep
  exact exec_lexical base hb m c now (program m) false false st [] (programs_guarded m)
    (fun h => by cases h) (fun h => by cases h) (fun _ h => by cases h)

/-- a hostile name never reaches the disk: the trace is empty and the host is untouched -/
theorem dirfs_tainted_untouched :
    (dirStep baseT .writeFile { name := T "../canary/x", data := T "data" } 0 { host := canaryHost }).2
      = (.tainted, []) := by decide


/-! ## physical confinement (F18c) -/

/-- Full statement (**false** on the code, F18c): after any sequence of disk calls on lexically vetted names
(what `dirFS` performs, by `dirfs_lexical`), the kernel resolves every vetted path to a location inside the root. -/
def dirfs_physical : Prop :=
  ∀ (calls : List (DiskOp × Call)) (name v : Text) (fl : Bool) (loc : HPath),
    (∀ oc ∈ calls, (sanitizePath baseT oc.2.name).isSome = true) →
    sanitizePath baseT name = some v →
    ((calls.foldl (fun h (oc : DiskOp × Call) =>
        (h.disk oc.1 (join2 baseT oc.2.name) (linkTarget baseT oc.2.old) oc.2 0).1) canaryHost).locate v fl).toOption
      = some loc →
    baseP <+: loc

/-- the witness: a symlink to a host directory, then a path beneath it -/
theorem not_dirfs_physical : ¬ dirfs_physical := by
  intro h
  have := h [(.symlink, { name := T "L", old := T "/T/w/r/canary" })] (T "L/f") (T "/T/w/r/root/L/f") true
    [T "T", T "w", T "r", T "canary", T "f"] (by decide) (by decide) (by decide)
  revert this
  decide

/-- no symbolic link at or below `base` -/
def NoLinkBelow (h : Host) (base : HPath) : Prop := ∀ p t, base <+: p → h.get p ≠ some (.link t)

/-- the kernel's walk, started inside the root over components without `..`, stays inside the root as
long as there is no symbolic link below the root -/
theorem walk_confined (h : Host) (base : HPath) (hn : NoLinkBelow h base) :
    ∀ (fuel : Nat) (cur : HPath) (cs : List Name) (fl : Bool) (loc : HPath),
      base <+: cur → (∀ c ∈ cs, c ≠ dotdot) → walk h fuel cur cs fl = .ok loc → base <+: loc := by
  intro fuel
  induction fuel with
  | zero => intro cur cs fl loc _ _ hw; simp [walk] at hw
  | succ f ih =>
    intro cur cs fl loc hc hcs hw
    cases cs with
    | nil => simp [walk] at hw; rw [← hw]; exact hc
    | cons c rest =>
      have hrest : ∀ d ∈ rest, d ≠ dotdot := fun d hd => hcs d (by simp [hd])
      have hp : base <+: cur ++ [c] := List.IsPrefix.trans hc (List.prefix_append _ _)
      simp only [walk] at hw
      split at hw
      · exact ih cur rest fl loc hc hrest hw
      · split at hw
        · next hdd => exact absurd hdd (hcs c (by simp))
        · split at hw
          · split at hw
            · injection hw with hw; rw [← hw]; exact hp
            · cases hw
          · next t hg => exact absurd hg (hn _ t hp)
          · exact ih _ rest fl loc hp hrest hw
          · split at hw
            · injection hw with hw; rw [← hw]; exact hp
            · cases hw

/-- **dirfs_physical_partial**: on a host without symbolic links the kernel ends up exactly at the
components of the path it was given, hence (by `dirfs_lexical`) inside the root -/
theorem walk_no_links (h : Host) (hn : NoLinkBelow h []) :
    ∀ (fuel : Nat) (cur : HPath) (cs : List Name) (fl : Bool) (loc : HPath),
      (∀ c ∈ cs, c ≠ dotdot ∧ c ≠ dot) → walk h fuel cur cs fl = .ok loc → loc = cur ++ cs.filter (· ≠ []) := by
  intro fuel
  induction fuel with
  | zero => intro cur cs fl loc _ hw; simp [walk] at hw
  | succ f ih =>
    intro cur cs fl loc hcs hw
    cases cs with
    | nil => simp [walk] at hw; simp [hw]
    | cons c rest =>
      have hrest : ∀ d ∈ rest, d ≠ dotdot ∧ d ≠ dot := fun d hd => hcs d (by simp [hd])
      have hc := hcs c (by simp)
      simp only [walk] at hw
      split at hw
      · next h1 =>
        have : c = [] := by rcases h1 with h1 | h1; exact h1; exact absurd h1 hc.2
        rw [ih cur rest fl loc hrest hw]; simp [this]
      · next h1 =>
        have hne : c ≠ [] := fun e => h1 (Or.inl e)
        split at hw
        · next hdd => exact absurd hdd hc.1
        · have hlast : ∀ (l : List Name), (l.all fun r => decide (r = [] ∨ r = dot)) = true →
              (∀ d ∈ l, d ≠ dotdot ∧ d ≠ dot) → ∀ a ∈ l, a = [] := by
            intro l hl hd d hdm
            have := List.all_eq_true.1 hl d hdm
            simp only [decide_eq_true_eq] at this
            rcases this with e | e
            · exact e
            · exact absurd e (hd d hdm).2
          split at hw
          · split at hw
            · next hl => injection hw with hw; rw [← hw]; simp [hne]; exact hlast rest hl hrest
            · cases hw
          · next t hg => exact absurd hg (hn _ t (List.nil_prefix))
          · rw [ih _ rest fl loc hrest hw]; simp [hne]
          · split at hw
            · next hl => injection hw with hw; rw [← hw]; simp [hne]; exact hlast rest hl hrest
            · cases hw

theorem dirfs_physical_partial (base : Text) (hb : isAbs base = true) (m : Method) (c : Call) (now : Int)
    (st : DState) (hn : NoLinkBelow st.host []) (fl : Bool) (loc : HPath) :
    ∀ p ∈ (dirStep base m c now st).2.2, st.host.locate p fl = .ok loc → parts (clean base) <+: loc := by
  intro p hp hl
  have hw := dirfs_lexical base hb m c now st p hp
  unfold Host.locate at hl
  have := walk_no_links st.host hn walkFuel [] (splitOnChar '/' p) fl loc ?_ hl
  · rw [this]; simpa [parts] using hw.1
  · intro d hd
    by_cases hde : d = []
    · subst hde; exact ⟨by decide, by decide⟩
    · exact hw.2 d (by simp [parts, hd, hde])

/-! ## etag and key names -/

theorem b32Char_mem (n : Nat) : b32Char n ∈ b32Alphabet := by
  have : ∀ k : Fin 32, b32Alphabet.getD k.val 'A' ∈ b32Alphabet := by decide
  exact this ⟨n % 32, Nat.mod_lt _ (by decide)⟩

theorem b32Block_alphabet (bs : List Nat) : ∀ c ∈ b32Block bs, c ∈ b32Alphabet ∨ c = '=' := by
  intro c hc
  unfold b32Block at hc
  simp only at hc
  rcases List.mem_append.1 hc with h | h
  · have := List.mem_of_mem_take h
    obtain ⟨i, _, hi⟩ := List.mem_map.1 this
    left; rw [← hi]; exact b32Char_mem _
  · right; exact (List.mem_replicate.1 h).2

theorem b32_alphabet : ∀ (bs : List Nat), ∀ c ∈ b32 bs, c ∈ b32Alphabet ∨ c = '=' := by
  intro bs
  fun_induction b32 bs with
  | case1 a b c d e rest ih =>
    intro x hx
    rcases List.mem_append.1 hx with h | h
    · exact b32Block_alphabet _ x h
    · exact ih x h
  | case2 => intro x hx; cases hx
  | case3 l _ _ => intro x hx; exact b32Block_alphabet _ x hx

/-- **etag_alphabet**: whatever the server sends as `ETag`, the name derived from it is made of
`[A-Z2-7=]` only (no `/`, no `.`) and is not empty -/
theorem etag_alphabet (hdr : Option (List Text)) (e : Text) (h : etagFromResponse hdr = some e) :
    e ≠ [] ∧ ∀ c ∈ e, c ∈ b32Alphabet ∨ c = '=' := by
  unfold etagFromResponse at h
  split at h
  · cases h
  · cases h
  · split at h
    · cases h
    · simp only at h
      split at h
      · cases h
      · next hne => injection h with h; subst h; exact ⟨hne, b32_alphabet _⟩

theorem etag_no_slash_no_dot (hdr : Option (List Text)) (e : Text) (h : etagFromResponse hdr = some e) :
    '/' ∉ e ∧ '.' ∉ e := by
  have := (etag_alphabet hdr e h).2
  constructor <;> intro hc <;> rcases this _ hc with h' | h' <;> revert h' <;> decide

/-- **keyfile_basename**: `filepath.Base` never contains a separator (it *is* the separator for `/`),
so `InitKeyring` names its file by one component -/
theorem mem_takeWhile_pos {α} (p : α → Bool) : ∀ (l : List α) (x : α), x ∈ l.takeWhile p → p x = true
  | [], _, h => by simp at h
  | a :: l, x, h => by
    rw [List.takeWhile_cons] at h
    split at h
    · next hp =>
      rcases List.mem_cons.1 h with e | e
      · rw [e]; exact hp
      · exact mem_takeWhile_pos p l x e
    · simp at h

theorem base_no_slash (e : Text) : '/' ∉ base e ∨ base e = slash := by
  unfold base
  split
  · left; decide
  · simp only
    split
    · right; rfl
    · left
      intro hc
      have := List.mem_reverse.1 hc
      have := mem_takeWhile_pos _ _ _ this
      simp at this

/-- the key-name test of `parseRepositoryIndex` -/
theorem keyname_no_slash (k : Text) : keyNameOK k = true ↔ '/' ∉ k := by
  simp [keyNameOK]

/-- For every URL path and every safe escape of the repository part, the cache file lies strictly below the root
(proved below: `cache_path_within_root_proved`; the driver also evaluates the component-level oracle on every result). -/
def cache_path_within_root : Prop :=
  ∀ (root path esc v : Text), isAbs root = true → EscSafe esc → cachePathFromURL root path esc = some v →
    Within root v ∧ v ≠ clean root

/-- F18d on the pinned tree: the path `/..` mapped to the cache root itself; the repaired test rejects it -/
theorem cache_path_rejects_root :
    cachePathFromURL (T "/t/cache") (T "/..") (T "https%3A%2F%2Frepo.test%2F") = none := by decide

example : cachePathFromURL (T "/t/cache") (T "/os/x86_64/p.apk") (T "https%3A%2F%2Frepo.test%2Fos")
    = some (T "/t/cache/https%3A%2F%2Frepo.test%2Fos/x86_64/p.apk") := by decide


/-! ## cache naming: `cachePathFromURL`, the etag names, what the transport writes -/

/-- strictly below the root: confined, and at least one component follows the root's -/
def StrictlyBelow (root v : Text) : Prop :=
  Within root v ∧ ∃ rest, rest ≠ [] ∧ parts v = parts (clean root) ++ rest

theorem parts_clean_root {root : Text} (hr : isAbs root = true) : parts (clean root) = (stk [] root).reverse := by
  obtain ⟨h, hn⟩ := clean_root_eq hr
  rw [h, parts_absOf (NL_reverse hn)]

theorem within_absOf {root : Text} {rest : List Name} (hn : NL (parts (clean root) ++ rest)) :
    Within root (absOf (parts (clean root) ++ rest)) := by
  rw [Within, parts_absOf hn]
  exact ⟨List.prefix_append _ _, fun c hc => ⟨(hn c hc).1.2.2, (hn c hc).1.2.1⟩⟩

theorem strictlyBelow_absOf {root : Text} {rest : List Name} (hn : NL (parts (clean root) ++ rest)) (hne : rest ≠ []) :
    StrictlyBelow root (absOf (parts (clean root) ++ rest)) :=
  ⟨within_absOf hn, rest, hne, parts_absOf hn⟩

/-- **the exact shape of an accepted cache path.**  `Clean(Join(root, esc, Base(Dir(path)), Base(path)))` is the
cleaned root followed by: `esc`, then the architecture directory (dropped when it is `/` or `.`), then the file
name (dropped when it is `/` or `.`); a file name `..` removes the element before it (never `esc` and the
directory both: the outcomes "root" and "parent of the root" are rejected by the test); only a *directory* `..`
— possible for relative URL paths only, see `cache_path_under_repo` — removes `esc`. -/
theorem cache_path_shape {root path esc v : Text} (hr : isAbs root = true) (he : EscSafe esc)
    (h : cachePathFromURL root path esc = some v) :
    ∃ rest, v = absOf (parts (clean root) ++ rest) ∧ NL (parts (clean root) ++ rest) ∧
      (rest = [esc] ∨ rest = [esc, base path] ∨ rest = [esc, base (dir path)]
        ∨ rest = [esc, base (dir path), base path] ∨ (base (dir path) = dotdot ∧ rest = [base path])) := by
  obtain ⟨hv, hne, hp⟩ := cachePathFromURL_some hr he h
  subst hv
  obtain ⟨top, hS, hc⟩ := cacheStack_shape hr hne hp
  have hnl := NL_reverse (cacheFile_eq (path := path) hr he).2
  rw [parts_clean_root hr]
  rw [hS] at hnl ⊢
  rw [List.reverse_append] at hnl ⊢
  refine ⟨top.reverse, rfl, hnl, ?_⟩
  rcases hc with e | e | e | e | ⟨e1, e⟩
  · subst e; exact Or.inl rfl
  · subst e; exact Or.inr (Or.inl rfl)
  · subst e; exact Or.inr (Or.inr (Or.inl rfl))
  · subst e; exact Or.inr (Or.inr (Or.inr (Or.inl rfl)))
  · subst e; exact Or.inr (Or.inr (Or.inr (Or.inr ⟨e1, rfl⟩)))

theorem cache_path_strictly_below {root path esc v : Text} (hr : isAbs root = true) (he : EscSafe esc)
    (h : cachePathFromURL root path esc = some v) : StrictlyBelow root v := by
  obtain ⟨rest, hv, hn, hc⟩ := cache_path_shape hr he h
  subst hv
  refine strictlyBelow_absOf hn ?_
  rcases hc with e | e | e | e | ⟨_, e⟩ <;> simp [e]

/-- **cache_path_within_root**: for every absolute root, every URL path and every safe escape of the repository
part, an accepted cache path lies component-wise below the root and is not the root -/
theorem cache_path_within_root_proved : cache_path_within_root := by
  intro root path esc v hr he h
  exact ⟨(cache_path_strictly_below hr he h).1, (cachePathFromURL_some hr he h).2.1⟩

/-- for the paths `net/url` produces for a URL with a host (empty or starting with `/`) the cache file lies
below `root/esc`: different repositories never share files -/
theorem cache_path_under_repo {root path esc v : Text} (hr : isAbs root = true) (he : EscSafe esc)
    (hpath : path = [] ∨ isAbs path = true) (h : cachePathFromURL root path esc = some v) :
    parts (clean root) ++ [esc] <+: parts v := by
  obtain ⟨rest, hv, hn, hc⟩ := cache_path_shape hr he h
  subst hv
  rw [parts_absOf hn]
  rcases hc with e | e | e | e | ⟨e1, _⟩
  · rw [e]; exact List.prefix_refl _
  · rw [e]; exact ⟨[base path], by simp⟩
  · rw [e]; exact ⟨[base (dir path)], by simp⟩
  · rw [e]; exact ⟨[base (dir path), base path], by simp⟩
  · exact absurd e1 (base_dir_ne_dotdot hpath)

/-- the hypothesis on the path is needed: a relative path with the directory `..` lands beside `esc` (still
strictly below the root) -/
example : cachePathFromURL (T "/t/cache") (T "../p.apk") (T "https%3A%2F%2Frepo.test")
    = some (T "/t/cache/p.apk") := by decide

/-- **etag_file_within_dir**: for EVERY `ETag` header value the server sends, `cacheFileFromEtag` succeeds and
names one file directly inside `cacheDirFromFile cacheFile` (one more component, `base32(etag) ++ ext`) -/
theorem etag_file_within_dir (hdr : Option (List Text)) (e cf : Text) (hcf : isAbs cf = true)
    (h : etagFromResponse hdr = some e) :
    ∃ p, cacheFileFromEtag cf e = some p
      ∧ parts p = parts (cacheDirFromFile cf) ++ [e ++ etagExt cf]
      ∧ dir p = cacheDirFromFile cf
      ∧ Within (cacheDirFromFile cf) p := by
  obtain ⟨hne, _⟩ := etag_alphabet hdr e h
  obtain ⟨hs, hd⟩ := etag_no_slash_no_dot hdr e h
  obtain ⟨D, hnl, hdir, hp⟩ := cacheFileFromEtag_normal hcf hne hs hd
  have hD : NL D := fun x hx => hnl x (by simp [hx])
  refine ⟨_, hp, ?_, ?_, ?_⟩
  · rw [hdir, parts_absOf hnl, parts_absOf hD]
  · rw [hdir, dir_absOf hnl, List.dropLast_concat]
  · rw [Within, hdir, clean_absOf hD, parts_absOf hnl, parts_absOf hD]
    exact ⟨List.prefix_append _ _, fun c hc => ⟨(hnl c hc).1.2.2, (hnl c hc).1.2.1⟩⟩

/-- the etag directory of a cache file that lies strictly below the root lies (not necessarily strictly: a
cache file directly in the root has the root as directory) below the root -/
theorem cache_dir_within_root {root cf : Text} (hcf : isAbs cf = true)
    (hclean : clean cf = cf) (hb : StrictlyBelow root cf) :
    Within root (cacheDirFromFile cf) ∧ Within root (dir cf) := by
  obtain ⟨C, hC, hcC, -⟩ := clean_abs_normal hcf
  rw [hclean] at hcC
  obtain ⟨_, rest, hrest, hparts⟩ := hb
  rw [hcC, parts_absOf hC] at hparts
  obtain ⟨D0, D, hD0, hD, hdir, hcd, hDD⟩ := cacheDirFromFile_normal hcf
  have e0 : D0 = parts (clean root) ++ rest.dropLast := by
    have := dir_absOf hC
    rw [← hcC, hdir] at this
    rw [absOf_inj hD0 (NL_dropLast hC) this, hparts, List.dropLast_append_of_ne_nil hrest]
  have w0 : ∀ {D : List Name}, NL D → parts (clean root) <+: D → Within root (absOf D) := by
    intro D hD hp
    rw [Within, parts_absOf hD]
    exact ⟨hp, fun c hc => ⟨(hD c hc).1.2.2, (hD c hc).1.2.1⟩⟩
  have p0 : parts (clean root) <+: D0 := by rw [e0]; exact List.prefix_append _ _
  refine ⟨?_, ?_⟩
  · rw [hcd]
    refine w0 hD ?_
    rcases hDD with e | e
    · rw [e]; exact p0
    · rw [e]; exact List.IsPrefix.trans p0 (List.prefix_append _ _)
  · rw [hdir]; exact w0 hD0 p0

/-- **cache_writes_within_root**: for every URL (path, safe escape), every `ETag` header of the response and
every random string `os.CreateTemp` draws, the directory the transport creates lies within the cache root, and
the temporary file and the advertised etag file lie strictly below it, directly inside that directory -/
theorem cache_writes_within_root {root path esc rnd : Text} {hdr : Option (List Text)} {ws : List Text}
    (hr : isAbs root = true) (he : EscSafe esc) (hrnd : '/' ∉ rnd)
    (h : cacheTransportWrites root path esc hdr rnd = some ws) :
    ∃ d t f, ws = [d, t, f] ∧ Within root d ∧ StrictlyBelow root t ∧ StrictlyBelow root f
      ∧ dir t = d ∧ dir f = d := by
  unfold cacheTransportWrites at h
  split at h
  · cases h
  · next cf hcf =>
    split at h
    · cases h
    · next e hetag =>
      split at h
      · cases h
      · next ef hef =>
        injection h with h
        -- the cache file, in normal form
        obtain ⟨rest, hv, hn, hc⟩ := cache_path_shape hr he hcf
        have habs : isAbs cf = true := by rw [hv]; exact isAbs_absOf _
        have hcl : clean cf = cf := by rw [hv]; exact clean_absOf hn
        have hsb := cache_path_strictly_below hr he hcf
        -- the etag file
        obtain ⟨hne, _⟩ := etag_alphabet hdr e hetag
        obtain ⟨hs, hd⟩ := etag_no_slash_no_dot hdr e hetag
        obtain ⟨D, hnl, hdir, hp⟩ := cacheFileFromEtag_normal habs hne hs hd
        rw [hef] at hp
        injection hp with hp
        have hD : NL D := fun x hx => hnl x (by simp [hx])
        have hwd := (cache_dir_within_root habs hcl hsb).1
        rw [hdir] at hwd
        obtain ⟨k, hk⟩ : ∃ k, D = parts (clean root) ++ k := by
          have := hwd.1
          rw [parts_absOf hD] at this
          obtain ⟨k, hk⟩ := this
          exact ⟨k, hk.symm⟩
        have hdiref : dir ef = absOf D := by rw [hp, dir_absOf hnl, List.dropLast_concat]
        have htmpn := tmp_name_normal hrnd
        have hnt : NL (D ++ [rnd ++ T ".tmp"]) := NL_append hD (NL_cons htmpn NL_nil)
        refine ⟨absOf D, absOf (D ++ [rnd ++ T ".tmp"]), ef, ?_, hwd, ?_, ?_, ?_, hdiref⟩
        · rw [← h, hdiref, createTempName_absOf hD]
        · subst hk
          rw [List.append_assoc] at hnt ⊢
          exact strictlyBelow_absOf hnt (by simp)
        · rw [hp]
          subst hk
          rw [List.append_assoc] at hnl ⊢
          exact strictlyBelow_absOf hnl (by simp)
        · rw [dir_absOf hnt, List.dropLast_concat]

/-- and the transport does write for every accepted URL and every response that carries an `ETag`: the
theorem above is not vacuous -/
theorem cache_writes_defined {root path esc rnd v e : Text} {hdr : Option (List Text)}
    (hr : isAbs root = true) (he : EscSafe esc) (hv : cachePathFromURL root path esc = some v)
    (hetag : etagFromResponse hdr = some e) :
    (cacheTransportWrites root path esc hdr rnd).isSome = true := by
  obtain ⟨rest, hvv, hn, _⟩ := cache_path_shape hr he hv
  have habs : isAbs v = true := by rw [hvv]; exact isAbs_absOf _
  obtain ⟨p, hp, _⟩ := etag_file_within_dir hdr e v habs hetag
  simp [cacheTransportWrites, hv, hetag, hp]

example : cacheTransportWrites (T "/t/cache") (T "/os/x86_64/APKINDEX.tar.gz") (T "https%3A%2F%2Frepo.test%2Fos")
    (some [T "\"../../x\""]) (T "123")
    = some [T "/t/cache/https%3A%2F%2Frepo.test%2Fos/x86_64/APKINDEX",
            T "/t/cache/https%3A%2F%2Frepo.test%2Fos/x86_64/APKINDEX/123.tmp",
            T "/t/cache/https%3A%2F%2Frepo.test%2Fos/x86_64/APKINDEX/FYXC6LROF54A====.tar.gz"] := by decide


/-! ## key files: `InitKeyring`, `fetchChainguardKeys`, `fetchAlpineKeys` -/

/-- **keyfile_basename** (`InitKeyring`, for EVERY key file string): the file is `etc/apk/keys/<Base(element)>`
when the base name is a component `Clean` keeps; otherwise (`Base` = `/`, `.` or `..`) the name is the keys
directory itself or `etc/apk` — directories `InitKeyring` has just created, so `WriteFile` fails; no input
leaves `etc/apk` -/
theorem keyfile_basename (element : Text) :
    parts (keyringFile element) = [T "etc", T "apk", T "keys", base element]
    ∨ ((base element = slash ∨ base element = dot) ∧ keyringFile element = T "etc/apk/keys")
    ∨ (base element = dotdot ∧ keyringFile element = T "etc/apk") := by
  rcases keyringFile_cases element with ⟨hn, hs, h⟩ | h | h
  · left
    have := keysDir_join_parts ⟨hn, hs⟩
    rw [keysDir_join_normal ⟨hn, hs⟩] at this
    rw [h]; exact this
  · exact Or.inr (Or.inl h)
  · exact Or.inr (Or.inr h)

/-- Full statement (**false** on the code): the keys discovered for a repository — `fetchAlpineKeys` (URL from
`releases.json`, base name `PathUnescape`d *after* `Base`) and `fetchChainguardKeys` (`kid` from the JWKS) — are
written inside `etc/apk/keys` -/
def keyfile_within_keys_dir : Prop :=
  (∀ u name, alpineKeyFile u = some name → parts keysDir <+: parts name)
  ∧ (∀ kid, parts keysDir <+: parts (chainguardKeyFile kid))

/-- the witnesses: `%2F` in the base name of an Alpine key URL / a `/` in a JWKS key id place the "key" anywhere
in the image (`etc/passwd`); with one more `..` the name leaves the image root (and is then rejected by the
repaired `dirFS`: `keyfile_host_confined`) -/
theorem keyfile_escapes_keys_dir :
    alpineKeyFile (T "https://alpinelinux.org/keys/..%2F..%2F..%2Fetc%2Fpasswd") = some (T "etc/passwd")
    ∧ alpineKeyFile (T "https://alpinelinux.org/keys/..%2F..%2F..%2F..%2Fcanary") = some (T "../canary")
    ∧ chainguardKeyFile (T "../../../usr/bin/x") = T "usr/bin/x.rsa.pub"
    ∧ chainguardKeyFile (T "../../../../canary/pwn") = T "../canary/pwn.rsa.pub" := by decide

theorem not_keyfile_within_keys_dir : ¬ keyfile_within_keys_dir := by
  intro h
  have := h.1 _ _ keyfile_escapes_keys_dir.1
  revert this
  decide

/-- what does hold: a base name that is (after unescaping) one kept component without separator / a key id
without separator is written directly inside `etc/apk/keys` -/
theorem keyfile_within_keys_dir_partial :
    (∀ u b, pathUnescape (base u) = some b → Normal b → '/' ∉ b →
        alpineKeyFile u = some (T "etc/apk/keys" ++ '/' :: b)
        ∧ parts (T "etc/apk/keys" ++ '/' :: b) = [T "etc", T "apk", T "keys", b])
    ∧ (∀ kid, '/' ∉ kid → parts (chainguardKeyFile kid) = [T "etc", T "apk", T "keys", kid ++ T ".rsa.pub"]) := by
  refine ⟨?_, ?_⟩
  · intro u b hu hn hs
    have hj := keysDir_join_normal ⟨hn, hs⟩
    have hp := keysDir_join_parts ⟨hn, hs⟩
    rw [hj] at hp
    refine ⟨?_, hp⟩
    unfold alpineKeyFile
    rw [hu]
    exact congrArg some hj
  · intro kid hk
    exact keysDir_join_parts (chainguard_name_normal hk)

example : alpineKeyFile (T "https://alpinelinux.org/keys/alpine-devel%40lists.alpinelinux.org-4a6a0840.rsa.pub")
    = some (T "etc/apk/keys/alpine-devel@lists.alpinelinux.org-4a6a0840.rsa.pub") := by decide

/-- **the repaired `dirFS` alone confines all three key routes to the image root**: whatever the key file
string, the key URL of `releases.json` or the JWKS key id is, the calls the code makes (`WriteFile`,
`OpenFile(O_CREATE|O_WRONLY)`) hand only paths inside the root to `os.*` (instance of `dirfs_lexical`) -/
theorem keyfile_host_confined (base : Text) (hb : isAbs base = true) (c : Call) (now : Int) (st : DState) :
    (∀ element, ∀ p ∈ (dirStep base .writeFile { c with name := keyringFile element } now st).2.2, Within base p)
    ∧ (∀ kid, ∀ p ∈ (dirStep base .writeFile { c with name := chainguardKeyFile kid } now st).2.2, Within base p)
    ∧ (∀ u name, alpineKeyFile u = some name →
        ∀ p ∈ (dirStep base .openFileCreate { c with name := name } now st).2.2, Within base p) :=
  ⟨fun _ => dirfs_lexical base hb _ _ now st, fun _ => dirfs_lexical base hb _ _ now st,
   fun _ _ _ => dirfs_lexical base hb _ _ now st⟩

/-- … and a name that left the image root never reaches the disk -/
theorem keyfile_dotdot_tainted :
    (dirStep baseT .openFileCreate { name := T "../canary", flag := 0o101, perm := 0o644 } 0 { host := canaryHost }).2
      = (.tainted, []) := by decide


/-! ## the package cache directory (`cacheDirForPackage`) -/

theorem within_absOf_of_prefix {root : Text} {D : List Name} (hD : NL D) (hp : parts (clean root) <+: D) :
    Within root (absOf D) := by
  rw [Within, parts_absOf hD]
  exact ⟨hp, fun c hc => ⟨(hD c hc).1.2.2, (hD c hc).1.2.1⟩⟩

/-- **pkg_cache_dir_within_root**: the directory `expandPackage` creates (`os.MkdirAll`) and fills for a package
is the cache path without `.apk`, *not* cleaned again; for every URL path that is empty or absolute and every
safe escape other than the literal `...apk` the kernel's lexical reading of it (`Clean`) lies within the cache
root (possibly the root itself: a file name `...apk` directly below `root/esc`) -/
theorem pkg_cache_dir_within_root {root path esc dd : Text} (hr : isAbs root = true) (he : EscSafe esc)
    (hesc : esc ≠ T "...apk") (hpath : path = [] ∨ isAbs path = true)
    (h : cacheDirForPackage root path esc = some dd) : Within root (clean dd) := by
  unfold cacheDirForPackage at h
  split at h
  · cases h
  · next p hp =>
    split at h
    · next hext =>
      injection h with h
      subst h
      obtain ⟨rest, hv, hn, hc⟩ := cache_path_shape hr he hp
      have hrest : rest ≠ [] := by rcases hc with e | e | e | e | ⟨_, e⟩ <;> simp [e]
      obtain ⟨k, l, hk⟩ : ∃ k l, rest = k ++ [l] := by
        rcases List.eq_nil_or_concat rest with e | ⟨k, l, e⟩
        · exact absurd e hrest
        · exact ⟨k, l, by rw [e, List.concat_eq_append]⟩
      subst hk
      rw [← List.append_assoc] at hv hn
      have hl := hn l (by simp)
      have hL : NL (parts (clean root) ++ k) := fun x hx => hn x (by
        rcases List.mem_append.1 hx with e | e
        · simp [e]
        · simp [e])
      -- the last component ends with `.apk`
      have hseg : lastSeg p = l := by rw [hv, absOf_snoc]; exact lastSeg_append _ _ hl.2
      obtain ⟨s0, hs0⟩ := ext_apk hext
      rw [hseg] at hs0
      have hs : '/' ∉ s0 := fun hm => hl.2 (by rw [hs0]; exact List.mem_append_left _ hm)
      rw [hv, hs0, pkgdir_clean hL hs]
      have hNL : NL (cleanStep true (parts (clean root) ++ k).reverse s0).reverse :=
        NL_reverse (cleanStep_rooted_inv (fun c => '/' ∉ c) _ s0 (NL_reverse hL) hs)
      refine within_absOf_of_prefix hNL ?_
      by_cases h1 : s0 = [] ∨ s0 = dot
      · rw [cleanStep_nop true _ h1, List.reverse_reverse]; exact List.prefix_append _ _
      · by_cases h2 : s0 = dotdot
        · subst h2
          rw [cleanStep_pop (fun x hx => ((NL_reverse hL) x hx).1)]
          have : (parts (clean root) ++ k).reverse.tail.reverse = (parts (clean root) ++ k).dropLast := by
            rw [List.tail_reverse, List.reverse_reverse]
          rw [this]
          by_cases hkn : k = []
          · -- the cache path is `root/<l>` with `l = "...apk"`: `l` is `esc` (excluded) or the directory was `..`
            subst hkn
            exfalso
            have hl3 : l = T "...apk" := by rw [hs0]; rfl
            rcases hc with e | e | e | e | ⟨e1, _⟩
            · simp at e; exact hesc (by rw [← e, hl3])
            · simp at e
            · simp at e
            · simp at e
            · exact base_dir_ne_dotdot hpath e1
          · rw [List.dropLast_append_of_ne_nil hkn]; exact List.prefix_append _ _
        · have hne : s0 ≠ [] := fun e => h1 (Or.inl e)
          have hnd : s0 ≠ dot := fun e => h1 (Or.inr e)
          rw [cleanStep_push true _ ⟨hne, hnd, h2⟩]
          simp only [List.reverse_cons, List.reverse_reverse, List.append_assoc]
          exact List.prefix_append _ _
    · cases h

/-- both hypotheses are needed: with a relative URL path whose directory is `..` (not produced by `net/url` for
a URL with a host, nor by `uri.New` for a local repository) the uncleaned `..` leaves the cache root -/
theorem pkg_cache_dir_relative_escapes :
    cacheDirForPackage (T "/t/cache") (T "../...apk") (T "https%3A%2F%2Frepo.test") = some (T "/t/cache/..")
    ∧ cacheDirForPackage (T "/t/cache") (T "/") (T "...apk") = some (T "/t/cache/..") := by decide

example : cacheDirForPackage (T "/t/cache") (T "/os/x86_64/p-1.0-r0.apk") (T "https%3A%2F%2Frepo.test%2Fos")
    = some (T "/t/cache/https%3A%2F%2Frepo.test%2Fos/x86_64/p-1.0-r0") := by decide

/-- a version `/../..` in an index entry (`Filename = name-version.apk` is appended to the repository URL and
the URL path is not cleaned by `url.Parse`) makes the cache *root* the package's directory — within the root -/
example : cacheDirForPackage (T "/t/cache") (T "/a-/../...apk") (T "https%3A%2F%2Frepo.test%2F")
    = some (T "/t/cache/https%3A%2F%2Frepo.test%2F/..") := by decide

/-! ## ties -/

theorem tie_dirfs_calls : Generated.dirfsCalls = expectedCalls := by rfl
theorem tie_dirfs_unlisted : Generated.dirfsUnlistedMethods = [] := by rfl

theorem tie_sanitizePath : Generated.stmtsSanitizePath = ["v = filepath.Join(base, p)",
  "if isWithin(base, filepath.Clean(v)) { return v, nil }",
  "return \"\", fmt.Errorf(\"%s: %s\", \"content filepath is tainted\", p)"] := by rfl
theorem tie_dirfsSanitizePath : Generated.stmtsDirfsSanitizePath = ["return sanitizePath(f.base, p)"] := by rfl
theorem tie_sanitizeArchivePath : Generated.stmtsSanitizeArchivePath = ["v = filepath.Join(d, t)",
  "if isWithin(d, v) { return v, nil }",
  "return \"\", fmt.Errorf(\"%s: %s\", \"content filepath is tainted\", t)"] := by rfl
theorem tie_isWithin : Generated.stmtsIsWithinFs = ["base = filepath.Clean(base)",
  "if p == base { return true }",
  "if !strings.HasSuffix(base, string(filepath.Separator)) { base += string(filepath.Separator) }",
  "return strings.HasPrefix(p, base)"] ∧ Generated.stmtsIsWithinApk = Generated.stmtsIsWithinFs := by
  constructor <;> rfl
theorem tie_cachePathFromURL : Generated.stmtsCachePathFromURL = ["u2 := u",
  "u2.ForceQuery = false", "u2.RawFragment = \"\"", "u2.RawQuery = \"\"",
  "filename := filepath.Base(u2.Path)", "archDir := filepath.Dir(u2.Path)", "dir := filepath.Base(archDir)",
  "repoDir := filepath.Dir(archDir)", "u2.Path = repoDir", "repoDir = url.QueryEscape(u2.String())",
  "cacheFile := filepath.Join(root, repoDir, dir, filename)", "cacheFile = filepath.Clean(cacheFile)",
  "cleanroot := filepath.Clean(root)",
  "if cacheFile == cleanroot || !strings.HasPrefix(cacheFile, cleanroot) { return \"\", fmt.Errorf(\"cache file %s is not within root %s\", cacheFile, cleanroot) }",
  "return cacheFile, nil"] := by rfl
theorem tie_cacheFileFromEtag : Generated.stmtsCacheFileFromEtag = ["cacheDir := filepath.Dir(cacheFile)",
  "ext := \".etag\"",
  "if strings.HasSuffix(cacheFile, \"APKINDEX.tar.gz\") { cacheDir = filepath.Join(cacheDir, \"APKINDEX\") ext = \".tar.gz\" }",
  "absPath, err := filepath.Abs(filepath.Join(cacheDir, etag+ext))",
  "if err != nil { return \"\", err }",
  "if !strings.HasPrefix(absPath, cacheDir) { return \"\", fmt.Errorf(\"un" ++ "safe etag value: %q\", etag) }",
  "return absPath, nil"] := by rfl
theorem tie_cacheDirFromFile : Generated.stmtsCacheDirFromFile = [
  "if strings.HasSuffix(cacheFile, \"APKINDEX.tar.gz\") { return filepath.Join(filepath.Dir(cacheFile), \"APKINDEX\") }",
  "return filepath.Dir(cacheFile)"] := by rfl
theorem tie_etagFromResponse : Generated.stmtsEtagFromResponse = [
  "remoteEtag, ok := resp.Header[http.CanonicalHeaderKey(\"etag\")]",
  "if !ok || len(remoteEtag) == 0 || remoteEtag[0] == \"\" { return \"\", false }",
  "etag := strings.Trim(remoteEtag[0], `\"`)",
  "etag = base32.StdEncoding.EncodeToString([]byte(etag))",
  "return etag, etag != \"\""] := by rfl
theorem tie_keyring : Generated.keyringWritePath = "filepath.Join(\"etc\", \"apk\", \"keys\", filepath.Base(element))"
    ∧ Generated.chainguardKeyFile = "filepath.Join(keysDirPath, key.ID)"
    ∧ Generated.chainguardKeyName = "key.KeyID + \".rsa.pub\""
    ∧ Generated.keysDirPath = "etc/apk/keys" := by
  refine ⟨by rfl, by rfl, by rfl, by rfl⟩
theorem tie_alpine_key : Generated.alpineKeyBase = "filepath.Base(u)"
    ∧ Generated.alpineKeyUnescape = "url.PathUnescape(basefilenameEscape)"
    ∧ Generated.alpineKeyFile = "filepath.Join(keysDirPath, basefilename)"
    ∧ Generated.alpineKeyOpenArg = "filename" := by
  refine ⟨by rfl, by rfl, by rfl, by rfl⟩
/-- the writing calls of the etag route of the caching transport, in the code's order (`cacheTransportWrites`) -/
theorem tie_cache_write_calls :
    Generated.cache_getCalls = ["cacheFileFromEtag", "os.Stat", "t.retrieveAndSaveFile", "etagFromResponse", "cacheFileFromEtag"]
    ∧ Generated.cache_retrieveCalls = ["os.MkdirAll", "os.CreateTemp", "Point:index.tmp", "tmp.Close", "io.Copy",
        "Point:index.body", "paths.AdvertiseCachedFile", "Point:index.adv"]
    ∧ Generated.cache_advertiseCalls = ["os.Stat", "os.Remove", "os.Symlink"]
    ∧ Generated.cache_indexTempPattern = "*.tmp" := by
  refine ⟨by rfl, by rfl, by rfl, by rfl⟩
theorem tie_indexKeyNameCheck : Generated.indexKeyNameCheck = "keyName : strings.Contains(keyName, \"/\")"
    ∧ Generated.indexKeyCheckBeforeUse = true := by
  constructor <;> rfl

end Apko.C18
