/-
C15 (streams and graphs) — the member loops of the .apk readers and the include chain of image
configurations terminate, with an explicit measure, and the "two or three sections" decisions never
index out of range.

* `Split` has no loop and returns two or three sections (`splitG_len`); `ParsePackageInfo` picks the
  control section with `split[0]` / `split[1]` in range (`controlOf_no_oob`).
* `ExpandApk`: one iteration (`expandStep`) either leaves the loop or consumes a whole gzip member —
  the bytes still unread strictly decrease (`expandStep_consumes`), so `bytes + 1` iterations are never
  exhausted (`expandRun_terminates`); independently the counters bound the loop by three iterations for
  the regenerated initial values (`expandRun_three`).  The `switch numGzipStreams` and the nine index
  expressions after it are in range for every number of sections (`expandFinish_no_oob`, over the
  regenerated switch).
* include chains: `parseIncludingG` with fuel `files + 2` never runs out, for every include graph —
  self-includes, longer cycles, diamonds, chains through missing files (`loadConfigG_terminates`).
  Measure: the include strings that name a readable file and are not yet on the chain.
-/
import Apko.Proofs.Lemmas.RobustAcc
import Apko.Model.RobustStream

namespace Apko.C15S
open Apko Apko.Formats Apko.Robust

/-! ## ties: sites, loops, counters -/

theorem tie_split : Generated.sites_Split = [] ∧ Generated.loops_Split = [] ∧
    Generated.prefixGuards_Split = [("hdr.Name", ".SIGN.", "then")] ∧
    Generated.sites_ParsePackageInfo = [("index", "split", "0"), ("index", "split", "1")] ∧
    Generated.lenGuards_ParsePackageInfo = [("split", "==", 3, "then")] ∧
    Generated.loops_ParsePackageInfo = [("forever", 4)] ∧
    Generated.sites_ParsePackage = [] ∧ Generated.loops_ParsePackage = [] := by decide

theorem tie_expand_sites : Generated.sites_ExpandApk =
    [("index", "gzipStreams", "controlDataIndex"), ("index", "hashes", "controlDataIndex"),
     ("index", "sizes", "controlDataIndex"), ("index", "gzipStreams", "packageIndex"),
     ("index", "hashes", "packageIndex"), ("index", "sizes", "packageIndex"),
     ("index", "gzipStreams", "signatureIndex"), ("index", "hashes", "signatureIndex"),
     ("index", "sizes", "signatureIndex")] ∧
    Generated.loops_ExpandApk = [("forever", 10), ("range gzipStreams", 1)] := by decide

theorem tie_expand_counters :
    Generated.expandInitStreamId = -1 ∧ Generated.expandInitMaxStreams = 2 ∧
    Generated.expandNextStmts =
      ["if w.streamId == 0 { … if strings.HasPrefix(hdr.Name, \".SIGN.\") { w.maxStreams = 3 } }",
       "w.streamId++",
       "p := fmt.Sprintf(\"%s-%d.%s\", filepath.Join(w.parentDir, w.baseName), w.streamId, w.ext)",
       "if w.streamId+1 >= w.maxStreams { return errExpandApkWriterMaxStreams }"] ∧
    Generated.prefixGuards_expandNext = [("hdr.Name", ".SIGN.", "then")] ∧
    Generated.sites_expandNext = [] ∧ Generated.loops_expandNext = [] := by decide

theorem tie_expand_switch :
    Generated.expandSwitch =
      [("<expr>3", "signatureIndex = 0; controlDataIndex = 1; packageIndex = 2"),
       ("<expr>2", "signatureIndex = -1; controlDataIndex = 0; packageIndex = 1"),
       ("<default>", "return nil, <error>")] ∧
    Generated.expandCases = [(3, 0, 1, 2), (2, -1, 0, 1)] := by decide

/-- the one-byte reader: `b[0] = buf[0]` is reached by `bufio` (inside gzip / flate) only, which never
passes an empty buffer; no input byte influences it -/
theorem tie_expand_reader : Generated.sites_expandRead = [("write", "b", "0"), ("index", "buf", "0")] ∧
    Generated.loops_expandRead = [] := by decide

theorem tie_entry_loops :
    Generated.loops_IndexFromArchive = [("forever", 6)] ∧ Generated.sites_IndexFromArchive = [] ∧
    Generated.prefixGuards_IndexFromArchive = [("hdr.Name", ".SIGN.", "then")] ∧
    Generated.loops_checkSums = [("forever", 5)] ∧
    -- the helper's only bracket expression reads the PAX record map with a constant key
    Generated.sites_checkSums = [("index", "checksumFromHeader: pax", "paxRecordsChecksumKey")] := by decide

theorem tie_lock_baseimg :
    Generated.sites_installableForArch = [] ∧
    Generated.loops_installableForArch = [("range l.Contents.Packages", 1)] ∧
    Generated.sites_lockFromFile = [] ∧ Generated.loops_lockFromFile = [] ∧
    Generated.sites_baseimgNew = [] ∧
    Generated.loops_baseimgNew = [("getImageForArch: range indexManifest.Manifests", 4),
      ("getUnnestedImageIndex: range indexManifest.Manifests", 1)] := by decide

theorem tie_include :
    Generated.sites_parseIncluding = [] ∧
    Generated.loops_parseIncluding =
      [("range ic.Contents.RuntimeRepositories", 0), ("range ic.Contents.BuildRepositories", 0)] ∧
    Generated.sites_readLocal = [] ∧ Generated.loops_readLocal = [] ∧
    Generated.sites_ResolvePath = [] ∧ Generated.loops_ResolvePath = [("range includePaths", 1)] := by decide

/-! ## Split / ParsePackageInfo -/

/-- T: `Split` returns exactly two or three sections -/
theorem splitG_len (pgs : PrefixList) (ms : List Member) (parts : List Stream)
    (h : splitG pgs ms = .ok parts) : parts.length = 2 ∨ parts.length = 3 := by
  unfold splitG at h
  split at h
  · simp at h
  · split at h
    · simp at h
    · split at h
      · simp at h
      · split at h
        · split at h
          · simp at h
          · split at h
            · simp at h
            · split at h
              · simp at h
              · split at h
                · simp at h
                · simp at h; subst h; simp
        · split at h
          · simp at h
          · simp at h; subst h; simp

theorem splitGuard : findLen Generated.lenGuards_ParsePackageInfo "split" = some ⟨.eq, 3, "then"⟩ := by decide

/-- `split[0]` needs one section; `split[1]` is taken only of three -/
theorem controlOf_of_nonempty (parts : List Stream) (h : 1 ≤ parts.length) :
    controlOf Generated.lenGuards_ParsePackageInfo parts ≠ .oob := by
  unfold controlOf
  rw [splitGuard]
  refine idx_bind_ne_oob (by omega) fun _ => ?_
  split
  · next he =>
    have : parts.length = 3 := by simpa [enters, Op.holds] using he
    exact idx_ne_oob (by omega)
  · simp

/-- T: `ParsePackageInfo` never indexes out of range on what `Split` returns -/
theorem controlOf_no_oob (pgs : PrefixList) (ms : List Member) (parts : List Stream)
    (h : splitG pgs ms = .ok parts) : controlOf Generated.lenGuards_ParsePackageInfo parts ≠ .oob := by
  have := splitG_len pgs ms parts h
  exact controlOf_of_nonempty parts (by omega)

/-- with the test loosened to "at least one section" the second index panics on a one-section list -/
theorem controlOf_loosened_oob (s : Stream) : controlOf [("split", ">=", 1, "then")] [s] = .oob := by
  simp [controlOf, idx, findLen, Op.ofGo, enters, Op.holds, Res.bind]

/-! ## ExpandApk: the loop -/

theorem bytes_pos_cons (m : Member) (ms : List Member) (h : 1 ≤ m.size) : bytes ms < bytes (m :: ms) := by
  simp [bytes]; omega

/-- T: an iteration that does not leave the loop has consumed a whole member: the unread bytes strictly
decrease (every member has at least one byte) -/
theorem expandStep_consumes (pgs : PrefixList) (st st' : ExpSt) (ms rest : List Member)
    (hs : ∀ m ∈ ms, 1 ≤ m.size) (h : expandStep pgs st ms = .more st' rest) : bytes rest < bytes ms := by
  unfold expandStep at h
  split at h
  · simp at h
  · split at h
    · simp at h
    · next m tl =>
      split at h
      · simp at h
      · split at h
        · split at h
          · simp at h
          · simp only [Step.more.injEq] at h
            rw [← h.2]
            exact bytes_pos_cons m tl (hs m (by simp))
        · split at h
          · simp at h
          · split at h <;> simp at h

/-- T: the fuel `bytes + 1` is never exhausted — the loop terminates on every stream, from every state -/
theorem expandRun_of_bytes (pgs : PrefixList) (fuel : Nat) (st : ExpSt) (ms : List Member)
    (hs : ∀ m ∈ ms, 1 ≤ m.size) (hf : bytes ms < fuel) : expandRun pgs fuel st ms ≠ none := by
  induction fuel generalizing st ms with
  | zero => omega
  | succ n ih =>
    simp only [expandRun]
    split
    · simp
    · next st' rest hstep =>
      have hlt := expandStep_consumes pgs st st' ms rest hs hstep
      have hsub : ∀ m ∈ rest, 1 ≤ m.size := by
        intro m hm
        unfold expandStep at hstep
        split at hstep
        · simp at hstep
        · split at hstep
          · simp at hstep
          · next m0 tl =>
            have hr : rest = tl := by
              split at hstep
              · simp at hstep
              · split at hstep
                · split at hstep
                  · simp at hstep
                  · simp only [Step.more.injEq] at hstep; exact hstep.2.symm
                · split at hstep
                  · simp at hstep
                  · split at hstep <;> simp at hstep
            exact hs m (by rw [hr] at hm; simp [hm])
      exact ih st' rest hsub (by omega)

theorem expandRun_terminates (pgs : PrefixList) (st : ExpSt) (ms : List Member)
    (hs : ∀ m ∈ ms, 1 ≤ m.size) : expandRun pgs (bytes ms + 1) st ms ≠ none :=
  expandRun_of_bytes pgs _ st ms hs (by omega)

/-- what an iteration that continues does to the counters -/
theorem expandStep_counters (pgs : PrefixList) (st st' : ExpSt) (ms rest : List Member)
    (h : expandStep pgs st ms = .more st' rest) :
    st'.streamId = st.streamId + 1 ∧ st'.streamId + 1 < st'.maxStreams ∧
      (st'.maxStreams = st.maxStreams ∨ st'.maxStreams = 3) := by
  unfold expandStep at h
  split at h
  · simp at h
  · next st1 last hn =>
    have hn' : st1.streamId = st.streamId + 1 ∧ (last = decide (st1.streamId + 1 ≥ st1.maxStreams)) ∧
        (st1.maxStreams = st.maxStreams ∨ st1.maxStreams = 3) := by
      unfold expNext at hn
      simp only at hn
      split at hn
      · simp at hn
      · next mx hp =>
        simp only [Option.some.injEq, Prod.mk.injEq] at hn
        obtain ⟨h1, h2⟩ := hn
        subst h1
        refine ⟨rfl, h2.symm, ?_⟩
        simp only
        split at hp
        · split at hp
          · simp at hp
          · split at hp
            · simp at hp
            · simp only [Option.some.injEq] at hp
              split at hp
              · right; exact hp.symm
              · left; exact hp.symm
        · simp only [Option.some.injEq] at hp; left; exact hp.symm
    split at h
    · simp at h
    · split at h
      · simp at h
      · split at h
        · next hl =>
          split at h
          · simp at h
          · simp only [Step.more.injEq] at h
            obtain ⟨h1, _⟩ := h
            subst h1
            simp only
            refine ⟨hn'.1, ?_, hn'.2.2⟩
            have := hn'.2.1
            simp only [this, decide_eq_false_iff_not, ge_iff_le, Int.not_le,
              Bool.not_eq_eq_eq_not, Bool.not_true] at hl
            omega
        · split at h
          · simp at h
          · split at h <;> simp at h

/-- T: by the counters alone the loop runs at most `2 - streamId` more iterations (three from the
start): `streamId` goes up by one per iteration and an iteration continues only while
`streamId + 1 < maxStreams ≤ 3` -/
theorem expandRun_of_counters (pgs : PrefixList) (fuel : Nat) (st : ExpSt) (ms : List Member)
    (hm : st.maxStreams ≤ 3) (h1 : 1 ≤ fuel) (hf : (2 - st.streamId).toNat ≤ fuel) :
    expandRun pgs fuel st ms ≠ none := by
  induction fuel generalizing st ms with
  | zero => omega
  | succ n ih =>
    simp only [expandRun]
    split
    · simp
    · next st' rest hstep =>
      obtain ⟨c1, c2, c3⟩ := expandStep_counters pgs st st' ms rest hstep
      have hm' : st'.maxStreams ≤ 3 := by rcases c3 with h | h <;> omega
      exact ih st' rest hm' (by omega) (by omega)

/-- three iterations always suffice from the initial counters the source states -/
theorem expandRun_three (pgs : PrefixList) (ms : List Member) : expandRun pgs 3 expInit ms ≠ none :=
  expandRun_of_counters pgs 3 expInit ms (by decide) (by decide) (by decide)

/-! ## ExpandApk: the switch and the index expressions after the loop -/

/-- a case of the switch is safe: every index it assigns is below the number of sections it is for -/
def CaseSafe (c : Nat × Int × Int × Int) : Prop :=
  c.2.1 < c.1 ∧ 0 ≤ c.2.2.1 ∧ c.2.2.1 < c.1 ∧ 0 ≤ c.2.2.2 ∧ c.2.2.2 < c.1

instance (c : Nat × Int × Int × Int) : Decidable (CaseSafe c) := by unfold CaseSafe; infer_instance

theorem idxInt_ne_oob {α : Type} (l : List α) (i : Int) (h0 : 0 ≤ i) (h1 : i < l.length) :
    idxInt l i ≠ .oob := by
  unfold idxInt
  split
  · omega
  · exact idx_ne_oob (by omega)

theorem expandFinish_of_cases (cases : List (Nat × Int × Int × Int)) (h : ∀ c ∈ cases, CaseSafe c)
    (d : DataFlag) (res : List Stream × Bool) : expandFinish cases d res ≠ .oob := by
  unfold expandFinish
  simp only
  split
  · simp
  · next n sig ctl pkg hf =>
    have hmem := List.mem_of_find?_eq_some hf
    have hn : n = res.1.length := by simpa using List.find?_some hf
    obtain ⟨s1, c0, c1, p0, p1⟩ := h _ hmem
    simp only at s1 c0 c1 p0 p1
    split
    · simp
    · refine bind_ne_oob (idxInt_ne_oob _ _ c0 (by omega)) fun _ =>
        bind_ne_oob (idxInt_ne_oob _ _ p0 (by omega)) fun _ => bind_ne_oob ?_ fun _ => ?_
      · split
        · next hs => exact bind_ne_oob (idxInt_ne_oob _ _ hs (by omega)) fun _ => by simp
        · simp
      · split
        · simp
        · split <;> simp

/-- T: for the regenerated switch, no number of sections makes the index expressions after the loop go
out of range — whatever the `dataRead` flag says -/
theorem expandFinish_no_oob (d : DataFlag) (res : List Stream × Bool) :
    expandFinish Generated.expandCases d res ≠ .oob :=
  expandFinish_of_cases _ (by decide) d res

/-- a case that assigned `packageIndex = 2` for two sections would panic -/
theorem expandFinish_bad_case_oob (s : Stream) :
    expandFinish [(2, -1, 0, 2)] ⟨false, false, false⟩ ([s, s], true) = .oob := by
  simp [expandFinish, idxInt, idx, Res.bind]

/-! ### the `dataRead` flag (F05f, repaired): the run ends in an error unless the data section was read -/

theorem tie_expand_dataRead : Generated.expandDataRead =
    [("init", "dataRead := false"), ("data-branch", "dataRead = true"),
     ("after-switch", "if !dataRead { return nil, <error> }")] := by decide

theorem expandDataFlag_eq : expandDataFlag = ⟨true, false, true⟩ := by decide

/-- T: with the flag handled as the source does now, a run whose loop was NOT left through the data branch
(the source ended first) is refused, for every list of sections -/
theorem expandFinish_refuses_without_data (cases : List (Nat × Int × Int × Int)) (streams : List Stream) :
    expandFinish cases expandDataFlag (streams, false) = .err := by
  rw [expandDataFlag_eq]
  unfold expandFinish
  simp only
  split
  · rfl
  · simp [DataFlag.value]

/-- the loop leaves through the data branch exactly when its last section is the rest of the stream -/
theorem expandStep_done_flag (pgs : PrefixList) (st : ExpSt) (ms : List Member) (streams : List Stream)
    (h : expandStep pgs st ms = .done (.ok (streams, true))) : ∃ init rest, streams = init ++ [.tail rest] := by
  unfold expandStep at h
  split at h
  · simp at h
  · split at h
    · simp at h
    · split at h
      · simp at h
      · split at h
        · split at h <;> simp at h
        · split at h
          · simp at h
          · split at h
            · simp at h
            · simp only [Step.done.injEq, Res.ok.injEq, Prod.mk.injEq, and_true] at h
              exact ⟨_, _, h.symm⟩

/-- the pinned shape (no test after the switch) took "signature + control, then the end of the source" for
an unsigned package; the repaired shape refuses it -/
def sigMember : Member := ⟨100, true, true, some ".SIGN.RSA.k.rsa.pub".toList, true, true, true, true⟩
def ctlMember : Member := ⟨200, true, true, some ".PKGINFO".toList, true, true, true, true⟩

theorem pinned_accepts_signature_control :
    expandApkG [("hdr.Name", ".SIGN.", "then")] [(3, 0, 1, 2), (2, -1, 0, 1)] ⟨false, false, false⟩
      [sigMember, ctlMember] = some (.ok (false, 2)) := by decide

theorem repaired_refuses_signature_control :
    expandApkG [("hdr.Name", ".SIGN.", "then")] [(3, 0, 1, 2), (2, -1, 0, 1)] ⟨true, false, true⟩
      [sigMember, ctlMember] = some .err := by decide

/-- T: `ExpandApk` on every stream of members: the loop ends and nothing indexes out of range -/
theorem expandApkG_total (ms : List Member) (hs : ∀ m ∈ ms, 1 ≤ m.size) :
    ∃ r, expandApkG Generated.prefixGuards_expandNext Generated.expandCases expandDataFlag ms = some r ∧
      r ≠ .oob := by
  unfold expandApkG
  have ht := expandRun_terminates Generated.prefixGuards_expandNext expInit ms hs
  cases hr : expandRun Generated.prefixGuards_expandNext (bytes ms + 1) expInit ms with
  | none => exact absurd hr ht
  | some r =>
    refine ⟨_, rfl, ?_⟩
    cases r with
    | ok res => exact expandFinish_no_oob _ res
    | err => simp [Res.bind]
    | oob =>
      -- the loop itself has no accessor: it cannot produce `oob`
      exfalso
      have : ∀ fuel st ms, expandRun Generated.prefixGuards_expandNext fuel st ms ≠ some .oob := by
        intro fuel
        induction fuel with
        | zero => intro st ms; simp [expandRun]
        | succ n ih =>
          intro st ms
          simp only [expandRun]
          split
          · next r hstep =>
            intro hc
            simp only [Option.some.injEq] at hc
            subst hc
            unfold expandStep at hstep
            split at hstep
            · simp at hstep
            · split at hstep
              · simp at hstep
              · split at hstep
                · simp at hstep
                · split at hstep
                  · split at hstep <;> simp at hstep
                  · split at hstep
                    · simp at hstep
                    · split at hstep <;> simp at hstep
          · exact ih _ _
      exact this _ _ _ hr

example : ∃ m : Member, 1 ≤ m.size ∧ m.headerOk = true :=
  ⟨⟨10, true, true, some ".SIGN.RSA.k".toList, true, true, true, true⟩, by decide, rfl⟩

/-! ## include chains -/

def keys (fs : ConfFS) : List Text := fs.map (·.1)

theorem lookup_mem_keys (fs : ConfFS) (k : Text) (f : ConfFile) (h : fs.lookup k = some f) : k ∈ keys fs := by
  induction fs with
  | nil => simp [List.lookup] at h
  | cons p rest ih =>
    obtain ⟨k', f'⟩ := p
    simp only [List.lookup] at h
    split at h
    · next he => simp [keys, beq_iff_eq.mp he]
    · have := ih h
      simp only [keys, List.map_cons, List.mem_cons]
      right; exact this

/-- the chain carries no include string twice and only strings that name a readable file: it is never
longer than the number of files.  With fuel + chain length ≥ files + 2 the fuel is not exhausted. -/
theorem parseIncludingG_of_measure (fs : ConfFS) (fuel : Nat) (f : ConfFile) (including : List Text)
    (hn : including.Nodup) (hsub : ∀ s ∈ including, s ∈ keys fs)
    (hf : fs.length + 2 ≤ fuel + including.length) : parseIncludingG true fs fuel f including ≠ none := by
  induction fuel generalizing f including with
  | zero =>
    have hle : including.length ≤ (keys fs).length := hn.length_le_of_subset (fun s hs => hsub s hs)
    simp [keys] at hle
    omega
  | succ n ih =>
    simp only [parseIncludingG]
    split
    · simp
    · split
      · simp
      · split
        · simp
        · next hnc =>
          split
          · simp
          · next g hg =>
            have hnot : f.incl ∉ including := by simpa using hnc
            have hn' : (including ++ [f.incl]).Nodup := by
              rw [List.nodup_append]
              refine ⟨hn, by simp, ?_⟩
              intro a ha b hb
              simp only [List.mem_singleton] at hb
              subst hb
              intro hab; subst hab; exact hnot ha
            have hsub' : ∀ s ∈ including ++ [f.incl], s ∈ keys fs := by
              intro s hs
              rcases List.mem_append.mp hs with h | h
              · exact hsub s h
              · simp only [List.mem_singleton] at h; subst h; exact lookup_mem_keys fs _ g hg
            have := ih g (including ++ [f.incl]) hn' hsub' (by simp; omega)
            split
            · next hc => exact absurd hc this
            · simp
            · simp

/-- T: loading an image configuration terminates for EVERY include graph (self-includes, cycles of any
length, diamonds, chains into missing files): the recursion is at most `files + 1` deep -/
theorem tie_includeBlock : Generated.includeBlock =
    ["if slices.Contains(including, ic.Include) { return }",
     "included := &ImageConfiguration{}",
     "data, err := included.readLocal(ic.Include, includePaths)",
     "if err != nil { return }",
     "if err := included.parseIncluding(ctx, data, includePaths, configHasher, append(including, ic.Include)); err != nil { return }",
     "if err := included.MergeInto(ic); err != nil { return }"] := by rfl

theorem includeChecked_true : includeChecked = true := by
  simp [includeChecked, tie_includeBlock]

theorem loadConfigG_terminates (fs : ConfFS) (path : Text) : loadConfigG includeChecked fs path ≠ none := by
  rw [includeChecked_true]
  unfold loadConfigG
  split
  · simp
  · exact parseIncludingG_of_measure fs _ _ [] List.nodup_nil (by simp) (by simp)

/-- without the cycle check a self-include exhausts every fuel: the Go recursion would not return -/
theorem selfInclude_unchecked_diverges (fuel : Nat) (chain : List Text) :
    parseIncludingG false [(['a'], ⟨true, ['a']⟩)] fuel ⟨true, ['a']⟩ chain = none := by
  induction fuel generalizing chain with
  | zero => rfl
  | succ n ih => simp [parseIncludingG, List.lookup, ih]

/-- …and with the check the same graph is refused at depth two -/
example : loadConfigG true [("a".toList, ⟨true, "a".toList⟩)] "a".toList = some false := by decide

/-- a diamond-free chain of three files loads -/
example : loadConfigG true [("a".toList, ⟨true, "b".toList⟩), ("b".toList, ⟨true, "c".toList⟩),
    ("c".toList, ⟨true, []⟩)] "a".toList = some true := by decide

end Apko.C15S
