/-
C08 — Resolution is a pure function of its inputs.

Model: `Apko/Model/Memo.lean` — the process-wide caches as memo tables of pure functions, a
resolution as a program interleaving local computation with atomic cache steps.

Proved for ALL pure functions `f`, store policies, programs, earlier histories and schedules:
* `inv_empty`, `inv_get`       the table invariant holds initially and is preserved by every step;
* `get_transparent`            a cache step returns `f k`, hit or miss;
* `run_transparent`            a whole resolution returns what it returns with no cache at all;
* `history_independent`        … whatever resolutions ran before it (any list of earlier programs);
* `schedule_independent`       … and under every interleaving of N concurrent resolutions each one
                                 finishes (if it finishes) with its cache-free result.
Aliasing of the values the caches hand out (`Clone()` / `maps.Clone`) is a proof obligation of its own:
`Model/Alias.lean` (heap model), `Proofs/Lemmas/Alias.lean` (frame / non-interference for every number
of clones and every interleaving), `Proofs/Lemmas/AliasTable.lean` (the hypothesis discharged over the
go/types inventory of every write site, regenerated on each run), `Proofs/Lemmas/AliasKey.lean` (what
the cache key must determine).  What the models cannot exhibit (partial): data-race freedom of the
cache internals and writes the syntactic inventory cannot see — exercised by the `purity` suite under
the race detector; map-order dependence inside one resolution — covered by the fixes F01a/F08b and by
the resolver suite re-running every case on fresh objects.

Map order inside one resolution (the `order` parameter of `Resolver.nameMap`) is proved irrelevant for
the provider choice in `Proofs/C01.lean`: `C01.comparePackages_swo` (the repaired comparator is a
strict weak order on all packages), `C01.comparePackages_eq_same_name`, `C01.minFunc_perm_invariant`,
`C01.nameMap_order_irrelevant`, `C01.bestPackage_order_irrelevant`,
`C01.resolvePackage_order_irrelevant`, and for whole resolutions `C01.resolve_order_irrelevant`;
`C01.comparePackages_pinned_not_antisymm` / `C01.resolve_order_dependent_pinned` are the F08b witnesses
for the pinned comparator.
-/
import Apko.Model.Memo

namespace Apko.C08
open Apko.Memo

variable {K V R : Type} [DecidableEq K]

theorem inv_empty (f : K → V) : Inv f (Table.empty : Table K V) := by
  intro k v h; simp [Table.empty] at h

theorem find_of_inv {f : K → V} {t : Table K V} (hi : Inv f t) {k : K} {v : V}
    (h : t.find k = some v) : v = f k := by
  unfold Table.find at h
  simp only [Option.map_eq_some_iff] at h
  obtain ⟨e, he, rfl⟩ := h
  have hm := List.mem_of_find?_eq_some he
  have hk := List.find?_some he
  simp only [decide_eq_true_eq] at hk
  have := hi e.1 e.2 hm
  rw [hk] at this; exact this

/-- T `get_transparent` + `inv_get`: the atomic cache step is transparent and keeps the invariant -/
theorem get_spec (f : K → V) (store : K → Bool) (t : Table K V) (k : K) (hi : Inv f t) :
    (t.get f store k).2 = f k ∧ Inv f (t.get f store k).1 := by
  unfold Table.get
  split
  · next v hv => exact ⟨find_of_inv hi hv, hi⟩
  · refine ⟨rfl, ?_⟩
    split
    · intro k' v' hm
      simp only [List.mem_append, List.mem_singleton, Prod.mk.injEq] at hm
      rcases hm with hm | ⟨rfl, rfl⟩
      · exact hi k' v' hm
      · rfl
    · exact hi

theorem get_transparent (f : K → V) (store : K → Bool) (t : Table K V) (k : K) (hi : Inv f t) :
    (t.get f store k).2 = f k := (get_spec f store t k hi).1

theorem inv_get (f : K → V) (store : K → Bool) (t : Table K V) (k : K) (hi : Inv f t) :
    Inv f (t.get f store k).1 := (get_spec f store t k hi).2

/-- T `run_transparent`: with any table satisfying the invariant, a resolution returns exactly its
cache-free result, and leaves a table satisfying the invariant. -/
theorem run_transparent (f : K → V) (store : K → Bool) (p : Prog K V R) (t : Table K V)
    (hi : Inv f t) : (p.run f store t).2 = p.eval f ∧ Inv f (p.run f store t).1 := by
  induction p generalizing t with
  | ret r => exact ⟨rfl, hi⟩
  | ask k cont ih =>
    simp only [Prog.run, Prog.eval]
    have hg := get_spec f store t k hi
    rw [hg.1]
    exact ih (f k) _ hg.2

/-- running a list of earlier resolutions one after the other -/
def runAll (f : K → V) (store : K → Bool) : List (Prog K V R) → Table K V → Table K V
  | [], t => t
  | p :: ps, t => runAll f store ps (p.run f store t).1

theorem inv_runAll (f : K → V) (store : K → Bool) (h : List (Prog K V R)) (t : Table K V)
    (hi : Inv f t) : Inv f (runAll f store h t) := by
  induction h generalizing t with
  | nil => exact hi
  | cons p ps ih => exact ih _ (run_transparent f store p t hi).2

/-- T `history_independent`: for every history `h` of earlier resolutions (any inputs), a
resolution returns what it returns in a fresh process. -/
theorem history_independent (f : K → V) (store : K → Bool) (h : List (Prog K V R))
    (p : Prog K V R) :
    (p.run f store (runAll f store h Table.empty)).2 = (p.run f store Table.empty).2 := by
  rw [(run_transparent f store p _ (inv_runAll f store h _ (inv_empty f))).1,
      (run_transparent f store p _ (inv_empty f)).1]

/-- a program `q` reachable from `p` by answering every `ask` truthfully has the same result -/
def Follows (f : K → V) (p q : Prog K V R) : Prop := q.eval f = p.eval f

theorem step_follows (f : K → V) (store : K → Bool) (t : Table K V) (p : Prog K V R)
    (hi : Inv f t) : ((p.step f store t).2).eval f = p.eval f ∧ Inv f (p.step f store t).1 := by
  cases p with
  | ret r => exact ⟨rfl, hi⟩
  | ask k cont =>
    simp only [Prog.step, Prog.eval]
    have hg := get_spec f store t k hi
    rw [hg.1]; exact ⟨rfl, hg.2⟩

theorem sched_invariant (f : K → V) (store : K → Bool) (sched : List Nat) (t : Table K V)
    (ps : List (Prog K V R)) (hi : Inv f t) :
    Inv f (runSched f store sched t ps).1 ∧
    (runSched f store sched t ps).2.map (Prog.eval f) = ps.map (Prog.eval f) := by
  induction sched generalizing t ps with
  | nil => exact ⟨hi, rfl⟩
  | cons i rest ih =>
    simp only [runSched]
    split
    · exact ih t ps hi
    · next p hp =>
      have hs := step_follows f store t p hi
      have := ih (p.step f store t).1 (ps.set i (p.step f store t).2) hs.2
      refine ⟨this.1, ?_⟩
      rw [this.2, List.map_set, hs.1]
      have hlt : i < ps.length := by
        rcases Nat.lt_or_ge i ps.length with h | h
        · exact h
        · rw [List.getElem?_eq_none h] at hp; cases hp
      have hpe : p = ps[i] := by rw [List.getElem?_eq_getElem hlt] at hp; exact (Option.some.inj hp).symm
      rw [hpe, ← List.getElem_map (Prog.eval f) (h := by simpa using hlt)]
      exact List.set_getElem_self _

/-- T `schedule_independent`: under every interleaving of N concurrent resolutions sharing the
caches — starting from any earlier history — whenever resolution `i` has finished, its result is
the one it produces alone in a fresh process. -/
theorem schedule_independent (f : K → V) (store : K → Bool) (sched : List Nat)
    (hist : List (Prog K V R)) (ps : List (Prog K V R)) (i : Nat) (p q : Prog K V R) (r : R)
    (hp : ps[i]? = some p)
    (hq : (runSched f store sched (runAll f store hist Table.empty) ps).2[i]? = some q)
    (hdone : q.done = some r) :
    r = (p.run f store Table.empty).2 := by
  have hinv := sched_invariant f store sched _ ps (inv_runAll f store hist _ (inv_empty f))
  have hmap := hinv.2
  have h1 : ((runSched f store sched (runAll f store hist Table.empty) ps).2.map (Prog.eval f))[i]? =
      some (q.eval f) := by simp [List.getElem?_map, hq]
  have h2 : (ps.map (Prog.eval f))[i]? = some (p.eval f) := by simp [List.getElem?_map, hp]
  rw [hmap, h2] at h1
  have he : p.eval f = q.eval f := Option.some.inj h1
  rw [(run_transparent f store p _ (inv_empty f)).1, he]
  cases q with
  | ret r' => simp only [Prog.done, Option.some.injEq] at hdone; simp [Prog.eval, hdone]
  | ask k c => simp [Prog.done] at hdone

/-- non-vacuity: a two-question program against a table that already holds an entry -/
example : ((Prog.ask 1 fun a => Prog.ask 2 fun b => Prog.ret (a + b) : Prog Nat Nat Nat).run
    (· * 10) (fun _ => true) ⟨[(1, 10)]⟩).2 = 30 := by decide

end Apko.C08
