/-
C16 — apko's own text formats round-trip.

Model: `Apko/Model/Formats.lean` (the same definitions the driver executes).  The writers and the
package-field part of the readers are interpreters of tables regenerated from /repo on every run
(`Apko/Generated/Formats.lean`): the APKINDEX template, the `fmt.Sprintf` lines of
`PackageToInstalled`, the `switch token` of `ParsePackageIndex` and `ParseInstalled`.  The theorems
below are therefore re-checked against what the code says now.

Abstract: base64 is a `Codec` with the law `dec (enc b) = some b` and a line-safe encoding
(`Codec.Lawful`); all theorems hold for every lawful codec.

Proved for all inputs: `field_inverse_index`, `field_inverse_idb_partial`, `field_inverse_idb_table`,
`field_inverse_idb_files` (decidable table facts over the regenerated tables), `index_read_write`,
`index_write_read` (any list of well-formed packages), the generic `parseIndex_render` /
`parseInstalled_render` for *any* table pair satisfying `tableOK` / `idbTableOK` + `fileCasesOK`;
`idb_read_write` (whole installed db: package fields and file records), `idb_files_read_write`,
`sortTarHeaders_parent_adjacent`; `passwd_roundtrip`, `group_roundtrip` (struct → bytes → struct; the
member list may be empty since the repair of F16e) and `passwd_roundtrip_bytes`, `group_roundtrip_bytes`
(canonical bytes → struct → bytes).  The full statements that the unchanged code violates are kept as
`def … : Prop` with a proved negation (`idb_read_write_full`,
`idb_write_read`); the statements the PINNED tree violated before a repair are kept for the pinned
expressions (`pinned_group_roundtrip` / `group_roundtrip_fails`, `pinned_passwd_roundtrip` /
`passwd_roundtrip_unpadded_fails`, `pinned_group_roundtrip_padded` / `group_roundtrip_padded_fails`).
-/
import Apko.Proofs.Lemmas.FormatsIndex
import Apko.Proofs.Lemmas.FormatsPasswd
import Apko.Proofs.Lemmas.FormatsIdbTable
import Apko.Proofs.Lemmas.FormatsIdbTotal
import Apko.Proofs.Lemmas.FormatsSortComplete
import Apko.Proofs.Lemmas.FormatsSortBlowup
import Apko.Proofs.Lemmas.FormatsSortNodup
import Apko.Proofs.Lemmas.FormatsNoPanic
import Apko.Proofs.Lemmas.FormatsSortIdem
import Apko.Proofs.Lemmas.FormatsIdbReread

namespace Apko.C16
open Apko Apko.Formats

/-! ## ties: the regenerated tables are understood and are what the model was written against -/

theorem tie_indexRows : indexRows =
    [⟨'C', .checksum, .plain, .always⟩, ⟨'P', .name, .plain, .always⟩, ⟨'V', .version, .plain, .always⟩,
     ⟨'A', .arch, .plain, .truthy .arch⟩, ⟨'S', .size, .plain, .truthy .size⟩,
     ⟨'I', .installedSize, .plain, .truthy .installedSize⟩, ⟨'T', .description, .plain, .always⟩,
     ⟨'U', .url, .plain, .truthy .url⟩, ⟨'L', .license, .plain, .truthy .license⟩,
     ⟨'o', .origin, .plain, .truthy .origin⟩, ⟨'m', .maintainer, .plain, .truthy .maintainer⟩,
     ⟨'t', .buildTime, .plain, .timeNonZero⟩, ⟨'c', .commit, .plain, .truthy .commit⟩,
     ⟨'D', .deps, .joinSp, .truthy .deps⟩, ⟨'i', .installIf, .joinSp, .truthy .installIf⟩,
     ⟨'p', .provides, .joinSp, .truthy .provides⟩, ⟨'k', .priority, .plain, .truthy .priority⟩] := by
  decide

theorem tie_indexTail : Generated.indexTail = "\n\n" := by decide

set_option maxRecDepth 1000000 in
theorem tie_idbRows_understood : (rowsOfGo Generated.idbPkgLines).isSome = true := by decide
set_option maxRecDepth 1000000 in
theorem tie_indexCases_understood : (casesOfGo Generated.indexSwitch).isSome = true := by decide
set_option maxRecDepth 1000000 in
theorem tie_idbCases_understood : (casesOfGo Generated.idbSwitch).isSome = true := by decide

set_option maxRecDepth 1000000 in
/-- the one-byte-line guard of ParseInstalled is present (F15a repaired) -/
theorem tie_idbGuarded : idbGuarded = true := by decide

set_option maxRecDepth 1000000 in
theorem tie_indexLoop : Generated.indexLoopPre =
    ["line := indexScanner.Text()",
     "if len(line) == 0 { if pkg.Name != \"\" { packages = append(packages, pkg) }; pkg = &Package{}; continue }",
     "if len(line) < 2 { return nil, <error> }",
     "if line[1:2] != \":\" { return nil, <error> }",
     "token := line[:1]", "val := line[2:]"] ∧
    Generated.indexAfter = ["return packages, indexScanner.Err()"] := by decide

set_option maxRecDepth 1000000 in
theorem tie_idbLoop : Generated.idbLoopPre =
    ["line := indexScanner.Text()",
     "if line == \"\" { if pkg.Name != \"\" { packages = append(packages, pkg) }; pkg = &InstalledPackage{}; lastDir = nil; lastFile = nil; continue }",
     "if len(line) < 2 || line[1:2] != \":\" { return nil, <error> }",
     "token := line[:1]", "val := line[2:]"] ∧
    Generated.idbAfter = ["return packages, nil"] := by decide

theorem tie_archiveLoop : Generated.stmts_archiveLoop =
    ["if len(pkg.Name) == 0 { continue }", "err = apkIndexTemplate.Execute(&apkindexContents, pkg)",
     "if err != nil { return }"] := by decide

theorem tie_splitRepeatedField : Generated.stmts_splitRepeatedField =
    ["if val == \"\" { return nil }", "return strings.Split(val, \" \")"] := by decide

theorem tie_ChecksumString : Generated.stmts_ChecksumString =
    ["return \"Q1\" + base64.StdEncoding.EncodeToString(p.Checksum)"] := by decide

theorem tie_passwd_order : Generated.userFormat = "%s:%s:%d:%d:%s:%s:%s\n" ∧
    Generated.userWriteArgs = ["ue.UserName", "ue.Password", "ue.UID", "ue.GID", "ue.Info", "ue.HomeDir", "ue.Shell"] ∧
    Generated.groupFormat = "%s:%s:%d:%s\n" ∧
    Generated.groupWriteArgs = ["ge.GroupName", "ge.Password", "ge.GID", "members"] := by decide

/-- the complete statement list of `GroupEntry.Parse` (after the repairs of F16e: an empty member field is
no member, and F16f: only line terminators are trimmed).  `parseGroup` / `splitMembers` were written against exactly these statements; the pinned
form `ge.Members = strings.Split(parts[3], ",")` is `pinnedParseGroup`. -/
theorem tie_groupParse : Generated.stmts_groupParse =
    ["line = strings.TrimRight(line, \"\\r\\n\")", "parts := strings.Split(line, \":\")",
     "if len(parts) != 4 { return fmt.Errorf(\"malformed line, contains %d parts, expecting 4\", len(parts)) }",
     "ge.GroupName = parts[0]", "ge.Password = parts[1]", "gid, err := strconv.Atoi(parts[2])",
     "if err != nil { return }", "ge.GID = uint32(gid)", "ge.Members = nil",
     "if parts[3] != \"\" { ge.Members = strings.Split(parts[3], \",\") }", "return nil"] := by rfl

/-- the complete statement list of `UserEntry.Parse` (after the repair of F16f: `strings.TrimRight(line,
"\r\n")` = `trimEOL`; the pinned `strings.TrimSpace(line)` is `pinnedParseUser`) -/
theorem tie_userParse : Generated.stmts_userParse =
    ["line = strings.TrimRight(line, \"\\r\\n\")", "parts := strings.Split(line, \":\")",
     "if len(parts) != 7 { return fmt.Errorf(\"malformed line, contains %d parts, expecting 7\", len(parts)) }",
     "ue.UserName = parts[0]", "ue.Password = parts[1]", "uid, err := strconv.Atoi(parts[2])",
     "if err != nil { return }", "ue.UID = uint32(uid)", "gid, err := strconv.Atoi(parts[3])",
     "if err != nil { return }", "ue.GID = uint32(gid)", "ue.Info = parts[4]", "ue.HomeDir = parts[5]",
     "ue.Shell = parts[6]", "return nil"] := by rfl

/-- the loaders and the writers: one scanner loop that stops at the first line that does not parse and
returns the scanner's error; one `Write` per entry; `strings.Join(ge.Members, ",")` -/
theorem tie_passwd_loops : Generated.stmts_userLoad =
    ["scanner := bufio.NewScanner(r)",
     "for scanner.Scan() { ue := UserEntry{} if err := ue.Parse(scanner.Text()); err != nil { return fmt.Errorf(\"unable to parse: %w\", err) } uf.Entries = append(uf.Entries, ue) }",
     "if err := scanner.Err(); err != nil { return fmt.Errorf(\"unable to parse: %w\", err) }", "return nil"] ∧
    Generated.stmts_groupLoad =
    ["scanner := bufio.NewScanner(r)",
     "for scanner.Scan() { ge := GroupEntry{} if err := ge.Parse(scanner.Text()); err != nil { return fmt.Errorf(\"unable to parse: %w\", err) } gf.Entries = append(gf.Entries, ge) }",
     "if err := scanner.Err(); err != nil { return fmt.Errorf(\"unable to parse: %w\", err) }", "return nil"] ∧
    Generated.stmts_groupWrite =
    ["members := strings.Join(ge.Members, \",\")",
     "_, err := fmt.Fprintf(w, \"%s:%s:%d:%s\\n\", ge.GroupName, ge.Password, ge.GID, members)", "return err"] := ⟨rfl, rfl, rfl⟩

/-- the complete file loop of `AddInstalledPackage`: the mask (after the repair of F16d), the `F:`/`M:`/`R:`/`a:`
lines with their defaults, the `Z:` line and its two checksum forms (`fileLines` was written against it) -/
theorem tie_fileLoop : Generated.stmts_fileLoop =
    ["perm := f.Mode & 07777",
      "user := f.Uid",
      "group := f.Gid",
      "if f.Typeflag == tar.TypeDir {",
      "dirName := strings.TrimSuffix(f.Name, fmt.Sprintf(\"%c\", filepath.Separator))",
      "pkgLines = append(pkgLines, fmt.Sprintf(\"F:%s\", dirName))",
      "if perm != 0o755 || user != 0 || group != 0 { pkgLines = append(pkgLines, fmt.Sprintf(\"M:%d:%d:%04o\", user, group, perm)) }",
      "} else {",
      "pkgLines = append(pkgLines, fmt.Sprintf(\"R:%s\", filepath.Base(f.Name)))",
      "if perm != 0o644 || user != 0 || group != 0 { pkgLines = append(pkgLines, fmt.Sprintf(\"a:%d:%d:%04o\", user, group, perm)) }",
      "if f.PAXRecords != nil { if checksum := f.PAXRecords[paxRecordsChecksumKey]; checksum != \"\" { if !strings.HasPrefix(checksum, \"Q1\") { hexsum, err := hex.DecodeString(checksum) if err != nil { return err } checksum = \"Q1\" + base64.StdEncoding.EncodeToString(hexsum) } pkgLines = append(pkgLines, fmt.Sprintf(\"Z:%s\", checksum)) } }",
      "}"] := by rfl

/-- F16d (repaired): with the pinned mask a setuid file and a sticky directory were listed without the bit -/
theorem mode_special_bits_lost :
    oct4 (pinnedPerm 0o4755).toNat = "0755".toList ∧ oct4 (pinnedPerm 0o1777).toNat = "0777".toList ∧
    permLine 'a' ⟨['s'], false, 0o4755, 0, 0, []⟩ = "a:0:0:4755".toList ∧
    permLine 'M' ⟨['t'], true, 0o1777, 0, 0, []⟩ = "M:0:0:1777".toList := by decide

/-! ## `field_inverse`: decidable facts over the regenerated tables -/

set_option maxRecDepth 1000000 in
/-- APKINDEX: every template line has a letter tag; `ParsePackageIndex`'s case for that tag assigns
the same field with a decoder that inverts the line's formatter; a conditional line is omitted only
when the field has its zero value; no field is written twice; the name is written. -/
theorem field_inverse_index : tableOK indexRows indexCases = true := by decide

set_option maxRecDepth 1000000 in
/-- installed db: the same for every line of `PackageToInstalled` except `i:` (F16a-idb) -/
theorem field_inverse_idb_partial :
    tableOK (idbRows.filter fun r => r.field != .installIf) idbCases = true := by decide

set_option maxRecDepth 1000000 in
/-- the full statement fails exactly at the `i:` line: written with Go's default list formatting -/
theorem field_inverse_idb_fails : tableOK idbRows idbCases = false ∧
    (idbRows.filter fun r => !rowOK idbCases r).map (·.tag) = ['i'] := by decide

/-! ## APKINDEX -/

theorem copyFields_index (p : Pkg) : copyFields p {} indexRows = indexProj p := by
  apply pkg_ext; intro f
  have hd : (fieldsOf indexRows).Pairwise (· ≠ ·) := by rw [tie_indexRows]; decide
  by_cases hf : f = .replaces
  · subst hf
    rw [get_copyFields_not_mem p _ indexRows {} (by rw [tie_indexRows]; decide)]; rfl
  · rw [get_copyFields_mem p f indexRows {} hd
      (by rw [tie_indexRows]; cases f <;> first | exact absurd rfl hf | decide)]
    cases f <;> first | exact absurd rfl hf | rfl

/-- `index_read_write`: whatever `ArchiveFromIndex` writes for well-formed packages,
`ParsePackageIndex` recovers unchanged (every field the format carries). -/
theorem index_read_write (c : Codec) (hc : c.Lawful) (ps : List Pkg)
    (hwf : ∀ p ∈ ps, WFPkg c indexRows indexTokenMax p = true) :
    parseIndex c indexCases (renderIndex c indexRows ps) = .ok (ps.map indexProj) := by
  have h : ∀ p ∈ ps, p.name ≠ [] ∧ fieldsSafe p = true ∧ linesFit indexTokenMax (recLines c indexRows p) = true := by
    intro p hp
    have := hwf p hp
    unfold WFPkg at this
    simp only [Bool.and_eq_true, Bool.not_eq_true'] at this
    refine ⟨?_, this.1.2, this.2⟩
    intro e; simp [e] at this
  rw [parseIndex_render c hc indexCases indexRows field_inverse_index ps h]
  simp only [copyFields_index]

theorem recLines_indexProj (c : Codec) (p : Pkg) :
    recLines c indexRows (indexProj p) = recLines c indexRows p := by
  rw [tie_indexRows]; cases p; rfl

/-- `index_write_read`: a file written for well-formed packages is reproduced byte for byte by
reading it and writing the result again. -/
theorem index_write_read (c : Codec) (hc : c.Lawful) (ps : List Pkg)
    (hwf : ∀ p ∈ ps, WFPkg c indexRows indexTokenMax p = true) :
    ∃ qs, parseIndex c indexCases (renderIndex c indexRows ps) = .ok qs ∧
      renderIndex c indexRows qs = renderIndex c indexRows ps := by
  refine ⟨ps.map indexProj, index_read_write c hc ps hwf, ?_⟩
  simp only [renderIndex, List.flatMap_map]
  congr 1

/-! ## satisfiability of the hypotheses, witnesses of the recorded defects -/

/-- a lawful codec exists (identity), so the theorems are not vacuous … -/
def idCodec : Codec := ⟨id, some⟩
theorem idCodec_lawful_on (b : Text) (h : lineSafe b = true) :
    idCodec.dec (idCodec.enc b) = some b ∧ lineSafe (idCodec.enc b) = true := ⟨rfl, h⟩

def samplePkg : Pkg :=
  { name := "busybox".toList, version := "1.36.1-r2".toList, arch := "x86_64".toList, description := "a b".toList,
    checksum := "abc".toList, deps := ["so:libc.musl-x86_64.so.1".toList, "a>1".toList], provides := [],
    installIf := ["x".toList, "y=1".toList], size := 18446744073709551615, installedSize := 0, priority := 7,
    buildTime := 1700000000 }

/-- … and the well-formedness predicate is satisfiable by a non-trivial record (all list shapes,
maximal integer, zero value) -/
example : WFPkg idCodec indexRows indexTokenMax samplePkg = true := by decide

/-- F16a-idb: install_if never survives the installed db — even the empty list does not. -/
theorem idb_installIf_lost :
    (recLines idCodec idbRows { name := ['a'] }).filter (fun l => l.head? = some 'i') = ["i:[]".toList] ∧
    decode idCodec .splitRep (.list []) "[]".toList = some (.list ["[]".toList]) := by decide

/-- F16e (repaired): with the pinned expression a group without members read back with one empty member;
today it reads back without members -/
theorem group_empty_members_lost :
    pinnedParseGroup "nogroup:x:65533:".toList = some ⟨"nogroup".toList, ['x'], 65533, [[]]⟩ ∧
    parseGroup "nogroup:x:65533:".toList = some ⟨"nogroup".toList, ['x'], 65533, []⟩ := by decide

/-- F16f (repaired): the pinned reader trimmed white space at the ends of a passwd line away; today the
fields come back as written -/
theorem passwd_trim_lost :
    (pinnedParseUser " a:x:1:1::/:/bin/sh ".toList).map (fun u => (u.name, u.shell)) = some (['a'], "/bin/sh".toList) ∧
    (parseUser " a:x:1:1::/:/bin/sh ".toList).map (fun u => (u.name, u.shell)) = some (" a".toList, "/bin/sh ".toList) := by
  decide

/-! ## passwd / group -/

/-- `passwd_roundtrip` (struct → bytes → struct): `UserFile.Load` of what `UserFile.Write` wrote gives
the entries back, for every list of well-formed entries (`WFUser`: fields free of `:`/LF/CR, ids in
`uint32`, line within the scanner buffer; white space anywhere in a field, also at the outer ends, is
covered since the repair of F16f). -/
theorem passwd_roundtrip (us : List User) (h : ∀ u ∈ us, WFUser u = true) :
    loadUsers (writeUsers us) = some us :=
  loadWith_write parseUser renderUser userLine renderUser_eq us
    (fun u hu => parseUser_userLine u (WFUser_spec u (h u hu)))
    (fun u hu => userLine_lineSafe u (WFUser_spec u (h u hu)))
    (fun u hu => (WFUser_spec u (h u hu)).fit)

/-- `passwd_roundtrip` (bytes → struct → bytes): a canonical passwd file (every line LF-terminated,
not ending in CR, within the scanner buffer, ids printed the way `%d` prints a `uint32`)
that loads is reproduced byte for byte by writing what was loaded. -/
theorem passwd_roundtrip_bytes (t : Text) (l : List User) (hc : canonText canonUserLine t = true)
    (hl : loadUsers t = some l) : writeUsers l = t :=
  write_loadWith parseUser renderUser canonUserLine
    (fun l h => by unfold canonUserLine at h; simp only [Bool.and_eq_true] at h; exact h.1)
    (fun l e h hp => renderUser_parseUser l e h hp) t l hc hl

/-- `group_roundtrip` (struct → bytes → struct), the full statement: `GroupFile.Load` of what
`GroupFile.Write` wrote gives the entries back, for every list of well-formed entries (`WFGroup`: fields
free of `:`/LF/CR, gid in `uint32`, member names free of `,`, any number of members — none included, F16e
repaired —, white space allowed everywhere — F16f repaired —, line within the scanner buffer; the one list the
format cannot represent, `[""]`, is excluded: `group_empty_member_ambiguous`). -/
theorem group_roundtrip (gs : List Group) (h : ∀ g ∈ gs, WFGroup g = true) :
    loadGroups (writeGroups gs) = some gs :=
  loadWith_write parseGroup renderGroup groupLine renderGroup_eq gs
    (fun g hg => parseGroup_groupLine g (WFGroup_spec g (h g hg)))
    (fun g hg => groupLine_lineSafe g (WFGroup_spec g (h g hg)))
    (fun g hg => (WFGroup_spec g (h g hg)).fit)

/-- `group_roundtrip` (bytes → struct → bytes); holds for member-less lines too -/
theorem group_roundtrip_bytes (t : Text) (l : List Group) (hc : canonText canonGroupLine t = true)
    (hl : loadGroups t = some l) : writeGroups l = t :=
  write_loadWith parseGroup renderGroup canonGroupLine
    (fun l h => by unfold canonGroupLine at h; simp only [Bool.and_eq_true] at h; exact h.1)
    (fun l e h hp => renderGroup_parseGroup l e h hp) t l hc hl

/-- the same statement about the reader of the pinned tree (`ge.Members = strings.Split(parts[3], ",")`) … -/
def pinned_group_roundtrip : Prop :=
  ∀ gs : List Group, (∀ g ∈ gs, WFGroup g = true) → pinnedLoadGroups (writeGroups gs) = some gs

def noMembers : Group := ⟨"nogroup".toList, ['x'], 65533, []⟩

/-- … is false: F16e, a group without members read back with one empty member -/
theorem group_roundtrip_fails : ¬ pinned_group_roundtrip := by
  intro h
  have := h [noMembers] (by decide)
  revert this
  decide

/-- why `WFGroup` excludes the member list `[""]`: it is written exactly like the empty list, so no reader
can give both back … -/
theorem group_empty_member_ambiguous (n pw : Text) (gid : Nat) :
    renderGroup ⟨n, pw, gid, [[]]⟩ = renderGroup ⟨n, pw, gid, []⟩ := rfl

/-- … and the repaired reader decides for the empty list (the hypothesis of `group_roundtrip` is needed) -/
theorem group_roundtrip_single_empty_member :
    loadGroups (writeGroups [⟨['g'], ['x'], 1, [[]]⟩]) = some [⟨['g'], ['x'], 1, []⟩] := by decide

/-- the statement of `passwd_roundtrip` about the reader of the pinned tree (`strings.TrimSpace`) … -/
def pinned_passwd_roundtrip : Prop :=
  ∀ us : List User, (∀ u ∈ us, WFUser u = true) → pinnedLoadUsers (writeUsers us) = some us

def paddedUser : User := ⟨" a".toList, ['x'], 1, 1, [], ['/'], "/bin/sh ".toList⟩

/-- … is false: F16f -/
theorem passwd_roundtrip_unpadded_fails : ¬ pinned_passwd_roundtrip := by
  intro h
  have := h [paddedUser] (by decide)
  revert this
  decide

/-- … and held exactly under the padding clause that `WFUser` used to carry -/
theorem pinned_passwd_roundtrip_partial (us : List User) (h : ∀ u ∈ us, WFUser u = true)
    (hp : ∀ u ∈ us, unpaddedUser u = true) : pinnedLoadUsers (writeUsers us) = some us :=
  loadWith_write pinnedParseUser renderUser userLine renderUser_eq us
    (fun u hu => pinnedParseUser_userLine u (WFUser_spec u (h u hu)) (hp u hu))
    (fun u hu => userLine_lineSafe u (WFUser_spec u (h u hu)))
    (fun u hu => (WFUser_spec u (h u hu)).fit)

/-- the same for the group reader with the pinned trimming -/
def pinned_group_roundtrip_padded : Prop :=
  ∀ gs : List Group, (∀ g ∈ gs, WFGroup g = true) → pinnedTrimLoadGroups (writeGroups gs) = some gs

def paddedGroup : Group := ⟨"\twheel".toList, ['x'], 10, ["root".toList, "u ".toList]⟩

theorem group_roundtrip_padded_fails : ¬ pinned_group_roundtrip_padded := by
  intro h
  have := h [paddedGroup] (by decide)
  revert this
  decide

theorem pinned_group_roundtrip_partial (gs : List Group) (h : ∀ g ∈ gs, WFGroup g = true)
    (hp : ∀ g ∈ gs, unpaddedGroup g = true) : pinnedTrimLoadGroups (writeGroups gs) = some gs :=
  loadWith_write pinnedTrimParseGroup renderGroup groupLine renderGroup_eq gs
    (fun g hg => pinnedTrimParseGroup_groupLine g (WFGroup_spec g (h g hg)) (hp g hg))
    (fun g hg => groupLine_lineSafe g (WFGroup_spec g (h g hg)))
    (fun g hg => (WFGroup_spec g (h g hg)).fit)

def sampleUser : User := ⟨"build user".toList, ['x'], 4294967295, 0, "a, b".toList, "/home/build".toList, []⟩
def sampleGroup : Group := ⟨"wheel".toList, [], 10, ["root".toList, [], "build user".toList]⟩

example : WFUser sampleUser = true := by decide
example : WFGroup sampleGroup = true := by decide
example : WFGroup noMembers = true := by decide
example : WFUser paddedUser = true ∧ WFGroup paddedGroup = true := by decide
example : canonText canonUserLine (writeUsers [sampleUser, sampleUser]) = true := by decide
example : canonText canonGroupLine (writeGroups [sampleGroup, noMembers]) = true := by decide

/-! ## installed db -/

/-- over the regenerated tables (evaluated once, in `Lemmas/FormatsIdbTable.lean`): the lines of
`PackageToInstalled` are the `i:` line (printed with `%s` of a `[]string`, read with
`splitRepeatedField`) plus rows that satisfy `tableOK` with the cases of `ParseInstalled`, and every
field of the record has a line -/
theorem field_inverse_idb_table : idbTableOK idbRows idbCases = true := idb_tables_ok_pkg

/-- over the regenerated switch: `F:` `M:` `R:` `a:` are the file cases (the parsed permissions reach
`pkg.Files`), `Z:` has no case -/
theorem field_inverse_idb_files : fileCasesOK idbCases = true := idb_tables_ok_files

/-- `sortTarHeaders_parent_adjacent`: in the order `AddInstalledPackage` writes headers, every
non-directory record is preceded by the record of its parent directory with only non-directory
records in between (or stands before every directory record and is a top-level name) — so the `R:`
lines are read back against the right `F:` line.  Holds for every input on which `sortTarHeaders`
terminates. -/
theorem sortTarHeaders_parent_adjacent (hs out : List FileRec) (h : sortHeaders hs = some out)
    (pre post : List FileRec) (f : FileRec) (e : out = pre ++ f :: post) (hf : f.isDir = false) :
    (∃ p1 d run, pre = p1 ++ d :: run ∧ d.isDir = true ∧ (∀ r ∈ run, r.isDir = false) ∧
        pathClean d.name = pathDir (pathClean f.name)) ∨
    ((∀ r ∈ pre, r.isDir = false) ∧ pathDir (pathClean f.name) = ['.']) :=
  sortHeaders_parent_adjacent hs out h pre post f e hf

/-- … and `sortTarHeaders` invents no record -/
theorem sortTarHeaders_subset (hs out : List FileRec) (h : sortHeaders hs = some out) : ∀ f ∈ out, f ∈ hs :=
  (sortHeaders_followsDir hs out h).2

/-- `idb_read_write` (whole file): for every list of well-formed installed packages (`WFIPkg`: named,
fields free of LF/CR, list items non-empty and free of space, integers in range, header names clean,
relative and free of LF/CR, owners in `int64`) whose rendering succeeds and keeps every line within the
scanner buffer, `ParseInstalled` of what the `AddInstalledPackage` calls wrote returns, package by
package, `readBack`: every package field except `install_if` (F16a-idb), and for every header that
`sortTarHeaders` emits (F16h: top-level files and childless top-level directories are not emitted)
path, dir / non-dir, permission bits incl. setuid / setgid / sticky (`& 0o7777`, F16d repaired: every mode
a tar header can carry in its permission field comes back, `fileProj_keeps`), uid and gid (no checksum,
F16c). -/
theorem idb_read_write (c : Codec) (hc : c.Lawful) (ips : List IPkg) (t : Text)
    (hr : renderInstalledAll c idbRows ips = .ok t) (hwf : ∀ ip ∈ ips, WFIPkg ip = true)
    (hfit : linesFit defaultTokenMax (rawLines t) = true) :
    parseInstalled c idbCases idbGuarded t = .ok (ips.map readBack) :=
  parseInstalled_idb c hc idbGuarded ips t hr hwf hfit

/-- the package part of `readBack`: all fields except `install_if` -/
theorem idb_read_write_fields (ip : IPkg) (f : Field) (hf : f ≠ .installIf) :
    get (readBack ip).pkg f = get ip.pkg f := idbProj_get ip.pkg f hf

/-- `idb_files_read_write`: for a header list that is already in `sortTarHeaders` order, every record
comes back with its path, kind, permission bits and owner -/
theorem idb_files_read_write (c : Codec) (hc : c.Lawful) (ip : IPkg) (t : Text)
    (hstable : sortHeaders ip.files = some ip.files)
    (hr : renderInstalled c idbRows ip = .ok t) (hwf : WFIPkg ip = true)
    (hfit : linesFit defaultTokenMax (rawLines t) = true) :
    parseInstalled c idbCases idbGuarded t = .ok [⟨idbProj ip.pkg, ip.files.map fileProj⟩] := by
  have h := idb_read_write c hc [ip] t (by simp [renderInstalledAll, hr, Res.bind]) (by simpa using hwf) hfit
  simpa [readBack, hstable] using h

/-- what `fileProj` keeps -/
theorem fileProj_keeps (f : FileRec) :
    (fileProj f).name = f.name ∧ (fileProj f).isDir = f.isDir ∧ (fileProj f).uid = f.uid ∧
    (fileProj f).gid = f.gid ∧ (fileProj f).mode = f.mode.emod 4096 ∧
    (0 ≤ f.mode → f.mode ≤ 0o7777 → (fileProj f).mode = f.mode) := by
  refine ⟨rfl, rfl, rfl, rfl, rfl, ?_⟩
  intro h1 h2
  exact Int.emod_eq_of_lt h1 (by omega)

/-- the hypotheses are satisfiable by a non-trivial package (nested directories, special modes,
owners, negative gid, both checksum forms, every list shape, maximal integer): well-formed, in
`sortTarHeaders` order, renders, fits -/
example : WFIPkg sampleIPkg = true ∧ sortHeaders sampleIPkg.files = some sampleIPkg.files ∧
    ∃ t, renderInstalled escCodec idbRows sampleIPkg = .ok t ∧ linesFit defaultTokenMax (rawLines t) = true :=
  ⟨by decide, sampleFiles_sorted, sampleIPkg_renders⟩

/-- … and by headers in a different order (the theorem then speaks about the sorted list) -/
example : WFIPkg sampleIPkg' = true ∧ sortHeaders sampleIPkg'.files = some sampleFiles := ⟨by decide, sampleFiles_shuffled⟩

/-- the full statement of `idb_read_write` (everything comes back) … -/
def idb_read_write_full : Prop :=
  ∀ (c : Codec), c.Lawful → ∀ (ips : List IPkg) (t : Text), renderInstalledAll c idbRows ips = .ok t →
    (∀ ip ∈ ips, WFIPkg ip = true) → linesFit defaultTokenMax (rawLines t) = true →
    parseInstalled c idbCases idbGuarded t = .ok (ips.map fun ip => ⟨ip.pkg, (sortHeaders ip.files).getD []⟩)

/-- … is false: F16a-idb (`install_if`, even when empty), F16c (checksum) -/
theorem idb_read_write_full_fails_installIf :
    readBack ⟨{ name := ['a'] }, []⟩ ≠ ⟨{ name := ['a'] }, []⟩ := by
  rw [readBack, sortHeaders_nil]; decide

theorem idb_read_write_full_fails_files :
    sampleFiles.map fileProj ≠ sampleFiles ∧
    (sampleFiles.map fileProj).map (fun f => (f.name, f.isDir, f.uid, f.gid)) =
      sampleFiles.map (fun f => (f.name, f.isDir, f.uid, f.gid)) := by decide

/-- `Codec.Lawful` is satisfiable on all texts, so the theorems above are not vacuous -/
theorem lawful_codec_exists : ∃ c : Codec, c.Lawful := ⟨escCodec, escCodec_lawful⟩

/-- `idb_write_read` in the form proved for the index (reading a written file and writing the result
again reproduces the bytes) … -/
def idb_write_read : Prop :=
  ∀ (c : Codec), c.Lawful → ∀ (ips : List IPkg) (t : Text), renderInstalledAll c idbRows ips = .ok t →
    (∀ ip ∈ ips, WFIPkg ip = true) → linesFit defaultTokenMax (rawLines t) = true →
    ∃ qs, parseInstalled c idbCases idbGuarded t = .ok qs ∧ renderInstalledAll c idbRows qs = .ok t

/-- … is false for every package, because of the `i:` line (F16a-idb: `i:[]` reads back as `["[]"]` and
is written again as `i:[[]]`): the smallest witness (`minimal_facts`) -/
theorem idb_write_read_fails : ¬ idb_write_read := by
  intro h
  obtain ⟨h1, h2, _, h4⟩ := minimal_facts
  obtain ⟨qs, hq1, hq2⟩ := h escCodec escCodec_lawful [minimalIPkg] _ h1 (by decide) h2
  rw [idb_read_write escCodec escCodec_lawful [minimalIPkg] _ h1 (by decide) h2] at hq1
  simp only [Res.ok.injEq] at hq1
  subst hq1
  exact h4 hq2

theorem idb_read_write_full_fails : ¬ idb_read_write_full := by
  intro h
  obtain ⟨h1, h2, h3, _⟩ := minimal_facts
  have hq := h escCodec escCodec_lawful [minimalIPkg] _ h1 (by decide) h2
  rw [idb_read_write escCodec escCodec_lawful [minimalIPkg] _ h1 (by decide) h2] at hq
  simp only [Res.ok.injEq, List.map_cons, List.map_nil, List.cons.injEq, and_true] at hq
  exact h3 hq

/-! ## `AddInstalledPackage` is total on well-formed input -/

/-- `sortTarHeaders` terminates on headers with clean relative names (the model's fuel `len + 2` is
never exhausted: every nesting level passes a distinct record) … -/
theorem sortTarHeaders_terminates (hs : List FileRec) (h : ∀ f ∈ hs, cleanRel f.name = true) :
    ∃ out, sortHeaders hs = some out := sortHeaders_total hs h

/-- … and the hypothesis is needed: one directory header "." exhausts every fuel (Go recurses until the
stack overflows) -/
theorem sortTarHeaders_dot_diverges : sortHeaders [dotDir] = none := sortHeaders_dot

/-- well-formed packages whose checksum records are absent, `Q1…` or valid hex are always written -/
theorem idb_write_total (c : Codec) (ips : List IPkg) (hwf : ∀ ip ∈ ips, WFIPkg ip = true)
    (hcs : ∀ ip ∈ ips, ∀ f ∈ ip.files, csumOK f = true) :
    ∃ t, renderInstalledAll c idbRows ips = .ok t :=
  renderInstalledAll_total c idbRows ips (fun ip hip f hf => ⟨WFIPkg_files ip (hwf ip hip) f hf, hcs ip hip f hf⟩)

/-- `idb_read_write` with the writer's success discharged -/
theorem idb_read_write_total (c : Codec) (hc : c.Lawful) (ips : List IPkg) (hwf : ∀ ip ∈ ips, WFIPkg ip = true)
    (hcs : ∀ ip ∈ ips, ∀ f ∈ ip.files, csumOK f = true) :
    ∃ t, renderInstalledAll c idbRows ips = .ok t ∧
      (linesFit defaultTokenMax (rawLines t) = true →
        parseInstalled c idbCases idbGuarded t = .ok (ips.map readBack)) := by
  obtain ⟨t, ht⟩ := idb_write_total c ips hwf hcs
  exact ⟨t, ht, idb_read_write c hc ips t ht hwf⟩

example : sampleFiles.all csumOK = true := by decide

/-! ## which headers the installed db lists (the exact extent of F16h / F07a) -/

/-- `sortTarHeaders_complete`: on a tree-shaped header list (`treeOK`: clean relative names, pairwise
distinct, every non-top-level record has a *directory* record for its parent) `sortTarHeaders`
terminates and emits exactly the records that are not top-level, plus the top-level directories that
have a child; i.e. precisely the top-level files and the childless top-level directories are missing
from the installed db. -/
theorem sortTarHeaders_complete (hs : List FileRec) (ht : treeOK hs = true) :
    ∃ out, sortHeaders hs = some out ∧
      ∀ x, x ∈ out ↔ (x ∈ hs ∧ (pathDir x.name ≠ ['.'] ∨ (x.isDir = true ∧ ∃ y ∈ hs, pathDir y.name = x.name))) := by
  obtain ⟨out, h1, h2⟩ := sortHeaders_mem hs (treeOK_spec hs ht)
  exact ⟨out, h1, fun x => by rw [h2 x, emitted_iff]⟩

/-- consequently every non-top-level header of a well-formed package with a tree-shaped header list is
read back from the installed db (path, kind, permission bits, owner), and nothing else is -/
theorem idb_files_complete (c : Codec) (hc : c.Lawful) (ip : IPkg) (t : Text) (htree : treeOK ip.files = true)
    (hr : renderInstalled c idbRows ip = .ok t) (hwf : WFIPkg ip = true)
    (hfit : linesFit defaultTokenMax (rawLines t) = true) :
    ∃ fs, parseInstalled c idbCases idbGuarded t = .ok [⟨idbProj ip.pkg, fs⟩] ∧
      ∀ g, g ∈ fs ↔ ∃ f ∈ ip.files, emitted ip.files f = true ∧ g = fileProj f := by
  obtain ⟨out, h1, h2⟩ := sortHeaders_mem ip.files (treeOK_spec ip.files htree)
  have h := idb_read_write c hc [ip] t (by simp [renderInstalledAll, hr, Res.bind]) (by simpa using hwf) hfit
  refine ⟨out.map fileProj, by simpa [readBack, h1] using h, ?_⟩
  intro g
  simp only [List.mem_map, h2]
  constructor
  · rintro ⟨f, ⟨hf, he⟩, rfl⟩; exact ⟨f, hf, he, rfl⟩
  · rintro ⟨f, hf, he, rfl⟩; exact ⟨f, ⟨hf, he⟩, rfl⟩

example : treeOK sampleFiles = true := by decide
/-- a tree with a top-level file and a childless top-level directory: both are `emitted = false` -/
example : treeOK (⟨"README".toList, false, 0o644, 0, 0, []⟩ :: ⟨"tmp".toList, true, 0o1777, 0, 0, []⟩ :: sampleFiles) = true ∧
    (⟨"README".toList, false, 0o644, 0, 0, []⟩ :: ⟨"tmp".toList, true, 0o1777, 0, 0, []⟩ :: sampleFiles).filter
      (fun x => !emitted (⟨"README".toList, false, 0o644, 0, 0, []⟩ :: ⟨"tmp".toList, true, 0o1777, 0, 0, []⟩ :: sampleFiles) x)
      = [⟨"README".toList, false, 0o644, 0, 0, []⟩, ⟨"tmp".toList, true, 0o1777, 0, 0, []⟩] := by decide

/-- `sortTarHeaders_perm`: with names that are also distinct as a list, the output is a permutation of
the kept records — every kept record is listed exactly once -/
theorem sortTarHeaders_perm (hs : List FileRec) (ht : treeOK hs = true) (hn : namesNodup hs = true) :
    ∃ out, sortHeaders hs = some out ∧ out.Perm (hs.filter (emitted hs)) :=
  sortHeaders_perm hs (treeOK_spec hs ht) hn

example : namesNodup sampleFiles = true := by decide

/-! ## the readers are total -/

/-- `ParseInstalled`, as it is today (`tie_idbGuarded`), panics on no input; `ParsePackageIndex` neither -/
theorem readers_no_panic (c : Codec) (t : Text) :
    parseInstalled c idbCases idbGuarded t ≠ .oob ∧ parseIndex c indexCases t ≠ .oob := by
  rw [tie_idbGuarded]
  exact ⟨parseInstalled_no_panic c idbCases t, parseIndex_no_panic c indexCases t⟩

/-- without the guard a one-byte line indexes out of range (F15a, repaired) -/
theorem unguarded_panics : parseInstalled idCodec [] false "x\n".toList = .oob := by decide

/-! ## the installed db does not depend on the order of the tar entries -/

/-- `sortTarHeaders` of a tree-shaped header list is the same list for every permutation of the input -/
theorem sortTarHeaders_order_independent (hs1 hs2 : List FileRec) (ht : treeOK hs1 = true) (hp : hs1.Perm hs2) :
    sortHeaders hs1 = sortHeaders hs2 :=
  sortHeaders_perm_invariant hs1 hs2 (treeOK_spec hs1 ht) hp

/-- … hence so is the text `AddInstalledPackage` appends -/
theorem idb_order_independent (c : Codec) (p : Pkg) (fs1 fs2 : List FileRec) (ht : treeOK fs1 = true)
    (hp : fs1.Perm fs2) : renderInstalled c idbRows ⟨p, fs1⟩ = renderInstalled c idbRows ⟨p, fs2⟩ := by
  unfold renderInstalled
  simp only [sortTarHeaders_order_independent fs1 fs2 ht hp]

example : sortHeaders sampleFiles.reverse = sortHeaders sampleFiles :=
  (sortTarHeaders_order_independent sampleFiles sampleFiles.reverse (by decide) (List.reverse_perm _).symm).symm

/-- `sortTarHeaders` is idempotent on tree-shaped header lists with distinct names: sorting the list it
produced gives the same list (so a db that is read and written again keeps its file order), and
dropping the records it does not emit changes nothing -/
theorem sortTarHeaders_idempotent (hs out : List FileRec) (ht : treeOK hs = true) (hn : namesNodup hs = true)
    (h : sortHeaders hs = some out) :
    sortHeaders out = some out ∧ sortHeaders (hs.filter (emitted hs)) = some out :=
  ⟨sortHeaders_idem hs (treeOK_spec hs ht) hn out h, by rw [← h]; exact sortHeaders_kept hs (treeOK_spec hs ht)⟩

/-! ## F16i: `sortTarHeaders` is not linear in its input -/

/-- the full statement: `sortTarHeaders` emits at most as many records as it was given.  False (F16i). -/
def SortLinear : Prop := ∀ (hs out : List FileRec), sortHeaders hs = some out → out.length ≤ hs.length

/-- `sortTarHeaders_linear_partial`: it holds for tree-shaped header lists whose names are pairwise different -/
theorem sortTarHeaders_linear_partial (hs out : List FileRec) (ht : treeOK hs = true) (hn : namesNodup hs = true)
    (h : sortHeaders hs = some out) : out.length ≤ hs.length := by
  obtain ⟨o, h1, h2⟩ := sortTarHeaders_perm hs ht hn
  rw [h] at h1
  cases h1
  rw [h2.length_eq]
  exact List.length_filter_le _ _

example : treeOK sampleFiles = true ∧ namesNodup sampleFiles = true := by decide

/-- … and fails as soon as one directory record that has children is listed twice: the chain
a, a/b, a/b, a/b/c, a/b/c/f (5 headers) comes out as 7 records, the subtree of a/b twice -/
theorem sortTarHeaders_linear_fails : ¬ SortLinear := by
  intro h
  have := h dupChain dupChain1 dupChain_sorted
  revert this
  decide

/-- sorting what `sortTarHeaders` emitted (AddInstalledPackage with the files ParseInstalled read back) is not
the identity for such an input: every level below the duplicated record doubles, 5 -> 7 -> 15 records, more than
twice the first output; the input is in the class the driver attributes to F16i -/
theorem sortTarHeaders_resort_grows :
    ∃ hs o1 o2, dupDirWithChildren hs = true ∧ sortHeaders hs = some o1 ∧ sortHeaders o1 = some o2 ∧
      hs.length = 5 ∧ o1.length = 7 ∧ o2.length = 15 ∧ 2 * o1.length ≤ o2.length ∧ o2 ≠ o1 :=
  ⟨dupChain, dupChain1, dupChain2, dupChain_class.1, dupChain_sorted, dupChain1_sorted, by decide, by decide, by decide,
    by decide, by decide⟩

/-! ## `idb_write_read`, the part that holds -/

/-- `idb_write_read_partial`: for a well-formed package whose header list is a tree with distinct names,
the db text that was written is read, and writing what was read gives the same text *except for the
`i:` line (F16a-idb) and the `Z:` lines (F16c)*: same package lines, same `F:`/`M:`/`R:`/`a:` lines in the
same order (`stripIZ` removes the lines that start with `i` or `Z`). -/
theorem idb_write_read_partial (c : Codec) (hc : c.Lawful) (ip : IPkg) (t : Text)
    (hr : renderInstalled c idbRows ip = .ok t) (hwf : WFIPkg ip = true) (htree : treeOK ip.files = true)
    (hn : namesNodup ip.files = true) (hfit : linesFit defaultTokenMax (rawLines t) = true) :
    ∃ q t', parseInstalled c idbCases idbGuarded t = .ok [q] ∧ renderInstalled c idbRows q = .ok t' ∧
      stripIZ t' = stripIZ t := by
  obtain ⟨pre, post, htab⟩ := idbTableOK_spec idbRows idbCases field_inverse_idb_table
  obtain ⟨t', h1, h2⟩ := renderInstalled_reread_text c hc idbCases idbRows pre post htab ip hwf
    (treeOK_spec ip.files htree) hn t hr
  have h := idb_read_write c hc [ip] t (by simp [renderInstalledAll, hr, Res.bind]) (by simpa using hwf) hfit
  exact ⟨readBack ip, t', by simpa using h, h1, h2⟩

end Apko.C16
