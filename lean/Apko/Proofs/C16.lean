/-
C16 — apko's own text formats round-trip (placeholder header, see below).
-/
import Apko.Model.Formats

namespace Apko.C16
open Apko Apko.Formats

/-- the APKINDEX template is understood completely -/
theorem tie_indexRows_understood : (rowsOfGo Generated.indexRows).isSome = true := by decide

end Apko.C16
