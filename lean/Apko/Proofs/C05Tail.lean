/-
C05 (round 5) — every path from fetched bytes to an installation passes `verifyExpanded`.

The repository may answer every request for a package URL differently within one operation (a script of answers:
refused / a body that does not split into members / a stream that splits).  The tail of `expandPackage` — everything
after the cache lookup — is a program over the four calls that matter (`Authentic.Tail`: FetchPackage, ExpandApk,
verifyExpanded, cachePackage, the `a.cache == nil` test, the returns), run by `Authentic.runTail` against a script.

* `guarded_tail_authentic`   for EVERY tail in which each successful return is dominated by a `verifyExpanded` of the
                              last `ExpandApk` (`guarded false t`), every script of answers, every cache that satisfies the
                              invariant: what the tail returns is authentic for the checksum of the handle.  However often the
                              tail fetches, whatever the answers are.
* `tie_expandPackage_tail`   the regenerated statement list of today's tail, read as a program, is `Impl.tail`
* `impl_tail_guarded`        which is guarded
* `impl_tail_refines`        and is what `expandPackageWith true` (the model the correspondence runs) does after a cache miss,
                              for every first answer; the later answers are never asked for (`impl_tail_asks_once`)
* `install_authentic_script` the corollary: `expandPackage` against any script of answers
* `unguarded_refetch_installs_unverified`  the condition is needed: a tail that, after a broken body, fetches and expands
                              again and returns THAT expansion without a verification hands out a package whose control
                              checksum is not the handle's (a complete, self-consistent, different package as second answer)
* `tie_users_*`              who may turn fetched bytes into an expansion at all: the functions of the tree that mention
                              FetchPackage / ExpandApk / cachePackage / verifyExpanded / cachedPackage / the package-level
                              expandPackage (a second caller of ExpandApk next to expandPackage changes the list)
-/
import Apko.Model.Authentic
import Apko.Generated.AuthenticCalls
import Apko.Proofs.C05

namespace Apko.C05Tail
open Apko Apko.Authentic Apko.C05

/-! ### ties -/

theorem tie_expandPackage_tail_stmts : Generated.stmts_expandPackageTail =
    ["rc, err := a.FetchPackage(ctx, pkg)",
     "if err != nil → return-error",
     "defer rc.Close()",
     "exp, err := expandapk.ExpandApk(ctx, rc, cacheDir)",
     "if err != nil → return-error",
     "if err := a.verifyExpanded(pkg, exp); err != nil → return-error",
     "if a.cache == nil → return-ok",
     "return a.cachePackage(ctx, pkg, exp, cacheDir)"] := rfl

/-- the regenerated tail, read as a program, is the model's -/
theorem tie_expandPackage_tail : parseTail Generated.stmts_expandPackageTail = some Impl.tail := by decide

/-- the package-level `expandPackage` is the only function of the tree that fetches a package, the only one in
pkg/apk/apk that expands one (pkg/apk/fs reads local files handed to it), the only one that advertises in the cache -/
theorem tie_users_FetchPackage : Generated.users_FetchPackage = ["pkg/apk/apk/implementation.go:expandPackage"] := rfl
theorem tie_users_ExpandApk : Generated.users_ExpandApk =
    ["pkg/apk/apk/implementation.go:expandPackage", "pkg/apk/fs/apkfs.go:APKFS.acquireCache", "pkg/apk/fs/apkfs.go:NewAPKFS"] := rfl
theorem tie_users_cachePackage : Generated.users_cachePackage = ["pkg/apk/apk/implementation.go:expandPackage"] := rfl
theorem tie_users_cachedPackage : Generated.users_cachedPackage = ["pkg/apk/apk/implementation.go:expandPackage"] := rfl
theorem tie_users_verifyExpanded : Generated.users_verifyExpanded = ["pkg/apk/apk/implementation.go:expandPackage"] := rfl
/-- … and it is reached through the memo (`apkCache.get`, twice) or directly without a cache directory (`expandVia`) -/
theorem tie_users_expandPackage : Generated.users_expandPackage =
    ["pkg/apk/apk/implementation.go:APK.CalculateWorld", "pkg/apk/apk/implementation.go:APK.InstallPackages",
     "pkg/apk/apk/implementation.go:apkCache.get", "pkg/apk/apk/implementation.go:APK.expandPackage"] := rfl

theorem impl_tail_guarded : guarded false Impl.tail = true := by decide

/-! ### what a verified expansion is worth -/

/-- the current `exp` came out of `ExpandApk` and was accepted by `verifyExpanded` for this handle -/
def Verified (L : Lib) (w : Want) (e : Expanded) : Prop :=
  (∃ a, expand L a = .ok e) ∧ verifyExpanded L w.digest e = .ok ()

theorem verified_done (L : Lib) (w : Want) (e : Expanded) (h : Verified L w e) :
    Authentic L w.digest e ∧ checkSums L e.files = true := by
  obtain ⟨⟨a, hexp⟩, hver⟩ := h
  obtain ⟨hf, hfc, hcs, h1, h2, h3, h4, h5⟩ := files_checked L a e hexp
  obtain ⟨hexpd, info, dh, hinfo, hdh, hdata⟩ := verifyExpanded_spec L w.digest e hver
  refine ⟨⟨?_, ?_, ⟨info, dh, hinfo, hdh, ?_⟩, hf, hfc⟩, hcs⟩
  · simp [ControlMatches, hexpd, h4, h1]
  · simp [ControlMatches, hexpd, h4, h2]
  · rw [h3, ← h5]; exact hdata

theorem verified_store (L : Lib) (w : Want) (e e1 : Expanded) (c c1 : Cache) (h : Verified L w e)
    (hinv : CacheInv L c) (hcp : cachePackage L e c = .ok (e1, c1)) :
    Authentic L w.digest e1 ∧ checkSums L e1.files = true := by
  obtain ⟨⟨a, hexp⟩, hver⟩ := h
  obtain ⟨hf, hfc, hcs, h1, h2, h3, h4, h5⟩ := files_checked L a e hexp
  obtain ⟨hexpd, info, dh, hinfo, hdh, hdata⟩ := verifyExpanded_spec L w.digest e hver
  obtain ⟨_, hctl, hcf, hdat, hfiles, hcs'⟩ :=
    cachePackage_spec L e e1 c c1 hinv (by rw [h4, h1]) (by rw [h5, h3]) hf hcs hcp
  refine ⟨⟨?_, ?_, ⟨info, dh, ?_, hdh, ?_⟩, hfiles, filesChecked_of_checkSums L _ hcs'⟩, hcs'⟩
  · simp [ControlMatches, hexpd, hctl, h4, h1]
  · simp [ControlMatches, hexpd, hcf]
  · rw [hctl]; exact hinfo
  · rw [hdat]; exact hdata

/-! ### T `guarded_tail_authentic` -/

/-- whatever `exp` holds came out of `ExpandApk` -/
def FromExpand (L : Lib) (s : TailState) : Prop := ∀ e, s.exp = some e → ∃ a, expand L a = .ok e

theorem guarded_tail_authentic (L : Lib) (w : Want) (cache : Option Cache)
    (hinv : ∀ c, cache = some c → CacheInv L c) :
    ∀ (t : Tail) (v : Bool) (s : TailState), guarded v t = true → FromExpand L s →
      (v = true → ∃ e, s.exp = some e ∧ verifyExpanded L w.digest e = .ok ()) →
      ∀ e cache', runTail L w cache t s = .ok (e, cache') →
        Authentic L w.digest e ∧ checkSums L e.files = true := by
  intro t
  induction t with
  | fail => intro v s _ _ _ e c' h; simp [runTail] at h
  | done =>
    intro v s hg hfe hv e c' h
    simp only [guarded] at hg
    obtain ⟨e0, he0, hver⟩ := hv hg
    simp only [runTail, he0] at h
    cases h
    exact verified_done L w e ⟨hfe e he0, hver⟩
  | store =>
    intro v s hg hfe hv e c' h
    simp only [guarded] at hg
    obtain ⟨e0, he0, hver⟩ := hv hg
    unfold runTail at h
    rw [he0] at h
    cases cache with
    | none => simp at h
    | some c =>
      simp only at h
      split at h
      · cases h
      · next e1 c1 hcp =>
        cases h
        exact verified_store L w e0 e c c1 ⟨hfe e0 he0, hver⟩ (hinv c rfl) hcp
  | fetch a b iha ihb =>
    intro v s hg hfe hv e c' h
    simp only [guarded, Bool.and_eq_true] at hg
    unfold runTail at h
    split at h
    · refine iha v _ hg.1 ?_ ?_ e c' h
      · exact hfe
      · exact hv
    · refine ihb v _ hg.2 ?_ ?_ e c' h
      · exact hfe
      · exact hv
    · refine ihb v _ hg.2 ?_ ?_ e c' h
      · exact hfe
      · exact hv
  | expand a b iha ihb =>
    intro v s hg _ _ e c' h
    simp only [guarded, Bool.and_eq_true] at hg
    unfold runTail at h
    split at h
    · exact iha false _ hg.1 (by intro e0 he0; cases he0) (by intro hh; cases hh) e c' h
    · next x _ =>
      split at h
      · exact iha false _ hg.1 (by intro e0 he0; cases he0) (by intro hh; cases hh) e c' h
      · next e1 hexp =>
        exact ihb false _ hg.2 (by intro e0 he0; cases he0; exact ⟨x, hexp⟩) (by intro hh; cases hh) e c' h
  | verify a b iha ihb =>
    intro v s hg hfe hv e c' h
    simp only [guarded, Bool.and_eq_true] at hg
    unfold runTail at h
    split at h
    · exact iha false _ hg.1 hfe (by intro hh; cases hh) e c' h
    · next e0 he0 =>
      split at h
      · exact iha false _ hg.1 (by intro e1 he1; cases he1) (by intro hh; cases hh) e c' h
      · next hver => exact ihb true s hg.2 hfe (fun _ => ⟨e0, he0, hver⟩) e c' h
  | noCache a b iha ihb =>
    intro v s hg hfe hv e c' h
    simp only [guarded, Bool.and_eq_true] at hg
    unfold runTail at h
    split at h
    · exact iha v _ hg.1 hfe hv e c' h
    · exact ihb v _ hg.2 hfe hv e c' h

/-- the statement for a run from the start of the tail: nothing expanded yet -/
theorem guarded_tail_authentic_start (L : Lib) (w : Want) (cache cache' : Option Cache) (t : Tail) (script : List Resp)
    (e : Expanded) (hinv : ∀ c, cache = some c → CacheInv L c) (hg : guarded false t = true)
    (h : runTail L w cache t { script := script } = .ok (e, cache')) :
    Authentic L w.digest e ∧ checkSums L e.files = true :=
  guarded_tail_authentic L w cache hinv t false _ hg (by intro e0 he0; cases he0) (by intro hh; cases hh) e cache' h

/-! ### today's tail is what the model of `expandPackage` does after a cache miss -/

/-- `expandPackage` against a script of answers: the cache lookup, then today's tail -/
def expandPackageScript (L : Lib) (w : Want) (cache : Option Cache) (script : List Resp) :
    Except Err (Expanded × Option Cache) :=
  match cache.bind (cachedPackage L w.key) with
  | some e => .ok (e, cache)
  | none => runTail L w cache Impl.tail { script := script }

/-- for every first answer and whatever the later answers are: the later ones are never asked for -/
theorem impl_tail_refines (L : Lib) (w : Want) (cache : Option Cache) (r : Resp) (rest : List Resp) :
    expandPackageScript L w cache (r :: rest) = expandPackageWith true L w cache r.toOption := by
  unfold expandPackageScript expandPackageWith
  cases hhit : cache.bind (cachedPackage L w.key) with
  | some e => rfl
  | none =>
    simp only [Impl.tail]
    cases r with
    | refused => simp [runTail, nextResp, Resp.toOption]
    | broken => simp [runTail, nextResp, Resp.toOption]
    | apk x =>
      simp only [runTail, nextResp, Resp.toOption]
      cases hx : expand L x with
      | error er => simp
      | ok e0 =>
        simp only [if_true]
        cases hv : verifyExpanded L w.digest e0 with
        | error er => simp
        | ok u =>
          cases u
          cases cache with
          | none => simp
          | some c =>
            simp only [Option.isNone_some, Bool.false_eq_true, if_false]

theorem impl_tail_asks_once (L : Lib) (w : Want) (cache : Option Cache) (r : Resp) (rest rest2 : List Resp) :
    expandPackageScript L w cache (r :: rest) = expandPackageScript L w cache (r :: rest2) := by
  rw [impl_tail_refines, impl_tail_refines]

/-- T `install_authentic_script`: `expandPackage` (disabled / cold / warm cache that satisfies the invariant) against ANY
script of answers returns only expansions that are authentic for the checksum of the handle -/
theorem install_authentic_script (L : Lib) (hx : HexCanonical L) (w : Want) (cache cache' : Option Cache)
    (script : List Resp) (e : Expanded) (hinv : ∀ c, cache = some c → CacheInv L c)
    (h : expandPackageScript L w cache script = .ok (e, cache')) :
    Authentic L w.digest e ∧ checkSums L e.files = true := by
  cases script with
  | nil =>
    have : expandPackageScript L w cache [] = expandPackageScript L w cache [.refused] := by
      unfold expandPackageScript
      cases cache.bind (cachedPackage L w.key) with
      | some e => rfl
      | none => simp [Impl.tail, runTail, nextResp]
    rw [this, impl_tail_refines] at h
    exact install_authentic L hx w cache cache' _ e hinv h
  | cons r rest =>
    rw [impl_tail_refines] at h
    exact install_authentic L hx w cache cache' _ e hinv h

/-! ### the condition is needed -/

/-- a tail that answers a failing `ExpandApk` with a second fetch + expansion and returns THAT expansion (or advertises
it in the cache) without a verification -/
def refetchTail : Tail :=
  .fetch .fail (.expand (.fetch .fail (.expand .fail (.noCache .done .store)))
                        (.verify .fail (.noCache .done .store)))

theorem refetchTail_not_guarded : guarded false refetchTail = false := by decide

/-- the index records `aa`; the first answer is a broken body, the second a complete, self-consistent package whose
control section hashes to `bb`: installed, for a handle that asked for `aa` -/
theorem unguarded_refetch_installs_unverified :
    ∃ e c, runTail toyLib ⟨some "aa".toList, true⟩ none refetchTail
        { script := [.broken, .apk ⟨none, [2], [20]⟩] } = .ok (e, c) ∧
      ¬ ControlMatches toyLib (some "aa".toList) e.control := by
  refine ⟨_, _, rfl, ?_⟩
  show ¬ (some "aa".toList = some (toyLib.sha1 [2]))
  decide

/-- today's tail refuses the same script, and installs the package when the first answer is the genuine one -/
theorem impl_tail_refuses_witness :
    runTail toyLib ⟨some "aa".toList, true⟩ none Impl.tail { script := [.broken, .apk ⟨none, [2], [20]⟩] } = .error .fetch ∧
    (∃ e, runTail toyLib ⟨some "aa".toList, true⟩ none Impl.tail { script := [.apk ⟨none, [1], [10]⟩, .apk ⟨none, [2], [20]⟩] }
      = .ok (e, none)) := ⟨rfl, _, rfl⟩

/-- the hypotheses of `guarded_tail_authentic_start` are satisfiable by a tail that fetches twice: one that verifies
the second expansion as well -/
example : guarded false (.fetch .fail (.expand (.fetch .fail (.expand .fail (.verify .fail (.noCache .done .store))))
    (.verify .fail (.noCache .done .store)))) = true := by decide

end Apko.C05Tail
