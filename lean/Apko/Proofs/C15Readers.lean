/-
C15 (readers) — the line readers never index out of range.

Each theorem is stated over the guard lists the extractor regenerates from /repo
(`Generated.lenGuards_*`, `Generated.prefixGuards_*`) and quantifies over EVERY input text (or every
submatch list a regular expression with the regenerated literal can return).  For each reader:

* `tie_sites_*`   the complete list of index / slice expressions of the Go function — the model has one
                  accessor per entry; a new expression in the source breaks the tie;
* `*_no_oob`      the accessor outcome `oob` (= a Go run-time panic) is unreachable;
* `*_of_guard`    the same for any guard list that lets through only long enough slices (what exactly
                  the proof needs from the source), and
* `*_unguarded_oob` a concrete input that panics once the length check is gone.
* `*_refines`     where C16 already has a pattern-matching model of the same reader (passwd, group,
                  permission triples), the checked model computes the same value, so the
                  correspondence run of that model covers this one.
-/
import Apko.Proofs.Lemmas.RobustAcc

namespace Apko.C15R
open Apko Apko.Formats Apko.Robust

/-! ## passwd / group -/

theorem tie_sites_UserParse : Generated.sites_UserParse =
    [("index", "parts", "0"), ("index", "parts", "1"), ("index", "parts", "2"), ("index", "parts", "2"),
     ("index", "parts", "3"), ("index", "parts", "3"), ("index", "parts", "4"), ("index", "parts", "5"),
     ("index", "parts", "6")] := by rfl

theorem tie_sites_GroupParse : Generated.sites_GroupParse =
    [("index", "parts", "0"), ("index", "parts", "1"), ("index", "parts", "2"), ("index", "parts", "2"),
     ("index", "parts", "3"), ("index", "parts", "3")] := by rfl

/-- the loops of `Load`: one scanner loop each, nothing else -/
theorem tie_loops_Load : Generated.loops_UserLoad = [("cond scanner.Scan()", 1)] ∧
    Generated.loops_GroupLoad = [("cond scanner.Scan()", 1)] ∧
    Generated.sites_UserLoad = [] ∧ Generated.sites_GroupLoad = [] := by decide

/-- what the proof needs from the source: only slices with at least `n` elements get past the check -/
def Admits (g : Option LenGuard) (n : Nat) : Prop := ∀ len, passes g len = true → n ≤ len

theorem userGuard : findLen Generated.lenGuards_UserParse "parts" = some ⟨.ne, 7, "return"⟩ := by decide
theorem groupGuard : findLen Generated.lenGuards_GroupParse "parts" = some ⟨.ne, 4, "return"⟩ := by decide

theorem guard_ne (n : Nat) (how : String) (h : how ≠ "then") : Admits (some ⟨.ne, n, how⟩) n := by
  intro len hp
  simp [passes, h, Op.holds] at hp
  omega

theorem userParse_of_guard (gs : GuardList) (h : Admits (findLen gs "parts") 7) (line : Text) :
    userParse gs line ≠ .oob := by
  unfold userParse
  simp only
  split
  · simp
  · next hp =>
    have hl := h _ (by simpa using hp)
    refine idx_bind_ne_oob (by omega) fun _ => idx_bind_ne_oob (by omega) fun _ =>
      idx_bind_ne_oob (by omega) fun _ => ?_
    split
    · simp
    · refine idx_bind_ne_oob (by omega) fun _ => ?_
      split
      · simp
      · exact idx_bind_ne_oob (by omega) fun _ => idx_bind_ne_oob (by omega) fun _ =>
          idx_bind_ne_oob (by omega) fun _ => by simp

/-- T: `UserEntry.Parse` never indexes out of range, on any line -/
theorem userParse_no_oob (line : Text) : userParse Generated.lenGuards_UserParse line ≠ .oob :=
  userParse_of_guard _ (by rw [userGuard]; exact guard_ne 7 _ (by decide)) line

theorem userParse_unguarded_oob : userParse [] "a:b".toList = .oob := by decide

theorem groupParse_of_guard (gs : GuardList) (h : Admits (findLen gs "parts") 4) (line : Text) :
    groupParse gs line ≠ .oob := by
  unfold groupParse
  simp only
  split
  · simp
  · next hp =>
    have hl := h _ (by simpa using hp)
    refine idx_bind_ne_oob (by omega) fun _ => idx_bind_ne_oob (by omega) fun _ =>
      idx_bind_ne_oob (by omega) fun _ => ?_
    split
    · simp
    · exact idx_bind_ne_oob (by omega) fun _ => idx_bind_ne_oob (by omega) fun _ => by simp

/-- T: `GroupEntry.Parse` never indexes out of range -/
theorem groupParse_no_oob (line : Text) : groupParse Generated.lenGuards_GroupParse line ≠ .oob :=
  groupParse_of_guard _ (by rw [groupGuard]; exact guard_ne 4 _ (by decide)) line

theorem groupParse_unguarded_oob : groupParse [] "g:x:1".toList = .oob := by decide

/-- the checked model and C16's pattern-matching model of `UserEntry.Parse` agree on every line -/
theorem userParse_refines (line : Text) :
    userParse Generated.lenGuards_UserParse line = Res.ofOption (parseUser line) := by
  unfold userParse parseUser parseUserWith
  rw [userGuard]
  generalize splitOnChar ':' (trimEOL line) = parts
  match parts with
  | [] | [_] | [_, _] | [_, _, _] | [_, _, _, _] | [_, _, _, _, _] | [_, _, _, _, _, _] =>
    simp [passes, Op.holds, Res.ofOption]
  | [n, pw, uid, gid, info, home, sh] =>
    simp only [passes, Op.holds, idx, Res.bind]
    cases hu : parseIntB 10 uid <;> cases hg : parseIntB 10 gid <;> simp only [Res.ofOption] <;> (repeat' split) <;> simp_all
  | _ :: _ :: _ :: _ :: _ :: _ :: _ :: _ :: _ => simp [passes, Op.holds, Res.ofOption]

theorem groupParse_refines (line : Text) :
    groupParse Generated.lenGuards_GroupParse line = Res.ofOption (parseGroup line) := by
  unfold groupParse parseGroup parseGroupWith
  rw [groupGuard]
  generalize splitOnChar ':' (trimEOL line) = parts
  match parts with
  | [] | [_] | [_, _] | [_, _, _] => simp [passes, Op.holds, Res.ofOption]
  | [n, pw, gid, mem] =>
    simp only [passes, Op.holds, idx, Res.bind]
    cases hg : parseIntB 10 gid <;> simp only [Res.ofOption] <;> (repeat' split) <;> simp_all
  | _ :: _ :: _ :: _ :: _ :: _ => simp [passes, Op.holds, Res.ofOption]

theorem mapAllRes_ofOption {α β : Type} (f : α → Res β) (g : α → Option β)
    (h : ∀ a, f a = Res.ofOption (g a)) (l : List α) :
    mapAllRes f l = Res.ofOption (mapAllOpt g l) := by
  induction l with
  | nil => simp [mapAllRes, mapAllOpt, Res.ofOption]
  | cons a rest ih =>
    simp only [mapAllRes, mapAllOpt, h a, ih]
    cases g a <;> cases mapAllOpt g rest <;> simp [Res.ofOption, Res.bind]

/-- T: `UserFile.Load` / `GroupFile.Load` as checked models compute what C16's models compute, on
every file text — in particular they never panic -/
theorem loadUsers_refines (t : Text) :
    loadRes (userParse Generated.lenGuards_UserParse) t = Res.ofOption (loadUsers t) := by
  unfold loadRes loadUsers loadWith
  simp only [mapAllRes_ofOption _ parseUser userParse_refines]
  cases mapAllOpt parseUser (scanLines defaultTokenMax t).1 <;>
    cases (scanLines defaultTokenMax t).2 <;> simp [Res.ofOption, Res.bind]

theorem loadGroups_refines (t : Text) :
    loadRes (groupParse Generated.lenGuards_GroupParse) t = Res.ofOption (loadGroups t) := by
  unfold loadRes loadGroups loadWith
  simp only [mapAllRes_ofOption _ parseGroup groupParse_refines]
  cases mapAllOpt parseGroup (scanLines defaultTokenMax t).1 <;>
    cases (scanLines defaultTokenMax t).2 <;> simp [Res.ofOption, Res.bind]

theorem loadUsers_no_oob (t : Text) : loadRes (userParse Generated.lenGuards_UserParse) t ≠ .oob := by
  rw [loadUsers_refines]; exact ofOption_ne_oob _

theorem loadGroups_no_oob (t : Text) : loadRes (groupParse Generated.lenGuards_GroupParse) t ≠ .oob := by
  rw [loadGroups_refines]; exact ofOption_ne_oob _

/-! ## os-release -/

/-- `readReleaseData` has no index or slice expression at all: the only bracket expressions are reads of
and one write to the map made two lines above the loop; the comment test is a prefix test; one scanner
loop -/
theorem tie_sites_readReleaseData : Generated.sites_readReleaseData =
    [("mapwrite", "kv", "before"), ("map", "kv", "\"ID\""), ("map", "kv", "\"NAME\""),
     ("map", "kv", "\"PRETTY_NAME\""), ("map", "kv", "\"VERSION_ID\"")] ∧
    Generated.prefixGuards_readReleaseData = [("line", "#", "continue")] ∧
    Generated.loops_readReleaseData = [("cond scanner.Scan()", 1)] := by decide

/-- T: the os-release reader is total and never panics (it has nothing that could) -/
theorem readRelease_no_oob (pgs : PrefixList) (t : Text) : readRelease pgs t ≠ .oob := by
  unfold readRelease
  simp only
  split
  · simp
  · split <;> simp

/-- `strings.Trim(v, "\"")` of a value that is nothing but quotes is empty — no `v[1:len(v)-1]` anywhere -/
theorem trimQuotes_only_quotes (n : Nat) : trimQuotes (List.replicate n '"') = [] := by
  have h : (List.replicate n '"').dropWhile (· = '"') = [] := by
    induction n with
    | zero => rfl
    | succ n ih => simp [List.replicate_succ, ih]
  simp [trimQuotes, h]

/-! ## .PKGINFO lines: `controlValue`, `datahash` -/

theorem tie_sites_controlValue : Generated.sites_controlValue =
    [("index", "parts", "0"), ("map", "mapping", "key"), ("index", "parts", "1"),
     ("mapwrite", "mapping", "key")] ∧
    Generated.loops_controlValue = [("forever", 4), ("range lines", 0)] := by decide

theorem controlGuard : findLen Generated.lenGuards_controlValue "parts" = some ⟨.ne, 2, "continue"⟩ := by decide

theorem controlLine_of_guard (gs : GuardList) (h : Admits (findLen gs "parts") 2) (want : List Text)
    (line : Text) : controlLine gs want line ≠ .oob := by
  unfold controlLine
  simp only
  split
  · split <;> simp
  · next hp =>
    have hl := h _ (by simpa using hp)
    refine idx_bind_ne_oob (by omega) fun _ => ?_
    split
    · simp
    · exact idx_bind_ne_oob (by omega) fun _ => by simp

/-- T: the key=value loop of `controlValue` never indexes out of range, on any .PKGINFO text -/
theorem controlValues_no_oob (want : List Text) (t : Text) :
    controlValues Generated.lenGuards_controlValue want t ≠ .oob := by
  unfold controlValues
  refine bind_ne_oob (mapAllRes_ne_oob _ (fun l => ?_) _) (fun _ => by simp)
  exact controlLine_of_guard _ (by rw [controlGuard]; exact guard_ne 2 _ (by decide)) want l

theorem controlValues_unguarded_oob : controlValues [] ["datahash".toList] "datahash".toList = .oob := by
  decide

theorem tie_sites_datahash : Generated.sites_datahash = [("index", "values", "0")] ∧
    Generated.sites_apkControlValue = [("index", "mapping", "want")] := by decide

theorem datahashGuard : findLen Generated.lenGuards_datahash "values" = some ⟨.ne, 1, "return"⟩ := by decide

/-- T: `datahash` takes `values[0]` only of a one-element slice -/
theorem datahashOf_no_oob (values : List Text) : datahashOf Generated.lenGuards_datahash values ≠ .oob := by
  unfold datahashOf
  rw [datahashGuard]
  split
  · simp
  · next hp =>
    have : values.length = 1 := by simpa [passes, Op.holds] using hp
    exact idx_ne_oob (by omega)

theorem datahashOf_unguarded_oob : datahashOf [] ([] : List Text) = .oob := by decide

/-! ## permission triples -/

theorem tie_sites_parseInstalledPerms : Generated.sites_parseInstalledPerms =
    [("index", "permParts", "0"), ("index", "permParts", "1"), ("index", "permParts", "2")] := by rfl

theorem permsGuard :
    findLen Generated.lenGuards_parseInstalledPerms "permParts" = some ⟨.ne, 3, "return"⟩ := by decide

/-- T: the checked model of `parseInstalledPerms` computes what C16's `parsePerms` computes (which the
installed-db correspondence exercises), on every text -/
theorem installedPerms_refines (val : Text) :
    installedPerms Generated.lenGuards_parseInstalledPerms val = Res.ofOption (parsePerms val) := by
  unfold installedPerms parsePerms
  rw [permsGuard]
  generalize splitOnChar ':' val = parts
  match parts with
  | [] | [_] | [_, _] => simp [passes, Op.holds, Res.ofOption]
  | [a, b, m] =>
    simp only [passes, Op.holds, idx, Res.bind]
    cases ha : parseIntB 10 a <;> cases hb : parseIntB 10 b <;> cases hm : parseIntB 8 m <;>
      simp only [Res.ofOption] <;> (repeat' split) <;> simp_all
  | _ :: _ :: _ :: _ :: _ => simp [passes, Op.holds, Res.ofOption]

theorem installedPerms_no_oob (val : Text) :
    installedPerms Generated.lenGuards_parseInstalledPerms val ≠ .oob := by
  rw [installedPerms_refines]; exact ofOption_ne_oob _

theorem installedPerms_unguarded_oob : installedPerms [] "0:0".toList = .oob := by decide

/-! ## `strings.Fields`, world, repositories lines -/

theorem fieldsAux_nonempty (skip : Nat) (cur t : Text) :
    ∀ f ∈ fieldsAux skip cur t, f ≠ [] := by
  induction t generalizing skip cur with
  | nil =>
    intro f hf
    simp only [fieldsAux] at hf
    split at hf
    · simp at hf
    · next hc => simp at hf; subst hf; simpa using hc
  | cons c cs ih =>
    intro f hf
    cases skip with
    | succ k => simp only [fieldsAux] at hf; exact ih _ _ f hf
    | zero =>
      simp only [fieldsAux] at hf
      split at hf
      · split at hf
        · exact ih _ _ f hf
        · next hc =>
          rcases List.mem_cons.mp hf with h | h
          · subst h; simpa using hc
          · exact ih _ _ f h
      · exact ih _ _ f hf

/-- `strings.Fields` never returns an empty field -/
theorem fields_nonempty (t : Text) : ∀ f ∈ fields t, f ≠ [] := fieldsAux_nonempty 0 [] t

theorem tie_sites_GetRepositoryIndexes : Generated.sites_GetRepositoryIndexes =
    [("slice", "parts[0]", "1:"), ("index", "parts", "0"), ("index", "parts", "1"),
     ("write", "indexes", "i")] ∧
    Generated.prefixGuards_GetRepositoryIndexes = [("repo", "@", "then")] ∧
    Generated.loops_GetRepositoryIndexes = [("range options", 0), ("range repos", 0)] := by decide

theorem repoGuard :
    findLen Generated.lenGuards_GetRepositoryIndexes "parts" = some ⟨.lt, 2, "return"⟩ := by decide

theorem guard_lt (n : Nat) (how : String) (h : how ≠ "then") : Admits (some ⟨.lt, n, how⟩) n := by
  intro len hp
  simp [passes, h, Op.holds] at hp
  omega

theorem repoLine_of_guard (gs : GuardList) (pgs : PrefixList) (h : Admits (findLen gs "parts") 2)
    (repo : Text) : repoLine gs pgs repo ≠ .oob := by
  unfold repoLine
  simp only
  cases isTagged pgs repo
  · simp
  · simp only [Bool.not_true, Bool.false_eq_true, if_false]
    split
    · simp
    · next hp =>
      have hl := h _ (by simpa using hp)
      rw [idx_ok (show 0 < (fields repo).length by omega)]
      simp only [Res.bind]
      have hne : (fields repo)[0] ≠ [] := fields_nonempty repo _ (List.getElem_mem _)
      have hlen : 1 ≤ ((fields repo)[0]).length := by
        cases hx : (fields repo)[0] with
        | nil => exact absurd hx hne
        | cons _ _ => simp
      refine bind_ne_oob (sliceFrom_ne_oob hlen) fun _ => idx_bind_ne_oob (by omega) fun _ => by simp

/-- T: the `@tag url` split of a repositories line never indexes out of range: `parts[0][1:]` is in range
because `strings.Fields` returns no empty field, `parts[1]` because of the length check -/
theorem repoLine_no_oob (repo : Text) :
    repoLine Generated.lenGuards_GetRepositoryIndexes Generated.prefixGuards_GetRepositoryIndexes repo ≠ .oob :=
  repoLine_of_guard _ _ (by rw [repoGuard]; exact guard_lt 2 _ (by decide)) repo

theorem repoLine_unguarded_oob : repoLine [] [("repo", "@", "then")] "@edge".toList = .oob := by decide

/-- world and repositories files: no index expression, one scanner loop -/
theorem tie_sites_world : Generated.sites_GetWorld = [] ∧ Generated.loops_GetWorld = [] ∧
    Generated.sites_GetRepositories = [] ∧
    Generated.loops_GetRepositories = [("cond scanner.Scan()", 0)] := by decide

/-! ## slices behind a prefix test -/

theorem tie_sites_prefix :
    Generated.sites_constrain.filter (fun s => s.1 = "slice" || s.1 = "index") =
      [("slice", "constraint", "1:"), ("index", "p.nameMap", "parsed.Name")] ∧
    Generated.prefixGuards_constrain = [("constraint", "!", "continue")] ∧
    Generated.sites_getPackageDependencies.filter (fun s => s.1 = "slice" || s.1 = "index") =
      [("slice", "dep", "1:"), ("index", "p.selected", "name"), ("index", "p.nameMap", "name")] ∧
    Generated.prefixGuards_getPackageDependencies = [("dep", "!", "continue")] ∧
    Generated.sites_cachedPackage = [("slice", "chk", "2:"), ("slice", "signatureHash", ":")] ∧
    Generated.prefixGuards_cachedPackage = [("chk", "Q1", "!return")] := by decide

/-- T: `constraint[1:]`, `dep[1:]` (behind `HasPrefix(x, "!")`) and `chk[2:]` (behind `HasPrefix(chk, "Q1")`)
are in range for every string: the tested literal is as long as the offset -/
theorem constrain_slice_no_oob (c : Text) :
    prefixSlice (findPrefix Generated.prefixGuards_constrain "constraint") 1 c ≠ some .oob := by
  have : findPrefix Generated.prefixGuards_constrain "constraint" = some ("!".toList, "continue") := by decide
  rw [this]; exact prefixSlice_ne_oob _ _ _ _ (by decide)

theorem dependency_slice_no_oob (d : Text) :
    prefixSlice (findPrefix Generated.prefixGuards_getPackageDependencies "dep") 1 d ≠ some .oob := by
  have : findPrefix Generated.prefixGuards_getPackageDependencies "dep" = some ("!".toList, "continue") := by
    decide
  rw [this]; exact prefixSlice_ne_oob _ _ _ _ (by decide)

theorem checksum_slice_no_oob (chk : Text) :
    prefixSlice (findPrefix Generated.prefixGuards_cachedPackage "chk") 2 chk ≠ some .oob := by
  have : findPrefix Generated.prefixGuards_cachedPackage "chk" = some ("Q1".toList, "!return") := by decide
  rw [this]; exact prefixSlice_ne_oob _ _ _ _ (by decide)

/-- a locked package whose checksum is one byte long would panic in `chk[2:]` without the prefix test -/
theorem checksum_slice_unguarded_oob : prefixSlice none 2 "Q".toList = some .oob := by decide

end Apko.C15R
