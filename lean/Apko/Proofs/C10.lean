/-
C10 — A multi-layer image flattens to the single-layer image.

Property theorems only.  The model is `Apko/Model/Layers.lean` (the same definitions the driver
executes): `groupByOriginAndSize` with the four Go map iteration orders as adversarial
parameters, `replacesGroup`, `merge`, the (size, tiebreaker) sort, the budget cut, and
`splitLayers` over an abstract walk with the main directory stack, `alignStacks`, the ModTime
overwrite and the top layer last.  Full-strength statements are the `Prop`s of
`Proofs/Lemmas/LayersStmt.lean`; helper lemmas live in `Proofs/Lemmas/Layers*.lean`.

Parameters / trusted: `archive/tar` and gzip byte encodings, `fs.WalkDir` (its preorder property
is the hypothesis `WellNested`, checked on every real walk by the driver), the version model of
C03 for the version-checked replaces edge.
-/
import Apko.Generated.Layers
import Apko.Proofs.Lemmas.LayersStmt
import Apko.Proofs.Lemmas.LayersFinish
import Apko.Proofs.Lemmas.LayersNested
import Apko.Proofs.Lemmas.LayersSplit
import Apko.Proofs.Lemmas.LayersGlue

namespace Apko.C10
open Apko Apko.Layers Apko.C10.Split

/-! ## ties to the source text of pkg/build/layers.go, tarball.go, tarfs/fs.go (regenerated on every run)

The model was written against exactly these statements; an edit to any of them breaks the tie
and sends the check to the oracle search. -/

theorem tie_stmts_merge : Generated.stmts_merge =
    ["merged := &group{}",
  "for _, g := range groups { merged.pkgs = slices.Concat(merged.pkgs, g.pkgs) merged.size += g.size merged.tiebreaker = max(merged.tiebreaker, g.tiebreaker) }",
  "return merged"] := rfl

theorem tie_stmts_replacesGroup : Generated.stmts_replacesGroup =
    ["constraint := apk.ResolvePackageNameVersionPin(rep)",
  "for _, pkg := range g.pkgs { if pkg.Name != constraint.Name { continue } ver, err := apk.ParseVersion(pkg.Version) if err != nil { return false, fmt.Errorf(\"parsing %s version %s: %w\", pkg.Name, pkg.Version, err) } ok, err := constraint.SatisfiedBy(ver) if err != nil { return false, fmt.Errorf(\"checking %s satisfies %s: %w\", pkg.Version, constraint.Name, err) } if ok { return true, nil } }",
  "return false, nil"] := rfl

theorem tie_stmts_alignStacks : Generated.stmts_alignStacks =
    ["for i := 0; i < max(len(w.stack), len(stack)); i++ { if i >= len(stack) { w.stack = w.stack[:i] return nil } if i < len(w.stack) && w.stack[i] == stack[i] { continue } w.stack = w.stack[:i] w.stack = append(w.stack, stack[i:]...) return w.stack[i:] }",
  "return nil"] := rfl

theorem tie_stmts_buildLayers : Generated.stmts_buildLayers =
    ["log := clog.FromContext(ctx)",
  "if strategy := bc.ic.Layering.Strategy; strategy != \"origin\" { return nil, fmt.Errorf(\"unrecognized layering strategy %q\", strategy) }",
  "if bc.ic.Contents.BaseImage != nil { return nil, fmt.Errorf(\"layering with %q is unsupported\", \"baseimage\") }",
  "pkgs, err := bc.buildImage(ctx)",
  "if err != nil { return nil, fmt.Errorf(\"building filesystem: %w\", err) }",
  "if err := bc.postBuildSetApk(ctx); err != nil { return nil, err }",
  "groups, err := groupByOriginAndSize(pkgs, bc.ic.Layering.Budget)",
  "if err != nil { return nil, fmt.Errorf(\"grouping packages: %w\", err) }",
  "log.Infof(\"Building %d layers with budget %d\", len(groups), bc.ic.Layering.Budget)",
  "for i, g := range groups { log.Infof(\" layer[%d]:\", i) for _, pkg := range g.pkgs { log.Infof(\" - %s=%s\", pkg.Name, pkg.Version) } }",
  "return splitLayers(ctx, bc.fs, groups, bc.o.TempDir())"] := rfl

theorem tie_groupBudgetGuard : Generated.groupBudgetGuard =
    "if budget < 0 { return nil, fmt.Errorf(\"invalid layering budget %d: must not be negative\", budget) }" := rfl

theorem tie_groupFirstLoop : Generated.groupFirstLoop =
    "for _, pkg := range pkgs { origin := pkg.Origin if _, ok := byOrigin[origin]; !ok { byOrigin[origin] = &group{} } g, ok := byOrigin[origin] if !ok { panic(fmt.Errorf(\"byOrigin[%q] missing\", origin)) } g.pkgs = append(g.pkgs, pkg) }" := rfl

theorem tie_groupByPackageLoop : Generated.groupByPackageLoop =
    "for _, g := range byOrigin { for _, pkg := range g.pkgs { byPackage[pkg.Name] = g } }" := rfl

theorem tie_groupReplaceMapLoop : Generated.groupReplaceMapLoop =
    "for _, g := range byPackage { for _, pkg := range g.pkgs { if len(pkg.Replaces) == 0 { continue } replaceMap[pkg.Name] = pkg.Replaces } }" := rfl

theorem tie_groupMergeLoop : Generated.groupMergeLoop =
    "for pkg, replaces := range replaceMap { for _, rep := range replaces { constraint := apk.ResolvePackageNameVersionPin(rep) replacee, ok := byPackage[constraint.Name] if !ok { continue } if ok, err := replacesGroup(rep, replacee); err != nil { return nil, fmt.Errorf(\"checking %s replaces %s: %w\", pkg, constraint.Name, err) } else if !ok { continue } g, ok := byPackage[pkg] if !ok { panic(fmt.Errorf(\"byPackage[%q] missing\", pkg)) } if replacee == g { continue } merged := merge(g, replacee) for _, pkg := range merged.pkgs { byPackage[pkg.Name] = merged byOrigin[pkg.Origin] = merged } } }" := rfl

theorem tie_groupMake : Generated.groupMake =
    "groups := make([]*group, 0, budget)" := rfl

theorem tie_groupCollectLoop : Generated.groupCollectLoop =
    "for v := range maps.Values(byOrigin) { if _, ok := seen[v]; ok { continue } seen[v] = struct{}{} groups = append(groups, v) }" := rfl

theorem tie_groupSizeLoop : Generated.groupSizeLoop =
    "for _, g := range groups { for _, pkg := range g.pkgs { g.size += pkg.InstalledSize g.tiebreaker = max(g.tiebreaker, pkg.Name) } }" := rfl

theorem tie_groupSort : Generated.groupSort =
    "slices.SortFunc(groups, func(a, b *group) int { return cmp.Or( cmp.Compare(b.size, a.size), cmp.Compare(a.tiebreaker, b.tiebreaker)) })" := rfl

theorem tie_groupCut : Generated.groupCut =
    "if len(groups) > budget { cutoff := max(budget-1, 0) remainder := groups[cutoff:] groups = groups[:cutoff] groups = append(groups, merge(remainder...)) }" := rfl

theorem tie_groupSortPkgs : Generated.groupSortPkgs =
    "slices.SortFunc(g.pkgs, func(a, b *apk.Package) int { return cmp.Compare(a.Name, b.Name) })" := rfl

theorem tie_splitWriterLoop : Generated.splitWriterLoop =
    "for _, g := range groups { f, err := os.CreateTemp(tmpdir, \"layer-*.tar.gz\") if err != nil { return nil, err } defer f.Close() w := newLayerWriter(f) groupToWriter[g] = w for _, pkg := range g.pkgs { packageToWriter[pkg.Name] = w } }" := rfl

theorem tie_splitMainStack : Generated.splitMainStack =
    "if f.header.Typeflag == tar.TypeDir { for i := len(stack) - 1; i >= 0; i-- { if stack[i].path == path.Dir(f.path) { break } stack = stack[:i] } stack = append(stack, f) }" := rfl

theorem tie_splitDefaultWriter : Generated.splitDefaultWriter =
    "w := top" := rfl

theorem tie_splitOwner : Generated.splitOwner =
    "if pkger, ok := f.info.(interface { Package() *apk.Package }); ok { if pkg := pkger.Package(); pkg != nil { w, ok = packageToWriter[pkg.Name] if !ok { panic(fmt.Errorf(\"packageToWriter[%q] missing\", pkg.Name)) } } }" := rfl

theorem tie_splitTodoLoop : Generated.splitTodoLoop =
    "for _, todo := range w.alignStacks(stack) { if todo.header == f.header { continue } todo.header.ModTime = f.header.ModTime if err := w.w.WriteHeader(todo.header); err != nil { return nil, fmt.Errorf(\"writing header %s: %w\", todo.header.Name, err) } }" := rfl

theorem tie_splitWriteSelf : Generated.splitWriteSelf =
    "if err := w.w.WriteHeader(f.header); err != nil { return nil, fmt.Errorf(\"writing header %s: %w\", f.header.Name, err) }" := rfl

theorem tie_splitTail : Generated.splitTail =
    ["layers := make([]v1.Layer, 0, len(groups)+1)",
  "for i, g := range groups { w := groupToWriter[g] l, err := w.finalize() if err != nil { return nil, fmt.Errorf(\"finalizing group[%d] layer: %w\", i, err) } layers = append(layers, l) }",
  "topLayer, err := top.finalize()",
  "if err != nil { return nil, fmt.Errorf(\"finalizing top layer: %w\", err) }",
  "layers = append(layers, topLayer)",
  "return layers, nil"] := rfl

theorem tie_writeTarLoop : Generated.writeTarLoop =
    "for f, err := range walkFS(ctx, fsys) { if err != nil { return err } if err := tw.WriteHeader(f.header); err != nil { return err } if f.info.Mode().IsRegular() && f.header.Size > 0 { data, err := fsys.Open(f.path) if err != nil { return err } defer data.Close() if _, err := io.CopyBuffer(tw, data, buf); err != nil { return err } } }" := rfl

theorem tie_walkSkipRoot : Generated.walkSkipRoot =
    "if path == \".\" { return nil }" := rfl

theorem tie_stmts_Package : Generated.stmts_Package =
    ["if m.node.te == nil { return nil }",
  "return m.node.te.pkg"] := rfl

/-! ## grouping -/

/-- T groups_partition: every package is in exactly one group (the groups, concatenated, are a
permutation of the input), for every choice of the four map iteration orders. -/
theorem groups_partition (pkgs : List LPkg) (budget : Int) (o1 o2 o3 o4 : Order) (gs : List Grp)
    (hu : (pkgs.map (·.name)).Nodup)
    (ho1 : ∀ l, (o1 l).Perm l) (ho2 : ∀ l, (o2 l).Perm l) (ho3 : ∀ l, (o3 l).Perm l)
    (ho4 : ∀ l, (o4 l).Perm l)
    (h : groupByOriginAndSize pkgs budget o1 o2 o3 o4 = .ok gs) :
    (gs.flatMap (·.pkgs)).Perm pkgs :=
  groupsPartition pkgs budget o1 o2 o3 o4 gs hu ho1 ho2 ho3 ho4 h

/-- T groups_closed: same origin ⇒ same group; `a` replaces `b` (version-checked exactly as
`replacesGroup` does) ⇒ same group.  Packages sharing an origin or related by replaces are
never split across layers. -/
theorem groups_closed (pkgs : List LPkg) (budget : Int) (o1 o2 o3 o4 : Order) (gs : List Grp)
    (hu : (pkgs.map (·.name)).Nodup)
    (ho1 : ∀ l, (o1 l).Perm l) (ho2 : ∀ l, (o2 l).Perm l) (ho3 : ∀ l, (o3 l).Perm l)
    (ho4 : ∀ l, (o4 l).Perm l)
    (h : groupByOriginAndSize pkgs budget o1 o2 o3 o4 = .ok gs)
    (a : LPkg) (ha : a ∈ pkgs) (b : LPkg) (hb : b ∈ pkgs)
    (hab : a.origin = b.origin ∨ replacesEdge pkgs a b = true) :
    sameGroup gs a b = true :=
  groupsClosed pkgs budget o1 o2 o3 o4 gs hu ho1 ho2 ho3 ho4 h a ha b hb hab

/-- T group_perm_invariant: groups, their order, the order inside each group, and the error /
panic outcome are independent of the four map iteration orders (also used by C01). -/
theorem group_perm_invariant (pkgs : List LPkg) (budget : Int)
    (o1 o2 o3 o4 o1' o2' o3' o4' : Order) (hu : (pkgs.map (·.name)).Nodup)
    (ho1 : ∀ l, (o1 l).Perm l) (ho2 : ∀ l, (o2 l).Perm l) (ho3 : ∀ l, (o3 l).Perm l)
    (ho4 : ∀ l, (o4 l).Perm l) (ho1' : ∀ l, (o1' l).Perm l) (ho2' : ∀ l, (o2' l).Perm l)
    (ho3' : ∀ l, (o3' l).Perm l) (ho4' : ∀ l, (o4' l).Perm l) :
    groupByOriginAndSize pkgs budget o1 o2 o3 o4 =
      groupByOriginAndSize pkgs budget o1' o2' o3' o4' :=
  groupPermInvariant pkgs budget o1 o2 o3 o4 o1' o2' o3' o4' hu ho1 ho2 ho3 ho4 ho1' ho2' ho3' ho4'

/-- the outcome is an error exactly when the budget is negative or a replaces entry naming a
present package cannot be evaluated; the function never panics -/
theorem group_outcome_characterised (pkgs : List LPkg) (budget : Int) (o1 o2 o3 o4 : Order)
    (hu : UniqueNames pkgs) (ho1 : IsPerm o1) (ho2 : IsPerm o2) (ho3 : IsPerm o3) :
    (groupByOriginAndSize pkgs budget o1 o2 o3 o4 = .err ↔
      (budget < 0 ∨ replacesError pkgs = true)) ∧
    groupByOriginAndSize pkgs budget o1 o2 o3 o4 ≠ .panic :=
  group_outcome hu ho1 ho2 ho3

/-- two packages end up in the same group of the merge loop iff they are connected by
origin / version-checked replaces edges: the groups before the budget cut are exactly the
connected components -/
theorem groups_are_components {pkgs : List LPkg} {o1 o2 o3 : Order} {st4 : GState}
    (hu : UniqueNames pkgs) (ho1 : IsPerm o1) (ho2 : IsPerm o2) (ho3 : IsPerm o3)
    (hs : phase4 o3 (phase3 o2 (phase2 o1 (phase1 pkgs))) (phase2 o1 (phase1 pkgs)) = .ok st4)
    {a b : LPkg} (ha : a ∈ pkgs) (hb : b ∈ pkgs) : Share st4 a b ↔ Conn pkgs a b :=
  share_iff_conn_st4 hu ho1 ho2 ho3 hs ha hb

/-- the hypotheses are satisfiable: reversing is a permutation, and a package set with a shared
origin and a satisfied versioned replaces edge has unique names and groups without error -/
example : IsPerm List.reverse := fun l => List.reverse_perm l
def exPkgs : List LPkg :=
  let t (s : String) : Text := s.toList
  [⟨t "glibc", t "glibc", t "2.38-r14", [], 100⟩, ⟨t "libcrypt1", t "glibc", t "2.38-r14", [], 5⟩,
   ⟨t "libxcrypt", t "libxcrypt", t "4.4", [t "libcrypt1<2.38-r15"], 7⟩, ⟨t "crane", t "crane", t "1", [], 7⟩]
example : UniqueNames exPkgs ∧ replacesError exPkgs = false ∧
    replacesEdge exPkgs (exPkgs.getD 2 default) (exPkgs.getD 1 default) = true := by
  refine ⟨by unfold UniqueNames; decide, by decide, by decide⟩


/-- T group_count: at most `max budget 1` groups, for every input and all four map orders
(hence at most `max budget 1 + 1` layers). -/
theorem group_count (pkgs : List LPkg) (budget : Int) (o1 o2 o3 o4 : Order) (gs : List Grp)
    (h : groupByOriginAndSize pkgs budget o1 o2 o3 o4 = .ok gs) :
    gs.length ≤ max budget.toNat 1 :=
  groupCount pkgs budget o1 o2 o3 o4 gs h

/-- for a budget of at least 1 the layer count (groups + top) never exceeds budget + 1 -/
theorem layer_count_le_budget_succ (pkgs : List LPkg) (budget : Int) (o1 o2 o3 o4 : Order)
    (gs : List Grp) (hb : 1 ≤ budget)
    (h : groupByOriginAndSize pkgs budget o1 o2 o3 o4 = .ok gs) :
    gs.length + 1 ≤ budget.toNat + 1 := groupCount_pos pkgs budget o1 o2 o3 o4 gs hb h

/-- the bound demanded by the property text (`groups ≤ budget`, i.e. layers ≤ budget + top) -/
def GroupCountSpec : Prop :=
  ∀ (pkgs : List LPkg) (budget : Int) (o1 o2 o3 o4 : Order) (gs : List Grp), 0 ≤ budget →
    groupByOriginAndSize pkgs budget o1 o2 o3 o4 = .ok gs → gs.length ≤ budget.toNat

/-- what holds of today's code: the bound for every budget ≥ 1 … -/
theorem group_count_spec_partial (pkgs : List LPkg) (budget : Int) (o1 o2 o3 o4 : Order)
    (gs : List Grp) (hb : 1 ≤ budget)
    (h : groupByOriginAndSize pkgs budget o1 o2 o3 o4 = .ok gs) : gs.length ≤ budget.toNat := by
  have := groupCount pkgs budget o1 o2 o3 o4 gs h
  omega

def f10aPkg : LPkg := ⟨['a'], ['a'], ['1'], [], 1⟩

/-- … and F10a: budget 0 with a non-empty package set yields one group, i.e. two layers (the
code comment calls it intentional: "Even if budget == 0, we want 1 group"). -/
theorem group_count_spec_fails_at_zero : ¬ GroupCountSpec := by
  intro h
  have hw : groupByOriginAndSize [f10aPkg] 0 id id id id = .ok [⟨[f10aPkg], 1, ['a']⟩] := by
    simp [groupByOriginAndSize, phase1, phase2, phase3, phase4, addPkg, aget, aset, akeys,
      GState.grp, f10aPkg, foldRes, Res.bind, finish, collect, dedupNat, cutGroups, mkGrp,
      mergeGrps, sortPkgs, addU64, tmax, u64]
  have := h [f10aPkg] 0 id id id id _ (by decide) hw
  simp at this

/-- F10b (repaired): a negative budget is rejected with an error, for every input — it used to
panic in `make([]*group, 0, budget)`; negative budgets are outside the property's quantifier. -/
theorem negative_budget_rejected (pkgs : List LPkg) (budget : Int) (o1 o2 o3 o4 : Order)
    (hb : budget < 0) : groupByOriginAndSize pkgs budget o1 o2 o3 o4 = .err := by
  unfold groupByOriginAndSize
  rw [if_pos hb]

/-- inside every group the packages are sorted by name, for every input -/
theorem group_sorted (pkgs : List LPkg) (budget : Int) (o1 o2 o3 o4 : Order) (gs : List Grp)
    (h : groupByOriginAndSize pkgs budget o1 o2 o3 o4 = .ok gs) :
    ∀ g ∈ gs, g.pkgs.Pairwise (fun a b => a.name ≤ b.name) := by
  obtain ⟨_, st4, _, rfl⟩ := ok_shape_raw h
  exact fun g hg => finishRaw_sorted _ _ g hg

/-! ## splitting -/

/-- `alignStacks` in closed form: the layer's stack becomes the main stack, and what is returned
is the main stack minus the longest common prefix -/
theorem alignStacks_closed (ws : List Path) (stack : List WEntry) :
    alignStacks ws stack = (stack.map (·.path), stack.drop (lcp ws stack)) :=
  alignStacks_eq ws stack

/-- T file_once -/
theorem file_once (layerOf : Text → Nat) (n : Nat) (walk : List WEntry)
    (hw : WalkOK walk) (ht : TargetsOK layerOf n walk)
    (f : WEntry) (hf : f ∈ walk) (hd : f.isDir = false) (k : Nat) (hk : k ≤ n) :
    ((splitOuts layerOf n walk).getD k []).filter (fun e => e.path = f.path) =
      if k = target layerOf n f then [f.toEntry] else [] :=
  fileOnce layerOf n walk hw ht f hf hd k hk

/-- T layer_wellformed -/
theorem layer_wellformed (layerOf : Text → Nat) (n : Nat) (walk : List WEntry)
    (hw : WalkOK walk) (ht : TargetsOK layerOf n walk) :
    ∀ L ∈ splitOuts layerOf n walk, Layers.layerWellFormed L = true :=
  Split.layerWellFormed layerOf n walk hw ht

/-- T top_has_true_dirs -/
theorem top_has_true_dirs (layerOf : Text → Nat) (n : Nat) (walk : List WEntry)
    (hw : WalkOK walk) (ht : TargetsOK layerOf n walk) (hdu : DirsUnowned walk)
    (hob : OwnersBelow layerOf n walk) :
    (splitOuts layerOf n walk).getD n [] =
      (walk.filter (fun f => f.owner.isNone)).map (·.toEntry) :=
  topHasTrueDirs layerOf n walk hw ht hdu hob

/-- T flatten_eq_single -/
theorem flatten_eq_single (layerOf : Text → Nat) (n : Nat) (walk : List WEntry)
    (hw : WalkOK walk) (ht : TargetsOK layerOf n walk) (hdu : DirsUnowned walk) (p : Path) :
    lastFor (splitOuts layerOf n walk).flatten p = lastFor (singleLayer walk) p :=
  flattenEqSingle layerOf n walk hw ht hdu p

/-- the preorder property of `fs.WalkDir` (stated without the stack) gives the stack condition
under which the splitting theorems are proved -/
theorem wellNested_stackOK (walk : List WEntry) (hnd : (walk.map (·.path)).Nodup)
    (hne : ∀ f ∈ walk, f.path ≠ []) (hwn : WellNested walk = true) : StackOK walk = true :=
  wellNestedStackOK walk hnd hne hwn

theorem layerOfGroups_fold_lt (N : Nat) (l : List (List Text × Nat)) (name : Text)
    (acc : Option Nat) (hl : ∀ x ∈ l, x.2 < N) (ha : ∀ i, acc = some i → i < N) :
    ∀ i, l.foldl (fun acc (x : List Text × Nat) => if name ∈ x.1 then some x.2 else acc) acc
      = some i → i < N := by
  induction l generalizing acc with
  | nil => simpa using ha
  | cons x l ih =>
    simp only [List.foldl_cons]
    apply ih
    · intro y hy; exact hl y (List.mem_cons_of_mem _ hy)
    · intro i hi
      split at hi
      · cases hi; exact hl x List.mem_cons_self
      · exact ha i hi

/-- `packageToWriter` only holds group writers -/
theorem layerOfGroups_lt (groups : List (List Text)) (name : Text) (i : Nat)
    (h : layerOfGroups groups name = some i) : i < groups.length := by
  unfold layerOfGroups at h
  refine layerOfGroups_fold_lt groups.length groups.zipIdx name none ?_ (by simp) i h
  intro x hx
  have := List.mem_zipIdx hx
  omega

/-- The property for `splitLayers` as the driver runs it (writers taken from the groups): for a
preorder walk with distinct paths and unowned directories, whenever no owner is missing
(no panic) there are `groups.length + 1` layers, every layer is well formed, every
non-directory is in exactly one layer (its owner's group's, or top), the top layer is the
unowned entries with their true headers, and extracting the layers in order gives for every
path exactly the entry of the single-layer tar. -/
theorem splitLayers_sound (groups : List (List Text)) (walk : List WEntry) (ls : List (List Entry))
    (hnd : (walk.map (·.path)).Nodup) (hne : ∀ f ∈ walk, f.path ≠ [])
    (hwn : WellNested walk = true) (hdu : DirsUnowned walk)
    (h : splitLayers groups walk = some ls) :
    ls.length = groups.length + 1 ∧
    (∀ L ∈ ls, Layers.layerWellFormed L = true) ∧
    (∀ f ∈ walk, f.isDir = false → ∀ k, k ≤ groups.length →
      (ls.getD k []).filter (fun e => e.path = f.path) =
        if k = target (fun p => (layerOfGroups groups p).getD 0) groups.length f
        then [f.toEntry] else []) ∧
    ls.getD groups.length [] = (walk.filter (fun f => f.owner.isNone)).map (·.toEntry) ∧
    (∀ p, lastFor ls.flatten p = lastFor (singleLayer walk) p) := by
  have hw : WalkOK walk := ⟨hnd, hne, wellNestedStackOK walk hnd hne hwn⟩
  unfold splitLayers at h
  split at h
  · next hall =>
    cases h
    have hob : OwnersBelow (fun p => (layerOfGroups groups p).getD 0) groups.length walk := by
      intro f hf p hp
      have := List.all_eq_true.mp hall f hf
      simp only [hp] at this
      obtain ⟨i, hi⟩ := Option.isSome_iff_exists.mp this
      simp only [hi, Option.getD_some]
      exact layerOfGroups_lt groups p i hi
    have hto : TargetsOK (fun p => (layerOfGroups groups p).getD 0) groups.length walk := by
      intro f hf
      unfold target
      cases ho : f.owner with
      | none => simp
      | some p => have := hob f hf p ho; simp only at this ⊢; omega
    refine ⟨?_, Split.layerWellFormed _ _ walk hw hto, fileOnce _ _ walk hw hto,
      topHasTrueDirs _ _ walk hw hto hdu hob, flattenEqSingle _ _ walk hw hto hdu⟩
    simp [splitOuts, (inv_final _ groups.length walk hw).len]
  · cases h

theorem layerOfGroups_fold_spec (all l : List (List Text × Nat)) (name : Text) (acc : Option Nat)
    (hl : ∀ x ∈ l, x ∈ all) (ha : ∀ i, acc = some i → ∃ g, (g, i) ∈ all ∧ name ∈ g) :
    ∀ i, l.foldl (fun acc (x : List Text × Nat) => if name ∈ x.1 then some x.2 else acc) acc
      = some i → ∃ g, (g, i) ∈ all ∧ name ∈ g := by
  induction l generalizing acc with
  | nil => simpa using ha
  | cons x l ih =>
    simp only [List.foldl_cons]
    apply ih
    · intro y hy; exact hl y (List.mem_cons_of_mem _ hy)
    · intro i hi
      split at hi
      · next hm => cases hi; exact ⟨x.1, hl x List.mem_cons_self, hm⟩
      · exact ha i hi

/-- the writer of a package is the layer of a group that contains it -/
theorem layerOfGroups_spec (groups : List (List Text)) (name : Text) (i : Nat)
    (h : layerOfGroups groups name = some i) : ∃ g, groups[i]? = some g ∧ name ∈ g := by
  unfold layerOfGroups at h
  obtain ⟨g, hg, hn⟩ := layerOfGroups_fold_spec groups.zipIdx groups.zipIdx name none
    (fun _ h => h) (by simp) i h
  refine ⟨g, ?_, hn⟩
  have := List.mem_zipIdx_iff_getElem?.mp hg
  simpa using this

theorem layerOfGroups_fold_some (l : List (List Text × Nat)) (name : Text) (acc : Option Nat)
    (h : acc.isSome = true ∨ ∃ x ∈ l, name ∈ x.1) :
    (l.foldl (fun acc (x : List Text × Nat) => if name ∈ x.1 then some x.2 else acc) acc).isSome
      = true := by
  induction l generalizing acc with
  | nil => rcases h with h | ⟨x, hx, _⟩; exact h; simp at hx
  | cons x l ih =>
    simp only [List.foldl_cons]
    apply ih
    by_cases hm : name ∈ x.1
    · left; simp [hm]
    · rcases h with h | ⟨y, hy, hyn⟩
      · left; simp [hm, h]
      · rcases List.mem_cons.mp hy with rfl | hy
        · exact absurd hyn hm
        · right; exact ⟨y, hy, hyn⟩

/-- every package that is in some group has a writer (no `packageToWriter[..] missing` panic) -/
theorem layerOfGroups_isSome (groups : List (List Text)) (name : Text)
    (h : ∃ g ∈ groups, name ∈ g) : (layerOfGroups groups name).isSome = true := by
  unfold layerOfGroups
  apply layerOfGroups_fold_some
  right
  obtain ⟨g, hg, hn⟩ := h
  obtain ⟨i, hi, rfl⟩ := List.getElem_of_mem hg
  exact ⟨(groups[i], i), List.mem_zipIdx_iff_getElem?.mpr (by simp [hi]), hn⟩

/-- The tail of `buildLayers` (grouping followed by splitting) on an installed package set with
unique names, any budget ≥ 0 and any map orders, over a preorder walk whose owners are installed
packages: it does not panic, emits at most `max budget 1 + 1` layers, and the layers have all
the properties of `splitLayers_sound`; the layer of an owned file is that of a group containing
its owner. -/
theorem buildLayers_tail_sound (pkgs : List LPkg) (budget : Int) (o1 o2 o3 o4 : Order)
    (gs : List Grp) (walk : List WEntry)
    (hu : UniqueNames pkgs) (ho1 : IsPerm o1) (ho2 : IsPerm o2) (ho3 : IsPerm o3) (ho4 : IsPerm o4)
    (hg : groupByOriginAndSize pkgs budget o1 o2 o3 o4 = .ok gs)
    (hnd : (walk.map (·.path)).Nodup) (hne : ∀ f ∈ walk, f.path ≠ [])
    (hwn : WellNested walk = true) (hdu : DirsUnowned walk)
    (hown : ∀ f ∈ walk, ∀ p, f.owner = some p → ∃ q ∈ pkgs, q.name = p) :
    ∃ ls, splitLayers (gs.map fun g => g.pkgs.map (·.name)) walk = some ls ∧
      ls.length ≤ max budget.toNat 1 + 1 ∧
      (∀ L ∈ ls, Layers.layerWellFormed L = true) ∧
      (∀ f ∈ walk, ∀ p, f.owner = some p →
        ∃ i g, i < gs.length ∧ gs[i]? = some g ∧ p ∈ g.pkgs.map (·.name) ∧
          (ls.getD i []).filter (fun e => e.path = f.path) = [f.toEntry]) ∧
      ls.getD gs.length [] = (walk.filter (fun f => f.owner.isNone)).map (·.toEntry) ∧
      (∀ p, lastFor ls.flatten p = lastFor (singleLayer walk) p) := by
  have hpart := groupsPartition pkgs budget o1 o2 o3 o4 gs hu ho1 ho2 ho3 ho4 hg
  have hsome : ∀ f ∈ walk, ∀ p, f.owner = some p →
      (layerOfGroups (gs.map fun g => g.pkgs.map (·.name)) p).isSome = true := by
    intro f hf p hp
    obtain ⟨q, hq, rfl⟩ := hown f hf p hp
    have : q ∈ gs.flatMap (·.pkgs) := hpart.mem_iff.mpr hq
    obtain ⟨g, hg', hqg⟩ := List.mem_flatMap.mp this
    exact layerOfGroups_isSome _ _ ⟨_, List.mem_map_of_mem hg', List.mem_map_of_mem hqg⟩
  have hsl : ∃ ls, splitLayers (gs.map fun g => g.pkgs.map (·.name)) walk = some ls := by
    unfold splitLayers
    split
    · exact ⟨_, rfl⟩
    · next hn =>
      exfalso
      apply hn
      rw [List.all_eq_true]
      intro f hf
      cases ho : f.owner with
      | none => rfl
      | some p => simpa using hsome f hf p ho
  obtain ⟨ls, hls⟩ := hsl
  obtain ⟨hlen, hwf, hfo, htop, hflat⟩ := splitLayers_sound _ walk ls hnd hne hwn hdu hls
  rw [List.length_map] at hlen htop hfo
  refine ⟨ls, hls, ?_, hwf, ?_, htop, hflat⟩
  · have := groupCount pkgs budget o1 o2 o3 o4 gs hg
    omega
  · intro f hf p hp
    have hd : f.isDir = false := by
      cases hfd : f.isDir with
      | false => rfl
      | true => have := hdu f hf hfd; rw [this] at hp; cases hp
    obtain ⟨i, hi⟩ := Option.isSome_iff_exists.mp (hsome f hf p hp)
    have hlt := layerOfGroups_lt _ p i hi
    rw [List.length_map] at hlt
    obtain ⟨g, hgi, hpg⟩ := layerOfGroups_spec _ p i hi
    rw [List.getElem?_map] at hgi
    obtain ⟨g', hg', rfl⟩ := Option.map_eq_some_iff.mp hgi
    refine ⟨i, g', hlt, hg', hpg, ?_⟩
    have := hfo f hf hd i (by omega)
    rw [this]
    simp [target, hp, hi]

/-- the hypotheses are satisfiable by a non-trivial walk: shared and nested directories, files of
two packages and unowned files, three layers -/
def exWalk : List WEntry :=
  let t (s : String) : Text := s.toList
  [⟨⟨[t "etc"], true, 1, 0⟩, none⟩, ⟨⟨[t "etc", t "x"], false, 2, 1⟩, some (t "a")⟩,
   ⟨⟨[t "usr"], true, 3, 0⟩, none⟩, ⟨⟨[t "usr", t "bin"], true, 4, 0⟩, none⟩,
   ⟨⟨[t "usr", t "bin", t "a"], false, 5, 2⟩, some (t "a")⟩,
   ⟨⟨[t "usr", t "bin", t "b"], false, 6, 3⟩, some (t "b")⟩,
   ⟨⟨[t "usr", t "z"], false, 9, 4⟩, none⟩]

example : (exWalk.map (·.path)).Nodup ∧ (∀ f ∈ exWalk, f.path ≠ []) ∧ WellNested exWalk = true ∧
    DirsUnowned exWalk ∧ (splitLayers [["a".toList], ["b".toList]] exWalk).isSome = true := by
  refine ⟨by decide, by decide, by decide, ?_, by decide⟩
  intro f hf; revert f; decide

end Apko.C10
