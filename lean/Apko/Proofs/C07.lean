import Apko.Model.Conflict
import Apko.Generated.Conflict
import Apko.Proofs.Lemmas.Conflict
/-!
# C07 — file conflicts follow the replaces/origin rules; the installed db tells the truth

Theorems are about `Apko.Conflict` (the model the driver executes for `corr:conflict`).
-/
namespace Apko.C07
open Apko Apko.Conflict Apko.Path

/-! ## decision_table -/

/-- the rule table as the property states it, over plain name membership -/
def table (got : Pkg) (gotSum : Text) (want : Pkg) (wantSum : Text) (sameOrigin : Prop) [Decidable sameOrigin] : Decision :=
  if gotSum = wantSum then .keep
  else if want.name ∈ got.replaces then .keep
  else if got.name ∈ want.replaces ∨ sameOrigin then .overwrite
  else .conflict

/-- `tarfs.writeHeader` follows the table with "same origin" = equal origin strings (also two
empty ones: F07b) -/
theorem decision_table_lazy (got : Pkg) (gotSum : Text) (want : Pkg) (wantSum : Text) :
    decideLazy got gotSum want wantSum = table got gotSum want wantSum (got.origin = want.origin) := by
  unfold decideLazy table
  by_cases h1 : gotSum = wantSum
  · simp [h1]
  · by_cases h2 : want.name ∈ got.replaces
    · have := (any_name_eq got.replaces want.name).2 h2
      simp [h1, h2, this]
    · have h2' : got.replaces.any (fun r => decide (want.name = r)) = false := by
        cases h : got.replaces.any (fun r => decide (want.name = r)) with
        | false => rfl
        | true => exact absurd ((any_name_eq _ _).1 h) h2
      by_cases h3 : got.name ∈ want.replaces
      · have := (any_name_eq want.replaces got.name).2 h3
        simp [h1, h2, h2', h3, this]
      · have h3' : want.replaces.any (fun r => decide (got.name = r)) = false := by
          cases h : want.replaces.any (fun r => decide (got.name = r)) with
          | false => rfl
          | true => exact absurd ((any_name_eq _ _).1 h) h3
        by_cases h4 : got.origin = want.origin <;> simp [h1, h2, h2', h3, h3', h4]

/-- `installRegularFile`: for a non-empty origin of the new package and an existing file that a
package is recorded for, the streaming backends follow the same table -/
theorem decision_table_stream (got : Pkg) (gotSum : Text) (want : Pkg) (wantSum : Text)
    (ho : want.origin ≠ []) :
    decideStream (some got) gotSum want wantSum = table got gotSum want wantSum (got.origin = want.origin) := by
  unfold decideStream table
  by_cases h1 : gotSum = wantSum
  · simp [h1, ho]
  · have h1' : ¬ wantSum = gotSum := fun h => h1 h.symm
    by_cases h2 : want.name ∈ got.replaces
    · have := (any_name_eq got.replaces want.name).2 h2
      simp [h1, h1', h2, this, ho]
    · have h2' : got.replaces.any (fun r => decide (want.name = r)) = false := by
        cases h : got.replaces.any (fun r => decide (want.name = r)) with
        | false => rfl
        | true => exact absurd ((any_name_eq _ _).1 h) h2
      by_cases h3 : got.name ∈ want.replaces <;> by_cases h4 : got.origin = want.origin <;>
        simp [h1, h1', h2, h2', h3, h4, ho]

/-- the two backends take the same decision whenever the streaming one gets as far as the table -/
theorem backends_agree (got : Pkg) (gotSum : Text) (want : Pkg) (wantSum : Text) (ho : want.origin ≠ []) :
    decideStream (some got) gotSum want wantSum = decideLazy got gotSum want wantSum := by
  rw [decision_table_stream _ _ _ _ ho, decision_table_lazy]

/-- …and these are exactly the differences: an empty origin of the new package makes the streaming
backends refuse with the bare `FileExistsError` whatever the table says (identical content
included), and a file that no package is recorded for is an error unless the content is identical
(tarfs compares the SHA-1 of the data in that case: `lazyFile`) -/
theorem backends_differ (owner : Option Pkg) (gotSum : Text) (want : Pkg) (wantSum : Text) :
    (want.origin = [] → decideStream owner gotSum want wantSum = .exists_) ∧
    (want.origin ≠ [] → wantSum = gotSum → decideStream owner gotSum want wantSum = .keep) ∧
    (want.origin ≠ [] → wantSum ≠ gotSum → decideStream none gotSum want wantSum = .error) := by
  refine ⟨fun h => ?_, fun h hs => ?_, fun h hs => ?_⟩ <;> simp [decideStream, *]

/-- with two empty origins and no replaces the lazy backend overwrites (F07b) -/
theorem lazy_empty_origin_overwrites (got want : Pkg) (gotSum wantSum : Text) (hs : gotSum ≠ wantSum)
    (h1 : want.name ∉ got.replaces) (ho : got.origin = want.origin) :
    decideLazy got gotSum want wantSum = .overwrite := by
  rw [decision_table_lazy]; simp [table, hs, h1, ho]

/-- a `replaces` list of plain names (no constraint, no pin, not an `so:` name that gets rewritten) -/
def PlainReplaces (reps : List Text) : Prop :=
  ∀ r ∈ reps, (parseConstraint r).name = r ∧ (parseConstraint r).version = []

theorem replacesSpec_plain (reps : List Text) (other : Pkg) (h : PlainReplaces reps) :
    replacesSpec reps other = true ↔ other.name ∈ reps := by
  unfold replacesSpec
  rw [List.any_eq_true]
  constructor
  · rintro ⟨r, hr, hx⟩
    obtain ⟨hn, _⟩ := h r hr
    simp only [Bool.and_eq_true, decide_eq_true_eq] at hx
    rw [hn] at hx
    exact hx.1 ▸ hr
  · intro hm
    refine ⟨other.name, hm, ?_⟩
    obtain ⟨hn, hv⟩ := h other.name hm
    simp only [Bool.and_eq_true, decide_eq_true_eq, hn, true_and]
    cases Spec.parseVersion other.version with
    | none => simp [hv]
    | some v => simp [Constraint.satisfiedBy, hv]

/-- Spec = the table with "same origin" = equal *non-empty* origins, for plain replaces lists -/
theorem decision_table_spec (got : Pkg) (gotSum : Text) (want : Pkg) (wantSum : Text)
    (hg : PlainReplaces got.replaces) (hw : PlainReplaces want.replaces) :
    decideSpec got gotSum want wantSum =
      table got gotSum want wantSum (got.origin = want.origin ∧ want.origin ≠ []) := by
  unfold decideSpec table
  have e1 := replacesSpec_plain got.replaces want hg
  have e2 := replacesSpec_plain want.replaces got hw
  by_cases h1 : gotSum = wantSum
  · simp [h1]
  · by_cases h2 : want.name ∈ got.replaces
    · simp [h1, h2, e1.2 h2]
    · have h2' : replacesSpec got.replaces want = false := by
        cases h : replacesSpec got.replaces want with
        | false => rfl
        | true => exact absurd (e1.1 h) h2
      by_cases h3 : got.name ∈ want.replaces
      · simp [h1, h2, h2', h3, e2.2 h3]
      · have h3' : replacesSpec want.replaces got = false := by
          cases h : replacesSpec want.replaces got with
          | false => rfl
          | true => exact absurd (e2.1 h) h3
        by_cases h4 : got.origin = want.origin <;> by_cases h5 : want.origin = [] <;>
          simp [h1, h2, h2', h3, h3', h4, h5]

/-- **decision_table**: with non-empty origins and plain replaces lists every backend decides
exactly as the property's rule table -/
theorem decision_table (c : Cfg) (got : Pkg) (gotSum : Text) (want : Pkg) (wantSum : Text)
    (hg : PlainReplaces got.replaces) (hw : PlainReplaces want.replaces) (ho : want.origin ≠ []) :
    decideOwned c got gotSum want wantSum = decideSpec got gotSum want wantSum := by
  have hs := decision_table_spec got gotSum want wantSum hg hw
  have e : table got gotSum want wantSum (got.origin = want.origin ∧ want.origin ≠ []) =
      table got gotSum want wantSum (got.origin = want.origin) := by
    unfold table; simp [ho]
  unfold decideOwned
  cases hsp : c.spec with
  | true => simp
  | false =>
    cases hb : c.backend <;> simp [hs, e, decision_table_lazy, decision_table_stream _ _ _ _ ho]

example : PlainReplaces ["busybox".toList, "a".toList] := by
  intro r hr
  simp only [List.mem_cons, List.not_mem_nil, or_false] at hr
  rcases hr with rfl | rfl <;> decide

/-- no flag is raised where Impl and Spec decide alike: the flags are complete for the decision -/
theorem decisionFlags_nil_iff (c : Cfg) (name : Text) (got : Pkg) (gotSum : Text) (want : Pkg) (wantSum : Text) :
    decisionFlags c name got gotSum want wantSum = [] ↔
      decideOwned { c with spec := false } got gotSum want wantSum = decideSpec got gotSum want wantSum := by
  unfold decisionFlags
  by_cases h : decideOwned { c with spec := false } got gotSum want wantSum = decideSpec got gotSum want wantSum
  · simp [h]
  · by_cases h2 : got.origin = [] ∨ want.origin = [] <;> simp [h, h2]

end Apko.C07
