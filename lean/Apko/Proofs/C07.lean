import Apko.Model.Conflict
import Apko.Generated.Conflict
import Apko.Proofs.Lemmas.Conflict
import Apko.Proofs.Lemmas.ConflictSort
import Apko.Proofs.Lemmas.ConflictInv
import Apko.Proofs.Lemmas.ConflictRefine
import Apko.Proofs.Lemmas.ConflictRec
import Apko.Proofs.Lemmas.ConflictLocal
import Apko.Proofs.Lemmas.ConflictLost
import Apko.Proofs.Lemmas.ConflictLostWitness
/-!
# C07 — file conflicts follow the replaces/origin rules; the installed db tells the truth

Theorems are about `Apko.Conflict` (the model the driver executes for `corr:conflict`).
-/
namespace Apko.C07
open Apko Apko.Conflict Apko.Path

/-! ## decision_table -/

/-- the rule table as the property states it, over plain name membership -/
def table (got : Pkg) (gotSum : Text) (want : Pkg) (wantSum : Text) (sameOrigin : Prop) [Decidable sameOrigin] : Decision :=
  if gotSum = wantSum then .keep
  else if want.name ∈ got.replaces then .keep
  else if got.name ∈ want.replaces ∨ sameOrigin then .overwrite
  else .conflict

/-- `tarfs.writeHeader` follows the table with "same origin" = equal origin strings (also two
empty ones: F07b) -/
theorem decision_table_lazy (got : Pkg) (gotSum : Text) (want : Pkg) (wantSum : Text) :
    decideLazy got gotSum want wantSum = table got gotSum want wantSum (got.origin = want.origin) := by
  unfold decideLazy table
  by_cases h1 : gotSum = wantSum
  · simp [h1]
  · by_cases h2 : want.name ∈ got.replaces
    · have := (any_name_eq got.replaces want.name).2 h2
      simp [h1, h2, this]
    · have h2' : got.replaces.any (fun r => decide (want.name = r)) = false := by
        cases h : got.replaces.any (fun r => decide (want.name = r)) with
        | false => rfl
        | true => exact absurd ((any_name_eq _ _).1 h) h2
      by_cases h3 : got.name ∈ want.replaces
      · have := (any_name_eq want.replaces got.name).2 h3
        simp [h1, h2, h2', h3, this]
      · have h3' : want.replaces.any (fun r => decide (got.name = r)) = false := by
          cases h : want.replaces.any (fun r => decide (got.name = r)) with
          | false => rfl
          | true => exact absurd ((any_name_eq _ _).1 h) h3
        by_cases h4 : got.origin = want.origin <;> simp [h1, h2, h2', h3, h3', h4]

/-- `installRegularFile`: for a non-empty origin of the new package and an existing file that a
package is recorded for, the streaming backends follow the same table -/
theorem decision_table_stream (got : Pkg) (gotSum : Text) (want : Pkg) (wantSum : Text)
    (ho : want.origin ≠ []) :
    decideStream (some got) gotSum want wantSum = table got gotSum want wantSum (got.origin = want.origin) := by
  unfold decideStream table
  by_cases h1 : gotSum = wantSum
  · simp [h1, ho]
  · have h1' : ¬ wantSum = gotSum := fun h => h1 h.symm
    by_cases h2 : want.name ∈ got.replaces
    · have := (any_name_eq got.replaces want.name).2 h2
      simp [h1, h1', h2, this, ho]
    · have h2' : got.replaces.any (fun r => decide (want.name = r)) = false := by
        cases h : got.replaces.any (fun r => decide (want.name = r)) with
        | false => rfl
        | true => exact absurd ((any_name_eq _ _).1 h) h2
      by_cases h3 : got.name ∈ want.replaces <;> by_cases h4 : got.origin = want.origin <;>
        simp [h1, h1', h2, h2', h3, h4, ho]

/-- the two backends take the same decision whenever the streaming one gets as far as the table -/
theorem backends_agree (got : Pkg) (gotSum : Text) (want : Pkg) (wantSum : Text) (ho : want.origin ≠ []) :
    decideStream (some got) gotSum want wantSum = decideLazy got gotSum want wantSum := by
  rw [decision_table_stream _ _ _ _ ho, decision_table_lazy]

/-- …and these are exactly the differences: an empty origin of the new package makes the streaming
backends refuse with the bare `FileExistsError` whatever the table says (identical content
included), and a file that no package is recorded for is an error unless the content is identical
(tarfs compares the SHA-1 of the data in that case: `lazyFile`) -/
theorem backends_differ (owner : Option Pkg) (gotSum : Text) (want : Pkg) (wantSum : Text) :
    (want.origin = [] → decideStream owner gotSum want wantSum = .exists_) ∧
    (want.origin ≠ [] → wantSum = gotSum → decideStream owner gotSum want wantSum = .keep) ∧
    (want.origin ≠ [] → wantSum ≠ gotSum → decideStream none gotSum want wantSum = .error) := by
  refine ⟨fun h => ?_, fun h hs => ?_, fun h hs => ?_⟩ <;> simp [decideStream, *]

/-- with two empty origins and no replaces the lazy backend overwrites (F07b) -/
theorem lazy_empty_origin_overwrites (got want : Pkg) (gotSum wantSum : Text) (hs : gotSum ≠ wantSum)
    (h1 : want.name ∉ got.replaces) (ho : got.origin = want.origin) :
    decideLazy got gotSum want wantSum = .overwrite := by
  rw [decision_table_lazy]; simp [table, hs, h1, ho]

/-- a `replaces` list of plain names (no constraint, no pin, not an `so:` name that gets rewritten) -/
def PlainReplaces (reps : List Text) : Prop :=
  ∀ r ∈ reps, (parseConstraint r).name = r ∧ (parseConstraint r).version = []

theorem replacesSpec_plain (reps : List Text) (other : Pkg) (h : PlainReplaces reps) :
    replacesSpec reps other = true ↔ other.name ∈ reps := by
  unfold replacesSpec
  rw [List.any_eq_true]
  constructor
  · rintro ⟨r, hr, hx⟩
    obtain ⟨hn, _⟩ := h r hr
    simp only [Bool.and_eq_true, decide_eq_true_eq] at hx
    rw [hn] at hx
    exact hx.1 ▸ hr
  · intro hm
    refine ⟨other.name, hm, ?_⟩
    obtain ⟨hn, hv⟩ := h other.name hm
    simp only [Bool.and_eq_true, decide_eq_true_eq, hn, true_and]
    cases Spec.parseVersion other.version with
    | none => simp [hv]
    | some v => simp [Constraint.satisfiedBy, hv]

/-- Spec = the table with "same origin" = equal *non-empty* origins, for plain replaces lists -/
theorem decision_table_spec (got : Pkg) (gotSum : Text) (want : Pkg) (wantSum : Text)
    (hg : PlainReplaces got.replaces) (hw : PlainReplaces want.replaces) :
    decideSpec got gotSum want wantSum =
      table got gotSum want wantSum (got.origin = want.origin ∧ want.origin ≠ []) := by
  unfold decideSpec table
  have e1 := replacesSpec_plain got.replaces want hg
  have e2 := replacesSpec_plain want.replaces got hw
  by_cases h1 : gotSum = wantSum
  · simp [h1]
  · by_cases h2 : want.name ∈ got.replaces
    · simp [h1, h2, e1.2 h2]
    · have h2' : replacesSpec got.replaces want = false := by
        cases h : replacesSpec got.replaces want with
        | false => rfl
        | true => exact absurd (e1.1 h) h2
      by_cases h3 : got.name ∈ want.replaces
      · simp [h1, h2, h2', h3, e2.2 h3]
      · have h3' : replacesSpec want.replaces got = false := by
          cases h : replacesSpec want.replaces got with
          | false => rfl
          | true => exact absurd (e2.1 h) h3
        by_cases h4 : got.origin = want.origin <;> by_cases h5 : want.origin = [] <;>
          simp [h1, h2, h2', h3, h3', h4, h5]

/-- **decision_table**: with non-empty origins and plain replaces lists every backend decides
exactly as the property's rule table -/
theorem decision_table (c : Cfg) (got : Pkg) (gotSum : Text) (want : Pkg) (wantSum : Text)
    (hg : PlainReplaces got.replaces) (hw : PlainReplaces want.replaces) (ho : want.origin ≠ []) :
    decideOwned c got gotSum want wantSum = decideSpec got gotSum want wantSum := by
  have hs := decision_table_spec got gotSum want wantSum hg hw
  have e : table got gotSum want wantSum (got.origin = want.origin ∧ want.origin ≠ []) =
      table got gotSum want wantSum (got.origin = want.origin) := by
    unfold table; simp [ho]
  unfold decideOwned
  cases hsp : c.spec with
  | true => simp
  | false =>
    cases hb : c.backend <;> simp [hs, e, decision_table_lazy, decision_table_stream _ _ _ _ ho]

example : PlainReplaces ["busybox".toList, "a".toList] := by
  intro r hr
  simp only [List.mem_cons, List.not_mem_nil, or_false] at hr
  rcases hr with rfl | rfl <;> decide

/-- no flag is raised where Impl and Spec decide alike: the flags are complete for the decision -/
theorem decisionFlags_nil_iff (c : Cfg) (name : Text) (got : Pkg) (gotSum : Text) (want : Pkg) (wantSum : Text) :
    decisionFlags c name got gotSum want wantSum = [] ↔
      decideOwned { c with spec := false } got gotSum want wantSum = decideSpec got gotSum want wantSum := by
  unfold decisionFlags
  by_cases h : decideOwned { c with spec := false } got gotSum want wantSum = decideSpec got gotSum want wantSum
  · simp [h]
  · by_cases h2 : got.origin = [] ∨ want.origin = [] <;> simp [h, h2]

/-- the decision flags are exactly the two listed classes: a decision of the code that is not the rule
table's has an empty origin on one side (F07b) or a replaces entry that is not a plain name (F07h: a
version constraint, a pin, an `so:` name) — there is no third way to leave the table -/
theorem decision_deviation_classified (c : Cfg) (got : Pkg) (gotSum : Text) (want : Pkg) (wantSum : Text)
    (h : decideOwned { c with spec := false } got gotSum want wantSum ≠ decideSpec got gotSum want wantSum) :
    (got.origin = [] ∨ want.origin = []) ∨ ¬ PlainReplaces got.replaces ∨ ¬ PlainReplaces want.replaces := by
  by_cases ho : got.origin = [] ∨ want.origin = []
  · exact Or.inl ho
  · right
    by_cases hg : PlainReplaces got.replaces
    · by_cases hw : PlainReplaces want.replaces
      · exact absurd (decision_table _ got gotSum want wantSum hg hw (fun h0 => ho (Or.inr h0))) h
      · exact Or.inr hw
    · exact Or.inl hg

/-- …and the flag names the class -/
theorem versioned_flag_nonplain (c : Cfg) (name : Text) (got : Pkg) (gotSum : Text) (want : Pkg) (wantSum : Text)
    (h : decisionFlags c name got gotSum want wantSum = [.versioned name]) :
    got.origin ≠ [] ∧ want.origin ≠ [] ∧ (¬ PlainReplaces got.replaces ∨ ¬ PlainReplaces want.replaces) := by
  unfold decisionFlags at h
  split at h
  · cases h
  · rename_i hne
    split at h
    · cases h
    · rename_i ho
      have ho2 : got.origin ≠ [] ∧ want.origin ≠ [] := by
        constructor
        · exact fun h0 => ho (Or.inl h0)
        · exact fun h0 => ho (Or.inr h0)
      refine ⟨ho2.1, ho2.2, ?_⟩
      rcases decision_deviation_classified c got gotSum want wantSum hne with h1 | h1
      · exact absurd h1 ho
      · exact h1

theorem emptyOrigin_flag_origin (c : Cfg) (name : Text) (got : Pkg) (gotSum : Text) (want : Pkg) (wantSum : Text)
    (h : decisionFlags c name got gotSum want wantSum = [.emptyOrigin name]) :
    got.origin = [] ∨ want.origin = [] := by
  unfold decisionFlags at h
  split at h
  · cases h
  · split at h
    · assumption
    · cases h

/-! ## the decision is the one of the node-graph model of tarfs (`Model/FS.lean`, validated op by op
against the real tarfs by `corr:fs`) -/

def pkgOfTe (te : FS.TarEntry) : Pkg := { name := te.pkgName, origin := te.pkgOrigin, replaces := te.pkgReplaces }
def pkgOfHdr (h : FS.Hdr) : Pkg := { name := h.pkgName, origin := h.pkgOrigin, replaces := h.pkgReplaces }

/-- `FS.writeHeaderFile` on an existing package-provided node takes exactly `decideLazy` -/
theorem writeHeaderFile_refines (c : FS.Cfg) (fs : FS.FS) (h : FS.Hdr) (sum : Text) (pi : Nat) (b : Name)
    (e : Nat) (got : FS.TarEntry)
    (hp : FS.parentOf c fs h.name = .ok (pi, b)) (hd : (fs.node pi).dir = true)
    (hl : fs.lookup pi b = some e) (ht : (fs.node e).te = some got) :
    (FS.writeHeaderFile c fs h sum).2 =
      (match decideLazy (pkgOfTe got) got.checksum (pkgOfHdr h) sum with
       | .keep => .ok false
       | .overwrite => .ok true
       | _ => .error .fileConflict) := by
  rw [decision_table_lazy]
  unfold FS.writeHeaderFile table
  simp only [hp, hd, hl, ht, pkgOfTe, pkgOfHdr]
  by_cases h1 : got.checksum = sum
  · simp [h1]
  · by_cases h2 : h.pkgName ∈ got.pkgReplaces
    · simp [h1, h2]
    · by_cases h3 : got.pkgName ∈ h.pkgReplaces <;> by_cases h4 : got.pkgOrigin = h.pkgOrigin <;>
        simp [h1, h2, h3, h4]

/-! ## sortTarHeaders_parent_adjacent -/

/-- **sortTarHeaders_parent_adjacent**: in what `sortTarHeaders` returns, every file header follows
the header of its own directory with only files of that directory in between (`Adj`, the scan
`ParseInstalled` performs: an `R:` line is joined to the last `F:` line), so full paths are
reconstructed.  (What the function *loses* is F07a, witness corpus/conflict/F07a.json: `mergeSort` is
defined by well-founded recursion, so the kernel cannot evaluate a literal witness by `decide`.) -/
theorem sortTarHeaders_parent_adjacent (hs out : List Formats.FileRec) (h : Formats.sortHeaders hs = some out) :
    Adj ['.'] out := by
  unfold Formats.sortHeaders at h
  refine sortChildren_adj hs _ ['.'] _ out ?_ h
  intro n hn
  have := (List.mem_filter.1 (mem_sortTexts.1 hn)).2
  simpa using this

/-! ## idb_truth: the pruning leaves exactly the owner as recorder -/

/-- a header whose name has an owner in `installedFiles` survives the pruning only in the owner's list -/
theorem prune_owner_only (inst : List (Text × Nat)) (i j : Nat) (files : List Entry) (e : Entry)
    (he : e ∈ prune inst i files) (ho : inst.lookup e.name = some j) : i = j := by
  unfold prune at he
  have := (List.mem_filter.1 he).2
  simp only [ho] at this
  exact (beq_iff_eq.1 this).symm

theorem prune_keeps_owner (inst : List (Text × Nat)) (i : Nat) (files : List Entry) (e : Entry)
    (he : e ∈ files) (ho : inst.lookup e.name = some i) : e ∈ prune inst i files := by
  unfold prune
  exact List.mem_filter.2 ⟨he, by simp [ho]⟩

/-- headers nobody is recorded for (directories, symlinks, files kept because identical to a base
file) stay in every list ("Keep directories, which actually should be duplicated in the idb") -/
theorem prune_keeps_untracked (inst : List (Text × Nat)) (i : Nat) (files : List Entry) (e : Entry)
    (he : e ∈ files) (ho : inst.lookup e.name = none) : e ∈ prune inst i files := by
  unfold prune
  exact List.mem_filter.2 ⟨he, by simp [ho]⟩

theorem recordAll_getElem? (inst : List (Text × Nat)) (all : List (List Entry)) (i : Nat) :
    (recordAll inst all)[i]? = (all[i]?).map (prune inst i) := by
  unfold recordAll
  simp [List.getElem?_map, List.getElem?_zipIdx]
  cases all[i]? <;> simp

/-- **idb_unique**: after the pruning a name that `installedFiles` knows is recorded under at most
one package — its owner — and the owner does record it (if `sortTarHeaders` keeps it: F07a) -/
theorem idb_unique (inst : List (Text × Nat)) (all : List (List Entry)) (i j : Nat) (rec : List Entry) (e : Entry)
    (hr : (recordAll inst all)[i]? = some rec) (he : e ∈ rec) (ho : inst.lookup e.name = some j) : i = j := by
  rw [recordAll_getElem?] at hr
  cases ha : all[i]? with
  | none => simp [ha] at hr
  | some files =>
    simp only [ha, Option.map_some, Option.some.injEq] at hr
    subst hr
    exact prune_owner_only inst i j files e he ho

/-! ## owner_invariant, no_silent_overwrite, idb_truth (partial: runs that raise no ghost flag) -/

/-- Full statement (false on the unchanged tree: F07b, F07c, F07d, F07g are runs on which it fails;
witnesses corpus/conflict/F07b.json … replayed on the real code by every run):
after `installAll = ok`, `installedFiles` maps a name to `j` only if the tree holds `j`'s regular
file at that path. -/
def owner_invariant : Prop :=
  ∀ (c : Cfg) (base : List Entry) (pkgs : List Pkg) (st : St) (all : List (List Entry)),
    c.spec = false → (∀ p ∈ pkgs, ∀ e ∈ p.entries, WF e) → installAll c base pkgs = .ok (st, all) → OwnerInv st

/-- **owner_invariant_flags** (which ghost flags can break the invariant): a successful Impl run that
raised only flags of the classes F07b (`emptyOrigin`), F07h (`versioned`) and F07i (`baseKept`) still ends
in a state where every name `installedFiles` knows is a regular file in the tree with the recorded
owner's content: a decision that differs from the rule table writes tree and map together, a kept base
file writes neither.  Nothing is assumed about how header names are spelled (only that a file or link
name has a component, `WFn`): a name that is not a clean path raises the `alias` flag (F07g).  The three
remaining classes are exactly the holes: `owner_invariant_fails` (F07c,
`linkUntracked`), `owner_invariant_fails_throughLink` (F07d), `owner_invariant_fails_alias` (F07g) are
runs whose only flag is that one and on which the invariant is false. -/
theorem owner_invariant_flags (c : Cfg) (hc : c.spec = false) (base : List Entry) (pkgs : List Pkg)
    (st : St) (all : List (List Entry)) (hwf : ∀ p ∈ pkgs, ∀ e ∈ p.entries, WFn e)
    (h : installAll c base pkgs = .ok (st, all)) (hfl : Benign st.flags) : OwnerInv st := by
  unfold installAll at h
  obtain ⟨x, hx, hI⟩ := installFrom_inv c hc pkgs pkgs 0 _ _ st all h hwf
  have hx0 : Benign x := by
    have : st.flags = x := by simpa using hx
    exact this ▸ hfl
  refine hI hx0 ?_
  intro name j hl
  simp at hl

/-- **owner_invariant_partial**: for every backend, every base tree and every ordered package list
with clean header names, a successful Impl run that raised no ghost flag ends in a state where every
name `installedFiles` knows is a regular file in the tree whose content is the recorded owner's. -/
theorem owner_invariant_partial (c : Cfg) (hc : c.spec = false) (base : List Entry) (pkgs : List Pkg)
    (st : St) (all : List (List Entry)) (hwf : ∀ p ∈ pkgs, ∀ e ∈ p.entries, WF e)
    (h : installAll c base pkgs = .ok (st, all)) (hfl : st.flags = []) : OwnerInv st :=
  owner_invariant_flags c hc base pkgs st all (fun p hp e he => (hwf p hp e he).toWFn) h (hfl ▸ Benign_nil)

/-- **no_silent_overwrite** (partial): one header of a flag-free Impl step changes what is stored at
a path only at the header's own path, and only by creating the entry or through a logged decision:
every other path keeps its node (`Shape`: unchanged / directories added / the own path written). -/
theorem no_silent_overwrite_partial (c : Cfg) (hc : c.spec = false) (pkgs : List Pkg) (i : Nat) (e : Entry)
    (st st' : St) (b : Bool) (h : stepEntry c pkgs i e st = .ok (st', b)) (hwf : WF e)
    (hfl : st'.flags = st.flags) (q : PathK) (n : Node) (hq : lookupT st.tree q = some n)
    (hne : q ≠ parts e.name) : lookupT st'.tree q = some n := by
  obtain ⟨x, hx, hs⟩ := stepEntry_shape c hc pkgs i e st st' b h hwf.toWFn
  have hx0 : x = [] := append_eq_self _ _ (hfl ▸ hx).symm
  cases (hs (hx0 ▸ Benign_nil)).1 with
  | same ht _ => rw [ht]; exact hq
  | grow _ ht => exact ht q n hq
  | wrote _ _ t0 h0 ht => rw [ht, lookupT_setT_ne _ _ _ _ hne, h0 q hne]; exact hq
  | linked _ _ m ht => rw [ht, lookupT_setT_ne _ _ _ _ hne]; exact hq

/-- **no_silent_overwrite_flags** (which flag can break it): a header of an Impl step changes what is
stored at another path only if the step raises `alias` (F07g) or `throughLink` (F07d); with any other
flags (`emptyOrigin`, `versioned`, `baseKept`, `linkUntracked`) every node that was stored off the header's
own path is still there.  Header names spelled in any way.  `silent_overwrite_throughLink` and
`silent_overwrite_alias` are the two holes as runs. -/
theorem no_silent_overwrite_flags (c : Cfg) (hc : c.spec = false) (pkgs : List Pkg) (i : Nat) (e : Entry)
    (st st' : St) (b : Bool) (h : stepEntry c pkgs i e st = .ok (st', b)) (hwf : WFn e)
    (x : List Flag) (hx : st'.flags = st.flags ++ x) (hl : Local x)
    (q : PathK) (n : Node) (hq : lookupT st.tree q = some n) (hne : q ≠ parts e.name) :
    lookupT st'.tree q = some n := by
  obtain ⟨y, hy, hoff⟩ := stepEntry_off c hc pkgs i e st st' b h hwf
  have : y = x := List.append_cancel_left (hy.symm.trans hx)
  exact hoff (this ▸ hl) q n hne hq

/-- **idb_truth_partial**: after a successful flag-free run every name `installedFiles` knows is
recorded by at most one package, its owner `j`, and the tree holds `j`'s regular file there. -/
theorem idb_truth_partial (c : Cfg) (hc : c.spec = false) (base : List Entry) (pkgs : List Pkg)
    (st : St) (all : List (List Entry)) (hwf : ∀ p ∈ pkgs, ∀ e ∈ p.entries, WF e)
    (h : installAll c base pkgs = .ok (st, all)) (hfl : st.flags = [])
    (i j : Nat) (rec : List Entry) (e : Entry)
    (hr : (recordAll st.inst all)[i]? = some rec) (he : e ∈ rec) (ho : st.inst.lookup e.name = some j) :
    i = j ∧ ∃ sum perm emp, lookupT st.tree (parts e.name) = some (.file sum perm (some j) emp) :=
  ⟨idb_unique st.inst all i j rec e hr he ho,
   (owner_invariant_partial c hc base pkgs st all hwf h hfl e.name j ho).2⟩

example : WF { name := "usr/bin/x".toList, kind := .reg } := by
  intro _; decide

/-! ## the record tells the truth about content, permission bits — and not about owners (F07e, F07f) -/

/-- the regular-file names of one package are distinct (`lazilyInstallAPKFiles` refuses a data section
that names a file twice: second statement of `tie_stmtsLazyLoop`) -/
def UniqueRegNames (p : Pkg) : Prop :=
  ∀ e1 ∈ p.entries, ∀ e2 ∈ p.entries, e1.kind = .reg → e2.kind = .reg → e1.name = e2.name → e1 = e2

theorem getD_mem_or_default (pkgs : List Pkg) (i : Nat) : pkgs.getD i default ∈ pkgs ∨ pkgs.getD i default = default := by
  cases h : pkgs[i]? with
  | none => right; simp [List.getD, h]
  | some p => left; simp only [List.getD, h, Option.getD_some]; exact List.mem_of_getElem? h

/-- **recorded_file_truth** (content, permission bits and the single recorder, for regular files): after a
successful Impl run that raised only flags of the classes F07b / F07h / F07i, a regular-file header `e`
that survives the pruning in package `i`'s record and whose name `installedFiles` knows is recorded by
the owner only (`i = j`), and the tree holds, at that path, exactly the node written from `e`: content
`e.sum` (the `Z:` line), permission bits `e.mode % 512` (the `a:` line).  The owner (uid/gid) of the
node is NOT the recorded one: `recorded_owner_iff`, `recorded_owner_fails` (F07e). -/
theorem recorded_file_truth (c : Cfg) (hc : c.spec = false) (base : List Entry) (pkgs : List Pkg)
    (st : St) (all : List (List Entry)) (hwf : ∀ p ∈ pkgs, ∀ e ∈ p.entries, WFn e)
    (huniq : ∀ p ∈ pkgs, UniqueRegNames p)
    (h : installAll c base pkgs = .ok (st, all)) (hfl : Benign st.flags)
    (i j : Nat) (rec : List Entry) (e : Entry)
    (hr : (recordAll st.inst all)[i]? = some rec) (he : e ∈ rec) (hk : e.kind = .reg)
    (ho : st.inst.lookup e.name = some j) :
    i = j ∧ lookupT st.tree (parts e.name) = some (.file e.sum (e.mode % 512) (some i) (e.size == 0)) := by
  have hij := idb_unique st.inst all i j rec e hr he ho
  subst hij
  refine ⟨rfl, ?_⟩
  unfold installAll at h
  obtain ⟨hfin, x, hx, hI⟩ := installFrom_rec c hc pkgs pkgs 0 _ _ st all h rfl rfl hwf (by intro k fs hk; simp at hk)
  have hx0 : Benign x := by
    have : st.flags = x := by simpa using hx
    exact this ▸ hfl
  have hrec : RecInv pkgs st := hI hx0 (by intro name j hl; simp at hl)
  obtain ⟨_, e2, hm2, hn2, hk2, ht⟩ := hrec e.name i ho
  -- `e` itself is a header of package `i`
  rw [recordAll_getElem?] at hr
  cases ha : all[i]? with
  | none => simp [ha] at hr
  | some files =>
    simp only [ha, Option.map_some, Option.some.injEq] at hr
    subst hr
    have hef : e ∈ files := (List.mem_filter.1 he).1
    have hm1 := hfin i files ha e hef
    have hu : UniqueRegNames (pkgs.getD i default) := by
      rcases getD_mem_or_default pkgs i with hmem | hd
      · exact huniq _ hmem
      · rw [hd] at hm1; cases hm1
    have : e2 = e := hu e2 hm2 e hm1 hk2 hk hn2
    subst this
    exact ht

example : UniqueRegNames { name := ['a'], entries := [{ name := "usr/".toList, kind := .dir }, { name := "usr/x".toList, kind := .reg }] } := by
  intro e1 h1 e2 h2 k1 k2 _
  simp only [List.mem_cons, List.not_mem_nil, or_false] at h1 h2
  rcases h1 with rfl | rfl <;> rcases h2 with rfl | rfl <;> first | rfl | exact absurd k1 (by decide) | exact absurd k2 (by decide)

/-- the exact side condition for owners: the installed node of a record carries the recorded uid/gid
iff the record says 0:0 (no backend applies a header's owner: `tie_installChownCalls`) -/
theorem recorded_owner_iff (n : Node) (e : Entry) : (e.uid, e.gid) = nodeOwner n ↔ e.uid = 0 ∧ e.gid = 0 := by
  simp [nodeOwner]

/-- F07e: a file shipped as 100:101 below a directory shipped as 100:101 -/
def witnessE : List Pkg :=
  [{ name := ['a'], origin := "oa".toList, entries :=
      [{ name := "var/".toList, kind := .dir, mode := 0o750, uid := 100, gid := 101 },
       { name := "var/x".toList, kind := .reg, mode := 0o644, uid := 100, gid := 101, sum := ['1'] }] }]

/-- some record of the run carries an owner its installed node does not have -/
def ownerLie (r : Except (Outcome × List Flag) (St × List (List Entry))) : Bool :=
  match r with
  | .ok (st, all) => decide (st.flags = []) &&
      (recordAll st.inst all).any fun rec => rec.any fun e =>
        match lookupT st.tree (parts e.name) with
        | some n => decide ((e.uid, e.gid) ≠ nodeOwner n)
        | none => false
  | .error _ => false

/-- **F07e**, kernel-checked on every backend: the run succeeds without a flag, the record says 100:101
(`M:` / `a:` lines), the nodes are 0:0 -/
theorem recorded_owner_fails (b : Backend) : ownerLie (installAll { backend := b } [] witnessE) = true := by
  cases b <;> decide

/-- F07f: two packages ship `var/`, the first as 0755, the second as 0700 -/
def witnessF : List Pkg :=
  [{ name := ['a'], origin := "oa".toList, entries :=
      [{ name := "var/".toList, kind := .dir, mode := 0o755 }, { name := "var/x".toList, kind := .reg, sum := ['1'] }] },
   { name := ['b'], origin := "ob".toList, entries :=
      [{ name := "var/".toList, kind := .dir, mode := 0o700 }, { name := "var/y".toList, kind := .reg, sum := ['1'] }] }]

/-- some directory record of the run carries permission bits its installed directory does not have -/
def dirModeLie (r : Except (Outcome × List Flag) (St × List (List Entry))) : Bool :=
  match r with
  | .ok (st, all) => decide (st.flags = []) &&
      (recordAll st.inst all).any fun rec => rec.any fun e =>
        e.kind == .dir &&
        match lookupT st.tree (parts e.name) with
        | some (.dir perm) => decide (perm ≠ e.mode % 512)
        | _ => false
  | .error _ => false

/-- **F07f**, kernel-checked on every backend: `var` keeps 0755, `b` records `M:0:0:0700` -/
theorem recorded_dir_mode_fails (b : Backend) : dirModeLie (installAll { backend := b } [] witnessF) = true := by
  cases b <;> decide

/-- F07i: a file written through the FS API before the install, shipped with the same content by two packages -/
def baseI : List Entry := [{ name := "etc".toList, kind := .dir, mode := 0o755 }, { name := "etc/k".toList, kind := .reg, sum := ['1'] }]
def witnessI : List Pkg :=
  [{ name := ['a'], origin := "oa".toList, entries := [{ name := "etc/".toList, kind := .dir, mode := 0o755 }, { name := "etc/k".toList, kind := .reg, sum := ['1'] }] },
   { name := ['b'], origin := "ob".toList, entries := [{ name := "etc/".toList, kind := .dir, mode := 0o755 }, { name := "etc/k".toList, kind := .reg, sum := ['1'] }] }]

def multiRecorded (r : Except (Outcome × List Flag) (St × List (List Entry))) : Bool :=
  match r with
  | .ok (st, all) =>
    decide (st.flags = [.baseKept "etc/k".toList, .baseKept "etc/k".toList]) && decide (st.inst = []) &&
    decide (((recordAll st.inst all).filter fun rec => rec.any fun e => e.kind == .reg && e.name == "etc/k".toList).length = 2)
  | .error _ => false

/-- **F07i**, kernel-checked on every backend: the file is kept twice (flag `baseKept` twice, nothing
else), nobody becomes its owner (`installedFiles` stays empty — outside the hypothesis of `idb_unique`),
nothing is pruned: both packages record the one regular file.  The side condition under which a name is
recorded once is `idb_unique`'s: `installedFiles` knows the name. -/
theorem multi_recorder_baseKept (b : Backend) : multiRecorded (installAll { backend := b } baseI witnessI) = true := by
  cases b <;> decide

/-! ## impl_refines_spec: without a ghost flag the code does what the rule table says -/

/-- **impl_refines_spec** (the "content decided by the rules" part of the oracle, as a refinement): for
every backend, every base tree and every ordered package list, an Impl run — successful or not — that
ends without a ghost flag IS the Spec run (`Cfg.spec = true`: the rule table instead of the code's
decisions): the same outcome, the same tree (so the content of every regular file is the one the rules
choose), the same `installedFiles`, the same decision log and the same `files` of every package.  No
hypothesis on header names. -/
theorem impl_refines_spec (c : Cfg) (hc : c.spec = false) (base : List Entry) (pkgs : List Pkg)
    (h : resFlags (installAll c base pkgs) = []) :
    installAll { c with spec := true } base pkgs = installAll c base pkgs := by
  unfold installAll at h ⊢
  exact installFrom_refines c hc pkgs pkgs 0 { tree := baseTree base } [] h

/-- the successful case spelled out -/
theorem impl_refines_spec_ok (c : Cfg) (hc : c.spec = false) (base : List Entry) (pkgs : List Pkg)
    (st : St) (all : List (List Entry)) (h : installAll c base pkgs = .ok (st, all)) (hfl : st.flags = []) :
    installAll { c with spec := true } base pkgs = .ok (st, all) := by
  rw [impl_refines_spec c hc base pkgs (by rw [h]; exact hfl), h]

/-- …and a refused build: the Spec refuses it with the same outcome -/
theorem impl_refines_spec_error (c : Cfg) (hc : c.spec = false) (base : List Entry) (pkgs : List Pkg)
    (o : Outcome) (h : installAll c base pkgs = .error (o, [])) :
    installAll { c with spec := true } base pkgs = .error (o, []) := by
  rw [impl_refines_spec c hc base pkgs (by rw [h]; rfl), h]

/-- the hypothesis is needed, and the flag classes of the decision are the only way to lose it for
regular files with complete parents: F07b (two empty origins: tarfs overwrites, the rules say conflict)
and F07h (`replaces = a<2`: the code reports a conflict, the rules let `b` win) are runs whose only flag
is the decision flag and whose Impl and Spec outcomes differ -/
def pkgsB : List Pkg :=
  [{ name := ['a'], version := "1-r0".toList, entries := [{ name := ['u', '/'], kind := .dir, mode := 0o755 }, { name := ['u', '/', 'x'], kind := .reg, sum := ['1'] }] },
   { name := ['b'], version := "1-r0".toList, entries := [{ name := ['u', '/'], kind := .dir, mode := 0o755 }, { name := ['u', '/', 'x'], kind := .reg, sum := ['2'] }] }]

def pkgsH : List Pkg :=
  [{ name := ['a'], version := "1-r0".toList, origin := "oa".toList, entries := [{ name := ['u', '/'], kind := .dir, mode := 0o755 }, { name := ['u', '/', 'x'], kind := .reg, sum := ['1'] }] },
   { name := ['b'], version := "1-r0".toList, origin := "ob".toList, replaces := ["a<2".toList],
     entries := [{ name := ['u', '/'], kind := .dir, mode := 0o755 }, { name := ['u', '/', 'x'], kind := .reg, sum := ['2'] }] }]

def outcomeOf (r : Except (Outcome × List Flag) (St × List (List Entry))) : Outcome × List Flag :=
  match r with
  | .ok (st, _) => (.ok, st.flags)
  | .error x => x

theorem impl_differs_emptyOrigin :
    outcomeOf (installAll { backend := .lazy } [] pkgsB) = (.ok, [.emptyOrigin ['u', '/', 'x']]) ∧
    outcomeOf (installAll { backend := .lazy, spec := true } [] pkgsB) = (.conflict ['u', '/', 'x'], []) ∧
    outcomeOf (installAll { backend := .memfs } [] pkgsB) = (.exists_, [.emptyOrigin ['u', '/', 'x']]) := by decide

theorem impl_differs_versioned (b : Backend) :
    outcomeOf (installAll { backend := b } [] pkgsH) = (.conflict ['u', '/', 'x'], [.versioned ['u', '/', 'x']]) ∧
    outcomeOf (installAll { backend := b, spec := true } [] pkgsH) = (.ok, []) := by
  cases b <;> decide

/-! ## negation witnesses (each is also replayed on the real code: corpus/conflict/F07b.json, F07c.json) -/

/-- F07b: with two empty origins the lazy backend overwrites where the rule table demands a conflict,
and the streaming backends refuse even identical content -/
theorem decision_table_fails_empty_origin :
    decideLazy { name := ['a'] } ['1'] { name := ['b'] } ['2'] = .overwrite ∧
    decideSpec { name := ['a'] } ['1'] { name := ['b'] } ['2'] = .conflict ∧
    decideStream (some { name := ['a'] }) ['1'] { name := ['b'] } ['1'] = .exists_ := by decide

def witnessC : List Pkg :=
  [{ name := ['a'], origin := ['o'], entries := [{ name := ['s', '/'], kind := .dir, mode := 0o755 }, { name := ['s', '/', 'f'], kind := .reg, sum := ['1'] }] },
   { name := ['b'], origin := ['o'], entries := [{ name := ['s', '/'], kind := .dir, mode := 0o755 }, { name := ['s', '/', 'f'], kind := .link, sum := ['2'], target := ['g'] }] }]

instance (e : Entry) : Decidable (WF e) := by unfold WF; infer_instance

def staleOwner (r : Except (Outcome × List Flag) (St × List (List Entry))) : Bool :=
  match r with
  | .ok (st, _) => decide (st.inst.lookup ['s', '/', 'f'] = some 0) &&
      (match lookupT st.tree [['s'], ['f']] with | some (.link ..) => true | _ => false)
  | .error _ => false

/-- F07c: the full `owner_invariant` is false: a regular file, then a symlink of the same origin at
the same path (tarfs): the link is installed, `installedFiles` still names the first package -/
theorem owner_invariant_fails : ¬ owner_invariant := by
  intro h
  have hb : staleOwner (installAll { backend := .lazy } [] witnessC) = true := by decide
  have hw : ∀ p ∈ witnessC, ∀ e ∈ p.entries, WF e := by decide
  cases hrun : installAll { backend := .lazy } [] witnessC with
  | error x => rw [hrun] at hb; cases hb
  | ok v =>
    obtain ⟨st, all⟩ := v
    rw [hrun] at hb
    simp only [staleOwner, Bool.and_eq_true, decide_eq_true_eq] at hb
    obtain ⟨s, p, em, hf⟩ := (h _ [] witnessC st all rfl hw hrun _ _ hb.1).2
    have : parts ['s', '/', 'f'] = [['s'], ['f']] := by decide
    rw [this] at hf
    rw [hf] at hb
    exact absurd hb.2 (by simp)

/-! ### the other two holes of the owner invariant: F07d (`throughLink`) and F07g (`alias`) -/

/-- a decidable consequence of `OwnerInv` (over the finitely many names `installedFiles` holds) -/
def ownerInvB (st : St) : Bool :=
  st.inst.all fun (name, _) =>
    match st.inst.lookup name with
    | none => true
    | some j =>
      match lookupT st.tree (parts name) with
      | some (.file _ _ (some k) _) => k == j
      | _ => false

theorem ownerInvB_of_OwnerInv (st : St) (h : OwnerInv st) : ownerInvB st = true := by
  unfold ownerInvB
  rw [List.all_eq_true]
  rintro ⟨name, k⟩ _
  show (match st.inst.lookup name with
    | none => true
    | some j => match lookupT st.tree (parts name) with
      | some (.file _ _ (some k) _) => k == j
      | _ => false) = true
  cases hl : st.inst.lookup name with
  | none => rfl
  | some j =>
    obtain ⟨_, s, p, em, hf⟩ := h name j hl
    simp [hf]

/-- the run succeeds, raises exactly the flags `fl`, and the owner invariant is false at its end -/
def failsWith (r : Except (Outcome × List Flag) (St × List (List Entry))) (fl : List Flag) : Bool :=
  match r with
  | .ok (st, _) => decide (st.flags = fl) && !ownerInvB st
  | .error _ => false

theorem failsWith_spec {r : Except (Outcome × List Flag) (St × List (List Entry))} {fl : List Flag}
    (h : failsWith r fl = true) : ∃ st all, r = .ok (st, all) ∧ st.flags = fl ∧ ¬ OwnerInv st := by
  cases r with
  | error x => cases h
  | ok v =>
    obtain ⟨st, all⟩ := v
    simp only [failsWith, Bool.and_eq_true, decide_eq_true_eq, Bool.not_eq_true'] at h
    exact ⟨st, all, rfl, h.1, fun hI => by rw [ownerInvB_of_OwnerInv st hI] at h; exact absurd h.2 (by simp)⟩

/-- F07d: a dangling symlink `s/f -> g` of package `a`, then a regular file `s/f` of package `b` -/
def witnessD : List Pkg :=
  [{ name := ['a'], origin := ['o'], entries := [{ name := ['s', '/'], kind := .dir, mode := 0o755 }, { name := ['s', '/', 'f'], kind := .link, sum := ['9'], target := ['g'] }] },
   { name := ['b'], origin := ['o'], entries := [{ name := ['s', '/'], kind := .dir, mode := 0o755 }, { name := ['s', '/', 'f'], kind := .reg, sum := ['2'] }] }]

/-- F07d: on memfs the body is written through the dangling link: the run succeeds, its only flag is
`throughLink s/f s/g`, the file is at `s/g`, the link stays at `s/f`, `installedFiles` says `s/f ↦ b` -/
theorem owner_invariant_fails_throughLink :
    ∃ st all, installAll { backend := .memfs } [] witnessD = .ok (st, all) ∧
      st.flags = [.throughLink ['s', '/', 'f'] ['s', '/', 'g']] ∧ ¬ OwnerInv st :=
  failsWith_spec (by decide)

/-- …and DirFS refuses the same input (`O_EXCL` on the disk sees the link) and tarfs replaces the link: the
hole is memfs only -/
theorem throughLink_memfs_only :
    (match installAll { backend := .dirfs } [] witnessD with | .error (.error, []) => true | _ => false) = true ∧
    (match installAll { backend := .lazy } [] witnessD with
     | .ok (st, _) => decide (st.flags = []) && ownerInvB st | _ => false) = true := by decide

/-- F07g: `a` ships `usr/lib/x` and the directory symlink `l64 -> usr/lib`, `b` (same origin) ships `l64/x` -/
def witnessG : List Pkg :=
  [{ name := ['a'], origin := ['o'], entries :=
      [{ name := "usr/".toList, kind := .dir, mode := 0o755 }, { name := "usr/lib/".toList, kind := .dir, mode := 0o755 },
       { name := "usr/lib/x".toList, kind := .reg, sum := ['1'] },
       { name := "l64".toList, kind := .link, sum := ['9'], target := "usr/lib".toList }] },
   { name := ['b'], origin := ['o'], entries :=
      [{ name := "l64/".toList, kind := .dir, mode := 0o755 }, { name := "l64/x".toList, kind := .reg, sum := ['2'] }] }]

/-- F07g: tarfs applies the rules to the node `usr/lib/x` (overwritten by `b`), `installedFiles` is keyed by
the header names: `usr/lib/x ↦ a` stays although `a`'s content is gone; the only flag is `alias l64/x` -/
theorem owner_invariant_fails_alias :
    ∃ st all, installAll { backend := .lazy } [] witnessG = .ok (st, all) ∧
      st.flags = [.alias "l64/x".toList] ∧ ¬ OwnerInv st :=
  failsWith_spec (by decide)

/-- F07d as a silent write: after the memfs run of `witnessD` the tree holds `b`'s body at `s/g`, a path no
header names (the only flag of the run is `throughLink s/f s/g`) -/
theorem silent_overwrite_throughLink :
    (match installAll { backend := .memfs } [] witnessD with
     | .ok (st, _) => decide (lookupT st.tree [['s'], ['g']] = some (.file ['2'] 0o644 (some 1) false)) &&
         witnessD.all (fun p => p.entries.all fun e => e.name != ['s', '/', 'g'])
     | .error _ => false) = true := by decide

/-- F07g as a silent overwrite: after the tarfs run of `witnessG` the node `usr/lib/x` holds `b`'s content,
written by the header `l64/x` (the only flag of the run is `alias l64/x`) -/
theorem silent_overwrite_alias :
    (match installAll { backend := .lazy } [] witnessG with
     | .ok (st, _) => decide (lookupT st.tree ["usr".toList, "lib".toList, ['x']] = some (.file ['2'] 0o644 (some 1) false))
     | .error _ => false) = true := by decide

/-- F07g, second form: `b` spells the path of `a`'s file `s/f` as `s//f` -/
def witnessU : List Pkg :=
  [{ name := ['a'], origin := ['o'], entries := [{ name := ['s', '/'], kind := .dir, mode := 0o755 }, { name := ['s', '/', 'f'], kind := .reg, sum := ['1'] }] },
   { name := ['b'], origin := ['o'], entries := [{ name := ['s', '/'], kind := .dir, mode := 0o755 }, { name := ['s', '/', '/', 'f'], kind := .reg, sum := ['2'] }] }]

/-- why `owner_invariant_partial` asked for clean names, as a run: tarfs overwrites the node `s/f`,
`installedFiles` holds the two spellings `s/f ↦ a` and `s//f ↦ b`; the model raises `alias s//f` (replayed on
the real code: corpus/conflict/F07g-unclean.json — both packages record `s/f`) -/
theorem owner_invariant_fails_unclean :
    ∃ st all, installAll { backend := .lazy } [] witnessU = .ok (st, all) ∧
      st.flags = [.alias ['s', '/', '/', 'f']] ∧ ¬ OwnerInv st :=
  failsWith_spec (by decide)

instance (e : Entry) : Decidable (WFn e) := by unfold WFn; infer_instance

example : ∀ p ∈ witnessU, ∀ e ∈ p.entries, WFn e := by decide

/-- F07c restated in the same form: the only flag of the run is `linkUntracked s/f` -/
theorem owner_invariant_fails_linkUntracked :
    ∃ st all, installAll { backend := .lazy } [] witnessC = .ok (st, all) ∧
      st.flags = [.linkUntracked ['s', '/', 'f']] ∧ ¬ OwnerInv st :=
  failsWith_spec (by decide)

/-- no benign flag is one of the three hole classes, and every flag is benign or one of them: the
classification of `owner_invariant_flags` is a partition of the flag type -/
theorem benign_or_hole (f : Flag) :
    Flag.benign f = true ∨ (∃ n, f = .linkUntracked n) ∨ (∃ n d, f = .throughLink n d) ∨ (∃ n, f = .alias n) := by
  cases f <;> simp [Flag.benign]

/-! ## ties: the statement lists the model mirrors (regenerated from /repo on every run) -/

theorem tie_stmtsWriteHeader : Generated.stmtsWriteHeader = (["parent := filepath.Dir(name)",
  "base := filepath.Base(name)",
  "parentAnode, err := m.getNode(parent)",
  "if err != nil { return false, err }",
  "if !parentAnode.dir { return false, fmt.Errorf(\"parent is not a directory\") }",
  "if parentAnode.children == nil { parentAnode.children = map[string]*node{} }",
  "parentAnode.mu.Lock()",
  "defer parentAnode.mu.Unlock()",
  "existing, ok := parentAnode.children[base]",
  "if !ok { if isDotName(base) { return false, &fs.PathError{Op: \"writeheader\", Path: name, Err: fs.ErrInvalid} } anode := &node{ name: base, mode: entryMode(&te.header), dir: false, modTime: te.header.ModTime, linkTarget: te.header.Linkname, xattrs: map[string][]byte{}, hardlinks: map[string]*tar.Header{}, te: &te, } parentAnode.children[base] = anode return true, nil }",
  "want, got := te, existing.te",
  "if got == nil { if existing.data == nil { return false, fmt.Errorf(\"conflicting file for %q has no tar entry\", name) } h := sha1.New() h.Write(existing.data) checksum := h.Sum(nil) if bytes.Equal(want.checksum, checksum) { return false, nil } return false, fmt.Errorf(\"conflicting file for %q with checksum %x, existing has checksum %x\", name, want.checksum, checksum) }",
  "if bytes.Equal(got.checksum, want.checksum) { return false, nil }",
  "for _, replace := range got.pkg.Replaces { if want.pkg.Name == replace { return false, nil } }",
  "replaces := false",
  "for _, replace := range want.pkg.Replaces { if got.pkg.Name == replace { replaces = true break } }",
  "sameOrigin := got.pkg.Origin == want.pkg.Origin",
  "if !sameOrigin && !replaces { return false, apk.FileConflictError{ Path: name, Origins: map[string]string{ got.pkg.Name: got.pkg.Origin, want.pkg.Name: want.pkg.Origin, }, } }",
  "anode := &node{ name: base, mode: entryMode(&te.header), dir: false, modTime: te.header.ModTime, linkTarget: te.header.Linkname, xattrs: map[string][]byte{}, hardlinks: map[string]*tar.Header{}, te: &te, }",
  "parentAnode.children[base] = anode",
  "return true, nil"] : List String) := by rfl

theorem tie_stmtsWriteHeaderRegLink : Generated.stmtsWriteHeaderRegLink = (["if hdr.Typeflag == tar.TypeSymlink { if target, err := m.Readlink(hdr.Name); err == nil && target == hdr.Linkname { return false, nil } }",
  "checksum, err := checksumFromHeader(&hdr)",
  "if err != nil { return false, err }",
  "if checksum == nil { return false, fmt.Errorf(\"checksum is nil for %s\", hdr.Name) }",
  "te := tarEntry{ tfs: tfs, header: hdr, checksum: checksum, pkg: pkg, }",
  "installed, err := m.writeHeader(hdr.Name, te)",
  "if err != nil { return false, fmt.Errorf(\"writing header for %q: %w\", hdr.Name, err) }",
  "for k, v := range hdr.PAXRecords { if !strings.HasPrefix(k, xattrTarPAXRecordsPrefix) { continue } attrName := strings.TrimPrefix(k, xattrTarPAXRecordsPrefix) if err := m.SetXattr(hdr.Name, attrName, []byte(v)); err != nil { return false, fmt.Errorf(\"error setting xattr %s on %s: %w\", attrName, hdr.Name, err) } }",
  "return installed, nil"] : List String) := by rfl

theorem tie_stmtsWriteOneFile : Generated.stmtsWriteOneFile = (["if _, err := a.fs.Stat(header.Name); err == nil { if !allowOverwrite { w := sha1.New() f, err := a.fs.Open(header.Name) if err != nil { return fmt.Errorf(\"unable to open existing file to calculate sum %s: %w\", header.Name, err) } defer f.Close() if _, err := io.Copy(w, f); err != nil { return fmt.Errorf(\"unable to calculate sum of existing file %s: %w\", header.Name, err) } return FileExistsError{Path: header.Name, Sha1: w.Sum(nil)} } if err := a.fs.Remove(header.Name); err != nil { return fmt.Errorf(\"unable to remove existing file %s: %w\", header.Name, err) } }",
  "f, err := a.fs.OpenFile(header.Name, os.O_CREATE|os.O_EXCL|os.O_WRONLY, header.FileInfo().Mode()&^os.ModeType)",
  "if err != nil { return fmt.Errorf(\"error creating file %s: %w\", header.Name, err) }",
  "defer f.Close()",
  "if _, err := io.CopyN(f, r, header.Size); err != nil { return fmt.Errorf(\"unable to write content for %s: %w\", header.Name, err) }",
  "return nil"] : List String) := by rfl

theorem tie_stmtsInstallRegularDecision : Generated.stmtsInstallRegularDecision = (["if err := a.writeOneFile(header, r, false); err != nil",
  "var fileExistsError FileExistsError",
  "if !errors.As(err, &fileExistsError) || pkg.Origin == \"\" { return false, err }",
  "if bytes.Equal(checksum, fileExistsError.Sha1) { return false, nil }",
  "pk, ok := a.installedFiles[header.Name]",
  "if !ok { return false, fmt.Errorf(\"found existing file we did not install (this should never happen): %s\", header.Name) }",
  "for _, rep := range pk.Replaces { if pkg.Name == rep { return false, nil } }",
  "_, isReplaced := replaceMap[pk.Name]",
  "if pk.Origin != pkg.Origin && !isReplaced { return false, FileConflictError{ Path: header.Name, Origins: map[string]string{ pk.Name: pk.Origin, pkg.Name: pkg.Origin, }, } }",
  "if err := a.writeOneFile(header, r, true); err != nil { return false, err }"] : List String) := by rfl

/-- where the two inputs of the streaming decision come from: `checksum` is the header's PAX record
(`Entry.sum`), `replaceMap` holds the entries of `pkg.Replaces` as raw strings (`want.replaces.contains
pk.name` in `decideStream`: no constraint is parsed — F07h) -/
theorem tie_stmtsInstallRegularPre : Generated.stmtsInstallRegularPre = (["checksum, err := checksumFromHeader(header)",
  "if err != nil { return false, err }",
  "replaceMap := map[string]struct{}{}",
  "for _, r := range pkg.Replaces { replaceMap[r] = struct{}{} }"] : List String) := by rfl

/-- F07e: no function on the installation path applies an owner (`Model.nodeOwner` is constant 0:0) -/
theorem tie_installChownCalls : Generated.installChownCalls = ([] : List String) := by rfl

theorem tie_stmtsInstallRegularAfter : Generated.stmtsInstallRegularAfter = (["return true, nil"] : List String) := by rfl

theorem tie_stmtsStreamDir : Generated.stmtsStreamDir = (["if fi, err := a.fs.Stat(header.Name); err == nil && fi.Mode()&os.ModeSymlink != 0 { if target, err := a.fs.Readlink(header.Name); err == nil { if fi, err = a.fs.Stat(target); err == nil && fi.IsDir() { break } } }",
  "if err := a.fs.MkdirAll(header.Name, header.FileInfo().Mode().Perm()); err != nil { return nil, fmt.Errorf(\"error creating directory %s: %w\", header.Name, err) }"] : List String) := by rfl

theorem tie_stmtsStreamReg : Generated.stmtsStreamReg = (["installed, err := a.installRegularFile(header, tr, tmpDir, pkg)",
  "if err != nil { return nil, err }",
  "if installed { a.installedFiles[header.Name] = pkg if err := a.fs.Chtimes(header.Name, header.AccessTime, header.ModTime); err != nil { return nil, fmt.Errorf(\"chtimes for %s: %w\", header.Name, err) } }"] : List String) := by rfl

theorem tie_stmtsStreamSymlink : Generated.stmtsStreamSymlink = (["if target, err := a.fs.Readlink(header.Name); err == nil && target == header.Linkname { continue }",
  "if err := a.fs.Symlink(header.Linkname, header.Name); err != nil { return nil, fmt.Errorf(\"unable to install symlink from %s -> %s: %w\", header.Name, header.Linkname, err) }"] : List String) := by rfl

theorem tie_streamFilesAppend : Generated.streamFilesAppend = "files = append(files, *header)" := by rfl

/- The first statement is the empty-name guard added by the repair recorded as F15c (C15).  It is
outside the model's domain: every theorem here takes `WF e`, which makes names non-empty, and the
generator never emits an empty name; the guard itself is exercised by C15's hostile-apk inputs.
The second statement is the repeated-name guard added by the repair recorded as F05e (C05): a data
section that names a file or link twice is refused before anything is laid out.  It is likewise outside
this model's domain (the entries of one package carry distinct non-directory names: the conflict rules are
about names shared BETWEEN packages); C05's model (`Model/Authentic.lean`, `installed_bytes_verified`) is
the one that covers it, and corr:authentic exercises it with its dup-* shapes. -/
theorem tie_stmtsLazyLoop : Generated.stmtsLazyLoop = (["if file.Header.Name == \"\" { return nil, fmt.Errorf(\"package %s contains a tar entry with an empty name\", pkg.Name) }",
  "if file.Header.Typeflag != tar.TypeDir { if _, ok := seen[file.Header.Name]; ok { return nil, fmt.Errorf(\"package %s contains more than one tar entry named %q\", pkg.Name, file.Header.Name) } seen[file.Header.Name] = struct{}{} }",
  "installed, err := wh.WriteHeader(file.Header, tf, pkg)",
  "if err != nil { return nil, err }",
  "if installed && file.Header.Typeflag == tar.TypeReg { a.installedFiles[file.Header.Name] = pkg }",
  "files = append(files, file.Header)"] : List String) := by rfl

/-! ## the mode FIELD of a header never decides anything (F07j)

What an entry is says its typeflag.  The mode field of a legal tar header may also carry `S_IF*` file-type bits
and set-id / sticky bits; `tar.Header.FileInfo().Mode()` decodes the type bits, so every place of the
installation that asks `FileInfo()` / `Entry.Type()` instead of the typeflag would let the field decide. -/

/-- the ownership tests of the two install loops, as they stand in the source: every assignment to
`a.installedFiles[…]` on the installation path with the condition it is under (the extractor reports an
assignment that is not directly under an `if`).  Lazy: the TYPEFLAG; streaming: `installed` inside
`case tar.TypeReg` of `switch header.Typeflag`.  Model: `Conflict.ownerTest`. -/
theorem tie_ownerTests : Generated.ownerTests =
    [("lazilyInstallAPKFiles", "if installed && file.Header.Typeflag == tar.TypeReg { a.installedFiles[file.Header.Name] = pkg }"),
     ("installAPKFiles case tar.TypeReg:", "if installed { a.installedFiles[header.Name] = pkg }")] := by rfl

/-- tarfs: the node of a package entry gets the mode field masked to permission + set-id + sticky bits
(repair F17j), so the kind of the node comes from the typeflag alone -/
theorem tie_stmtsEntryMode : Generated.stmtsEntryMode =
    (["hdr := *h", "hdr.Mode &= 0o7777", "return hdr.FileInfo().Mode()"] : List String) := by rfl

/-- streaming backends: the mode `writeOneFile` creates the file with has no `fs.ModeType` bit (repair F07j) -/
theorem tie_streamCreateMode : Generated.streamCreateMode = "header.FileInfo().Mode() &^ os.ModeType" := by rfl

/-- the model's ownership test does not look at the mode field -/
theorem ownerTest_mode_field (b : Bool) (e : Entry) (m : Nat) : ownerTest b (e.withMode m) = ownerTest b e := rfl

/-- the lazy path of the model records an owner exactly under `ownerTest`: a header that `lazyFile` wrote
(`installed = true` and a change of the tree) enters `installedFiles` iff its TYPEFLAG is regular -/
theorem lazyFile_inst_ownerTest (c : Cfg) (pkgs : List Pkg) (i : Nat) (e : Entry) (st st2 : St) (app : Bool)
    (h : lazyFile c pkgs i e st = .ok (st2, app)) :
    st2.inst = st.inst ∨ (ownerTest true e = true ∧ st2.inst = (e.name, i) :: st.inst) := by
  unfold lazyFile at h
  dsimp only at h
  by_cases hk : e.kind = .reg
  · have hot : ownerTest true e = true := by simp [ownerTest, hk]
    simp only [hk, if_true] at h
    repeat' (split at h)
    all_goals first
      | (cases h; done)
      | (cases h; first | exact Or.inl rfl | exact Or.inr ⟨hot, rfl⟩)
  · simp only [hk, if_false] at h
    repeat' (split at h)
    all_goals first
      | (cases h; done)
      | (cases h; exact Or.inl rfl)

/-- an ownership test through `FileInfo()` (`file.Type().IsRegular()`) is a DIFFERENT test: a regular-file entry
(typeflag '0') whose mode field carries c_ISDIR is not "regular" for it -/
theorem fileInfoRegular_differs :
    ∃ e : Entry, e.kind = .reg ∧ ownerTest true e = true ∧ fileInfoRegular e = false ∧
      fileInfoRegular (e.withMode (e.mode % 512)) = true :=
  ⟨{ name := "etc/x".toList, kind := .reg, mode := 0o40644 }, by decide⟩

/-- **mode-field independence, one header**: on every backend, Impl and Spec, the step taken for a header
depends on its mode field only through the nine permission bits — type bits (agreeing with the typeflag or
not) and set-id / sticky bits change neither the tree, nor `installedFiles`, nor the decision, the flags,
the outcome, nor whether the header is appended to the package's `files` -/
theorem stepEntry_mode_field (c : Cfg) (pkgs : List Pkg) (i : Nat) (e : Entry) (m : Nat) (st : St)
    (h : m % 512 = e.mode % 512) :
    stepEntry c pkgs i (e.withMode m) st = stepEntry c pkgs i e st := by
  have h1 : (e.withMode m).name = e.name := rfl
  have h2 : (e.withMode m).kind = e.kind := rfl
  have h3 : (e.withMode m).sum = e.sum := rfl
  have h4 : (e.withMode m).target = e.target := rfl
  have h5 : (e.withMode m).size = e.size := rfl
  have hp : permOf (e.withMode m) = permOf e := by simp [permOf, Entry.withMode, h]
  have hf : fileNode i (e.withMode m) = fileNode i e := by simp only [fileNode, hp, h3, h5]
  have ha : aliasFlag st.tree (e.withMode m) = aliasFlag st.tree e := by simp only [aliasFlag, h1]
  have hs : statThroughFlag st.tree (e.withMode m) = statThroughFlag st.tree e := by simp only [statThroughFlag, h1]
  have hl : lazyFile c pkgs i (e.withMode m) st = lazyFile c pkgs i e st := by
    simp only [lazyFile, hp, hf, h1, h2, h3, h4]
  have hr : streamReg c pkgs i (e.withMode m) st = streamReg c pkgs i e st := by
    simp only [streamReg, hf, h1, h3]
  have hk : streamLink c i (e.withMode m) st = streamLink c i e st := by
    simp only [streamLink, h1, h3, h4]
  simp only [stepEntry, hl, hr, hk, ha, hs, hp, h1, h2]

/-- the header with its mode field reduced to the nine permission bits -/
def normE (e : Entry) : Entry := e.withMode (e.mode % 512)

def normFiles : Except (Outcome × List Flag) (St × List Entry) → Except (Outcome × List Flag) (St × List Entry)
  | .ok (s, r) => .ok (s, r.map normE)
  | .error o => .error o

theorem stepEntry_normE (c : Cfg) (pkgs : List Pkg) (i : Nat) (e : Entry) (st : St) :
    stepEntry c pkgs i (normE e) st = stepEntry c pkgs i e st :=
  stepEntry_mode_field c pkgs i e (e.mode % 512) st (Nat.mod_mod _ _)

/-- **mode-field independence, one package**: the data section with every mode field reduced to its
permission bits is installed exactly like the original one — same outcome, same tree, same
`installedFiles`, same flags and log, and the same headers in `files` (up to the reduction) -/
theorem installPkg_mode_field (c : Cfg) (pkgs : List Pkg) (i : Nat) (es : List Entry) :
    ∀ (st : St) (files : List Entry),
      installPkg c pkgs i (es.map normE) st (files.map normE) = normFiles (installPkg c pkgs i es st files) := by
  induction es with
  | nil => intro st files; simp [installPkg, normFiles]
  | cons e rest ih =>
    intro st files
    simp only [List.map_cons, installPkg, stepEntry_normE]
    cases hstep : stepEntry c pkgs i e st with
    | error o => simp [normFiles]
    | ok r =>
      obtain ⟨st2, app⟩ := r
      cases app
      · simpa using ih st2 files
      · have := ih st2 (files ++ [e])
        simpa using this

example : normE { name := "etc/x".toList, kind := .reg, mode := 0o44755 } =
    { name := "etc/x".toList, kind := .reg, mode := 0o755 } := by decide

theorem tie_stmtsPrune : Generated.stmtsPrune = (["owner, ok := a.installedFiles[hdr.Name]",
  "if !ok { return false }",
  "return owner != pkg"] : List String) := by rfl

theorem tie_stmtsRecordLoop : Generated.stmtsRecordLoop = (["pkg := infos[i]",
  "if pkg == nil { continue }",
  "files = slices.DeleteFunc(files, <closure>)",
  "if err := a.AddInstalledPackage(pkg, files); err != nil { return nil, fmt.Errorf(\"unable to update installed file for pkg %s: %w\", pkg.Name, err) }"] : List String) := by rfl

theorem tie_stmts_sortTarHeaders : Generated.stmts_sortTarHeaders = (["var ( directoryChildren = map[string][]string{} all = map[string]tar.Header{} )",
  "for _, header := range headers { cleanedName := filepath.Clean(header.Name) if cleanedName == \".\" { continue } dir := filepath.Dir(cleanedName) directoryChildren[dir] = append(directoryChildren[dir], cleanedName) all[cleanedName] = header }",
  "var dirEntries = make([]string, 0, len(directoryChildren))",
  "for dir := range directoryChildren { dirEntries = append(dirEntries, dir) }",
  "sort.Strings(dirEntries)",
  "var topLevelDirs = make([]string, 0, len(dirEntries))",
  "for _, dir := range dirEntries { if filepath.Dir(dir) == \".\" { topLevelDirs = append(topLevelDirs, dir) } }",
  "sort.Strings(topLevelDirs)",
  "sorted := sortChildrenTarHeaders(directoryChildren, all, topLevelDirs)",
  "return sorted"] : List String) := by rfl

theorem tie_stmts_sortChildrenTarHeaders : Generated.stmts_sortChildrenTarHeaders = (["sort.Strings(children)",
  "var sorted = make([]tar.Header, 0, len(children))",
  "for _, child := range children { header, ok := all[child] if !ok { continue } if header.Typeflag != tar.TypeDir { sorted = append(sorted, header) } }",
  "for _, child := range children { header, ok := all[child] if !ok { continue } if header.Typeflag == tar.TypeDir { sorted = append(sorted, header) children, ok := directoryChildren[child] if !ok || len(children) == 0 { continue } sortedChildren := sortChildrenTarHeaders(directoryChildren, all, children) sorted = append(sorted, sortedChildren...) } }",
  "return sorted"] : List String) := by rfl

end Apko.C07
