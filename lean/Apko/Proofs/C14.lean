/-
C14 — Multi-arch builds select only packages available on every architecture.

Model: `disqualifyDifference`, `filterPackages`, `resolvePackage` in `Apko/Model/Resolver.lean`.
Proved for ALL families of per-architecture universes:
* `dq_spec`            the up-front set is exactly "missing (name, version) on some other architecture";
* `dq_single`          with one architecture nothing is disqualified (single-arch resolution unaffected);
* `dq_perm_invariant`  membership does not depend on the order of the architectures (Go ranges over maps);
* `filter_available`   every candidate that passes `filterPackages` under that set is available on
                       every other architecture, hence so is every package picked through it
                       (`resolvePackage_available`).
* `dq_ignores_other_fields` / `dq_siblings_as_sets` / `oracle_ignores_other_fields`  the set (and the oracle) are
                       functions of the per-architecture (identity, name, version) lists and of NOTHING else a record
                       carries — in particular not of its architecture FIELD (`A:noarch`, `all`, …): indexes are per
                       architecture whatever their records say; ties `tie_dqStmts`, `tie_dqPkgReads`,
                       `tie_newPkgResolverReads` (regenerated statements / field reads of `disqualifyDifference`).
The property is FALSE for install_if additions, which are appended without passing the filter
(F14a, witness below, replayed on the Go code from corpus/multiarch/F14a.json).

For the WHOLE resolution the driver executes (`resolve`, every Cfg / world / family; invariants through
`depLoop`, `getDeps`, `getPackageWithDependencies`, `resolve.go` in `Lemmas/ResolverAvail.lean`):
* `resolve_avoids_dq`          no member of a resolution that did not raise ghost flag "F02b" (install_if
                               expansion) is in the up-front set `dq0`;
* `resolve_avoids_dq_or_installIf`  without any flag hypothesis: a member is outside `dq0` or carries an
                               install_if rule (and "F02b" was raised);
* `resolve_available_partial`  two or more architectures, no "F02b": the driver's oracle
                               `firstUnavailable archs self r.install` is `none`, for every `self`;
* `unavailable_is_F14a`        whatever the oracle reports on the model's own output carries an install_if
                               rule, so the driver's class is "F14a", never "unlisted";
* `multiarch_all_available`    the same for every member of a family with distinct architecture names;
* `resolve_available`          the full statement (a `def`), `not_resolve_available` from the F14a witness;
* `single_arch_unaffected`     with one architecture `resolve` runs exactly as with the empty set.
-/
import Apko.Model.Resolver
import Apko.Proofs.C02
import Apko.Generated.Resolver
import Apko.Proofs.Lemmas.ResolverAvail
import Apko.Proofs.Lemmas.DqKeys

namespace Apko.C14
open Apko Apko.Resolver

/-- tie: the single-architecture shortcut the model's `if archs.length = 1` mirrors -/
theorem tie_dqSingleArchCond : Generated.dqSingleArchCond = "len(byArch) == 1" := by decide

def availableOn (other : Universe) (p : Pkg) : Bool :=
  other.all.any fun q => q.name = p.name && q.version = p.version

theorem lookupT_mem {α} {m : List (Text × α)} {k : Text} {v : α} (h : lookupT m k = some v) :
    (k, v) ∈ m := by
  unfold lookupT at h
  simp only [Option.map_eq_some_iff] at h
  obtain ⟨e, he, hv⟩ := h
  have h1 := List.mem_of_find?_eq_some he
  have h2 := List.find?_some he
  simp only [decide_eq_true_eq] at h2
  cases e; simp_all

/-- T `dq_spec`: for two or more architectures, a package of `self` is disqualified up front iff
its (name, version) is missing from some other architecture. -/
theorem dq_spec (archs : List (Text × Universe)) (self : Text) (u : Universe)
    (hl : archs.length ≠ 1) (hu : lookupT archs self = some u) (i : Nat) :
    i ∈ disqualifyDifference archs self ↔
      ∃ p ∈ u.all, p.id = i ∧ ∃ a other, (a, other) ∈ archs ∧ a ≠ self ∧ availableOn other p = false := by
  unfold disqualifyDifference
  simp only [hl, if_false, hu, List.mem_map, List.mem_filter, List.any_eq_true, Bool.and_eq_true,
    bne_iff_ne, ne_eq, Bool.not_eq_true', availableOn]
  constructor
  · rintro ⟨p, ⟨hp, ⟨a, other⟩, hm, hne, hav⟩, rfl⟩
    exact ⟨p, hp, rfl, a, other, hm, hne, hav⟩
  · rintro ⟨p, hp, rfl, a, other, hm, hne, hav⟩
    exact ⟨p, ⟨hp, (a, other), hm, hne, hav⟩, rfl⟩

/-- T `dq_single`: resolving a single architecture is unaffected by the filtering -/
theorem dq_single (archs : List (Text × Universe)) (self : Text) (h : archs.length = 1) :
    disqualifyDifference archs self = [] := by
  simp [disqualifyDifference, h]

/-- T `dq_perm_invariant`: the set does not depend on the order in which the architectures are
visited (the Go code ranges over two maps), provided architecture names are distinct (map keys). -/
theorem dq_perm_invariant (a1 a2 : List (Text × Universe)) (self : Text) (u : Universe)
    (hp : a1.Perm a2) (h1 : lookupT a1 self = some u) (h2 : lookupT a2 self = some u) (i : Nat) :
    i ∈ disqualifyDifference a1 self ↔ i ∈ disqualifyDifference a2 self := by
  by_cases hl : a1.length = 1
  · have hl2 : a2.length = 1 := by rw [← hp.length_eq]; exact hl
    simp [dq_single _ _ hl, dq_single _ _ hl2]
  · have hl2 : a2.length ≠ 1 := by rw [← hp.length_eq]; exact hl
    rw [dq_spec a1 self u hl h1, dq_spec a2 self u hl2 h2]
    constructor
    · rintro ⟨p, hp', hi, a, o, hm, r⟩
      exact ⟨p, hp', hi, a, o, hp.mem_iff.mp hm, r⟩
    · rintro ⟨p, hp', hi, a, o, hm, r⟩
      exact ⟨p, hp', hi, a, o, hp.mem_iff.mpr hm, r⟩

/-- T `filter_available`: whatever passes the candidate filter under the cross-architecture set is
available on every other architecture (ids identify packages of `u`). -/
theorem filter_available (archs : List (Text × Universe)) (self : Text) (u : Universe)
    (hl : archs.length ≠ 1) (hu : lookupT archs self = some u)
    (dq : List Nat) (hdq : ∀ i ∈ disqualifyDifference archs self, i ∈ dq)
    {cands : List Pkg} (hc : ∀ p ∈ cands, p ∈ u.all)
    {version : Text} {dep : Dep} {allowPin preferPin : Text} {installed : Option Pkg} {p : Pkg}
    (h : p ∈ filterPackages cands dq version dep allowPin preferPin installed) :
    ∀ a other, (a, other) ∈ archs → a ≠ self → availableOn other p = true := by
  intro a other hm hne
  have ⟨hnd, hpc⟩ := C02.filter_excludes_dq h
  cases hav : availableOn other p
  · exfalso
    have : p.id ∈ disqualifyDifference archs self :=
      (dq_spec archs self u hl hu p.id).mpr ⟨p, hc p hpc, rfl, a, other, hm, hne, hav⟩
    have := hdq _ this
    simp only [List.contains_eq_mem, decide_eq_false_iff_not] at hnd
    exact hnd this
  · rfl

/-! ## what the availability test reads of a package record

The up-front set depends on (name, version) membership per architecture index and on NOTHING else of a record: not on
origin, repository, pin, priority, dependencies, provides, install_if (fields of the model's record), and not on what
the model's record does not even have — the architecture FIELD `A:` (`noarch`, `all`, another architecture's name,
empty), checksum, sizes.  An index is per architecture whatever its records say about themselves: a `noarch` build
listed by one architecture only is disqualified like any other.  The tie is the regenerated statement list of
`disqualifyDifference` and the selector chains it (and `newPkgResolver`, whose `nameMap` it ranges over) reads of the
things it iterates over. -/

/-- tie: every statement of `disqualifyDifference` ("<depth> <text>", source order).  The model mirrors exactly this:
a single-architecture shortcut, per architecture the set of (Name, Version) of EVERY listed record, and for every record
of `arch` and every other architecture one membership test — no record is skipped, no other field is consulted. -/
theorem tie_dqStmts : Generated.dqStmts =
    ["0 dq := map[*RepositoryPackage]string{}",
     "0 if len(byArch) == 1",
     "1 return dq",
     "0 allowablePackages := map[string]map[string]map[string]struct{}{}",
     "0 for arch, indexes := range byArch",
     "1 allowed := map[string]map[string]struct{}{}",
     "1 for _, index := range indexes",
     "2 for _, pkg := range index.Packages()",
     "3 versions, ok := allowed[pkg.Name]",
     "3 if !ok",
     "4 versions = map[string]struct{}{}",
     "3 versions[pkg.Version] = struct{}{}",
     "3 allowed[pkg.Name] = versions",
     "1 allowablePackages[arch] = allowed",
     "0 for arch := range allowablePackages",
     "1 p := newPkgResolver(ctx, byArch[arch])",
     "1 for otherArch, allowed := range allowablePackages",
     "2 if otherArch == arch",
     "3 continue",
     "2 for _, pkgVersions := range p.nameMap",
     "3 for _, pkg := range pkgVersions",
     "4 versions, ok := allowed[pkg.Name]",
     "4 if !ok",
     "5 dq[pkg.RepositoryPackage] = fmt.Sprintf(\"package %q not available for arch %q\", pkg.Filename(), otherArch)",
     "5 continue",
     "4 if _, ok := versions[pkg.Version]; !ok",
     "5 dq[pkg.RepositoryPackage] = fmt.Sprintf(\"package %q not available for arch %q\", pkg.Filename(), otherArch)",
     "0 return dq"] := by rfl

/-- tie: of the things it iterates over `disqualifyDifference` reads the packages of an index, and of a record its
name, its version, the object itself (the key of the result map) and `Filename()` (in the message text, which nothing
compares) -/
theorem tie_dqPkgReads : Generated.dqPkgReads =
    ["index.Packages",
     "pkg.Filename",
     "pkg.Name",
     "pkg.RepositoryPackage",
     "pkg.Version"] := by rfl

/-- tie: what `newPkgResolver` (whose `nameMap` the second loop ranges over) reads of a record — it skips nothing:
every record is appended under its name (and under what it provides / as an install_if trigger) -/
theorem tie_newPkgResolverReads : Generated.newPkgResolverReads =
    ["index.Count",
     "index.Name",
     "index.Packages",
     "pkg.InstallIf",
     "pkg.Name",
     "pkg.Provides"] := by rfl

/-- over the regenerated list itself: nothing but name, version, identity and the message text is read of a record -/
theorem dq_reads_only_keys :
    (Generated.dqPkgReads.filter fun r => r != "index.Packages").all
      (fun r => r == "pkg.Name" || r == "pkg.Version" || r == "pkg.RepositoryPackage" || r == "pkg.Filename") = true := by
  decide

/-- T `dq_ignores_other_fields`: two families whose architectures list records with the same identities, names and
versions (in the same order) have the same up-front set, for every `self` — whatever else the records carry. -/
theorem dq_ignores_other_fields (a1 a2 : List (Text × Universe)) (self : Text) (h : keyView a1 = keyView a2) :
    disqualifyDifference a1 self = disqualifyDifference a2 self := by
  rw [dq_factors_through_keys, dq_factors_through_keys, h]

/-- T `dq_siblings_as_sets`: of the SIBLINGS not even order, repetition or identity matters — only which
(name, version) pairs some other architecture lacks. -/
theorem dq_siblings_as_sets (a1 a2 : List (Text × Universe)) (self : Text) (hlen : a1.length = a2.length)
    (hself : (lookupT a1 self).map (fun u => u.all.map pkey) = (lookupT a2 self).map (fun u => u.all.map pkey))
    (hsib : ∀ n v, ((keyView a1).any fun e => e.1 != self && !listed e.2 n v) =
                   ((keyView a2).any fun e => e.1 != self && !listed e.2 n v)) :
    disqualifyDifference a1 self = disqualifyDifference a2 self := by
  rw [dq_factors_through_keys, dq_factors_through_keys]
  apply dqOfKeys_siblings_as_sets
  · simpa [keyView] using hlen
  · unfold keyView
    rw [lookupT_map (fun u : Universe => u.all.map pkey), lookupT_map (fun u : Universe => u.all.map pkey)]
    exact hself
  · exact hsib

/-- the oracle's membership test is the same function of the key view -/
theorem availableOn_eq_listed (other : Universe) (p : Pkg) :
    availableOn other p = listed (other.all.map pkey) p.name p.version := by
  unfold availableOn listed
  rw [List.any_map]
  rfl

/-- non-vacuity: the records differ in origin, priority, dependencies, provides, install_if, repository — the key
views agree, and the newer build that `b` lacks is disqualified in both families -/
example :
    let fam1 : List (Text × Universe) :=
      [("a".toList, [⟨[], [], [C02.mk 0 "lib" "1" [] [] [], C02.mk 1 "lib" "2" [] [] []]⟩]),
       ("b".toList, [⟨[], [], [C02.mk 0 "lib" "1" [] [] []]⟩])]
    let fam2 : List (Text × Universe) :=
      [("a".toList, [⟨"edge".toList, "u".toList, [{ C02.mk 0 "lib" "1" ["x"] ["v=1"] ["y"] with priority := 7, origin := "o".toList }]⟩,
                    ⟨[], [], [C02.mk 1 "lib" "2" ["z"] [] []]⟩]),
       ("b".toList, [⟨[], [], [C02.mk 0 "lib" "1" [] ["w"] []]⟩])]
    fam1.map (·.2.length) ≠ fam2.map (·.2.length) ∧ (fam1.map (·.2.all.map (·.deps))) ≠ (fam2.map (·.2.all.map (·.deps))) ∧
      keyView fam1 = keyView fam2 ∧ disqualifyDifference fam1 "a".toList = [1] ∧
      disqualifyDifference fam2 "a".toList = [1] := by
  refine ⟨by decide, by decide, by decide, by decide, by decide⟩

/-- F14a: an install_if package that exists on one architecture only is still in that
architecture's multi-arch set (the install_if expansion never consults the filter). -/
def x86 : Universe := [⟨[], "r/x86_64".toList,
  [C02.mk 0 "lib" "1" [] [] [], C02.mk 1 "top" "1" ["lib"] [] [], C02.mk 2 "xlib" "1" [] [] ["lib"]]⟩]
def arm : Universe := [⟨[], "r/aarch64".toList,
  [C02.mk 0 "lib" "1" [] [] [], C02.mk 1 "top" "1" ["lib"] [] []]⟩]
def famF14a : List (Text × Universe) := [("x86_64".toList, x86), ("aarch64".toList, arm)]

set_option maxRecDepth 100000 in
theorem F14a_witness :
    (match resolve { u := x86, order := ownNames x86, bothBad := .eq, installIfFixed := true, addedOrder := id }
        ["top".toList] (disqualifyDifference famF14a "x86_64".toList) with
     | .ok r => r.install.any fun p => !availableOn arm p
     | _ => false) = true := by decide

/-- non-vacuity of `filter_available`: a two-architecture family where the newer build is disqualified -/
example : disqualifyDifference
    [("a".toList, [⟨[], [], [C02.mk 0 "lib" "1" [] [] [], C02.mk 1 "lib" "2" [] [] []]⟩]),
     ("b".toList, [⟨[], [], [C02.mk 0 "lib" "1" [] [] []]⟩])] "a".toList = [1] := by decide

/-! ## the whole resolution

`resolve c world dq0` is what the driver executes for every architecture `self` with
`dq0 = disqualifyDifference archs self` (`Driver/Resolver.lean`, ops `r.avail` / `r.corr*`). -/

/-- T `resolve_avoids_dq`: for every configuration, world and up-front set `dq0` — no member of a successful
resolution is in `dq0`, provided the install_if expansion appended nothing (ghost flag "F02b" of the model:
`getPackageWithDependencies` raises it exactly when the install_if scan lengthened the list). -/
theorem resolve_avoids_dq (c : Cfg) (w : List Text) (dq0 : List Nat) (r : Resolution)
    (h : resolve c w dq0 = .ok r) (hf : "F02b" ∉ r.flags) :
    ∀ p ∈ r.install, dq0.contains p.id = false := by
  intro p hp
  rcases resolve_avoids c w dq0 r h p hp with h1 | ⟨h1, _⟩
  · exact h1
  · exact absurd h1 hf

/-- T `resolve_avoids_dq_or_installIf`: with NO hypothesis on the flags — a member of a successful resolution
is outside `dq0`, or it carries an install_if rule and "F02b" was raised (the install_if path is the only way
around the candidate filter). -/
theorem resolve_avoids_dq_or_installIf (c : Cfg) (w : List Text) (dq0 : List Nat) (r : Resolution)
    (h : resolve c w dq0 = .ok r) :
    ∀ p ∈ r.install, dq0.contains p.id = false ∨ ("F02b" ∈ r.flags ∧ p.installIf ≠ []) := by
  intro p hp
  rcases resolve_avoids c w dq0 r h p hp with h1 | ⟨h1, h2⟩
  · exact Or.inl h1
  · exact Or.inr ⟨h1, h2.installIf_ne⟩

/-- the driver's oracle answers `none` iff every member is available on every other architecture -/
theorem firstUnavailable_none_iff (archs : List (Text × Universe)) (self : Text) (s : List Pkg) :
    Driver.Resolver.firstUnavailable archs self s = none ↔
      ∀ p ∈ s, ∀ a other, (a, other) ∈ archs → a ≠ self → availableOn other p = true := by
  unfold Driver.Resolver.firstUnavailable
  rw [List.findSome?_eq_none_iff]
  constructor
  · intro h p hp a other hm hne
    have h1 := h p hp
    simp only [Option.map_eq_none_iff] at h1
    have h2 := List.find?_eq_none.mp h1 (a, other) hm
    cases hav : availableOn other p
    · exfalso
      apply h2
      unfold availableOn at hav
      simp only [Bool.and_eq_true, bne_iff_ne, ne_eq, Bool.not_eq_true']
      exact ⟨hne, hav⟩
    · rfl
  · intro h p hp
    simp only [Option.map_eq_none_iff]
    rw [List.find?_eq_none]
    rintro ⟨a, other⟩ hm
    simp only [Bool.and_eq_true, bne_iff_ne, ne_eq, Bool.not_eq_true', not_and, Bool.not_eq_false]
    intro hne
    exact h p hp a other hm hne

/-- the oracle over the key view: it, too, looks at (name, version) membership per architecture and nothing else -/
theorem firstUnavailable_none_iff_keys (archs : List (Text × Universe)) (self : Text) (s : List Pkg) :
    Driver.Resolver.firstUnavailable archs self s = none ↔
      ∀ p ∈ s, ∀ e ∈ keyView archs, e.1 ≠ self → listed e.2 p.name p.version = true := by
  rw [firstUnavailable_none_iff]
  constructor
  · intro h p hp e he hne
    obtain ⟨⟨a, o⟩, hm, rfl⟩ := List.mem_map.mp he
    rw [← availableOn_eq_listed]
    exact h p hp a o hm hne
  · intro h p hp a o hm hne
    rw [availableOn_eq_listed]
    exact h p hp (a, o.all.map pkey) (List.mem_map.mpr ⟨(a, o), hm, rfl⟩) hne

/-- T `oracle_ignores_other_fields`: the verdict on an install set is the same for two families with the same key
views (the oracle of the suites is unchanged by the architecture-field dimension of the generators) -/
theorem oracle_ignores_other_fields (a1 a2 : List (Text × Universe)) (h : keyView a1 = keyView a2) (self : Text)
    (s : List Pkg) :
    Driver.Resolver.firstUnavailable a1 self s = none ↔ Driver.Resolver.firstUnavailable a2 self s = none := by
  rw [firstUnavailable_none_iff_keys, firstUnavailable_none_iff_keys, h]

/-- what the driver's oracle reports is a member that is missing on a named other architecture -/
theorem firstUnavailable_some {archs : List (Text × Universe)} {self : Text} {s : List Pkg} {p : Pkg}
    {a : Text} (h : Driver.Resolver.firstUnavailable archs self s = some (p, a)) :
    p ∈ s ∧ ∃ other, (a, other) ∈ archs ∧ a ≠ self ∧ availableOn other p = false := by
  unfold Driver.Resolver.firstUnavailable at h
  obtain ⟨q, hq, h1⟩ := List.exists_of_findSome?_eq_some h
  simp only [Option.map_eq_some_iff] at h1
  obtain ⟨⟨a', other⟩, hf, he⟩ := h1
  simp only [Prod.mk.injEq] at he
  obtain ⟨rfl, rfl⟩ := he
  have hm := List.mem_of_find?_eq_some hf
  have hp := List.find?_some hf
  simp only [Bool.and_eq_true, bne_iff_ne, ne_eq, Bool.not_eq_true'] at hp
  exact ⟨hq, other, hm, hp.1, hp.2⟩

/-- a package of `self`'s universe outside the cross-architecture set exists everywhere else -/
theorem available_of_not_dq (archs : List (Text × Universe)) (self : Text) (u : Universe)
    (hl : archs.length ≠ 1) (hu : lookupT archs self = some u) {p : Pkg} (hp : p ∈ u.all)
    (hd : (disqualifyDifference archs self).contains p.id = false) :
    ∀ a other, (a, other) ∈ archs → a ≠ self → availableOn other p = true := by
  intro a other hm hne
  cases hav : availableOn other p
  · exfalso
    have : p.id ∈ disqualifyDifference archs self :=
      (dq_spec archs self u hl hu p.id).mpr ⟨p, hp, rfl, a, other, hm, hne, hav⟩
    simp only [List.contains_eq_mem, decide_eq_false_iff_not] at hd
    exact hd this
  · rfl

/-- T `resolve_available_partial` (the property, for the whole resolution): when two or more architectures
are resolved together — `self` any of them, `u` its universe, ANY configuration over `u` (provider order,
install_if loop variant, `bothBad`), any world — and the install_if expansion appended nothing, the
driver's availability oracle finds nothing: every member exists with the same name and version on every
other requested architecture.  No hypothesis on ids, on the other universes or on the names of the
architectures is needed (`lookupT` fixes which entry is `self`; entries with the same name are skipped by
`disqualifyDifference` and by the oracle alike). -/
theorem resolve_available_partial (archs : List (Text × Universe)) (self : Text) (u : Universe)
    (hl : archs.length ≠ 1) (hu : lookupT archs self = some u) (c : Cfg) (hc : c.u = u)
    (w : List Text) (r : Resolution)
    (h : resolve c w (disqualifyDifference archs self) = .ok r) (hf : "F02b" ∉ r.flags) :
    Driver.Resolver.firstUnavailable archs self r.install = none := by
  rw [firstUnavailable_none_iff]
  intro p hp
  have hpu : p ∈ u.all := hc ▸ C02.resolve_subset c w _ r h p hp
  exact available_of_not_dq archs self u hl hu hpu (resolve_avoids_dq c w _ r h hf p hp)

/-- T `unavailable_is_F14a`: with no hypothesis on the flags — whatever the oracle reports on the model's own
answer carries an install_if rule (and "F02b" was raised), so the class the driver attaches
(`if !p.installIf.isEmpty then "F14a" else "unlisted"`) is the listed finding F14a, never `unlisted`. -/
theorem unavailable_is_F14a (archs : List (Text × Universe)) (self : Text) (u : Universe)
    (hl : archs.length ≠ 1) (hu : lookupT archs self = some u) (c : Cfg) (hc : c.u = u)
    (w : List Text) (r : Resolution)
    (h : resolve c w (disqualifyDifference archs self) = .ok r) {p : Pkg} {a : Text}
    (hun : Driver.Resolver.firstUnavailable archs self r.install = some (p, a)) :
    "F02b" ∈ r.flags ∧ (!p.installIf.isEmpty) = true := by
  obtain ⟨hp, other, hm, hne, hav⟩ := firstUnavailable_some hun
  have hpu : p ∈ u.all := hc ▸ C02.resolve_subset c w _ r h p hp
  rcases resolve_avoids_dq_or_installIf c w _ r h p hp with h1 | ⟨h1, h2⟩
  · have := available_of_not_dq archs self u hl hu hpu h1 a other hm hne
    rw [hav] at this
    exact absurd this (by simp)
  · exact ⟨h1, by simpa [List.isEmpty_iff] using h2⟩

/-- with distinct architecture names (Go map keys) every entry of the family is what `lookupT` finds -/
theorem lookupT_of_mem_distinct {α} {m : List (Text × α)} (hd : m.Pairwise (fun x y => x.1 ≠ y.1))
    {k : Text} {v : α} (h : (k, v) ∈ m) : lookupT m k = some v := by
  induction m with
  | nil => simp at h
  | cons e es ih =>
    rw [List.pairwise_cons] at hd
    rcases List.mem_cons.mp h with rfl | h1
    · simp [lookupT]
    · have hne : e.1 ≠ k := hd.1 (k, v) h1
      have := ih hd.2 h1
      unfold lookupT at this ⊢
      simpa [List.find?_cons, hne] using this

/-- T `multiarch_all_available` (the property as worded, for the family as a whole): two or more
architectures with distinct names resolved together for one world — no architecture's install set holds a
package version that another requested architecture lacks, unless the install_if expansion fired in that
architecture's run (F14a). -/
theorem multiarch_all_available (archs : List (Text × Universe)) (hl : archs.length ≠ 1)
    (hd : archs.Pairwise (fun x y => x.1 ≠ y.1)) (w : List Text) :
    ∀ self u, (self, u) ∈ archs → ∀ (c : Cfg), c.u = u → ∀ r : Resolution,
      resolve c w (disqualifyDifference archs self) = .ok r → "F02b" ∉ r.flags →
      ∀ p ∈ r.install, ∀ a other, (a, other) ∈ archs → a ≠ self → availableOn other p = true := by
  intro self u hm c hc r h hf
  exact (firstUnavailable_none_iff archs self r.install).mp
    (resolve_available_partial archs self u hl (lookupT_of_mem_distinct hd hm) c hc w r h hf)

/-- the full statement of the property for the whole resolution (FALSE on the unchanged tree: F14a) -/
def resolve_available : Prop :=
  ∀ (archs : List (Text × Universe)) (self : Text) (u : Universe), archs.length ≠ 1 →
    lookupT archs self = some u → ∀ (c : Cfg), c.u = u → ∀ (w : List Text) (r : Resolution),
      resolve c w (disqualifyDifference archs self) = .ok r →
      Driver.Resolver.firstUnavailable archs self r.install = none

/-- the negation of the full statement, from the F14a witness -/
theorem not_resolve_available : ¬ resolve_available := by
  intro h
  have hw := F14a_witness
  split at hw
  · next r hr =>
    have hn := h famF14a "x86_64".toList x86 (by decide) rfl _ rfl _ r hr
    rw [firstUnavailable_none_iff] at hn
    simp only [List.any_eq_true, Bool.not_eq_true'] at hw
    obtain ⟨p, hp, hav⟩ := hw
    have := hn p hp "aarch64".toList arm (List.mem_cons_of_mem _ (List.mem_cons_self ..)) (by decide)
    rw [hav] at this
    exact absurd this (by simp)
  · simp at hw

/-- T `single_arch_unaffected`: `dq_single` lifted to the resolution — with exactly one architecture the
resolver runs as if the cross-architecture filtering did not exist (same answer, same error, same flags) -/
theorem single_arch_unaffected (archs : List (Text × Universe)) (self : Text) (h : archs.length = 1)
    (c : Cfg) (w : List Text) :
    resolve c w (disqualifyDifference archs self) = resolve c w [] := by
  rw [dq_single archs self h]

/-! ### non-vacuity: all hypotheses of `resolve_available_partial` are met by a run in which the filter matters -/

/-- `lib-2` exists on architecture `a` only -/
def archA : Universe := [⟨[], "r/a".toList,
  [C02.mk 0 "lib" "1" [] [] [], C02.mk 1 "lib" "2" [] [] [], C02.mk 2 "top" "1" ["lib"] [] []]⟩]
def archB : Universe := [⟨[], "r/b".toList,
  [C02.mk 0 "lib" "1" [] [] [], C02.mk 1 "top" "1" ["lib"] [] []]⟩]
def famOk : List (Text × Universe) := [("a".toList, archA), ("b".toList, archB)]

/-- the ids installed and the flags raised, `none` on error -/
def runIds (u : Universe) (w : List String) (dq0 : List Nat) : Option (List Nat × List String) :=
  match resolve (Driver.Resolver.cfgOf u) (w.map String.toList) dq0 with
  | .ok r => some (r.install.map (·.id), r.flags)
  | _ => none

/-- resolved together, `a` succeeds flag-free with the OLDER build `lib-1` (id 0); alone it takes `lib-2` -/
example : famOk.length ≠ 1 ∧ lookupT famOk "a".toList = some archA ∧
    (Driver.Resolver.cfgOf archA).u = archA ∧
    runIds archA ["top"] (disqualifyDifference famOk "a".toList) = some ([0, 2], []) ∧
    runIds archA ["top"] [] = some ([1, 2], []) ∧
    runIds archB ["top"] (disqualifyDifference famOk "b".toList) = some ([0, 1], []) := by
  refine ⟨by decide, rfl, rfl, ?_, ?_, ?_⟩ <;>
  · set_option maxRecDepth 100000 in decide

/-- … and the theorem applies to that run -/
example (r : Resolution)
    (h : resolve (Driver.Resolver.cfgOf archA) ["top".toList] (disqualifyDifference famOk "a".toList) = .ok r)
    (hf : "F02b" ∉ r.flags) : Driver.Resolver.firstUnavailable famOk "a".toList r.install = none :=
  resolve_available_partial famOk "a".toList archA (by decide) rfl _ rfl _ r h hf

example : famOk.Pairwise (fun x y => x.1 ≠ y.1) := by decide

/-- the F14a run raises "F02b": the flag hypothesis is exactly what separates it -/
example : runIds x86 ["top"] (disqualifyDifference famF14a "x86_64".toList) = some ([0, 2, 1], ["F02b"]) := by
  set_option maxRecDepth 100000 in decide

end Apko.C14
