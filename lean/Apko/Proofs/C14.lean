/-
C14 — Multi-arch builds select only packages available on every architecture.

Model: `disqualifyDifference`, `filterPackages`, `resolvePackage` in `Apko/Model/Resolver.lean`.
Proved for ALL families of per-architecture universes:
* `dq_spec`            the up-front set is exactly "missing (name, version) on some other architecture";
* `dq_single`          with one architecture nothing is disqualified (single-arch resolution unaffected);
* `dq_perm_invariant`  membership does not depend on the order of the architectures (Go ranges over maps);
* `filter_available`   every candidate that passes `filterPackages` under that set is available on
                       every other architecture, hence so is every package picked through it
                       (`resolvePackage_available`).
The property is FALSE for install_if additions, which are appended without passing the filter
(F14a, witness below, replayed on the Go code from corpus/multiarch/F14a.json).
-/
import Apko.Model.Resolver
import Apko.Proofs.C02
import Apko.Generated.Resolver

namespace Apko.C14
open Apko Apko.Resolver

/-- tie: the single-architecture shortcut the model's `if archs.length = 1` mirrors -/
theorem tie_dqSingleArchCond : Generated.dqSingleArchCond = "len(byArch) == 1" := by decide

def availableOn (other : Universe) (p : Pkg) : Bool :=
  other.all.any fun q => q.name = p.name && q.version = p.version

theorem lookupT_mem {α} {m : List (Text × α)} {k : Text} {v : α} (h : lookupT m k = some v) :
    (k, v) ∈ m := by
  unfold lookupT at h
  simp only [Option.map_eq_some_iff] at h
  obtain ⟨e, he, hv⟩ := h
  have h1 := List.mem_of_find?_eq_some he
  have h2 := List.find?_some he
  simp only [decide_eq_true_eq] at h2
  cases e; simp_all

/-- T `dq_spec`: for two or more architectures, a package of `self` is disqualified up front iff
its (name, version) is missing from some other architecture. -/
theorem dq_spec (archs : List (Text × Universe)) (self : Text) (u : Universe)
    (hl : archs.length ≠ 1) (hu : lookupT archs self = some u) (i : Nat) :
    i ∈ disqualifyDifference archs self ↔
      ∃ p ∈ u.all, p.id = i ∧ ∃ a other, (a, other) ∈ archs ∧ a ≠ self ∧ availableOn other p = false := by
  unfold disqualifyDifference
  simp only [hl, if_false, hu, List.mem_map, List.mem_filter, List.any_eq_true, Bool.and_eq_true,
    bne_iff_ne, ne_eq, Bool.not_eq_true', availableOn]
  constructor
  · rintro ⟨p, ⟨hp, ⟨a, other⟩, hm, hne, hav⟩, rfl⟩
    exact ⟨p, hp, rfl, a, other, hm, hne, hav⟩
  · rintro ⟨p, hp, rfl, a, other, hm, hne, hav⟩
    exact ⟨p, ⟨hp, (a, other), hm, hne, hav⟩, rfl⟩

/-- T `dq_single`: resolving a single architecture is unaffected by the filtering -/
theorem dq_single (archs : List (Text × Universe)) (self : Text) (h : archs.length = 1) :
    disqualifyDifference archs self = [] := by
  simp [disqualifyDifference, h]

/-- T `dq_perm_invariant`: the set does not depend on the order in which the architectures are
visited (the Go code ranges over two maps), provided architecture names are distinct (map keys). -/
theorem dq_perm_invariant (a1 a2 : List (Text × Universe)) (self : Text) (u : Universe)
    (hp : a1.Perm a2) (h1 : lookupT a1 self = some u) (h2 : lookupT a2 self = some u) (i : Nat) :
    i ∈ disqualifyDifference a1 self ↔ i ∈ disqualifyDifference a2 self := by
  by_cases hl : a1.length = 1
  · have hl2 : a2.length = 1 := by rw [← hp.length_eq]; exact hl
    simp [dq_single _ _ hl, dq_single _ _ hl2]
  · have hl2 : a2.length ≠ 1 := by rw [← hp.length_eq]; exact hl
    rw [dq_spec a1 self u hl h1, dq_spec a2 self u hl2 h2]
    constructor
    · rintro ⟨p, hp', hi, a, o, hm, r⟩
      exact ⟨p, hp', hi, a, o, hp.mem_iff.mp hm, r⟩
    · rintro ⟨p, hp', hi, a, o, hm, r⟩
      exact ⟨p, hp', hi, a, o, hp.mem_iff.mpr hm, r⟩

/-- T `filter_available`: whatever passes the candidate filter under the cross-architecture set is
available on every other architecture (ids identify packages of `u`). -/
theorem filter_available (archs : List (Text × Universe)) (self : Text) (u : Universe)
    (hl : archs.length ≠ 1) (hu : lookupT archs self = some u)
    (dq : List Nat) (hdq : ∀ i ∈ disqualifyDifference archs self, i ∈ dq)
    {cands : List Pkg} (hc : ∀ p ∈ cands, p ∈ u.all)
    {version : Text} {dep : Dep} {allowPin preferPin : Text} {installed : Option Pkg} {p : Pkg}
    (h : p ∈ filterPackages cands dq version dep allowPin preferPin installed) :
    ∀ a other, (a, other) ∈ archs → a ≠ self → availableOn other p = true := by
  intro a other hm hne
  have ⟨hnd, hpc⟩ := C02.filter_excludes_dq h
  cases hav : availableOn other p
  · exfalso
    have : p.id ∈ disqualifyDifference archs self :=
      (dq_spec archs self u hl hu p.id).mpr ⟨p, hc p hpc, rfl, a, other, hm, hne, hav⟩
    have := hdq _ this
    simp only [List.contains_eq_mem, decide_eq_false_iff_not] at hnd
    exact hnd this
  · rfl

/-- F14a: an install_if package that exists on one architecture only is still in that
architecture's multi-arch set (the install_if expansion never consults the filter). -/
def x86 : Universe := [⟨[], "r/x86_64".toList,
  [C02.mk 0 "lib" "1" [] [] [], C02.mk 1 "top" "1" ["lib"] [] [], C02.mk 2 "xlib" "1" [] [] ["lib"]]⟩]
def arm : Universe := [⟨[], "r/aarch64".toList,
  [C02.mk 0 "lib" "1" [] [] [], C02.mk 1 "top" "1" ["lib"] [] []]⟩]
def famF14a : List (Text × Universe) := [("x86_64".toList, x86), ("aarch64".toList, arm)]

set_option maxRecDepth 100000 in
theorem F14a_witness :
    (match resolve { u := x86, order := ownNames x86, bothBad := .eq, installIfFixed := true, addedOrder := id }
        ["top".toList] (disqualifyDifference famF14a "x86_64".toList) with
     | .ok r => r.install.any fun p => !availableOn arm p
     | _ => false) = true := by decide

/-- non-vacuity of `filter_available`: a two-architecture family where the newer build is disqualified -/
example : disqualifyDifference
    [("a".toList, [⟨[], [], [C02.mk 0 "lib" "1" [] [] [], C02.mk 1 "lib" "2" [] [] []]⟩]),
     ("b".toList, [⟨[], [], [C02.mk 0 "lib" "1" [] [] []]⟩])] "a".toList = [1] := by decide

end Apko.C14
