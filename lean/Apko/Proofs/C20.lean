import Apko.Model.Retry
namespace Apko.C20
open Apko Apko.Retry
theorem tie_retrySchedule : Generated.retrySchedule = [true, true, false] := by decide
end Apko.C20
