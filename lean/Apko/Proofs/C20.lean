/-
C20 — Transient network faults never corrupt a download.

Property theorems only.  The model is `Apko/Model/Retry.lean` (server + network fault script + Impl
mirroring rangeRetryTransport.RoundTrip / rangeRetryReader.reset / Read / Close + the Spec checker the
driver evaluates on the trace of the real code); the retry schedule, the two status codes tested by
`reset`, the Range format and the statement lists are `Apko/Generated/Retry.lean`, rewritten from
/repo on every run.  Every theorem below is stated for `Cfg.generated`, i.e. for what the code says now,
and quantifies over ALL files, server kinds, fault scripts and consumer operation sequences.
Helper lemmas (invariant preservation by induction over the operations): `Proofs/Lemmas/Retry.lean`.

Recorded assumptions: the server is honest (`serve`), a closed body fails its reads (`Body.read`),
and — for the `eof_complete` family only — an assumption about response streams that stop early and
look like a clean end.  It is stated per connection, relative to the request the connection answers
(`Conn.invisibleEnd … = false`): the stream does not end early and cleanly on a successful response,
*or it does where the reader can tell* (it asked for offset `p`, was answered 200 and fewer than `p`
bytes arrived: the prefix discard of `reset` comes up short).  `eof_complete_current` needs it of the
current connection only, `eof_complete_evident` of the connections the download used, and the round-1
form `eof_complete` (`TruncationSignalled`: no clean early end anywhere in the script) is a corollary.
`eof_complete_needs_assumption` and `eof_complete_needs_evidence` show that the hypothesis cannot be
dropped and that the boundary of "evident" (fewer than `p` bytes, status 200) is exact.
-/
import Apko.Proofs.Lemmas.Retry

namespace Apko.C20
open Apko Apko.Retry

/-! ## ties to the regenerated facts -/

theorem tie_retrySchedule : Generated.retrySchedule = [true, true, false] := by decide
theorem tie_statusDiscard : Generated.statusDiscard = httpOK := by decide
theorem tie_statusPass : Generated.statusPass = httpPartial := by decide
theorem tie_rangeFormat : Generated.rangeFormat = "bytes=%d-" := by decide
theorem tie_rangeArg : Generated.rangeArg = "r.progress" := by decide
theorem tie_rangeGuard : Generated.rangeGuard = "r.progress != 0" := by decide
theorem tie_rangeHeader : Generated.rangeHeader = "Range=rangeHeader" := by decide
theorem tie_discardGuard : Generated.discardGuard = "r.progress != 0" := by decide
theorem tie_discardCall :
    Generated.discardCall = "_, err := io.CopyN(io.Discard, resp.Body, r.progress)" := by decide
theorem tie_callerStatus : Generated.callerStatus_FetchPackage = httpOK ∧
    Generated.callerStatus_fetchRepositoryIndex = httpOK := by decide

def expected_RoundTrip : List String := ["r := rangeRetryReader{ client: t.client, ctx: t.ctx, req: req, }",
  "return r.reset(nil)"]
theorem tie_RoundTrip : Generated.stmts_RoundTrip = expected_RoundTrip := rfl

def expected_reset : List String := ["if r.body != nil { _ = r.body.Close() }",
  "req := r.req.WithContext(r.ctx)",
  "rangeHeader := fmt.Sprintf(\"bytes=%d-\", r.progress)",
  "if r.progress != 0 { req.Header.Set(\"Range\", rangeHeader) }",
  "resp, err := r.client.Do(req)",
  "if err != nil { return resp, errors.Join(oerr, err) }",
  "if resp.Body == nil || resp.Body == http.NoBody { return resp, nil }",
  "if r.total == 0 { r.total = resp.ContentLength }",
  "if resp.StatusCode == http.StatusOK { if r.progress != 0 { if _, err := io.CopyN(io.Discard, resp.Body, r.progress); err != nil { return resp, err } } } else if resp.StatusCode != http.StatusPartialContent { if oerr != nil { return resp, fmt.Errorf(\"retrying %w: %s %s (Range: %s): unexpected status code: %d\", oerr, req.Method, req.URL.String(), rangeHeader, resp.StatusCode) } return resp, fmt.Errorf(\"%s %s (Range: %s): unexpected status code: %d\", req.Method, req.URL.String(), rangeHeader, resp.StatusCode) }",
  "r.body = resp.Body",
  "resp.Body = r",
  "return resp, nil"]
theorem tie_reset : Generated.stmts_reset = expected_reset := rfl

def expected_Read : List String := ["defer func() { r.progress += int64(n) }()",
  "for _, retry := range []bool{true, true, false} { n, err = r.body.Read(p) if err == nil { break } if errors.Is(err, io.EOF) { break } if !retry { break } resp, rerr := r.reset(err) if rerr != nil { if resp != nil && resp.Body != nil { resp.Body.Close() } return n, errors.Join(rerr, err) } }",
  "return n, err"]
theorem tie_Read : Generated.stmts_Read = expected_Read := rfl

def expected_Close : List String := ["if r.body == nil { return nil }",
  "return r.body.Close()"]
theorem tie_Close : Generated.stmts_Close = expected_Close := rfl

/-- what the proofs use of the code's constants: the schedule ends with "do not retry", the discard
branch is taken on 200 and only 206 passes otherwise — over the regenerated facts -/
theorem generated_good : Cfg.generated.Good :=
  ⟨by decide, by decide, by decide⟩

/-! ## the property -/

/-- the reader and trace at the end of a whole download: `RoundTrip`, then the consumer's operations -/
abbrev final (data : Text) (k : Kind) (script : List Conn) (ops : List Op) : Reader :=
  (run Cfg.generated data k script ops).2

/-- **Everything at once**: the trace of any download — any file, server kind, fault script (clean
early ends included) and consumer — is accepted by the Spec checker, the one the driver evaluates on
the real code's trace.  No assumption: the checker itself waives the `eof_complete` clause exactly
while the current connection has a clean early end the reader cannot see. -/
theorem trace_accepted (data : Text) (k : Kind) (script : List Conn) (ops : List Op) :
    Spec.accepts data k script (final data k script ops).log = true := by
  obtain ⟨lb, w, h, _⟩ := (run_inv generated_good data k script ops).state
  simp [Spec.accepts, final, h]

/-- after any sequence of reads under any fault script, the bytes handed to the consumer are exactly
`data.take progress` -/
theorem delivered_prefix (data : Text) (k : Kind) (script : List Conn) (ops : List Op) :
    delivered (final data k script ops).log = data.take (final data k script ops).progress := by
  obtain ⟨lb, w, h, _⟩ := (run_inv generated_good data k script ops).state
  have hp := Spec.runFrom_prefix _ _ _ h
  have hc := Spec.runFrom_consumed _ _ _ h
  simp only [Spec.init, Nat.zero_add, List.drop_zero] at hp hc
  rw [List.prefix_iff_eq_take.mp hp, ← hc]

/-- every request: no Range header before anything was consumed, exactly `bytes=<consumed>-` after -/
theorem range_header_exact (data : Text) (k : Kind) (script : List Conn) (ops : List Op)
    (pre post : List Event) (range : Option Nat)
    (hlog : (final data k script ops).log = pre ++ Event.req range :: post) :
    range = if (delivered pre).length ≠ 0 then some (delivered pre).length else none := by
  obtain ⟨lb, w, h, _⟩ := (run_inv generated_good data k script ops).state
  rw [hlog] at h
  obtain ⟨s', s2, h1, h2⟩ := Spec.runFrom_split h
  have hc := Spec.runFrom_consumed _ _ _ h1
  simp only [Spec.init, Nat.zero_add] at hc
  simp only [Spec.stepEvent] at h2
  by_cases hr : range = (if s'.consumed ≠ 0 then some s'.consumed else none)
  · rw [← hc]; exact hr
  · rw [if_neg hr] at h2; cases h2

/-- every `Read` hands out exactly the next bytes the server holds: nothing duplicated, nothing skipped -/
theorem no_dup_no_skip (data : Text) (k : Kind) (script : List Conn) (ops : List Op)
    (pre post : List Event) (out : Text) (res : Res)
    (hlog : (final data k script ops).log = pre ++ Event.result out res :: post) :
    out = (data.drop (delivered pre).length).take out.length := by
  obtain ⟨lb, w, h, _⟩ := (run_inv generated_good data k script ops).state
  rw [hlog] at h
  obtain ⟨s', s2, h1, h2⟩ := Spec.runFrom_split h
  have hc := Spec.runFrom_consumed _ _ _ h1
  simp only [Spec.init, Nat.zero_add] at hc
  simp only [Spec.stepEvent] at h2
  split at h2
  · next hcond =>
    simp only [Bool.and_eq_true] at hcond
    rw [← hc]
    exact List.prefix_iff_eq_take.mp (List.isPrefixOf_iff_prefix.mp hcond.1.1)
  · cases h2

/-- **a clean EOF reaches the consumer only when everything was delivered** — unless the connection
that answered the most recent request has a clean early end *that the reader cannot see*
(`Spec.waiveAfter … pre`, computed from the requests of `pre` and the script alone).  Nothing is asked
of the other connections of the script: an early clean end that was survived (it was evident, or a
later request replaced the connection) does not matter. -/
theorem eof_complete_current (data : Text) (k : Kind) (script : List Conn) (ops : List Op)
    (pre post : List Event) (out : Text)
    (hlog : (final data k script ops).log = pre ++ Event.result out Res.eof :: post)
    (hcur : Spec.waiveAfter data k script false pre = false) :
    delivered pre ++ out = data := by
  obtain ⟨lb, w, h, _⟩ := (run_inv generated_good data k script ops).state
  rw [hlog] at h
  obtain ⟨s', s2, h1, h2⟩ := Spec.runFrom_split h
  have hc := Spec.runFrom_consumed _ _ _ h1
  have hp := Spec.runFrom_prefix _ _ _ h1
  have hw := Spec.runFrom_waive _ _ _ h1
  simp only [Spec.init, Nat.zero_add, List.drop_zero] at hc hp hw
  rw [hcur] at hw
  simp only [Spec.stepEvent] at h2
  split at h2
  · next hcond =>
    simp only [hw, Bool.and_eq_true, Bool.false_or, Bool.or_eq_true, bne_iff_ne, ne_eq,
      not_true_eq_false, false_or, beq_iff_eq] at hcond
    obtain ⟨t, ht⟩ := hp
    obtain ⟨u, hu⟩ := List.isPrefixOf_iff_prefix.mp hcond.1.1
    have hlen := hcond.1.2
    rw [hc] at hu hlen
    have hd : data = delivered pre ++ (out ++ u) := by
      have : data = delivered pre ++ data.drop (delivered pre).length := by
        rw [← ht, List.drop_left]
      rw [this, ← hu]
    have hu0 : u = [] := by
      have := congrArg List.length hd
      simp only [List.length_append] at this
      exact List.eq_nil_of_length_eq_zero (by omega)
    rw [hd, hu0]; simp
  · cases h2

/-- *the refined recorded assumption, for a whole download*: every connection that answered a request
either has no clean early end on a successful response, or has one that is evident to the reader
(`Spec.pairs` = the k-th request with the k-th connection of the script) -/
def EarlyEndsEvident (data : Text) (k : Kind) (script : List Conn) (log : List Event) : Prop :=
  ∀ x ∈ Spec.pairs log script, x.2.invisibleEnd data k x.1 = false

instance (data : Text) (k : Kind) (script : List Conn) (log : List Event) :
    Decidable (EarlyEndsEvident data k script log) := by unfold EarlyEndsEvident; infer_instance

/-- the script-level assumption of round 1 implies the refined one, for every trace -/
theorem earlyEndsEvident_of_signalled {script : List Conn} (h : TruncationSignalled script)
    (data : Text) (k : Kind) (log : List Event) : EarlyEndsEvident data k script log :=
  fun x hx => invisibleEnd_of_signals (h x.2 (Spec.pairs_mem log script x hx)) data k x.1

/-- **the Impl never reports a clean EOF short of the file when every early clean end is evident or
absent** — scripts with evident truncations (a restart answered 200 whose body ends cleanly before the
resume offset) are covered -/
theorem eof_complete_evident (data : Text) (k : Kind) (script : List Conn) (ops : List Op)
    (hassume : EarlyEndsEvident data k script (final data k script ops).log)
    (pre post : List Event) (out : Text)
    (hlog : (final data k script ops).log = pre ++ Event.result out Res.eof :: post) :
    delivered pre ++ out = data := by
  apply eof_complete_current data k script ops pre post out hlog
  apply Spec.waiveAfter_of_pairs
  intro x hx
  apply hassume x
  rw [hlog]
  exact Spec.pairs_append_left pre _ script x hx

/-- the round-1 statement, now a corollary: a clean EOF reaches the consumer only when everything was
delivered — given that no stream of the script stops early looking like a clean end -/
theorem eof_complete (data : Text) (k : Kind) (script : List Conn) (ops : List Op)
    (hassume : TruncationSignalled script)
    (pre post : List Event) (out : Text)
    (hlog : (final data k script ops).log = pre ++ Event.result out Res.eof :: post) :
    delivered pre ++ out = data :=
  eof_complete_evident data k script ops (earlyEndsEvident_of_signalled hassume data k _) pre post out hlog

/-- when the last attempt of a `Read` failed (no retry left, or the resumption itself failed) the
`Read` returns an error: between the last body read and the result there are only requests -/
theorem exhausted_is_error (data : Text) (k : Kind) (script : List Conn) (ops : List Op)
    (pre mid post : List Event) (lb : Res) (out : Text) (res : Res)
    (hlog : (final data k script ops).log = pre ++ Event.body lb :: (mid ++ Event.result out res :: post))
    (hmid : Spec.Quiet mid) (hlb : lb.isErr = true) : res.isErr = true := by
  obtain ⟨lb0, w, h, _⟩ := (run_inv generated_good data k script ops).state
  rw [hlog] at h
  rw [Spec.runFrom_append] at h
  cases hp : Spec.runFrom data k (Spec.init script) pre with
  | none => simp [hp] at h
  | some s1 =>
    simp only [hp, Option.bind_some, Spec.runFrom, Spec.stepEvent] at h
    obtain ⟨s', s2, h1, h2⟩ := Spec.runFrom_split h
    have hq := (Spec.runFrom_quiet _ _ _ hmid h1).2
    simp only at hq
    simp only [Spec.stepEvent] at h2
    split at h2
    · next hcond =>
      simp only [Bool.and_eq_true] at hcond
      have h3 := hcond.2
      rw [hq] at h3
      cases lb <;> simp_all [Res.isErr]
    · cases h2

/-- retries are bounded: one `Read` sends at most as many requests as the schedule has retries
(two), from any reader state whatsoever — after that its error is final (`exhausted_is_error`) -/
theorem requests_bounded (data : Text) (k : Kind) (r : Reader) (m : Nat) :
    reqCount (Impl.read Cfg.generated data k r m).1.log ≤ reqCount r.log + 2 := by
  unfold Impl.read
  have h := readLoop_reqCount Cfg.generated data k m Cfg.generated.sched r ([], Res.ok)
  generalize Impl.readLoop Cfg.generated data k m Cfg.generated.sched r ([], Res.ok) = x at h
  obtain ⟨r', out, res⟩ := x
  simp only [reqCount_append, reqCount] at h ⊢
  have : Cfg.generated.sched.count true = 2 := by decide
  omega

/-! ## the recorded assumption is necessary and its boundary exact; the hypotheses are satisfiable -/

/-- a stream that stops after `cut` bytes and *looks* like a clean end, on a successful status -/
def cleanCut (cut : Nat) (status : Option Nat) : Conn :=
  { connFail := false, status := status, page := [], noBody := false, cutAfter := some cut,
    ending := .clean, chunks := [], eager := false }

/-- a stream that stops after one byte of "ab" and *looks* like a clean end -/
def silentCut : Conn := cleanCut 1 none

def dropAt (cut : Nat) (eager : Bool) : Conn :=
  { connFail := false, status := none, page := [], noBody := false, cutAfter := some cut,
    ending := .fault, chunks := [], eager := eager }

def cleanConn : Conn :=
  { connFail := false, status := none, page := [], noBody := false, cutAfter := none,
    ending := .clean, chunks := [0, 1], eager := false }

/-- without the assumption a short body is accepted as complete: `eof_complete` cannot be proved
unconditionally (the reader never compares `progress` with Content-Length) -/
theorem eof_complete_needs_assumption :
    ∃ (data : Text) (k : Kind) (script : List Conn) (ops : List Op) (pre post : List Event) (out : Text),
      (final data k script ops).log = pre ++ Event.result out Res.eof :: post ∧
      delivered pre ++ out ≠ data :=
  ⟨['a', 'b'], .honours, [silentCut], [.read 4, .read 4],
    [.req none, .body .ok, .result ['a'] .ok, .body .eof], [], [], by decide, by decide⟩

/-- the boundary of "evident" is exact.  "abcdef", dropped after 3 bytes; the restart is answered 200
from offset 0 and ends cleanly after exactly 3 bytes (not fewer than the resume offset): the discard
succeeds, the next read is a clean EOF, and 3 bytes pass for the file.  The same for a 206 answer that
ends cleanly after 1 byte.  Both connections have an *invisible* early end, and the code cannot do
better without looking at Content-Length / Content-Range. -/
theorem eof_complete_needs_evidence :
    (final "abcdef".toList .ignores [dropAt 3 false, cleanCut 3 none] [.read 4, .read 4]).log =
      [.req none, .body .ok, .result ['a', 'b', 'c'] .ok, .body .fault, .req (some 3),
       .body .ok, .body .eof, .result [] .eof] ∧
    (cleanCut 3 none).invisibleEnd "abcdef".toList .ignores (some 3) = true ∧
    (final "abcdef".toList .honours [dropAt 3 false, cleanCut 1 none] [.read 4, .read 4, .read 4]).log =
      [.req none, .body .ok, .result ['a', 'b', 'c'] .ok, .body .fault, .req (some 3),
       .body .ok, .result ['d'] .ok, .body .eof, .result [] .eof] ∧
    (cleanCut 1 none).invisibleEnd "abcdef".toList .honours (some 3) = true := by
  refine ⟨by decide, by decide, by decide, by decide⟩

/-- non-vacuity of `eof_complete_evident` beyond round 1 — the evident truncation.  "abcdef", dropped
after 3 bytes; the restart is answered 200 from offset 0 (a server that ignores Range, or a forced 200
from one that honours it) and ends cleanly after 2 bytes, *before* the resume offset: `io.CopyN` comes
up short with a bare `io.EOF`, `reset` fails, and `Read` reports `errors.Join(io.EOF, err)` — an error,
not the end of the file; the next `Read` resumes with `bytes=3-` and the download completes.  The script
satisfies `EarlyEndsEvident` but not `TruncationSignalled`. -/
example :
    (final "abcdef".toList .ignores [dropAt 3 false, cleanCut 2 none, cleanConn]
        [.read 4, .read 4, .read 4, .read 4, .read 4]).log =
      [.req none, .body .ok, .result ['a', 'b', 'c'] .ok, .body .fault, .req (some 3),
       .body .ok, .body .eof, .result [] .weof, .body .fault, .req (some 3), .body .ok, .body .ok,
       .body .ok, .result ['d', 'e', 'f'] .ok, .body .eof, .result [] .eof, .body .eof, .result [] .eof] ∧
    EarlyEndsEvident "abcdef".toList .ignores [dropAt 3 false, cleanCut 2 none, cleanConn]
      (final "abcdef".toList .ignores [dropAt 3 false, cleanCut 2 none, cleanConn]
        [.read 4, .read 4, .read 4, .read 4, .read 4]).log ∧
    EarlyEndsEvident "abcdef".toList .honours [dropAt 3 false, cleanCut 0 (some 200)]
      (final "abcdef".toList .honours [dropAt 3 false, cleanCut 0 (some 200)] [.read 4, .read 4]).log ∧
    ¬ TruncationSignalled [dropAt 3 false, cleanCut 2 none, cleanConn] := by
  refine ⟨by decide, by decide, by decide, ?_⟩
  intro h
  exact absurd (h (cleanCut 2 none) (by simp)) (by decide)

/-- non-vacuity: a download of "abcdef" that is dropped after 2 bytes, then after 1 more byte (reported
together with the error, so that byte is fetched again), resumes twice with `bytes=2-` and completes —
against a server that honours Range and against one that ignores it.  The script satisfies
`TruncationSignalled`. -/
example :
    (final "abcdef".toList .honours [dropAt 2 false, dropAt 1 true, cleanConn]
        [.read 4, .read 4, .read 4, .read 4, .read 4]).log =
      [.req none, .body .ok, .result ['a', 'b'] .ok, .body .fault, .req (some 2), .body .fault,
       .req (some 2), .body .ok, .result ['c'] .ok, .body .ok, .result ['d', 'e'] .ok,
       .body .ok, .result ['f'] .ok, .body .eof, .result [] .eof] ∧
    delivered (final "abcdef".toList .ignores [dropAt 2 false, dropAt 3 true, cleanConn]
        [.read 4, .read 4, .read 4, .read 4, .read 4]).log = "abcdef".toList ∧
    TruncationSignalled [dropAt 2 false, dropAt 1 true, cleanConn] := by
  refine ⟨by decide, by decide, ?_⟩
  intro c hc
  simp only [List.mem_cons, List.mem_nil_iff, or_false] at hc
  rcases hc with rfl | rfl | rfl <;> decide

/-- non-vacuity of `exhausted_is_error`: three faults in one `Read` exhaust it -/
example :
    (final "abcdef".toList .honours [dropAt 2 false, dropAt 0 false, dropAt 0 false, cleanConn]
        [.read 4, .read 4]).log =
      [.req none, .body .ok, .result ['a', 'b'] .ok, .body .fault, .req (some 2), .body .fault,
       .req (some 2), .body .fault, .result [] .fault] := by decide

end Apko.C20
