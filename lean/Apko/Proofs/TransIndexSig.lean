/-
Equality theorem for `shouldCheckSignatureForIndex` (pkg/apk/apk/index.go), which the extractor translates
to Lean on every run (`Apko/Generated/TransIndexSig.lean`, written by extract/trans.go): the translated
definition equals the model `checkOn` that C04's theorems (`checkOn_false_iff`, `exempt_only_listed`, …) are
about.  A semantic change of the Go function changes the generated definition and the proof stops checking.
-/
import Apko.Generated.TransIndexSig
import Apko.Model.IndexSig

namespace Apko.TransIndexSig
open Apko Apko.IndexSig

-- T `trans_shouldCheck`: Go's `shouldCheckSignatureForIndex(index, arch, opts)`, translated, is `checkOn`.
theorem trans_shouldCheck (index arch : Text) (opts : Opts) :
    Generated.Trans.shouldCheckSignatureForIndex index arch opts = checkOn opts index arch := by
  unfold Generated.Trans.shouldCheckSignatureForIndex checkOn
  by_cases hi : opts.ignoreSignatures = true
  · simp [hi]
  · simp only [hi, Bool.false_eq_true, ↓reduceIte]
    generalize opts.noSignatureIndexes = l
    induction l with
    | nil => simp [hi]
    | cons x xs ih =>
      simp only [List.findSome?_cons, List.any_cons]
      by_cases hx : indexURL x arch = index
      · simp_all
      · have hx2 : ¬ index = indexURL x arch := fun e => hx e.symm
        simp_all

-- non-trivial values: an exempted repository is not checked, its neighbour is
example :
    Generated.Trans.shouldCheckSignatureForIndex (indexURL "https://a/r".toList "x86_64".toList) "x86_64".toList
      ⟨false, ["https://a/r".toList]⟩ = false ∧
    Generated.Trans.shouldCheckSignatureForIndex (indexURL "https://a/r2".toList "x86_64".toList) "x86_64".toList
      ⟨false, ["https://a/r".toList]⟩ = true := by decide

end Apko.TransIndexSig
