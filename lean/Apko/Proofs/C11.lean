/-
C11 — The SBOM describes the image that was built.

Model: `Apko/Model/Sbom.lean` (stringToIdentifier byte by byte over the regenerated valid-byte table,
Generate / imagePackage / layerPackage / apkPackage / addSourcePackage / de-dup pass,
ProcessInternalApkSBOM / copySBOMElements / replacePackage / mergeLicensingInfos, GenerateIndex).
Facts: `Apko/Generated/Sbom.lean`, rewritten from spdx.go on every run.

Full statement of the property on the model (`FullC11` below) and what is proved of it:

  identifiers   id_alphabet, id_idempotent, generated_ids_valid, index_ids_valid        — for all inputs
  uniqueness    ids_unique                                                               — for all inputs
  references    refs_resolve_partial (each embedded SBOM has ≤ 1 target element), index_refs_resolve;
                negation of the unrestricted statement: refs_dangle_multi_target (F11d);
                the pinned `replacePackage` without its guard: pinned_replace_dangles (F11b, repaired)
  apk elements  one_element_per_apk_partial (no embedded SBOM is found, generated ids distinct);
                negations: apk_element_lost_on_collision (F11a), apk_element_replaced_by_embedded (F11c)
  digests       image_layers_by_digest (same hypotheses), image_layers_by_digest_embedded (arbitrary embedded
                SBOMs, nothing else claims the image/layer names or ids), index_describes_index
  model         generate_never_fuel (the fuel of the closure loop always suffices)

`ord` is Go's map iteration order in ProcessInternalApkSBOM; theorems hold for every `ord` that only
yields target ids (`OrdOk`).
-/
import Apko.Proofs.Lemmas.SbomGen
import Apko.Proofs.Lemmas.SbomFuel
import Apko.Proofs.Lemmas.SbomImage

namespace Apko.C11
open Apko Apko.Sbom

/-! ## ties to the regenerated facts -/

theorem tie_validIDCharsRe : Generated.sbomValidIDCharsRe = "[^a-zA-Z0-9-.]+" := by decide

/-- `strings.ReplaceAll(in, ":", "-")`, accumulator `""`, `fmt.Sprintf("%sC%d", r, uc)` -/
theorem tie_lits_stringToIdentifier : Generated.sbomLits_stringToIdentifier = [":", "-", "", "%sC%d"] := by
  decide

theorem tie_stmts_stringToIdentifier : Generated.sbomStmts_stringToIdentifier = [
    "in = strings.ReplaceAll(in, \":\", \"-\")",
    "return validIDCharsRe.ReplaceAllStringFunc(in, func(s string) string { r := \"\" for i := 0; i < len(s); i++ { uc, _ := utf8.DecodeRuneInString(string(s[i])) r = fmt.Sprintf(\"%sC%d\", r, uc) } return r })"] := by
  rfl

/-- the bytes Go's regexp leaves alone (recomputed from the literal) are exactly `[a-zA-Z0-9.-]` -/
theorem tie_validIdBytes (c : Char) : tableValid c = idChar c := tableValid_iff c

/-- `replacePackage` as modelled: the guard of the F11b repair, then describes / relationships / packages -/
theorem tie_stmts_replacePackage : Generated.sbomStmts_replacePackage = [
    "if originalID == newID { return }",
    "for i := range doc.DocumentDescribes { if doc.DocumentDescribes[i] == originalID { doc.DocumentDescribes[i] = newID break } }",
    "for i := range doc.Relationships { if doc.Relationships[i].Element == originalID { doc.Relationships[i].Element = newID } if doc.Relationships[i].Related == originalID { doc.Relationships[i].Related = newID } }",
    "newPackages := []Package{}",
    "replaced := false",
    "for _, r := range doc.Packages { if r.ID != originalID { newPackages = append(newPackages, r) replaced = true } }",
    "if replaced { doc.Packages = newPackages }"] := by
  rfl

theorem tie_apkSBOMdir : Generated.sbomApkSBOMdir = "/var/lib/db/sbom" := by decide

/-- the three candidate paths of locateApkSBOM, in order, and the revision regex -/
theorem tie_lits_locateApkSBOM :
    (Generated.sbomLits_locateApkSBOM.filter (fun s => s ≠ "")).take 4 =
      ["-r\\d+$", "%s/%s-%s.spdx.json", "%s/%s-%s.spdx.json", "%s/%s.spdx.json"] := by
  decide

theorem tie_lits_copySBOMElements : Generated.sbomLits_copySBOMElements.take 2 = ["SPDXRef-File-", "SPDXRef-File-"] := by
  decide

/-- identifier formats, nonce and relationship types of the generators -/
theorem tie_lits_ids :
    "SPDXRef-Package-%s" ∈ Generated.sbomLits_imagePackage ∧ "sha256:" ∈ Generated.sbomLits_imagePackage ∧
    "SPDXRef-Package-%s" ∈ Generated.sbomLits_layerPackage ∧
    "SPDXRef-Package-%s" ∈ Generated.sbomLits_addSourcePackage ∧ "GENERATED_FROM" ∈ Generated.sbomLits_addSourcePackage ∧
    "@" ∈ Generated.sbomLits_addSourcePackage ∧
    Generated.sbomLits_addSourcePackage.filter (fun s => s ∈ ["git+ssh://", "git://", "https://"]) =
      ["git+ssh://", "git://", "https://"] ∧
    "SPDXRef-Package-%s-%s-%s" ∈ Generated.sbomLits_Generate ∧ "thismakestestspass" ∈ Generated.sbomLits_Generate ∧
    "CONTAINS" ∈ Generated.sbomLits_Generate ∧
    "SPDXRef-Package-" ∈ Generated.sbomLits_GenerateIndex ∧ "VARIANT_OF" ∈ Generated.sbomLits_GenerateIndex ∧
    "sha256:%s" ∈ Generated.sbomLits_GenerateIndex := by
  decide

/-! ## identifiers -/

/-- every character of `stringToIdentifier s` is in `[a-zA-Z0-9.-]` -/
theorem id_alphabet (s : Text) : ∀ x ∈ stringToIdentifier s, idChar x = true := sti_alphabet s

theorem id_idempotent (s : Text) : stringToIdentifier (stringToIdentifier s) = stringToIdentifier s :=
  sti_idempotent s

/-- the sanitiser is not injective: `+` and `C43` -/
theorem id_not_injective : ¬ Function.Injective stringToIdentifier := by
  intro h
  have e : stringToIdentifier "+".toList = stringToIdentifier "C43".toList := by decide
  exact absurd (h e) (by decide)

/-- the model's sanitiser is the byte-wise specification with the alphabet written out -/
theorem id_eq_spec (s : Text) : stringToIdentifier s = Spec.stringToIdentifier s := by
  induction s with
  | nil => rfl
  | cons c cs ih =>
    simp only [stringToIdentifier, Spec.stringToIdentifier, List.flatMap_cons] at ih ⊢
    rw [ih]
    congr 1
    simp only [idByte, Spec.idByte, tableValid_iff]

/-- every identifier apko generates itself matches `SPDXRef-[a-zA-Z0-9.-]+`; the only other identifiers
in the document are those imported verbatim from package-embedded SBOMs -/
theorem generated_ids_valid {o : Opts} {fs : SbomDir} {ord : List Id → List Id} {d : Doc}
    (h : generate o fs ord = .ok d) :
    ∀ p ∈ d.packages, validSpdxId p.id = true ∨ p.id ∈ embeddedIds fs := by
  unfold generate at h
  split at h
  · cases h
  · split at h
    · cases h
    · next doc ha =>
      cases h
      intro p hp
      exact addApks_goodIds _ (header_goodIds fs o) ha p (dedup_mem hp)

/-- without embedded SBOMs every identifier of the document is syntactically valid -/
theorem generated_ids_valid_no_embedded {o : Opts} {ord : List Id → List Id} {d : Doc}
    (h : generate o [] ord = .ok d) : ∀ p ∈ d.packages, validSpdxId p.id = true := by
  intro p hp
  rcases generated_ids_valid h p hp with h | h
  · exact h
  · simp [embeddedIds] at h

/-- identifiers of `doc.packages` are pairwise distinct (the de-dup pass) -/
theorem ids_unique {o : Opts} {fs : SbomDir} {ord : List Id → List Id} {d : Doc}
    (h : generate o fs ord = .ok d) : d.ids.Nodup := by
  unfold generate at h
  split at h
  · cases h
  · split at h
    · cases h
    · cases h; exact dedup_nodup _

/-! ## references -/

/-- every relationship endpoint and every described id is an element of the document, provided every
embedded SBOM that is found has at most one target element (one described element named like its apk) -/
theorem refs_resolve_partial {o : Opts} {fs : SbomDir} {ord : List Id → List Id} {d : Doc}
    (hord : OrdOk ord) (hone : ∀ a ∈ o.apks, targetCount fs a ≤ 1)
    (h : generate o fs ord = .ok d) : refsResolve d = true := by
  rw [refsResolve_iff]
  unfold generate at h
  split at h
  · cases h
  · split at h
    · cases h
    · next doc ha =>
      cases h
      have hi := addApks_inv hord _ hone (header_inv o) ha
      have hids : ∀ i, i ∈ doc.ids → i ∈ Doc.ids { doc with packages := dedup doc.packages } := by
        intro i hi'
        exact (dedup_ids doc.packages i).mpr hi'
      exact ⟨fun r hr => ⟨hids _ (hi.closed.1 r hr).1, hids _ (hi.closed.1 r hr).2⟩,
             fun i hi' => hids _ (hi.closed.2 i hi')⟩

/-- the hypotheses of `refs_resolve_partial` are satisfiable by a document with an embedded SBOM, a
relationship graph and a replaced element -/
def exFS : SbomDir :=
  [("foo-1".toList, .doc ⟨["SPDXRef-Package-foo".toList],
      [⟨"SPDXRef-Package-foo".toList, "foo".toList, "1".toList, []⟩,
       ⟨"SPDXRef-Package-libz".toList, "libz".toList, "3".toList, []⟩],
      [⟨"SPDXRef-Package-foo".toList, "CONTAINS".toList, "SPDXRef-Package-libz".toList⟩], []⟩)]

def exOpts : Opts := ⟨"sha256:ab".toList, ["sha256:cd".toList, "sha256:ef".toList], "https://x/y@12".toList, "1".toList,
  [⟨"foo".toList, "1".toList, "22".toList⟩, ⟨"bar".toList, "2".toList, "33".toList⟩]⟩

/-- evaluate a Boolean observation on a successful result -/
def okAnd (r : Except Err Doc) (f : Doc → Bool) : Bool :=
  match r with
  | .ok d => f d
  | .error _ => false

example : (∀ a ∈ exOpts.apks, targetCount exFS a ≤ 1) ∧
    okAnd (generate exOpts exFS id) (fun d =>
      d.packages.map (·.name) == ["sha256:ab", "sha256:cd", "sha256:ef", "x/y", "foo", "libz", "bar"].map String.toList
        && d.rels.length == 4) = true := ⟨by decide, by decide⟩

/-- F11d — with two described same-named elements and an earlier import sharing an id with one of them,
one of the two possible map orders leaves a relationship pointing at a removed element -/
def f11dFS : SbomDir :=
  [("bar-1".toList, .doc ⟨["SPDXRef-Package-bar".toList],
      [⟨"SPDXRef-Package-bar".toList, "bar".toList, "1".toList, []⟩,
       ⟨"SPDXRef-Package-foo-b".toList, "foo".toList, "1".toList, []⟩,
       ⟨"SPDXRef-Package-foo-g".toList, "foo".toList, "1".toList, []⟩],
      [⟨"SPDXRef-Package-bar".toList, "DEPENDS_ON".toList, "SPDXRef-Package-foo-b".toList⟩,
       ⟨"SPDXRef-Package-bar".toList, "DEPENDS_ON".toList, "SPDXRef-Package-foo-g".toList⟩], []⟩),
   ("foo-1".toList, .doc ⟨["SPDXRef-Package-foo-a".toList, "SPDXRef-Package-foo-b".toList],
      [⟨"SPDXRef-Package-foo-a".toList, "foo".toList, "1".toList, []⟩,
       ⟨"SPDXRef-Package-foo-b".toList, "foo".toList, "1".toList, []⟩], [], []⟩)]

def f11dOpts : Opts := ⟨"sha256:ab".toList, ["sha256:cd".toList], [], "1".toList,
  [⟨"bar".toList, "1".toList, "11".toList⟩, ⟨"foo".toList, "1".toList, "22".toList⟩]⟩

theorem refs_dangle_multi_target :
    okAnd (generate f11dOpts f11dFS id) (fun d => !refsResolve d) = true ∧
    okAnd (generate f11dOpts f11dFS List.reverse) refsResolve = true ∧ multiTarget f11dOpts f11dFS = true := by
  decide

/-- F11b (repaired) — the pinned `replacePackage` ran its body also for `originalID == newID`: every
element carrying the id is deleted and the relationship that mentions it dangles; the guard keeps it -/
def f11bDoc : Doc := ⟨["SPDXRef-Package-bar".toList],
  [⟨"SPDXRef-Package-bar".toList, "bar".toList, [], []⟩, ⟨"SPDXRef-Package-foo".toList, "foo".toList, [], []⟩],
  [⟨"SPDXRef-Package-bar".toList, "DEPENDS_ON".toList, "SPDXRef-Package-foo".toList⟩], []⟩

theorem pinned_replace_dangles :
    refsResolve f11bDoc = true ∧
    refsResolve (replaceBody f11bDoc "SPDXRef-Package-foo".toList "SPDXRef-Package-foo".toList) = false ∧
    refsResolve (replacePackage f11bDoc "SPDXRef-Package-foo".toList "SPDXRef-Package-foo".toList) = true := by
  decide

/-- a sweep that adds nothing means the set is closed under the (non-file) relationships: what
`copySBOMElements` copies is self-contained -/
theorem copy_closed {src tgt d : Doc} {t0 : List Id} (h : copyElements src tgt t0 = .ok d) (hc : Closed tgt)
    (h1 : tgt.describes.length ≤ 1) : Closed d :=
  (copyElements_inv ⟨hc, h1⟩ h).1.closed

/-! ## the model's fuel is never exhausted -/

theorem mergeLics_err {s t : List (Text × Text)} {e : Err} (h : mergeLics s t = .error e) : e = .licConflict := by
  induction s generalizing t with
  | nil => simp [mergeLics] at h
  | cons x xs ih =>
    simp only [mergeLics] at h
    split at h
    · split at h
      · cases h; rfl
      · exact ih h
    · exact ih h

theorem locate_err {fs : SbomDir} {stems : List Text} {e : Err} (h : locate fs stems = .error e) : e = .sbomIsDir := by
  induction stems with
  | nil => simp [locate] at h
  | cons s rest ih =>
    simp only [locate] at h
    split at h
    · exact ih h
    · cases h; rfl
    · cases h

theorem processInternal_never_fuel {fs : SbomDir} {ord : List Id → List Id} {doc : Doc} {n v : Text} :
    processInternal fs ord doc n v ≠ .error .fuel := by
  intro h
  unfold processInternal at h
  split at h
  · next e hl => cases h; have := locate_err hl; cases this
  · cases h
  · cases h
  · cases h
  · dsimp only at h
    split at h
    · next e hc => cases h; exact copyElements_never_fuel _ _ _ hc
    · split at h
      · next e hm => cases h; have := mergeLics_err hm; cases this
      · cases h

/-- the closure loop of `copySBOMElements` is modelled with `rels.length + 1` sweeps of fuel; the fuel
always suffices, so `Generate`'s model never answers the artificial `fuel` error -/
theorem generate_never_fuel (o : Opts) (fs : SbomDir) (ord : List Id → List Id) :
    generate o fs ord ≠ .error .fuel := by
  have key : ∀ (apks : List Apk) (doc : Doc), addApks fs ord (nonceOf o.imageDigest) apks doc ≠ .error .fuel := by
    intro apks
    induction apks with
    | nil => intro doc h; simp [addApks] at h
    | cons a as ih =>
      intro doc h
      simp only [addApks] at h
      split at h
      · next e ha => cases h; exact processInternal_never_fuel ha
      · exact ih _ h
  intro h
  unfold generate at h
  split at h
  · cases h
  · split at h
    · next e ha => cases h; exact key _ _ ha
    · cases h

/-! ## apk elements, image and layers -/

/-- no installed apk has a file at one of its three SBOM paths -/
def NoEmbedded (fs : SbomDir) (o : Opts) : Prop :=
  ∀ a ∈ o.apks, locate fs (sbomStems a.name a.version) = .ok none

/-- Boolean form of `NoEmbedded` -/
def noEmbeddedB (fs : SbomDir) (o : Opts) : Bool :=
  o.apks.all fun a => match locate fs (sbomStems a.name a.version) with | .ok none => true | _ => false

theorem noEmbedded_of_B {fs : SbomDir} {o : Opts} (h : noEmbeddedB fs o = true) : NoEmbedded fs o := by
  intro a ha
  have := List.all_eq_true.mp h a ha
  split at this
  · next e => exact e
  · cases this

theorem processInternal_none {fs : SbomDir} {ord : List Id → List Id} {doc : Doc} {n v : Text}
    (h : locate fs (sbomStems n v) = .ok none) : processInternal fs ord doc n v = .ok doc := by
  unfold processInternal; rw [h]

theorem addApks_noEmbedded {fs : SbomDir} {ord : List Id → List Id} {nonce : Text} (apks : List Apk)
    (h : ∀ a ∈ apks, locate fs (sbomStems a.name a.version) = .ok none) (doc : Doc) :
    addApks fs ord nonce apks doc =
      .ok { doc with packages := doc.packages ++ apks.map (apkPackage nonce) } := by
  induction apks generalizing doc with
  | nil => simp [addApks]
  | cons a as ih =>
    simp only [addApks, addApk, processInternal_none (h a (by simp))]
    rw [ih (fun b hb => h b (by simp [hb]))]
    simp [List.append_assoc]

/-- without embedded SBOMs the document is the header (image, layers, source) followed by one element per
installed apk, in the order of the installed database — before the de-dup pass -/
theorem generate_no_embedded {o : Opts} {fs : SbomDir} {ord : List Id → List Id}
    (hl : o.layers ≠ []) (hn : NoEmbedded fs o) :
    generate o fs ord = .ok { header o with
      packages := dedup ((header o).packages ++ o.apks.map (apkPackage (nonceOf o.imageDigest))) } := by
  unfold generate
  have : o.layers.isEmpty = false := by cases h : o.layers <;> simp_all
  rw [this, addApks_noEmbedded _ hn]
  rfl

/-- the identifiers apko generates for image, layers, source and apks are pairwise distinct -/
def DistinctIds (o : Opts) : Prop :=
  ((header o).ids ++ o.apks.map (apkId (nonceOf o.imageDigest))).Nodup

/-- **one_element_per_apk_partial** — without embedded SBOMs and with distinct generated identifiers the
package list is exactly: the header elements, then for every installed apk, in order, one element with the
database's name, version and checksum; nothing else -/
theorem one_element_per_apk_partial {o : Opts} {fs : SbomDir} {ord : List Id → List Id} {d : Doc}
    (hl : o.layers ≠ []) (hn : NoEmbedded fs o) (hd : DistinctIds o) (h : generate o fs ord = .ok d) :
    d.packages = (header o).packages ++
      o.apks.map (fun a => ⟨apkId (nonceOf o.imageDigest) a, a.name, a.version, [("SHA1".toList, a.checksum)]⟩) ∧
    d.rels = (header o).rels ∧ d.describes = (header o).describes := by
  rw [generate_no_embedded hl hn] at h
  cases h
  refine ⟨?_, rfl, rfl⟩
  show dedup _ = _
  rw [dedup_of_nodup]
  · rfl
  · simpa [DistinctIds, Doc.ids, apkPackage, Function.comp_def] using hd

/-- reading of the exact list: every installed apk has exactly as many matching elements among the apk
elements as it has entries in the installed database, and every apk element matches an installed apk -/
theorem apk_elements_match {o : Opts} {fs : SbomDir} {ord : List Id → List Id} {d : Doc}
    (hl : o.layers ≠ []) (hn : NoEmbedded fs o) (hd : DistinctIds o) (h : generate o fs ord = .ok d) :
    (d.packages.drop (header o).packages.length).map (fun p => (p.name, p.version, p.checksums)) =
      o.apks.map (fun a => (a.name, a.version, [("SHA1".toList, a.checksum)])) := by
  rw [(one_element_per_apk_partial hl hn hd h).1, List.drop_left]
  simp [Function.comp_def]

/-- **image_layers_by_digest** — under the same hypotheses, with an image digest: the single described
element is the image element, named by the digest with the hex part as SHA256; every layer has an element
named by its digest which the image element CONTAINS -/
theorem image_layers_by_digest {o : Opts} {fs : SbomDir} {ord : List Id → List Id} {d : Doc}
    (hl : o.layers ≠ []) (hi : o.imageDigest.isEmpty = false) (hn : NoEmbedded fs o) (hd : DistinctIds o)
    (h : generate o fs ord = .ok d) :
    d.describes = [imageId o.imageDigest] ∧
    (⟨imageId o.imageDigest, o.imageDigest, o.imageDigest,
       [("SHA256".toList, trimPrefix "sha256:".toList o.imageDigest)]⟩ : Pkg) ∈ d.packages ∧
    ∀ l ∈ o.layers, (⟨layerId l, l, o.osVersion, []⟩ : Pkg) ∈ d.packages ∧
      (⟨imageId o.imageDigest, "CONTAINS".toList, layerId l⟩ : Rel) ∈ d.rels := by
  obtain ⟨hp, hr, hdsc⟩ := one_element_per_apk_partial hl hn hd h
  rw [hp, hr, hdsc, header_image hi]
  split
  · refine ⟨rfl, by simp [headerBase, imagePackage], ?_⟩
    intro l hl'
    refine ⟨?_, ?_⟩
    · simp only [headerBase, List.mem_append, List.mem_cons, layerPackages, List.mem_map]
      exact Or.inl (Or.inr ⟨l, hl', rfl⟩)
    · simp only [headerBase, List.mem_map]
      exact ⟨l, hl', rfl⟩
  · refine ⟨rfl, by simp [addSourcePackage, headerBase, imagePackage], ?_⟩
    intro l hl'
    refine ⟨?_, ?_⟩
    · simp only [addSourcePackage, headerBase, List.mem_append, List.mem_cons, layerPackages, List.mem_map]
      exact Or.inl (Or.inl (Or.inr ⟨l, hl', rfl⟩))
    · simp only [addSourcePackage, headerBase, List.mem_append, List.mem_map]
      exact Or.inl ⟨l, hl', rfl⟩

/-- **image_layers_by_digest**, with embedded SBOMs of arbitrary shape — provided nothing else in the input
claims the names or identifiers of image and layers (no apk is named like a digest; no embedded element,
apk or source identifier equals the image's or a layer's): the single described element is the image's
identifier, carried by an element named by a digest of the image; every layer identifier is carried by
such an element and is CONTAINed by the image -/
theorem image_layers_by_digest_embedded {o : Opts} {fs : SbomDir} {ord : List Id → List Id} {d : Doc}
    (hi : o.imageDigest.isEmpty = false)
    (hname : ∀ a ∈ o.apks, a.name ∉ digests o) (hemb : ∀ i ∈ embeddedIds fs, i ∉ protIds o)
    (hapk : ∀ a ∈ o.apks, apkId (nonceOf o.imageDigest) a ∉ protIds o)
    (hsrc : sourceId o.vcsUrl ∉ protIds o) (h : generate o fs ord = .ok d) :
    d.describes = [imageId o.imageDigest] ∧
    (∀ i ∈ protIds o, ∃ p ∈ d.packages, p.id = i ∧ p.name ∈ digests o) ∧
    ∀ l ∈ o.layers, (⟨imageId o.imageDigest, "CONTAINS".toList, layerId l⟩ : Rel) ∈ d.rels := by
  unfold generate at h
  split at h
  · cases h
  · split at h
    · cases h
    · next doc ha =>
      cases h
      have hp := addApks_prot _ hname hemb hapk (header_prot hi hsrc) ha
      refine ⟨hp.desc, ?_, hp.rels⟩
      intro i hi'
      have : i ∈ (dedup doc.packages).map (·.id) := (dedup_ids _ i).mpr (hp.ids i hi')
      obtain ⟨p, hpm, rfl⟩ := List.mem_map.mp this
      exact ⟨p, hpm, rfl, hp.names p (dedup_mem hpm) hi'⟩

/-- its hypotheses hold for `exOpts` with the embedded SBOM `exFS` -/
example : (∀ a ∈ exOpts.apks, a.name ∉ digests exOpts) ∧ (∀ i ∈ embeddedIds exFS, i ∉ protIds exOpts) ∧
    (∀ a ∈ exOpts.apks, apkId (nonceOf exOpts.imageDigest) a ∉ protIds exOpts) ∧
    sourceId exOpts.vcsUrl ∉ protIds exOpts := by decide

/-- the hypotheses are satisfiable (two layers, source, two apks with characters outside the alphabet) -/
def exOpts2 : Opts := ⟨"sha256:ab".toList, ["sha256:cd".toList, "sha256:ef".toList], "https://x/y@12".toList, "1".toList,
  [⟨"a+".toList, "1:2".toList, "22".toList⟩, ⟨"b c".toList, "2".toList, "33".toList⟩]⟩

example : exOpts2.layers ≠ [] ∧ NoEmbedded exFS exOpts2 ∧ DistinctIds exOpts2 := by
  exact ⟨by decide, noEmbedded_of_B (by decide), by unfold DistinctIds; decide⟩

/-- F11a — the unrestricted statement is false: `a+ 1` and `aC43 1` get the same identifier and the
de-dup pass drops the second; no element of the document is named `aC43` -/
def f11aOpts : Opts := ⟨"sha256:ab".toList, ["sha256:cd".toList], [], "1".toList,
  [⟨"a+".toList, "1".toList, "11".toList⟩, ⟨"aC43".toList, "1".toList, "22".toList⟩]⟩

theorem apk_element_lost_on_collision :
    okAnd (generate f11aOpts [] id) (fun d =>
      d.packages.map (·.name) == ["sha256:ab", "sha256:cd", "a+"].map String.toList && !apksOk f11aOpts [] d) = true ∧
    idCollision f11aOpts = true := by
  decide

/-- F11c — with an embedded SBOM the apko-generated element (db version and checksum) is removed in
favour of the embedded one -/
def f11cFS : SbomDir :=
  [("foo-1.2-r0".toList, .doc ⟨["SPDXRef-Package-foo".toList],
      [⟨"SPDXRef-Package-foo".toList, "foo".toList, "1.2".toList, []⟩], [], []⟩)]

def f11cOpts : Opts := ⟨"sha256:ab".toList, ["sha256:cd".toList], [], "1".toList,
  [⟨"foo".toList, "1.2-r0".toList, "22".toList⟩]⟩

theorem apk_element_replaced_by_embedded :
    okAnd (generate f11cOpts f11cFS id) (fun d =>
      d.packages.map (fun p => (p.name, p.version, p.checksums)) ==
          [("sha256:ab".toList, "sha256:ab".toList, [("SHA256".toList, "ab".toList)]),
           ("sha256:cd".toList, "1".toList, []), ("foo".toList, "1.2".toList, [])] && !apksOk f11cOpts f11cFS d) = true ∧
    embeddedTarget f11cOpts f11cFS = true := by
  decide

/-! ## the index document -/

theorem index_ids_valid {o : IndexOpts} {d : Doc} (h : generateIndex o = .ok d) :
    ∀ p ∈ d.packages, validSpdxId p.id = true := by
  unfold generateIndex at h
  split at h
  · cases h
  · cases h
    have hv : ∀ s, validSpdxId (pfx ++ stringToIdentifier s) = true := fun s => validSpdxId_pfx (sti_alphabet s)
    intro p hp
    split at hp
    · simp only [List.mem_cons, List.mem_map] at hp
      rcases hp with rfl | ⟨x, _, rfl⟩
      · exact hv _
      · exact hv _
    · simp only [addSourcePackage, List.mem_append, List.mem_cons, List.mem_map, List.not_mem_nil, or_false] at hp
      rcases hp with (rfl | ⟨x, _, rfl⟩) | rfl
      · exact hv _
      · exact hv _
      · exact hv _

/-- the VARIANT_OF relationships use `stringToIdentifier(indexPackage.ID)` as their element: by
idempotence this is the index element's own identifier, so every reference resolves -/
theorem index_refs_resolve {o : IndexOpts} {d : Doc} (h : generateIndex o = .ok d) : refsResolve d = true := by
  rw [refsResolve_iff]
  unfold generateIndex at h
  split at h
  · cases h
  · cases h
    have hidem : stringToIdentifier (indexId o) = indexId o := by
      unfold indexId
      rw [sti_pfx_append, sti_idempotent]
    have base : Inv ⟨[indexId o], indexPackage o :: o.images.map archImagePackage,
        o.images.map (fun h => (⟨stringToIdentifier (indexId o), "VARIANT_OF".toList, pfx ++ stringToIdentifier h.str⟩ : Rel)), []⟩ := by
      refine ⟨⟨?_, ?_⟩, by simp⟩
      · intro r hr
        simp only [List.mem_map] at hr
        obtain ⟨x, hx, rfl⟩ := hr
        rw [hidem]
        simp only [Doc.ids, List.map_cons, List.map_map, List.mem_cons, List.mem_map]
        exact ⟨Or.inl rfl, Or.inr ⟨x, hx, rfl⟩⟩
      · intro i hi
        simp only [List.mem_singleton] at hi
        subst hi
        simp [Doc.ids, indexPackage]
    split
    · exact base.closed
    · exact (addSourcePackage_inv _ base (by simp [Doc.ids, indexPackage])).closed

/-- the index document describes exactly the index element, named by the index digest with the hex part
as SHA256, and has one element per image carrying that image's digest -/
theorem index_describes_index {o : IndexOpts} {d : Doc} (h : generateIndex o = .ok d) :
    d.describes = [indexId o] ∧
    (⟨indexId o, o.indexDigest.str, o.indexDigest.str, [("SHA256".toList, o.indexDigest.hex)]⟩ : Pkg) ∈ d.packages ∧
    ∀ im ∈ o.images, archImagePackage im ∈ d.packages ∧
      (⟨indexId o, "VARIANT_OF".toList, (archImagePackage im).id⟩ : Rel) ∈ d.rels := by
  have hidem : stringToIdentifier (indexId o) = indexId o := by
    unfold indexId
    rw [sti_pfx_append, sti_idempotent]
  unfold generateIndex at h
  split at h
  · cases h
  · cases h
    rw [hidem]
    split
    · refine ⟨rfl, by simp [indexPackage], ?_⟩
      intro im him
      exact ⟨by simp only [List.mem_cons, List.mem_map]; exact Or.inr ⟨im, him, rfl⟩,
             by simp only [List.mem_map]; exact ⟨im, him, rfl⟩⟩
    · refine ⟨rfl, by simp [addSourcePackage, indexPackage], ?_⟩
      intro im him
      exact ⟨by simp only [addSourcePackage, List.mem_append, List.mem_cons, List.mem_map]; exact Or.inl (Or.inr ⟨im, him, rfl⟩),
             by simp only [addSourcePackage, List.mem_append, List.mem_map]; exact Or.inl ⟨im, him, rfl⟩⟩

end Apko.C11
